(* C01 — program results equal the documented language semantics.  Statements only; proofs in
   proofs/PrattProofs.v, TemplateProofs.v, F64Proofs.v, SimpleTypesProofs.v.

   The umbrella statement is

     eval_refines_spec :
       forall p eps fuel o e, accepted p ->
         Lang.run_impl None eps fuel p = (o, e) -> e is not EFuel / Unsupported / Panicked ->
         exists fuel', Spec.run_spec eps fuel' p = (o, e)

   (the outputs and the ending of the implementation model are those of the documented
   semantics).  Both sides share the operator / built-in / Display tables and F64.v, so the
   proof is a simulation whose non-trivial parts belong to the neighbouring properties and are
   proved there:
     - name resolution (id-directed dynamic lookup = lexical scoping by static links):
       Properties/C04.v  C04_impl_equals_spec_scoping, C04_most_recent_simulation,
       C04_simulation_kit, C04_function_visibility (and its refuted early-capture class);
     - mutation (one store per index assignment / mutating call, copies are values):
       Properties/C05.v  C05_setidx_is_one_store, C05_mutating_call_is_one_store,
       C05_history_frame, C05_copy_is_value;
     - pruning (run_impl (Some plan) = run_impl None): Properties/C03.v  C03_plan_ok_sound,
       C03_plan_ok_full, C03_prune_sound_partial_*;
     - no panic ending: Properties/C06.v  C06_accepted_never_panics_partial.
   It is NOT restated as a theorem here.  On the implementation itself it is evaluated as the
   oracle of the `programs` stream of lib/props/c01.py (real interpreter vs extracted run_spec).

   What this file proves is C01's own part: the expression grammar (precedence, associativity,
   redundant parentheses), template strings, the hand-written float operations, and the
   operator-level part of "a valid program is never rejected". *)
From Coq Require Import ZArith List Bool SpecFloat.
Require Import NS.theories.F64 NS.theories.Lang NS.theories.GenPratt NS.theories.Pratt
               NS.theories.Template NS.theories.GenTemplate NS.theories.SimpleTypes
               NS.theories.GenRules NS.theories.StaticRules.
Require Import NS.proofs.PrattProofs NS.proofs.TemplateProofs NS.proofs.F64Proofs
               NS.proofs.SimpleTypesProofs.
Import ListNotations.
Open Scope Z_scope.

(* ================================================================ Pratt parser *)

(* For every expression tree and every choice of redundant parentheses (an `aexpr` is a tree with
   AParen nodes wherever the writer liked), the token-level model of parse_expression /
   parse_expression_continuation, run on the printed tokens — parentheses exactly where
   precedence and associativity require them, plus the AParen ones — gives the tree back and
   uses up the tokens.  Covered: literals, identifiers, unary `not`/`minus`, the ten binary
   operators, parentheses, array literals, `[index]`, `.name`, `(args)` on any callee.
   The binding powers are the generated ones (GenPratt.binop_bp / unary_bp / ..._bp). *)
Theorem C01_pratt_roundtrip : forall a : aexpr, parse_tokens (print a) = POk (erase a).
Proof. exact pratt_roundtrip. Qed.
Print Assumptions C01_pratt_roundtrip.

(* every tree is the erasure of some annotated tree (the one with no redundant parentheses) *)
Theorem C01_pratt_every_tree_printable : forall e : pexpr, erase (embed e) = e.
Proof. exact erase_embed. Qed.
Print Assumptions C01_pratt_every_tree_printable.

Theorem C01_pratt_roundtrip_tree :
  forall (e : pexpr) (a : aexpr), erase a = e -> parse_tokens (print a) = POk e.
Proof. exact pratt_roundtrip_tree. Qed.
Print Assumptions C01_pratt_roundtrip_tree.

(* first milestone (subsumed): atoms, unary, binary, parentheses *)
Theorem C01_pratt_roundtrip_partial :
  forall a : aexpr, basic a = true -> parse_tokens (print a) = POk (erase a).
Proof. exact pratt_roundtrip_partial. Qed.
Print Assumptions C01_pratt_roundtrip_partial.

(* parentheses the grammar does not need never change the tree (also used by C10) *)
Theorem C01_parens_redundant :
  forall a1 a2 : aexpr, erase a1 = erase a2 -> parse_tokens (print a1) = parse_tokens (print a2).
Proof. exact parens_redundant. Qed.
Print Assumptions C01_parens_redundant.

Theorem C01_parens_redundant_outer :
  forall a : aexpr, parse_tokens (TLP :: print a ++ [TRP]) = parse_tokens (print a).
Proof. exact parens_redundant_outer. Qed.
Print Assumptions C01_parens_redundant_outer.

(* the fuel parse_tokens supplies is never exhausted, on any token list *)
Theorem C01_parse_tokens_total : forall ts, parse_tokens ts <> POof.
Proof. exact parse_tokens_total. Qed.
Print Assumptions C01_parse_tokens_total.

(* the side conditions the proof needs, and the documented levels
   or < and < comparison < add/minus < times/divide/mod (< unary < postfix), of the GENERATED
   table: swapping two binding powers in parser.rs makes one of these fail to compute to true *)
Theorem C01_table_side_conditions : table_ok = true.
Proof. exact table_ok_true. Qed.
Print Assumptions C01_table_side_conditions.

Theorem C01_levels_strictly_ordered : levels_ok = true.
Proof. exact levels_ok_true. Qed.
Print Assumptions C01_levels_strictly_ordered.

Theorem C01_precedence_looser_operator_first : forall a b x y z, level a < level b ->
  parse_tokens [TIdent x; TOp a; TIdent y; TOp b; TIdent z]
  = POk (PBin a (PVar x) (PBin b (PVar y) (PVar z))).
Proof. exact prec_looser_first. Qed.
Print Assumptions C01_precedence_looser_operator_first.

Theorem C01_precedence_tighter_operator_first : forall a b x y z, level a < level b ->
  parse_tokens [TIdent x; TOp b; TIdent y; TOp a; TIdent z]
  = POk (PBin a (PBin b (PVar x) (PVar y)) (PVar z)).
Proof. exact prec_tighter_first. Qed.
Print Assumptions C01_precedence_tighter_operator_first.

Theorem C01_left_associative : forall a b x y z, level a = level b ->
  parse_tokens [TIdent x; TOp a; TIdent y; TOp b; TIdent z]
  = POk (PBin b (PBin a (PVar x) (PVar y)) (PVar z)).
Proof. exact left_assoc. Qed.
Print Assumptions C01_left_associative.

Theorem C01_unary_binds_tighter_than_binary : forall u op x y,
  parse_tokens [un_tok u; TIdent x; TOp op; TIdent y] = POk (PBin op (PUn u (PVar x)) (PVar y)).
Proof. exact unary_tighter_than_binary. Qed.
Print Assumptions C01_unary_binds_tighter_than_binary.

Theorem C01_postfix_binds_tighter_than_unary : forall u x f,
  parse_tokens [un_tok u; TIdent x; TDot; TIdent f; TLP; TRP]
  = POk (PUn u (PCall (PMember (PVar x) f) [])).
Proof. exact postfix_tighter_than_unary. Qed.
Print Assumptions C01_postfix_binds_tighter_than_unary.

Theorem C01_postfix_binds_tighter_than_binary : forall op x y i,
  parse_tokens [TIdent x; TOp op; TIdent y; TLB; TIdent i; TRB]
  = POk (PBin op (PVar x) (PIdx (PVar y) (PVar i))).
Proof. exact postfix_tighter_than_binary. Qed.
Print Assumptions C01_postfix_binds_tighter_than_binary.

(* the hypotheses are satisfiable: `(a add b) times c.len()` written with a redundant pair *)
Example C01_pratt_example :
  parse_tokens (print (ABin Times (AParen (AParen (ABin Add (AVar [97]) (AVar [98]))))
                                  (ACall (AMember (AVar [99]) [108;101;110]) ANil)))
  = POk (PBin Times (PBin Add (PVar [97]) (PVar [98])) (PCall (PMember (PVar [99]) [108;101;110]) [])).
Proof. vm_compute. reflexivity. Qed.

(* ================================================================ template strings *)

(* the segment list parse_template_segments builds denotes the documented reading of the
   template: `{{` is `{`, `}}` is `}`, `{ name }` is a variable, a `{` that does not start a
   placeholder is literal up to and including the next `}`, everything else is itself
   (adjacent literal segments are not observable, so the statement is about the flat reading) *)
Theorem C01_template_spec : forall s, flat (parse_template s) = template_reading s.
Proof. exact template_spec. Qed.
Print Assumptions C01_template_spec.

(* every sequence of text pieces (arbitrary bytes) and references to valid names has a
   template, and it reads as that sequence *)
Theorem C01_template_roundtrip : forall segs,
  forallb seg_ok segs = true -> template_reading (unparse segs) = flat segs.
Proof. exact template_roundtrip. Qed.
Print Assumptions C01_template_roundtrip.

(* whitespace inside the braces is ignored *)
Theorem C01_template_placeholder_whitespace : forall w1 n w2 rest,
  forallb is_ws w1 = true -> valid_name n = true -> forallb is_ws w2 = true ->
  template_reading (LB :: w1 ++ n ++ w2 ++ RB :: rest) = IVar n :: template_reading rest.
Proof. exact R_placeholder. Qed.
Print Assumptions C01_template_placeholder_whitespace.

(* The reading of a whole literal: a literal is a template only when it contains `{`
   (Template.literal_reading; `{{`/`}}` are documented nowhere, so `}}` in a literal without `{`
   stays `}}` — as coded, not counted as a defect).  parse_string_literal of the CURRENT source
   (GenTemplate.variant_of_source, regenerated on every run) reads every literal that way,
   including literals with escape sequences (repaired by 67a56e3: the statement stops
   type-checking if that repair is lost). *)
Theorem C01_literal_spec_source : forall s owned,
  parts_items (parse_string_literal variant_of_source s owned) = literal_reading s.
Proof. exact literal_spec_current. Qed.
Print Assumptions C01_literal_spec_source.

(* for any state of the two switches with the `{` gate: the only deviating class *)
Theorem C01_literal_spec_gate : forall v s owned,
  v_open_brace_gate v = true ->
  ~ (v_owned_static v = true /\ owned = true /\ has_byte LB s = true) ->
  parts_items (parse_string_literal v s owned) = literal_reading s.
Proof. exact literal_spec_gate. Qed.
Print Assumptions C01_literal_spec_gate.

(* the shipped parser (before 67a56e3): "a\t{x}" was not interpolated *)
Theorem C01_refuted_escaped_string_not_interpolated :
  parts_items (parse_string_literal shipped [97; 9; 123; 120; 125] true)
  <> literal_reading [97; 9; 123; 120; 125].
Proof. vm_compute. discriminate. Qed.
Print Assumptions C01_refuted_escaped_string_not_interpolated.

(* ================================================================ float operations *)

Theorem C01_of_bits_to_bits : forall x, valid x -> of_bits (to_bits x) = x.
Proof. exact of_bits_to_bits. Qed.
Print Assumptions C01_of_bits_to_bits.

Theorem C01_to_bits_of_bits :
  forall b, 0 <= b < 2 ^ 64 -> ~ nan_pattern b -> to_bits (of_bits b) = b.
Proof. exact to_bits_of_bits. Qed.
Print Assumptions C01_to_bits_of_bits.

Theorem C01_of_bits_valid : forall b, 0 <= b < 2 ^ 64 -> valid (of_bits b).
Proof. exact of_bits_valid. Qed.
Print Assumptions C01_of_bits_valid.

Theorem C01_to_isize_range : forall x, - 2 ^ 63 <= to_isize x <= 2 ^ 63 - 1.
Proof. exact to_isize_range. Qed.
Print Assumptions C01_to_isize_range.

Theorem C01_to_usize_range : forall x, 0 <= to_usize x <= 2 ^ 64 - 1.
Proof. exact to_usize_range. Qed.
Print Assumptions C01_to_usize_range.

(* Rust's `%`: the result has the sign of the dividend *)
Theorem C01_frem_sign : forall x y,
  match frem x y with S754_nan => True | r => sign_of r = sign_of x end.
Proof. exact frem_sign. Qed.
Print Assumptions C01_frem_sign.

Theorem C01_round_ops_keep_sign : forall x,
  (match ffloor x with S754_nan => True | r => sign_of r = sign_of x end) /\
  (match fceil x with S754_nan => True | r => sign_of r = sign_of x end) /\
  (match fround x with S754_nan => True | r => sign_of r = sign_of x end).
Proof. exact round_ops_sign. Qed.
Print Assumptions C01_round_ops_keep_sign.

(* floor / ceil / round return integers: proved for every double through SpecFloat's
   binary_normalize (an integer given with exponent 0 is normalised without losing its low bits) *)
Theorem C01_round_ops_return_integers : forall x,
  is_finite x = true ->
  (is_finite (ffloor x) = true -> is_int (ffloor x) = true) /\
  (is_finite (fceil x) = true -> is_int (fceil x) = true) /\
  (is_finite (fround x) = true -> is_int (fround x) = true).
Proof. exact round_ops_int. Qed.
Print Assumptions C01_round_ops_return_integers.

(* finite sweeps (every negative binary exponent x boundary mantissas x both signs, 15 046
   inputs): floor/ceil/round return integers bracketing x; |x % y| < |y| *)
Theorem C01_round_ops_integers_sweep : forallb round_ok sweep_inputs = true.
Proof. exact round_ops_sweep. Qed.
Print Assumptions C01_round_ops_integers_sweep.

Theorem C01_frem_magnitude_sweep :
  forallb (fun p => rem_ok (fst p) (snd p)) rem_pairs = true.
Proof. exact frem_magnitude_sweep. Qed.
Print Assumptions C01_frem_magnitude_sweep.

(* ================================================================ acceptance *)

(* the documented operator tables are inside the tables of the static checker (the C09 model
   of src/resolver.rs): an operator application that is simply typed is not a Type mismatch,
   and the checker's inferred type refines the documented one *)
Theorem C01_accept_binary_operator_table : forall op l r t,
  binop_ty op l r = Some t ->
  bin_ok op (Some (conv l)) (Some (conv r)) = true /\
  exists t', infer_bin op (conv l) (conv r) = Some t' /\ refines t' t.
Proof. exact binop_table_accepted. Qed.
Print Assumptions C01_accept_binary_operator_table.

Theorem C01_accept_unary_operator_table : forall u a t,
  unop_ty u a = Some t ->
  un_ok u (Some (conv a)) = true /\ exists t', infer_un u (conv a) = Some t' /\ refines t' t.
Proof. exact unop_table_accepted. Qed.
Print Assumptions C01_accept_unary_operator_table.

(* `accept_welltyped : simply_typed p = true -> check p = []` is NOT a theorem for this type
   system: results of user functions are dyn here, the checker infers them (witness below: f
   always returns a string, `f() minus 1` is simply typed and rightly rejected).  The `accept`
   stream therefore also requires that the program runs under Spec.run_spec without a type
   error before it counts a rejection as a failure. *)
Theorem C01_simply_typed_alone_is_not_sufficient :
  simply_typed not_sufficient_witness = true /\ StaticRules.check not_sufficient_witness <> [].
Proof. exact simply_typed_not_sufficient. Qed.
Print Assumptions C01_simply_typed_alone_is_not_sufficient.

(* the documented snippets are simply typed, e.g. NULL.md: make foo get null  shout(foo na 0) *)
Example C01_simply_typed_example :
  simply_typed [SMake None [102] None ENull;
                SExpr None (ECall (EVar n_shout None) [EBin OEq (EVar [102] None) (ENum (of_Z 0))] None)] = true.
Proof. vm_compute. reflexivity. Qed.

(* ================================================================ the full parser model *)
(* theories/Parser.v transcribes the whole of src/syntax/parser.rs (spans, diagnostics, recovery)
   and reuses Pratt.v / Template.v; proofs/ParserPratt.v shows that its parse_expression coincides
   with Pratt.parse_expr wherever the latter succeeds.  Statements as in Properties/PARSER.v. *)
Require NS.Properties.PARSER.

Theorem C01_parser_expression_agrees_with_pratt :
  ltac:(let t := type of NS.Properties.PARSER.PARSER_expression_agrees_with_pratt in exact t).
Proof. exact NS.Properties.PARSER.PARSER_expression_agrees_with_pratt. Qed.
Print Assumptions C01_parser_expression_agrees_with_pratt.

Theorem C01_parser_pratt_roundtrip :
  ltac:(let t := type of NS.Properties.PARSER.PARSER_pratt_roundtrip in exact t).
Proof. exact NS.Properties.PARSER.PARSER_pratt_roundtrip. Qed.
Print Assumptions C01_parser_pratt_roundtrip.

Theorem C01_parser_make_statement_roundtrip :
  ltac:(let t := type of NS.Properties.PARSER.PARSER_make_statement_roundtrip in exact t).
Proof. exact NS.Properties.PARSER.PARSER_make_statement_roundtrip. Qed.
Print Assumptions C01_parser_make_statement_roundtrip.

Theorem C01_parser_parens_redundant :
  ltac:(let t := type of NS.Properties.PARSER.PARSER_parens_redundant in exact t).
Proof. exact NS.Properties.PARSER.PARSER_parens_redundant. Qed.
Print Assumptions C01_parser_parens_redundant.

Theorem C01_parser_precedence_looser_operator_first :
  ltac:(let t := type of NS.Properties.PARSER.PARSER_precedence_looser_operator_first in exact t).
Proof. exact NS.Properties.PARSER.PARSER_precedence_looser_operator_first. Qed.
Print Assumptions C01_parser_precedence_looser_operator_first.

Theorem C01_parser_left_associative :
  ltac:(let t := type of NS.Properties.PARSER.PARSER_left_associative in exact t).
Proof. exact NS.Properties.PARSER.PARSER_left_associative. Qed.
Print Assumptions C01_parser_left_associative.

(* ================================================================ the umbrella statement *)
(* eval_refines_spec, as far as the neighbouring properties prove it: for a program whose ids
   are the lexical ones (C04: LexResolve.lexical, what the resolver is shown to produce by the
   C04 correspondence), a plan the C03 checker accepts in its four proved classes with nothing
   left over, and a reference run that finishes or raises a runtime error (comparable: not
   stuck, not out of fuel, not unsupported), the implementation model WITH the plan prints the
   same values and ends the same way, with the same fuel.
   Exclusions carried over: programs outside `lexical` (the refuted early-capture class of
   C04), plans with a non-empty residual (C03's unproved remainder), reference runs that are
   stuck / out of fuel / unsupported, and everything F64.v, the operator tables and the
   built-ins share between the two sides (validated by the f64 and programs streams). *)
Require NS.proofs.C01Compose.
Theorem C01_eval_refines_spec :
  ltac:(let t := type of NS.proofs.C01Compose.eval_refines_spec in exact t).
Proof. exact NS.proofs.C01Compose.eval_refines_spec. Qed.
Print Assumptions C01_eval_refines_spec.
Check (C01_eval_refines_spec :
  forall eps fuel p ss fs o e,
    NS.theories.LexResolve.lexical p = true ->
    NS.theories.Spec.run_spec eps fuel p = (o, e) ->
    NS.proofs.ScopeProofs.comparable e = true ->
    NS.theories.PlanCheck.v_checked (NS.theories.LiveCheck.x_main (NS.theories.LiveCheck.plan_ok3 p ss fs)) = true ->
    NS.theories.LiveCheck.x_checked (NS.theories.LiveCheck.plan_ok3 p ss fs) = true ->
    NS.theories.LiveCheck.x_residual (NS.theories.LiveCheck.plan_ok3 p ss fs) = ([], []) ->
    run_impl (Some (ss, fs)) eps fuel p = (o, NS.proofs.ScopeProofs.ending_of e)).

(* the same against C03's strongest statement (C03_prune_sound_all_classes: plan_ok4, i.e. the
   four classes plus stores whose right-hand side calls pure, trap-free user functions) *)
Theorem C01_eval_refines_spec_all_classes :
  ltac:(let t := type of NS.proofs.C01Compose.eval_refines_spec_all_classes in exact t).
Proof. exact NS.proofs.C01Compose.eval_refines_spec_all_classes. Qed.
Print Assumptions C01_eval_refines_spec_all_classes.
Check (C01_eval_refines_spec_all_classes :
  forall eps fuel p ss fs o e,
    NS.theories.LexResolve.lexical p = true ->
    NS.theories.Spec.run_spec eps fuel p = (o, e) ->
    NS.proofs.ScopeProofs.comparable e = true ->
    NS.theories.PlanCheck.v_checked (NS.theories.LiveCheck.x_main (NS.theories.LiveCheck.plan_ok4 p ss fs)) = true ->
    NS.theories.LiveCheck.x_checked (NS.theories.LiveCheck.plan_ok4 p ss fs) = true ->
    NS.theories.LiveCheck.x_residual (NS.theories.LiveCheck.plan_ok4 p ss fs) = ([], []) ->
    run_impl (Some (ss, fs)) eps fuel p = (o, NS.proofs.ScopeProofs.ending_of e)).

(* ================================================================== round 3: end-to-end composition
   theories/Pipeline.v assembles lexer -> parser -> named tree -> static rules -> evaluator from SOURCE
   BYTES (tied to the code by lib/props/pipeline.py on source text).  Statements as in
   Properties/PIPELINE.v; restated by type so that this property's audit covers them. *)
Require NS.Properties.PIPELINE.

(* from source bytes: implementation model = documented semantics wherever the latter is comparable *)
Theorem C01_impl_equals_spec_end_to_end :
  ltac:(let t := type of NS.Properties.PIPELINE.PIPELINE_impl_equals_spec_end_to_end in exact t).
Proof. exact NS.Properties.PIPELINE.PIPELINE_impl_equals_spec_end_to_end. Qed.
Print Assumptions C01_impl_equals_spec_end_to_end.

(* number literals the lexer can produce are read as correctly rounded decimals *)
Theorem C01_number_literal_parses :
  ltac:(let t := type of NS.Properties.PIPELINE.PIPELINE_number_literal_parses in exact t).
Proof. exact NS.Properties.PIPELINE.PIPELINE_number_literal_parses. Qed.
Print Assumptions C01_number_literal_parses.
