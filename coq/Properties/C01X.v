(* C01X — statements C01 cites from neighbouring developments and the composition it gets from
   them.  Kept apart from Properties/C01.v so that C01's coqchk closure stays small; built by every
   `bin/check C01` (EXTRA_COQ_TARGETS).  Statements only. *)
From Coq Require Import ZArith List Bool.
Require Import NS.theories.F64 NS.theories.Lang.
Import ListNotations.

(* ================================================================ the full parser model *)
(* theories/Parser.v transcribes the whole of src/syntax/parser.rs (spans, diagnostics, recovery)
   and reuses Pratt.v / Template.v; proofs/ParserPratt.v shows that its parse_expression coincides
   with Pratt.parse_expr wherever the latter succeeds.  Statements as in Properties/PARSER.v. *)
Require NS.Properties.PARSER.

Theorem C01_parser_expression_agrees_with_pratt :
  ltac:(let t := type of NS.Properties.PARSER.PARSER_expression_agrees_with_pratt in exact t).
Proof. exact NS.Properties.PARSER.PARSER_expression_agrees_with_pratt. Qed.
Print Assumptions C01_parser_expression_agrees_with_pratt.

Theorem C01_parser_pratt_roundtrip :
  ltac:(let t := type of NS.Properties.PARSER.PARSER_pratt_roundtrip in exact t).
Proof. exact NS.Properties.PARSER.PARSER_pratt_roundtrip. Qed.
Print Assumptions C01_parser_pratt_roundtrip.

Theorem C01_parser_make_statement_roundtrip :
  ltac:(let t := type of NS.Properties.PARSER.PARSER_make_statement_roundtrip in exact t).
Proof. exact NS.Properties.PARSER.PARSER_make_statement_roundtrip. Qed.
Print Assumptions C01_parser_make_statement_roundtrip.

Theorem C01_parser_parens_redundant :
  ltac:(let t := type of NS.Properties.PARSER.PARSER_parens_redundant in exact t).
Proof. exact NS.Properties.PARSER.PARSER_parens_redundant. Qed.
Print Assumptions C01_parser_parens_redundant.

Theorem C01_parser_precedence_looser_operator_first :
  ltac:(let t := type of NS.Properties.PARSER.PARSER_precedence_looser_operator_first in exact t).
Proof. exact NS.Properties.PARSER.PARSER_precedence_looser_operator_first. Qed.
Print Assumptions C01_parser_precedence_looser_operator_first.

Theorem C01_parser_left_associative :
  ltac:(let t := type of NS.Properties.PARSER.PARSER_left_associative in exact t).
Proof. exact NS.Properties.PARSER.PARSER_left_associative. Qed.
Print Assumptions C01_parser_left_associative.

(* ================================================================ the umbrella statement *)
(* eval_refines_spec, as far as the neighbouring properties prove it: for a program whose ids
   are the lexical ones (C04: LexResolve.lexical, what the resolver is shown to produce by the
   C04 correspondence), a plan the C03 checker accepts in its four proved classes with nothing
   left over, and a reference run that finishes or raises a runtime error (comparable: not
   stuck, not out of fuel, not unsupported), the implementation model WITH the plan prints the
   same values and ends the same way, with the same fuel.
   Exclusions carried over: programs outside `lexical` (the refuted early-capture class of
   C04), plans with a non-empty residual (C03's unproved remainder), reference runs that are
   stuck / out of fuel / unsupported, and everything F64.v, the operator tables and the
   built-ins share between the two sides (validated by the f64 and programs streams). *)
Require NS.proofs.C01Compose.
Theorem C01_eval_refines_spec :
  ltac:(let t := type of NS.proofs.C01Compose.eval_refines_spec in exact t).
Proof. exact NS.proofs.C01Compose.eval_refines_spec. Qed.
Print Assumptions C01_eval_refines_spec.
Check (C01_eval_refines_spec :
  forall eps fuel p ss fs o e,
    NS.theories.LexResolve.lexical p = true ->
    NS.theories.Spec.run_spec eps fuel p = (o, e) ->
    NS.proofs.ScopeProofs.comparable e = true ->
    NS.theories.PlanCheck.v_checked (NS.theories.LiveCheck.x_main (NS.theories.LiveCheck.plan_ok3 p ss fs)) = true ->
    NS.theories.LiveCheck.x_checked (NS.theories.LiveCheck.plan_ok3 p ss fs) = true ->
    NS.theories.LiveCheck.x_residual (NS.theories.LiveCheck.plan_ok3 p ss fs) = ([], []) ->
    run_impl (Some (ss, fs)) eps fuel p = (o, NS.proofs.ScopeProofs.ending_of e)).
