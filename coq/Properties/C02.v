(* C02 — memory reclamation is invisible: no value is read after its storage is recycled.
   Statements only; proofs in proofs/MemProofs.v; model in theories/Mem.v, invariant in
   theories/MemInv.v.

   The model follows src/runtime.rs after 8134a3d (a variable read copies an owned string) and
   26ade90 (arguments are promoted when they are bound as parameters); `cfg_repaired`.  The two
   shipped variants those commits replaced, and a relocate_return_value without staging, are kept
   as configurations of the same machine and refuted by computation at the end of this file. *)
From Coq Require Import ZArith List Bool Arith.
Require Import NS.theories.F64 NS.theories.Lang NS.theories.Mem NS.theories.MemInv NS.theories.GenMem
               NS.theories.MemSrc NS.proofs.MemProofs.
Import ListNotations.
Local Open Scope nat_scope.

(* ---- Value::promote / ArenaCow::promote ---- *)
(* For every live value, aliases into the frame or into pool slots included: the result has no
   reference into the frame arena, no Borrowed string into the frame or a pool slot, and reads
   back as the same value; promote never allocates in the frame. *)
Theorem C02_promote_no_frame_refs :
  forall v h x, HeapWF h -> erase h v = Some x ->
  exists h' v', promote h v = Some (h', v') /\ HeapWF h' /\ hext anyref h h' /\ erase h' v' = Some x /\
    vall nf v' /\ vall nbp v' /\ h_frame h' = h_frame h.
Proof. exact promote_gen. Qed.
Print Assumptions C02_promote_no_frame_refs.

(* Under the invariant (Borrowed = static text only, one owner per slot) the result also owns
   each of its pool slots exclusively: a slot of the result is either a slot the argument owned
   or one that was not live before. *)
Theorem C02_promote_exclusive :
  forall v h x, HeapWF h -> erase h v = Some x -> vall bsr v -> NoDup (ids v) ->
  exists h' v', promote h v = Some (h', v') /\ promote_post h v x h' v'.
Proof. exact promote_spec. Qed.
Print Assumptions C02_promote_exclusive.

(* ---- Value::clone_into (variable read) ---- *)
Theorem C02_clone_owns_nothing :
  forall v h x, HeapWF h -> erase h v = Some x -> vall bsr v ->
  exists h' v', clone_into false h v = Some (h', v') /\ clone_post h x h' v'.
Proof. exact clone_spec. Qed.
Print Assumptions C02_clone_owns_nothing.

(* ---- overwrite_slot (assignment to an existing variable) ---- *)
(* The invariant is kept, and every OTHER variable and every printed value reads back as
   the same value as before the overwrite (the freed slot had no other owner). *)
Theorem C02_overwrite_safe :
  forall st ast x st', MemInv st -> Sim st ast ->
  step cfg_repaired st (OAssign x) = MOk st' ->
  MemInv st' /\ m_out st' = m_out st /\
  (forall y v a, y <> x -> env_find y (m_env st) = Some v -> erase (m_heap st) v = Some a ->
     exists v', env_find y (m_env st') = Some v' /\ erase (m_heap st') v' = Some a) /\
  (forall v a, In v (m_out st) -> erase (m_heap st) v = Some a -> erase (m_heap st') v = Some a).
Proof. exact overwrite_safe_lemma. Qed.
Print Assumptions C02_overwrite_safe.

(* ---- pop_scope ---- *)
Theorem C02_pop_scope_safe :
  forall st ast st', MemInv st -> Sim st ast ->
  step cfg_repaired st OPopScope = MOk st' ->
  MemInv st' /\ exists ast', astep ast OPopScope = Some ast' /\ Sim st' ast'.
Proof. exact pop_scope_safe_lemma. Qed.
Print Assumptions C02_pop_scope_safe.

(* ---- the per-iteration frame reset of Stmt::Loop ---- *)
(* The body's stores were promoted (invariant: nothing stored points into the frame), so
   resetting the frame to the iteration mark leaves every variable and every printed value
   reading back as before. *)
Theorem C02_loop_reset_safe :
  forall st st', MemInv st -> step cfg_repaired st OLoopIterEnd = MOk st' ->
  m_env st' = m_env st /\ m_out st' = m_out st /\
  (exists cr rest, m_ctl st = cr :: rest /\ m_heap st' = frame_reset (m_heap st) (c_mark cr)) /\
  (forall v a, In v (stored st) -> erase (m_heap st) v = Some a -> erase (m_heap st') v = Some a).
Proof. exact loop_reset_safe_lemma. Qed.
Print Assumptions C02_loop_reset_safe.

(* ---- relocate_return_value ---- *)
(* For every kind of live return value (scalar, Borrowed static string, frame-owned string,
   pool/persistent-owned string, array of any of these): after the frame reset to the call's
   mark and the reset of the staging mark, the result reads back as the same value, and every
   reference that was live below the mark is still live. *)
Theorem C02_relocate_sound :
  forall h v x mark, HeapWF h -> erase h v = Some x -> vall bsr v -> NoDup (ids v) ->
  mark <= length (h_frame h) ->
  exists h' v', relocate true h v mark = Some (h', v') /\ erase h' v' = Some x /\ HeapWF h' /\
    hext (below mark) h h' /\ mark <= length (h_frame h').
Proof. exact relocate_sound_lemma. Qed.
Print Assumptions C02_relocate_sound.

(* ---- one step, any op ---- *)
Theorem C02_step_preserves :
  forall o st ast, MemInv st -> Sim st ast ->
  step cfg_repaired st o <> MFault /\
  (forall st', step cfg_repaired st o = MOk st' ->
     exists ast', astep ast o = Some ast' /\ MemInv st' /\ Sim st' ast').
Proof. exact step_ok. Qed.
Print Assumptions C02_step_preserves.

(* ---- every history ---- *)
(* After every op sequence the evaluator's discipline allows, from the initial state: no read
   of dead storage and no failed allocator precondition ever happened (never MFault); the
   invariant holds; and every root (all scopes, the output, the temporaries of the current and
   of every suspended expression incl. the pending return value) erases to exactly the value the
   reclamation-free machine holds at the same place. *)
Theorem C02_meminv_reachable :
  forall ops,
  run cfg_repaired init_state ops <> MFault /\
  (forall st, run cfg_repaired init_state ops = MOk st ->
     MemInv st /\ exists ast, arun ainit ops = Some ast /\ Sim st ast).
Proof. exact meminv_reachable_lemma. Qed.
Print Assumptions C02_meminv_reachable.

(* ---- the source as it is today ---- *)
(* translator/gen_mem.py re-reads src/runtime.rs and src/arena/cow.rs on every check: a variable
   read copies owned strings, arguments are promoted when bound, relocate_return_value stages
   before the frame reset and promotes arrays, every store site (define, overwrite after the
   slot return, assign_index, push, shout) promotes, ArenaCow::promote copies frame/pool data.
   If one of these no longer holds in the source, this theorem stops compiling. *)
Theorem C02_source_discipline : source_discipline = true /\ cfg_source = cfg_repaired.
Proof. exact source_discipline_lemma. Qed.
Print Assumptions C02_source_discipline.

Theorem C02_meminv_reachable_source :
  forall ops,
  run cfg_source init_state ops <> MFault /\
  (forall st, run cfg_source init_state ops = MOk st ->
     MemInv st /\ exists ast, arun ainit ops = Some ast /\ Sim st ast).
Proof. exact meminv_reachable_source_lemma. Qed.
Print Assumptions C02_meminv_reachable_source.

(* what `nsmodel mem` prints for a sequence: ill-formed, or exactly the reclamation-free output *)
Theorem C02_observe_agrees :
  forall ops, observe cfg_repaired ops = VIll \/
  exists vs, observe cfg_repaired ops = VOk vs /\ aobserve ops = Some vs.
Proof. exact observe_agrees_lemma. Qed.
Print Assumptions C02_observe_agrees.

(* ------------------------------------------------------------------ *)
(* Non-vacuity: concrete well-formed sequences that recycle a pool slot, reset a loop frame,
   and return every kind of value. *)

Example C02_ex_slot_recycled :
  exists st, run cfg_repaired init_state p_recycle = MOk st /\
    (* two slots only: the variable's first slot was freed and handed to its second value, the
       other one holds the printed copy *)
    length (h_slots (m_heap st)) = 2 /\ h_free (m_heap st) = [] /\
    env_find 0 (m_env st) = Some (MOwned RPool 0 4 4) /\
    observe cfg_repaired p_recycle = VOk [VStr (b_cc ++ b_dd)].
Proof. eexists. vm_compute. repeat split. Qed.

Example C02_ex_loop_reset :
  exists st, run cfg_repaired init_state (firstn 20 p_loop) = MOk st /\
    (* after the second iteration the frame is back at the iteration mark *)
    length (h_frame (m_heap st)) = 1 /\
    observe cfg_repaired p_loop = VOk [VArr [VStr (b_aa ++ b_bb); VStr (b_aa ++ b_bb)]].
Proof. eexists. vm_compute. repeat split. Qed.

Example C02_ex_return_every_kind :
  map (observe cfg_repaired) [p_ret_num; p_ret_lit; p_ret_frame; p_ret_pool; p_ret_arr] =
  [VOk [VNum (of_Z 7)]; VOk [VStr b_cc]; VOk [VStr (b_aa ++ b_bb)]; VOk [VStr (b_aa ++ b_bb)];
   VOk [VArr [VStr (b_aa ++ b_bb); VStr b_cc; VArr [VStr (b_aa ++ b_bb ++ b_dd)]]]].
Proof. vm_compute. reflexivity. Qed.

Example C02_ex_returned_frame_string_state :
  exists st, run cfg_repaired init_state (firstn 10 p_ret_frame) = MOk st /\
    (* the callee's frame is gone, the staging area is reclaimed, the result sits at the mark *)
    m_tmps st = [MOwned RFrame 0 4 4] /\ length (h_frame (m_heap st)) = 1 /\ h_pers (m_heap st) = [].
Proof. eexists. vm_compute. repeat split. Qed.

(* ------------------------------------------------------------------ *)
(* The model sees the defect classes it is meant to exclude. *)

Example C02_refuted_shipped_selfassign :
  observe cfg_alias_clone p_selfassign = VFault /\
  observe cfg_repaired p_selfassign = VOk [VStr (b_aa ++ b_bb)].
Proof. vm_compute. split; reflexivity. Qed.

Example C02_refuted_shipped_stale_operand :
  (* the aliasing clone reads the recycled slot: "ccdd!" is printed for "aabb!" *)
  observe cfg_alias_clone p_addf = VOk [VStr (b_cc ++ b_dd ++ [33%Z])] /\
  aobserve p_addf = Some [VStr (b_aa ++ b_bb ++ [33%Z])] /\
  observe cfg_repaired p_addf = VOk [VStr (b_aa ++ b_bb ++ [33%Z])].
Proof. vm_compute. repeat split. Qed.

Example C02_refuted_shipped_returned_local :
  observe cfg_alias_clone p_ret_frame = VFault.
Proof. vm_compute. reflexivity. Qed.

Example C02_refuted_shipped_param_array :
  observe cfg_unpromoted_params p_param_array = VFault /\
  observe cfg_repaired p_param_array = VOk [VArr [VNum (of_Z 7); VNum (of_Z 7); VNum (of_Z 7)]].
Proof. vm_compute. split; reflexivity. Qed.

Example C02_refuted_no_staging :
  observe cfg_no_staging p_ret_frame = VFault.
Proof. vm_compute. reflexivity. Qed.

(* A nested row that kept the frame allocator under a promoted parent (the invariant's `nothing stored
   points into the frame` is violated, as by a promote that moves nested rows instead of rebuilding them):
   the row's buffer grows on the frame inside the loop body and the iteration reset reclaims it.  The
   empty row itself is harmless until it grows; re-promoting the variable (b get b) first repairs it. *)
Example C02_refuted_frame_row_under_promoted_parent :
  ~ MemInv st_frame_row /\
  run cfg_repaired st_frame_row [ORead 0; OShout] <> MFault /\
  run cfg_repaired st_frame_row p_push_row_in_loop = MFault /\
  (exists st, run cfg_repaired st_frame_row ([ORead 0; OAssign 0] ++ p_push_row_in_loop) = MOk st /\
     map (erase (m_heap st)) (m_out st) = [Some (VArr [VArr [VNum (of_Z 7)]])]).
Proof.
  split.
  - intros H. pose proof (inv_nf _ H) as Hnf. inversion Hnf as [|? ? Hv _]; subst.
    inversion Hv as [|? ? _ Hrest]; subst. inversion Hrest as [|? ? Hrow _]; subst. apply Hrow. reflexivity.
  - split; [vm_compute; discriminate|]. split; [vm_compute; reflexivity|].
    eexists. vm_compute. split; reflexivity.
Qed.

(* An argument temporary that aliases the variable's pool slot (a by-reference shortcut for string
   arguments = the aliasing clone at that site): a later argument's evaluation overwrites the variable,
   the slot is recycled, and the parameter is bound to the NEW bytes.  With the copying read the
   temporary owns nothing (C02_clone_owns_nothing), so the overwrite cannot touch it. *)
Example C02_refuted_aliasing_argument :
  observe cfg_alias_clone p_arg_then_reassign = VOk [VStr (b_cc ++ b_dd)] /\
  aobserve p_arg_then_reassign = Some [VStr (b_aa ++ b_bb)] /\
  observe cfg_repaired p_arg_then_reassign = VOk [VStr (b_aa ++ b_bb)].
Proof. vm_compute. repeat split. Qed.

(* ================================================================== *)
(* Round 4 — the evaluator issues its storage operations under the machine's discipline.

   theories/MemEval.v: `ieval / iexec / iexec_loop / iexec_block` repeat Lang.eval / exec / exec_loop /
   exec_block branch for branch (every construct: operators, string / number / array built-ins,
   interpolation, index read / assignment, push / pop / reverse through index chains, blocks, if, loops with
   comot / next, user calls with parameters and every kind of return value, plans) and issue, next to
   Lang's abstract result, the storage operations runtime.rs performs at that point (`eval_ops`).
   `run_mem c` executes the issued operations on the storage machine WITH reclamation (configuration c) and
   reads the printed values back through the machine's heap. *)
Require Import NS.theories.MemEval NS.proofs.MemEvalProofs.

(* the instrumented evaluator is Lang's evaluator: same printed values, same ending, for every
   program, plan, epsilon and fuel (Fuel / Unsupp endings included) *)
Theorem C02_memeval_mirror : forall p eps fuel prog,
  (fst (snd (irun p eps fuel prog)), ending_of_res (snd (snd (irun p eps fuel prog)))) = run_impl p eps fuel prog.
Proof. exact memeval_mirror_lemma. Qed.
Print Assumptions C02_memeval_mirror.

(* (i) the reclamation-free machine, run on the issued operations, prints exactly run_impl's output:
   Lang's environment and the machine's scopes hold the same values slot for slot (variables are
   addressed by position), the temporaries of the current and of every suspended expression are the
   machine's temporaries *)
Theorem C02_memeval_twin : forall p eps fuel prog,
  aobserve (eval_ops p eps fuel prog) = Some (fst (run_impl p eps fuel prog)).
Proof. exact memeval_twin_lemma. Qed.
Print Assumptions C02_memeval_twin.

(* progress: an operation the reclamation-free machine executes is never ill-formed for the machine
   with reclamation *)
Theorem C02_step_not_ill : forall o st ast ast', MemInv st -> Sim st ast ->
  astep ast o = Some ast' -> step cfg_repaired st o <> MIll.
Proof. exact step_not_ill. Qed.
Print Assumptions C02_step_not_ill.

(* the evaluator only issues sequences the machine accepts, and executing them never reads dead
   storage nor breaks an allocator precondition: for every program, plan, epsilon, fuel *)
Theorem C02_memeval_ops_wellformed : forall p eps fuel prog,
  exists st, run cfg_repaired init_state (eval_ops p eps fuel prog) = MOk st /\ MemInv st.
Proof. exact memeval_ops_wellformed_lemma. Qed.
Print Assumptions C02_memeval_ops_wellformed.

(* DESIGN's full statement.  For every program, plan, epsilon and fuel: running the issued operations
   on the machine WITH reclamation (per-iteration and per-call frame resets, slot recycling, relocation
   of return values; strings and arrays of all sizes) prints — read back through the heap at the end of
   the run — exactly the values `run_impl` prints, and the run ends alike.  (It holds for Fuel / Unsupp
   endings too: the operations issued up to that point are a prefix.) *)
Theorem C02_memeval_erases_to_eval : forall p eps fuel prog,
  run_mem cfg_repaired p eps fuel prog = Some (run_impl p eps fuel prog).
Proof. exact memeval_erases_to_eval_lemma. Qed.
Print Assumptions C02_memeval_erases_to_eval.

(* the same for the configuration regenerated from the source on every check *)
Theorem C02_memeval_erases_to_eval_source : forall p eps fuel prog,
  run_mem cfg_source p eps fuel prog = Some (run_impl p eps fuel prog).
Proof. exact memeval_erases_to_eval_source_lemma. Qed.
Print Assumptions C02_memeval_erases_to_eval_source.

(* Non-vacuity: a program with a loop, a user call returning a frame string, and push — its trace has
   frame resets (2 iterations + 2 calls), pool returns and promotions, and prints ["aabb!", "aabb!"] *)
Example C02_ex_memeval_loop_call :
  run_mem cfg_repaired None (fzero false) 50 ex_loop_call =
    Some ([VArr [VStr (ex_aa ++ ex_bb ++ [33%Z]); VStr (ex_aa ++ ex_bb ++ [33%Z])]], Done) /\
  r_counts (memeval_report None (fzero false) 50 ex_loop_call) = mkCounts 4 2 6 /\
  length (eval_ops None (fzero false) 50 ex_loop_call) = 78.
Proof. vm_compute. repeat split. Qed.

(* The program-level statement is false for the shipped variant (aliasing clone, before 8134a3d): the
   same instrumented run of `make x get "aa" add "bb"  x get x  shout(x)` faults on the machine *)
Example C02_refuted_memeval_alias_clone :
  run_mem cfg_alias_clone None (fzero false) 50 ex_selfassign = None /\
  run_mem cfg_repaired None (fzero false) 50 ex_selfassign = Some ([VStr (ex_aa ++ ex_bb)], Done).
Proof. vm_compute. split; reflexivity. Qed.

(* ================================================================== *)
(* Strengthening round — boxed host records (process builders and results).  They are not values of this
   machine; storage-wise a record is a persistent box holding strings, and Value::promote decides by the
   BOX's address whether anything has to be copied.  That is sound exactly when the contents obey the
   invariant's `nothing stored points into the frame` (inv_nf): *)
Theorem C02_nf_survives_any_reset : forall h v x m, erase h v = Some x -> vall nf v ->
  erase (frame_reset h m) v = Some x.
Proof. exact nf_survives_reset_lemma. Qed.
Print Assumptions C02_nf_survives_any_reset.

(* and false otherwise: a persistent record one of whose strings was built in the frame during the running
   iteration (the state left by a mutator that keeps the frame copy of a computed string: seeded changes
   C02-c2, C15-c1, C16-c1) violates the invariant, reads back correctly until the iteration ends, and is dead
   after the iteration's frame reset.  The source-side obligation is src_host_discipline (C02_source_discipline):
   every string a builder stores and every captured stream is built in the persistent arena. *)
Example C02_refuted_frame_string_in_persistent_record :
  ~ MemInv st_frame_string_in_record /\
  observe_from_ok st_frame_string_in_record [ORead 0; OShout] = true /\
  run cfg_repaired st_frame_string_in_record [OLoopIterEnd; ORead 0; OShout] = MFault.
Proof.
  split.
  - intros H. pose proof (inv_nf _ H) as Hnf. inversion Hnf as [|? ? Hv _]; subst.
    inversion Hv as [|? ? _ Hrest]; subst. inversion Hrest as [|? ? Hrow _]; subst. apply Hrow. reflexivity.
  - split; vm_compute; reflexivity.
Qed.
