(* C03 — analysis-driven pruning never changes what a program does.

   FULL STATEMENT (not proved; the static analysis of src/analysis is not modelled):

     prune_sound : forall p, resolve p = OK rp -> forall eps fuel o e,
       run_impl None eps fuel rp = (o, e) -> e <> EFuel ->
       run_impl (Some (plan rp)) eps fuel rp = (o, e)

   where `plan` would be a transcription of cfg.rs / reachability.rs / summary.rs /
   liveness.rs / diagnostics.rs / opt.rs.  What is proved instead is translation
   validation: `PlanCheck.plan_ok` classifies the entries of ANY plan for ANY resolved
   program, and dropping the entries it puts in the classes Unreachable / UnusedFn /
   NeverRead does not change `Lang.run_impl` (theorems prune_sound_partial_xxx).  The extracted
   `plan_ok` is run on the plan the real analysis produced for every generated program
   (lib/props/c03.py); entries outside the three classes (flow-sensitive dead stores,
   right-hand sides with calls or with operators applied to variables) are counted as
   "covered by the plan-vs-no-plan oracle only".

   Only statements, each closed by [exact] of a lemma of proofs/PlanProofs.v. *)
From Coq Require Import ZArith List Bool.
Require Import NS.theories.F64 NS.theories.Lang NS.theories.PlanCheck NS.proofs.PlanProofs.
Import ListNotations.
Open Scope Z_scope.

(* ---- the general statement: plan c_p1 behaves as its residual c_p2 ------------------ *)
(* covered_ok c prog is a boolean check (extracted and evaluated on real plans).  With
   c_nr = false (no never-read entry dropped) the runs are equal for every fuel, including
   runs that exhaust it. *)
Theorem C03_prune_sound_partial_residual :
  forall c prog eps fuel o e,
    covered_ok c prog = true ->
    run_impl (c_p2 c) eps fuel prog = (o, e) ->
    (c_nr c = true -> tol_ending e = false) ->
    run_impl (c_p1 c) eps fuel prog = (o, e).
Proof. exact prune_residual_sound_lemma. Qed.
Print Assumptions C03_prune_sound_partial_residual.

(* what the check evaluates: the classifier's own verdict is the hypothesis *)
Theorem C03_plan_ok_sound :
  forall prog ss fs eps fuel o e,
    v_checked (plan_ok prog ss fs) = true ->
    run_impl (Some (v_residual (plan_ok prog ss fs))) eps fuel prog = (o, e) ->
    tol_ending e = false ->
    run_impl (Some (ss, fs)) eps fuel prog = (o, e).
Proof. exact plan_ok_sound_lemma. Qed.
Print Assumptions C03_plan_ok_sound.

(* when every entry is in a covered class the pruned run equals the unpruned run *)
Theorem C03_plan_ok_full :
  forall prog ss fs eps fuel o e,
    v_checked (plan_ok prog ss fs) = true ->
    v_residual (plan_ok prog ss fs) = ([], []) ->
    run_impl None eps fuel prog = (o, e) ->
    tol_ending e = false ->
    run_impl (Some (ss, fs)) eps fuel prog = (o, e).
Proof. exact plan_ok_full_lemma. Qed.
Print Assumptions C03_plan_ok_full.

(* ---- class 1: unreachable statements ------------------------------------------------- *)
Theorem C03_prune_sound_partial_unreachable :
  forall prog ss eps fuel,
    (forall i, In i ss -> prunable_unreachable prog i = true) ->
    run_impl (Some (ss, [])) eps fuel prog = run_impl None eps fuel prog.
Proof. exact prune_unreachable_sound_lemma. Qed.
Print Assumptions C03_prune_sound_partial_unreachable.

(* "a statement reported as unreachable never executes": whatever follows a never-normal
   statement in its block can be replaced by any other (definition-free) statements without
   changing what the block does, in every state, for every fuel *)
Theorem C03_unreachable_never_runs :
  forall P eps fuel pre t rest rest' s,
    nn_p P t = true -> in_plan_stmt P (stmt_sid t) = false ->
    forallb (fun x => negb (is_fun x)) rest = true ->
    forallb (fun x => negb (is_fun x)) rest' = true ->
    exec_block P eps fuel (pre ++ t :: rest) s = exec_block P eps fuel (pre ++ t :: rest') s.
Proof. exact unreachable_never_runs_lemma. Qed.
Print Assumptions C03_unreachable_never_runs.

Theorem C03_unreachable_never_runs_program :
  forall pre t rest rest' eps fuel,
    never_normal t = true ->
    forallb (fun x => negb (is_fun x)) rest = true ->
    forallb (fun x => negb (is_fun x)) rest' = true ->
    run_impl None eps fuel (pre ++ t :: rest) = run_impl None eps fuel (pre ++ t :: rest').
Proof. exact unreachable_never_runs_top. Qed.
Print Assumptions C03_unreachable_never_runs_program.

(* ---- class 2: unused function definitions --------------------------------------------- *)
(* `live` is any set of function ids closed under "called from the live code of the root
   or of a member" that contains none of fs (checked by unused_fns_ok) *)
Theorem C03_prune_sound_partial_unused_fn :
  forall prog fs live eps fuel,
    unused_fns_ok prog fs live = true ->
    run_impl (Some ([], fs)) eps fuel prog = run_impl None eps fuel prog.
Proof. exact prune_unused_fn_sound_lemma. Qed.
Print Assumptions C03_prune_sound_partial_unused_fn.

(* ---- class 3: never-read locals -------------------------------------------------------- *)
(* a total pure expression evaluates in any state without output and without changing the
   state — unless fuel runs out or a variable it reads is not bound *)
Theorem C03_pure_notrap_total :
  forall P eps n e s, pure_total e = true ->
    exists r, eval P eps n e s = ([], r) /\ (tolr r \/ exists v, r = Ok (v, s)).
Proof. exact pure_total_eval. Qed.
Print Assumptions C03_pure_notrap_total.

(* the wider class the analysis calls PureNoTrap (operators applied to variables): no
   output and no state change, but NOT total — see C03_pure_notrap_not_total below *)
Theorem C03_pure_notrap_no_effect :
  forall P eps n e s, pure_notrap_expr e = true -> pureM (eval P eps n e s) s.
Proof. exact pure_notrap_no_effect_lemma. Qed.
Print Assumptions C03_pure_notrap_no_effect.

Theorem C03_prune_sound_partial_never_read :
  forall prog ss dead eps fuel o e,
    never_read_ok prog ss dead = true ->
    run_impl None eps fuel prog = (o, e) -> tol_ending e = false ->
    run_impl (Some (ss, [])) eps fuel prog = (o, e).
Proof. exact prune_never_read_sound_lemma. Qed.
Print Assumptions C03_prune_sound_partial_never_read.

(* ======================================================================================= *)
(* Non-vacuity: concrete programs (the ASTs the harness dumps) and the plans the real
   analysis produced for them.                                                             *)

Definition sh := [115;104;111;117;116].
Definition eps0 : f64 := of_Z 0.

(* do f() start return 1  shout(8) end  shout(f())           plan S 2 F *)
Definition ex_unreach : list stmt :=
  [SFun (Some 0) [102] [] [SRet (Some 1) (Some (ENum (of_Z 1)));
     SExpr (Some 2) (ECall (EVar sh None) [ENum (of_Z 8)] None)] (Some 1) 0 0;
   SExpr (Some 3) (ECall (EVar sh None) [ECall (EVar [102] None) [] (Some 1)] None)].

Example ex_unreach_class : prunable_unreachable ex_unreach 2 = true.
Proof. vm_compute. reflexivity. Qed.
Example ex_unreach_live : prunable_unreachable ex_unreach 3 = false.
Proof. vm_compute. reflexivity. Qed.
Example ex_unreach_runs :
  run_impl (Some ([2], [])) eps0 20 ex_unreach = ([VNum (of_Z 1)], Done).
Proof. vm_compute. reflexivity. Qed.

(* do g() start shout(7) end  do h() start g() end  shout(1)      plan S F 1 2 *)
Definition ex_unused : list stmt :=
  [SFun (Some 0) [103] [] [SExpr (Some 1) (ECall (EVar sh None) [ENum (of_Z 7)] None)] (Some 1) 0 0;
   SFun (Some 2) [104] [] [SExpr (Some 3) (ECall (EVar [103] None) [] (Some 1))] (Some 2) 0 0;
   SExpr (Some 4) (ECall (EVar sh None) [ENum (of_Z 1)] None)].

Example ex_unused_class : unused_fns_ok ex_unused [1; 2] [] = true.
Proof. vm_compute. reflexivity. Qed.
(* a called function is not in the class *)
Example ex_unused_not : unused_fns_ok ex_unreach [1] [] = false.
Proof. vm_compute. reflexivity. Qed.

(* make u get 1 add 2  make w get [true, "a"]  make x get 5  shout(x)     plan S 0 1 F *)
Definition ex_never : list stmt :=
  [SMake (Some 0) [117] (Some 0) (EBin Add (ENum (of_Z 1)) (ENum (of_Z 2)));
   SMake (Some 1) [119] (Some 1) (EArr [EBool true; EStr [97]]);
   SMake (Some 2) [120] (Some 2) (ENum (of_Z 5));
   SExpr (Some 3) (ECall (EVar sh None) [EVar [120] (Some 2)] None)].

Example ex_never_class : never_read_ok ex_never [0; 1] [0; 1] = true.
Proof. vm_compute. reflexivity. Qed.
Example ex_never_runs : run_impl None eps0 20 ex_never = ([VNum (of_Z 5)], Done).
Proof. vm_compute. reflexivity. Qed.
(* a local that is read is not in the class *)
Example ex_never_not : never_read_ok ex_never [2] [2] = false.
Proof. vm_compute. reflexivity. Qed.

(* all three classes in one plan: plan S 6 7 8 F 1 *)
Definition ex_mixed : list stmt :=
  [SFun (Some 0) [103] [] [SExpr (Some 1) (ECall (EVar sh None) [ENum (of_Z 7)] None)] (Some 1) 0 0;
   SFun (Some 2) [102] [[112]]
     [SIf (Some 3) (EVar [112] (Some 0)) [SRet (Some 4) (Some (ENum (of_Z 1)))]
        (Some [SRet (Some 5) (Some (ENum (of_Z 2)))]);
      SExpr (Some 6) (ECall (EVar sh None) [ENum (of_Z 9)] None)] (Some 2) 0 1;
   SMake (Some 7) [117] (Some 1) (EArr [ENum (of_Z 1); EStr [98]]);
   SMake (Some 8) [112;48] (Some 2) (ENum (of_Z 3));
   SExpr (Some 9) (ECall (EVar sh None) [ECall (EVar [102] None) [EBool true] (Some 2)] None)].

Example ex_mixed_verdict :
  let v := plan_ok ex_mixed [6; 7; 8] [1] in
  v_checked v = true /\ v_residual v = ([], []) /\
  v_stmt v = [(6, CUnreachable); (7, CNeverRead); (8, CNeverRead)] /\ v_fn v = [(1, FUnused)].
Proof. vm_compute. repeat split; reflexivity. Qed.

(* ---- why the remaining classes are not theorems ---------------------------------------- *)
(* make x get 1  if to say (true) start x get "s" end  make u get x minus 1  shout(2)
   The analysis classifies `x minus 1` PureNoTrap and prunes statement 3 (plan S 3 F); the
   unpruned run ends in Type mismatch, the pruned run prints 2.  (Defect found by this
   property's machinery; key pruned-stmt-can-raise-type-mismatch.) *)
Definition ex_typemis : list stmt :=
  [SMake (Some 0) [120] (Some 0) (ENum (of_Z 1));
   SIf (Some 1) (EBool true) [SSet (Some 2) [120] (Some 0) (EStr [115])] None;
   SMake (Some 3) [117] (Some 1) (EBin Minus (EVar [120] (Some 0)) (ENum (of_Z 1)));
   SExpr (Some 4) (ECall (EVar sh None) [ENum (of_Z 2)] None)].

Example C03_pure_notrap_not_total :
  pure_notrap_expr (EBin Minus (EVar [120] (Some 0)) (ENum (of_Z 1))) = true /\
  run_impl None eps0 20 ex_typemis = ([], RtErr TypeMis) /\
  run_impl (Some ([3], [])) eps0 20 ex_typemis = ([VNum (of_Z 2)], Done) /\
  v_stmt (plan_ok ex_typemis [3] []) = [(3, CNeverReadMayFail)].
Proof. vm_compute. repeat split; reflexivity. Qed.

(* make x get 1  do m(c) start if to say (c) start x get 2 end end  x get 5  m(false)  shout(x)
   plan S 4 F on the unrepaired tree (liveness treats the callee's possible write as a kill):
   the model shows that plan changes the output, and plan_ok leaves the entry in the residual *)
Definition ex_callee_kill : list stmt :=
  [SMake (Some 0) [120] (Some 0) (ENum (of_Z 1));
   SFun (Some 1) [109] [[99]]
     [SIf (Some 2) (EVar [99] (Some 1)) [SSet (Some 3) [120] (Some 0) (ENum (of_Z 2))] None] (Some 1) 1 1;
   SSet (Some 4) [120] (Some 0) (ENum (of_Z 5));
   SExpr (Some 5) (ECall (EVar [109] None) [EBool false] (Some 1));
   SExpr (Some 6) (ECall (EVar sh None) [EVar [120] (Some 0)] None)].

Example C03_dead_store_class_needs_the_analysis :
  run_impl None eps0 20 ex_callee_kill = ([VNum (of_Z 5)], Done) /\
  run_impl (Some ([4], [])) eps0 20 ex_callee_kill = ([VNum (of_Z 1)], Done) /\
  v_stmt (plan_ok ex_callee_kill [4] []) = [(4, CDeadStore)] /\
  v_residual (plan_ok ex_callee_kill [4] []) = ([4], []).
Proof. vm_compute. repeat split; reflexivity. Qed.

(* make x get 1  do set_x() start x get 2 return 0 end  make y get set_x()  shout(x)
   plan S 4 F on the unrepaired tree (stmt_effective_class ignores the callee's capture write) *)
Definition ex_callee_write : list stmt :=
  [SMake (Some 0) [120] (Some 0) (ENum (of_Z 1));
   SFun (Some 1) [115;101;116;95;120] []
     [SSet (Some 2) [120] (Some 0) (ENum (of_Z 2)); SRet (Some 3) (Some (ENum (of_Z 0)))] (Some 1) 0 0;
   SMake (Some 4) [121] (Some 1) (ECall (EVar [115;101;116;95;120] None) [] (Some 1));
   SExpr (Some 5) (ECall (EVar sh None) [EVar [120] (Some 0)] None)].

Example C03_call_class_needs_the_analysis :
  run_impl None eps0 20 ex_callee_write = ([VNum (of_Z 2)], Done) /\
  run_impl (Some ([4], [])) eps0 20 ex_callee_write = ([VNum (of_Z 1)], Done) /\
  v_stmt (plan_ok ex_callee_write [4] []) = [(4, CDeadStoreCall)].
Proof. vm_compute. repeat split; reflexivity. Qed.

(* ---- plans that keep the declaration of a never-read local ----------------------------- *)
(* make u get 1 add 2   u get "a"   make x get 5   shout(x)          plan S 1 F
   (the analysis keeps the declaration because statement 1 still mentions u).  plan_ok2
   compares the real plan with the plan augmented by the kept writers of never-read locals;
   both comparisons are instances of C03_prune_sound_partial_residual. *)
Theorem C03_plan_ok2_sound :
  forall prog ss fs eps fuel o e o' e',
    v_checked (w_main (plan_ok2 prog ss fs)) = true ->
    w_checked_aug (plan_ok2 prog ss fs) = true ->
    run_impl (Some (v_residual (w_main (plan_ok2 prog ss fs)))) eps fuel prog = (o, e) ->
    tol_ending e = false ->
    run_impl (Some (ss, fs)) eps fuel prog = (o', e') ->
    tol_ending e' = false ->
    (o', e') = (o, e).
Proof. exact plan_ok2_sound_lemma. Qed.
Print Assumptions C03_plan_ok2_sound.

Definition ex_kept_decl : list stmt :=
  [SMake (Some 0) [117] (Some 0) (EBin Add (ENum (of_Z 1)) (ENum (of_Z 2)));
   SSet (Some 1) [117] (Some 0) (EStr [97]);
   SMake (Some 2) [120] (Some 1) (ENum (of_Z 5));
   SExpr (Some 3) (ECall (EVar sh None) [EVar [120] (Some 1)] None)].

Example ex_kept_decl_verdict :
  let w := plan_ok2 ex_kept_decl [1] [] in
  w_aug w = [0] /\ v_checked (w_main w) = true /\ w_checked_aug w = true /\
  v_residual (w_main w) = ([], []) /\
  v_stmt (plan_ok ex_kept_decl [1] []) = [(1, CNeverReadMayFail)].
Proof. vm_compute. repeat split; reflexivity. Qed.
