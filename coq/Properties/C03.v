(* C03 — analysis-driven pruning never changes what a program does.

   FULL STATEMENT (not proved; the static analysis of src/analysis is not modelled):

     prune_sound : forall p, resolve p = OK rp -> forall eps fuel o e,
       run_impl None eps fuel rp = (o, e) -> e <> EFuel ->
       run_impl (Some (plan rp)) eps fuel rp = (o, e)

   where `plan` would be a transcription of cfg.rs / reachability.rs / summary.rs /
   liveness.rs / diagnostics.rs / opt.rs.  What is proved instead is translation
   validation: `PlanCheck.plan_ok` classifies the entries of ANY plan for ANY resolved
   program, and dropping the entries it puts in the classes Unreachable / UnusedFn /
   NeverRead does not change `Lang.run_impl` (theorems prune_sound_partial_xxx).  The extracted
   `plan_ok` is run on the plan the real analysis produced for every generated program
   (lib/props/c03.py).

   ROUND 2 adds the fourth class, FLOW-SENSITIVE DEAD STORES (an assignment / re-declaration
   whose value is overwritten before it is read along every path: across branches, loops with
   comot/next, nested blocks, calls, callees that read or write captured variables,
   recursion).  `LiveCheck.ds_ok` is a verified backward liveness on the structured AST
   (post-fixpoint check at loop heads, a checked table of what each function can look up in
   its callers' scopes, callee writes never kill); theorem C03_prune_dead_stores_sound is
   proved by a relational simulation over ALL of Lang.run_impl (stage S5 of the plan: no
   construct is excluded).  What stays covered by the plan-vs-no-plan oracle only: pruned
   FIRST declarations of a local that is still mentioned in dead code or in an unused
   function, right-hand sides that are not total pure expressions (calls to pure built-ins,
   operators applied to variables), programs with unresolved names.  Like the never-read
   theorem, the dead-store theorem excludes runs of the less-pruned program that end in
   fuel exhaustion or in one of the three variable-missing panic sites (tol_ending).

   Only statements, each closed by [exact] of a lemma of proofs/PlanProofs.v. *)
From Coq Require Import ZArith List Bool.
Require Import NS.theories.F64 NS.theories.Lang NS.theories.PlanCheck NS.proofs.PlanProofs
               NS.theories.LiveCheck NS.proofs.LiveProofs.
Require Import NS.theories.WfStatic NS.theories.WfScoped NS.proofs.LiveWf.
Import ListNotations.
Open Scope Z_scope.

(* ---- the general statement: plan c_p1 behaves as its residual c_p2 ------------------ *)
(* covered_ok c prog is a boolean check (extracted and evaluated on real plans).  With
   c_nr = false (no never-read entry dropped) the runs are equal for every fuel, including
   runs that exhaust it. *)
Theorem C03_prune_sound_partial_residual :
  forall c prog eps fuel o e,
    c_calls c = false ->          (* round 5: no right-hand side with a user call is dropped *)
    covered_ok c prog = true ->
    run_impl (c_p2 c) eps fuel prog = (o, e) ->
    (c_nr c = true -> tol_ending e = false) ->
    run_impl (c_p1 c) eps fuel prog = (o, e).
Proof. exact prune_residual_sound_nocalls. Qed.
Print Assumptions C03_prune_sound_partial_residual.

(* round 5, the general form: with c_calls c = true never-read stores whose right-hand side
   calls functions of the checked table c_pt are dropped too, and four more endings of the
   residual run are not compared (tol_ending_x) *)
Theorem C03_prune_sound_residual_x :
  forall c prog eps fuel o e,
    covered_ok c prog = true ->
    run_impl (c_p2 c) eps fuel prog = (o, e) ->
    (c_nr c = true -> tol_ending_x (c_calls c) e = false) ->
    run_impl (c_p1 c) eps fuel prog = (o, e).
Proof. exact prune_residual_sound_lemma. Qed.
Print Assumptions C03_prune_sound_residual_x.

(* what the check evaluates: the classifier's own verdict is the hypothesis *)
Theorem C03_plan_ok_sound :
  forall prog ss fs eps fuel o e,
    v_checked (plan_ok prog ss fs) = true ->
    run_impl (Some (v_residual (plan_ok prog ss fs))) eps fuel prog = (o, e) ->
    tol_ending e = false ->
    run_impl (Some (ss, fs)) eps fuel prog = (o, e).
Proof. exact plan_ok_sound_lemma. Qed.
Print Assumptions C03_plan_ok_sound.

(* when every entry is in a covered class the pruned run equals the unpruned run *)
Theorem C03_plan_ok_full :
  forall prog ss fs eps fuel o e,
    v_checked (plan_ok prog ss fs) = true ->
    v_residual (plan_ok prog ss fs) = ([], []) ->
    run_impl None eps fuel prog = (o, e) ->
    tol_ending e = false ->
    run_impl (Some (ss, fs)) eps fuel prog = (o, e).
Proof. exact plan_ok_full_lemma. Qed.
Print Assumptions C03_plan_ok_full.

(* ---- class 1: unreachable statements ------------------------------------------------- *)
Theorem C03_prune_sound_partial_unreachable :
  forall prog ss eps fuel,
    (forall i, In i ss -> prunable_unreachable prog i = true) ->
    run_impl (Some (ss, [])) eps fuel prog = run_impl None eps fuel prog.
Proof. exact prune_unreachable_sound_lemma. Qed.
Print Assumptions C03_prune_sound_partial_unreachable.

(* "a statement reported as unreachable never executes": whatever follows a never-normal
   statement in its block can be replaced by any other (definition-free) statements without
   changing what the block does, in every state, for every fuel *)
Theorem C03_unreachable_never_runs :
  forall P eps fuel pre t rest rest' s,
    nn_p P t = true -> in_plan_stmt P (stmt_sid t) = false ->
    forallb (fun x => negb (is_fun x)) rest = true ->
    forallb (fun x => negb (is_fun x)) rest' = true ->
    exec_block P eps fuel (pre ++ t :: rest) s = exec_block P eps fuel (pre ++ t :: rest') s.
Proof. exact unreachable_never_runs_lemma. Qed.
Print Assumptions C03_unreachable_never_runs.

Theorem C03_unreachable_never_runs_program :
  forall pre t rest rest' eps fuel,
    never_normal t = true ->
    forallb (fun x => negb (is_fun x)) rest = true ->
    forallb (fun x => negb (is_fun x)) rest' = true ->
    run_impl None eps fuel (pre ++ t :: rest) = run_impl None eps fuel (pre ++ t :: rest').
Proof. exact unreachable_never_runs_top. Qed.
Print Assumptions C03_unreachable_never_runs_program.

(* ---- class 2: unused function definitions --------------------------------------------- *)
(* `live` is any set of function ids closed under "called from the live code of the root
   or of a member" that contains none of fs (checked by unused_fns_ok) *)
Theorem C03_prune_sound_partial_unused_fn :
  forall prog fs live eps fuel,
    unused_fns_ok prog fs live = true ->
    run_impl (Some ([], fs)) eps fuel prog = run_impl None eps fuel prog.
Proof. exact prune_unused_fn_sound_lemma. Qed.
Print Assumptions C03_prune_sound_partial_unused_fn.

(* ---- class 3: never-read locals -------------------------------------------------------- *)
(* a total pure expression evaluates in any state without output and without changing the
   state — unless fuel runs out or a variable it reads is not bound *)
Theorem C03_pure_notrap_total :
  forall P eps n e s, pure_total e = true ->
    exists r, eval P eps n e s = ([], r) /\ (tolr r \/ exists v, r = Ok (v, s)).
Proof. exact pure_total_eval. Qed.
Print Assumptions C03_pure_notrap_total.

(* ... in particular it never ends in a runtime error.  The implementation-side test of this
   statement is the literal-operator family of lib/props/c03.py (every operator x every pair
   of literal operand kinds the front end accepts, in four contexts). *)
Theorem C03_pure_total_never_errors :
  forall P eps n e s er, pure_total e = true ->
    snd (eval P eps n e s) <> Err er /\ fst (eval P eps n e s) = [].
Proof. exact pure_total_no_error. Qed.
Print Assumptions C03_pure_total_never_errors.

(* the wider class the analysis calls PureNoTrap (operators applied to variables): no
   output and no state change, but NOT total — see C03_pure_notrap_not_total below *)
Theorem C03_pure_notrap_no_effect :
  forall P eps n e s, pure_notrap_expr e = true -> pureM (eval P eps n e s) s.
Proof. exact pure_notrap_no_effect_lemma. Qed.
Print Assumptions C03_pure_notrap_no_effect.

Theorem C03_prune_sound_partial_never_read :
  forall prog ss dead eps fuel o e,
    never_read_ok prog ss dead = true ->
    run_impl None eps fuel prog = (o, e) -> tol_ending e = false ->
    run_impl (Some (ss, [])) eps fuel prog = (o, e).
Proof. exact prune_never_read_sound_lemma. Qed.
Print Assumptions C03_prune_sound_partial_never_read.

(* ======================================================================================= *)
(* Non-vacuity: concrete programs (the ASTs the harness dumps) and the plans the real
   analysis produced for them.                                                             *)

Definition sh := [115;104;111;117;116].
Definition eps0 : f64 := of_Z 0.

(* do f() start return 1  shout(8) end  shout(f())           plan S 2 F *)
Definition ex_unreach : list stmt :=
  [SFun (Some 0) [102] [] [SRet (Some 1) (Some (ENum (of_Z 1)));
     SExpr (Some 2) (ECall (EVar sh None) [ENum (of_Z 8)] None)] (Some 1) 0 0;
   SExpr (Some 3) (ECall (EVar sh None) [ECall (EVar [102] None) [] (Some 1)] None)].

Example ex_unreach_class : prunable_unreachable ex_unreach 2 = true.
Proof. vm_compute. reflexivity. Qed.
Example ex_unreach_live : prunable_unreachable ex_unreach 3 = false.
Proof. vm_compute. reflexivity. Qed.
Example ex_unreach_runs :
  run_impl (Some ([2], [])) eps0 20 ex_unreach = ([VNum (of_Z 1)], Done).
Proof. vm_compute. reflexivity. Qed.

(* do g() start shout(7) end  do h() start g() end  shout(1)      plan S F 1 2 *)
Definition ex_unused : list stmt :=
  [SFun (Some 0) [103] [] [SExpr (Some 1) (ECall (EVar sh None) [ENum (of_Z 7)] None)] (Some 1) 0 0;
   SFun (Some 2) [104] [] [SExpr (Some 3) (ECall (EVar [103] None) [] (Some 1))] (Some 2) 0 0;
   SExpr (Some 4) (ECall (EVar sh None) [ENum (of_Z 1)] None)].

Example ex_unused_class : unused_fns_ok ex_unused [1; 2] [] = true.
Proof. vm_compute. reflexivity. Qed.
(* a called function is not in the class *)
Example ex_unused_not : unused_fns_ok ex_unreach [1] [] = false.
Proof. vm_compute. reflexivity. Qed.

(* make u get 1 add 2  make w get [true, "a"]  make x get 5  shout(x)     plan S 0 1 F *)
Definition ex_never : list stmt :=
  [SMake (Some 0) [117] (Some 0) (EBin Add (ENum (of_Z 1)) (ENum (of_Z 2)));
   SMake (Some 1) [119] (Some 1) (EArr [EBool true; EStr [97]]);
   SMake (Some 2) [120] (Some 2) (ENum (of_Z 5));
   SExpr (Some 3) (ECall (EVar sh None) [EVar [120] (Some 2)] None)].

Example ex_never_class : never_read_ok ex_never [0; 1] [0; 1] = true.
Proof. vm_compute. reflexivity. Qed.
Example ex_never_runs : run_impl None eps0 20 ex_never = ([VNum (of_Z 5)], Done).
Proof. vm_compute. reflexivity. Qed.
(* a local that is read is not in the class *)
Example ex_never_not : never_read_ok ex_never [2] [2] = false.
Proof. vm_compute. reflexivity. Qed.

(* all three classes in one plan: plan S 6 7 8 F 1 *)
Definition ex_mixed : list stmt :=
  [SFun (Some 0) [103] [] [SExpr (Some 1) (ECall (EVar sh None) [ENum (of_Z 7)] None)] (Some 1) 0 0;
   SFun (Some 2) [102] [[112]]
     [SIf (Some 3) (EVar [112] (Some 0)) [SRet (Some 4) (Some (ENum (of_Z 1)))]
        (Some [SRet (Some 5) (Some (ENum (of_Z 2)))]);
      SExpr (Some 6) (ECall (EVar sh None) [ENum (of_Z 9)] None)] (Some 2) 0 1;
   SMake (Some 7) [117] (Some 1) (EArr [ENum (of_Z 1); EStr [98]]);
   SMake (Some 8) [112;48] (Some 2) (ENum (of_Z 3));
   SExpr (Some 9) (ECall (EVar sh None) [ECall (EVar [102] None) [EBool true] (Some 2)] None)].

Example ex_mixed_verdict :
  let v := plan_ok ex_mixed [6; 7; 8] [1] in
  v_checked v = true /\ v_residual v = ([], []) /\
  v_stmt v = [(6, CUnreachable); (7, CNeverRead); (8, CNeverRead)] /\ v_fn v = [(1, FUnused)].
Proof. vm_compute. repeat split; reflexivity. Qed.

(* ---- why the remaining classes are not theorems ---------------------------------------- *)
(* make x get 1  if to say (true) start x get "s" end  make u get x minus 1  shout(2)
   The analysis classifies `x minus 1` PureNoTrap and prunes statement 3 (plan S 3 F); the
   unpruned run ends in Type mismatch, the pruned run prints 2.  (Defect found by this
   property's machinery; key pruned-stmt-can-raise-type-mismatch.) *)
Definition ex_typemis : list stmt :=
  [SMake (Some 0) [120] (Some 0) (ENum (of_Z 1));
   SIf (Some 1) (EBool true) [SSet (Some 2) [120] (Some 0) (EStr [115])] None;
   SMake (Some 3) [117] (Some 1) (EBin Minus (EVar [120] (Some 0)) (ENum (of_Z 1)));
   SExpr (Some 4) (ECall (EVar sh None) [ENum (of_Z 2)] None)].

Example C03_pure_notrap_not_total :
  pure_notrap_expr (EBin Minus (EVar [120] (Some 0)) (ENum (of_Z 1))) = true /\
  run_impl None eps0 20 ex_typemis = ([], RtErr TypeMis) /\
  run_impl (Some ([3], [])) eps0 20 ex_typemis = ([VNum (of_Z 2)], Done) /\
  v_stmt (plan_ok ex_typemis [3] []) = [(3, CNeverReadMayFail)].
Proof. vm_compute. repeat split; reflexivity. Qed.

(* make x get 1  do m(c) start if to say (c) start x get 2 end end  x get 5  m(false)  shout(x)
   plan S 4 F on the unrepaired tree (liveness treats the callee's possible write as a kill):
   the model shows that plan changes the output, and plan_ok leaves the entry in the residual *)
Definition ex_callee_kill : list stmt :=
  [SMake (Some 0) [120] (Some 0) (ENum (of_Z 1));
   SFun (Some 1) [109] [[99]]
     [SIf (Some 2) (EVar [99] (Some 1)) [SSet (Some 3) [120] (Some 0) (ENum (of_Z 2))] None] (Some 1) 1 1;
   SSet (Some 4) [120] (Some 0) (ENum (of_Z 5));
   SExpr (Some 5) (ECall (EVar [109] None) [EBool false] (Some 1));
   SExpr (Some 6) (ECall (EVar sh None) [EVar [120] (Some 0)] None)].

Example C03_dead_store_class_needs_the_analysis :
  run_impl None eps0 20 ex_callee_kill = ([VNum (of_Z 5)], Done) /\
  run_impl (Some ([4], [])) eps0 20 ex_callee_kill = ([VNum (of_Z 1)], Done) /\
  v_stmt (plan_ok ex_callee_kill [4] []) = [(4, CDeadStore)] /\
  v_residual (plan_ok ex_callee_kill [4] []) = ([4], []).
Proof. vm_compute. repeat split; reflexivity. Qed.

(* make x get 1  do set_x() start x get 2 return 0 end  make y get set_x()  shout(x)
   plan S 4 F on the unrepaired tree (stmt_effective_class ignores the callee's capture write) *)
Definition ex_callee_write : list stmt :=
  [SMake (Some 0) [120] (Some 0) (ENum (of_Z 1));
   SFun (Some 1) [115;101;116;95;120] []
     [SSet (Some 2) [120] (Some 0) (ENum (of_Z 2)); SRet (Some 3) (Some (ENum (of_Z 0)))] (Some 1) 0 0;
   SMake (Some 4) [121] (Some 1) (ECall (EVar [115;101;116;95;120] None) [] (Some 1));
   SExpr (Some 5) (ECall (EVar sh None) [EVar [120] (Some 0)] None)].

Example C03_call_class_needs_the_analysis :
  run_impl None eps0 20 ex_callee_write = ([VNum (of_Z 2)], Done) /\
  run_impl (Some ([4], [])) eps0 20 ex_callee_write = ([VNum (of_Z 1)], Done) /\
  v_stmt (plan_ok ex_callee_write [4] []) = [(4, CDeadStoreCall)].
Proof. vm_compute. repeat split; reflexivity. Qed.

(* ---- plans that keep the declaration of a never-read local ----------------------------- *)
(* make u get 1 add 2   u get "a"   make x get 5   shout(x)          plan S 1 F
   (the analysis keeps the declaration because statement 1 still mentions u).  plan_ok2
   compares the real plan with the plan augmented by the kept writers of never-read locals;
   both comparisons are instances of C03_prune_sound_partial_residual. *)
Theorem C03_plan_ok2_sound :
  forall prog ss fs eps fuel o e o' e',
    v_checked (w_main (plan_ok2 prog ss fs)) = true ->
    w_checked_aug (plan_ok2 prog ss fs) = true ->
    run_impl (Some (v_residual (w_main (plan_ok2 prog ss fs)))) eps fuel prog = (o, e) ->
    tol_ending e = false ->
    run_impl (Some (ss, fs)) eps fuel prog = (o', e') ->
    tol_ending e' = false ->
    (o', e') = (o, e).
Proof. exact plan_ok2_sound_lemma. Qed.
Print Assumptions C03_plan_ok2_sound.

Definition ex_kept_decl : list stmt :=
  [SMake (Some 0) [117] (Some 0) (EBin Add (ENum (of_Z 1)) (ENum (of_Z 2)));
   SSet (Some 1) [117] (Some 0) (EStr [97]);
   SMake (Some 2) [120] (Some 1) (ENum (of_Z 5));
   SExpr (Some 3) (ECall (EVar sh None) [EVar [120] (Some 1)] None)].

Example ex_kept_decl_verdict :
  let w := plan_ok2 ex_kept_decl [1] [] in
  w_aug w = [0] /\ v_checked (w_main w) = true /\ w_checked_aug w = true /\
  v_residual (w_main w) = ([], []) /\
  v_stmt (plan_ok ex_kept_decl [1] []) = [(1, CNeverReadMayFail)].
Proof. vm_compute. repeat split; reflexivity. Qed.

(* ======================================================================================= *)
(* ROUND 2 - class 4: flow-sensitive dead stores                                           *)

(* `ds_ok prog pa acc` (boolean, extracted, evaluated on real plans): every statement of plan
   pa whose id is in acc is a store to a local of the running activation that already has its
   slot, the local is not live after the store, and the right-hand side is a total pure
   expression.  Then the run that skips all of pa equals the run that still executes acc. *)
Theorem C03_prune_dead_stores_sound :
  forall prog ss fs acc eps fuel o e,
    ds_ok prog (Some (ss, fs)) acc = true ->
    run_impl (Some (filter (fun i => negb (memz i acc)) ss, fs)) eps fuel prog = (o, e) ->
    tol_ending e = false ->
    run_impl (Some (ss, fs)) eps fuel prog = (o, e).
Proof. exact ds_sound. Qed.
Print Assumptions C03_prune_dead_stores_sound.

(* the four classes together: what the check evaluates on every real plan *)
Theorem C03_plan_ok3_sound :
  forall prog ss fs eps fuel o e,
    v_checked (x_main (plan_ok3 prog ss fs)) = true ->
    x_checked (plan_ok3 prog ss fs) = true ->
    run_impl (Some (x_residual (plan_ok3 prog ss fs))) eps fuel prog = (o, e) ->
    tol_ending e = false ->
    run_impl (Some (ss, fs)) eps fuel prog = (o, e).
Proof. exact plan_ok3_sound_lemma. Qed.
Print Assumptions C03_plan_ok3_sound.

(* every entry in one of the four classes: pruning does not change the program *)
Theorem C03_prune_sound_four_classes :
  forall prog ss fs eps fuel o e,
    v_checked (x_main (plan_ok3 prog ss fs)) = true ->
    x_checked (plan_ok3 prog ss fs) = true ->
    x_residual (plan_ok3 prog ss fs) = ([], []) ->
    run_impl None eps fuel prog = (o, e) ->
    tol_ending e = false ->
    run_impl (Some (ss, fs)) eps fuel prog = (o, e).
Proof. exact prune_dead_stores_sound_lemma. Qed.
Print Assumptions C03_prune_sound_four_classes.

(* ---- non-vacuity: real ASTs (harness dump) and the plans the real analysis produced ---- *)

(* make acc get "a"  make i get 0
   jasi (i small pass 3) start  shout(acc)  acc get "b"  i get i add 1  end
   acc get "c"   acc get "d"   shout(acc)                                   plan S 6 F
   statement 4 is LOOP-CARRIED (read by the next iteration): not a dead store;
   statement 6 is overwritten by 7 before any read: a dead store. *)
Definition ex_loop : list stmt :=
  [SMake (Some 0) [97;99;99] (Some 0) (EStr [97]);
   SMake (Some 1) [105] (Some 1) (ENum (of_bits 0));
   SLoop (Some 2) (EBin OLt (EVar [105] (Some 1)) (ENum (of_bits 4613937818241073152)))
     [SExpr (Some 3) (ECall (EVar sh None) [(EVar [97;99;99] (Some 0))] None);
      SSet (Some 4) [97;99;99] (Some 0) (EStr [98]);
      SSet (Some 5) [105] (Some 1) (EBin Add (EVar [105] (Some 1)) (ENum (of_bits 4607182418800017408)))];
   SSet (Some 6) [97;99;99] (Some 0) (EStr [99]);
   SSet (Some 7) [97;99;99] (Some 0) (EStr [100]);
   SExpr (Some 8) (ECall (EVar sh None) [(EVar [97;99;99] (Some 0))] None)].

Example ex_loop_dead_store : ds_ok ex_loop (Some ([6], [])) [6] = true.
Proof. vm_compute. reflexivity. Qed.
Example ex_loop_carried_is_live : ds_ok ex_loop (Some ([4], [])) [4] = false.
Proof. vm_compute. reflexivity. Qed.
Example ex_loop_last_store_is_live : ds_ok ex_loop (Some ([7], [])) [7] = false.
Proof. vm_compute. reflexivity. Qed.
Example ex_loop_verdict :
  let x := plan_ok3 ex_loop [6] [] in
  v_checked (x_main x) = true /\ x_checked x = true /\ x_acc x = [6] /\ x_residual x = ([], []) /\
  v_stmt (x_main x) = [(6, CDeadStore)].
Proof. vm_compute. repeat split; reflexivity. Qed.
Example ex_loop_runs :
  run_impl None eps0 40 ex_loop = ([VStr [97]; VStr [98]; VStr [98]; VStr [100]], Done) /\
  run_impl (Some ([6], [])) eps0 40 ex_loop = run_impl None eps0 40 ex_loop /\
  (* pruning the loop-carried store is observable *)
  run_impl (Some ([4], [])) eps0 40 ex_loop = ([VStr [97]; VStr [97]; VStr [97]; VStr [100]], Done).
Proof. vm_compute. repeat split; reflexivity. Qed.

(* make acc get "a"  make i get 0
   jasi (i small pass 2) start
     acc get "b"                                          <- dead on both paths
     if to say (i pass 0) start  i get i add 1  next  end    (next: back to the loop head)
     acc get "c"  shout(acc)  i get i add 1
   end
   shout(i)                                                              plan S 3 F *)
Definition ex_loop_next : list stmt :=
  [SMake (Some 0) [97;99;99] (Some 0) (EStr [97]);
   SMake (Some 1) [105] (Some 1) (ENum (of_bits 0));
   SLoop (Some 2) (EBin OLt (EVar [105] (Some 1)) (ENum (of_bits 4611686018427387904)))
     [SSet (Some 3) [97;99;99] (Some 0) (EStr [98]);
      SIf (Some 4) (EBin OGt (EVar [105] (Some 1)) (ENum (of_bits 0)))
        [SSet (Some 5) [105] (Some 1) (EBin Add (EVar [105] (Some 1)) (ENum (of_bits 4607182418800017408)));
         SNext (Some 6)] None;
      SSet (Some 7) [97;99;99] (Some 0) (EStr [99]);
      SExpr (Some 8) (ECall (EVar sh None) [(EVar [97;99;99] (Some 0))] None);
      SSet (Some 9) [105] (Some 1) (EBin Add (EVar [105] (Some 1)) (ENum (of_bits 4607182418800017408)))];
   SExpr (Some 10) (ECall (EVar sh None) [(EVar [105] (Some 1))] None)].

Example ex_loop_next_dead_store : ds_ok ex_loop_next (Some ([3], [])) [3] = true.
Proof. vm_compute. reflexivity. Qed.
Example ex_loop_next_live : ds_ok ex_loop_next (Some ([7], [])) [7] = false.
Proof. vm_compute. reflexivity. Qed.

(* make x get 1  make y get 2
   do rd() start return y end
   do wr(c) start if to say (c) start x get 7 end  return 0 end
   x get 3      <- dead: overwritten by `x get 5`; rd() does not read x
   y get 4      <- LIVE only through the callee rd(), which reads the captured y
   shout(rd())
   x get 5      <- LIVE: wr(false) may write x but need not (a callee's write is no kill)
   wr(false)  shout(x)
   y get 6      <- dead: never read again
   x get 8  shout(x)                                                      plan S 8 14 F *)
Definition ex_calls : list stmt :=
  [SMake (Some 0) [120] (Some 0) (ENum (of_bits 4607182418800017408));
   SMake (Some 1) [121] (Some 1) (ENum (of_bits 4611686018427387904));
   SFun (Some 2) [114;100] [] [SRet (Some 3) (Some (EVar [121] (Some 1)))] (Some 1) 0 0;
   SFun (Some 4) [119;114] [[99]]
     [SIf (Some 5) (EVar [99] (Some 2)) [SSet (Some 6) [120] (Some 0) (ENum (of_bits 4619567317775286272))] None;
      SRet (Some 7) (Some (ENum (of_bits 0)))] (Some 2) 2 1;
   SSet (Some 8) [120] (Some 0) (ENum (of_bits 4613937818241073152));
   SSet (Some 9) [121] (Some 1) (ENum (of_bits 4616189618054758400));
   SExpr (Some 10) (ECall (EVar sh None) [(ECall (EVar [114;100] None) [] (Some 1))] None);
   SSet (Some 11) [120] (Some 0) (ENum (of_bits 4617315517961601024));
   SExpr (Some 12) (ECall (EVar [119;114] None) [(EBool false)] (Some 2));
   SExpr (Some 13) (ECall (EVar sh None) [(EVar [120] (Some 0))] None);
   SSet (Some 14) [121] (Some 1) (ENum (of_bits 4618441417868443648));
   SSet (Some 15) [120] (Some 0) (ENum (of_bits 4620693217682128896));
   SExpr (Some 16) (ECall (EVar sh None) [(EVar [120] (Some 0))] None)].

Example ex_calls_dead_stores : ds_ok ex_calls (Some ([8; 14], [])) [8; 14] = true.
Proof. vm_compute. reflexivity. Qed.
(* live through the callee's capture read *)
Example ex_calls_capture_read_keeps_live : ds_ok ex_calls (Some ([9], [])) [9] = false.
Proof. vm_compute. reflexivity. Qed.
(* HISTORICAL DEFECT 1 (callee capture write treated as a kill): the checker rejects it *)
Example ex_calls_capture_write_is_no_kill : ds_ok ex_calls (Some ([11], [])) [11] = false.
Proof. vm_compute. reflexivity. Qed.
Example ex_calls_summary : mk_rt (Some ([8; 14], [])) ex_calls = [(1, [1]); (2, [])].
Proof. vm_compute. reflexivity. Qed.
Example ex_calls_runs :
  run_impl (Some ([8; 14], [])) eps0 40 ex_calls = run_impl None eps0 40 ex_calls /\
  run_impl None eps0 40 ex_calls = ([VNum (of_Z 4); VNum (of_Z 5); VNum (of_Z 8)], Done) /\
  run_impl (Some ([9], [])) eps0 40 ex_calls = ([VNum (of_Z 2); VNum (of_Z 5); VNum (of_Z 8)], Done) /\
  run_impl (Some ([11], [])) eps0 40 ex_calls = ([VNum (of_Z 4); VNum (of_Z 3); VNum (of_Z 8)], Done).
Proof. vm_compute. repeat split; reflexivity. Qed.

(* recursion: the locals of the suspended activations are other slots
   do f(n) start
     make t get "p"   t get "q"
     if to say (n pass 0) start  t get "r"  shout(f(n minus 1))  t get "s"  end
     t get "u"  return t
   end
   shout(f(2))                                                           plan S 2 4 6 F *)
Definition ex_rec : list stmt :=
  [SFun (Some 0) [102] [[110]]
     [SMake (Some 1) [116] (Some 1) (EStr [112]);
      SSet (Some 2) [116] (Some 1) (EStr [113]);
      SIf (Some 3) (EBin OGt (EVar [110] (Some 0)) (ENum (of_bits 0)))
        [SSet (Some 4) [116] (Some 1) (EStr [114]);
         SExpr (Some 5) (ECall (EVar sh None)
           [(ECall (EVar [102] None) [(EBin Minus (EVar [110] (Some 0)) (ENum (of_bits 4607182418800017408)))] (Some 1))] None);
         SSet (Some 6) [116] (Some 1) (EStr [115])] None;
      SSet (Some 7) [116] (Some 1) (EStr [117]);
      SRet (Some 8) (Some (EVar [116] (Some 1)))] (Some 1) 0 2;
   SExpr (Some 9) (ECall (EVar sh None) [(ECall (EVar [102] None) [(ENum (of_bits 4611686018427387904))] (Some 1))] None)].

Example ex_rec_dead_stores : ds_ok ex_rec (Some ([2; 4; 6], [])) [2; 4; 6] = true.
Proof. vm_compute. reflexivity. Qed.
Example ex_rec_live : ds_ok ex_rec (Some ([7], [])) [7] = false.
Proof. vm_compute. reflexivity. Qed.
Example ex_rec_runs :
  run_impl (Some ([2; 4; 6], [])) eps0 60 ex_rec = run_impl None eps0 60 ex_rec /\
  run_impl None eps0 60 ex_rec = ([VStr [117]; VStr [117]; VStr [117]], Done).
Proof. vm_compute. repeat split; reflexivity. Qed.

(* ---- the checker REJECTS the historical defect plans ---------------------------------- *)
(* defect 1 (liveness treated a callee's possible write as a kill), plan S 4 *)
Example C03_checker_rejects_callee_kill_plan :
  ds_ok ex_callee_kill (Some ([4], [])) [4] = false /\
  x_acc (plan_ok3 ex_callee_kill [4] []) = [] /\ x_residual (plan_ok3 ex_callee_kill [4] []) = ([4], []).
Proof. vm_compute. repeat split; reflexivity. Qed.
(* defect 16 (a call whose callee assigns a captured variable was classified removable), plan S 4 *)
Example C03_checker_rejects_callee_write_plan :
  ds_ok ex_callee_write (Some ([4], [])) [4] = false /\
  x_residual (plan_ok3 ex_callee_write [4] []) = ([4], []).
Proof. vm_compute. repeat split; reflexivity. Qed.
(* defect 3 (operators on dynamically typed operands classified PureNoTrap), plan S 3 *)
Example C03_checker_rejects_typemis_plan :
  ds_ok ex_typemis (Some ([3], [])) [3] = false /\
  x_residual (plan_ok3 ex_typemis [3] []) = ([3], []).
Proof. vm_compute. repeat split; reflexivity. Qed.

(* defect found in round 2 (key callee-capture-read-after-own-write): liveness.rs summarised a block's
   `x get twice()` as "defines x" BEFORE recording the callee's capture read of x, so x was not
   live into the block and the store in the predecessor block was pruned.
   make x get "one"  do twice() start return "{x}{x}" end
   x get "five"  if to say (true) start  x get twice()  shout("@1@" add to_string(x))  end   plan S 3 F
   The model shows the plan changes the output; the checker leaves the entry in the residual. *)
Definition ex_read_after_write : list stmt :=
  [SMake (Some 0) [120] (Some 0) (EStr [111;110;101]);
   SFun (Some 1) [116;119;105;99;101] [] [SRet (Some 2) (Some (EInterp [SegVar [120] (Some 0); SegVar [120] (Some 0)]))] (Some 1) 0 0;
   SSet (Some 3) [120] (Some 0) (EStr [102;105;118;101]);
   SIf (Some 4) (EBool true)
     [SSet (Some 5) [120] (Some 0) (ECall (EVar [116;119;105;99;101] None) [] (Some 1));
      SExpr (Some 6) (ECall (EVar sh None) [(EVar [120] (Some 0))] None)] None].

Example C03_checker_rejects_read_after_write_plan :
  ds_ok ex_read_after_write (Some ([3], [])) [3] = false /\
  x_residual (plan_ok3 ex_read_after_write [3] []) = ([3], []) /\
  run_impl None eps0 20 ex_read_after_write = ([VStr [102;105;118;101;102;105;118;101]], Done) /\
  run_impl (Some ([3], [])) eps0 20 ex_read_after_write = ([VStr [111;110;101;111;110;101]], Done).
Proof. vm_compute. repeat split; reflexivity. Qed.

(* ======================================================================================= *)
(* ROUND 3 - what used to lie outside the four classes                                      *)
(* Measured over the generator streams, /repo/examples and the documentation snippets
   (evidence: unproved_entry_shapes).  The theorem statements above are unchanged; the
   CHECKERS they quantify over accept more:
   (a) a pruned FIRST declaration: run_impl allocates NO slot for a pruned `make` (stmts_with
       skips the statement), so later lookups must not find it - the analysis prunes a
       declaration only when no statement that can still run mentions the local; the
       never-read class now counts reads and writers only in statements that can run (live
       positions of the root and of functions live code can call: dead_ids_live), which the
       verified covered_ok then re-checks;
   (b) right-hand sides that are trap-free and effect-free in the sense of classify_expr /
       literal_type (src/resolver.rs) and effects.rs: template strings are strings whatever
       their variables hold, so operator trees over literals AND template strings are typed;
       typeof(e) / to_string(e) of such expressions (pure_total, C03_pure_notrap_total);
   NOT covered, by name: a right-hand side that calls a USER function (the analysis prunes it
   when the callee's transitive class is PureNoTrap and it has no transitive capture write;
   it does not ask the callee to terminate - see the report), and `command(..)` (outside the
   model).  A bare member access `x.len` is in NO class (it always raises Type mismatch): the
   classifier reports such an entry as a broken obligation (finding
   member-access-classified-trap-free, repaired in /repo). *)

(* make u get "a"   do g() start shout(u) return u end   shout(1)          plan S 0 F 1
   the only statements that mention u are in a function nothing calls *)
Definition ex_first_decl : list stmt :=
  [SMake (Some 0) [117] (Some 0) (EStr [97]);
   SFun (Some 1) [103] [] [SExpr (Some 2) (ECall (EVar sh None) [(EVar [117] (Some 0))] None);
                           SRet (Some 3) (Some (EVar [117] (Some 0)))] (Some 1) 0 0;
   SExpr (Some 4) (ECall (EVar sh None) [(ENum (of_bits 4607182418800017408))] None)].

Example ex_first_decl_verdict :
  let x := plan_ok3 ex_first_decl [0] [1] in
  v_checked (x_main x) = true /\ x_checked x = true /\ x_residual x = ([], []) /\
  v_stmt (x_main x) = [(0, CNeverRead)] /\ v_fn (x_main x) = [(1, FUnused)] /\
  run_impl (Some ([0], [1])) eps0 20 ex_first_decl = run_impl None eps0 20 ex_first_decl.
Proof. vm_compute. repeat split; reflexivity. Qed.
(* were g called, the declaration would be needed: the checker refuses *)
Example ex_first_decl_needed :
  v_checked (plan_ok (ex_first_decl ++ [SExpr (Some 5) (ECall (EVar [103] None) [] (Some 1))]) [0] []) = true /\
  v_residual (plan_ok (ex_first_decl ++ [SExpr (Some 5) (ECall (EVar [103] None) [] (Some 1))]) [0] []) = ([0], []) /\
  x_residual (plan_ok3 (ex_first_decl ++ [SExpr (Some 5) (ECall (EVar [103] None) [] (Some 1))]) [0] []) = ([0], []).
Proof. vm_compute. repeat split; reflexivity. Qed.

(* make x get 1  make y get "s"  y get to_string([x, typeof(x)])  y get "t"  shout(y)   plan S 2 F *)
Definition ex_builtin_rhs : list stmt :=
  [SMake (Some 0) [120] (Some 0) (ENum (of_bits 4607182418800017408));
   SMake (Some 1) [121] (Some 1) (EStr [115]);
   SSet (Some 2) [121] (Some 1)
     (ECall (EVar [116;111;95;115;116;114;105;110;103] None)
        [(EArr [(EVar [120] (Some 0)); (ECall (EVar [116;121;112;101;111;102] None) [(EVar [120] (Some 0))] None)])] None);
   SSet (Some 3) [121] (Some 1) (EStr [116]);
   SExpr (Some 4) (ECall (EVar sh None) [(EVar [121] (Some 1))] None)].

Example ex_builtin_rhs_verdict :
  let x := plan_ok3 ex_builtin_rhs [2] [] in
  v_checked (x_main x) = true /\ x_checked x = true /\ x_acc x = [2] /\ x_residual x = ([], []) /\
  run_impl (Some ([2], [])) eps0 20 ex_builtin_rhs = run_impl None eps0 20 ex_builtin_rhs.
Proof. vm_compute. repeat split; reflexivity. Qed.

(* make x get 1   make u get 2 add "{x}!"   shout(2)                        plan S 1 F *)
Definition ex_template_op : list stmt :=
  [SMake (Some 0) [120] (Some 0) (ENum (of_bits 4607182418800017408));
   SMake (Some 1) [117] (Some 1) (EBin Add (ENum (of_bits 4611686018427387904)) (EInterp [SegVar [120] (Some 0); SegLit [33]]));
   SExpr (Some 2) (ECall (EVar sh None) [(ENum (of_bits 4611686018427387904))] None)].

Example ex_template_op_verdict :
  let x := plan_ok3 ex_template_op [1] [] in
  pure_total (EBin Add (ENum (of_bits 4611686018427387904)) (EInterp [SegVar [120] (Some 0); SegLit [33]])) = true /\
  v_checked (x_main x) = true /\ x_checked x = true /\ x_residual x = ([], []) /\
  v_stmt (x_main x) = [(1, CNeverRead)].
Proof. vm_compute. repeat split; reflexivity. Qed.
(* an operator the types do not fit stays outside: "{x}" minus 1 *)
Example ex_template_op_not :
  pure_total (EBin Minus (EInterp [SegVar [120] (Some 0)]) (ENum (of_bits 4607182418800017408))) = false.
Proof. vm_compute. reflexivity. Qed.

(* make x get "ab"   make u get x.len   shout(2)        plan S 1 F on the unrepaired tree
   finding member-access-classified-trap-free: the plain run ends in Type mismatch, the
   pruned run prints 2; the entry is in NO class *)
Definition ex_member : list stmt :=
  [SMake (Some 0) [120] (Some 0) (EStr [97;98]);
   SMake (Some 1) [117] (Some 1) (EMember (EVar [120] (Some 0)) [108;101;110]);
   SExpr (Some 2) (ECall (EVar sh None) [(ENum (of_bits 4611686018427387904))] None)].

Example C03_member_access_is_in_no_class :
  run_impl None eps0 20 ex_member = ([], RtErr TypeMis) /\
  run_impl (Some ([1], [])) eps0 20 ex_member = ([VNum (of_Z 2)], Done) /\
  v_stmt (plan_ok ex_member [1] []) = [(1, CNoClass)] /\
  x_residual (plan_ok3 ex_member [1] []) = ([1], []).
Proof. vm_compute. repeat split; reflexivity. Qed.

(* do f(p) start make t get [p, 1] return "{t}" end   make u get f(3)   shout(2)   plan S 3 F
   the class that is NOT covered: the right-hand side calls a user function *)
Definition ex_user_call : list stmt :=
  [SFun (Some 0) [102] [[112]]
     [SMake (Some 1) [116] (Some 1) (EArr [(EVar [112] (Some 0)); (ENum (of_bits 4607182418800017408))]);
      SRet (Some 2) (Some (EInterp [SegVar [116] (Some 1)]))] (Some 1) 0 2;
   SMake (Some 3) [117] (Some 2) (ECall (EVar [102] None) [(ENum (of_bits 4613937818241073152))] (Some 1));
   SExpr (Some 4) (ECall (EVar sh None) [(ENum (of_bits 4611686018427387904))] None)].

Example C03_user_call_rhs_is_not_covered :
  v_stmt (plan_ok ex_user_call [3] []) = [(3, CDeadStoreCall)] /\
  x_residual (plan_ok3 ex_user_call [3] []) = ([3], []) /\
  run_impl (Some ([3], [])) eps0 30 ex_user_call = run_impl None eps0 30 ex_user_call.
Proof. vm_compute. repeat split; reflexivity. Qed.

(* ======================================================================================= *)
(* ROUND 4 - class 5: a dropped store whose right-hand side calls a USER function           *)
(* The analysis prunes `x = f(..)` when f is transitively PureNoTrap with no transitive capture
   write.  `PlanCheck.pf_stmts` is the verified image of that class for a callee body (total
   pure expressions, literal conditions, assignments to locals of the running activation
   only, no index assignment / mutation / output / nested definition; calls of other table
   functions allowed, recursion included).  NOTHING is required about termination. *)

(* the callee, relative to its own run: a call of a table function prints nothing and returns
   in the very state it was made in - OR the run does not return normally in one of the ways
   that are not compared: fuel exhaustion (the callee loops or recurses for ever: resource
   exhaustion), a variable or function that is not there, an argument count / parameter range
   / stray comot-next the resolver rules out (tolx) *)
Theorem C03_pure_callee_no_effect :
  forall P eps pt n e s,
    pfe pt e = true -> pfns_ok P pt (fns s) ->
    exists r, eval P eps n e s = ([], r) /\ (tolx r \/ exists v, r = Ok (v, s)).
Proof. exact pfe_eval. Qed.
Print Assumptions C03_pure_callee_no_effect.

(* dropping such stores (together with the plain dead stores): the less-pruned run decides;
   tol_ending_x true e = tol_ending e plus the four panic sites PFuncMissing / PArgCount /
   PParamRange / PBreakEscapes *)
Theorem C03_prune_dead_stores_with_calls_sound :
  forall prog ss fs acc eps fuel o e,
    ds_ok_x prog (Some (ss, fs)) acc = true ->
    run_impl (Some (filter (fun i => negb (memz i acc)) ss, fs)) eps fuel prog = (o, e) ->
    tol_ending_x true e = false ->
    run_impl (Some (ss, fs)) eps fuel prog = (o, e).
Proof. exact ds_sound_x. Qed.
Print Assumptions C03_prune_dead_stores_with_calls_sound.

Theorem C03_plan_ok4_sound :
  forall prog ss fs eps fuel o e,
    v_checked (x_main (plan_ok4 prog ss fs)) = true ->
    x_checked (plan_ok4 prog ss fs) = true ->
    run_impl (Some (x_residual (plan_ok4 prog ss fs))) eps fuel prog = (o, e) ->
    tol_ending_x true e = false ->
    run_impl (Some (ss, fs)) eps fuel prog = (o, e).
Proof. exact plan_ok4_sound_lemma. Qed.
Print Assumptions C03_plan_ok4_sound.

(* THE UMBRELLA STATEMENT of C03: every entry of the plan in one of the proved classes
   (unreachable, unused function, never read - with or without calls of pure functions -,
   flow-sensitive dead store - with or without such calls): the pruned run is the plain run *)
Theorem C03_prune_sound_all_classes :
  forall prog ss fs eps fuel o e,
    v_checked (x_main (plan_ok4 prog ss fs)) = true ->
    x_checked (plan_ok4 prog ss fs) = true ->
    x_residual (plan_ok4 prog ss fs) = ([], []) ->
    run_impl None eps fuel prog = (o, e) ->
    tol_ending_x true e = false ->
    run_impl (Some (ss, fs)) eps fuel prog = (o, e).
Proof. exact prune_sound_five_classes_lemma. Qed.
Print Assumptions C03_prune_sound_all_classes.

(* with the static checkers of C06 (wf_static: argument counts, parameter ranges, loop control;
   wf_scoped: every variable and function a run looks up is there) no panic ending is left
   out: the ONLY run that is not compared is the one that exhausts its fuel *)
Theorem C03_prune_sound_all_classes_wf :
  forall prog ss fs eps fuel o e,
    v_checked (x_main (plan_ok4 prog ss fs)) = true ->
    x_checked (plan_ok4 prog ss fs) = true ->
    x_residual (plan_ok4 prog ss fs) = ([], []) ->
    wf_static prog = true -> wf_scoped None prog = true ->
    run_impl None eps fuel prog = (o, e) ->
    e <> EFuel ->
    run_impl (Some (ss, fs)) eps fuel prog = (o, e).
Proof. exact prune_sound_five_classes_wf_lemma. Qed.
Print Assumptions C03_prune_sound_all_classes_wf.

(* ROUND 5: a pruned FIRST declaration `make u get f(..)` (u mentioned by nothing that runs)
   goes through the never-read class: PlanCheck.plan_ok_x = plan_ok with right-hand sides
   checked by pfe against a table of pure callees that covered_ok re-verifies for every
   registered function (stmt_ok on SFun: pf_fun under the residual plan); the projection
   simulation of PlanProofs carries the purity invariant in st_ok/fd_ok and the same extended
   tolerance.  plan_ok4 = plan_ok_x + the call-enabled liveness class, so the round-4
   theorems above now cover both shapes (the former statement
   C03_first_declaration_with_call_statement_partial is closed by C03_plan_ok_x_sound). *)
Theorem C03_plan_ok_x_sound :
  forall prog ss fs eps fuel o e,
    v_checked (plan_ok_x prog ss fs) = true ->
    run_impl (Some (v_residual (plan_ok_x prog ss fs))) eps fuel prog = (o, e) ->
    tol_ending_x true e = false ->
    run_impl (Some (ss, fs)) eps fuel prog = (o, e).
Proof. exact plan_ok_x_sound_lemma. Qed.
Print Assumptions C03_plan_ok_x_sound.

(* do f(p) start make t get [p, 1]  if to say (true) start t get "{t}" end  return t end
   make u get 0   u get f(3)   shout(2)                                    plan S 6 F *)
Definition ex_call_assign : list stmt :=
  [SFun (Some 0) [102] [[112]]
     [SMake (Some 1) [116] (Some 1) (EArr [(EVar [112] (Some 0)); (ENum (of_bits 4607182418800017408))]);
      SIf (Some 2) (EBool true) [SSet (Some 3) [116] (Some 1) (EInterp [SegVar [116] (Some 1)])] None;
      SRet (Some 4) (Some (EVar [116] (Some 1)))] (Some 1) 0 2;
   SMake (Some 5) [117] (Some 2) (ENum (of_bits 0));
   SSet (Some 6) [117] (Some 2) (ECall (EVar [102] None) [(ENum (of_bits 4613937818241073152))] (Some 1));
   SExpr (Some 7) (ECall (EVar sh None) [(ENum (of_bits 4611686018427387904))] None)].

Example ex_call_assign_verdict :
  let y := plan_ok4 ex_call_assign [6] [] in
  mk_pt (Some ([], [])) ex_call_assign = [1] /\
  v_checked (x_main y) = true /\ x_checked y = true /\ x_acc y = [6] /\ x_residual y = ([], []) /\
  x_residual (plan_ok3 ex_call_assign [6] []) = ([6], []) /\
  run_impl (Some ([6], [])) eps0 30 ex_call_assign = run_impl None eps0 30 ex_call_assign /\
  run_impl None eps0 30 ex_call_assign = ([VNum (of_Z 2)], Done).
Proof. vm_compute. repeat split; reflexivity. Qed.

(* make x get 1  do g() start x get 2 return 0 end  make u get 0  u get g()  shout(x)
   g assigns a captured variable: not in the table, the entry is refused *)
Definition ex_call_impure : list stmt :=
  [SMake (Some 0) [120] (Some 0) (ENum (of_bits 4607182418800017408));
   SFun (Some 1) [103] [] [SSet (Some 2) [120] (Some 0) (ENum (of_bits 4611686018427387904));
                           SRet (Some 3) (Some (ENum (of_bits 0)))] (Some 1) 0 0;
   SMake (Some 4) [117] (Some 1) (ENum (of_bits 0));
   SSet (Some 5) [117] (Some 1) (ECall (EVar [103] None) [] (Some 1));
   SExpr (Some 6) (ECall (EVar sh None) [(EVar [120] (Some 0))] None)].

Example ex_call_impure_refused :
  mk_pt (Some ([], [])) ex_call_impure = [] /\
  ds_ok_x ex_call_impure (Some ([5], [])) [5] = false /\
  run_impl None eps0 30 ex_call_impure = ([VNum (of_Z 2)], Done) /\
  run_impl (Some ([5], [])) eps0 30 ex_call_impure = ([VNum (of_Z 1)], Done).
Proof. vm_compute. repeat split; reflexivity. Qed.

(* BOUNDARY (resource exhaustion, not compared): do f() start return f() end
   make u get 0   u get f()   shout(2)                    the real analysis emits plan S 3 F
   f is in the class (nothing asks a pruned callee to terminate): the checker accepts the
   entry; the plain run never returns from f - at every fuel it ends EFuel (the real run:
   Stack overflow), the pruned run prints 2.  The hypothesis tol_ending_x true e = false /
   e <> EFuel of the theorems is exactly what leaves this pair of runs out. *)
Definition ex_call_diverges : list stmt :=
  [SFun (Some 0) [102] [] [SRet (Some 1) (Some (ECall (EVar [102] None) [] (Some 1)))] (Some 1) 0 0;
   SMake (Some 2) [117] (Some 0) (ENum (of_bits 0));
   SSet (Some 3) [117] (Some 0) (ECall (EVar [102] None) [] (Some 1));
   SExpr (Some 4) (ECall (EVar sh None) [(ENum (of_bits 4611686018427387904))] None)].

Example C03_nonterminating_callee_is_not_compared :
  ds_ok_x ex_call_diverges (Some ([3], [])) [3] = true /\
  run_impl None eps0 40 ex_call_diverges = ([], EFuel) /\
  run_impl None eps0 400 ex_call_diverges = ([], EFuel) /\
  run_impl (Some ([3], [])) eps0 40 ex_call_diverges = ([VNum (of_Z 2)], Done).
Proof. vm_compute. repeat split; reflexivity. Qed.

(* the first-declaration form (ex_user_call, plan S 3 F): never-read class with a call *)
Example ex_user_call_first_declaration_covered :
  let y := plan_ok4 ex_user_call [3] [] in
  v_checked (x_main y) = true /\ x_checked y = true /\ x_residual y = ([], []) /\
  v_stmt (x_main y) = [(3, CNeverRead)] /\
  v_stmt (plan_ok ex_user_call [3] []) = [(3, CDeadStoreCall)].
Proof. vm_compute. repeat split; reflexivity. Qed.
(* a callee that is not pure keeps the declaration out: do g() start shout(1) return 0 end *)
Example ex_user_call_impure_first_declaration :
  x_residual (plan_ok4
    [SFun (Some 0) [103] [] [SExpr (Some 1) (ECall (EVar sh None) [(ENum (of_bits 0))] None);
                             SRet (Some 2) (Some (ENum (of_bits 0)))] (Some 1) 0 0;
     SMake (Some 3) [117] (Some 0) (ECall (EVar [103] None) [] (Some 1));
     SExpr (Some 4) (ECall (EVar sh None) [(ENum (of_bits 4611686018427387904))] None)] [3] []) = ([3], []).
Proof. vm_compute. reflexivity. Qed.

(* fourth wave (seeded C03-d2): a literal-only tree that lit_ty refuses, e.g. "x" add true
   (accepted by the static checks, Type mismatch at run time), is in NO class when pruned *)
Example C03_trapping_literal_tree_is_in_no_class :
  let p := [SMake (Some 0) [117] (Some 0) (EBin Add (EStr [120]) (EBool true));
            SExpr (Some 1) (ECall (EVar sh None) [(ENum (of_bits 4611686018427387904))] None)] in
  lit_ty (EBin Add (EStr [120]) (EBool true)) = None /\
  run_impl None eps0 20 p = ([], RtErr TypeMis) /\
  run_impl (Some ([0], [])) eps0 20 p = ([VNum (of_Z 2)], Done) /\
  v_stmt (plan_ok p [0] []) = [(0, CNoClass)] /\ x_residual (plan_ok4 p [0] []) = ([0], []).
Proof. vm_compute. repeat split; reflexivity. Qed.
