(* C04 — names resolve lexically; functions are visible throughout their block.
   Statements only; proofs in proofs/SimKit.v (the simulation, once, for an abstract state
   relation and ghost), proofs/ScopeProofs.v (stages S1/S2, function visibility, the known
   defect), proofs/ScopeCalls.v (stages S3/S4: calls, recursion, closures).

   Objects: `Lang.run_impl` is the transcription of src/runtime.rs (id-directed, innermost-first
   dynamic search of the scope stack); `Spec.run_spec` is the names-only reference interpreter
   (static links: lexical scoping by construction); `LexResolve.lexical` is the executable
   declarative binding relation, evaluated by the correspondence on the resolver output of
   every generated program.

   FULL STATEMENT, PROVED (C04_impl_equals_spec_scoping, stage S4, no restriction on programs):
     forall eps fuel p o e,
       lexical p = true ->
       run_spec eps fuel p = (o, e) -> comparable e = true ->     (* not stuck / fuel / unsupported *)
       run_impl None eps fuel p = (o, ending_of e).
   i.e. whenever lexical scoping gives the program a meaning, the id-directed dynamic search
   computes exactly that meaning (same fuel; fuel exhaustion of the reference run is excluded
   explicitly by `comparable`).  The key invariant is the most-recent property (ScopeCalls.Emb).
   The CONVERSE ("if run_impl does not panic, run_spec is not stuck") is FALSE:
   C04_refuted_early_capture — the implementation reads the CALLER activation's variable where
   lexically the variable is not initialised.  `no_early_capture p` (boolean, conservative) is
   the side condition under which the converse is expected; it is false on the witnesses and is
   checked against the reference interpreter by the correspondence, not proved here. *)
From Coq Require Import ZArith List Bool.
Require Import NS.theories.F64 NS.theories.Lang NS.theories.Spec NS.theories.LexResolve.
Require Import NS.proofs.SimBase NS.proofs.SimKit NS.proofs.ScopeProofs NS.proofs.ScopeCalls.
Import ListNotations.
Open Scope Z_scope.

(* Stage S4: all programs (user functions, recursion, mutual recursion, closures reading and
   assigning enclosing variables, functions defined in loop bodies and branches). *)
Theorem C04_impl_equals_spec_scoping :
  forall eps fuel p o e,
  lexical p = true ->
  run_spec eps fuel p = (o, e) -> comparable e = true ->
  run_impl None eps fuel p = (o, ending_of e).
Proof. exact impl_equals_spec_scoping. Qed.
Print Assumptions C04_impl_equals_spec_scoping.

(* the state relation of stage S4 satisfies the laws: the simulation for blocks, with the
   most-recent invariant (R4 = GV + Emb) explicit *)
Theorem C04_most_recent_simulation :
  forall eps T,
  (forall fd1 fd2 fid, In fd1 T -> In fd2 T -> f_id fd1 = Some fid -> f_id fd2 = Some fid -> fd1 = fd2) ->
  forall n phi k b s c h,
    R4 T phi k s c h -> chk_block (cv k) (cf k) b = true -> BOK T k b ->
    rsim (Qe (list nat) (R4 T) phi k c s h) (sblock eps n b c h) (exec_block None eps n b s).
Proof. exact S4_sim. Qed.
Print Assumptions C04_most_recent_simulation.

(* Stage S1: programs without user-defined functions. *)
Theorem C04_impl_equals_spec_scoping_partial_S1 :
  forall eps fuel p o e,
  lexical p = true -> nofn p = true ->
  run_spec eps fuel p = (o, e) -> comparable e = true ->
  run_impl None eps fuel p = (o, ending_of e).
Proof. exact impl_equals_spec_nofn. Qed.
Print Assumptions C04_impl_equals_spec_scoping_partial_S1.

(* Stage S2: the lookups in isolation.  Under EnvRel (scope k of the stack <-> frame k of the
   chain, same names, same values, ids = the static environment's), searching the stack for
   the id the static environment gives a name finds the value the static chain designates. *)
Theorem C04_lookup_by_id_is_resolve_by_name :
  forall G es c h n i,
  EnvRel G es c h -> GOK G -> vlookup G n = Some i ->
  exists v, lookup_env (Some i) n es = Some v /\ read_var h n c = sret v.
Proof. exact lookup_by_id_is_resolve_by_name. Qed.
Print Assumptions C04_lookup_by_id_is_resolve_by_name.

Theorem C04_assign_by_id_is_write_by_name :
  forall G es c h n i v,
  EnvRel G es c h -> GOK G -> NoDup (map fst c) -> vlookup G n = Some i ->
  exists es' h', assign_env (Some i) n v es = Some es' /\ write_var h n c v = sret h' /\
    EnvRel G es' c h' /\
    (forall fid, ~ In fid (map fst c) -> nth_error h' fid = nth_error h fid).
Proof. exact assign_by_id_is_write_by_name. Qed.
Print Assumptions C04_assign_by_id_is_write_by_name.

(* re-declaring a name in the same block rebinds the same variable *)
Theorem C04_redeclare_same_variable :
  forall g G es c h n i v,
  EnvRel (g :: G) es c h -> GOK (g :: G) -> NoDup (map fst c) -> assoc n g = Some i ->
  exists h', declare_var h (cur_of c) n v = sret h' /\
    EnvRel (g :: G) (define_env (Some i) n v es) c h'.
Proof. exact define_is_declare_old. Qed.
Print Assumptions C04_redeclare_same_variable.

Theorem C04_declare_new_variable :
  forall g G es c h n i v,
  EnvRel (g :: G) es c h -> NoDup (map fst c) -> assoc n g = None -> ~ In i (scope_ids g) ->
  exists h', declare_var h (cur_of c) n v = sret h' /\
    EnvRel (((n, i) :: g) :: G) (define_env (Some i) n v es) c h'.
Proof. exact define_is_declare_new. Qed.
Print Assumptions C04_declare_new_variable.

Theorem C04_push_scope_is_new_frame :
  forall G es c h cs,
  EnvRel G es c h ->
  EnvRel ([] :: G) ([] :: es) ((length h, None) :: c)
    (with_fns (h ++ [{| fr_slots := []; fr_fns := []; fr_parent := c |}]) (length h) cs)
  /\ ~ In (length h) (map fst c).
Proof. exact push_is_new_frame. Qed.
Print Assumptions C04_push_scope_is_new_frame.

Theorem C04_pop_scope_is_chain_tail :
  forall g G e es fid vis c h,
  EnvRel (g :: G) (e :: es) ((fid, vis) :: c) h -> EnvRel G es c h.
Proof. exact pop_is_chain_tail. Qed.
Print Assumptions C04_pop_scope_is_chain_tail.

(* The simulation itself, for ANY state relation R satisfying the laws at reads, assignments,
   declarations, block entry/exit and calls (SimKit.kit_sim): stages S1 and S3/S4 are instances; the ghost g is the frame of every live scope. *)
Theorem C04_simulation_kit :
  forall eps T (Gh : Type) (gpush : Gh -> nat -> Gh) (R : Gh -> ctx -> st -> chain -> heap -> Prop),
  (forall g k s c h n i v,
     R g k s c h -> vlookup (cv k) n = Some i -> read_var h n c = sret v ->
     lookup_env (Some i) n (env s) = Some v) ->
  (forall g k s c h n i v h',
     R g k s c h -> vlookup (cv k) n = Some i -> write_var h n c v = sret h' ->
     exists e', assign_env (Some i) n v (env s) = Some e' /\ R g k (with_env e' s) c h') ->
  (forall g lv k s c h n i v h',
     R g (lv :: k) s c h -> assoc n (lv_g lv) = Some i ->
     declare_var h (cur_of c) n v = sret h' ->
     R g (lv :: k) (with_env (define_env (Some i) n v (env s)) s) c h') ->
  (forall g lv k s c h n i v h',
     R g (lv :: k) s c h -> assoc n (lv_g lv) = None ->
     (exists r, decls_after ((n, i) :: lv_g lv) r = lv_sig lv) ->
     NoDup (sig_ids (lv :: k)) ->
     declare_var h (cur_of c) n v = sret h' ->
     R g (set_g lv ((n, i) :: lv_g lv) :: k) (with_env (define_env (Some i) n v (env s)) s) c h') ->
  (forall g k s c h b fs,
     R g k s c h -> chk_block (cv k) (cf k) b = true -> predecl b = Some fs -> BOK T k b ->
     R (gpush g (length h)) (enter_level b fs :: k)
       {| env := [] :: env s; fns := hoisted b [] :: fns s |}
       ((length h, None) :: c)
       (with_fns (h ++ [{| fr_slots := []; fr_fns := []; fr_parent := c |}]) (length h)
                 (block_closures b (length h) [] []))) ->
  (forall g k s c h lv s' fid h',
     R g k s c h -> R (gpush g fid) (lv :: k) s' ((fid, None) :: c) h' ->
     tl (env_shape (env s')) = env_shape (env s) -> tl (fns s') = fns s -> hext h h' ->
     R g k (pop_scope s') c h') ->
  (forall g k s c h f fid cl,
     R g k s c h -> vlookup (cf k) f = Some fid -> resolve_fn h f c = Some cl ->
     exists fd,
       lookup_fn (Some fid) f (fns s) = Some fd /\
       f_params fd = c_params cl /\ f_body fd = c_body cl /\ f_id fd = Some fid /\
       (f_llen fd <? Z.of_nat (length (f_params fd))) = false /\
       forall s1 h1 vs,
         R g k s1 c h1 -> FC s h s1 h1 -> length vs = length (c_params cl) ->
         let defchain : chain :=
           match nth_error h1 (c_frame cl) with
           | Some df => (c_frame cl, Some (c_vis cl)) :: fr_parent df
           | None => []
           end in
         let h2 := h1 ++ [{| fr_slots := SpecUnfold.sbindp (c_params cl) vs []; fr_fns := []; fr_parent := defchain |}] in
         let s2 := push_scope (bind_params (Some fid) (f_lstart fd) (f_params fd) vs 0 []) s1 in
         exists kG,
           chk_block (cv kG) (cf kG) (c_body cl) = true /\ BOK T kG (c_body cl) /\
           R (gpush g (length h1)) kG s2 ((length h1, None) :: defchain) h2 /\
           forall s3 h3,
             R (gpush g (length h1)) kG s3 ((length h1, None) :: defchain) h3 -> FC s2 h2 s3 h3 -> R g k (pop_scope s3) c h3) ->
  forall n g k b s c h,
    R g k s c h -> chk_block (cv k) (cf k) b = true -> BOK T k b ->
    rsim (Qe Gh R g k c s h) (sblock eps n b c h) (exec_block None eps n b s).
Proof. exact kit_simB. Qed.
Print Assumptions C04_simulation_kit.

(* Functions: found from anywhere in their block (forward references included), innermost
   block first, enclosing scopes otherwise unchanged, gone when the block is left. *)
Theorem C04_function_visibility :
  forall b s,
  exists s1, hoist None b (push_scope [] s) = Ok s1 /\
    (forall fd fid, NoDup (map f_id (block_fns b)) -> In fd (block_fns b) -> f_id fd = Some fid ->
       lookup_fn (Some fid) (f_name fd) (fns s1) = Some fd) /\
    (forall t n, find_fn_scope t n (rev (block_fns b)) = None ->
       lookup_fn t n (fns s1) = lookup_fn t n (fns s)) /\
    (forall t n f, find_fn_scope t n (rev (block_fns b)) = Some f -> lookup_fn t n (fns s1) = Some f) /\
    fns (pop_scope s1) = fns s /\ env (pop_scope s1) = env s.
Proof. exact function_visibility. Qed.
Print Assumptions C04_function_visibility.

(* The known finding (DESIGN section 7 row 8): a lexical program on which the implementation
   model does not do what the reference semantics prescribes — it reads the caller
   activation's `x` and prints 1, where lexically `x` is not initialised (the reference is
   stuck).  Hence "run_impl agrees with run_spec whenever run_impl does not panic" is false,
   and the hypothesis `no_early_capture` (false on this program) is needed for that direction. *)
Theorem C04_refuted_early_capture :
  exists p fuel eps,
    lexical p = true /\ no_early_capture p = false /\
    run_impl None eps fuel p = ([VNum f64_one], Done) /\
    run_spec eps fuel p = ([], SIsStuck).
Proof.
  exists early_capture_recursion, 50%nat, eps_default.
  destruct early_capture_recursion_runs as (A & B & C & D). auto.
Qed.
Print Assumptions C04_refuted_early_capture.

(* without recursion the same shape hits the `expect` in the variable lookup *)
Theorem C04_refuted_early_capture_panic :
  exists p fuel eps,
    lexical p = true /\ no_early_capture p = false /\
    run_impl None eps fuel p = ([], Panicked PVarMissing) /\
    run_spec eps fuel p = ([], SIsStuck).
Proof.
  exists early_capture_panic, 50%nat, eps_default.
  destruct early_capture_panic_runs as (A & B & C & D). auto.
Qed.
Print Assumptions C04_refuted_early_capture_panic.

(* the hypotheses of S1 are satisfiable: `make a get 1  start make a get a add 1 shout(a) end  shout(a)` *)
Example C04_S1_hypotheses_satisfiable :
  let p := [SMake (Some 0) [97] (Some 0) (ENum f64_one);
            SBlock (Some 1)
              [SMake (Some 2) [97] (Some 1) (EBin Add (EVar [97] (Some 0)) (ENum f64_one));
               SExpr (Some 3) (ECall (EVar n_shout None) [EVar [97] (Some 1)] None)];
            SExpr (Some 4) (ECall (EVar n_shout None) [EVar [97] (Some 0)] None)] in
  lexical p = true /\ nofn p = true /\
  comparable (snd (run_spec eps_default 20 p)) = true /\
  run_impl None eps_default 20 p = (fst (run_spec eps_default 20 p), Done).
Proof. vm_compute. repeat split. Qed.

(* the hypotheses of the general theorem hold on a program with recursion and a closure that
   assigns a variable of the enclosing activation (ids as dumped by the checker):
     do mk(p) start make a get p  do bump(d) start a get a add d return a end
                    if to say (p pass 0) start shout(mk(p minus 1)) end  return bump(3) end
     shout(mk(1)) *)
Example C04_S4_hypotheses_satisfiable :
  let nm_mk := [109;107] in let nm_bump := [98;117;109;112] in
  let p :=
    [SFun (Some 0) nm_mk [[112]]
       [SMake (Some 1) [97] (Some 1) (EVar [112] (Some 0));
        SFun (Some 2) nm_bump [[100]]
          [SSet (Some 3) [97] (Some 1) (EBin Add (EVar [97] (Some 1)) (EVar [100] (Some 2)));
           SRet (Some 4) (Some (EVar [97] (Some 1)))] (Some 2) 2 1;
        SIf (Some 5) (EBin OGt (EVar [112] (Some 0)) (ENum (of_bits 0)))
          [SExpr (Some 6) (ECall (EVar n_shout None)
             [ECall (EVar nm_mk None) [EBin Minus (EVar [112] (Some 0)) (ENum f64_one)] (Some 1)] None)] None;
        SRet (Some 7) (Some (ECall (EVar nm_bump None) [ENum (of_bits 4613937818241073152)] (Some 2)))]
       (Some 1) 0 2;
     SExpr (Some 8) (ECall (EVar n_shout None) [ECall (EVar nm_mk None) [ENum f64_one] (Some 1)] None)] in
  lexical p = true /\ no_early_capture p = true /\
  comparable (snd (run_spec eps_default 40 p)) = true /\
  run_impl None eps_default 40 p = (fst (run_spec eps_default 40 p), Done) /\
  length (fst (run_spec eps_default 40 p)) = 2%nat.
Proof. vm_compute. repeat split. Qed.

(* ================================================================== round 3: end-to-end composition
   theories/Pipeline.v assembles lexer -> parser -> named tree -> static rules -> evaluator from SOURCE
   BYTES (tied to the code by lib/props/pipeline.py on source text).  Statements as in
   Properties/PIPELINE.v; restated by type so that this property's audit covers them. *)
Require NS.Properties.PIPELINE.

(* the names-only resolution produces lexical ids (closes the gap left in round 1) *)
Theorem C04_resolved_ids_are_lexical :
  ltac:(let t := type of NS.Properties.PIPELINE.PIPELINE_resolved_ids_are_lexical in exact t).
Proof. exact NS.Properties.PIPELINE.PIPELINE_resolved_ids_are_lexical. Qed.
Print Assumptions C04_resolved_ids_are_lexical.

(* for every source: documented semantics comparable => the runtime transcription on the resolved tree prints the same and ends alike *)
Theorem C04_impl_equals_spec_end_to_end :
  ltac:(let t := type of NS.Properties.PIPELINE.PIPELINE_impl_equals_spec_end_to_end in exact t).
Proof. exact NS.Properties.PIPELINE.PIPELINE_impl_equals_spec_end_to_end. Qed.
Print Assumptions C04_impl_equals_spec_end_to_end.
