(* C05 — arrays are values: no mutation is ever visible through another name.

   Values of the model (theories/Lang.v, a transcription of src/runtime.rs tied to the code
   by the `lang` correspondence) are immutable trees, so a copy can never share storage
   with its source; the theorems below are the other half of the property: each mutating
   construct rewrites exactly one variable slot, and inside it exactly one position.
   Only statements here, each closed by [exact] of a lemma of proofs/ArrProofs.v. *)
From Coq Require Import ZArith List Bool.
Require Import NS.theories.F64 NS.theories.Lang NS.theories.ArrSpec NS.proofs.ArrProofs.
Import ListNotations.
Open Scope Z_scope.

(* ---- inside one value ---- *)

(* Indexed assignment at a path: the position reads back the new value; every position that
   is neither below nor above it reads what it read before; no array other than what was
   stored changes its length. *)
Theorem C05_assign_path_spec : forall p v nv v',
  nonneg p -> assign_path v p nv = Ok v' ->
  get_path v' p = Some nv /\
  (forall q, indep p q -> get_path v' q = get_path v q) /\
  (forall q, ~ prefix p q -> alen (get_path v' q) = alen (get_path v q)).
Proof. exact assign_path_spec. Qed.
Print Assumptions C05_assign_path_spec.

(* Its error cases, exactly: a non-array on the way is InvalidIndex, an index >= length is
   IndexOutOfBounds, the first such step decides; nothing else can happen (the one panic
   needs an empty index chain, which an index assignment never has). *)
Theorem C05_assign_path_errors : forall p v nv,
  nonneg p ->
  (forall e, assign_path v p nv = Err e <-> fault_at v p e) /\
  ((exists v', assign_path v p nv = Ok v') <-> (p <> [] /\ forall e, ~ fault_at v p e)) /\
  ((exists v', assign_path v p nv = Ok v') \/ assign_path v p nv = Err InvIdx \/
   assign_path v p nv = Err IdxOob \/ (p = [] /\ assign_path v p nv = Panic PIdxAssignEnd)).
Proof. exact assign_path_errors. Qed.
Print Assumptions C05_assign_path_errors.

(* push / pop / reverse at a path: the addressed sub-array, and only it, is replaced by the
   result of the list operation; the call returns what the operation returns. *)
Theorem C05_mutate_path_spec : forall p v op v' r,
  nonneg p -> mutate_path v p op = Ok (v', r) ->
  (exists items, get_path v p = Some (VArr items) /\
     get_path v' p = Some (VArr (fst (apply_mutop op items))) /\
     r = snd (apply_mutop op items)) /\
  (forall q, indep p q -> get_path v' q = get_path v q) /\
  (forall q, ~ prefix p q -> alen (get_path v' q) = alen (get_path v q)).
Proof. exact mutate_path_spec. Qed.
Print Assumptions C05_mutate_path_spec.

Theorem C05_mutate_path_errors : forall p v op,
  nonneg p ->
  (forall e, mutate_path v p op = Err e ->
     fault_at v p e \/ (e = TypeMis /\ exists x, get_path v p = Some x /\
                                         match x with VArr _ => False | _ => True end)) /\
  ((exists v' r, mutate_path v p op = Ok (v', r)) \/
   (exists e, mutate_path v p op = Err e /\ (e = InvIdx \/ e = IdxOob \/ e = TypeMis))).
Proof. exact mutate_path_errors. Qed.
Print Assumptions C05_mutate_path_errors.

(* push appends exactly one element at the end, pop removes exactly the last one and
   returns it (null on an empty array), reverse reverses. *)
Theorem C05_list_ops_spec :
  (forall x items, apply_mutop (MPush x) items = (items ++ [x], VNull)) /\
  apply_mutop MPop [] = ([], VNull) /\
  (forall items x, apply_mutop MPop (items ++ [x]) = (items, x)) /\
  (forall items, apply_mutop MReverse items = (rev items, VNull)).
Proof. exact list_ops_spec. Qed.
Print Assumptions C05_list_ops_spec.

(* Element persistence below the mutated array: after a push every old element (and all
   that is below it) is where it was; after a pop all but the last; after a reverse the
   element at k is the one that was at len-1-k. *)
Theorem C05_push_keeps_elements : forall p v x v' r,
  nonneg p -> mutate_path v p (MPush x) = Ok (v', r) ->
  exists items, get_path v p = Some (VArr items) /\ r = VNull /\
    get_path v' p = Some (VArr (items ++ [x])) /\
    get_path v' (p ++ [len_z items]) = Some x /\
    forall k rest, 0 <= k < len_z items ->
      get_path v' (p ++ k :: rest) = get_path v (p ++ k :: rest).
Proof. exact mutate_push_elements. Qed.
Print Assumptions C05_push_keeps_elements.

Theorem C05_pop_keeps_elements : forall p v v' r,
  nonneg p -> mutate_path v p MPop = Ok (v', r) ->
  exists items, get_path v p = Some (VArr items) /\
    ((items = [] /\ r = VNull /\ get_path v' p = Some (VArr [])) \/
     (exists l, items = l ++ [r] /\ get_path v' p = Some (VArr l) /\
        forall k rest, 0 <= k < len_z l ->
          get_path v' (p ++ k :: rest) = get_path v (p ++ k :: rest))).
Proof. exact mutate_pop_elements. Qed.
Print Assumptions C05_pop_keeps_elements.

Theorem C05_reverse_moves_elements : forall p v v' r,
  nonneg p -> mutate_path v p MReverse = Ok (v', r) ->
  exists items, get_path v p = Some (VArr items) /\ r = VNull /\
    get_path v' p = Some (VArr (rev items)) /\
    forall k rest, 0 <= k < len_z items ->
      get_path v' (p ++ k :: rest) = get_path v (p ++ (len_z items - 1 - k) :: rest).
Proof. exact mutate_reverse_elements. Qed.
Print Assumptions C05_reverse_moves_elements.

(* ---- variable slots ---- *)

(* A variable reference (local id, else name) reads the slot at its position. *)
Theorem C05_lookup_reads_slot : forall l n e,
  lookup_env l n e =
  match find_pos l n e with
  | Some pos => option_map s_val (slot_at e pos)
  | None => None
  end.
Proof. exact lookup_env_pos. Qed.
Print Assumptions C05_lookup_reads_slot.

(* assign_env changes the value of exactly the first matching slot, innermost scope first,
   and no other slot; scope count and the ids/names/order of all slots are kept. *)
Theorem C05_assign_env_frame : forall l n v e e',
  assign_env l n v e = Some e' ->
  exists pos s, find_pos l n e = Some pos /\ slot_at e pos = Some s /\
    slot_at e' pos = Some (with_val s v) /\
    (forall pos', pos' <> pos -> slot_at e' pos' = slot_at e pos') /\
    shape e' = shape e.
Proof. exact assign_env_frame. Qed.
Print Assumptions C05_assign_env_frame.

Theorem C05_assign_env_lookup : forall l n v e e',
  assign_env l n v e = Some e' ->
  lookup_env l n e' = Some v /\
  (forall l' n', find_pos l' n' e' = find_pos l' n' e) /\
  (forall l' n', find_pos l' n' e <> find_pos l n e -> lookup_env l' n' e' = lookup_env l' n' e) /\
  (forall l' n', find_pos l' n' e = find_pos l n e -> lookup_env l' n' e' = Some v).
Proof. exact assign_env_lookup. Qed.
Print Assumptions C05_assign_env_lookup.

(* `make`: overwrite in the innermost scope or push exactly one slot there; every reference
   that does not resolve to the defined slot reads what it read before. *)
Theorem C05_define_env_frame : forall l n v sc r,
  let e := sc :: r in
  let e' := define_env l n v e in
  lookup_env l n e' = Some v /\
  (shape e' = shape e \/ shape e' = ((l, n) :: map skey sc) :: shape r) /\
  (forall l' n', find_pos l' n' e' <> find_pos l n e' -> lookup_env l' n' e' = lookup_env l' n' e).
Proof. exact define_env_frame. Qed.
Print Assumptions C05_define_env_frame.

(* ---- statements of run_impl ---- *)

(* General case (operands may call anything): `target get e` that ends normally evaluated e,
   then the index expressions left to right (all indices >= 0), and then did exactly one
   store: in the state s2 reached by those evaluations the base variable held `root`, and
   the final state differs from s2 only in that this variable's slot holds
   assign_path root path v. *)
Theorem C05_setidx_is_one_store : forall P eps n sid t e s out fl s',
  exec P eps (S n) (SSetIdx sid t e) s = (out, Ok (fl, s')) ->
  exists v s1 o1 vn vl idx path s2 o2 root root',
    eval P eps n e s = (o1, Ok (v, s1)) /\
    flatten_target t [] = Some (vn, vl, idx) /\
    eval_indices P eps n idx s1 = (o2, Ok (path, s2)) /\
    nonneg path /\ out = o1 ++ o2 /\ fl = FNormal /\
    stored vn vl s2 s' root root' /\ assign_path root path v = Ok root'.
Proof. exact exec_setidx_store. Qed.
Print Assumptions C05_setidx_is_one_store.

(* General case for push / pop / reverse. *)
Theorem C05_mutating_call_is_one_store : forall P eps n o f args t s out r s',
  mem_name f array_mut_methods = true ->
  eval P eps (S n) (ECall (EMember o f) args t) s = (out, Ok (r, s')) ->
  exists op s1 o1 vn vl idx path s2 o2 root root',
    ((f = n_push /\ exists a0 rest v, args = a0 :: rest /\ op = MPush v /\
                     eval P eps n a0 s = (o1, Ok (v, s1))) \/
     (f = n_pop /\ op = MPop /\ s1 = s /\ o1 = []) \/
     (f = n_reverse /\ op = MReverse /\ s1 = s /\ o1 = [])) /\
    flatten_target o [] = Some (vn, vl, idx) /\
    eval_indices P eps n idx s1 = (o2, Ok (path, s2)) /\ nonneg path /\ out = o1 ++ o2 /\
    stored vn vl s2 s' root root' /\ mutate_path root path op = Ok (root', r).
Proof. exact mutating_call_store. Qed.
Print Assumptions C05_mutating_call_is_one_store.

(* What one store does: the base variable reads the new value; every reference resolving to
   another slot (any scope, any activation) reads what it read before; every other slot is
   untouched; shape and function table are kept. *)
Theorem C05_store_frame : forall vn vl s s' root root',
  stored vn vl s s' root root' ->
  lookup_env vl vn (env s') = Some root' /\
  shape (env s') = shape (env s) /\
  fns s' = fns s /\
  (forall l' n', find_pos l' n' (env s') = find_pos l' n' (env s)) /\
  (forall l' n', find_pos l' n' (env s) <> find_pos vl vn (env s) ->
                 lookup_env l' n' (env s') = lookup_env l' n' (env s)) /\
  (forall pos', find_pos vl vn (env s) <> Some pos' ->
                slot_at (env s') pos' = slot_at (env s) pos').
Proof. exact store_frame. Qed.
Print Assumptions C05_store_frame.

(* Call-free operands cannot touch the state. *)
Theorem C05_pure_expr_keeps_state : forall P eps n e s o v s',
  pure_expr e = true -> eval P eps n e s = (o, Ok (v, s')) -> s' = s.
Proof. exact eval_pure. Qed.
Print Assumptions C05_pure_expr_keeps_state.

(* `a[i]..[k] get e` with call-free operands, relative to the state before the statement:
   exactly the slot of the base variable changes, at exactly the addressed path. *)
Theorem C05_exec_setidx_frame : forall P eps n sid t e s out fl s',
  pure_expr t = true -> pure_expr e = true ->
  exec P eps (S n) (SSetIdx sid t e) s = (out, Ok (fl, s')) ->
  exists vn vl idx v path root root' o1 o2,
    flatten_target t [] = Some (vn, vl, idx) /\
    eval P eps n e s = (o1, Ok (v, s)) /\
    eval_indices P eps n idx s = (o2, Ok (path, s)) /\ nonneg path /\
    lookup_env vl vn (env s) = Some root /\
    assign_path root path v = Ok root' /\
    lookup_env vl vn (env s') = Some root' /\
    get_path root' path = Some v /\
    (forall q, indep path q -> get_path root' q = get_path root q) /\
    (forall q, ~ prefix path q -> alen (get_path root' q) = alen (get_path root q)) /\
    (forall l' n', find_pos l' n' (env s) <> find_pos vl vn (env s) ->
                   lookup_env l' n' (env s') = lookup_env l' n' (env s)) /\
    shape (env s') = shape (env s) /\ fns s' = fns s /\ fl = FNormal.
Proof. exact exec_setidx_frame. Qed.
Print Assumptions C05_exec_setidx_frame.

(* push / pop / reverse with call-free receiver indices and argument. *)
Theorem C05_mutating_call_frame : forall P eps n o f args t s out r s',
  mem_name f array_mut_methods = true ->
  pure_expr o = true -> forallb pure_expr args = true ->
  eval P eps (S n) (ECall (EMember o f) args t) s = (out, Ok (r, s')) ->
  exists op vn vl idx path root root' o2,
    flatten_target o [] = Some (vn, vl, idx) /\
    eval_indices P eps n idx s = (o2, Ok (path, s)) /\ nonneg path /\
    ((f = n_push /\ exists a0 rest v o1, args = a0 :: rest /\ op = MPush v /\
                     eval P eps n a0 s = (o1, Ok (v, s))) \/
     (f = n_pop /\ op = MPop) \/ (f = n_reverse /\ op = MReverse)) /\
    lookup_env vl vn (env s) = Some root /\
    mutate_path root path op = Ok (root', r) /\
    lookup_env vl vn (env s') = Some root' /\
    (exists items, get_path root path = Some (VArr items) /\
       get_path root' path = Some (VArr (fst (apply_mutop op items))) /\
       r = snd (apply_mutop op items)) /\
    (forall q, indep path q -> get_path root' q = get_path root q) /\
    (forall q, ~ prefix path q -> alen (get_path root' q) = alen (get_path root q)) /\
    (forall l' n', find_pos l' n' (env s) <> find_pos vl vn (env s) ->
                   lookup_env l' n' (env s') = lookup_env l' n' (env s)) /\
    shape (env s') = shape (env s) /\ fns s' = fns s.
Proof. exact mutating_call_frame. Qed.
Print Assumptions C05_mutating_call_frame.

(* Any history of such mutations through other variables leaves a variable alone. *)
Theorem C05_history_frame : forall P eps s ts s' lb b,
  steps P eps s ts s' ->
  (forall t, In t ts -> exists vn vl, mut_base t = Some (vn, vl) /\
                          find_pos vl vn (env s) <> find_pos lb b (env s)) ->
  lookup_env lb b (env s') = lookup_env lb b (env s) /\ shape (env s') = shape (env s).
Proof. exact steps_frame. Qed.
Print Assumptions C05_history_frame.

(* `make b get a` binds b to a's value; a keeps it; afterwards no history of mutations
   through a (or anything that is not b) is visible through b, and symmetrically. *)
Theorem C05_copy_is_value : forall P eps n sid b lb a la s o fl s1,
  exec P eps (S n) (SMake sid b lb (EVar a la)) s = (o, Ok (fl, s1)) ->
  exists va,
    lookup_env la a (env s) = Some va /\
    lookup_env lb b (env s1) = Some va /\
    (find_pos la a (env s1) <> find_pos lb b (env s1) ->
       lookup_env la a (env s1) = Some va /\
       (forall ts s2, steps P eps s1 ts s2 ->
          (forall t, In t ts -> exists vn vl, mut_base t = Some (vn, vl) /\
                                find_pos vl vn (env s1) <> find_pos lb b (env s1)) ->
          lookup_env lb b (env s2) = Some va) /\
       (forall ts s2, steps P eps s1 ts s2 ->
          (forall t, In t ts -> exists vn vl, mut_base t = Some (vn, vl) /\
                                find_pos vl vn (env s1) <> find_pos la a (env s1)) ->
          lookup_env la a (env s2) = Some va)).
Proof. exact copy_is_value. Qed.
Print Assumptions C05_copy_is_value.

(* `b get a` on an existing variable b: b's slot, and only it, receives a's value (so the
   history theorem above applies from the resulting state exactly as after `make`). *)
Theorem C05_assign_var_is_value : forall P eps n sid b lb a la s o fl s1,
  exec P eps (S n) (SSet sid b lb (EVar a la)) s = (o, Ok (fl, s1)) ->
  exists va,
    lookup_env la a (env s) = Some va /\ lookup_env lb b (env s1) = Some va /\ (forall l' n', find_pos l' n' (env s) <> find_pos lb b (env s) ->
                   lookup_env l' n' (env s1) = lookup_env l' n' (env s)) /\ shape (env s1) = shape (env s) /\ fns s1 = fns s.
Proof. exact assign_var_is_value. Qed.
Print Assumptions C05_assign_var_is_value.

(* Storing into an array literal, passing as an argument, returning: reading a variable
   yields its value and changes nothing; a user call binds each parameter to the argument
   *value* in a fresh slot of a new innermost scope (so the frame theorems above apply to
   the parameter slot and the caller's variable as two different slots). *)
Theorem C05_read_var_is_value : forall P eps n a la s o v s',
  eval P eps (S n) (EVar a la) s = (o, Ok (v, s')) ->
  lookup_env la a (env s) = Some v /\ s' = s /\ o = [].
Proof. exact read_var_is_value. Qed.
Print Assumptions C05_read_var_is_value.

Theorem C05_call_binds_values : forall P eps n fname l args target s,
  global_builtin fname = None ->
  eval P eps (S n) (ECall (EVar fname l) args target) s =
  match lookup_fn target fname (fns s) with
  | None => PanicM PFuncMissing
  | Some fd =>
      bindM (evals P eps n args s) (fun '(vs, s1) =>
        if negb (Nat.eqb (length vs) (length (f_params fd))) then PanicM PArgCount
        else if (match f_id fd with
                 | Some _ => f_llen fd <? Z.of_nat (length (f_params fd))
                 | None => false end) then PanicM PParamRange
        else
          bindM (exec_block P eps n (f_body fd)
                   (push_scope (bind_params (f_id fd) (f_lstart fd) (f_params fd) vs 0 []) s1))
                (fun '(fl, s3) =>
                   match fl with
                   | FNormal => OkM (VNull, pop_scope s3)
                   | FReturn v => OkM (v, pop_scope s3)
                   | FBreak | FNext => PanicM PBreakEscapes
                   end))
  end.
Proof. exact eval_call_S. Qed.
Print Assumptions C05_call_binds_values.

(* Call by value and evaluation order.  C05_call_binds_values above binds the parameters from
   `evals args s`; evals (= Lang.evals_with at the evaluator of the next lower fuel) threads the
   state through the argument list, so the parameters are NOT all read from one pre-call state:
   the argument at any position is evaluated in the state left by the arguments before it, its
   value is fixed there, and the arguments after it start from the state it leaves. *)
Theorem C05_args_left_to_right : forall P eps n pre e post s o vs s',
  evals P eps n (pre ++ e :: post) s = (o, Ok (vs, s')) ->
  exists o1 vpre sk o2 v sk1 o3 vpost,
    evals P eps n pre s = (o1, Ok (vpre, sk)) /\
    eval P eps n e sk = (o2, Ok (v, sk1)) /\
    evals P eps n post sk1 = (o3, Ok (vpost, s')) /\
    vs = vpre ++ v :: vpost /\ length vpre = length pre /\ o = o1 ++ o2 ++ o3.
Proof. exact args_left_to_right. Qed.
Print Assumptions C05_args_left_to_right.

(* In particular an argument that is a plain variable is bound to the variable's value after the
   earlier arguments and before the later ones (`f(a, g())` with g mutating a: the parameter is
   the old a; `f(g(), a)`: the new a). *)
Theorem C05_arg_var_snapshot : forall P eps n pre a la post s o vs s',
  evals P eps (S n) (pre ++ EVar a la :: post) s = (o, Ok (vs, s')) ->
  exists o1 vpre sk va,
    evals P eps (S n) pre s = (o1, Ok (vpre, sk)) /\
    lookup_env la a (env sk) = Some va /\
    nth_error vs (length pre) = Some va.
Proof. exact arg_var_snapshot. Qed.
Print Assumptions C05_arg_var_snapshot.

(* The i-th parameter name is bound to the i-th argument value (newest slot first). *)
Theorem C05_params_bound_positionally : forall fid ls ps vs k acc,
  map (fun sl => (s_name sl, s_val sl)) (bind_params fid ls ps vs k acc) =
  rev (combine ps vs) ++ map (fun sl => (s_name sl, s_val sl)) acc.
Proof. exact bind_params_pairs. Qed.
Print Assumptions C05_params_bound_positionally.

(* ---- the hypotheses are satisfiable: concrete nested arrays, a copy, depth-2 writes ---- *)
Definition nm_a : name := [97].
Definition nm_b : name := [98].
Definition num (z : Z) : expr := ENum (of_Z z).
Definition vnum (z : Z) : value := VNum (of_Z z).
Definition eps0 : f64 := of_bits 4427486594234968593.   (* 1e-12 *)

(* make a get [[1, 2], [3, "x"]]   make b get a   a[0][1] get 9   b[1].push(true)
   a[1].reverse()   shout(a.pop())   shout(a)   shout(b) *)
Definition ex_prog : list stmt :=
  [ SMake (Some 0) nm_a (Some 0) (EArr [EArr [num 1; num 2]; EArr [num 3; EStr [120]]]);
    SMake (Some 1) nm_b (Some 1) (EVar nm_a (Some 0));
    SSetIdx (Some 2) (EIdx (EIdx (EVar nm_a (Some 0)) (num 0)) (num 1)) (num 9);
    SExpr (Some 3) (ECall (EMember (EIdx (EVar nm_b (Some 1)) (num 1)) n_push) [EBool true] None);
    SExpr (Some 4) (ECall (EMember (EIdx (EVar nm_a (Some 0)) (num 1)) n_reverse) [] None);
    SExpr (Some 5) (ECall (EVar n_shout None)
                      [ECall (EMember (EVar nm_a (Some 0)) n_pop) [] None] None);
    SExpr (Some 6) (ECall (EVar n_shout None) [EVar nm_a (Some 0)] None);
    SExpr (Some 7) (ECall (EVar n_shout None) [EVar nm_b (Some 1)] None) ].

Example C05_example_run :
  run_impl None eps0 20 ex_prog =
  ([ VArr [VStr [120]; vnum 3];
     VArr [VArr [vnum 1; vnum 9]];
     VArr [VArr [vnum 1; vnum 2]; VArr [vnum 3; VStr [120]; VBool true]] ], Done).
Proof. vm_compute. reflexivity. Qed.

Definition ex_val : value := VArr [VArr [vnum 1; vnum 2]; VArr [vnum 3; VStr [120]]].

Example C05_example_assign_depth2 :
  assign_path ex_val [0; 1] (vnum 9) = Ok (VArr [VArr [vnum 1; vnum 9]; VArr [vnum 3; VStr [120]]])
  /\ nonneg [0; 1] /\ indep [0; 1] [1; 1] /\ indep [0; 1] [0; 0] /\ ~ prefix [0; 1] [0].
Proof.
  split; [vm_compute; reflexivity|]. split; [repeat constructor; discriminate|].
  repeat split; intros [r Hr]; cbn in Hr; discriminate Hr.
Qed.

Example C05_example_errors :
  assign_path ex_val [0; 0; 0] VNull = Err InvIdx /\ fault_at ex_val [0; 0; 0] InvIdx /\
  assign_path ex_val [1; 2] VNull = Err IdxOob /\ fault_at ex_val [1; 2] IdxOob /\
  mutate_path ex_val [1; 1] MPop = Err TypeMis.
Proof.
  split; [vm_compute; reflexivity|]. split.
  { exists [0; 0], 0, [], (vnum 1). vm_compute. auto. }
  split; [vm_compute; reflexivity|]. split.
  { exists [1], 2, [], (VArr [vnum 3; VStr [120]]). vm_compute.
    refine (conj eq_refl (conj eq_refl (conj eq_refl _))). discriminate. }
  vm_compute. reflexivity.
Qed.

(* the copy statement of the example, from the state after `make a ...`: it ends normally
   and a and b resolve to different slots, so C05_copy_is_value applies non-vacuously *)
Definition ex_s0 : st :=
  {| env := [[ {| s_id := Some 0; s_name := nm_a; s_val := ex_val |} ]]; fns := [[]] |}.

Example C05_example_copy :
  exists s1, exec None eps0 2 (SMake (Some 1) nm_b (Some 1) (EVar nm_a (Some 0))) ex_s0
             = ([], Ok (FNormal, s1)) /\
    find_pos (Some 0) nm_a (env s1) <> find_pos (Some 1) nm_b (env s1) /\
    mut_base (SSetIdx (Some 2) (EIdx (EIdx (EVar nm_a (Some 0)) (num 0)) (num 1)) (num 9))
      = Some (nm_a, Some 0) /\
    exists s2, steps None eps0 s1
      [SSetIdx (Some 2) (EIdx (EIdx (EVar nm_a (Some 0)) (num 0)) (num 1)) (num 9);
       SExpr (Some 4) (ECall (EMember (EIdx (EVar nm_a (Some 0)) (num 1)) n_reverse) [] None)] s2
      /\ lookup_env (Some 1) nm_b (env s2) = Some ex_val
      /\ lookup_env (Some 0) nm_a (env s2)
         = Some (VArr [VArr [vnum 1; vnum 9]; VArr [VStr [120]; vnum 3]]).
Proof.
  eexists. split; [vm_compute; reflexivity|]. split; [vm_compute; discriminate|].
  split; [vm_compute; reflexivity|].
  eexists. split.
  - eapply steps_cons with (n := 3%nat); [vm_compute; reflexivity|].
    eapply steps_cons with (n := 4%nat); [vm_compute; reflexivity|]. apply steps_nil.
  - split; vm_compute; reflexivity.
Qed.
