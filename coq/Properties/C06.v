(* C06 — an accepted program can never crash the interpreter.
   Statements only; proofs in proofs/LangNoPanic.v, proofs/LangScoped.v, proofs/PanicSitesProofs.v.

   The model: Lang.run_impl (theories/Lang.v) transcribes src/runtime.rs; every panic-capable
   site that remains in that file is either a constructor of Lang.psite (the run then ends in
   `Panicked site`) or is listed as NotModelled with the reason in GenPanicSites.mapped.

   THE FULL STATEMENT (not proved as such — see C06_accepted_never_panics_partial below):

     accepted_never_panics :
       forall src prog plan, parse_and_resolve src = Accepted prog plan ->
       forall eps fuel site, ending_of (run_impl plan eps fuel prog) <> Panicked site.

   It needs a Coq model of the parser and of the whole resolver (scoping, type inference,
   plan construction), which this development does not have.  What IS proved:

     (1) C06_dead_by_construction        4 sites, for ALL programs/plans          (no hypothesis)
     (2) C06_wf_static_never_panics_structural
                                         6 sites, for all programs passing the boolean
                                         checker WfStatic.wf_static, ALL plans
     (3) C06_wf_scoped_never_panics_scoping
                                         5 sites, for all programs passing the boolean
                                         checker WfScoped.wf_scoped for the plan that is run
                                         ("no function runs before everything in scope at its
                                         definition exists"); the shipped resolver does NOT
                                         enforce this: C06_refuted_without_wf_scoped
     (4) C06_accepted_never_panics_partial   = (1)+(2)+(3): no Panicked ending at all
   and the tie "every program the real resolver accepts passes wf_static; the plan the real
   analysis builds passes wf_scoped unless the program has the early-call shape of known
   finding C06/hoisted-call-before-captured-make" is checked on every run by
   lib/props/c06.py with the extracted checkers (it is a tested, not a proved, implication).

   Fuel / Unsupp: `run_impl` is total; a run that exhausts `fuel` ends in EFuel and a run that
   reaches an unmodelled built-in (read_line, to_number, command/process methods, non-ASCII
   case mapping) ends in Unsupported.  The theorems say that the ending is not `Panicked s`;
   for EFuel / Unsupported endings this is true but says nothing about what the
   implementation does after that point — such runs are counted and never compared. *)
From Coq Require Import ZArith List Bool String.
Require Import NS.theories.F64 NS.theories.Lang NS.theories.WfStatic NS.theories.WfScoped NS.theories.GenPanicSites.
Require Import NS.proofs.LangNoPanic NS.proofs.LangScoped NS.proofs.PanicSitesProofs.
Import ListNotations.
Open Scope Z_scope.

(* ---------------------------------------------------------------------------------------- *)
(* 0. The site table of src/runtime.rs is the one the model was written against.            *)

(* the keys regenerated from the source are exactly the keys of the hand-maintained table:
   a new, removed, moved or reworded unreachable!/assert!/expect/unwrap/args.args[k] in
   src/runtime.rs makes this fail until the table (and the model) are updated *)
Theorem C06_all_panic_sites_mapped : same_keys = true.
Proof. exact same_keys_true. Qed.
Print Assumptions C06_all_panic_sites_mapped.

Theorem C06_every_scanned_site_has_a_target :
  forall k, In k scanned -> exists t, In (k, t) mapped.
Proof. exact scanned_all_mapped. Qed.
Print Assumptions C06_every_scanned_site_has_a_target.

(* no phantom sites: every constructor of Lang.psite models at least one source site *)
Theorem C06_every_psite_has_origin : every_psite_has_origin = true.
Proof. exact every_psite_has_origin_true. Qed.
Print Assumptions C06_every_psite_has_origin.

(* ---------------------------------------------------------------------------------------- *)
(* 1. Sites that are dead for every program, every plan, every eps, every fuel:
      PNumOp        `_ => unreachable!("...valid number ops")`: And/Or are dispatched before
                    the numeric arm
      PMutBuiltin   the two `unreachable!` of eval_array_member_call(_mut): the name test that
                    routes to the _mut function is the complement of the other
      PNoFnScope    register_function's `expect`: every block pushes a function scope first
      PFind         out-of-range index / non-termination inside find/replace (C13 theorems) *)
Theorem C06_dead_by_construction :
  forall plan eps fuel prog s,
  ending_of (run_impl plan eps fuel prog) = Panicked s ->
  s <> PNumOp /\ s <> PMutBuiltin /\ s <> PNoFnScope /\ s <> PFind.
Proof. exact dead_by_construction. Qed.
Print Assumptions C06_dead_by_construction.

(* type confusion alone can never panic: for programs WITHOUT variables, user functions and
   loop control — i.e. every operator / condition / index / method applied to every value —
   the only sites left are the structural ones of (2); see C06_type_confusion_example_*   *)

(* ---------------------------------------------------------------------------------------- *)
(* 2. Structural sites: dead for every program that passes wf_static, for ALL plans.        *)
Theorem C06_wf_static_never_panics_structural :
  forall prog, wf_static prog = true ->
  forall plan eps fuel s,
  ending_of (run_impl plan eps fuel prog) = Panicked s ->
  s <> PArgCount /\ s <> PBuiltinArity /\ s <> PArgIndex /\ s <> PBreakEscapes /\
  s <> PIdxAssignEnd /\ s <> PParamRange.
Proof. exact wf_static_never_panics_structural. Qed.
Print Assumptions C06_wf_static_never_panics_structural.

(* ---------- non-vacuity / sharpness of the hypothesis wf_static (all by computation) ------ *)
Definition nm (s : string) : name :=
  (fix go (s : string) : list Z :=
     match s with
     | EmptyString => []
     | String c r => Z.of_nat (Ascii.nat_of_ascii c) :: go r
     end) s.
Definition one : expr := ENum (F64.of_Z 1).
Definition eps0 : f64 := F64.of_Z 0.

(* do f(p) start return p.len() end  shout(f("ab"))  — passes the checker and runs *)
Definition ex_ok : list stmt :=
  [ SFun (Some 0) (nm "f") [nm "p"]
      [SRet (Some 1) (Some (ECall (EMember (EVar (nm "p") (Some 0)) (nm "len")) [] None))]
      (Some 1) 0 1;
    SExpr (Some 2) (ECall (EVar (nm "shout") None)
                      [ECall (EVar (nm "f") None) [EStr (nm "ab")] (Some 1)] None) ].
Example C06_wf_static_satisfiable : wf_static ex_ok = true.
Proof. vm_compute. reflexivity. Qed.
Example C06_wf_static_example_runs :
  run_impl None eps0 50 ex_ok = ([VNum (F64.of_Z 2)], Done).
Proof. vm_compute. reflexivity. Qed.

(* each rule is needed: a program violating exactly that rule is rejected by wf_static and
   does panic at the corresponding site *)
(* p.slice() on a parameter: too few arguments for the method name *)
Definition ex_argidx : list stmt :=
  [ SFun (Some 0) (nm "f") [nm "p"]
      [SRet (Some 1) (Some (ECall (EMember (EVar (nm "p") (Some 0)) (nm "slice")) [] None))]
      (Some 1) 0 1;
    SExpr (Some 2) (ECall (EVar (nm "f") None) [EStr (nm "ab")] (Some 1)) ].
Example C06_rule_method_args_needed :
  wf_static ex_argidx = false /\ ending_of (run_impl None eps0 50 ex_argidx) = Panicked PArgIndex.
Proof. split; vm_compute; reflexivity. Qed.

(* jasi (true) start do g() start comot end g() end : comot in a function inside a loop *)
Definition ex_break : list stmt :=
  [ SLoop (Some 0) (EBool true)
      [ SFun (Some 1) (nm "g") [] [SBreak (Some 2)] (Some 1) 0 0;
        SExpr (Some 3) (ECall (EVar (nm "g") None) [] (Some 1)) ] ].
Example C06_rule_loopctl_needed :
  wf_static ex_break = false /\ ending_of (run_impl None eps0 50 ex_break) = Panicked PBreakEscapes.
Proof. split; vm_compute; reflexivity. Qed.

(* f(1) for do f() : wrong user-call arity *)
Definition ex_arity : list stmt :=
  [ SFun (Some 0) (nm "f") [] [] (Some 1) 0 0;
    SExpr (Some 1) (ECall (EVar (nm "f") None) [one] (Some 1)) ].
Example C06_rule_call_arity_needed :
  wf_static ex_arity = false /\ ending_of (run_impl None eps0 50 ex_arity) = Panicked PArgCount.
Proof. split; vm_compute; reflexivity. Qed.

(* shout() : wrong built-in arity *)
Definition ex_builtin : list stmt := [ SExpr (Some 0) (ECall (EVar (nm "shout") None) [] None) ].
Example C06_rule_builtin_arity_needed :
  wf_static ex_builtin = false /\ ending_of (run_impl None eps0 50 ex_builtin) = Panicked PBuiltinArity.
Proof. split; vm_compute; reflexivity. Qed.

(* an index assignment whose target is a bare variable (the parser never builds it) *)
Definition ex_idxassign : list stmt :=
  [ SMake (Some 0) (nm "a") (Some 0) (EArr [one]);
    SSetIdx (Some 1) (EVar (nm "a") (Some 0)) one ].
Example C06_rule_index_target_needed :
  wf_static ex_idxassign = false /\ ending_of (run_impl None eps0 50 ex_idxassign) = Panicked PIdxAssignEnd.
Proof. split; vm_compute; reflexivity. Qed.

(* a bound function whose parameters do not fit its local-id range *)
Definition ex_prange : list stmt :=
  [ SFun (Some 0) (nm "f") [nm "p"] [] (Some 1) 0 0;
    SExpr (Some 1) (ECall (EVar (nm "f") None) [one] (Some 1)) ].
Example C06_rule_param_range_needed :
  wf_static ex_prange = false /\ ending_of (run_impl None eps0 50 ex_prange) = Panicked PParamRange.
Proof. split; vm_compute; reflexivity. Qed.

(* type confusion: a string minus a number, a number as condition, a method of another
   family on a boolean — reported as Type mismatch, never a panic (the repaired arms) *)
Example C06_type_confusion_example_minus :
  ending_of (run_impl None eps0 50 [SExpr (Some 0) (EBin Minus (EStr (nm "a")) one)]) = RtErr TypeMis.
Proof. vm_compute. reflexivity. Qed.
Example C06_type_confusion_example_condition :
  ending_of (run_impl None eps0 50 [SIf (Some 0) one [] None]) = RtErr TypeMis.
Proof. vm_compute. reflexivity. Qed.
Example C06_type_confusion_example_method :
  ending_of (run_impl None eps0 50
     [SExpr (Some 0) (ECall (EMember (EBool true) (nm "abs")) [] None)]) = RtErr TypeMis.
Proof. vm_compute. reflexivity. Qed.

(* ---------------------------------------------------------------------------------------- *)
(* 3. Scoping sites: dead for every program that passes wf_scoped for the plan that is run.  *)
Theorem C06_wf_scoped_never_panics_scoping :
  forall plan prog, wf_scoped plan prog = true ->
  forall eps fuel s,
  ending_of (run_impl plan eps fuel prog) = Panicked s ->
  s <> PVarMissing /\ s <> PSegVar /\ s <> PAssignMissing /\ s <> PMutVarMissing /\ s <> PFuncMissing.
Proof. exact wf_scoped_never_panics_scoping. Qed.
Print Assumptions C06_wf_scoped_never_panics_scoping.

(* 4. Together: a program that passes both checkers never ends in a Panicked ending, for the
      plan it was checked with, every eps, every fuel.  "_partial": the hypothesis is the two
      extracted checkers, not "the resolver accepted it" (see the header). *)
Theorem C06_accepted_never_panics_partial :
  forall plan prog, wf_static prog = true -> wf_scoped plan prog = true ->
  forall eps fuel s, ending_of (run_impl plan eps fuel prog) <> Panicked s.
Proof. exact accepted_never_panics_partial. Qed.
Print Assumptions C06_accepted_never_panics_partial.

(* ---------- non-vacuity / sharpness of wf_scoped ---------- *)
(* make x get 1   do f() start return x end   shout(f())  — a capture, called after the make *)
Definition ex_capture : list stmt :=
  [ SMake (Some 0) (nm "x") (Some 0) one;
    SFun (Some 1) (nm "f") [] [SRet (Some 2) (Some (EVar (nm "x") (Some 0)))] (Some 1) 1 0;
    SExpr (Some 3) (ECall (EVar (nm "shout") None) [ECall (EVar (nm "f") None) [] (Some 1)] None) ].
Example C06_wf_scoped_satisfiable :
  wf_static ex_capture = true /\ wf_scoped None ex_capture = true /\
  run_impl None eps0 50 ex_capture = ([VNum (F64.of_Z 1)], Done).
Proof. repeat split; vm_compute; reflexivity. Qed.

(* a forward call is fine when nothing is declared in between (mutual recursion style) *)
Definition ex_forward_ok : list stmt :=
  [ SMake (Some 0) (nm "x") (Some 0) one;
    SExpr (Some 1) (ECall (EVar (nm "shout") None) [ECall (EVar (nm "f") None) [] (Some 1)] None);
    SFun (Some 2) (nm "f") [] [SRet (Some 3) (Some (EVar (nm "x") (Some 0)))] (Some 1) 1 0 ].
Example C06_wf_scoped_forward_call_ok :
  wf_scoped None ex_forward_ok = true /\ run_impl None eps0 50 ex_forward_ok = ([VNum (F64.of_Z 1)], Done).
Proof. split; vm_compute; reflexivity. Qed.

(* KNOWN FINDING C06/hoisted-call-before-captured-make (DESIGN section 7 row 8):
       shout(f())   make x get 1   do f() start return x end
   is accepted by src/resolver.rs (lib/props/c06.py shows it on every run), passes wf_static,
   is rejected by wf_scoped, and panics at the `expect` of eval_expr's Var arm.  So the full
   statement is REFUTED for the shipped checker; the class is exactly "not wf_scoped". *)
Definition ex_early_call : list stmt :=
  [ SExpr (Some 0) (ECall (EVar (nm "shout") None) [ECall (EVar (nm "f") None) [] (Some 1)] None);
    SMake (Some 1) (nm "x") (Some 0) one;
    SFun (Some 2) (nm "f") [] [SRet (Some 3) (Some (EVar (nm "x") (Some 0)))] (Some 1) 1 0 ].
Example C06_refuted_without_wf_scoped :
  wf_static ex_early_call = true /\ wf_scoped None ex_early_call = false /\
  ending_of (run_impl None eps0 50 ex_early_call) = Panicked PVarMissing.
Proof. repeat split; vm_compute; reflexivity. Qed.

(* the plan matters: if the plan removes the `make` (sid 0) that a later use needs, the
   checker for THAT plan rejects the program, and the run with that plan panics *)
Definition ex_plan : list stmt :=
  [ SMake (Some 0) (nm "x") (Some 0) one;
    SExpr (Some 1) (ECall (EVar (nm "shout") None) [EVar (nm "x") (Some 0)] None) ].
Example C06_wf_scoped_is_plan_aware :
  wf_scoped None ex_plan = true /\ wf_scoped (Some ([0], [])) ex_plan = false /\
  ending_of (run_impl (Some ([0], [])) eps0 50 ex_plan) = Panicked PVarMissing.
Proof. repeat split; vm_compute; reflexivity. Qed.
