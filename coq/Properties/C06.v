(* C06 — an accepted program can never crash the interpreter.
   Statements only; proofs in proofs/LangNoPanic.v, proofs/LangScoped.v, proofs/PanicSitesProofs.v.

   The model: Lang.run_impl (theories/Lang.v) transcribes src/runtime.rs; every panic-capable
   site that remains in that file is either a constructor of Lang.psite (the run then ends in
   `Panicked site`) or is listed as NotModelled with the reason in GenPanicSites.mapped.

   THE FULL STATEMENT (not proved as such — see C06_accepted_never_panics_partial below):

     accepted_never_panics :
       forall src prog plan, parse_and_resolve src = Accepted prog plan ->
       forall eps fuel site, ending_of (run_impl plan eps fuel prog) <> Panicked site.

   It needs a Coq model of the parser and of the whole resolver (scoping, type inference,
   plan construction), which this development does not have.  What IS proved:

     (1) C06_dead_by_construction        4 sites, for ALL programs/plans          (no hypothesis)
     (2) C06_wf_static_never_panics_structural
                                         6 sites, for all programs passing the boolean
                                         checker WfStatic.wf_static, ALL plans
     (3) C06_wf_scoped_never_panics_scoping
                                         5 sites, for all programs passing the boolean
                                         checker WfScoped.wf_scoped for the plan that is run
                                         ("no function runs before everything in scope at its
                                         definition exists"); the shipped resolver does NOT
                                         enforce this: C06_refuted_without_wf_scoped
     (4) C06_accepted_never_panics_partial   = (1)+(2)+(3): no Panicked ending at all
   and the tie "every program the real resolver accepts passes wf_static; the plan the real
   analysis builds passes wf_scoped unless the program has the early-call shape of known
   finding C06/hoisted-call-before-captured-make" is checked on every run by
   lib/props/c06.py with the extracted checkers (it is a tested, not a proved, implication).

   Fuel / Unsupp: `run_impl` is total; a run that exhausts `fuel` ends in EFuel and a run that
   reaches an unmodelled built-in (read_line, to_number, command/process methods, non-ASCII
   case mapping) ends in Unsupported.  The theorems say that the ending is not `Panicked s`;
   for EFuel / Unsupported endings this is true but says nothing about what the
   implementation does after that point — such runs are counted and never compared. *)
From Coq Require Import ZArith List Bool String.
Require Import NS.theories.F64 NS.theories.Lang NS.theories.WfStatic NS.theories.WfScoped NS.theories.GenPanicSites.
Require Import NS.proofs.LangNoPanic NS.proofs.LangScoped NS.proofs.PanicSitesProofs.
Import ListNotations.
Open Scope Z_scope.

(* ---------------------------------------------------------------------------------------- *)
(* 0. The site table of src/runtime.rs is the one the model was written against.            *)

(* the keys regenerated from the source are exactly the keys of the hand-maintained table:
   a new, removed, moved or reworded unreachable!/assert!/expect/unwrap/args.args[k] in
   src/runtime.rs makes this fail until the table (and the model) are updated *)
Theorem C06_all_panic_sites_mapped : same_keys = true.
Proof. exact same_keys_true. Qed.
Print Assumptions C06_all_panic_sites_mapped.

Theorem C06_every_scanned_site_has_a_target :
  forall k, In k scanned -> exists t, In (k, t) mapped.
Proof. exact scanned_all_mapped. Qed.
Print Assumptions C06_every_scanned_site_has_a_target.

(* no phantom sites: every constructor of Lang.psite models at least one source site *)
Theorem C06_every_psite_has_origin : every_psite_has_origin = true.
Proof. exact every_psite_has_origin_true. Qed.
Print Assumptions C06_every_psite_has_origin.

(* ---------------------------------------------------------------------------------------- *)
(* 1. Sites that are dead for every program, every plan, every eps, every fuel:
      PNumOp        `_ => unreachable!("...valid number ops")`: And/Or are dispatched before
                    the numeric arm
      PMutBuiltin   the two `unreachable!` of eval_array_member_call(_mut): the name test that
                    routes to the _mut function is the complement of the other
      PNoFnScope    register_function's `expect`: every block pushes a function scope first
      PFind         out-of-range index / non-termination inside find/replace (C13 theorems) *)
Theorem C06_dead_by_construction :
  forall plan eps fuel prog s,
  ending_of (run_impl plan eps fuel prog) = Panicked s ->
  s <> PNumOp /\ s <> PMutBuiltin /\ s <> PNoFnScope /\ s <> PFind.
Proof. exact dead_by_construction. Qed.
Print Assumptions C06_dead_by_construction.

(* type confusion alone can never panic: for programs WITHOUT variables, user functions and
   loop control — i.e. every operator / condition / index / method applied to every value —
   the only sites left are the structural ones of (2); see C06_type_confusion_example_*   *)

(* ---------------------------------------------------------------------------------------- *)
(* 2. Structural sites: dead for every program that passes wf_static, for ALL plans.        *)
Theorem C06_wf_static_never_panics_structural :
  forall prog, wf_static prog = true ->
  forall plan eps fuel s,
  ending_of (run_impl plan eps fuel prog) = Panicked s ->
  s <> PArgCount /\ s <> PBuiltinArity /\ s <> PArgIndex /\ s <> PBreakEscapes /\
  s <> PIdxAssignEnd /\ s <> PParamRange.
Proof. exact wf_static_never_panics_structural. Qed.
Print Assumptions C06_wf_static_never_panics_structural.

(* ---------- non-vacuity / sharpness of the hypothesis wf_static (all by computation) ------ *)
Definition nm (s : string) : name :=
  (fix go (s : string) : list Z :=
     match s with
     | EmptyString => []
     | String c r => Z.of_nat (Ascii.nat_of_ascii c) :: go r
     end) s.
Definition one : expr := ENum (F64.of_Z 1).
Definition eps0 : f64 := F64.of_Z 0.

(* do f(p) start return p.len() end  shout(f("ab"))  — passes the checker and runs *)
Definition ex_ok : list stmt :=
  [ SFun (Some 0) (nm "f") [nm "p"]
      [SRet (Some 1) (Some (ECall (EMember (EVar (nm "p") (Some 0)) (nm "len")) [] None))]
      (Some 1) 0 1;
    SExpr (Some 2) (ECall (EVar (nm "shout") None)
                      [ECall (EVar (nm "f") None) [EStr (nm "ab")] (Some 1)] None) ].
Example C06_wf_static_satisfiable : wf_static ex_ok = true.
Proof. vm_compute. reflexivity. Qed.
Example C06_wf_static_example_runs :
  run_impl None eps0 50 ex_ok = ([VNum (F64.of_Z 2)], Done).
Proof. vm_compute. reflexivity. Qed.

(* each rule is needed: a program violating exactly that rule is rejected by wf_static and
   does panic at the corresponding site *)
(* p.slice() on a parameter: too few arguments for the method name *)
Definition ex_argidx : list stmt :=
  [ SFun (Some 0) (nm "f") [nm "p"]
      [SRet (Some 1) (Some (ECall (EMember (EVar (nm "p") (Some 0)) (nm "slice")) [] None))]
      (Some 1) 0 1;
    SExpr (Some 2) (ECall (EVar (nm "f") None) [EStr (nm "ab")] (Some 1)) ].
Example C06_rule_method_args_needed :
  wf_static ex_argidx = false /\ ending_of (run_impl None eps0 50 ex_argidx) = Panicked PArgIndex.
Proof. split; vm_compute; reflexivity. Qed.

(* jasi (true) start do g() start comot end g() end : comot in a function inside a loop *)
Definition ex_break : list stmt :=
  [ SLoop (Some 0) (EBool true)
      [ SFun (Some 1) (nm "g") [] [SBreak (Some 2)] (Some 1) 0 0;
        SExpr (Some 3) (ECall (EVar (nm "g") None) [] (Some 1)) ] ].
Example C06_rule_loopctl_needed :
  wf_static ex_break = false /\ ending_of (run_impl None eps0 50 ex_break) = Panicked PBreakEscapes.
Proof. split; vm_compute; reflexivity. Qed.

(* f(1) for do f() : wrong user-call arity *)
Definition ex_arity : list stmt :=
  [ SFun (Some 0) (nm "f") [] [] (Some 1) 0 0;
    SExpr (Some 1) (ECall (EVar (nm "f") None) [one] (Some 1)) ].
Example C06_rule_call_arity_needed :
  wf_static ex_arity = false /\ ending_of (run_impl None eps0 50 ex_arity) = Panicked PArgCount.
Proof. split; vm_compute; reflexivity. Qed.

(* shout() : wrong built-in arity *)
Definition ex_builtin : list stmt := [ SExpr (Some 0) (ECall (EVar (nm "shout") None) [] None) ].
Example C06_rule_builtin_arity_needed :
  wf_static ex_builtin = false /\ ending_of (run_impl None eps0 50 ex_builtin) = Panicked PBuiltinArity.
Proof. split; vm_compute; reflexivity. Qed.

(* an index assignment whose target is a bare variable (the parser never builds it) *)
Definition ex_idxassign : list stmt :=
  [ SMake (Some 0) (nm "a") (Some 0) (EArr [one]);
    SSetIdx (Some 1) (EVar (nm "a") (Some 0)) one ].
Example C06_rule_index_target_needed :
  wf_static ex_idxassign = false /\ ending_of (run_impl None eps0 50 ex_idxassign) = Panicked PIdxAssignEnd.
Proof. split; vm_compute; reflexivity. Qed.

(* a bound function whose parameters do not fit its local-id range *)
Definition ex_prange : list stmt :=
  [ SFun (Some 0) (nm "f") [nm "p"] [] (Some 1) 0 0;
    SExpr (Some 1) (ECall (EVar (nm "f") None) [one] (Some 1)) ].
Example C06_rule_param_range_needed :
  wf_static ex_prange = false /\ ending_of (run_impl None eps0 50 ex_prange) = Panicked PParamRange.
Proof. split; vm_compute; reflexivity. Qed.

(* type confusion: a string minus a number, a number as condition, a method of another
   family on a boolean — reported as Type mismatch, never a panic (the repaired arms) *)
Example C06_type_confusion_example_minus :
  ending_of (run_impl None eps0 50 [SExpr (Some 0) (EBin Minus (EStr (nm "a")) one)]) = RtErr TypeMis.
Proof. vm_compute. reflexivity. Qed.
Example C06_type_confusion_example_condition :
  ending_of (run_impl None eps0 50 [SIf (Some 0) one [] None]) = RtErr TypeMis.
Proof. vm_compute. reflexivity. Qed.
Example C06_type_confusion_example_method :
  ending_of (run_impl None eps0 50
     [SExpr (Some 0) (ECall (EMember (EBool true) (nm "abs")) [] None)]) = RtErr TypeMis.
Proof. vm_compute. reflexivity. Qed.

(* ---------------------------------------------------------------------------------------- *)
(* 3. Scoping sites: dead for every program that passes wf_scoped for the plan that is run.  *)
Theorem C06_wf_scoped_never_panics_scoping :
  forall plan prog, wf_scoped plan prog = true ->
  forall eps fuel s,
  ending_of (run_impl plan eps fuel prog) = Panicked s ->
  s <> PVarMissing /\ s <> PSegVar /\ s <> PAssignMissing /\ s <> PMutVarMissing /\ s <> PFuncMissing.
Proof. exact wf_scoped_never_panics_scoping. Qed.
Print Assumptions C06_wf_scoped_never_panics_scoping.

(* 4. Together: a program that passes both checkers never ends in a Panicked ending, for the
      plan it was checked with, every eps, every fuel.  "_partial": the hypothesis is the two
      extracted checkers, not "the resolver accepted it" (see the header). *)
Theorem C06_accepted_never_panics_partial :
  forall plan prog, wf_static prog = true -> wf_scoped plan prog = true ->
  forall eps fuel s, ending_of (run_impl plan eps fuel prog) <> Panicked s.
Proof. exact accepted_never_panics_partial. Qed.
Print Assumptions C06_accepted_never_panics_partial.

(* ---------- non-vacuity / sharpness of wf_scoped ---------- *)
(* make x get 1   do f() start return x end   shout(f())  — a capture, called after the make *)
Definition ex_capture : list stmt :=
  [ SMake (Some 0) (nm "x") (Some 0) one;
    SFun (Some 1) (nm "f") [] [SRet (Some 2) (Some (EVar (nm "x") (Some 0)))] (Some 1) 1 0;
    SExpr (Some 3) (ECall (EVar (nm "shout") None) [ECall (EVar (nm "f") None) [] (Some 1)] None) ].
Example C06_wf_scoped_satisfiable :
  wf_static ex_capture = true /\ wf_scoped None ex_capture = true /\
  run_impl None eps0 50 ex_capture = ([VNum (F64.of_Z 1)], Done).
Proof. repeat split; vm_compute; reflexivity. Qed.

(* a forward call is fine when nothing is declared in between (mutual recursion style) *)
Definition ex_forward_ok : list stmt :=
  [ SMake (Some 0) (nm "x") (Some 0) one;
    SExpr (Some 1) (ECall (EVar (nm "shout") None) [ECall (EVar (nm "f") None) [] (Some 1)] None);
    SFun (Some 2) (nm "f") [] [SRet (Some 3) (Some (EVar (nm "x") (Some 0)))] (Some 1) 1 0 ].
Example C06_wf_scoped_forward_call_ok :
  wf_scoped None ex_forward_ok = true /\ run_impl None eps0 50 ex_forward_ok = ([VNum (F64.of_Z 1)], Done).
Proof. split; vm_compute; reflexivity. Qed.

(* KNOWN FINDING C06/hoisted-call-before-captured-make (DESIGN section 7 row 8):
       shout(f())   make x get 1   do f() start return x end
   is accepted by src/resolver.rs (lib/props/c06.py shows it on every run), passes wf_static,
   is rejected by wf_scoped, and panics at the `expect` of eval_expr's Var arm.  So the full
   statement is REFUTED for the shipped checker; the class is exactly "not wf_scoped". *)
Definition ex_early_call : list stmt :=
  [ SExpr (Some 0) (ECall (EVar (nm "shout") None) [ECall (EVar (nm "f") None) [] (Some 1)] None);
    SMake (Some 1) (nm "x") (Some 0) one;
    SFun (Some 2) (nm "f") [] [SRet (Some 3) (Some (EVar (nm "x") (Some 0)))] (Some 1) 1 0 ].
Example C06_refuted_without_wf_scoped :
  wf_static ex_early_call = true /\ wf_scoped None ex_early_call = false /\
  ending_of (run_impl None eps0 50 ex_early_call) = Panicked PVarMissing.
Proof. repeat split; vm_compute; reflexivity. Qed.

(* the plan matters: if the plan removes the `make` (sid 0) that a later use needs, the
   checker for THAT plan rejects the program, and the run with that plan panics *)
Definition ex_plan : list stmt :=
  [ SMake (Some 0) (nm "x") (Some 0) one;
    SExpr (Some 1) (ECall (EVar (nm "shout") None) [EVar (nm "x") (Some 0)] None) ].
Example C06_wf_scoped_is_plan_aware :
  wf_scoped None ex_plan = true /\ wf_scoped (Some ([0], [])) ex_plan = false /\
  ending_of (run_impl (Some ([0], [])) eps0 50 ex_plan) = Panicked PVarMissing.
Proof. repeat split; vm_compute; reflexivity. Qed.

(* ======================================================================================== *)
(* 5. ROUND 2 — accepted by the static rules, in place of the hypothesis wf_static.          *)
(*                                                                                          *)
(* StaticRules.check (theories/StaticRules.v, C09) is the executable model of the static    *)
(* rules of src/resolver.rs on the NAMED tree; C09's correspondence requires the resolver's *)
(* verdict and diagnostics to coincide with it.  It ignores every id.  wf_static looks      *)
(* arities up by FunctionId.  The bridge (theories/RulesWf.v) is the boolean                *)
(*     ids_consistent p = calls_lexical p && fids_unique p && params_in_range p             *)
(* (every definition has a FunctionId, every user call carries the FunctionId of the        *)
(*  definition its name denotes lexically = first definition of the name directly in the    *)
(*  innermost enclosing block that has one, FunctionIds are pairwise distinct, and the      *)
(*  parameters of a function fit its local-id range), and the parser-level shape            *)
(*     idx_targets p        (the target of an index assignment is an index expression).     *)
(*                                                                                          *)
(* DERIVED from `check p = []` (proofs/RulesImplyWf.v, rule by rule):                       *)
(*   PBuiltinArity  built-in call arity      (ArityMismatch over the generated built-in     *)
(*                                            table = the built-ins run_impl dispatches on) *)
(*   PArgCount      user-call arity          (ArityMismatch against the first definition of *)
(*                                            the name in the innermost defining block;     *)
(*                                            calls_lexical + fids_unique turn the name     *)
(*                                            into the id wf_static looks up)               *)
(*   PArgIndex      method argument counts   (MethodArity: exact arity for a receiver of a  *)
(*                                            statically known kind, UnknownMethod otherwise;*)
(*                                            fa29849's rule for receivers typed at run     *)
(*                                            time: the count is an arity the name has in   *)
(*                                            some built-in family)                         *)
(*   PBreakEscapes  comot/next placement     (Break/NextOutsideLoop; a function body resets *)
(*                                            the loop context in both checkers)            *)
(* NOT derivable from the static rules, kept as hypotheses about the resolved tree:         *)
(*   PParamRange    `#params <= llen`        StaticRules has no local ids; it is the        *)
(*                                            params_in_range conjunct of ids_consistent    *)
(*   PIdxAssignEnd  index-assignment target  neither the resolver nor StaticRules looks at  *)
(*                                            it; it is a guarantee of the PARSER, proved   *)
(*                                            for the parser model: C06_parser_guarantees_  *)
(*                                            idx_targets                                   *)
(*   and the FunctionId of a definition being bound / its table entry being its own         *)
(*   (fids_unique + calls_lexical).                                                         *)
(* lib/props/c06.py evaluates check / ids_consistent / idx_targets / wf_static (extracted)   *)
(* on the resolver's own tree for every program of every run: accepted => check = [] and    *)
(* ids_consistent and idx_targets; and the theorem instance itself.                          *)
Require Import NS.theories.StaticRules NS.theories.LexResolve NS.theories.RulesWf.
Require Import NS.theories.Parser NS.theories.ParserShape.
Require Import NS.proofs.RulesImplyWf NS.proofs.RulesNoPanic NS.proofs.ParserShapeProofs.

Theorem C06_rules_accept_implies_wf_static :
  forall p, StaticRules.check p = [] -> ids_consistent p = true -> idx_targets p = true ->
  wf_static p = true.
Proof. exact rules_accept_implies_wf_static. Qed.
Print Assumptions C06_rules_accept_implies_wf_static.

(* a program the static rules accept never panics at the structural sites: ALL plans, eps, fuel *)
Theorem C06_accepted_by_rules_never_panics_structural :
  forall p, StaticRules.check p = [] -> ids_consistent p = true -> idx_targets p = true ->
  forall plan eps fuel s,
  ending_of (run_impl plan eps fuel p) = Panicked s ->
  s <> PArgCount /\ s <> PBuiltinArity /\ s <> PArgIndex /\ s <> PBreakEscapes /\
  s <> PIdxAssignEnd /\ s <> PParamRange.
Proof. exact accepted_by_rules_never_panics_structural. Qed.
Print Assumptions C06_accepted_by_rules_never_panics_structural.

(* C04's binding relation (LexResolve.lexical: every occurrence carries the id of the
   declaration it denotes lexically; ids of distinct declarations are distinct) is stronger
   than ids_consistent — so the hypothesis C04's theorems already make suffices here *)
Theorem C06_lexical_implies_ids_consistent :
  forall p, lexical p = true -> ids_consistent p = true.
Proof. exact lexical_implies_ids_consistent. Qed.
Print Assumptions C06_lexical_implies_ids_consistent.

Theorem C06_accepted_by_rules_lexical_never_panics_structural :
  forall p, StaticRules.check p = [] -> lexical p = true -> idx_targets p = true ->
  forall plan eps fuel s,
  ending_of (run_impl plan eps fuel p) = Panicked s ->
  s <> PArgCount /\ s <> PBuiltinArity /\ s <> PArgIndex /\ s <> PBreakEscapes /\
  s <> PIdxAssignEnd /\ s <> PParamRange.
Proof. exact accepted_by_rules_lexical_never_panics_structural. Qed.
Print Assumptions C06_accepted_by_rules_lexical_never_panics_structural.

(* the parser-level hypothesis: whatever the parser model (theories/Parser.v, either source
   variant, any token list) returns, a resolved tree that is this tree with ids attached
   has index expressions as index-assignment targets *)
Theorem C06_parser_guarantees_idx_targets :
  forall v ts r num p,
  parse_program v ts = Parser.Done r -> erase_ids p = to_lang num (p_stmts r) -> idx_targets p = true.
Proof. exact resolved_parse_idx_targets. Qed.
Print Assumptions C06_parser_guarantees_idx_targets.

(* with the scoping checker: no Panicked ending at all.  "_partial": wf_scoped for the plan
   that is run is still a hypothesis (the shipped resolver does not enforce it:
   C06_refuted_without_wf_scoped) *)
Theorem C06_accepted_by_rules_never_panics_partial :
  forall plan p, StaticRules.check p = [] -> ids_consistent p = true -> idx_targets p = true ->
  wf_scoped plan p = true ->
  forall eps fuel s, ending_of (run_impl plan eps fuel p) <> Panicked s.
Proof.
  intros plan p Hc Hi Hx. apply accepted_never_panics_partial.
  apply rules_accept_implies_wf_static; assumption.
Qed.
Print Assumptions C06_accepted_by_rules_never_panics_partial.

(* ---------- non-vacuity / sharpness (all by computation) ---------- *)
(* nested functions with a shadowing inner definition of another arity, a method on a call
   result, a deep index assignment, push on an element, comot under if inside a loop *)
Example C06_rules_hypotheses_satisfiable :
  StaticRules.check ex_rules_ok = [] /\ ids_consistent ex_rules_ok = true /\ lexical ex_rules_ok = true /\
  idx_targets ex_rules_ok = true /\ wf_static ex_rules_ok = true /\
  ending_of (run_impl None eps0 60 ex_rules_ok) = Lang.Done.
Proof. repeat split; vm_compute; reflexivity. Qed.

(* ids_consistent is needed: the rules see names only.  A call of the inner g(a) that carries
   the id of the outer g() passes the rules, is not lexical, and panics at the arity assert *)
Example C06_rules_need_lexical_call_ids :
  StaticRules.check ex_rules_wrong_target = [] /\ calls_lexical ex_rules_wrong_target = false /\
  wf_static ex_rules_wrong_target = false /\
  ending_of (run_impl None eps0 60 ex_rules_wrong_target) = Panicked PArgCount.
Proof. repeat split; vm_compute; reflexivity. Qed.

(* ... and distinct FunctionIds: with a shared id the table answers with the other arity *)
Example C06_rules_need_unique_fids :
  StaticRules.check ex_rules_dup_fid = [] /\ calls_lexical ex_rules_dup_fid = true /\
  fids_unique ex_rules_dup_fid = false /\ wf_static ex_rules_dup_fid = false.
Proof. repeat split; vm_compute; reflexivity. Qed.

(* ... and the parameter range, which no static rule mentions (ex_prange of section 2) *)
Example C06_rules_need_param_range :
  StaticRules.check ex_prange = [] /\ calls_lexical ex_prange = true /\ fids_unique ex_prange = true /\
  params_in_range ex_prange = false /\ ending_of (run_impl None eps0 50 ex_prange) = Panicked PParamRange.
Proof. repeat split; vm_compute; reflexivity. Qed.

(* ... and the parser-level shape (ex_idxassign of section 2: the rules accept `a get 1` spelled
   as an index assignment to a bare variable, which the parser never builds) *)
Example C06_rules_need_idx_targets :
  StaticRules.check ex_idxassign = [] /\ ids_consistent ex_idxassign = true /\
  idx_targets ex_idxassign = false /\ ending_of (run_impl None eps0 50 ex_idxassign) = Panicked PIdxAssignEnd.
Proof. repeat split; vm_compute; reflexivity. Qed.

(* each derived rule is the static rule that excludes the panic: the section-2 witnesses that
   wf_static rejects are rejected by StaticRules.check with the matching rule *)
Example C06_rules_reject_the_panicking_shapes :
  map fst (StaticRules.check ex_argidx) = [MethodArity] /\
  map fst (StaticRules.check ex_break) = [BreakOutsideLoop] /\
  map fst (StaticRules.check ex_arity) = [ArityMismatch] /\
  map fst (StaticRules.check ex_builtin) = [ArityMismatch].
Proof. repeat split; vm_compute; reflexivity. Qed.

(* ---------------------------------------------------------------------------------------- *)
(* 6. ROUND 2, the scoping half, in the direction that is true (proofs/RulesScoped.v).       *)
(* wf_scoped speaks about ids, the static rules about names; C04's binding relation          *)
(* LexResolve.lexical joins them.  For programs WITHOUT user-defined functions, run WITHOUT a *)
(* plan, lexical implies wf_scoped — so for this class no hypothesis about a Coq-side checker *)
(* of the scoping sites is left: accepted by the static rules + lexical ids + the parser      *)
(* shape => the run never ends in a Panicked ending at ANY of the fifteen sites.  With user   *)
(* functions the implication is false (C06_scoping_needs_wf_scoped_with_functions = the      *)
(* open known finding), with a plan it depends on what the plan removes                      *)
(* (C06_wf_scoped_is_plan_aware).                                                            *)
Require Import NS.proofs.RulesScoped.

Theorem C06_lexical_function_free_implies_wf_scoped :
  forall p, lexical p = true -> nofn p = true -> wf_scoped None p = true.
Proof. exact lexical_nofn_wf_scoped. Qed.
Print Assumptions C06_lexical_function_free_implies_wf_scoped.

Theorem C06_function_free_accepted_never_panics :
  forall p, StaticRules.check p = [] -> lexical p = true -> idx_targets p = true -> nofn p = true ->
  forall eps fuel s, ending_of (run_impl None eps fuel p) <> Panicked s.
Proof. exact function_free_accepted_never_panics. Qed.
Print Assumptions C06_function_free_accepted_never_panics.

(* make a get [1]   a[0] get "s"   if to say (true) start make b get a[0] minus 1  shout(b) end
   — all hypotheses hold; the dynamically typed element reaches `minus` as a string and the run
   ends with the Type mismatch error, not a panic *)
Definition ex_nofn : list stmt :=
  [ SMake (Some 0) (nm "a") (Some 0) (EArr [one]);
    SSetIdx (Some 1) (EIdx (EVar (nm "a") (Some 0)) (ENum (F64.of_Z 0))) (EStr (nm "s"));
    SIf (Some 2) (EBool true)
      [ SMake (Some 3) (nm "b") (Some 1) (EBin Minus (EIdx (EVar (nm "a") (Some 0)) (ENum (F64.of_Z 0))) one);
        SExpr (Some 4) (ECall (EVar (nm "shout") None) [EVar (nm "b") (Some 1)] None) ] None ].
Example C06_function_free_hypotheses_satisfiable :
  StaticRules.check ex_nofn = [] /\ lexical ex_nofn = true /\ idx_targets ex_nofn = true /\ nofn ex_nofn = true /\
  wf_scoped None ex_nofn = true /\ ending_of (run_impl None eps0 50 ex_nofn) = RtErr TypeMis.
Proof. repeat split; vm_compute; reflexivity. Qed.

(* sharpness: with a user function the early-call program of the known finding satisfies every
   hypothesis except nofn, is not wf_scoped, and panics *)
Example C06_scoping_needs_wf_scoped_with_functions :
  StaticRules.check ex_early_call = [] /\ lexical ex_early_call = true /\ idx_targets ex_early_call = true /\
  nofn ex_early_call = false /\ wf_scoped None ex_early_call = false /\
  ending_of (run_impl None eps0 50 ex_early_call) = Panicked PVarMissing.
Proof. repeat split; vm_compute; reflexivity. Qed.

(* ================================================================== round 3: end-to-end composition
   theories/Pipeline.v assembles lexer -> parser -> named tree -> static rules -> evaluator from SOURCE
   BYTES (tied to the code by lib/props/pipeline.py on source text).  Statements as in
   Properties/PIPELINE.v; restated by type so that this property's audit covers them. *)
Require NS.Properties.PIPELINE.

(* an accepted source text never panics at the six structural sites; the C06 hypotheses are facts of the pipeline *)
Theorem C06_accepted_never_panics_end_to_end :
  ltac:(let t := type of NS.Properties.PIPELINE.PIPELINE_accepted_never_panics_end_to_end in exact t).
Proof. exact NS.Properties.PIPELINE.PIPELINE_accepted_never_panics_end_to_end. Qed.
Print Assumptions C06_accepted_never_panics_end_to_end.

(* nor at the four sites dead for every program *)
Theorem C06_accepted_never_panics_dead_sites :
  ltac:(let t := type of NS.Properties.PIPELINE.PIPELINE_accepted_never_panics_dead_sites in exact t).
Proof. exact NS.Properties.PIPELINE.PIPELINE_accepted_never_panics_dead_sites. Qed.
Print Assumptions C06_accepted_never_panics_dead_sites.
