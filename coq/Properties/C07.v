(* C07 — the front end is total.  Statements only; proofs in proofs/{Utf8,Lexer,Render,Frontend}Proofs.v.

   PROVED here: the lexer (Lexer.v, transcription of src/syntax/scanner.rs in the variant read off
   the current source) and the slicing / line-column arithmetic of the renderer (Render.v,
   src/diagnostics.rs).  NOT modelled: the parser and the static checker; for them the check runs an
   executable monitor on the implementation (lib/props/c07.py), which is evidence, not proof. *)
From Coq Require Import ZArith List Bool Arith.
Require Import NS.theories.Utf8 NS.theories.GenLexer NS.theories.Lexer NS.theories.Render.
Require Import NS.proofs.LexerProofs NS.proofs.RenderProofs NS.proofs.FrontendProofs.
Import ListNotations.
Open Scope nat_scope.

(* For every valid UTF-8 text the lexer terminates with a token list (never LexPanic: no re-slice
   or chars() off a character boundary or out of range; never OutOfFuel), the cursor ends exactly
   at |s|, every token span and every diagnostic span is in range, ordered and on character
   boundaries, and tokens are non-empty and do not overlap (so starts increase strictly). *)
Theorem C07_lex_total_spans_wf : forall s, valid_utf8 s = true ->
  exists toks diags, lex variant_of_source s = Ok (toks, diags, length s) /\
    Forall (token_wf s) toks /\ Forall (diag_wf s) diags /\ tokens_ordered 0 toks.
Proof. exact lex_total_spans_wf. Qed.
Print Assumptions C07_lex_total_spans_wf.

(* One next_token call from any cursor that is inside the text on a boundary returns, leaves the
   cursor inside the text on a boundary, and either consumed at least one byte or reports the end
   of the text (termination of the token stream needs no fuel beyond the remaining length). *)
Theorem C07_lex_progress : forall s c, valid_utf8 s = true -> cursor_wf s c ->
  exists t c' ds, next_token (token_fuel c) variant_of_source s c = Ok (t, c', ds) /\ cursor_wf s c' /\
    c_pos c <= t_start t /\ t_end t = c_pos c' /\
    (c_pos c < c_pos c' \/ (is_eof t = true /\ c_pos c' = length s)).
Proof. exact lex_progress. Qed.
Print Assumptions C07_lex_progress.

(* Rendering a diagnostic whose span and label spans are well formed w.r.t. the text never fails:
   every `&src[a..b]` of render_diagnostic / line_col_from_span is in range and on boundaries, the
   line and column are defined (>= 1), caret and dash counts are >= 1. *)
Theorem C07_render_total : forall s dspan labels, valid_utf8 s = true ->
  span_wf s (fst dspan) (snd dspan) ->
  Forall (fun l => span_wf s (fst l) (snd l)) labels ->
  exists g, render_diagnostic s dspan labels = Some g /\
    1 <= g_line g /\ 1 <= g_col g /\ 1 <= g_carets g /\ length (g_labels g) = length labels /\
    Forall (fun l => 1 <= snd (fst l) /\ 1 <= snd l) (g_labels g).
Proof. intros s dspan labels V. exact (render_diagnostic_total s V dspan labels). Qed.
Print Assumptions C07_render_total.

Theorem C07_render_ansi_total : forall s diags, valid_utf8 s = true ->
  Forall (fun d => span_wf s (fst (fst d)) (snd (fst d)) /\ Forall (fun l => span_wf s (fst l) (snd l)) (snd d)) diags ->
  exists gs, render_ansi s diags = Some gs /\ length gs = length diags.
Proof. intros s diags V. exact (render_ansi_total s V diags). Qed.
Print Assumptions C07_render_ansi_total.

(* lexer and renderer together: whatever the text, the lexer's own diagnostics can be rendered *)
Theorem C07_lexer_diagnostics_render : forall s, valid_utf8 s = true ->
  exists toks diags fin gs, lex variant_of_source s = Ok (toks, diags, fin) /\
    render_ansi s (map lexer_diag_spans diags) = Some gs /\ length gs = length diags.
Proof. exact lexer_diagnostics_render. Qed.
Print Assumptions C07_lexer_diagnostics_render.

(* The lexer as shipped in the pinned commit is refuted (kept as witnesses; the two switches of
   Lexer.shipped are the only difference to the theorem above). *)
Theorem C07_refuted_shipped_bad_dot :
  valid_utf8 [49; 46; 195; 169]%Z = true /\ lex shipped [49; 46; 195; 169]%Z = LexPanic PNonAsciiChars 3.
Proof. exact shipped_bad_dot_panics. Qed.
Print Assumptions C07_refuted_shipped_bad_dot.

Theorem C07_refuted_shipped_escape :
  valid_utf8 [34; 92; 195; 169; 34]%Z = true /\ lex shipped [34; 92; 195; 169; 34]%Z = LexPanic PStringSlice 3.
Proof. exact shipped_escape_panics. Qed.
Print Assumptions C07_refuted_shipped_escape.

(* non-vacuity: `make x get 1.é` is valid UTF-8; the repaired lexer reports two diagnostics on it *)
Example demo_valid : valid_utf8 [109; 97; 107; 101; 32; 120; 32; 103; 101; 116; 32; 49; 46; 195; 169]%Z = true.
Proof. vm_compute. reflexivity. Qed.
Example demo_lex :
  exists toks, lex repaired [109; 97; 107; 101; 32; 120; 32; 103; 101; 116; 32; 49; 46; 195; 169]%Z =
    Ok (toks, [mk_diag EInvalidNumber 0 11 13; mk_diag EUnexpectedChar 0 13 15], 15) /\ length toks = 3.
Proof. eexists. vm_compute. split; reflexivity. Qed.
Example demo_render : exists g, render_diagnostic [97; 9; 195; 169; 10; 98]%Z (2, 4) [(2, 4)] = Some g /\ g_col g = 5 /\ g_carets g = 1.
Proof. eexists. vm_compute. repeat split. Qed.

(* ================================================================== round 2: the parser is modelled too
   theories/Parser.v is a token-level transcription of src/syntax/parser.rs (tied to the code by the
   PARSER correspondence, which this check runs as an extra stream).  The statements are those of
   Properties/PARSER.v (read them there); they are restated here by type so that C07's audit
   (Print Assumptions, coqchk) covers them. *)
Require NS.Properties.PARSER.

(* for every valid UTF-8 text, lexing then parsing returns a program; fuel is never exhausted;
   every span of the tree and of the syntax diagnostics is ordered, in range, on boundaries *)
Theorem C07_lex_parse_total :
  ltac:(let t := type of NS.Properties.PARSER.PARSER_lex_parse_total in exact t).
Proof. exact NS.Properties.PARSER.PARSER_lex_parse_total. Qed.
Print Assumptions C07_lex_parse_total.

(* for EVERY token list with ordered spans the parser terminates and builds only spans whose ends
   are 0 or token boundaries (the recovery switch is read off parser.rs) *)
Theorem C07_parse_total :
  ltac:(let t := type of NS.Properties.PARSER.PARSER_parse_total in exact t).
Proof. exact NS.Properties.PARSER.PARSER_parse_total. Qed.
Print Assumptions C07_parse_total.

Theorem C07_parser_recovery_bumps :
  ltac:(let t := type of NS.Properties.PARSER.PARSER_source_recovery_bumps in exact t).
Proof. exact NS.Properties.PARSER.PARSER_source_recovery_bumps. Qed.
Print Assumptions C07_parser_recovery_bumps.

(* every statement parse that starts on a real token consumes at least one token *)
Theorem C07_statement_progress :
  ltac:(let t := type of NS.Properties.PARSER.PARSER_statement_progress in exact t).
Proof. exact NS.Properties.PARSER.PARSER_statement_progress. Qed.
Print Assumptions C07_statement_progress.

(* the syntax diagnostics the renderer will slice by are well formed (Utf8.span_wf) *)
Theorem C07_syntax_diagnostics_wf :
  ltac:(let t := type of NS.Properties.PARSER.PARSER_syntax_diagnostics_wf in exact t).
Proof. exact NS.Properties.PARSER.PARSER_syntax_diagnostics_wf. Qed.
Print Assumptions C07_syntax_diagnostics_wf.

(* ================================================================== round 3: end-to-end composition
   theories/Pipeline.v assembles lexer -> parser -> named tree -> static rules -> evaluator from SOURCE
   BYTES (tied to the code by lib/props/pipeline.py on source text).  Statements as in
   Properties/PIPELINE.v; restated by type so that this property's audit covers them. *)
Require NS.Properties.PIPELINE.

(* for every valid UTF-8 source the whole front end returns; all spans well formed *)
Theorem C07_front_total :
  ltac:(let t := type of NS.Properties.PIPELINE.PIPELINE_front_total in exact t).
Proof. exact NS.Properties.PIPELINE.PIPELINE_front_total. Qed.
Print Assumptions C07_front_total.

(* a text with diagnostics is never evaluated *)
Theorem C07_rejected_not_run :
  ltac:(let t := type of NS.Properties.PIPELINE.PIPELINE_rejected_not_run in exact t).
Proof. exact NS.Properties.PIPELINE.PIPELINE_rejected_not_run. Qed.
Print Assumptions C07_rejected_not_run.
