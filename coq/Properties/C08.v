(* C08 — running out of depth is reported, not a native crash (PARTIAL: the logic is proved
   over the call graph regenerated from the source; frame sizes and the crash itself are only
   observed by lib/props/c08.py).  Only statements, each closed by [exact] of a lemma proved in
   proofs/StackProofs.v, with Print Assumptions beneath, plus non-vacuity Examples. *)
From Coq Require Import ZArith List Bool Arith.
Require Import NS.theories.GenStack NS.theories.StackModel NS.proofs.StackProofs.
Import ListNotations.
Open Scope Z_scope.

(* ---------------------------------------------------------------- any graph *)

(* Soundness of the decision procedure: if the graph without its guard functions is acyclic,
   every cycle of the graph contains a guard function. *)
Theorem C08_acyclic_without_guards_sound :
  forall g guards c,
  closed g = true -> acyclic_without_guards g guards = true ->
  allkeys g c = true -> cycle_b g c = true ->
  exists n, In n c /\ mem n guards = true.
Proof. exact acyclic_without_guards_sound. Qed.
Print Assumptions C08_acyclic_without_guards_sound.

(* The same with a set D of "descent" edges taken out as well: every cycle contains a guard or
   takes one of the descent edges. *)
Theorem C08_cycle_has_guard_or_descent :
  forall g guards D c,
  closed g = true -> acyclic (core g guards D) = true ->
  allkeys g c = true -> cycle_b g c = true ->
  noguard guards c = false \/ (0 < scount D (closing c))%nat.
Proof. exact cycle_has_guard_or_descent. Qed.
Print Assumptions C08_cycle_has_guard_or_descent.

(* Depth bound.  p is the list of functions whose frames were pushed after run_inner recorded
   stack_base (outermost first; what lies above — main, the CLI, run_inner's own frame — and the
   error-report path belong to the headroom), fs their frame costs (each between 0 and M).  If every guard on p saw at most B bytes in use
   outside its own frame (otherwise it would have reported the overflow instead of going on),
   and every guard-free stretch of p takes at most d descent edges, then the stack in use is at
   most B + M + (d+1) * (cost of the most expensive path of the graph without guards and
   descent edges). *)
Theorem C08_guarded_depth_bound :
  forall g guards D fs B M d p,
  closed g = true -> acyclic (core g guards D) = true ->
  (forall n, 0 <= fs n <= M) -> 0 <= B ->
  allkeys g p = true -> walk g p = true ->
  checked B fs guards 0 p = true ->
  nest_bounded D guards d p ->
  used fs p <= B + M + (Z.of_nat d + 1) * max_wheight (core g guards D) fs.
Proof. exact guarded_depth_bound. Qed.
Print Assumptions C08_guarded_depth_bound.

(* ... and the most expensive path costs at most M times the number of functions on the
   longest path. *)
Theorem C08_path_cost_le_M_times_length :
  forall g fs M, acyclic g = true -> (forall n, 0 <= fs n <= M) ->
  max_wheight g fs <= M * max_wheight g unit_cost.
Proof. exact max_wheight_le_M. Qed.
Print Assumptions C08_path_cost_le_M_times_length.

(* A function accepted by [off_cycle] in the graph without guards: every call path from it back
   to itself contains a guard. *)
Theorem C08_off_cycle_sound :
  forall g gs a, off_cycle (remove_nodes g gs) a = true ->
  forall t, walk g (a :: t ++ [a]) = true -> noguard gs (a :: t) = false.
Proof. exact off_cycle_sound. Qed.
Print Assumptions C08_off_cycle_sound.

(* Refutation scheme: a cycle without a guard lets the stack pass any bound while every budget
   check on the way succeeds (there is none). *)
Theorem C08_unguarded_depth_unbounded :
  forall g guards c, gf_cycle g guards c = true ->
  forall fs B, (forall n, 1 <= fs n) ->
  forall bound, exists p,
    walk g p = true /\ noguard guards p = true /\ checked B fs guards 0 p = true /\ bound < used fs p.
Proof. exact unguarded_depth_unbounded. Qed.
Print Assumptions C08_unguarded_depth_unbounded.

(* ---------------------------------------------------------------- the graph of the current source *)

(* Evaluator + value operations of src/runtime.rs and src/builtins (GenStack.v), guards = the
   functions that start with check_stack (today: eval_expr), descent edges = nested blocks
   (exec_stmt -> exec_block_with_flow on a sub-block) and the value operations' recursion over
   nested data.  Decided by computation on the regenerated graph. *)
Theorem C08_guarded_cycles_bounded :
  forall c, allkeys runtime_graph c = true -> cycle_b runtime_graph c = true ->
  noguard guard_fns c = false \/ (0 < scount descent_edges (closing c))%nat.
Proof. exact runtime_cycles_guarded. Qed.
Print Assumptions C08_guarded_cycles_bounded.

(* Recursion through user functions (the only call that is not bounded by the nesting of the
   source text or of the data) always passes a guard. *)
Theorem C08_user_call_cycles_guarded :
  forall e, In e jump_edges ->
  forall t, walk runtime_graph (fst e :: t ++ [fst e]) = true -> noguard guard_fns (fst e :: t) = false.
Proof. exact user_call_cycles_guarded. Qed.
Print Assumptions C08_user_call_cycles_guarded.

Theorem C08_runtime_depth_bound :
  forall fs M d p,
  (forall n, 0 <= fs n <= M) ->
  allkeys runtime_graph p = true -> walk runtime_graph p = true ->
  checked stack_budget fs guard_fns 0 p = true ->
  nest_bounded descent_edges guard_fns d p ->
  used fs p <= stack_budget + M * (1 + (Z.of_nat d + 1) * runtime_L).
Proof. exact runtime_depth_bound. Qed.
Print Assumptions C08_runtime_depth_bound.

(* The inequality that has to hold for the measured frame costs: then a path that passed its
   budget checks leaves [headroom] bytes of the 8 MiB main-thread stack free. *)
Theorem C08_runtime_fits_main_stack :
  forall fs M d headroom p,
  (forall n, 0 <= fs n <= M) ->
  allkeys runtime_graph p = true -> walk runtime_graph p = true ->
  checked stack_budget fs guard_fns 0 p = true ->
  nest_bounded descent_edges guard_fns d p ->
  stack_budget + M * (1 + (Z.of_nat d + 1) * runtime_L) + headroom < main_stack ->
  used fs p + headroom < main_stack.
Proof. exact runtime_fits_main_stack. Qed.
Print Assumptions C08_runtime_fits_main_stack.

(* Refuted part of the full statement: parser, checker, CFG lowering and the value operations
   have cycles without any guard (witness cycles in proofs/StackProofs.v, checked against the
   regenerated graph), so their native depth follows the nesting of the source text / of the
   run-time data without bound. *)
Theorem C08_front_end_depth_unbounded :
  forall gw, In gw [(parser_graph, parser_witnesses); (resolver_graph, resolver_witnesses);
                    (cfg_graph, cfg_witnesses); (value_graph, value_witnesses)] ->
  forall c, In c (snd gw) ->
  forall fs, (forall n, 1 <= fs n) ->
  forall bound, exists p,
    walk (fst gw) p = true /\ noguard guard_fns p = true /\
    checked stack_budget fs guard_fns 0 p = true /\ bound < used fs p.
Proof. exact front_end_depth_unbounded. Qed.
Print Assumptions C08_front_end_depth_unbounded.

(* Every descent edge of the evaluator graph is such an unguarded cycle too: d in the bound
   above is not limited by anything but the program (nested blocks) and its data. *)
Theorem C08_descent_depth_unbounded :
  forall e, In e descent_edges ->
  forall fs, (forall n, 1 <= fs n) ->
  forall bound, exists p,
    walk call_graph p = true /\ noguard guard_fns p = true /\
    checked stack_budget fs guard_fns 0 p = true /\ bound < used fs p.
Proof. exact descent_depth_unbounded. Qed.
Print Assumptions C08_descent_depth_unbounded.

(* ---------------------------------------------------------------- non-vacuity *)

(* user recursion  f() { return f() }  as a call path of the generated graph: two activations *)
Definition demo_path : list node :=
  [id_Runtime_exec_block_with_flow; id_Runtime_exec_stmt; id_Runtime_eval_expr;
   id_Runtime_eval_function_call; id_Runtime_exec_block_with_flow; id_Runtime_exec_stmt; id_Runtime_eval_expr;
   id_Runtime_eval_function_call; id_Runtime_exec_block_with_flow; id_Runtime_exec_stmt; id_Runtime_eval_expr;
   id_Runtime_lookup_var; id_Value_clone_into].
Example demo_path_ok :
  allkeys runtime_graph demo_path = true /\ walk runtime_graph demo_path = true /\
  checked stack_budget (fun _ => 4096) guard_fns 0 demo_path = true /\
  scount descent_edges demo_path = 0%nat.
Proof. vm_compute. repeat split; reflexivity. Qed.
Example demo_path_nest : nest_bounded descent_edges guard_fns 0 demo_path.
Proof. apply nest_bounded_of_total. vm_compute. apply le_n. Qed.
(* a path that is too deep fails its budget check (the model of the reported error) *)
Example demo_path_refused :
  checked 16384 (fun _ => 4096) guard_fns 0 demo_path = false.
Proof. vm_compute. reflexivity. Qed.
(* The guard predicate of the model ("starts with check_stack") means something only if
   check_stack itself always looks at the stack pointer: the translator re-reads its body (one
   comparison of the stack distance with STACK_BUDGET, no other early exit) and the one place
   where stack_base is recorded (run_inner entry).  A conditional probe — a fast path, a counter,
   a probe only every n-th call — breaks this obligation (and empties guard_fns). *)
Example probe_shape_ok : probe_unconditional = true /\ stack_base_at_run_entry = true.
Proof. vm_compute. split; reflexivity. Qed.
(* the frame inequality is satisfiable with room to spare for 16 KiB frames, 8 nested blocks
   inside the recursive function and 1 MiB kept free, counting the array locals of the frames
   ABOVE the recorded base (main, the CLI's run_stdin read buffer, Runtime::run): the budget is
   measured from the base, so whatever lies above it comes out of the same 8 MiB *)
Example frame_inequality_example :
  stack_budget + 16384 * (1 + (Z.of_nat 8 + 1) * runtime_L) + (1048576 + above_base_array_bytes) < main_stack.
Proof. vm_compute. reflexivity. Qed.
Example above_base_arrays_small : above_base_array_bytes <= 65536.
Proof. vm_compute. discriminate. Qed.
(* since the repair 78cfa01 (budget probe on block entry) nested blocks are no longer an
   unguarded descent of the evaluator: the only descent edges left are the value operations'
   recursion over nested data.  Removing that probe breaks this obligation. *)
Example block_nesting_guarded : structural_edges = [] /\ descent_edges = data_edges.
Proof. vm_compute. split; reflexivity. Qed.
(* the per-function answers the observation run asks the model for *)
Example functions_classified :
  fn_status id_Runtime_eval_function_call = FOffCycle /\ fn_status id_Runtime_exec_stmt = FOffCycle /\
  fn_status id_Runtime_exec_block_with_flow = FGuard /\
  fn_status id_Parser_parse_expression = FUnguardedCycle /\ fn_status id_Resolver_check_expr = FUnguardedCycle /\
  fn_status id_FunctionBuilder_lower_stmt = FUnguardedCycle /\ fn_status id_Value_fmt = FDescentCycle.
Proof. vm_compute. repeat split; reflexivity. Qed.
(* the shapes the observation run uses, classified by the model *)
Example shapes_classified :
  classify_shape [id_Runtime_eval_expr; id_Runtime_eval_function_call; id_Runtime_exec_block_with_flow;
                  id_Runtime_exec_stmt] = Guarded /\
  classify_shape [id_Runtime_eval_expr] = Guarded /\
  classify_shape [id_Parser_parse_expression] = Unguarded /\
  classify_shape [id_Resolver_check_expr] = Unguarded /\
  classify_shape [id_Value_fmt] = DescentOnly /\
  classify_shape [id_Runtime_eval_expr; id_Runtime_exec_stmt] = NotACycle.
Proof. vm_compute. repeat split; reflexivity. Qed.
(* a toy graph 0 -> 1 -> 2 -> 0 with guard 2 and costs 10: the decision procedure accepts it, a
   path that passes its checks is bounded as the theorem says, and without the guard the
   procedure refuses *)
Definition toy : graph := [(0, [1]); (1, [2]); (2, [0])]%nat.
Example toy_ok : closed toy = true /\ acyclic_without_guards toy [2%nat] = true /\
  acyclic_without_guards toy [] = false /\
  longest_guard_free_path_cost toy [2%nat] (fun _ => 10) = 20 /\
  checked 25 (fun _ => 10) [2%nat] 0 [0; 1; 2; 0; 1]%nat = true /\
  checked 25 (fun _ => 10) [2%nat] 0 [0; 1; 2; 0; 1; 2]%nat = false /\
  used (fun _ => 10) [0; 1; 2; 0; 1]%nat = 50.
Proof. vm_compute. repeat split; reflexivity. Qed.
