(* C09 — static rules enforced exactly.  Only statements, each closed by [exact] of a lemma
   proved in proofs/StaticRulesProofs.v, with Print Assumptions beneath, plus Examples (by
   vm_compute) showing that the hypotheses are satisfiable and the checker is not trivial.

   Vocabulary (theories/StaticRules.v): `check p` = the violations (rule, path) of program p;
   `plug k s` = the program obtained by putting statement s into the hole of the one-hole
   context k (the hole is a statement position of any block, nested arbitrarily in blocks,
   if/else branches, loop bodies and function bodies); `plugS h (plugE X a)` = a statement
   with expression a at an expression position (operand, array element, index, receiver,
   call argument, nested arbitrarily) of one of its own expressions; `reported r p` = r is
   among the reported rules, or p has a duplicate function definition whose (skipped) body
   contains the position — either way p is rejected. *)
From Coq Require Import ZArith List Bool.
Require Import NS.theories.Lang NS.theories.GenRules NS.theories.StaticRules NS.proofs.StaticRulesProofs.
Import ListNotations.
Open Scope Z_scope.

(* ---------- (a) context independence ---------- *)
(* The engine: whatever rule a statement breaks in the context the checker has on arrival at a
   position is reported for the whole program, whatever surrounds the position. *)
Theorem C09_context_independence : forall k s r,
  In r (local_rules (state_at k s cx0) (seen_at k) s) -> reported r (plug k s).
Proof. exact ctx_table. Qed.
Print Assumptions C09_context_independence.

Theorem C09_reported_is_rejected : forall r p, reported r p -> accepts p = false.
Proof. exact reported_rejected. Qed.
Print Assumptions C09_reported_is_rejected.

(* `comot` / `next` at any position that is not inside a loop of the same function body *)
Theorem C09_break_outside_loop : forall k sid,
  loop_at k false = false -> reported BreakOutsideLoop (plug k (SBreak sid)).
Proof. exact ctx_break. Qed.
Print Assumptions C09_break_outside_loop.

Theorem C09_next_outside_loop : forall k sid,
  loop_at k false = false -> reported NextOutsideLoop (plug k (SNext sid)).
Proof. exact ctx_next. Qed.
Print Assumptions C09_next_outside_loop.

(* a function body resets the loop context: what encloses the definition is irrelevant *)
Theorem C09_function_body_resets_loop_context : forall pre sid n ps fid ls ll k post b,
  loop_at (CIn pre (FFun sid n ps fid ls ll) k post) b = loop_at k false.
Proof. exact function_resets_loop. Qed.
Print Assumptions C09_function_body_resets_loop_context.

Theorem C09_return_outside_function : forall k sid eo,
  fn_at k false = false -> reported ReturnOutsideFunction (plug k (SRet sid eo)).
Proof. exact ctx_return. Qed.
Print Assumptions C09_return_outside_function.

(* where no enclosing function is a duplicate definition the report is exact, both ways *)
Theorem C09_break_exact : forall k sid, regular k ->
  (In (BreakOutsideLoop, path_of k) (check (plug k (SBreak sid))) <-> loop_at k false = false).
Proof. exact exact_break. Qed.
Print Assumptions C09_break_exact.
Theorem C09_next_exact : forall k sid, regular k ->
  (In (NextOutsideLoop, path_of k) (check (plug k (SNext sid))) <-> loop_at k false = false).
Proof. exact exact_next. Qed.
Print Assumptions C09_next_exact.
Theorem C09_return_exact : forall k sid eo, regular k ->
  (In (ReturnOutsideFunction, path_of k) (check (plug k (SRet sid eo))) <-> fn_at k false = false).
Proof. exact exact_return. Qed.
Print Assumptions C09_return_exact.
Theorem C09_assign_exact : forall k sid x l e, regular k ->
  (In (AssignUndeclared, path_of k) (check (plug k (SSet sid x l e))) <-> ~ declared_before k x).
Proof. exact exact_assign. Qed.
Print Assumptions C09_assign_exact.

(* use of a variable (plain or `{x}` in an interpolated string) at any expression position of
   any statement at any position, with no declaration textually before it in an enclosing block
   and no enclosing parameter of that name *)
Theorem C09_undeclared_variable : forall k h X x a,
  var_atom x a -> ~ declared_before k x -> reported UndeclaredVar (plug k (plugS h (plugE X a))).
Proof. exact ctx_undeclared_var. Qed.
Print Assumptions C09_undeclared_variable.

Theorem C09_assign_undeclared : forall k sid x l e,
  ~ declared_before k x -> reported AssignUndeclared (plug k (SSet sid x l e)).
Proof. exact ctx_assign_undeclared. Qed.
Print Assumptions C09_assign_undeclared.

(* call of a name that is neither a built-in nor defined anywhere in an enclosing block *)
Theorem C09_undeclared_function : forall k h X f lf args t,
  global_lookup f = None ->
  ~ fn_visible k (plugS h (plugE X (ECall (EVar f lf) args t))) f ->
  reported UndeclaredFunction (plug k (plugS h (plugE X (ECall (EVar f lf) args t)))).
Proof. exact ctx_undeclared_fn. Qed.
Print Assumptions C09_undeclared_function.

(* wrong number of arguments for the definition the call refers to (innermost enclosing block
   that defines the name, first definition there), or for a built-in *)
Theorem C09_arity_mismatch : forall k h X f lf args t n,
  global_lookup f = None ->
  visible_arity k (plugS h (plugE X (ECall (EVar f lf) args t))) f = Some n ->
  length args <> n ->
  reported ArityMismatch (plug k (plugS h (plugE X (ECall (EVar f lf) args t)))).
Proof. exact ctx_arity_user. Qed.
Print Assumptions C09_arity_mismatch.

Theorem C09_arity_mismatch_builtin : forall k h X f lf args t ar rt,
  global_lookup f = Some (ar, rt) -> length args <> ar ->
  reported ArityMismatch (plug k (plugS h (plugE X (ECall (EVar f lf) args t)))).
Proof. exact ctx_arity_builtin. Qed.
Print Assumptions C09_arity_mismatch_builtin.

Theorem C09_duplicate_function : forall k sid n ps body fid ls ll,
  In n (fun_names (hole_pre k)) ->
  In DuplicateFunction (rules (check (plug k (SFun sid n ps body fid ls ll)))).
Proof. exact ctx_dup_fun. Qed.
Print Assumptions C09_duplicate_function.

Theorem C09_duplicate_parameter : forall k sid n ps body fid ls ll,
  ~ NoDup ps -> reported DuplicateParameter (plug k (SFun sid n ps body fid ls ll)).
Proof. exact ctx_dup_param. Qed.
Print Assumptions C09_duplicate_parameter.

Theorem C09_reserved_variable_name : forall k sid n l e,
  reserved n = true -> reported ReservedName (plug k (SMake sid n l e)).
Proof. exact ctx_reserved_make. Qed.
Print Assumptions C09_reserved_variable_name.
Theorem C09_reserved_function_name : forall k sid n ps body fid ls ll,
  reserved n = true -> reported ReservedName (plug k (SFun sid n ps body fid ls ll)).
Proof. exact ctx_reserved_fun. Qed.
Print Assumptions C09_reserved_function_name.
Theorem C09_reserved_parameter_name : forall k sid n ps body fid ls ll p,
  In p ps -> reserved p = true -> reported ReservedName (plug k (SFun sid n ps body fid ls ll)).
Proof. exact ctx_reserved_param. Qed.
Print Assumptions C09_reserved_parameter_name.

(* ---------- (b) accepted <-> every rule holds at every position ---------- *)
(* stmt_rules_hold reads the name and control-flow rules declaratively (declared textually before
   in an enclosing block / visible function and its parameter count / inside a loop / inside a
   function / no earlier definition of the name in the block / distinct, unreserved names);
   typing_ok is the typing table, which stays definitional (the checker's own table and declared
   types, transcribed from resolver.rs). *)
Theorem C09_accept_iff_no_violation : forall p,
  check p = [] <-> forall k s, p = plug k s -> stmt_rules_hold k s /\ typing_ok k s.
Proof. exact accept_iff_rules. Qed.
Print Assumptions C09_accept_iff_no_violation.

(* the checker's view of a position is the declarative one *)
Theorem C09_scope_is_textual : forall k s x,
  declared (state_at k s cx0) x = true <-> declared_before k x.
Proof. exact declared_at. Qed.
Print Assumptions C09_scope_is_textual.
Theorem C09_function_scope_is_block_wide : forall k s f,
  Fc (state_at k s cx0) f = visible_arity k s f.
Proof. exact Fc_at. Qed.
Print Assumptions C09_function_scope_is_block_wide.
Theorem C09_not_visible_iff_not_defined : forall k s f,
  visible_arity k s f = None <-> ~ fn_visible k s f.
Proof. exact visible_arity_none. Qed.
Print Assumptions C09_not_visible_iff_not_defined.

Theorem C09_accepted_has_no_skipped_body : forall p,
  check p = [] -> forall k s, p = plug k s -> regular k.
Proof. exact accepted_regular. Qed.
Print Assumptions C09_accepted_has_no_skipped_body.

(* ---------- (c) every report names a rule that is broken where it points ---------- *)
Theorem C09_category_sound : forall p r pth,
  In (r, pth) (check p) ->
  exists k s, p = plug k s /\ pth = path_of k /\ regular k /\ broken r k s.
Proof. exact category_sound_lemma. Qed.
Print Assumptions C09_category_sound.

Theorem C09_category_is_resolver_message : forall r,
  category r = match r with
               | UndeclaredVar | UndeclaredFunction | UnknownMethod => msg_UndeclaredIdentifier
               | AssignUndeclared => msg_AssignmentToUndeclared
               | ArityMismatch | MethodArity => msg_FunctionCallArity
               | BreakOutsideLoop | NextOutsideLoop | ReturnOutsideFunction => msg_UnreachableCode
               | DuplicateFunction | DuplicateParameter => msg_DuplicateIdentifier
               | ReservedName => msg_ReservedKeyword
               | TypeMismatch => msg_TypeMismatch
               end.
Proof. exact category_table. Qed.
Print Assumptions C09_category_is_resolver_message.

(* ---------- the declared type of a variable ---------- *)
(* the latest `make` of a name in a block gives its type; nothing else (reassignment, nested
   blocks, loops, branches, function definitions) changes the context of the following statements *)
Theorem C09_make_gives_the_declared_type : forall c sid x l e,
  lookup_var (cx_vars (after c (SMake sid x l e))) x
  = Some (match infer c e with Some t => t | None => TDynamic end).
Proof. exact make_retypes. Qed.
Print Assumptions C09_make_gives_the_declared_type.
Theorem C09_make_leaves_other_names : forall c sid x l e y, x <> y ->
  lookup_var (cx_vars (after c (SMake sid x l e))) y = lookup_var (cx_vars c) y.
Proof. exact make_keeps_others. Qed.
Print Assumptions C09_make_leaves_other_names.
Theorem C09_only_make_changes_the_context : forall c s,
  (forall sid x l e, s <> SMake sid x l e) -> after c s = c.
Proof. exact only_make_retypes. Qed.
Print Assumptions C09_only_make_changes_the_context.

(* ---------- non-vacuity ---------- *)
(* DESIGN section 7 row 9: `comot` in a function defined inside a loop, reported at its position *)
Example ex_row9 : check ex_break_in_fn_in_loop = [(BreakOutsideLoop, [1; 0; 1; 0; 0]%nat)].
Proof. vm_compute. reflexivity. Qed.
Example ex_row9_is_a_context : plug ex_ctx_fn_in_loop (SBreak None) = ex_break_in_fn_in_loop
  /\ loop_at ex_ctx_fn_in_loop false = false /\ fn_at ex_ctx_fn_in_loop false = true
  /\ path_of ex_ctx_fn_in_loop = [1; 0; 1; 0; 0]%nat.
Proof. vm_compute. repeat split. Qed.
Example ex_accepts : check ex_well_formed = [] /\ accepts ex_well_formed = true.
Proof. vm_compute. split; reflexivity. Qed.
Example ex_interp : check ex_undeclared_interp = [(UndeclaredVar, [0; 0; 0]%nat)].
Proof. vm_compute. reflexivity. Qed.
Example ex_reserved : reserved n_shout = true /\ reserved nm_x = false /\ reserved [106; 97; 115; 105] = true.
Proof. vm_compute. repeat split. Qed.
Example ex_category : category BreakOutsideLoop = [85; 110; 114; 101; 97; 99; 104; 97; 98; 108; 101; 32; 99; 111; 100; 101].
Proof. vm_compute. reflexivity. Qed.

(* ================================================================== round 3: end-to-end composition
   theories/Pipeline.v assembles lexer -> parser -> named tree -> static rules -> evaluator from SOURCE
   BYTES (tied to the code by lib/props/pipeline.py on source text).  Statements as in
   Properties/PIPELINE.v; restated by type so that this property's audit covers them. *)
Require NS.Properties.PIPELINE.

(* accepted iff no lexical diagnostic, no syntax diagnostic and no rule violation *)
Theorem C09_accepted_iff :
  ltac:(let t := type of NS.Properties.PIPELINE.PIPELINE_accepted_iff in exact t).
Proof. exact NS.Properties.PIPELINE.PIPELINE_accepted_iff. Qed.
Print Assumptions C09_accepted_iff.

(* what ran was accepted *)
Theorem C09_ran_was_accepted :
  ltac:(let t := type of NS.Properties.PIPELINE.PIPELINE_ran_was_accepted in exact t).
Proof. exact NS.Properties.PIPELINE.PIPELINE_ran_was_accepted. Qed.
Print Assumptions C09_ran_was_accepted.
(* history of a variable, signature of a function *)
Example ex_history : check ex_redeclared_ill = [(TypeMismatch, [2]%nat)] /\ check ex_redeclared_ok = []
  /\ check ex_reassigned_ok = [].
Proof. vm_compute. repeat split. Qed.
(* (needs the repaired signature inference: GenRules.src_signature_names_dynamic = true, read off the source) *)
Example ex_signature : check ex_hidden_in_else = [] /\ check ex_outer_result_ill = [(TypeMismatch, [2]%nat)].
Proof. vm_compute. split; reflexivity. Qed.
