(* C10 — layout is insignificant (lexer half).  Statements only; proofs in proofs/LayoutProofs.v.

   What is proved here: for every list of tokens with diagnostic-free spellings ([tk_ok]) and
   every layout made of whitespace (space, TAB, LF, FF, CR) and `#` comments between tokens and
   of whitespace between the words of the multi-word keywords ([wf_layout]) that keeps
   fusing neighbours apart ([separating]), the lexer model (theories/Lexer.v, a transcription
   of src/syntax/scanner.rs, tied to the implementation by the token-dump differential of the
   check) returns exactly that token list (kind, payload, borrowed/owned) and no diagnostic,
   does not run out of fuel and hits no panic site.  Hence two such layouts of one token list
   are indistinguishable for everything behind the lexer.

   What is NOT proved here and is covered by the property oracle on the implementation only
   (harness/src/layout.rs, lib/props/c10.py): that the parser's result modulo spans is a
   function of the token kinds/payloads (`parse_ignores_spans`), that redundant parentheses do
   not change the tree (`parens_redundant`), and that resolver and runtime read spans only to
   label diagnostics. *)
From Coq Require Import ZArith List Bool Arith.
Require Import NS.theories.Utf8 NS.theories.GenLexer NS.theories.Lexer NS.theories.Layout NS.proofs.LayoutProofs.
Import ListNotations.
Open Scope nat_scope.

(* one layout: the rendered text lexes back to the token list, for both lexer variants *)
Theorem C10_lex_render :
  forall v ts l,
  forallb tk_ok ts = true -> wf_layout ts l = true -> separating ts l = true ->
  lex_view v (render ts l) = Some (map tk_tok ts).
Proof. exact lex_render. Qed.
Print Assumptions C10_lex_render.

(* two layouts of the same token list *)
Theorem C10_lex_layout_invariant :
  forall v ts l1 l2,
  forallb tk_ok ts = true ->
  wf_layout ts l1 = true -> separating ts l1 = true ->
  wf_layout ts l2 = true -> separating ts l2 = true ->
  lex_view v (render ts l1) = Some (map tk_tok ts) /\
  lex_view v (render ts l2) = Some (map tk_tok ts).
Proof. exact lex_layout_invariant. Qed.
Print Assumptions C10_lex_layout_invariant.

(* ---- the hypotheses are satisfiable: every keyword / punctuation token of the generated
   tables has a spelling, and a program using every token class has very different layouts *)
Example C10_every_fixed_token_spellable :
  forallb (fun k => tk_ok (canon k [])) (filter (fun k => negb (tok_eqb k TString || tok_eqb k TIdentifier || tok_eqb k TNumber || tok_eqb k TEOF)) all_toks) = true.
Proof. vm_compute. reflexivity. Qed.

Example C10_example_tokens_ok : forallb tk_ok ex_tokens = true.
Proof. vm_compute. reflexivity. Qed.
Example C10_example_line_ok : wf_layout ex_tokens ex_layout_line && separating ex_tokens ex_layout_line = true.
Proof. vm_compute. reflexivity. Qed.
Example C10_example_tall_ok : wf_layout ex_tokens ex_layout_tall && separating ex_tokens ex_layout_tall = true.
Proof. vm_compute. reflexivity. Qed.
(* (the conclusion of the theorem, recomputed on the example) *)
Example C10_example_same_tokens :
  lex_view variant_of_source (render ex_tokens ex_layout_line) = lex_view variant_of_source (render ex_tokens ex_layout_tall)
  /\ lex_view variant_of_source (render ex_tokens ex_layout_tall) = Some (map tk_tok ex_tokens).
Proof. vm_compute. split; reflexivity. Qed.

(* ---- where the property ends (all by computation on the lexer model)
   1. A comment between the words of a multi-word keyword is not layout: `if #c<LF> to say`
      is three identifiers.  (The property allows only whitespace there.) *)
Example C10_comment_inside_keyword_splits_it :
  lex_view variant_of_source ex_comment_in_keyword =
  Some [ (TIdentifier, [105; 102]%Z, false); (TIdentifier, [116; 111]%Z, false); (TIdentifier, [115; 97; 121]%Z, false) ].
Proof. vm_compute. reflexivity. Qed.

(* 2. The identifier `small` followed by the operator `pass` is a different token sequence
      from the keyword `small pass`; the two stay apart only through a comment.  This is why
      [separating] carries the [guard] condition for the identifiers `if` and `small`. *)
Example C10_small_comment_pass :
  lex_view variant_of_source ex_small_comment_pass =
  Some [ (TIdentifier, [115; 109; 97; 108; 108]%Z, false); (TPass, [], false); (TNumber, [51]%Z, false) ].
Proof. vm_compute. reflexivity. Qed.
Example C10_small_blank_pass :
  lex_view variant_of_source ex_small_blank_pass = Some [ (TSmallPass, [], false); (TNumber, [51]%Z, false) ].
Proof. vm_compute. reflexivity. Qed.

(* ---- separators INSIDE the multi-word keywords are part of the statement: [wf_layout] lets every slot of a
   multi-word keyword carry one whitespace run per continuation word ([s_inner]), non-empty, of any length and any
   mix of space / TAB / LF / FF / CR (no comment: the scanner's look-ahead does not skip comments).  The same
   statement for a keyword on its own: *)
Theorem C10_multiword_internal_separators :
  forall v k inner,
  tk_ok (KMulti k) = true -> inner_ok (KMulti k) inner = true ->
  lex_view v (tk_text (KMulti k) inner) = Some [(k, [], false)].
Proof. exact multiword_internal_separators. Qed.
Print Assumptions C10_multiword_internal_separators.

(* the hypothesis is satisfiable for every multi-word keyword of the regenerated table with runs far longer
   than any fixed look-ahead window: 300 blanks, then 300 x LF (a run of any length is admissible:
   LayoutProofs.ws_run_ok_repeat) *)
Example C10_every_multiword_keyword_long_runs :
  forallb (fun e => forallb (fun alt =>
      tk_ok (KMulti (snd alt)) &&
      inner_ok (KMulti (snd alt)) (map (fun _ => repeat 32%Z 300 ++ repeat 10%Z 300) (fst alt))) (snd e)) multi_table = true.
Proof. vm_compute. reflexivity. Qed.

(* ---- comment CONTENT is not restricted: [wf_layout] asks of a comment text only that it contains no LF / CR
   (Layout.sep_elem_ok; likewise for the last comment without line break), so C10_lex_render already quantifies
   over comments made of arbitrary bytes - `[`, `]#`, `#[`, quotes, braces, backslashes, NUL, keywords,
   multi-byte sequences, any length.  The lexer's comment rule on its own: a `#` comment with ANY such text is
   layout, in front of any program and at the end of the input *)
Theorem C10_comment_text_is_layout :
  forall v ts l body nl,
  forallb tk_ok ts = true -> wf_layout ts l = true -> separating ts l = true ->
  forallb (fun b => negb (is_nl b)) body = true -> is_nl nl = true ->
  lex_view v (35%Z :: body ++ nl :: render ts l) = Some (map tk_tok ts).
Proof. exact comment_text_is_layout. Qed.
Print Assumptions C10_comment_text_is_layout.

Theorem C10_comment_to_end_of_input :
  forall v body, forallb (fun b => negb (is_nl b)) body = true -> lex_view v (35%Z :: body) = Some [].
Proof. exact comment_to_end_of_input. Qed.
Print Assumptions C10_comment_to_end_of_input.

(* ================================================================== round 2: the parser half
   theories/Parser.v (token-level transcription of src/syntax/parser.rs, tied to the code by the PARSER
   correspondence which this check runs as an extra stream).  Statements as in Properties/PARSER.v. *)
Require NS.Properties.PARSER.

(* two token lists with the same kinds / payloads / owned flags parse to the same tree modulo spans,
   the same named AST, the same diagnostic kinds and labels *)
Theorem C10_parse_ignores_spans :
  ltac:(let t := type of NS.Properties.PARSER.PARSER_parse_ignores_spans_views in exact t).
Proof. exact NS.Properties.PARSER.PARSER_parse_ignores_spans_views. Qed.
Print Assumptions C10_parse_ignores_spans.

(* two layouts of one token sequence both parse, to the same thing *)
Theorem C10_relayout_same_parse :
  ltac:(let t := type of NS.Properties.PARSER.PARSER_relayout_same_parse in exact t).
Proof. exact NS.Properties.PARSER.PARSER_relayout_same_parse. Qed.
Print Assumptions C10_relayout_same_parse.

(* redundant parentheses do not change the expression tree *)
Theorem C10_parens_redundant :
  ltac:(let t := type of NS.Properties.PARSER.PARSER_parens_redundant in exact t).
Proof. exact NS.Properties.PARSER.PARSER_parens_redundant. Qed.
Print Assumptions C10_parens_redundant.

(* ================================================================== round 3: end-to-end composition
   theories/Pipeline.v assembles lexer -> parser -> named tree -> static rules -> evaluator from SOURCE
   BYTES (tied to the code by lib/props/pipeline.py on source text).  Statements as in
   Properties/PIPELINE.v; restated by type so that this property's audit covers them. *)
Require NS.Properties.PIPELINE.

(* two separating layouts of one token list: same named tree, acceptance, violations and outcome *)
Theorem C10_layout_invariant_end_to_end :
  ltac:(let t := type of NS.Properties.PIPELINE.PIPELINE_layout_invariant_end_to_end in exact t).
Proof. exact NS.Properties.PIPELINE.PIPELINE_layout_invariant_end_to_end. Qed.
Print Assumptions C10_layout_invariant_end_to_end.

(* for accepted texts the outcomes are literally equal *)
Theorem C10_layout_invariant_accepted :
  ltac:(let t := type of NS.Properties.PIPELINE.PIPELINE_layout_invariant_accepted in exact t).
Proof. exact NS.Properties.PIPELINE.PIPELINE_layout_invariant_accepted. Qed.
Print Assumptions C10_layout_invariant_accepted.

(* redundant parentheses: same tree and equal outcomes, end to end *)
Theorem C10_parens_redundant_end_to_end :
  ltac:(let t := type of NS.Properties.PIPELINE.PIPELINE_parens_redundant_end_to_end in exact t).
Proof. exact NS.Properties.PIPELINE.PIPELINE_parens_redundant_end_to_end. Qed.
Print Assumptions C10_parens_redundant_end_to_end.
