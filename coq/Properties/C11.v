(* C11 — bump arena.  Only statements, each closed by [exact] of a lemma proved in
   proofs/BumpProofs.v, with Print Assumptions beneath. *)
From Coq Require Import ZArith List Bool.
Require Import NS.theories.Generated NS.theories.Bump NS.proofs.BumpProofs.
Require Import NS.theories.GenArenaStr NS.theories.BumpVec NS.proofs.BumpVecProofs.
Import ListNotations.
Open Scope Z_scope.

(* The bit-mask rounding used by the source is rounding up to a multiple, for every
   power-of-two alignment (and for the generated chunk size). *)
Theorem C11_mask_is_round_up : forall x a, pow2 a -> mask_up x a = (x + a - 1) / a * a.
Proof. exact mask_up_rup. Qed.
Print Assumptions C11_mask_is_round_up.

(* In every state reachable from a fresh arena by any history of allocate / zeroed
   allocate / grow / shrink / reset / decommit / write / borrow / release with
   non-negative sizes: offset <= commit <= capacity, commit and capacity are chunk
   multiples, every live block lies in [0, offset), its absolute address base+offset is
   aligned as requested, live
   blocks are pairwise disjoint and ids are unique.  Holds for debug and release. *)
Theorem C11_bump_inv_reachable :
  forall dbg base cap0 ops, Forall op_ok ops -> Inv (crun dbg (cinit base cap0) ops).
Proof. exact bump_inv_reachable_lemma. Qed.
Print Assumptions C11_bump_inv_reachable.

Theorem C11_blocks_in_bounds :
  forall c b, Inv c -> In b (c_live c) ->
  0 <= b_off b /\ b_off b + b_len b <= a_off (s_a (c_s c)) /\
  a_off (s_a (c_s c)) <= a_com (s_a (c_s c)) /\ a_com (s_a (c_s c)) <= a_cap (s_a (c_s c)) /\
  (a_base (s_a (c_s c)) + b_off b) mod b_al b = 0.
Proof. exact inv_blocks_in_bounds. Qed.
Print Assumptions C11_blocks_in_bounds.

Theorem C11_blocks_disjoint :
  forall c x y, Inv c -> In x (c_live c) -> In y (c_live c) -> b_id x <> b_id y ->
  b_off x + b_len x <= b_off y \/ b_off y + b_len y <= b_off x \/ b_len x = 0 \/ b_len y = 0.
Proof. exact inv_blocks_disjoint. Qed.
Print Assumptions C11_blocks_disjoint.

(* No operation other than a client write to that very block changes a byte of a block
   that stays live; a grown block keeps its old bytes whether it was the tail (extended
   in place) or not (moved); debug-build poisoning never touches a live block. *)
Theorem C11_contents_preserved :
  forall dbg c o id b b',
  Inv c -> op_ok o ->
  find_blk (c_live c) id = Some b ->
  find_blk (c_live (fst (cstep dbg c o))) id = Some b' ->
  ~ writes_to c o id ->
  forall i, 0 <= i < Z.min (b_len b) (b_len b') ->
    s_m (c_s (fst (cstep dbg c o))) (b_off b' + i) = s_m (c_s c) (b_off b + i).
Proof. exact cstep_preserves_contents. Qed.
Print Assumptions C11_contents_preserved.

(* A request that does not fit fails cleanly: nothing changes, no block is returned;
   and it fails only when the chunk-rounded end exceeds the reservation. *)
Theorem C11_oom_clean :
  forall dbg c bytes k,
  alloc_raw dbg (c_s c) bytes (2 ^ Z.of_nat k) = None ->
  cstep dbg c (OAlloc bytes k) = (c, RBlock false 0 0) /\
  a_cap (s_a (c_s c)) < rup (abeg (s_a (c_s c)) (2 ^ Z.of_nat k) + bytes) chunk.
Proof. exact oom_clean_lemma. Qed.
Print Assumptions C11_oom_clean.

Theorem C11_fits_never_refused :
  forall dbg s bytes al,
  arena_ok (s_a s) -> 0 <= bytes -> pow2 al ->
  rup (abeg (s_a s) al + bytes) chunk <= a_cap (s_a s) ->
  alloc_raw dbg s bytes al <> None.
Proof. exact alloc_raw_fits. Qed.
Print Assumptions C11_fits_never_refused.

(* After a reset to an earlier mark the next block starts at the mark rounded up to its
   alignment, every byte below the mark is untouched, and exactly the blocks that end
   at or below the mark stay in the ledger. *)
Theorem C11_reset_reuses :
  forall dbg c to bytes k beg len s',
  Inv c -> 0 <= to <= a_off (s_a (c_s c)) -> 0 <= bytes ->
  alloc_raw dbg (c_s (do_reset dbg c to)) bytes (2 ^ Z.of_nat k) = Some (beg, len, s') ->
  beg = rup (a_base (s_a (c_s c)) + to) (2 ^ Z.of_nat k) - a_base (s_a (c_s c)) /\ len = bytes /\
  (forall x, x < to -> s_m s' x = s_m (c_s c) x) /\
  c_live (do_reset dbg c to) = keep_below to (c_live c).
Proof. exact reset_reuses_lemma. Qed.
Print Assumptions C11_reset_reuses.

(* Decommit does not change which requests succeed. *)
Theorem C11_decommit_recommit :
  forall dbg s bytes al,
  arena_ok (s_a s) -> 0 <= bytes -> pow2 al ->
  (alloc_raw dbg (decommit s) bytes al = None <-> alloc_raw dbg s bytes al = None).
Proof. exact decommit_recommit_lemma. Qed.
Print Assumptions C11_decommit_recommit.

(* Non-vacuity: a concrete history crossing a commit boundary, growing a non-tail block
   after a reset, decommitting and re-committing; its ops satisfy op_ok and it reaches a
   state with two live blocks. *)
Definition demo_ops : list op :=
  [OAlloc 65000 0; OAlloc 1000 3; OWrite 0 5; OAlloc 10 0; OGrow 1 70000 false;
   OResetBlk 0; ODecommit; OAllocZ 100 6; OBorrow; OAlloc 200000 4; ORelease; OShrink 0 10].
Example demo_ops_ok : Forall op_ok demo_ops.
Proof. repeat constructor; cbn; try discriminate. Qed.
Example demo_reaches :
  observe (crun true (cinit 4096 524288) demo_ops) = (66138, 131072, 2, 93).
Proof. vm_compute. reflexivity. Qed.

(* ---- the arena's client containers (src/arena/string.rs; theories/BumpVec.v) ---- *)

(* Histories that interleave the raw block operations with container operations
   (ArenaString / Vec<T, &Arena>: new, with_capacity, from_str, clone, formatted, append,
   reserve, reserve_exact, replace_range, replace_once, shrink_to_fit, clear) keep the same
   invariant: a container's buffer is a ledger block, so it lies inside [0, offset), is
   aligned, and is disjoint from every other live block and every other container's
   buffer, whether it grew in place or was relocated. *)
Theorem C11_containers_inv_reachable :
  forall dbg base cap0 ops, Forall kop_ok ops -> Inv (k_c (krun dbg (kinit base cap0) ops)).
Proof. exact kinv_reachable_lemma. Qed.
Print Assumptions C11_containers_inv_reachable.

(* The two copies of vec_replace_impl, made through the buffer address taken after the
   reserve, are the list-level splice: prefix unchanged, replacement at off, old tail
   behind it; and no byte outside the container's new extent is written (so, with
   C11_blocks_disjoint, every other live block is untouched).  The relocation itself
   keeps the old bytes by C11_contents_preserved (the buffer is grown by an OGrow step). *)
Theorem C11_replace_edit_is_splice :
  forall m base esz off del srcl tail data,
  0 < esz -> 0 <= off -> 0 <= del -> 0 <= tail -> Z.of_nat (length data) = srcl * esz ->
  let m' := replace_edit m base esz off del srcl tail data in
  (forall i, 0 <= i < off * esz -> m' (base + i) = m (base + i)) /\
  (forall i, 0 <= i < srcl * esz -> m' (base + off * esz + i) = nth (Z.to_nat i) data 0) /\
  (forall i, 0 <= i < tail * esz ->
     m' (base + (off + srcl) * esz + i) = m (base + (off + del) * esz + i)) /\
  (forall x, x < base + off * esz \/ base + (off + srcl + tail) * esz <= x -> m' x = m x).
Proof. exact replace_edit_splice. Qed.
Print Assumptions C11_replace_edit_is_splice.

(* Tie to the source (translator/gen_arenastr.py): vec_replace_impl takes the buffer address
   after the reserve call and clamps the range as BumpVec.vreplace does. *)
Example src_replace_shape :
  src_replace_ptr_after_reserve = true /\ src_replace_clamps_range = true.
Proof. vm_compute. split; reflexivity. Qed.

(* Non-vacuity: "hello world" straight out of from_str (capacity 11), a 64-byte block
   allocated behind it, then replace_range(0..5, "goodbye, cruel"): the string is relocated
   behind the block and reads "goodbye, cruel world". *)
Definition demo_kops : list kop :=
  [KFrom [104;101;108;108;111;32;119;111;114;108;100]; KRaw (OAlloc 64 0); KRaw (OWrite 0 5);
   KReplace 0 0 5 [103;111;111;100;98;121;101;44;32;99;114;117;101;108]].
Example demo_kops_ok : Forall kop_ok demo_kops.
Proof. repeat constructor; cbn; try discriminate. Qed.
Example demo_kreaches :
  let k := krun true (kinit 4096 262144) demo_kops in
  match k_vecs k with
  | [v] => (v_off (k_c k) v, v_capb (k_c k) v, vbytes (k_c k) v)
  | _ => (0, 0, [])
  end = (75, 22, [103;111;111;100;98;121;101;44;32;99;114;117;101;108;32;119;111;114;108;100]).
Proof. vm_compute. reflexivity. Qed.
