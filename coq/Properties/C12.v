(* C12 — string pool.  Statements only; proofs in proofs/PoolProofs.v. *)
From Coq Require Import ZArith List Bool.
Require Import NS.theories.Generated NS.theories.Bump NS.theories.Pool NS.theories.GenPoolStr
               NS.proofs.BumpProofs NS.proofs.PoolProofs NS.proofs.PoolStrProofs.
Import ListNotations.
Open Scope Z_scope.

(* size_class against the generated SLOT_SIZES: a class is big enough and is the
   smallest such; requests above 256 bytes have no class. *)
Theorem C12_class_roundtrip :
  forall n c, 0 <= n -> size_class n = Some c ->
  0 <= c < class_count /\ n <= slot_size c /\ (c = 0 \/ slot_size (c - 1) < n).
Proof. exact class_roundtrip_lemma. Qed.
Print Assumptions C12_class_roundtrip.

Theorem C12_class_none_iff : forall n, size_class n = None <-> 256 < n.
Proof. exact class_none_iff. Qed.
Print Assumptions C12_class_none_iff.

(* One pool, any history of alloc / free-of-a-live-buffer / contains: the invariant
   (free indices distinct and below bump, live + free = bump, live buffers are distinct
   slots not on the free list) holds, and no dealloc precondition (expect / debug_assert)
   ever fires. *)
Theorem C12_pool_inv_reachable :
  forall base ssz cnt ops, 0 < ssz -> 0 <= cnt ->
  PInv (prun (mkPClient (pool_new base ssz cnt) []) ops).
Proof. intros. apply prun_inv. apply pinit_inv; assumption. Qed.
Print Assumptions C12_pool_inv_reachable.

Theorem C12_pool_never_panics :
  forall c o, PInv c -> snd (pstep c o) <> PRPanic.
Proof. intros c o H. exact (proj2 (pstep_inv c o H)). Qed.
Print Assumptions C12_pool_never_panics.

Theorem C12_pool_conservation :
  forall c, PInv c -> let p := pc_pool c in
  p_live p + Z.of_nat (length (p_free p)) + (p_cnt p - p_bump p) = p_cnt p.
Proof. exact pinv_conservation. Qed.
Print Assumptions C12_pool_conservation.

Theorem C12_pool_exclusive :
  forall c a1 a2, PInv c -> In a1 (pc_live c) -> In a2 (pc_live c) -> a1 <> a2 ->
  a1 + p_ssz (pc_pool c) <= a2 \/ a2 + p_ssz (pc_pool c) <= a1.
Proof. exact pinv_exclusive. Qed.
Print Assumptions C12_pool_exclusive.

(* the slot handed out is owned by nobody else; it is the most recently freed slot if
   there is one (LIFO), else the next never-used slot *)
Theorem C12_alloc_fresh_lifo :
  forall c addr len, PInv c -> snd (pstep c PAlloc) = PRSlot addr len ->
  ~ In addr (pc_live c) /\ len = p_ssz (pc_pool c) /\
  addr = slot_addr (pc_pool c) (match p_free (pc_pool c) with i :: _ => i | [] => p_bump (pc_pool c) end).
Proof. exact palloc_fresh. Qed.
Print Assumptions C12_alloc_fresh_lifo.

(* The whole PoolSet on a bump arena, any history of alloc(size >= 0) / release of a live
   buffer with its allocation size / contains / size_class queries, from any well-formed
   arena state: the set invariant holds and the only possible panic is exhaustion of
   the backing arena. *)
Theorem C12_set_inv_reachable :
  forall dbg s ps ops, arena_ok (s_a s) -> pset_new dbg s = Some ps -> Forall sop_ok ops ->
  SInv (a_off (s_a s)) (srun dbg (mkSClient ps []) ops).
Proof. intros. apply srun_inv; [eapply sinit_inv; eassumption|assumption]. Qed.
Print Assumptions C12_set_inv_reachable.

Theorem C12_set_panics_only_on_arena_exhaustion :
  forall dbg lo c o, SInv lo c -> sop_ok o -> snd (sstep dbg c o) = SRPanic ->
  exists size, o = SAlloc size /\ alloc_raw dbg (ps_arena (sc_set c)) size 1 = None.
Proof. intros dbg lo c o H Ho. exact (proj2 (sstep_inv dbg lo c o H Ho)). Qed.
Print Assumptions C12_set_panics_only_on_arena_exhaustion.

(* no two live buffers overlap — pooled or not, same class or not *)
Theorem C12_set_exclusive :
  forall lo c, SInv lo c -> ForallOrdPairs ranges_disjoint (sc_live c).
Proof. exact sinv_exclusive. Qed.
Print Assumptions C12_set_exclusive.

Theorem C12_set_conservation :
  forall lo c p, SInv lo c -> In p (ps_pools (sc_set c)) ->
  p_live p + Z.of_nat (length (p_free p)) + (p_cnt p - p_bump p) = p_cnt p.
Proof. exact sinv_conservation. Qed.
Print Assumptions C12_set_conservation.

(* a granted buffer is at least as large as requested (slot sizes = generated table) *)
Theorem C12_at_least_requested :
  forall lo c b, SInv lo c -> sizes_ok slot_sizes slot_counts (ps_pools (sc_set c)) ->
  In b (sc_live c) -> 0 <= sb_size b -> sb_size b <= sb_len b.
Proof. exact at_least_requested. Qed.
Print Assumptions C12_at_least_requested.

Theorem C12_sizes_are_generated_tables :
  forall dbg s ps, pset_new dbg s = Some ps -> sizes_ok slot_sizes slot_counts (ps_pools ps).
Proof.
  intros dbg s ps H. unfold pset_new in H.
  destruct (pools_new dbg s slot_sizes slot_counts) as [[pools s']|] eqn:E; [|discriminate].
  inversion H; subst. eapply pools_new_sizes; eassumption.
Qed.
Print Assumptions C12_sizes_are_generated_tables.

Theorem C12_sizes_preserved :
  forall dbg lo sizes counts c o,
  SInv lo c -> sizes_ok sizes counts (ps_pools (sc_set c)) ->
  sizes_ok sizes counts (ps_pools (sc_set (fst (sstep dbg c o)))).
Proof. exact sstep_sizes. Qed.
Print Assumptions C12_sizes_preserved.

(* released pooled buffers return to the class they came from (top of its LIFO), other
   classes and the arena are untouched *)
Theorem C12_release_same_class :
  forall lo c b k i p,
  SInv lo c -> In b (sc_live c) -> sb_org b = FromPool k i ->
  nth_error (ps_pools (sc_set c)) (Z.to_nat k) = Some p ->
  exists ps' p', set_dealloc (sc_set c) (sb_addr b) (sb_size b) = Some ps' /\
    nth_error (ps_pools ps') (Z.to_nat k) = Some p' /\ p_free p' = i :: p_free p /\
    (forall k2, k2 <> Z.to_nat k -> nth_error (ps_pools ps') k2 = nth_error (ps_pools (sc_set c)) k2) /\
    ps_arena ps' = ps_arena (sc_set c).
Proof. exact release_same_class. Qed.
Print Assumptions C12_release_same_class.

(* arena-fallback buffers are never recycled and are not "contained"; pooled ones are *)
Theorem C12_fallback_never_recycled :
  forall lo c b, SInv lo c -> In b (sc_live c) -> sb_org b = FromArena ->
  set_dealloc (sc_set c) (sb_addr b) (sb_size b) = Some (sc_set c) /\
  set_contains (sc_set c) (sb_addr b) = false.
Proof. exact fallback_never_recycled. Qed.
Print Assumptions C12_fallback_never_recycled.

Theorem C12_contains_iff :
  forall ps addr, set_contains ps addr = true <->
  exists p, In p (ps_pools ps) /\ p_base p <= addr < p_base p + p_ssz p * p_cnt p.
Proof. exact set_contains_iff. Qed.
Print Assumptions C12_contains_iff.

Theorem C12_pooled_contains :
  forall lo c b k i, SInv lo c -> In b (sc_live c) -> sb_org b = FromPool k i ->
  set_contains (sc_set c) (sb_addr b) = true.
Proof. exact pooled_contains. Qed.
Print Assumptions C12_pooled_contains.

(* PoolSet::alloc_str (the entry point that writes CONTENT into a granted buffer on behalf of
   the client; shape regenerated from its body by translator/gen_poolstr.py): it requests
   exactly len bytes, and everything it writes - the copy and any further store through the
   buffer pointer - ends at offset len, so it stays inside the granted buffer ... *)
Theorem C12_alloc_str_shape :
  forall len, alloc_str_request len = len /\ alloc_str_extent len = len /\ alloc_str_result_len len = len.
Proof. exact alloc_str_shape. Qed.
Print Assumptions C12_alloc_str_shape.

Theorem C12_alloc_str_within_buffer :
  forall lo c b len, SInv lo c -> sizes_ok slot_sizes slot_counts (ps_pools (sc_set c)) ->
  In b (sc_live c) -> 0 <= len -> sb_size b = alloc_str_request len ->
  alloc_str_extent len <= sb_len b /\ alloc_str_result_len len <= sb_len b.
Proof. exact alloc_str_within_buffer. Qed.
Print Assumptions C12_alloc_str_within_buffer.

(* ... and therefore never reaches another live buffer (exact-fit strings included) *)
Theorem C12_alloc_str_spares_others :
  forall lo c b y len, SInv lo c -> sizes_ok slot_sizes slot_counts (ps_pools (sc_set c)) ->
  In b (sc_live c) -> 0 <= len -> sb_size b = alloc_str_request len -> ranges_disjoint b y ->
  sb_addr b + alloc_str_extent len <= sb_addr y \/ sb_addr y + sb_len y <= sb_addr b.
Proof. exact alloc_str_spares_others. Qed.
Print Assumptions C12_alloc_str_spares_others.

(* side conditions of the regenerated tables *)
Theorem C12_tables_ok :
  Z.of_nat (length slot_sizes) = class_count /\ Z.of_nat (length slot_counts) = class_count /\
  forallb (fun s => (0 <? s) && (s mod 8 =? 0)) slot_sizes = true /\
  forallb (fun c => 0 <? c) slot_counts = true.
Proof. exact tables_ok. Qed.
Print Assumptions C12_tables_ok.

(* Non-vacuity: a concrete history on a 3-slot pool: exhaust, free the middle one, reuse. *)
Example demo_pool :
  let c := prun (mkPClient (pool_new 0 16 3) []) [PAlloc; PAlloc; PAlloc; PAlloc; PFree 1; PAlloc] in
  pc_live c = [16; 32; 0] /\ pcounters (pc_pool c) = (3, 0, 3).
Proof. vm_compute. split; reflexivity. Qed.
