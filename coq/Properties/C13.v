(* C13 — string built-ins.  Statements only; proofs in proofs/StrLibProofs.v. *)
From Coq Require Import ZArith List Bool Arith.
Require Import NS.theories.Generated NS.theories.StrLib NS.proofs.StrLibProofs.
Import ListNotations.
Open Scope nat_scope.

(* Substring search returns the leftmost occurrence or "not found" for ALL byte strings:
   empty, 1-byte, 2-byte, <= SIMD_THRESHOLD and longer needles.  The equation also says
   the search terminates (never OutOfFuel) and never reads out of bounds (never IndexOob),
   including inside maximal_suffix / crit_period. *)
Theorem C13_find_first_occurrence :
  forall h n, find h n = match first_occ h n with Some i => Found i | None => NotFound end.
Proof. exact find_correct. Qed.
Print Assumptions C13_find_first_occurrence.

(* what "leftmost occurrence" means *)
Theorem C13_first_occ_meaning :
  forall h n,
  match first_occ h n with
  | Some i => (exists t, skipn i h = n ++ t) /\ i + length n <= length h /\
              forall j, j < i -> ~ (slice_eq h n j = true)
  | None => forall j, ~ (slice_eq h n j = true)
  end.
Proof.
  intros h n. pose proof (first_occ_spec h n) as H. destruct (first_occ h n) as [i|]; [|exact H].
  destruct H as [Ho Hm]. apply occ_iff in Ho. destruct Ho as [Hp Hl].
  apply prefix_eqb_app in Hp. auto.
Qed.
Print Assumptions C13_first_occ_meaning.

Theorem C13_crit_period_total :
  forall x, 1 <= length x -> exists crit p, crit_period x = inl (Some (crit, p)) /\ crit < length x.
Proof. exact crit_period_ok. Qed.
Print Assumptions C13_crit_period_total.

(* replace substitutes every non-overlapping occurrence scanning left to right *)
Theorem C13_replace_spec : forall h from to, replace h from to = SOk (replace_spec h from to).
Proof. exact replace_correct. Qed.
Print Assumptions C13_replace_spec.

Theorem C13_replace_no_occurrence :
  forall h from to, from <> [] -> first_occ h from = None -> replace_spec h from to = h.
Proof. exact replace_spec_none. Qed.
Print Assumptions C13_replace_no_occurrence.

Theorem C13_replace_leftmost_then_rest :
  forall h from to i, from <> [] -> first_occ h from = Some i ->
  replace_spec h from to = firstn i h ++ to ++ replace_spec (skipn (i + length from) h) from to.
Proof. exact replace_spec_some. Qed.
Print Assumptions C13_replace_leftmost_then_rest.

(* split followed by join with the same separator restores the original, for every
   separator including the empty one *)
Theorem C13_join_split : forall s sep, join (split s sep) sep = s.
Proof. exact join_split. Qed.
Print Assumptions C13_join_split.

(* slice selects a contiguous run of code points with negative indexes counted from the
   end and out-of-range bounds clamped *)
Theorem C13_slice_spec :
  forall s a b, exists st en, slice_bounds (Z.of_nat (str_len s)) a b = (st, en) /\
  (0 <= st <= Z.of_nat (str_len s))%Z /\ (0 <= en <= Z.of_nat (str_len s))%Z /\
  slice s a b = if (en <=? st)%Z then [] else concat (firstn (Z.to_nat (en - st)) (skipn (Z.to_nat st) (chars s))).
Proof. exact slice_is_sublist. Qed.
Print Assumptions C13_slice_spec.

Theorem C13_chars_partition : forall s, concat (chars s) = s.
Proof. exact chars_concat. Qed.
Print Assumptions C13_chars_partition.

(* Non-vacuity / sanity: a periodic long needle, found at a non-zero position. *)
Example demo_find_long :
  let n := [97;98;97;98;97;98;97;98;97;98;97;98;97;98;97;98;97;99]%Z in
  find ([120;97;98] ++ n ++ [121])%Z n = Found 3.
Proof. vm_compute. reflexivity. Qed.
