(* C13 — string built-ins.  Statements only; proofs in proofs/StrLibProofs.v (search, replace,
   split/join, slice), proofs/StrUtf8Proofs.v (UTF-8 validity of every result),
   proofs/NumParseProofs.v (to_number) and proofs/CaseMapProofs.v (to_uppercase/to_lowercase). *)
From Coq Require Import ZArith List Bool Arith SpecFloat.
Require Import NS.theories.Generated NS.theories.StrLib NS.proofs.StrLibProofs.
Require Import NS.theories.Utf8 NS.proofs.StrUtf8Proofs.
Require Import NS.theories.F64 NS.proofs.F64Proofs NS.theories.NumParse NS.proofs.NumParseProofs.
Require Import NS.theories.GenUnicode NS.theories.CaseMap NS.proofs.CaseMapProofs.
Import ListNotations.
Open Scope nat_scope.

(* Substring search returns the leftmost occurrence or "not found" for ALL byte strings:
   empty, 1-byte, 2-byte, <= SIMD_THRESHOLD and longer needles.  The equation also says
   the search terminates (never OutOfFuel) and never reads out of bounds (never IndexOob),
   including inside maximal_suffix / crit_period. *)
Theorem C13_find_first_occurrence :
  forall h n, find h n = match first_occ h n with Some i => Found i | None => NotFound end.
Proof. exact find_correct. Qed.
Print Assumptions C13_find_first_occurrence.

(* what "leftmost occurrence" means *)
Theorem C13_first_occ_meaning :
  forall h n,
  match first_occ h n with
  | Some i => (exists t, skipn i h = n ++ t) /\ i + length n <= length h /\
              forall j, j < i -> ~ (slice_eq h n j = true)
  | None => forall j, ~ (slice_eq h n j = true)
  end.
Proof.
  intros h n. pose proof (first_occ_spec h n) as H. destruct (first_occ h n) as [i|]; [|exact H].
  destruct H as [Ho Hm]. apply occ_iff in Ho. destruct Ho as [Hp Hl].
  apply prefix_eqb_app in Hp. auto.
Qed.
Print Assumptions C13_first_occ_meaning.

Theorem C13_crit_period_total :
  forall x, 1 <= length x -> exists crit p, crit_period x = inl (Some (crit, p)) /\ crit < length x.
Proof. exact crit_period_ok. Qed.
Print Assumptions C13_crit_period_total.

(* replace substitutes every non-overlapping occurrence scanning left to right *)
Theorem C13_replace_spec : forall h from to, replace h from to = SOk (replace_spec h from to).
Proof. exact replace_correct. Qed.
Print Assumptions C13_replace_spec.

Theorem C13_replace_no_occurrence :
  forall h from to, from <> [] -> first_occ h from = None -> replace_spec h from to = h.
Proof. exact replace_spec_none. Qed.
Print Assumptions C13_replace_no_occurrence.

Theorem C13_replace_leftmost_then_rest :
  forall h from to i, from <> [] -> first_occ h from = Some i ->
  replace_spec h from to = firstn i h ++ to ++ replace_spec (skipn (i + length from) h) from to.
Proof. exact replace_spec_some. Qed.
Print Assumptions C13_replace_leftmost_then_rest.

(* split followed by join with the same separator restores the original, for every
   separator including the empty one *)
Theorem C13_join_split : forall s sep, join (split s sep) sep = s.
Proof. exact join_split. Qed.
Print Assumptions C13_join_split.

(* slice selects a contiguous run of code points with negative indexes counted from the
   end and out-of-range bounds clamped *)
Theorem C13_slice_spec :
  forall s a b, exists st en, slice_bounds (Z.of_nat (str_len s)) a b = (st, en) /\
  (0 <= st <= Z.of_nat (str_len s))%Z /\ (0 <= en <= Z.of_nat (str_len s))%Z /\
  StrLib.slice s a b = if (en <=? st)%Z then [] else concat (firstn (Z.to_nat (en - st)) (skipn (Z.to_nat st) (chars s))).
Proof. exact slice_is_sublist. Qed.
Print Assumptions C13_slice_spec.

Theorem C13_chars_partition : forall s, concat (chars s) = s.
Proof. exact chars_concat. Qed.
Print Assumptions C13_chars_partition.

(* Non-vacuity / sanity: a periodic long needle, found at a non-zero position. *)
Example demo_find_long :
  let n := [97;98;97;98;97;98;97;98;97;98;97;98;97;98;97;98;97;99]%Z in
  find ([120;97;98] ++ n ++ [121])%Z n = Found 3.
Proof. vm_compute. reflexivity. Qed.

(* ------------------------------------------------------------------ all results are valid UTF-8 *)

(* UTF-8 self-synchronisation: in a valid haystack a valid non-empty needle can only match on
   code-point boundaries, at both ends.  This is what makes the unchecked slicing in
   replace.rs (and `find`'s byte index handed to scripts) sound. *)
Theorem C13_find_boundary :
  forall (h n : list Z) i,
  valid_utf8 h = true -> valid_utf8 n = true -> n <> [] -> find h n = Found i ->
  is_boundary h i = true /\ is_boundary h (i + length n) = true.
Proof. exact find_boundary. Qed.
Print Assumptions C13_find_boundary.

(* replace never fails and its result is valid UTF-8, for every pattern including the empty one
   (which inserts between code points) *)
Theorem C13_replace_valid_utf8 :
  forall h from to : list Z,
  valid_utf8 h = true -> valid_utf8 from = true -> valid_utf8 to = true ->
  exists r, replace h from to = SOk r /\ valid_utf8 r = true.
Proof. exact replace_valid_utf8. Qed.
Print Assumptions C13_replace_valid_utf8.

Theorem C13_split_pieces_valid :
  forall s sep : list Z, valid_utf8 s = true -> valid_utf8 sep = true ->
  Forall (fun p => valid_utf8 p = true) (split s sep).
Proof. exact split_pieces_valid. Qed.
Print Assumptions C13_split_pieces_valid.

Theorem C13_join_valid :
  forall (parts : list (list Z)) (sep : list Z),
  Forall (fun p => valid_utf8 p = true) parts -> valid_utf8 sep = true -> valid_utf8 (join parts sep) = true.
Proof. exact join_valid. Qed.
Print Assumptions C13_join_valid.

Theorem C13_slice_valid_utf8 :
  forall (s : list Z) (a b : Z), valid_utf8 s = true -> valid_utf8 (StrLib.slice s a b) = true.
Proof. exact slice_valid_utf8. Qed.
Print Assumptions C13_slice_valid_utf8.

Theorem C13_trim_valid_utf8 : forall s : list Z, valid_utf8 s = true -> valid_utf8 (trim s) = true.
Proof. exact trim_valid_utf8. Qed.
Print Assumptions C13_trim_valid_utf8.

(* the chunks `chars` cuts a valid string into are exactly its code points, and `len` counts them *)
Theorem C13_chars_code_points :
  forall s : list Z, valid_utf8 s = true ->
  Forall (fun c => valid_utf8 c = true /\ c <> [] /\ length c = char_width (hd 0%Z c)) (chars s).
Proof. exact chars_valid. Qed.
Print Assumptions C13_chars_code_points.

Theorem C13_len_counts_code_points :
  forall s : list Z, valid_utf8 s = true -> str_len s = char_count s.
Proof. exact chars_char_count. Qed.
Print Assumptions C13_len_counts_code_points.

(* ------------------------------------------------------------------ to_number *)

(* total: every byte string yields a canonical binary64 (one that has a bit pattern) *)
Theorem C13_to_number_total : forall s : list Z, valid (to_number s).
Proof. exact to_number_valid. Qed.
Print Assumptions C13_to_number_total.

(* whatever the grammar does not accept is NaN *)
Theorem C13_to_number_error_is_nan : forall s : list Z, parse_f64 s = None -> to_number s = S754_nan.
Proof. exact to_number_error. Qed.
Print Assumptions C13_to_number_error_is_nan.

(* an accepted numeral (optional single sign; digits, optional fraction, optional exponent) has
   the value: its digits read as an integer, times ten to the exponent, rounded once *)
Theorem C13_to_number_value :
  forall (sgn body : list Z) (ds : list Z) (e : Z),
  (sgn = [] \/ sgn = [43%Z] \/ sgn = [45%Z]) ->
  (match body with c :: _ => c <> 43%Z /\ c <> 45%Z | [] => False end) ->
  parse_decimal body = Some (ds, e) ->
  to_number (sgn ++ body) = exact_round (match sgn with [45%Z] => true | _ => false end) (digits_val 0 ds) e.
Proof. exact to_number_decimal. Qed.
Print Assumptions C13_to_number_value.

(* "rounded once" is IEEE round-to-nearest-even: the result of rounding the positive fraction
   a/b is the double m*2^e whenever a/b lies between the midpoints to m*2^e's neighbours (end
   points included exactly when m is even; the lower midpoint is half as far at a power of two) *)
Theorem C13_round_nearest_even :
  forall (neg : bool) (m : positive) (e a b : Z),
  (0 < a)%Z -> (0 < b)%Z -> valid (S754_finite neg m e) -> in_round_interval m e a b ->
  round_q neg a b = S754_finite neg m e.
Proof. exact round_q_interval. Qed.
Print Assumptions C13_round_nearest_even.

(* beyond the largest finite double it is infinity, below half the least subnormal it is zero *)
Theorem C13_round_overflow :
  forall neg a b, (0 < a)%Z -> (0 < b)%Z -> (b * 2 ^ 1024 <= a)%Z -> round_q neg a b = S754_infinity neg.
Proof. exact round_q_overflow. Qed.
Print Assumptions C13_round_overflow.

Theorem C13_round_underflow :
  forall neg a b, (0 < a)%Z -> (0 < b)%Z -> (a * 2 ^ 1075 < b)%Z -> round_q neg a b = S754_zero neg.
Proof. exact round_q_underflow. Qed.
Print Assumptions C13_round_underflow.

(* the model's early exits for huge / tiny exponents do not change the value *)
Theorem C13_round_dec_exact :
  forall neg ds e, Forall (fun d => (48 <= d <= 57)%Z) ds -> round_dec neg ds e = exact_round neg (digits_val 0 ds) e.
Proof. exact round_dec_exact. Qed.
Print Assumptions C13_round_dec_exact.

(* sign and zero: "-0", "-0.0e7", "+0" ... *)
Theorem C13_to_number_sign :
  forall (sgn body ds : list Z) (e : Z),
  (sgn = [] \/ sgn = [43%Z] \/ sgn = [45%Z]) ->
  (match body with c :: _ => c <> 43%Z /\ c <> 45%Z | [] => False end) ->
  parse_decimal body = Some (ds, e) ->
  sign_of (to_number (sgn ++ body)) = (match sgn with [45%Z] => true | _ => false end).
Proof. exact to_number_sign. Qed.
Print Assumptions C13_to_number_sign.

Theorem C13_to_number_zero :
  forall (sgn body ds : list Z) (e : Z),
  (sgn = [] \/ sgn = [43%Z] \/ sgn = [45%Z]) ->
  (match body with c :: _ => c <> 43%Z /\ c <> 45%Z | [] => False end) ->
  parse_decimal body = Some (ds, e) -> digits_val 0 ds = 0%Z ->
  to_number (sgn ++ body) = S754_zero (match sgn with [45%Z] => true | _ => false end).
Proof. exact to_number_zero. Qed.
Print Assumptions C13_to_number_zero.

(* the two directions of the number/text conversion fit together: what Display prints for a
   number (F64.fmt, the model of Rust's `{}` used by C05/C06) parses back to the same number,
   for EVERY binary64 value: zeros of both signs, subnormals, infinities, and NaN to NaN *)
Theorem C13_parse_of_fmt_roundtrip : forall x : f64, valid x -> to_number (fmt x) = x.
Proof. exact parse_of_fmt_roundtrip. Qed.
Print Assumptions C13_parse_of_fmt_roundtrip.

(* ------------------------------------------------------------------ to_uppercase / to_lowercase *)

(* the tables regenerated from the toolchain's unicode_data.rs are well formed: sorted disjoint
   ranges (so the linear scan of the model finds what std's binary search finds), every image a
   Unicode scalar value, no interior NUL padding *)
Theorem C13_case_tables_wf : tables_ok = true.
Proof. exact tables_wf. Qed.
Print Assumptions C13_case_tables_wf.

Theorem C13_upper_cp_scalar : forall cp, scalar cp -> Forall scalar (upper_cp cp).
Proof. exact upper_cp_scalar. Qed.
Print Assumptions C13_upper_cp_scalar.

Theorem C13_lower_cp_scalar : forall cp, scalar cp -> Forall scalar (lower_cp cp).
Proof. exact lower_cp_scalar. Qed.
Print Assumptions C13_lower_cp_scalar.

Theorem C13_case_cp_len :
  forall cp, (1 <= length (upper_cp cp) <= 3) /\ (1 <= length (lower_cp cp) <= 3).
Proof. intros cp. split; [apply upper_cp_len|apply lower_cp_len]. Qed.
Print Assumptions C13_case_cp_len.

Theorem C13_to_upper_valid_utf8 : forall s : list Z, valid_utf8 s = true -> valid_utf8 (to_upper s) = true.
Proof. exact to_upper_valid_utf8. Qed.
Print Assumptions C13_to_upper_valid_utf8.

Theorem C13_to_lower_valid_utf8 : forall s : list Z, valid_utf8 s = true -> valid_utf8 (to_lower s) = true.
Proof. exact to_lower_valid_utf8. Qed.
Print Assumptions C13_to_lower_valid_utf8.

(* on ASCII strings the Unicode functions are the byte-wise ASCII ones *)
Theorem C13_to_upper_ascii : forall s, is_ascii_str s = true -> to_upper s = ascii_upper_str s.
Proof. exact to_upper_ascii. Qed.
Print Assumptions C13_to_upper_ascii.

Theorem C13_to_lower_ascii : forall s, is_ascii_str s = true -> to_lower s = ascii_lower_str s.
Proof. exact to_lower_ascii. Qed.
Print Assumptions C13_to_lower_ascii.

(* ------------------------------------------------------------------ examples *)
Local Open Scope Z_scope.

(* to_number: accepted shapes *)
Example demo_num_1 : to_number [49; 46; 53] = S754_finite false 6755399441055744 (-52).            (* "1.5" *)
Proof. vm_compute. reflexivity. Qed.
Example demo_num_2 : to_number [45; 46; 53; 69; 43; 49] = S754_finite true 5629499534213120 (-50).  (* "-.5E+1" = -5 *)
Proof. vm_compute. reflexivity. Qed.
Example demo_num_3 : to_number [45; 48] = S754_zero true.                                           (* "-0" *)
Proof. vm_compute. reflexivity. Qed.
Example demo_num_4 : to_number [105; 78; 102; 73; 110; 105; 84; 121] = S754_infinity false.        (* "iNfIniTy" *)
Proof. vm_compute. reflexivity. Qed.
Example demo_num_5 : to_number [45; 105; 110; 102] = S754_infinity true.                            (* "-inf" *)
Proof. vm_compute. reflexivity. Qed.
(* 2^53 + 1 is half-way between two doubles: ties go to the even mantissa *)
Example demo_num_tie : to_number [57;48;48;55;49;57;57;50;53;52;55;52;48;57;57;51] = S754_finite false 4503599627370496 1.
Proof. vm_compute. reflexivity. Qed.
(* least subnormal, and the half-way point below it (2^-1075, 752 significant digits when written out) *)
Example demo_num_sub : to_number [53; 101; 45; 51; 50; 52] = S754_finite false 1 (-1074).            (* "5e-324" *)
Proof. vm_compute. reflexivity. Qed.
Example demo_num_under : to_number [50; 101; 45; 51; 50; 52] = S754_zero false.                      (* "2e-324" *)
Proof. vm_compute. reflexivity. Qed.
Example demo_num_over : to_number [49; 101; 51; 48; 57] = S754_infinity false.                       (* "1e309" *)
Proof. vm_compute. reflexivity. Qed.
Example demo_num_huge_exp : to_number [49; 101; 57; 57; 57; 57; 57; 57; 57; 57; 57; 57; 57; 57; 57; 57; 57; 57; 57; 57; 57; 57] = S754_infinity false.
Proof. vm_compute. reflexivity. Qed.
(* rejected: "", "+", ".", "1e", "1e+", " 1", "1 ", "1_0", "+-1", "0x1", "infinit", "1.2.3", "e5" *)
Example demo_num_junk :
  map to_number [[]; [43]; [46]; [49; 101]; [49; 101; 43]; [32; 49]; [49; 32]; [49; 95; 48]; [43; 45; 49]; [48; 120; 49];
                 [105; 110; 102; 105; 110; 105; 116]; [49; 46; 50; 46; 51]; [101; 53]]
  = repeat S754_nan 13.
Proof. vm_compute. reflexivity. Qed.
(* the hypotheses of C13_to_number_value are satisfiable *)
Example demo_num_parse : parse_decimal [49; 50; 46; 53; 101; 45; 51] = Some ([49; 50; 53], -4).      (* "12.5e-3" *)
Proof. vm_compute. reflexivity. Qed.
(* Display -> to_number on a few concrete values (the theorem covers all) *)
Example demo_roundtrip :
  map (fun x => to_number (fmt x))
      [S754_finite false 1 (-1074); S754_finite true 9007199254740991 971; S754_finite false 7205759403792794 (-56)]
  = [S754_finite false 1 (-1074); S754_finite true 9007199254740991 971; S754_finite false 7205759403792794 (-56)].
Proof. vm_compute. reflexivity. Qed.

(* case mapping: multi-character expansions, no final-sigma rule, wrapping table delta, plane 1 *)
Example demo_case_1 : to_upper [115; 116; 114; 97; 195; 159; 101] = [83; 84; 82; 65; 83; 83; 69].    (* "straße" -> "STRASSE" *)
Proof. vm_compute. reflexivity. Qed.
Example demo_case_2 : to_lower [206; 145; 206; 163] = [206; 177; 207; 131].                         (* "ΑΣ" -> "ασ", not "ας" *)
Proof. vm_compute. reflexivity. Qed.
Example demo_case_3 : lower_cp 304 = [105; 775] /\ upper_cp 329 = [700; 78] /\ upper_cp 411 = [42972] /\ lower_cp 66560 = [66600].
Proof. vm_compute. repeat split. Qed.

(* what to_number can accept at all: one optional sign, then only characters of 0-9 . e E + - ,
   or a 3- or 8-byte word equal to inf / infinity / nan up to letter case — so surrounding white
   space, underscores, digits of other scripts and trailing text give NaN *)
Theorem C13_to_number_grammar :
  forall (s : list Z) (x : f64),
  parse_f64 s = Some x ->
  exists sgn body, s = sgn ++ body /\ (sgn = [] \/ sgn = [43] \/ sgn = [45]) /\ body <> [] /\
    (Forall numeric_char body \/
     ((is_inf_text body = true \/ is_nan_text body = true) /\ (length body = 3 \/ length body = 8)%nat)).
Proof. exact parse_f64_shape. Qed.
Print Assumptions C13_to_number_grammar.
