(* C14 — the shipped pipeline matches the library; runs do not influence each other.
   Only statements, each closed by [exact] of a lemma proved in proofs/ScratchProofs.v, with
   Print Assumptions beneath; Examples show that the hypotheses are satisfiable.

   Model: theories/Scratch.v on top of theories/Bump.v (C11); wiring scripts, capacities,
   exit guards and the shape of scratch.rs are regenerated from the source into
   theories/GenWiring.v on every check.  The model cannot exhibit a stale read of bytes a
   previous run left behind (no modelled client reads what it did not write): the
   back-to-back debug runs of lib/props/c14.py are what would show one. *)
From Coq Require Import ZArith List Bool.
Require Import NS.theories.Generated NS.theories.Bump NS.theories.GenWiring NS.theories.Scratch.
Require Import NS.proofs.BumpProofs NS.proofs.ScratchProofs.
Require Import NS.theories.Utf8 NS.theories.CliInput NS.proofs.CliInputProofs.
Require Import NS.theories.ReadLine NS.proofs.RunStdinProofs.
Import ListNotations.
Open Scope Z_scope.

(* scratch_arena flips: handing a borrow of one scratch arena as the conflict yields the
   other arena; no conflict, or an arena that is neither, yields arena 0. *)
Theorem C14_scratch_arena_flips : forall a, choose (CScratch a) = negb a.
Proof. exact choose_flip. Qed.
Print Assumptions C14_scratch_arena_flips.

(* Every state reachable from `init` by a disciplined history (Scratch.disc: only the newest
   borrow of an arena is used; a borrow touches only blocks it allocated; resets stay between
   the borrow's saved offset and the current offset; init only while nothing is borrowed)
   satisfies the invariant: both arenas satisfy the C11 invariant, every live borrow's saved
   offset separates the blocks allocated before it from those allocated after it, and saved
   offsets grow along the borrow stack. *)
Theorem C14_scratch_inv_reachable :
  forall dbg b0 b1 cap ops,
  run_disc dbg (sinit b0 b1 cap) ops -> SInv (srun dbg (sinit b0 b1 cap) ops).
Proof. exact scratch_inv_reachable. Qed.
Print Assumptions C14_scratch_inv_reachable.

(* scratch_noninterference, one step.  Whatever a disciplined step does — a client
   operation through the newest borrow of either arena, a new borrow, the drop of the newest
   borrow (h itself included) — every block that a live borrow h protects (allocated in h's
   arena before h was taken) stays in the ledger with the same offset and length, and none
   of its bytes changes: not overwritten, not moved, not freed. *)
Theorem C14_scratch_noninterference :
  forall dbg st o h x,
  SInv st -> sop_ok o -> disc st o -> In h (ss_bors st) -> protected st h x ->
  protected (fst (sstep dbg st o)) h x /\ same_bytes st (fst (sstep dbg st o)) (bo_arena h) x.
Proof. exact sstep_protected. Qed.
Print Assumptions C14_scratch_noninterference.

(* ... and blocks of the outer and of the inner borrow are separated by the saved offset;
   all live blocks of one arena are pairwise disjoint (C11); an operation on one arena
   leaves the other arena untouched altogether. *)
Theorem C14_inner_outer_disjoint :
  forall st h x y,
  SInv st -> In h (ss_bors st) ->
  In x (c_live (sel (bo_arena h) st)) -> In y (c_live (sel (bo_arena h) st)) ->
  b_id x < bo_next h -> bo_next h <= b_id y ->
  b_off x + b_len x <= bo_mark h /\ bo_mark h <= b_off y.
Proof. exact inner_outer_disjoint. Qed.
Print Assumptions C14_inner_outer_disjoint.

Theorem C14_blocks_disjoint :
  forall st a x y,
  SInv st -> In x (c_live (sel a st)) -> In y (c_live (sel a st)) -> b_id x <> b_id y -> disj x y.
Proof. exact scratch_blocks_disjoint. Qed.
Print Assumptions C14_blocks_disjoint.

Theorem C14_other_arena_untouched :
  forall dbg st a o, sel (negb a) (fst (sstep dbg st (SCli a o))) = sel (negb a) st.
Proof. exact other_arena_untouched. Qed.
Print Assumptions C14_other_arena_untouched.

(* A whole lexical scope `{ let x = scratch_arena(c); body }` with a disciplined body that
   drops every borrow it takes: afterwards the borrowed arena's offset is what it was, the
   borrow stack is what it was, and every block that was live in that arena before the scope
   is still live at the same place with the same bytes (LIFO drops restore the offset). *)
Theorem C14_borrow_scope_restores :
  forall dbg st c body,
  SInv st -> balanced body ->
  run_disc dbg st (SBorrow c :: body ++ [SDrop]) ->
  let a := choose c in
  let st' := srun dbg st (SBorrow c :: body ++ [SDrop]) in
  aoff (sel a st') = aoff (sel a st) /\ ss_bors st' = ss_bors st /\
  forall x, In x (c_live (sel a st)) -> In x (c_live (sel a st')) /\ same_bytes st st' a x.
Proof. exact borrow_scope_frame. Qed.
Print Assumptions C14_borrow_scope_restores.

(* What a phase wrote is what a later phase reads: a block that stays live keeps, byte for
   byte, the contents of its common prefix across any disciplined step that is not a client
   write to that very block — whichever arena, whichever borrow, moved by a grow or not. *)
Theorem C14_contents_preserved :
  forall dbg st o a id b b',
  SInv st -> sop_ok o -> disc st o ->
  find_blk (c_live (sel a st)) id = Some b ->
  find_blk (c_live (sel a (fst (sstep dbg st o)))) id = Some b' ->
  ~ swrites st o a id ->
  forall i, 0 <= i < Z.min (b_len b) (b_len b') ->
    s_m (c_s (sel a (fst (sstep dbg st o)))) (b_off b' + i) = s_m (c_s (sel a st)) (b_off b + i).
Proof. exact sstep_contents. Qed.
Print Assumptions C14_contents_preserved.

(* ... and over whole runs: along any disciplined history from `init`, every block that a
   client filled (`OWrite`) and that is still live carries, on the recorded prefix (a shrink
   cuts it), exactly the pattern last written to it — whatever the other phases did in either
   arena, under any wiring.  `grun` is ghost bookkeeping (proofs/ScratchProofs.v): which
   (arena, block id) was filled with which seed; it reads the op list and the ledgers only. *)
Theorem C14_written_reads_back :
  forall dbg b0 b1 cap ops,
  run_disc dbg (sinit b0 b1 cap) ops ->
  Forall (went_ok (srun dbg (sinit b0 b1 cap) ops)) (grun dbg (sinit b0 b1 cap) ops []).
Proof. exact written_reads_back. Qed.
Print Assumptions C14_written_reads_back.

(* reinit_history_independent.  Let `prev` be any disciplined history of the process that
   has dropped all its borrows (a finished playground run), in debug or release.  After
   `init`, the trace of ANY disciplined history `ops` — which arena each borrow gets, the
   saved offsets, every returned (offset, length), every success or failure, both offsets
   after every step — equals the trace on two fresh arenas of the same capacity.  Results
   are a function of (base, capacity, offset = 0) only: never of the committed size, of
   stale contents, or of the build profile. *)
Theorem C14_reinit_history_independent :
  forall dbg dbg' b0 b1 cap prev ops,
  run_disc dbg (sinit b0 b1 cap) prev ->
  ss_bors (srun dbg (sinit b0 b1 cap) prev) = [] ->
  run_disc dbg' (sinit b0 b1 cap) ops ->
  strace dbg (fst (sstep dbg (srun dbg (sinit b0 b1 cap) prev) SInit)) ops =
  strace dbg' (sinit b0 b1 cap) ops.
Proof. exact reinit_history_independent_lemma. Qed.
Print Assumptions C14_reinit_history_independent.

(* ... and the data clients wrote reads back the same: one and the same list of written
   entries (arena, block id, seed, length) is valid in the final state on fresh arenas and in
   the final state after re-initialisation following any previous run.  (Bytes a client never
   wrote — stale contents, poison — may differ; no modelled client reads them.) *)
Theorem C14_reinit_contents_independent :
  forall dbg dbg' b0 b1 cap prev ops,
  run_disc dbg (sinit b0 b1 cap) prev ->
  ss_bors (srun dbg (sinit b0 b1 cap) prev) = [] ->
  run_disc dbg' (sinit b0 b1 cap) ops ->
  let again := fst (sstep dbg (srun dbg (sinit b0 b1 cap) prev) SInit) in
  let g := grun dbg' (sinit b0 b1 cap) ops [] in
  Forall (went_ok (srun dbg' (sinit b0 b1 cap) ops)) g /\ Forall (went_ok (srun dbg again ops)) g.
Proof. exact reinit_contents_independent_lemma. Qed.
Print Assumptions C14_reinit_contents_independent.

(* Normalisation (block indices taken among the borrow's own blocks, reset targets taken
   relative to the saved offset — what `nsmodel scratch` and the harness both apply) turns
   every request into a disciplined one, so every op list is a legal history. *)
Theorem C14_normalised_is_disciplined :
  forall st o o', SInv st -> sop_ok o -> norm st o = Some o' -> sop_ok o' /\ disc st o'.
Proof. exact norm_disc. Qed.
Print Assumptions C14_normalised_is_disciplined.

(* cli_equals_lib, as far as the model carries it.  The scripts regenerated from
   main.rs + cmd.rs (CLI) and wasm/src/lib.rs (playground) expand, for arbitrary client
   operations of the three phases, to: borrow arena 0 (source, AST, facts, persistent
   runtime data); parse there; borrow arena 1 (resolver tables); resolve with tables in
   arena 1 and facts in arena 0; borrow arena 1 again, nested (frame); run with persistent
   data in arena 0 and frame temporaries in arena 1; three drops.  A phase uses a borrow
   only while it is the newest borrow of its arena, and the persistent and frame arenas
   differ (`expand` returns None otherwise). *)
Theorem C14_cli_wiring : forall p, expand w0 cli_script p = Some (cli_shape p).
Proof. exact cli_script_expands. Qed.
Print Assumptions C14_cli_wiring.

Theorem C14_wasm_wiring : forall p, expand w0 wasm_script p = Some (cli_shape p).
Proof. exact wasm_script_expands. Qed.
Print Assumptions C14_wasm_wiring.

Theorem C14_lib_wiring : forall p, expand w0 lib_script p = Some (lib_shape p).
Proof. exact lib_script_expands. Qed.
Print Assumptions C14_lib_wiring.

(* In both wirings, for every choice of well-formed client operations, the invariant holds
   after every prefix of the run (so every theorem above applies at every point: live blocks
   pairwise disjoint, outer blocks untouched, contents preserved until overwritten by their
   owner — phase outputs read back the same values in the shared-arena wiring as with
   separate arenas), and at the end no borrow is live and both arenas are back at offset 0. *)
Theorem C14_cli_pipeline_invariant :
  forall dbg b0 b1 cap p l1 l2,
  phase_ok p -> cli_shape p = l1 ++ l2 -> SInv (nrun dbg (sinit b0 b1 cap) l1).
Proof. exact cli_pipeline_invariant. Qed.
Print Assumptions C14_cli_pipeline_invariant.

Theorem C14_lib_pipeline_invariant :
  forall dbg b0 b1 cap p l1 l2,
  phase_ok p -> lib_shape p = l1 ++ l2 -> SInv (nrun dbg (sinit b0 b1 cap) l1).
Proof. exact lib_pipeline_invariant. Qed.
Print Assumptions C14_lib_pipeline_invariant.

Theorem C14_cli_pipeline_clean :
  forall dbg b0 b1 cap p, phase_ok p ->
  let st := nrun dbg (sinit b0 b1 cap) (cli_shape p) in
  ss_bors st = [] /\ aoff (ss0 st) = 0 /\ aoff (ss1 st) = 0.
Proof. exact cli_pipeline_clean. Qed.
Print Assumptions C14_cli_pipeline_clean.

Theorem C14_lib_pipeline_clean :
  forall dbg b0 b1 cap p, phase_ok p ->
  let st := nrun dbg (sinit b0 b1 cap) (lib_shape p) in
  ss_bors st = [] /\ aoff (ss0 st) = 0 /\ aoff (ss1 st) = 0.
Proof. exact lib_pipeline_clean. Qed.
Print Assumptions C14_lib_pipeline_clean.

(* Exit status of cmd.rs run_source over the generated guards: 0 exactly when no error
   diagnostic was emitted (the lexer and parser emit only errors, so "any diagnostic" and
   "any error" coincide for the first guard; the generated flag re-checks that reading). *)
Theorem C14_exit_zero_iff_no_error :
  forall parse resolve run,
  syntax_emits_only_errors = true ->
  (forall e, In e parse -> e = true) ->
  (exit_code parse resolve run = 0 <-> ~ In true (emitted parse resolve run)).
Proof. exact exit_zero_iff_no_error_lemma. Qed.
Print Assumptions C14_exit_zero_iff_no_error.

(* Input modes.  run_stdin appends read blocks of at most cli_stdin_block bytes (size read from
   the source) to one buffer and validates the whole buffer once (the generated flag
   cli_stdin_validates_whole_buffer selects that reader as the model; it is true only for that
   shape of the source).  Then the text run_source receives — and whether the input is rejected
   as invalid UTF-8 — is what file mode gives for the same bytes, however read(2) cut the input
   into blocks: a pipe with small writes, a redirected file read in full blocks, anything. *)
Theorem C14_stdin_equals_file :
  forall blocks, stdin_source blocks = file_source (concat blocks).
Proof. exact stdin_equals_file_lemma. Qed.
Print Assumptions C14_stdin_equals_file.

Theorem C14_stdin_chunking_independent :
  forall blocks blocks', concat blocks = concat blocks' -> stdin_source blocks = stdin_source blocks'.
Proof. exact stdin_chunking_independent_lemma. Qed.
Print Assumptions C14_stdin_chunking_independent.

Theorem C14_stdin_redirect_equals_file :
  forall content, stdin_source (redirect_blocks content) = file_source content.
Proof. exact stdin_redirect_equals_file_lemma. Qed.
Print Assumptions C14_stdin_redirect_equals_file.

(* All three input modes hand run_source — and run_source hands the lexer — exactly the text the
   library pipeline is given for the same bytes (or refuse it as not UTF-8 alike): nothing strips,
   trims, slices or replaces anything between the read and Lexer::new.  The five generated flags
   (cli_{file,eval,stdin}_text_passthrough, cli_/wasm_run_source_text_passthrough) are re-read from
   cmd.rs and wasm/src/lib.rs on every check; with any of them false this does not prove. *)
Theorem C14_input_modes_agree :
  forall blocks, let c := concat blocks in
  file_mode c = library_text c /\ eval_mode c = library_text c /\ stdin_mode blocks = library_text c.
Proof. exact input_modes_agree_lemma. Qed.
Print Assumptions C14_input_modes_agree.

(* Runs that read standard input.  Besides the scratch arenas the crate has one more piece of
   mutable process-global state, the bytes read_line took from standard input past the line it
   returned (src/sys/unix.rs PENDING; the translator lists the globals, see the Example below);
   `init` does not reset it and must not: it is input not yet consumed.  With C17's model of
   read_line: of two runs in one process calling read_line k1 and k2 times, the second gets
   exactly what a fresh process gets whose standard input is the rest of the text after the k1
   lines — however the input was cut into reads in either case — and the first run gets what it
   gets alone. *)
Theorem C14_later_run_reads_the_remainder :
  forall text sched sched' k1 k2,
  option_map (fun r => skipn k1 (map fst r)) (run text sched (k1 + k2)) =
  option_map (map fst) (run (remainder k1 text) sched' k2).
Proof. exact later_run_reads_the_remainder_lemma. Qed.
Print Assumptions C14_later_run_reads_the_remainder.

Theorem C14_earlier_run_unaffected :
  forall text sched sched' k1 k2,
  option_map (fun r => firstn k1 (map fst r)) (run text sched (k1 + k2)) =
  option_map (map fst) (run text sched' k1).
Proof. exact earlier_run_unaffected_lemma. Qed.
Print Assumptions C14_earlier_run_unaffected.

(* ------------------------------------------------------------------ *)
(* Non-vacuity *)

Example syntax_flag : syntax_emits_only_errors = true.
Proof. reflexivity. Qed.

(* The discipline hypothesis `disc` against the source: the only arena resets outside
   src/arena are in src/runtime.rs, and each targets an offset that the same function (or each
   of its callers) read from `.offset()` of that same arena after it was handed the arena —
   re-read from the source on every check (GenWiring.runtime_reset_sites). *)
Example runtime_resets_target_own_marks : forallb snd runtime_reset_sites = true.
Proof. reflexivity. Qed.

(* run_source has no way out other than the three guards of exit_code and its final value, and
   the Option<plan> that the resolver leaves (None when an analysis cap was exceeded) reaches
   run_with_analysis as it is: a program without a plan is run, not refused.  Same for the
   playground entry point.  Re-read from the source on every check. *)
Example cli_run_source_shape :
  cli_plan_passthrough = true /\ cli_unguarded_returns = 0%nat /\
  wasm_plan_passthrough = true /\ wasm_unguarded_returns = 0%nat.
Proof. repeat split; reflexivity. Qed.

(* the only mutable process-global state of the crate (outside verification hooks, the windows
   back end and the self-update tool) is what the two models account for *)
Example process_globals_accounted_for : process_globals_are_scratch_and_pending = true.
Proof. reflexivity. Qed.

(* "first\nsecond" read by a run that calls read_line twice, then a probe run: the probe sees
   the empty rest *)
Example probe_after_reader_sees_nothing :
  remainder 2 [102; 105; 10; 115; 101] = [] /\
  option_map (map fst) (run [102; 105; 10; 115; 101] [5] 3) = Some [[102; 105]; [115; 101]; []].
Proof. vm_compute. split; reflexivity. Qed.

(* validating block by block is NOT the same reader: "é" cut between two reads *)
Example blockwise_reader_refuted :
  read_blockwise [[99; 195]; [169; 10]] = None /\
  read_whole [[99; 195]; [169; 10]] = Some [99; 195; 169; 10] /\
  file_source [99; 195; 169; 10] = Some [99; 195; 169; 10].
Proof. vm_compute. repeat split; reflexivity. Qed.

Example stdin_block_positive : 0 < cli_stdin_block.
Proof. reflexivity. Qed.

Example exit_codes :
  exit_code [] [false; false] [] = 0 /\ exit_code [true] [] [] = 1 /\
  exit_code [] [false; true] [] = 1 /\ exit_code [] [false] [true] = 1.
Proof. repeat split; reflexivity. Qed.

(* A CLI-shaped disciplined history: source and AST in arena 0, resolver tables in arena 1
   with facts going to arena 0 meanwhile, a frame nested in arena 1 that crosses a commit
   boundary, is reset to marks inside the frame and reclaims a moved block, a staging
   allocation on the persistent arena that is reset away, then the three drops. *)
Definition demo_ops : list sop :=
  [SBorrow CNone;
   SCli false (OAlloc 3000 3); SCli false (OWrite 0 11);
   SBorrow (CScratch false);
   SCli true (OAlloc 500 3); SCli false (OAlloc 200 3); SCli true (OGrow 0 700 false); SCli true (OWrite 0 5);
   SBorrow (CScratch false);
   SCli true (OAlloc 70000 4); SCli true (OWrite 0 9); SCli false (OAlloc 64 3);
   SCli true (OAlloc 100 0); SCli true (OGrow 1 50 true); SCli true (OResetBlk 0);
   SCli false (OAlloc 40 0); SCli false (OResetBlk 0);          (* stage and reclaim *)
   SCli true (OReset 1200); SCli true (OAlloc 8 3);
   SDrop; SDrop; SDrop].

Example demo_disciplined : run_discb true (sinit 4096 8192 1048576) demo_ops = true.
Proof. vm_compute. reflexivity. Qed.

Example demo_ok : Forall sop_ok demo_ops.
Proof. repeat constructor; cbn; try discriminate. Qed.

Example demo_ends_clean :
  addr_obs (srun true (sinit 4096 8192 1048576) demo_ops) = (0, 0) /\
  ss_bors (srun true (sinit 4096 8192 1048576) demo_ops) = [].
Proof. vm_compute. split; reflexivity. Qed.

(* in the middle of it: the frame borrow saved offset 1200 of arena 1, the resolver's block
   [0,1200) is below it, the frame's blocks (one of them moved by a grow) are above it, arena 0
   holds three blocks *)
Example demo_midpoint :
  let st := srun true (sinit 4096 8192 1048576) (firstn 14 demo_ops) in
  map bo_mark (ss_bors st) = [1200; 0; 0] /\
  map (fun b => (b_off b, b_len b)) (c_live (ss1 st)) = [(71200, 100); (71312, 70050); (0, 1200)] /\
  length (c_live (ss0 st)) = 3%nat.
Proof. vm_compute. repeat split; reflexivity. Qed.

(* the written entries at the midpoint: the source block in arena 0, the resolver's grown
   block and the frame's big block (moved by a grow, still carrying its pattern) in arena 1 *)
Example demo_written :
  map (fun e => (we_arena e, we_id e, we_seed e, we_len e))
      (grun true (sinit 4096 8192 1048576) (firstn 14 demo_ops) []) =
  [(true, 1, 9, 70000); (true, 0, 5, 1200); (false, 0, 11, 3000)].
Proof. vm_compute. reflexivity. Qed.

(* the same history again after re-initialisation gives the same trace *)
Example demo_twice :
  strace true (fst (sstep true (srun true (sinit 4096 8192 1048576) demo_ops) SInit)) demo_ops =
  strace false (sinit 4096 8192 1048576) demo_ops.
Proof. vm_compute. reflexivity. Qed.

(* The discipline is needed: a client of an inner borrow that resets below the borrow's
   saved offset frees the outer borrow's block (the model executes it, the boolean check
   rejects the history). *)
Definition rogue_ops : list sop :=
  [SBorrow CNone; SCli false (OAlloc 100 0); SCli false (OWrite 0 7);
   SBorrow (CScratch true); SCli false (OReset 0)].

Example rogue_frees_outer :
  run_discb true (sinit 0 0 65536) rogue_ops = false /\
  c_live (ss0 (srun true (sinit 0 0 65536) (firstn 4 rogue_ops))) <> [] /\
  c_live (ss0 (srun true (sinit 0 0 65536) rogue_ops)) = [].
Proof. vm_compute. repeat split; try reflexivity. discriminate. Qed.

(* the two generated scripts are well formed for concrete phase operations too *)
Example cli_script_concrete :
  expand w0 cli_script (mkPh [OAlloc 10 0] [(false, OAlloc 4 2); (true, OAlloc 8 3)] [(true, OAlloc 16 0); (false, OAllocZ 32 3)])
  = Some [SBorrow CNone; SCli false (OAlloc 10 0);
          SBorrow (CScratch false); SCli true (OAlloc 4 2); SCli false (OAlloc 8 3);
          SBorrow (CScratch false); SCli true (OAlloc 16 0); SCli false (OAllocZ 32 3);
          SDrop; SDrop; SDrop].
Proof. vm_compute. reflexivity. Qed.

(* a wiring that hands the resolver's borrow to the runtime while the frame borrow is live,
   or that uses one arena for persistent data and frame, is rejected *)
Example bad_wirings_rejected :
  expand w0 [WBorrow WNone; WParse 0; WBorrow (WHandle 0); WResolve 1 0; WBorrow (WHandle 0); WRun 0 1; WDrop; WDrop; WDrop]
         (mkPh [] [] []) = None /\
  expand w0 [WBorrow WNone; WParse 0; WBorrow (WHandle 0); WResolve 1 0; WBorrow WNone; WRun 0 2; WDrop; WDrop; WDrop]
         (mkPh [] [] []) = None.
Proof. vm_compute. split; reflexivity. Qed.
