(* C15 — child processes get exactly the configured argv, env, cwd and stdin; limits are
   enforced before anything is spawned.  Only statements, each closed by [exact] of a lemma
   proved in proofs/ProcProofs.v, with Print Assumptions beneath, and Examples (vm_compute)
   showing that the hypotheses are satisfiable and the boundaries are where the defaults say.

   Scope: the theorems are about theories/Proc.v (builder, validate, gate, hand-over).  The
   platform backend (std::process::Command, the OS) is the Section variable [spawn]; that the
   child really receives what [spawn] is applied to is observed by the correspondence run
   (lib/props/c15.py), not proved. *)
From Coq Require Import ZArith List Bool.
Require Import NS.theories.GenProc NS.theories.Proc NS.proofs.ProcProofs.
Import ListNotations.
Open Scope Z_scope.

(* validate accepts a command iff every documented limit holds and every name is valid:
   program / cwd / environment keys non-empty, no NUL byte anywhere, no '=' in a key, each
   text at most its cap (<=, so each cap rejects exactly above its bound), counts and byte
   totals at most their caps, timeout (given or default) positive and at most its cap. *)
Theorem C15_validate_iff_within_caps :
  forall c b, caps_wf c -> command_wf b ->
  ((exists s, validate c b = Ok s) <-> within_caps c b).
Proof. exact validate_iff_within_caps_lemma. Qed.
Print Assumptions C15_validate_iff_within_caps.

(* a rejection names a limit that is really violated *)
Theorem C15_validate_reject_reason :
  forall c b e, caps_wf c -> command_wf b ->
  validate c b = Err e -> reject_reason c b e /\ ~ within_caps c b.
Proof. exact validate_err_reason. Qed.
Print Assumptions C15_validate_reject_reason.

(* the specification handed to the backend is the builder, field for field: program,
   arguments (same list: same count, same order, same bytes), cwd, environment vector,
   stdin, output policies; the timeout is the configured one or the caps' default.
   Holds for every command and every caps record. *)
Theorem C15_spec_is_builder :
  forall c b s, validate c b = Ok s ->
  s_program s = c_program b /\ s_args s = c_args b /\ length (s_args s) = length (c_args b) /\
  s_cwd s = c_cwd b /\ s_env s = c_env b /\ s_stdin s = c_stdin b /\
  s_stdout s = c_stdout b /\ s_stderr s = c_stderr b /\
  s_timeout s = match c_timeout b with Some t => t | None => default_timeout_ms c end.
Proof. exact spec_fields. Qed.
Print Assumptions C15_spec_is_builder.

(* for every script fragment — builder calls and run statements in any order on
   `command(program)` — and every backend: the i-th specification the backend receives
   belongs to the i-th run statement, all calls before it were accepted, the gate was
   open, the command was within the caps, and the specification is exactly what those
   calls configured ([view]: arguments in call order, last cwd / stdin / stdout / stderr /
   timeout call, environment folded with last-write-wins).  Without a runtime error every
   run statement reached the backend exactly once. *)
Theorem C15_script_spawns_exactly_configured :
  forall (ok err : Type) (spawn : spec -> caps -> ok + err) pol program steps log e bf,
  caps_wf (process_caps pol) ->
  run_script ok err spawn pol program steps = (log, e, bf) ->
  (e = None -> length log = count_runs steps) /\
  forall i s, nth_error log i = Some s -> spawn_justified pol (command_new program) steps i s.
Proof. exact run_script_log. Qed.
Print Assumptions C15_script_spawns_exactly_configured.

(* argv[0] and the file to execute: the program string is handed over untouched, so the
   child's argv is program :: arguments and the lookup (absolute / relative to the configured
   cwd / PATH search) depends on the supplied program string and the last cwd call only.
   (What the OS makes of it is observed end to end: the helper reports argv[0] and
   /proc/self/exe.) *)
Theorem C15_argv0_and_lookup_untouched :
  forall c b s, validate c b = Ok s ->
  spec_argv s = c_program b :: c_args b /\ spec_lookup s = lookup_of (c_program b) (c_cwd b).
Proof. exact spec_exec_view. Qed.
Print Assumptions C15_argv0_and_lookup_untouched.

Theorem C15_script_program_args_cwd :
  forall p cs,
  c_program (view (command_new p) cs) = p /\
  c_args (view (command_new p) cs) = arg_texts cs /\
  c_cwd (view (command_new p) cs) = last_some cwd_of_call cs None.
Proof. exact view_exec_view. Qed.
Print Assumptions C15_script_program_args_cwd.

(* environment: replaying any sequence of env writes leaves no duplicate key, gives every
   key the value written last, and orders the keys by first write *)
Theorem C15_env_last_wins :
  forall ws,
  NoDup (map fst (env_fold [] ws)) /\
  (forall k, env_lookup k (env_fold [] ws) = last_write k ws None) /\
  map fst (env_fold [] ws) = first_keys [] ws.
Proof. exact env_fold_from_empty. Qed.
Print Assumptions C15_env_last_wins.

(* gate: the backend is applied to s iff allow_process holds and validate produced s *)
Theorem C15_gate_backend_invoked_iff :
  forall (ok err : Type) (spawn : spec -> caps -> ok + err) pol b s,
  fst (run_once ok err spawn pol b) = Some s <->
  allow_process pol = true /\ validate (process_caps pol) b = Ok s.
Proof. exact run_once_invoked. Qed.
Print Assumptions C15_gate_backend_invoked_iff.

Theorem C15_gate_denied :
  forall (ok err : Type) (spawn : spec -> caps -> ok + err) pol b,
  allow_process pol = false -> run_once ok err spawn pol b = (None, inl RtDenied).
Proof. exact run_once_denied. Qed.
Print Assumptions C15_gate_denied.

Theorem C15_gate_invalid_not_spawned :
  forall (ok err : Type) (spawn : spec -> caps -> ok + err) pol b e,
  validate (process_caps pol) b = Err e ->
  fst (run_once ok err spawn pol b) = None /\
  (allow_process pol = true -> run_once ok err spawn pol b = (None, inl (RtSpecInvalid e))).
Proof. exact run_once_invalid. Qed.
Print Assumptions C15_gate_invalid_not_spawned.

(* "not invoked" is meant literally: on those paths the result is the same for any backend *)
Theorem C15_gate_backend_irrelevant :
  forall (ok err : Type) (spawn1 spawn2 : spec -> caps -> ok + err) pol b,
  fst (run_once ok err spawn1 pol b) = None ->
  run_once ok err spawn1 pol b = run_once ok err spawn2 pol b.
Proof. exact run_once_backend_irrelevant. Qed.
Print Assumptions C15_gate_backend_irrelevant.

Theorem C15_gate_script_denied :
  forall (ok err : Type) (spawn : spec -> caps -> ok + err) pol program steps log e bf,
  caps_wf (process_caps pol) -> allow_process pol = false ->
  run_script ok err spawn pol program steps = (log, e, bf) -> log = [].
Proof. exact run_script_denied. Qed.
Print Assumptions C15_gate_script_denied.

(* ------------------------------------------------------------------ generated tables *)

(* the rejection kinds of the model are the SpecInvalid messages of the source, in the
   order in which ProcessCommand::validate first uses them *)
Example C15_messages_match_source : map verr_message all_verrs = validate_messages.
Proof. vm_compute. reflexivity. Qed.

(* the hypotheses of the theorems above hold for the shipped defaults and for every builder a
   script can construct *)
Theorem C15_default_caps_wf : caps_wf default_caps.
Proof. exact default_caps_wf. Qed.
Print Assumptions C15_default_caps_wf.

Theorem C15_script_builders_wf : forall p cs, command_wf (view (command_new p) cs).
Proof. exact (fun p cs => view_wf (command_new p) cs (command_new_wf p)). Qed.
Print Assumptions C15_script_builders_wf.

(* ------------------------------------------------------------------ non-vacuity *)

Definition bytes_of (n : Z) (b : Z) : str := repeat b (Z.to_nat n).
Definition ex_prog : str := [47; 98; 105; 110; 47; 120].                 (* /bin/x *)
Definition ex_arg1 : str := [97; 32; 98; 32; 32; 34; 39; 36; 72; 79; 77; 69; 42; 59; 10; 124]. (* a, space, b, two spaces, double quote, quote, $HOME, star, semicolon, newline, bar *)
Definition ex_arg2 : str := [].                                          (* empty argument *)
Definition ex_arg3 : str := [195; 169; 240; 159; 152; 128].              (* é and a 4-byte char *)
Definition kA : str := [65].
Definition kB : str := [66].

Definition ex_steps : list step :=
  [SCall (CallArg ex_arg1); SCall (CallEnv (Some kA) [49]); SCall (CallArg ex_arg2);
   SCall (CallEnv (Some kB) [50]); SCall (CallCwd (Some [47; 116; 109; 112]));
   SCall (CallEnv (Some kA) [51]); SCall (CallStdinText [104; 105; 10]);
   SCall CallStdoutCapture; SCall (CallTimeoutMs (Some (NumInt 5000)));
   SCall (CallArg ex_arg3); SRun].

Definition spawn_ok (s : spec) (c : caps) : unit + unit := inl tt.

Example C15_ex_script_spawns :
  run_script unit unit spawn_ok native_default_policy ex_prog ex_steps =
  ([mkSpec ex_prog [ex_arg1; ex_arg2; ex_arg3] (Some [47; 116; 109; 112])
           [(kA, [51]); (kB, [50])] (StdinText [104; 105; 10]) OutCapture OutInherit 5000],
   None,
   mkCommand ex_prog [ex_arg1; ex_arg2; ex_arg3] (Some [47; 116; 109; 112])
             [(kA, [51]); (kB, [50])] (StdinText [104; 105; 10]) OutCapture OutInherit (Some 5000)).
Proof. vm_compute. reflexivity. Qed.

Example C15_ex_script_denied :
  run_script unit unit spawn_ok wasm_default_policy ex_prog ex_steps =
  ([], Some RtDenied,
   mkCommand ex_prog [ex_arg1; ex_arg2; ex_arg3] (Some [47; 116; 109; 112])
             [(kA, [51]); (kB, [50])] (StdinText [104; 105; 10]) OutCapture OutInherit (Some 5000)).
Proof. vm_compute. reflexivity. Qed.

(* every default cap at its bound is accepted, one above is rejected with that cap's kind.
   The sizes are taken from the generated default_caps (today 64 KiB per argument, 256 KiB of
   arguments, 256 arguments, 1 MiB of stdin, ...), not written as literals. *)
Definition is_ok (r : result spec) : bool := match r with Ok _ => true | Err _ => false end.
Definition cmd0 : command := command_new ex_prog.
Definition with_args (l : list str) : command := fold_left push_arg l cmd0.
Definition dc := default_caps.

Example C15_ex_arg_at_cap :
  is_ok (validate dc (with_args [bytes_of (max_arg_bytes dc) 97])) = true /\
  validate dc (with_args [bytes_of (max_arg_bytes dc + 1) 97]) = Err VArgument.
Proof. split; vm_compute; reflexivity. Qed.

Definition args_filling_total : list str :=
  repeat (bytes_of (max_arg_bytes dc) 97) (Z.to_nat (max_total_arg_bytes dc / max_arg_bytes dc)) ++
  [bytes_of (max_total_arg_bytes dc mod max_arg_bytes dc) 97].

Example C15_ex_arg_total_at_cap :
  is_ok (validate dc (with_args args_filling_total)) = true /\
  validate dc (with_args (args_filling_total ++ [[97]])) = Err VArgBytes.
Proof. split; vm_compute; reflexivity. Qed.

Example C15_ex_arg_count_at_cap :
  is_ok (validate dc (with_args (repeat [97] (Z.to_nat (max_args dc))))) = true /\
  validate dc (with_args (repeat [97] (S (Z.to_nat (max_args dc))))) = Err VArgCount.
Proof. split; vm_compute; reflexivity. Qed.

Example C15_ex_program_cap_and_names :
  is_ok (validate dc (command_new (bytes_of (max_program_bytes dc) 97))) = true /\
  validate dc (command_new (bytes_of (max_program_bytes dc + 1) 97)) = Err VProgram /\
  validate dc (command_new []) = Err VProgram /\
  validate dc (command_new [97; 0; 98]) = Err VProgram /\
  validate dc (with_args [[97; 0]]) = Err VArgument /\
  validate dc (set_cwd cmd0 []) = Err VCwd /\
  validate dc (set_cwd cmd0 (bytes_of (max_cwd_bytes dc + 1) 97)) = Err VCwd /\
  is_ok (validate dc (set_cwd cmd0 (bytes_of (max_cwd_bytes dc) 97))) = true.
Proof. repeat split; vm_compute; reflexivity. Qed.

Example C15_ex_env_names_and_caps :
  validate dc (set_env cmd0 [] [49]) = Err VEnvKey /\
  validate dc (set_env cmd0 [65; 61; 66] [49]) = Err VEnvKey /\
  validate dc (set_env cmd0 [65; 0] [49]) = Err VEnvKey /\
  validate dc (set_env cmd0 kA [49; 0]) = Err VEnvValue /\
  is_ok (validate dc (set_env cmd0 kA [61; 61])) = true /\
  is_ok (validate dc (set_env cmd0 kA [])) = true /\
  is_ok (validate dc (set_env cmd0 (bytes_of (max_env_key_bytes dc) 65)
                                  (bytes_of (max_env_value_bytes dc) 97))) = true /\
  validate dc (set_env cmd0 (bytes_of (max_env_key_bytes dc + 1) 65) [49]) = Err VEnvKey /\
  validate dc (set_env cmd0 kA (bytes_of (max_env_value_bytes dc + 1) 97)) = Err VEnvValue.
Proof. repeat split; vm_compute; reflexivity. Qed.

Example C15_ex_stdin_and_timeout :
  is_ok (validate dc (set_stdin cmd0 (StdinText (bytes_of (max_stdin_bytes dc) 97)))) = true /\
  validate dc (set_stdin cmd0 (StdinText (bytes_of (max_stdin_bytes dc + 1) 97))) = Err VStdin /\
  validate dc (set_stdin cmd0 (StdinText [0])) = Err VStdin /\
  validate dc (set_timeout cmd0 0) = Err VTimeoutZero /\
  is_ok (validate dc (set_timeout cmd0 (max_timeout_ms dc))) = true /\
  validate dc (set_timeout cmd0 (max_timeout_ms dc + 1)) = Err VTimeoutMax.
Proof. repeat split; vm_compute; reflexivity. Qed.

(* env written several times: last value per key, first-write order, no duplicates *)
Example C15_ex_env_last_wins :
  env_fold [] [(kA, [49]); (kB, [50]); (kA, [51]); (kB, []); (kA, [52])] = [(kA, [52]); (kB, [])].
Proof. vm_compute. reflexivity. Qed.

(* `timeout_ms(1e12)`: the cast saturates, validate then rejects it *)
Example C15_ex_timeout_saturates :
  fst (fst (run_script unit unit spawn_ok native_default_policy ex_prog
             [SCall (CallTimeoutMs (Some (NumInt 1000000000000))); SRun])) = [] /\
  snd (fst (run_script unit unit spawn_ok native_default_policy ex_prog
             [SCall (CallTimeoutMs (Some (NumInt 1000000000000))); SRun])) = Some (RtSpecInvalid VTimeoutMax).
Proof. split; vm_compute; reflexivity. Qed.
