(* C16 — captured child output is complete or an error, never silently truncated.
   Only statements, each closed by [exact] of a lemma of proofs/CaptureProofs.v.
   Model: theories/Capture.v (transition system over all schedules); constants and
   source-shape facts: theories/GenCapture.v (regenerated from src/sys/process_common.rs). *)
From Coq Require Import ZArith List Bool.
Require Import NS.theories.GenCapture NS.theories.Capture NS.proofs.CaptureProofs.
Import ListNotations.
Open Scope Z_scope.

(* The control flow the model hard-codes is the one the source has today: loop order
   flag -> try_wait -> deadline -> sleep, joins stdout before stderr on both paths, the reader
   breaks after flagging, terminate_child kills then waits. *)
Theorem C16_source_shape_as_modelled :
  wait_loop_order = [WFlagCheck; WTryWait; WDeadlineCheck; WSleepStep] /\
  err_join_order = [S1; S2] /\ ok_join_order = [S1; S2] /\
  ovf_breaks = true /\ kill_then_wait = true.
Proof. exact source_shape_as_modelled. Qed.
Print Assumptions C16_source_shape_as_modelled.

(* FULL STATEMENT.  For every configuration (policies, cap >= 0, timeout, poll interval, pipe
   capacity, what the child writes to each stream, its exit code) and EVERY schedule (any
   interleaving of child, two readers, waiter and clock; any split of the child's writes and of
   the readers' reads; any reaction of the child to a closed pipe): if the waiter has returned r,
     r = Ok(o1,o2,code)  =>  code is the child's exit code; each captured stream is exactly what
                             the child writes to it (so it fits the cap and is valid UTF-8, and
                             nothing of the other stream is in it); uncaptured streams are None;
     r = Err(OutputLimitExceeded s) => s is captured and the child's s-output exceeds the cap;
     r = Err(InvalidUtf8 s) => s is captured and its output is invalid UTF-8, or the OTHER
                             stream is captured and exceeds the cap (second disjunct impossible
                             with the repaired re-check: C16_error_kind_exact);
   and (reaped_spec) the child is no longer running and its status has been collected; Ok only
   after the child exited by itself and was never killed; Err Timeout only after kill() and only
   if the deadline test fired at a clock value >= timeout. *)
Theorem C16_capture_complete_or_error :
  forall c sched r,
  cfg_ok c ->
  w (run c sched (init c)) = WDone r ->
  result_spec c r /\ reaped_spec c (run c sched (init c)) r.
Proof. exact capture_complete_or_error_lemma. Qed.
Print Assumptions C16_capture_complete_or_error.

(* the same for the inductive reachability relation (schedules that never name a disabled step) *)
Theorem C16_capture_complete_or_error_reachable :
  forall c st r,
  cfg_ok c -> reachable c st -> w st = WDone r -> result_spec c r /\ reaped_spec c st r.
Proof. exact capture_reachable_lemma. Qed.
Print Assumptions C16_capture_complete_or_error_reachable.

Theorem C16_child_reaped :
  forall c sched r,
  cfg_ok c -> w (run c sched (init c)) = WDone r ->
  let st := run c sched (init c) in
  reaped st = true /\ cs st <> CRun /\
  (match r with ROk _ _ _ => cs st = CExited /\ kill_sent st = false | _ => True end) /\
  (r = RErr ETimeout -> kill_sent st = true) /\
  (kill_sent st = true \/ cs st = CExited \/ cs st = CSigpipe).
Proof. exact child_reaped_lemma. Qed.
Print Assumptions C16_child_reaped.

(* The clauses of the property, one by one. *)
Theorem C16_never_truncated :
  forall c sched o1 o2 code s,
  cfg_ok c -> w (run c sched (init c)) = WDone (ROk o1 o2 code) ->
  captured c s = true ->
  (match s with S1 => o1 | S2 => o2 end) = Some (out c s) /\
  len (out c s) <= cap c /\ utf8_valid (out c s) = true.
Proof. exact never_truncated_lemma. Qed.
Print Assumptions C16_never_truncated.

Theorem C16_uncaptured_is_null :
  forall c sched o1 o2 code s,
  cfg_ok c -> w (run c sched (init c)) = WDone (ROk o1 o2 code) ->
  captured c s = false -> (match s with S1 => o1 | S2 => o2 end) = None.
Proof. exact uncaptured_is_null_lemma. Qed.
Print Assumptions C16_uncaptured_is_null.

Theorem C16_over_limit_is_error :
  forall c sched r s,
  cfg_ok c -> w (run c sched (init c)) = WDone r ->
  captured c s = true -> cap c < len (out c s) -> exists e, r = RErr e.
Proof. exact over_limit_is_error_lemma. Qed.
Print Assumptions C16_over_limit_is_error.

Theorem C16_invalid_utf8_is_error :
  forall c sched r s,
  cfg_ok c -> w (run c sched (init c)) = WDone r ->
  captured c s = true -> utf8_valid (out c s) = false -> exists e, r = RErr e.
Proof. exact invalid_utf8_is_error_lemma. Qed.
Print Assumptions C16_invalid_utf8_is_error.

Theorem C16_error_is_justified :
  forall c sched e,
  cfg_ok c -> w (run c sched (init c)) = WDone (RErr e) ->
  match e with
  | EOLE s => captured c s = true /\ cap c < len (out c s)
  | EUtf8 s => captured c s = true /\
               (utf8_valid (out c s) = false \/
                (captured c (other s) = true /\ cap c < len (out c (other s))))
  | ETimeout => exists t, g_tmo (run c sched (init c)) = Some t /\ timeout c <= t /\
                          t <= clock (run c sched (init c))
  end.
Proof. exact error_is_justified_lemma. Qed.
Print Assumptions C16_error_is_justified.

(* "deadline first => Err Timeout": once the deadline test fires nothing can turn the run into
   anything else; likewise once the wait loop has seen the overflow flag. *)
Theorem C16_deadline_forces_timeout :
  forall c st,
  w st = WDeadline -> timeout c <= clock st ->
  exists st', step c st Waiter = Some st' /\
    forall sched r, w (run c sched st') = WDone r -> r = RErr ETimeout.
Proof. exact deadline_forces_timeout_lemma. Qed.
Print Assumptions C16_deadline_forces_timeout.

Theorem C16_flag_seen_forces_limit_error :
  forall c st,
  w st = WFlag -> flag st <> 0 ->
  exists st', step c st Waiter = Some st' /\
    forall sched r, w (run c sched st') = WDone r -> r = RErr (EOLE (from_code (flag st))).
Proof. exact flag_seen_forces_limit_error_lemma. Qed.
Print Assumptions C16_flag_seen_forces_limit_error.

(* The executable judgement the model executable applies to outcomes observed on the
   implementation is implied by the theorem (so "observed outcome rejected by outcome_ok" means
   "observed outcome impossible in the model"). *)
Theorem C16_outcome_ok_complete :
  forall c sched r,
  cfg_ok c -> w (run c sched (init c)) = WDone r -> outcome_ok c r = true.
Proof. exact outcome_ok_complete_lemma. Qed.
Print Assumptions C16_outcome_ok_complete.

(* The protocol cannot get stuck: from every reachable state some schedule ends the run. *)
Theorem C16_can_always_finish :
  forall c st, cfg_ok c -> reachable c st -> exists sched r, w (run c sched st) = WDone r.
Proof. exact can_always_finish_lemma. Qed.
Print Assumptions C16_can_always_finish.

(* The error KIND.  join_capture re-reads the overflow flag after the join.  GenCapture records
   which of two shapes the source has:
     RecheckOwn  fail only if the flag holds the joined stream's own code (source as first read);
     RecheckAny  fail on any recorded overflow, reported for the recorded stream
                 (fixes/C16-utf8-misattributed.patch).
   Everything above holds for both.  The exact InvalidUtf8 clause needs RecheckAny: *)
Theorem C16_error_kind_exact :
  forall c sched s,
  join_recheck_mode = RecheckAny ->
  cfg_ok c ->
  w (run c sched (init c)) = WDone (RErr (EUtf8 s)) ->
  captured c s = true /\ utf8_valid (out c s) = false.
Proof. exact error_kind_exact_lemma. Qed.
Print Assumptions C16_error_kind_exact.

(* ... and with RecheckOwn it is refuted: both streams over the limit, stderr's reader wins the
   compare-exchange, stdout's kept prefix ends inside a multi-byte character, the child has
   exited: InvalidUtf8(stdout) although the child's stdout is valid UTF-8 (reproduced on the
   implementation: finding key utf8-misattributed).  Never an Ok, but the wrong kind. *)
Theorem C16_error_kind_refuted_with_own_code_recheck :
  join_recheck_mode = RecheckOwn ->
  utf8_valid (out1 mis_cfg) = true /\
  run_outcome mis_cfg mis_sched = Finished (RErr (EUtf8 S1)).
Proof. exact misattributed_utf8_reachable. Qed.
Print Assumptions C16_error_kind_refuted_with_own_code_recheck.

Theorem C16_error_kind_witness_repaired :
  join_recheck_mode = RecheckAny ->
  run_outcome mis_cfg mis_sched = Finished (RErr (EOLE S2)).
Proof. exact misattribution_repaired. Qed.
Print Assumptions C16_error_kind_witness_repaired.

(* Host level: which ProcessCaps field feeds which quantity of the protocol (regenerated from
   run_host_process and ProcessCommand::validate), and the deadline of a command. *)
Theorem C16_cap_routing :
  (forall s, reader_cap_field s = F_max_capture_bytes_per_stream) /\
  poll_field = F_wait_poll_ms /\
  timeout_fallback_field = F_default_timeout_ms /\
  timeout_upper_field = F_max_timeout_ms /\
  wait_deadline_is_spec_timeout = true.
Proof. exact cap_routing_lemma. Qed.
Print Assumptions C16_cap_routing.

(* no explicit timeout => deadline = default_timeout_ms *)
Theorem C16_unset_timeout_is_default :
  forall hc, 0 < hc F_default_timeout_ms <= hc F_max_timeout_ms ->
  effective_timeout hc None = Some (hc F_default_timeout_ms).
Proof. exact unset_timeout_is_default_lemma. Qed.
Print Assumptions C16_unset_timeout_is_default.

(* an explicit timeout is used as it is; 0 and anything above max_timeout_ms is refused *)
Theorem C16_explicit_timeout :
  forall hc t, effective_timeout hc (Some t) =
  if (t =? 0) || (hc F_max_timeout_ms <? t) then None else Some t.
Proof. exact explicit_timeout_lemma. Qed.
Print Assumptions C16_explicit_timeout.

Theorem C16_mk_cfg_fields :
  forall hc b pc o1 o2 code c,
  mk_cfg hc b pc o1 o2 code = Some c ->
  pol1 c = b_pol1 b /\ pol2 c = b_pol2 b /\
  cap c = hc F_max_capture_bytes_per_stream /\ poll c = hc F_wait_poll_ms /\
  timeout c = (match b_timeout b with Some t => t | None => hc F_default_timeout_ms end) /\
  timeout c <> 0 /\ timeout c <= hc F_max_timeout_ms /\
  out1 c = o1 /\ out2 c = o2 /\ ecode c = code.
Proof. exact mk_cfg_fields_lemma. Qed.
Print Assumptions C16_mk_cfg_fields.

Theorem C16_unset_timeout_deadline :
  forall hc b pc o1 o2 code c sched,
  mk_cfg hc b pc o1 o2 code = Some c -> b_timeout b = None -> cfg_ok c ->
  (w (run c sched (init c)) = WDone (RErr ETimeout) ->
   exists t, g_tmo (run c sched (init c)) = Some t /\ hc F_default_timeout_ms <= t) /\
  (forall st, w st = WDeadline -> hc F_default_timeout_ms <= clock st ->
   exists st', step c st Waiter = Some st' /\
     forall sched' r, w (run c sched' st') = WDone r -> r = RErr ETimeout).
Proof. exact unset_timeout_deadline_lemma. Qed.
Print Assumptions C16_unset_timeout_deadline.

(* The hypotheses are satisfiable and every kind of outcome occurs. *)
Definition ex_cfg (n1 n2 : nat) (tmo : Z) : cfg :=
  {| pol1 := PCapture; pol2 := PCapture; cap := 4; timeout := tmo; poll := 1; pcap := 8;
     out1 := repeat 97 n1; out2 := repeat 98 n2; ecode := Some 7 |}.

Example C16_ex_ok :
  run_outcome (ex_cfg 4 3 5)
    [Child (CWrite S1 4); Child (CWrite S2 3); Child CExit; Reader S1 4; Reader S2 3;
     Reader S1 0; Reader S1 0; Reader S2 0; Reader S2 0; Waiter; Waiter; Waiter; Waiter]
  = Finished (ROk (Some [97; 97; 97; 97]) (Some [98; 98; 98]) (Some 7)).
Proof. vm_compute. reflexivity. Qed.

Example C16_ex_limit_seen_by_wait_loop :
  run_outcome (ex_cfg 5 0 5)
    [Child (CWrite S1 5); Reader S1 5; Reader S1 0; Reader S1 0; Waiter; Waiter; Waiter;
     Reader S2 0; Reader S2 0; Waiter; Waiter]
  = Finished (RErr (EOLE S1)).
Proof. vm_compute. reflexivity. Qed.

Example C16_ex_limit_seen_by_join_recheck :
  run_outcome (ex_cfg 5 0 5)
    [Waiter; Child (CWrite S1 5); Child CExit; Waiter; Reader S1 5; Reader S1 0; Reader S1 0; Waiter]
  = Finished (RErr (EOLE S1)).
Proof. vm_compute. reflexivity. Qed.

Example C16_ex_timeout :
  run_outcome (ex_cfg 1 0 2)
    [Waiter; Waiter; Waiter; Tick; Tick; Waiter; Waiter; Waiter; Waiter; Waiter; Waiter;
     Reader S1 0; Reader S1 0; Reader S2 0; Reader S2 0; Waiter; Waiter]
  = Finished (RErr ETimeout).
Proof. vm_compute. reflexivity. Qed.

(* default 300 ms, maximum 3000 ms, poll 7 ms: an unset timeout is 300, not 3000 and not 7 *)
Example C16_ex_unset_timeout :
  effective_timeout (hc_of_list [4096; 4096; 256; 65536; 262144; 128; 256; 16384; 131072; 1048576; 100; 300; 3000; 7]) None
  = Some 300.
Proof. vm_compute. reflexivity. Qed.
