(* C17 — read_line delivers successive input lines, whatever the chunking.
   Only statements, each closed by [exact] of a lemma proved in proofs/ReadLineProofs.v. *)
From Coq Require Import ZArith List Bool.
Require Import NS.theories.GenReadLine NS.theories.ReadLine NS.proofs.ReadLineProofs.
Import ListNotations.
Open Scope Z_scope.

(* The deciding theorem.  For every input text (any bytes, any line lengths, with or
   without a final newline) and every schedule (how many bytes the operating system hands
   over at each read(2): any positive amount up to the count requested), a fresh process
   that calls read_line k times gets, in order, the pieces of the text between newlines
   (byte 10), without the newline; once the pieces are used up — after the partial last
   line when the text does not end in a newline — every call returns the empty string.
   [run] returning [Some] says in addition that every call terminated within its fuel and
   that no call faulted: no read(2) was given room outside the buffer's allocation, no
   `cap - len` went below zero, including lines much longer than the initial 8 KiB. *)
Theorem C17_read_line_successive : forall text sched k,
  option_map (map fst) (run text sched k) = Some (expected text k).
Proof. exact read_line_successive_lemma. Qed.
Print Assumptions C17_read_line_successive.

(* Spelled out without the reference function: for a text made of complete lines [ls]
   (each followed by a newline) and a remainder [last] without newline (possibly empty),
   the calls return the lines in order, then the remainder, then "" for ever
   ([take_pad k l]: the first k elements of l, padded with ""). *)
Theorem C17_lines_then_remainder_then_empty : forall ls last sched k,
  Forall (fun l => ~ In 10 l) ls -> ~ In 10 last ->
  option_map (map fst) (run (unlines_with ls last) sched k) = Some (take_pad k (ls ++ [last])).
Proof. exact read_line_lines_then_remainder. Qed.
Print Assumptions C17_lines_then_remainder_then_empty.

(* The same with the input given as the pieces handed out by the operating system. *)
Theorem C17_read_line_successive_chunks : forall (chunks : list (list Z)) k,
  option_map (map fst) (run (concat chunks) (map zlen chunks) k) = Some (expected (concat chunks) k).
Proof. exact read_line_successive_chunks. Qed.
Print Assumptions C17_read_line_successive_chunks.

(* One call, from any state the reader can be in (PENDING never longer than rl_read_max),
   with the fuel read_line computes for itself: it returns the first line of what is
   pending followed by what is still on the stream, and what it leaves pending followed by
   what it leaves on the stream is exactly the rest of that text. *)
Theorem C17_one_call : forall pending s,
  zlen pending <= rl_read_max ->
  exists p' s' tr,
    read_line pending s = Line (first_line (pending ++ s_rem s)) p' s' tr /\
    p' ++ s_rem s' = after_line (pending ++ s_rem s) /\
    zlen p' <= rl_read_max /\
    (length (s_rem s') <= length (s_rem s))%nat.
Proof. exact read_line_spec. Qed.
Print Assumptions C17_one_call.

(* What [expected] means: split_lines is the split of the text at byte 10 — joining its
   pieces with byte 10 gives the text back, no piece contains a 10, and there is one piece
   more than there are newlines; past the last piece the expected result is "". *)
Theorem C17_reference_is_the_split : forall t,
  join_nl (split_lines t) = t /\
  Forall (fun l => ~ In 10 l) (split_lines t) /\
  length (split_lines t) = S (length (filter (fun c => c =? 10) t)) /\
  (forall k, (length (split_lines t) <= k)%nat -> expected_line t k = []).
Proof. exact reference_is_the_split. Qed.
Print Assumptions C17_reference_is_the_split.

(* The one-pass form of [expected] that the extracted model prints is the same list. *)
Theorem C17_expected_fast_eq : forall text k, expected_fast text k = expected text k.
Proof. exact expected_fast_eq. Qed.
Print Assumptions C17_expected_fast_eq.

(* The terminator is "\n" alone (the code searches for b'\n' and cuts there; the
   documentation only says "reads a single line"): a line that ends in "\r\n" is returned
   with its "\r". *)
Theorem C17_crlf_keeps_cr : forall l rest, ~ In 10 l ->
  expected_line (l ++ 13 :: 10 :: rest) 0 = l ++ [13].
Proof. exact crlf_keeps_cr. Qed.
Print Assumptions C17_crlf_keeps_cr.

(* The schedule really ranges over every way of splitting: whatever positive number of
   bytes n (at most the count requested and the bytes left) one wants a read to return,
   the schedule entry n makes it return exactly those n bytes; an entry larger than the
   count requested is served over several reads. *)
Theorem C17_every_split_is_a_schedule : forall rem sched count n,
  1 <= n <= count -> n <= zlen rem ->
  sys_read (mkStream rem (n :: sched)) count = (ztake n rem, mkStream (zdrop n rem) sched).
Proof. exact sys_read_any. Qed.
Print Assumptions C17_every_split_is_a_schedule.

Theorem C17_large_piece_is_clipped : forall rem sched count n,
  1 <= count < n -> n <= zlen rem ->
  sys_read (mkStream rem (n :: sched)) count =
  (ztake count rem, mkStream (zdrop count rem) ((n - count) :: sched)).
Proof. exact sys_read_clipped. Qed.
Print Assumptions C17_large_piece_is_clipped.

(* Non-vacuity.  "a\nbc\n" in one piece; byte by byte; a partial last line; an empty line;
   "é" (195 169) split across two reads; CRLF. *)
Example ex_one_piece :
  run [97; 10; 98; 99; 10] [5] 4 =
  Some [([97], [(8192, 5)]); ([98; 99], []); ([], [(8192, 0)]); ([], [(8192, 0)])].
Proof. vm_compute. reflexivity. Qed.

Example ex_byte_by_byte :
  option_map (map fst) (run [97; 10; 98; 99; 10] [1; 1; 1; 1; 1] 3) = Some [[97]; [98; 99]; []].
Proof. vm_compute. reflexivity. Qed.

Example ex_partial_last_line_empty_line_multibyte_crlf :
  option_map (map fst) (run [195; 169; 13; 10; 10; 120] [1; 2; 1] 5) =
  Some [[195; 169; 13]; []; [120]; []; []].
Proof. vm_compute. reflexivity. Qed.

(* A line of 20000 bytes followed by a short one, everything on offer at once: the buffer
   grows 8192 -> 16384 -> 32768, every read asks for at most 8192 bytes, the second line is
   served from what was read past the first newline. *)
Example ex_long_line :
  option_map (map (fun r => (zlen (fst r), snd r))) (run (repeat 120 (Z.to_nat 20000) ++ [10; 121; 10]) [] 3) =
  Some [(20000, [(8192, 8192); (8192, 8192); (8192, 3619)]); (1, []); (0, [(8192, 0)])].
Proof. vm_compute. reflexivity. Qed.
