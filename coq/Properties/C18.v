(* C18 — exceeding an analysis budget only disables optimisation, never correctness.
   Only statements, each closed by [exact] of a lemma proved in proofs/LimitsProofs.v, with
   Print Assumptions beneath; Examples show that the hypotheses are satisfiable and pin the
   effective thresholds of the configuration the model was written against. *)
From Coq Require Import ZArith List Bool Permutation Sorted String Lia.
Require Import NS.theories.GenLimits NS.theories.Limits NS.proofs.LimitsProofs.
Import ListNotations.
Open Scope Z_scope.

(* ---------------------------------------------------------------- tie to the source text *)

(* The staged order, the cap each stage compares with and the comparison operator are the
   ones read from limits.rs; the caps record has the fields (and Rust types) of AnalysisCaps;
   the summary budget is max_summary_events; the over-limit branch of the gate uses
   DEFAULT_CAPS, emits exactly one diagnostic (a warning of category "analysis"), clears the
   plan and returns before any analysis is started; in runtime.rs the plan is only stored,
   cleared, returned by its accessor and consulted by function_is_pruned / stmt_is_pruned;
   the derived bounds use u64 and the saturating operations modelled (plus the one unchecked
   `+`); run_with_analysis installs the binding facts and the plan option unconditionally. *)
Theorem C18_model_follows_source :
  map (fun m => (metric_name m, cap_field_name (metric_cap m), ">"%string)) all_metrics
    = GenLimits.stage_order /\
  map (fun f => (cap_field_name f, cap_field_type f)) all_cap_fields = GenLimits.caps_fields /\
  GenLimits.summary_budget_cap = cap_field_name (metric_cap MSummary) /\
  (GenLimits.gate_caps_expr = "limits::DEFAULT_CAPS"%string /\
   GenLimits.gate_limit_emits = [("Warning"%string, "analysis"%string)] /\
   GenLimits.gate_limit_other_emits = 0 /\
   GenLimits.gate_limit_clears_plan = true /\
   GenLimits.gate_limit_returns = true /\
   GenLimits.gate_analyses_after_branch = true) /\
  GenLimits.runtime_plan_users =
    ["new_with_host_policy"; "run_with_analysis"; "function_is_pruned"; "stmt_is_pruned";
     "optimization_plan"]%string /\
  (GenLimits.summary_event_bound_types = summary_bound_types_modelled /\
   GenLimits.summary_event_bound_ops = summary_bound_ops_modelled /\
   GenLimits.liveness_event_bound_types = liveness_bound_types_modelled /\
   GenLimits.liveness_event_bound_ops = liveness_bound_ops_modelled) /\
  (GenLimits.run_with_analysis_stmts = run_with_analysis_modelled /\
   GenLimits.run_with_analysis_branches = 0).
Proof.
  exact (conj stage_order_matches_source (conj caps_fields_match_source
        (conj summary_budget_is_summary_cap (conj gate_shape_matches_source
        (conj runtime_plan_users_match_source (conj derived_bound_arithmetic_matches_source
         run_with_analysis_matches_source)))))).
Qed.
Print Assumptions C18_model_follows_source.

Theorem C18_default_caps_wf : caps_wf default_caps.
Proof. exact default_caps_wf. Qed.
Print Assumptions C18_default_caps_wf.

(* ---------------------------------------------------------------- the gate *)

(* Over a limit (under DEFAULT_CAPS): Resolver.errors is the earlier diagnostics followed by
   exactly one resource-limit warning naming the first exceeded limit; no analysis warning is
   added; the plan is None; the program is accepted iff it was accepted before; and none of
   this depends on what the analyses would have computed. *)
Theorem C18_over_limit_only_disables :
  forall earlier c a l,
  first_exceeded_limit c default_caps = Some l ->
  emit_analysis_warnings earlier c a = (earlier ++ [DResourceLimit l], None) /\
  accepted (fst (emit_analysis_warnings earlier c a)) = accepted earlier /\
  filter is_resource_limit (fst (emit_analysis_warnings earlier c a))
    = filter is_resource_limit earlier ++ [DResourceLimit l] /\
  filter is_analysis_warning (fst (emit_analysis_warnings earlier c a))
    = filter is_analysis_warning earlier /\
  diag_severity (DResourceLimit l) = SevWarning /\
  forall a', emit_analysis_warnings earlier c a' = emit_analysis_warnings earlier c a.
Proof. exact (over_limit_only_disables_lemma default_caps). Qed.
Print Assumptions C18_over_limit_only_disables.

(* Below every limit the gate returns the full analysis result untouched: all warnings (a
   permutation of what the analyses produced, sorted by statement, stable) after the earlier
   diagnostics, no resource-limit warning, the plan exactly as built. *)
Theorem C18_below_limit_unchanged :
  forall earlier c a,
  first_exceeded_limit c default_caps = None ->
  emit_analysis_warnings earlier c a = (earlier ++ analysis_diags a, Some (a_plan a)) /\
  Permutation (sort_by_stmt (warning_records a)) (warning_records a) /\
  Sorted by_stmt (sort_by_stmt (warning_records a)) /\
  (forall s, filter (fun r => snd r =? s) (sort_by_stmt (warning_records a))
             = filter (fun r => snd r =? s) (warning_records a)) /\
  filter is_resource_limit (fst (emit_analysis_warnings earlier c a))
    = filter is_resource_limit earlier /\
  accepted (fst (emit_analysis_warnings earlier c a)) = accepted earlier.
Proof. exact (below_limit_unchanged_lemma default_caps). Qed.
Print Assumptions C18_below_limit_unchanged.

Theorem C18_plan_absent_iff_over_limit :
  forall earlier c a,
  snd (emit_analysis_warnings earlier c a) = None <-> first_exceeded_limit c default_caps <> None.
Proof. exact (gate_plan_iff default_caps). Qed.
Print Assumptions C18_plan_absent_iff_over_limit.

(* ---------------------------------------------------------------- which limit is reported *)

(* The reported limit is the first stage, in the source order functions, locals, scopes,
   statements, cfg ops, ops in one function, cfg blocks, blocks in one function, direct user
   calls, summary events, liveness events, whose observation is above its cap; it carries that
   observation and that cap.  For any caps. *)
Theorem C18_first_limit_order :
  forall c k l,
  first_exceeded_limit c k = Some l <->
  trips c k (l_metric l) = true /\
  (forall m, metric_index m < metric_index (l_metric l) -> trips c k m = false) /\
  observed c (l_metric l) = Some (l_observed l) /\
  l_limit l = cap_value k (metric_cap (l_metric l)).
Proof. exact first_limit_order_lemma. Qed.
Print Assumptions C18_first_limit_order.

Theorem C18_reported_is_minimal :
  forall c k l m,
  first_exceeded_limit c k = Some l -> trips c k m = true ->
  metric_index (l_metric l) <= metric_index m.
Proof. exact reported_is_minimal. Qed.
Print Assumptions C18_reported_is_minimal.

(* No limit is reported exactly when every observation is within its cap (`>` is strict: a
   count equal to its cap passes). *)
Theorem C18_no_limit_iff_all_within :
  forall c k,
  first_exceeded_limit c k = None <->
  forall m o, observed c m = Some o -> o <= cap_value k (metric_cap m).
Proof. exact no_limit_all_within. Qed.
Print Assumptions C18_no_limit_iff_all_within.

Theorem C18_stage_trips_iff :
  forall c k m,
  trips c k m = true <-> exists o, observed c m = Some o /\ cap_value k (metric_cap m) < o.
Proof. exact trips_iff. Qed.
Print Assumptions C18_stage_trips_iff.

(* the two per-function stages look at the largest function *)
Theorem C18_per_function_stage :
  forall c k m f,
  (m = MOpsInFn /\ f = fc_ops) \/ (m = MBlocksInFn /\ f = fc_blocks) ->
  (trips c k m = true <-> exists x, In x (per_fn c) /\ cap_value k (metric_cap m) < f x).
Proof. exact per_fn_stage_trips. Qed.
Print Assumptions C18_per_function_stage.

(* ---------------------------------------------------------------- monotonicity, thresholds *)

(* If a program passes every limit, so does every program that measures no more (function by
   function, table by table); if a program is over a limit, every program that measures at
   least as much is over a limit too, and reports the same or an earlier stage. *)
Theorem C18_limits_monotone :
  forall c c' k,
  counts_wf c -> n_locals c' * 2 + 2 <= u64_max -> counts_le c c' ->
  first_exceeded_limit c' k = None -> first_exceeded_limit c k = None.
Proof. exact limits_monotone_lemma. Qed.
Print Assumptions C18_limits_monotone.

Theorem C18_over_limit_monotone :
  forall c c' k l,
  counts_wf c -> n_locals c' * 2 + 2 <= u64_max -> counts_le c c' ->
  first_exceeded_limit c k = Some l ->
  exists l', first_exceeded_limit c' k = Some l' /\ metric_index (l_metric l') <= metric_index (l_metric l).
Proof. exact over_limit_monotone_lemma. Qed.
Print Assumptions C18_over_limit_monotone.

(* The derived "summary events" stage as a threshold on the number of functions F for a
   program with L locals:  F * (F + 2 L + 2) > cap  <->  F >= sqrt (cap + (L+1)^2) - L. *)
Theorem C18_summary_threshold :
  forall cap l f, 0 <= cap -> 0 <= l -> 0 <= f ->
  (cap < summary_exact f l <-> summary_fn_threshold cap l <= f).
Proof. exact summary_threshold_exact. Qed.
Print Assumptions C18_summary_threshold.

Theorem C18_summary_trips_threshold :
  forall c k,
  caps_wf k -> counts_wf c -> trips c k MLocals = false -> max_summary_events k < u64_max ->
  (trips c k MSummary = true <->
   summary_fn_threshold (max_summary_events k) (n_locals c) <= n_functions c).
Proof. exact summary_trips_threshold. Qed.
Print Assumptions C18_summary_trips_threshold.

(* A program of n empty top-level functions, for any well-formed caps: it measures what
   [empty_functions_counts] says; nothing trips below the summary threshold; from the
   threshold on "summary events" is reported (as long as the cheap caps are not reached);
   beyond max_functions, "functions". *)
Theorem C18_empty_functions_program :
  forall n, counts_of_program (repeat (SFn 0 []) n) = empty_functions_counts n 2 (Z.of_nat n) 0 0 0.
Proof. exact empty_functions_program. Qed.
Print Assumptions C18_empty_functions_program.

Theorem C18_empty_functions_verdict :
  forall k n,
  caps_wf k -> Z.of_nat n + 3 <= u32_max ->
  let c := empty_functions_counts n 2 (Z.of_nat n) 0 0 0 in
  let N := Z.of_nat n in
  (N + 1 <= max_functions k -> 1 + 2 * N <= max_scopes k -> N <= max_statements k ->
   N <= max_total_ops k -> N <= max_ops_per_function k -> 2 + 2 * N <= max_total_blocks k ->
   2 <= max_blocks_per_function k ->
   (N + 1 < summary_fn_threshold (max_summary_events k) 0 -> first_exceeded_limit c k = None) /\
   (summary_fn_threshold (max_summary_events k) 0 <= N + 1 ->
    first_exceeded_limit c k = Some (mkLimit MSummary ((N + 1) * (N + 3)) (max_summary_events k)))) /\
  (max_functions k < N + 1 ->
   first_exceeded_limit c k = Some (mkLimit MFunctions (N + 1) (max_functions k))).
Proof. exact empty_functions_verdict. Qed.
Print Assumptions C18_empty_functions_verdict.

(* For counts of real programs (total ops = number of statements = sum of per-function ops)
   the "cfg ops" and "ops in one function" stages can never be the reported ones as long as
   max_statements <= max_total_ops <= max_ops_per_function. *)
Theorem C18_ops_stages_shadowed :
  forall c k l,
  counts_consistent c -> Forall fn_nonneg (per_fn c) ->
  max_statements k <= max_total_ops k -> max_total_ops k <= max_ops_per_function k ->
  first_exceeded_limit c k = Some l -> l_metric l <> MCfgOps /\ l_metric l <> MOpsInFn.
Proof. exact ops_stages_shadowed_lemma. Qed.
Print Assumptions C18_ops_stages_shadowed.

(* ---------------------------------------------------------------- no silent wrap-around *)

(* When the summary stage is reached with caps that are values of their Rust types, the one
   unchecked addition of limits.rs is in range (debug and release builds agree) and the bound
   is min (exact, u64::MAX). *)
Theorem C18_summary_stage_no_wrap :
  forall c k,
  caps_wf k -> 0 <= n_locals c -> trips c k MLocals = false ->
  summary_add_overflows (n_locals c) = false /\
  summary_event_bound (n_functions c) (n_locals c)
  = Z.min (summary_exact (n_functions c) (n_locals c)) u64_max.
Proof. exact summary_stage_no_wrap. Qed.
Print Assumptions C18_summary_stage_no_wrap.

(* The saturating liveness bound is min (exact, u64::MAX) for all u32 inputs. *)
Theorem C18_liveness_bound_saturates_exactly :
  forall pf, Forall fn_nonneg pf -> liveness_event_bound pf = Z.min (liveness_exact pf) u64_max.
Proof. exact liveness_bound_min. Qed.
Print Assumptions C18_liveness_bound_saturates_exactly.

(* Hence, for all counts representable in the Rust types, the verdicts of the two derived
   stages are those of unbounded arithmetic (caps below u64::MAX). *)
Theorem C18_derived_verdicts_exact :
  forall c k,
  caps_wf k -> counts_wf c -> trips c k MLocals = false ->
  (max_summary_events k < u64_max ->
   trips c k MSummary = exceeds (summary_exact (n_functions c) (n_locals c)) (max_summary_events k)) /\
  (max_liveness_events k < u64_max ->
   trips c k MLiveness = exceeds (liveness_exact (per_fn c)) (max_liveness_events k)).
Proof. exact derived_verdicts_exact. Qed.
Print Assumptions C18_derived_verdicts_exact.

(* Under caps of the magnitude of DEFAULT_CAPS nothing even saturates for real programs. *)
Theorem C18_derived_bounds_unsaturated :
  forall c k,
  caps_wf k -> counts_wf c -> counts_consistent c ->
  (forall m, metric_index m < metric_index MSummary -> trips c k m = false) ->
  summary_exact (max_functions k) (max_locals k) <= u64_max ->
  (max_total_blocks k * 2 + max_total_ops k) * max_locals k <= u64_max ->
  summary_event_bound (n_functions c) (n_locals c) = summary_exact (n_functions c) (n_locals c) /\
  liveness_event_bound (per_fn c) = liveness_exact (per_fn c).
Proof. exact derived_bounds_unsaturated. Qed.
Print Assumptions C18_derived_bounds_unsaturated.

Theorem C18_default_caps_never_saturate :
  summary_exact (max_functions default_caps) (max_locals default_caps) <= u64_max /\
  (max_total_blocks default_caps * 2 + max_total_ops default_caps) * max_locals default_caps <= u64_max.
Proof. exact default_caps_never_saturate. Qed.
Print Assumptions C18_default_caps_never_saturate.

(* The event budget handed to summary.rs cannot run out once the preflight passed, for any
   number of events within the structural bound F * (F + 2 L + 2). *)
Theorem C18_summary_budget_suffices :
  forall c k n,
  caps_wf k -> counts_wf c -> max_summary_events k < u64_max ->
  first_exceeded_limit c k = None ->
  Z.of_nat n <= summary_exact (n_functions c) (n_locals c) ->
  note_events n (max_summary_events k) = Some (max_summary_events k - Z.of_nat n).
Proof. exact summary_budget_suffices_lemma. Qed.
Print Assumptions C18_summary_budget_suffices.

(* The run-time side of that budget, for the charging discipline of summary.rs (membership test
   first, one event per inserted row or class step; tied to the source text): every schedule of
   merge steps, from any duplicate-free starting tables, stays within F * (F + 2L + 2) events ... *)
Theorem C18_summary_events_are_insertions :
  forall F L ops g b,
  sinv F L g -> Forall (sop_ok F L) ops ->
  Z.of_nat (F * swidth F L) - Z.of_nat (List.length g) <= b ->
  exists g' b', srun ops g b = Some (g', b') /\ sinv F L g' /\
    b - b' = Z.of_nat (List.length g') - Z.of_nat (List.length g) /\ 0 <= b'.
Proof. exact srun_ok. Qed.
Print Assumptions C18_summary_events_are_insertions.

(* ... hence below the gate the summary fixpoint never runs out of budget: no summary becomes
   unavailable, the analyses run as usual. *)
Theorem C18_summary_budget_never_exhausted_below_gate :
  forall c k F L ops g0,
  caps_wf k -> counts_wf c -> max_summary_events k < u64_max ->
  n_functions c = Z.of_nat F -> n_locals c = Z.of_nat L ->
  first_exceeded_limit c k = None ->
  sinv F L g0 -> Forall (sop_ok F L) ops ->
  exists g b, srun ops g0 (max_summary_events k) = Some (g, b) /\ 0 <= b /\
    max_summary_events k - b = Z.of_nat (List.length g) - Z.of_nat (List.length g0).
Proof. exact summary_budget_never_exhausted_below_gate. Qed.
Print Assumptions C18_summary_budget_never_exhausted_below_gate.

(* summary.rs is the only run-time consumer of a cap, and it charges as modelled *)
Theorem C18_runtime_budgets_follow_source :
  (GenLimits.budget_charge_sites = budget_charge_sites_modelled /\
   GenLimits.note_event_body = note_event_modelled /\
   GenLimits.push_unique_bounded_body = push_unique_bounded_modelled /\
   GenLimits.class_charge_guard = class_charge_guard_modelled) /\
  GenLimits.caps_users = caps_users_modelled.
Proof. exact (conj summary_accounting_matches_source caps_users_match_source). Qed.
Print Assumptions C18_runtime_budgets_follow_source.

(* ---------------------------------------------------------------- no plan, no pruning *)

Theorem C18_no_plan_never_prunes :
  (forall bound, stmt_is_pruned None bound = false) /\ (forall id, function_is_pruned None id = false).
Proof. exact no_plan_never_prunes_lemma. Qed.
Print Assumptions C18_no_plan_never_prunes.

(* Whatever exec_stmt and register_function do: with the plan the gate leaves behind for an
   over-limit program, the block executor is the unoptimised interpreter. *)
Theorem C18_over_limit_runs_unoptimised :
  forall (state stmt_t : Type) (stmt_id fn_id : stmt_t -> option Z)
         (step register : stmt_t -> state -> state) k earlier c a l b s,
  first_exceeded_limit c k = Some l ->
  exec_block stmt_id fn_id step register (snd (emit_analysis_warnings_with k earlier c a)) b s
  = exec_block_unoptimised fn_id step register b s.
Proof. exact (@over_limit_runs_unoptimised). Qed.
Print Assumptions C18_over_limit_runs_unoptimised.

(* ---------------------------------------------------------------- examples (non-vacuity) *)

(* effective thresholds of the configuration the model was written against *)
Example ex_summary_threshold : summary_fn_threshold 16777216 0 = 4096.
Proof. vm_compute. reflexivity. Qed.

(* 4094 empty functions (4095 with the top level): nothing trips; 4095: "summary events",
   long before max_functions = 16384; 16384: "functions" *)
Example ex_empty_4094 :
  first_exceeded_limit (counts_of_program (repeat (SFn 0 []) (Z.to_nat 4094))) caps_snapshot = None.
Proof. vm_compute. reflexivity. Qed.
Example ex_empty_4095 :
  first_exceeded_limit (counts_of_program (repeat (SFn 0 []) (Z.to_nat 4095))) caps_snapshot
  = Some (mkLimit MSummary 16785408 16777216).
Proof. vm_compute. reflexivity. Qed.
Example ex_empty_16384 :
  first_exceeded_limit (counts_of_program (repeat (SFn 0 []) (Z.to_nat 16384))) caps_snapshot
  = Some (mkLimit MFunctions 16385 16384).
Proof. vm_compute. reflexivity. Qed.

(* 5790 declarations in one block pass, 5791 trip "liveness events" = (2*2 + n) * n *)
Example ex_decls_5790 :
  first_exceeded_limit (counts_of_program (repeat (SDecl 0) (Z.to_nat 5790))) caps_snapshot = None.
Proof. vm_compute. reflexivity. Qed.
Example ex_decls_5791 :
  first_exceeded_limit (counts_of_program (repeat (SDecl 0) (Z.to_nat 5791))) caps_snapshot
  = Some (mkLimit MLiveness 33558845 33554432).
Proof. vm_compute. reflexivity. Qed.

(* 21844 loops in one function: 2 + 3 * 21844 = 65534 blocks pass; 21845: 65537 blocks *)
Example ex_loops_21844 :
  first_exceeded_limit (counts_of_program (repeat (SLoop 0 []) (Z.to_nat 21844))) caps_snapshot = None.
Proof. vm_compute. reflexivity. Qed.
Example ex_loops_21845 :
  first_exceeded_limit (counts_of_program (repeat (SLoop 0 []) (Z.to_nat 21845))) caps_snapshot
  = Some (mkLimit MBlocksInFn 65537 65536).
Proof. vm_compute. reflexivity. Qed.

(* a count equal to its cap passes, one more trips *)
Example ex_statements_at_cap :
  first_exceeded_limit (mkCounts [mkFn 2 262144 0] 0 1 262144 0 262144 2) caps_snapshot = None /\
  first_exceeded_limit (mkCounts [mkFn 2 262145 0] 0 1 262145 0 262145 2) caps_snapshot
  = Some (mkLimit MStatements 262145 262144).
Proof. vm_compute. split; reflexivity. Qed.

(* several stages trip: the first in source order is reported *)
Example ex_order :
  let c := mkCounts [mkFn 70000 300000 9; mkFn 2 0 0] 200000 200000 300000 300000 300000 70002 in
  trips c caps_snapshot MLocals = true /\ trips c caps_snapshot MScopes = true /\
  trips c caps_snapshot MBlocksInFn = true /\ trips c caps_snapshot MFunctions = false /\
  first_exceeded_limit c caps_snapshot = Some (mkLimit MLocals 200000 131072).
Proof. vm_compute. repeat split; reflexivity. Qed.

(* the model saturates where u64 does *)
Example ex_saturation :
  fn_events (mkFn u32_max u32_max u32_max) = u64_max /\
  fn_events_exact (mkFn u32_max u32_max u32_max) = 55340232195358851075 /\
  liveness_event_bound [mkFn u32_max u32_max u32_max; mkFn u32_max u32_max u32_max] = u64_max.
Proof. vm_compute. repeat split; reflexivity. Qed.

(* the gate on concrete inputs: over a limit ... *)
Example ex_gate_over :
  let c := counts_of_program (repeat (SFn 0 []) (Z.to_nat 4095)) in
  let a := mkAnalysis [7] [3; 1] [1] [2] (mkPlan [1; 3; 7] [2]) in
  default_caps = caps_snapshot ->
  emit_analysis_warnings [DEarlier SevWarning 5] c a
  = ([DEarlier SevWarning 5; DResourceLimit (mkLimit MSummary 16785408 16777216)], None).
Proof. intros c a E. unfold emit_analysis_warnings. rewrite E. vm_compute. reflexivity. Qed.

(* ... and below: all warnings, ordered by statement (stable), and the plan *)
Example ex_gate_below :
  let c := counts_of_program (repeat (SFn 0 []) 10) in
  let a := mkAnalysis [7] [3; 1] [1] [2] (mkPlan [1; 3; 7] [2]) in
  emit_analysis_warnings_with caps_snapshot [DEarlier SevWarning 5] c a
  = ([DEarlier SevWarning 5; DAnalysis WUnusedAssignment 1; DAnalysis WUnusedVariable 1;
      DAnalysis WUnusedFunction 2; DAnalysis WUnusedAssignment 3; DAnalysis WUnreachable 7],
     Some (mkPlan [1; 3; 7] [2])).
Proof. vm_compute. reflexivity. Qed.

(* charging every probe instead of every insertion exhausts a budget that covers all rows *)
Example ex_probe_charging :
  let x := mkEntry KCallee 0 0 in
  sinv 1 0 [] /\ Z.of_nat (1 * swidth 1 0) = 3 /\
  (match push_probe_charged [] x 3 with
   | Some (g1, b1) => match push_probe_charged g1 x b1 with
                      | Some (g2, b2) => match push_probe_charged g2 x b2 with
                                         | Some (g3, b3) => push_probe_charged g3 x b3
                                         | None => None end
                      | None => None end
   | None => None end) = None /\
  srun [OPush KCallee 0 0; OPush KCallee 0 0; OPush KCallee 0 0; OPush KCallee 0 0] [] 3
  = Some ([x], 2).
Proof. exact probe_charging_exhausts. Qed.

(* the prune predicates do distinguish a plan from no plan *)
Example ex_prune :
  stmt_is_pruned (Some (mkPlan [1; 3; 7] [2])) (Some 3) = true /\
  stmt_is_pruned None (Some 3) = false /\
  function_is_pruned (Some (mkPlan [1; 3; 7] [2])) 2 = true /\
  function_is_pruned None 2 = false.
Proof. vm_compute. repeat split; reflexivity. Qed.

(* hypotheses used above are satisfiable *)
Example ex_counts_wf :
  counts_wf (counts_of_program (repeat (SDecl 0) 3)) /\
  counts_consistent (counts_of_program (repeat (SDecl 0) 3)).
Proof.
  rewrite declarations_program.
  unfold counts_wf, counts_consistent, fn_wf, n_functions, sum_of, u32_max, u64_max.
  cbn [per_fn n_locals n_scopes n_statements n_calls total_ops total_blocks fc_blocks fc_ops
       fc_locals fold_left List.length Z.of_nat].
  repeat split; try (repeat constructor; cbn; lia); lia.
Qed.

(* a small shape with every construct: what count_program measures for it (the numbers are
   the ones the real counter prints for the corresponding source text) *)
Example ex_shape_counts :
  counts_of_program
    [SDecl 0; SFn 1 [SReturn 0; SSimple 0]; SIf 0 [SReturn 0] true [SSimple 1];
     SLoop 0 [SIf 0 [SBreak] false []; SBlock [SDecl 0; SContinue]; SSimple 0]; SSimple 1]
  = mkCounts [mkFn 12 13 3; mkFn 3 2 1] 3 8 15 2 15 15.
Proof. vm_compute. reflexivity. Qed.
