(* PARSER — theorems about the executable model of src/syntax/parser.rs (theories/Parser.v).
   Statements only; proofs in proofs/ParserProofs.v (totality, spans), ParserNatural.v (positions
   are only copied), ParserPratt.v (coincidence with C01's expression model Pratt.v) and
   ParserTheorems.v (assembly).  Not a property of properties.jsonl: C07 cites (a), C10 cites (b)
   and parens_redundant, C01 cites (c).

   The model is tied to the code by the differential run of lib/props/parser.py (real parser vs
   extracted Parser.parse_program on the real token list: tree with every span, diagnostics with
   spans and label texts, tokens pulled) and by the tables regenerated from parser.rs / token.rs
   (GenParser.v: token sets of the statement loops and of synchronize, messages, labels, the two
   recovery switches; GenPratt.v: binding powers; GenLexer.v: reserved keywords). *)
From Coq Require Import ZArith List Bool Arith.
Require Import NS.theories.Utf8 NS.theories.GenLexer NS.theories.Lexer NS.theories.GenParser NS.theories.Parser.
Require Import NS.proofs.ParserProofs NS.proofs.ParserNatural NS.proofs.ParserPratt NS.proofs.ParserTheorems
               NS.proofs.ParserReparse.
Require NS.theories.F64 NS.theories.Lang NS.theories.GenPratt NS.theories.Pratt.
Import ListNotations.
Open Scope nat_scope.

(* ================================================================== (a) the parser is total
   (C07's `parse_progress`).

   For EVERY token list whose spans are ordered (each token's start <= end, each token starts at
   or after the end of the previous one — what the lexer theorem C07_lex_total_spans_wf gives;
   the Rust lexer iterator yields no EOF token, the parser's EOF is synthetic) the parser model,
   with the fuel parse_program hands out (3 * tokens + 4), returns a program: fuel exhaustion is
   impossible, there is no panic outcome (the parser has no slice / index / unwrap; its template
   scanning is Template.v), and every span it builds — every node of the tree, the root block,
   every diagnostic (whose label carries the same span) — is ordered and has both ends at
   positions satisfying [good], for any predicate [good] that holds of 0 (Range::default) and
   of both ends of every token.  The recovery switch [v_stmt_error_bumps] must be on: it is read
   off parser.rs (PARSER_source_recovery_bumps), so removing the bump from the default arm of
   parse_statement breaks the instances below. *)
Theorem PARSER_parse_total :
  forall (good : nat -> Prop) v ts, good 0 -> v_stmt_error_bumps v = true -> chain good 0 ts ->
  exists p, parse_program v ts = Done p /\ result_spans_ok good p /\ p_pulled p <= length ts.
Proof. exact parse_total_generic. Qed.
Print Assumptions PARSER_parse_total.

Theorem PARSER_source_recovery_bumps : v_stmt_error_bumps Parser.variant_of_source = true.
Proof. exact source_stmt_error_bumps. Qed.
Print Assumptions PARSER_source_recovery_bumps.

(* instance: every span is (0 or the start / end of a token of the list) .. (the same), ordered *)
Theorem PARSER_spans_are_token_positions : forall ts, ordered ts ->
  exists p, parse_program Parser.variant_of_source ts = Done p /\ result_spans_ok (token_pos ts) p /\
            p_pulled p <= length ts.
Proof. exact parse_total_token_positions. Qed.
Print Assumptions PARSER_spans_are_token_positions.

(* instance: on the tokens of a text every span is in range, ordered and on character boundaries *)
Theorem PARSER_spans_in_text : forall s ts,
  Forall (token_wf s) ts -> tokens_ordered 0 ts ->
  exists p, parse_program Parser.variant_of_source ts = Done p /\ result_spans_ok (in_text s) p /\
            p_pulled p <= length ts.
Proof. exact parse_total_in_text. Qed.
Print Assumptions PARSER_spans_in_text.

(* lexer (C07's theorem, reused) and parser composed: for every valid UTF-8 text *)
Theorem PARSER_lex_parse_total : forall s, valid_utf8 s = true ->
  exists toks ldiags p,
    lex Lexer.variant_of_source s = Ok (toks, ldiags, length s) /\
    parse_program Parser.variant_of_source toks = Done p /\
    result_spans_ok (in_text s) p /\ Forall (diag_wf s) ldiags.
Proof. exact lex_parse_total. Qed.
Print Assumptions PARSER_lex_parse_total.

(* in the vocabulary of C07 (Utf8.span_wf): the syntax diagnostics the renderer will slice by *)
Theorem PARSER_syntax_diagnostics_wf : forall s ts p,
  Forall (token_wf s) ts -> tokens_ordered 0 ts ->
  parse_program Parser.variant_of_source ts = Done p ->
  Forall (fun d => span_wf s (fst (pd_span d)) (snd (pd_span d))) (p_diags p).
Proof. exact syntax_diagnostics_wf. Qed.
Print Assumptions PARSER_syntax_diagnostics_wf.

(* every parse_statement call that starts on a real token consumes at least one token, whatever
   error paths it takes (this is why parse_block_body / parse_program_body terminate) ... *)
Theorem PARSER_statement_progress : forall (good : nat -> Prop) v f st,
  good 0 -> v_stmt_error_bumps v = true -> inv good st -> 3 * size st + 1 <= f -> kind st <> TEOF ->
  exists s st', parse_statement f v st = Done (s, st') /\ size st' < size st /\ inv good st'.
Proof. exact statement_progress. Qed.
Print Assumptions PARSER_statement_progress.

(* ... and synchronize always stops on a token of its set (which contains EOF) *)
Theorem PARSER_synchronize_stops : forall st, mem_tok (kind (synchronize st)) sync_toks = true.
Proof. exact synchronize_stops. Qed.
Print Assumptions PARSER_synchronize_stops.

(* ================================================================== (b) spans are ignored
   (C10's `parse_ignores_spans`).

   The parser only copies positions: moving every position of the token list along any h with
   h 0 = 0 moves every position of the result along h and changes nothing else. *)
Theorem PARSER_natural_in_positions : forall h, h 0 = 0 -> forall v ts,
  parse_program v (map (map_tok h) ts) = map_presult (map_parsed h) (parse_program v ts).
Proof. exact parse_program_natural. Qed.
Print Assumptions PARSER_natural_in_positions.

(* two token lists with the same kinds / payloads / owned flags (that is: two layouts of one
   token sequence, Layout.kpo) parse to the same result once positions are forgotten ... *)
Theorem PARSER_parse_ignores_spans : forall v ts1 ts2, map kpo ts1 = map kpo ts2 ->
  map_presult (map_parsed forget) (parse_program v ts1)
  = map_presult (map_parsed forget) (parse_program v ts2).
Proof. exact parse_ignores_spans. Qed.
Print Assumptions PARSER_parse_ignores_spans.

(* ... in particular to the same tree modulo spans, the same named Lang AST (every id None; for
   any reading [num] of number literals), the same diagnostic kinds and labels, the same number of
   tokens pulled from the lexer *)
Theorem PARSER_parse_ignores_spans_views : forall v ts1 ts2 p1 p2, map kpo ts1 = map kpo ts2 ->
  parse_program v ts1 = Done p1 -> parse_program v ts2 = Done p2 ->
  strip_stmts (p_stmts p1) = strip_stmts (p_stmts p2) /\
  (forall num, to_lang num (p_stmts p1) = to_lang num (p_stmts p2)) /\
  diag_kinds (p_diags p1) = diag_kinds (p_diags p2) /\
  p_pulled p1 = p_pulled p2 /\ p_lexed_all p1 = p_lexed_all p2.
Proof. exact parse_ignores_spans_views. Qed.
Print Assumptions PARSER_parse_ignores_spans_views.

Theorem PARSER_relayout_same_parse : forall ts1 ts2, ordered ts1 -> ordered ts2 -> map kpo ts1 = map kpo ts2 ->
  exists p1 p2, parse_program Parser.variant_of_source ts1 = Done p1 /\
                parse_program Parser.variant_of_source ts2 = Done p2 /\
                strip_stmts (p_stmts p1) = strip_stmts (p_stmts p2) /\
                (forall num, to_lang num (p_stmts p1) = to_lang num (p_stmts p2)) /\
                diag_kinds (p_diags p1) = diag_kinds (p_diags p2).
Proof. exact relayout_same_parse. Qed.
Print Assumptions PARSER_relayout_same_parse.

(* ================================================================== (c) the expression grammar
   (C01's `pratt_roundtrip`, C10's `parens_redundant`), on the full parser model.

   The expression parser of Parser.v (with spans, diagnostics, recovery) coincides with C01's
   expression-only model Pratt.v wherever Pratt.v succeeds: same tree, all tokens used, no
   diagnostic.  [abs_tok] / [abs_expr] forget spans and turn literal tokens into opaque atoms. *)
Theorem PARSER_expression_agrees_with_pratt : forall v ts e, no_eof ts ->
  Pratt.parse_tokens (map abs_tok ts) = Pratt.POk e ->
  exists se st', parse_expression (S (3 * length ts)) v 0%Z (init ts) = Done (se, st') /\
                 abs_expr se = e /\ kind st' = TEOF /\ rest st' = [] /\ errs st' = [].
Proof. exact expression_agrees_with_pratt. Qed.
Print Assumptions PARSER_expression_agrees_with_pratt.

(* print any tree with parentheses exactly where the generated binding powers require them, plus
   any redundant ones (an aexpr with AParen nodes); whatever tokens spell that print parse back to
   the tree, silently *)
Theorem PARSER_pratt_roundtrip : forall v (a : Pratt.aexpr) ts, no_eof ts ->
  map abs_tok ts = Pratt.print a ->
  exists se st', parse_expression (S (3 * length ts)) v 0%Z (init ts) = Done (se, st') /\
                 abs_expr se = Pratt.erase a /\ kind st' = TEOF /\ rest st' = [] /\ errs st' = [].
Proof. exact pratt_roundtrip. Qed.
Print Assumptions PARSER_pratt_roundtrip.

(* the same through parse_program, with the expression in statement position:
   `make <name> get <expression>` parses silently to one declaration whose value is the tree, and
   every token is used *)
Theorem PARSER_make_statement_roundtrip : forall v mk id gt (a : Pratt.aexpr) ts,
  t_kind mk = TMake -> t_kind id = TIdentifier -> t_kind gt = TGet ->
  no_eof ts -> map abs_tok ts = Pratt.print a ->
  exists p se sp, parse_program v (mk :: id :: gt :: ts) = Done p /\ p_diags p = [] /\
    p_stmts p = [YMake (t_payload id) (t_start id, t_end id) se sp] /\ abs_expr se = Pratt.erase a /\
    p_pulled p = 3 + length ts.
Proof. exact make_statement_roundtrip. Qed.
Print Assumptions PARSER_make_statement_roundtrip.

Theorem PARSER_parens_redundant : forall v (a1 a2 : Pratt.aexpr) ts1 ts2, no_eof ts1 -> no_eof ts2 ->
  map abs_tok ts1 = Pratt.print a1 -> map abs_tok ts2 = Pratt.print a2 -> Pratt.erase a1 = Pratt.erase a2 ->
  exists se1 st1 se2 st2,
    parse_expression (S (3 * length ts1)) v 0%Z (init ts1) = Done (se1, st1) /\
    parse_expression (S (3 * length ts2)) v 0%Z (init ts2) = Done (se2, st2) /\
    abs_expr se1 = abs_expr se2 /\ errs st1 = [] /\ errs st2 = [].
Proof. exact parens_redundant. Qed.
Print Assumptions PARSER_parens_redundant.

(* precedence  or < and < comparison < add/minus < times/divide/mod < unary < postfix  and left
   associativity, as corollaries *)
Theorem PARSER_precedence_looser_operator_first : forall v ts x a y b z, no_eof ts ->
  ident_op_tokens ts x a y b z -> (Pratt.level a < Pratt.level b)%Z ->
  exists se st', parse_expression (S (3 * length ts)) v 0%Z (init ts) = Done (se, st') /\ errs st' = [] /\
    abs_expr se = Pratt.PBin a (Pratt.PVar x) (Pratt.PBin b (Pratt.PVar y) (Pratt.PVar z)).
Proof. exact precedence_looser_first. Qed.
Print Assumptions PARSER_precedence_looser_operator_first.

Theorem PARSER_precedence_tighter_operator_first : forall v ts x a y b z, no_eof ts ->
  ident_op_tokens ts x b y a z -> (Pratt.level a < Pratt.level b)%Z ->
  exists se st', parse_expression (S (3 * length ts)) v 0%Z (init ts) = Done (se, st') /\ errs st' = [] /\
    abs_expr se = Pratt.PBin a (Pratt.PBin b (Pratt.PVar x) (Pratt.PVar y)) (Pratt.PVar z).
Proof. exact precedence_tighter_first. Qed.
Print Assumptions PARSER_precedence_tighter_operator_first.

Theorem PARSER_left_associative : forall v ts x a y b z, no_eof ts ->
  ident_op_tokens ts x a y b z -> Pratt.level a = Pratt.level b ->
  exists se st', parse_expression (S (3 * length ts)) v 0%Z (init ts) = Done (se, st') /\ errs st' = [] /\
    abs_expr se = Pratt.PBin b (Pratt.PBin a (Pratt.PVar x) (Pratt.PVar y)) (Pratt.PVar z).
Proof. exact left_associative. Qed.
Print Assumptions PARSER_left_associative.

Theorem PARSER_unary_binds_tighter_than_binary : forall v ts u op x y, no_eof ts ->
  map abs_tok ts = [Pratt.un_tok u; Pratt.TIdent x; Pratt.TOp op; Pratt.TIdent y] ->
  exists se st', parse_expression (S (3 * length ts)) v 0%Z (init ts) = Done (se, st') /\ errs st' = [] /\
    abs_expr se = Pratt.PBin op (Pratt.PUn u (Pratt.PVar x)) (Pratt.PVar y).
Proof. exact unary_tighter_than_binary. Qed.
Print Assumptions PARSER_unary_binds_tighter_than_binary.

Theorem PARSER_postfix_binds_tighter_than_unary : forall v ts u x f, no_eof ts ->
  map abs_tok ts = [Pratt.un_tok u; Pratt.TIdent x; Pratt.TDot; Pratt.TIdent f; Pratt.TLP; Pratt.TRP] ->
  exists se st', parse_expression (S (3 * length ts)) v 0%Z (init ts) = Done (se, st') /\ errs st' = [] /\
    abs_expr se = Pratt.PUn u (Pratt.PCall (Pratt.PMember (Pratt.PVar x) f) []).
Proof. exact postfix_tighter_than_unary. Qed.
Print Assumptions PARSER_postfix_binds_tighter_than_unary.

(* the side conditions of the round-trip proof and the documented levels, of the GENERATED binding
   powers (vm_compute): swapping two binding powers in parser.rs makes this fail *)
Theorem PARSER_table_side_conditions : Pratt.table_ok = true /\ Pratt.levels_ok = true.
Proof. exact table_conditions. Qed.
Print Assumptions PARSER_table_side_conditions.

(* ================================================================== (d) print / parse round trip
   for programs — PARTIAL.  Proved for the fragment "a sequence of declarations
   `make <name> get <expression>`" with arbitrary expressions; NOT proved: the other statement
   forms (assignment, if / else, loops, functions, blocks, return, comot / next) and nesting. *)

(* parse (print ds) = ds: a printed sequence of declarations (each expression written with
   parentheses where the binding powers need them, plus any redundant ones) parses back to exactly
   those declarations, silently, using every token *)
Theorem PARSER_declarations_reparse : forall v (ds : list decl) ts, no_eof ts ->
  map abs_tok ts = prog_ptoks ds ->
  exists p, parse_program v ts = Done p /\ p_diags p = [] /\ Forall2 is_decl (p_stmts p) ds /\
            p_pulled p = length ts.
Proof. exact declarations_reparse. Qed.
Print Assumptions PARSER_declarations_reparse.

(* parse, print canonically, parse again: same declarations *)
Theorem PARSER_accepted_programs_reparse_partial : forall v ss des,
  map decl_of ss = map Some des ->
  forall ts, no_eof ts -> map abs_tok ts = canonical_ptoks des ->
  exists p, parse_program v ts = Done p /\ p_diags p = [] /\
            map decl_of (p_stmts p) = map decl_of ss /\ p_pulled p = length ts.
Proof. exact accepted_programs_reparse_partial. Qed.
Print Assumptions PARSER_accepted_programs_reparse_partial.

(* ================================================================== the hypotheses are satisfiable;
   what the model computes on small inputs (all by vm_compute) *)

Definition tk (k : tok) (p : bytes) (a b : nat) : token :=
  {| t_kind := k; t_payload := p; t_owned := false; t_start := a; t_end := b |}.

(* `make x get 1 add 2 times 3` with its real spans *)
Definition ex_tokens : list token :=
  [tk TMake [] 0 4; tk TIdentifier [120%Z] 5 6; tk TGet [] 7 10; tk TNumber [49%Z] 11 12; tk TAdd [] 13 16;
   tk TNumber [50%Z] 17 18; tk TTimes [] 19 24; tk TNumber [51%Z] 25 26].

Example PARSER_example_ordered : ordered ex_tokens.
Proof. vm_compute. repeat split; auto; repeat constructor. Qed.

Example PARSER_example_parse :
  exists p, parse_program Parser.variant_of_source ex_tokens = Done p /\ p_diags p = [] /\
    p_stmts p = [YMake [120%Z] (5, 6)
                   (XBin Lang.Add (XNum [49%Z] (11, 12))
                      (XBin Lang.Times (XNum [50%Z] (17, 18)) (XNum [51%Z] (25, 26)) (17, 26)) (11, 26))
                   (0, 26)] /\
    p_pulled p = 8 /\ p_lexed_all p = true.
Proof. eexists. vm_compute. repeat split. Qed.

(* the same tokens laid out differently: same tree modulo spans *)
Definition ex_tokens2 : list token :=
  [tk TMake [] 3 7; tk TIdentifier [120%Z] 20 21; tk TGet [] 22 25; tk TNumber [49%Z] 30 31; tk TAdd [] 40 43;
   tk TNumber [50%Z] 44 45; tk TTimes [] 50 55; tk TNumber [51%Z] 60 61].
Example PARSER_example_same_kinds : map kpo ex_tokens = map kpo ex_tokens2.
Proof. reflexivity. Qed.

(* an expression's tokens in the sense of (c): `(a add b) times c` with a redundant pair *)
Example PARSER_example_expression :
  let a := Pratt.ABin Lang.Times (Pratt.AParen (Pratt.AParen (Pratt.ABin Lang.Add (Pratt.AVar [97%Z]) (Pratt.AVar [98%Z]))))
                      (Pratt.AVar [99%Z]) in
  let ts := map conc_tok (Pratt.print a) in
  no_eof ts /\ map abs_tok ts = Pratt.print a.
Proof. vm_compute. split; [repeat constructor; discriminate | reflexivity]. Qed.

(* recovery as it is: after `make x get )` the expression error leaves the current token EOF
   (mem::take), so the statement `shout(1)` that follows is never parsed — and never pulled from
   the lexer: 4 of the 8 tokens are pulled, no "unexpected token" is reported *)
Definition ex_recovery : list token :=
  [tk TMake [] 0 4; tk TIdentifier [120%Z] 5 6; tk TGet [] 7 10; tk TRParen [] 11 12;
   tk TIdentifier [115%Z] 13 18; tk TLParen [] 18 19; tk TNumber [49%Z] 19 20; tk TRParen [] 20 21].
Example PARSER_example_recovery_stops :
  exists p, parse_program Parser.variant_of_source ex_recovery = Done p /\
    map pd_err (p_diags p) = [SExpectedNumberOrVariableOrLParen] /\ map pd_span (p_diags p) = [(11, 12)] /\
    p_stmts p = [YMake [120%Z] (5, 6) (XNum [48%Z] (11, 12)) (0, 12)] /\ p_pulled p = 4 /\ p_lexed_all p = false.
Proof. eexists. vm_compute. repeat split. Qed.

(* a stray `)` inside a block is skipped by the bump of the default arm (one diagnostic, progress) *)
Definition ex_stray : list token :=
  [tk TStart [] 0 5; tk TRParen [] 6 7; tk TEnd [] 8 11].
Example PARSER_example_stray_paren :
  exists p, parse_program Parser.variant_of_source ex_stray = Done p /\
    map pd_err (p_diags p) = [SExpectedStatement] /\ p_pulled p = 3.
Proof. eexists. vm_compute. repeat split. Qed.
