(* PIPELINE — the end-to-end composition: source bytes -> printed values (theories/Pipeline.v).
   Statements only; proofs in proofs/Pipeline{Proofs,Resolve,Erase,Resolvable,Compose,Parens,Numbers}.v.
   Not a property of properties.jsonl: C07 cites (a), C10 cites (b) and (c), C01 / C04 cite (d),
   C06 cites (e), C09 cites (f).  Every theorem is for ALL source texts (resp. all valid UTF-8 texts,
   all token lists and layouts); none is partial.

     front src       = Lexer.lex -> Parser.parse_program -> Parser.to_lang NumParse.to_number
                       -> StaticRules.check            (both source variants read off the code)
     accepted d      = no reported lexical diagnostic, no syntax diagnostic, no rule violation
     run_source      = Spec.run_spec on the named tree of an accepted text       (reference)
     run_source_impl = Lang.run_impl None on LexResolve.lex_ids of that tree     (runtime.rs)

   The model is tied to the code by lib/props/pipeline.py: SOURCE TEXT goes to the real pipeline
   (`nsverif lang`, configuration nn) and to the extracted run_source / run_source_impl, which lex
   and parse the text themselves; acceptance, rejecting phase, diagnostics, named tree, resolved
   ids (up to a bijection), printed values and ending must coincide; the real `naija` binary must
   exit with success exactly on the texts the model accepts and runs to a normal ending, and print
   what Lang.display says. *)
From Coq Require Import ZArith List Bool Arith.
Require Import NS.theories.Utf8 NS.theories.GenLexer NS.theories.Lexer NS.theories.GenParser NS.theories.Parser.
Require Import NS.theories.Layout NS.theories.Pipeline.
Require NS.theories.F64 NS.theories.Lang NS.theories.Spec NS.theories.NumParse NS.theories.StaticRules
        NS.theories.LexResolve NS.proofs.NumParseProofs.
Require Import NS.theories.RulesWf.
Require Import NS.proofs.ParserTheorems NS.proofs.ScopeProofs NS.proofs.PipelineProofs NS.proofs.PipelineResolve
               NS.proofs.PipelineErase NS.proofs.PipelineResolvable NS.proofs.PipelineCompose NS.proofs.PipelineParens NS.proofs.PipelineNumbers.
Require NS.theories.Pratt NS.proofs.ParserPratt.
Import ListNotations.
Open Scope nat_scope.

(* ================================================================== (a) the front end is total
   For every valid UTF-8 text, [front] returns a result (no lexer panic site, no fuel exhaustion in
   lexer or parser); the lexer consumed the whole text; every token span, every lexical
   diagnostic (reported or not), every span of the tree and every syntax diagnostic is ordered, in
   range and on character boundaries; the reported lexical diagnostics are a prefix of all of
   them; the static checker is a total function of the tree.
   Composition of C07_lex_total_spans_wf (FrontendProofs.lex_total_spans_wf),
   PARSER_spans_in_text (parse_total_in_text), PARSER_syntax_diagnostics_wf. *)
Theorem PIPELINE_front_total : forall s, valid_utf8 s = true ->
  exists d, front s = Front d /\
    lex Lexer.variant_of_source s = Ok (fd_tokens d, fd_lex_all d, length s) /\
    Forall (token_wf s) (fd_tokens d) /\ tokens_ordered 0 (fd_tokens d) /\
    Forall (diag_wf s) (fd_lex_all d) /\
    (exists unreported, fd_lex_all d = fd_lex d ++ unreported) /\
    Forall (diag_wf s) (fd_lex d) /\
    parse_program Parser.variant_of_source (fd_tokens d) = Done (fd_parsed d) /\
    result_spans_ok (in_text s) (fd_parsed d) /\
    Forall (fun g => span_wf s (fst (pd_span g)) (snd (pd_span g))) (p_diags (fd_parsed d)) /\
    p_pulled (fd_parsed d) <= length (fd_tokens d) /\
    fd_ast d = to_lang num_of_text (p_stmts (fd_parsed d)) /\
    fd_viol d = StaticRules.check (fd_ast d).
Proof. exact front_total_lemma. Qed.
Print Assumptions PIPELINE_front_total.

(* hence neither runner can end in a front-end failure *)
Theorem PIPELINE_runs_have_front : forall eps fuel s, valid_utf8 s = true ->
  (forall f, run_source eps fuel s <> NoFront f) /\ (forall f, run_source_impl eps fuel s <> NoFront f).
Proof. exact runs_have_front. Qed.
Print Assumptions PIPELINE_runs_have_front.

(* ================================================================== (b) layout is insignificant, end to end
   C10's hypotheses: a token list with diagnostic-free spellings, two layouts made of whitespace and
   comments that keep fusing neighbours apart.  Then the two rendered texts have the same front view
   (token kinds / payloads, reported diagnostics without positions, tree without positions, NAMED
   AST, rule violations, acceptance) and both runners have the same outcome up to the positions
   inside the diagnostics of a rejection.
   Composition of C10_lex_layout_invariant (LayoutProofs.lex_layout_invariant),
   PARSER_parse_ignores_spans / _views, and function application (check, run_spec, lex_ids,
   run_impl are functions of the named AST).  No UTF-8 hypothesis: should the parser run out of
   fuel on one text it does so on the other (both views are None). *)
Theorem PIPELINE_layout_invariant_end_to_end : forall eps fuel ts l1 l2,
  forallb tk_ok ts = true ->
  wf_layout ts l1 = true -> separating ts l1 = true ->
  wf_layout ts l2 = true -> separating ts l2 = true ->
  front_view_of (front (render ts l1)) = front_view_of (front (render ts l2)) /\
  outcome_view_of (run_source eps fuel (render ts l1)) = outcome_view_of (run_source eps fuel (render ts l2)) /\
  outcome_view_of (run_source_impl eps fuel (render ts l1)) = outcome_view_of (run_source_impl eps fuel (render ts l2)).
Proof. exact layout_invariant_end_to_end_lemma. Qed.
Print Assumptions PIPELINE_layout_invariant_end_to_end.

(* for accepted texts the outcome carries no position: literally the same printed values, ending *)
Theorem PIPELINE_layout_invariant_accepted : forall eps fuel ts l1 l2,
  forallb tk_ok ts = true ->
  wf_layout ts l1 = true -> separating ts l1 = true ->
  wf_layout ts l2 = true -> separating ts l2 = true ->
  (forall o e, run_source eps fuel (render ts l1) = Ran o e -> run_source eps fuel (render ts l2) = Ran o e) /\
  (forall o e, run_source_impl eps fuel (render ts l1) = Ran o e -> run_source_impl eps fuel (render ts l2) = Ran o e).
Proof. exact layout_invariant_accepted_lemma. Qed.
Print Assumptions PIPELINE_layout_invariant_accepted.

(* a rendered token list has no lexical diagnostic at all, and lexes back to the token list *)
Theorem PIPELINE_layout_no_lexical_diagnostics : forall ts l d,
  forallb tk_ok ts = true -> wf_layout ts l = true -> separating ts l = true ->
  front (render ts l) = Front d ->
  fd_lex_all d = [] /\ fd_lex d = [] /\ map Layout.kpo (fd_tokens d) = map tk_tok ts.
Proof. exact layout_front_no_lexical. Qed.
Print Assumptions PIPELINE_layout_no_lexical_diagnostics.

(* any two texts whose front views coincide behave alike (the step "function application") *)
Theorem PIPELINE_same_view_same_outcomes : forall eps fuel s1 s2,
  front_view_of (front s1) = front_view_of (front s2) ->
  outcome_view_of (run_source eps fuel s1) = outcome_view_of (run_source eps fuel s2) /\
  outcome_view_of (run_source_impl eps fuel s1) = outcome_view_of (run_source_impl eps fuel s2).
Proof. exact same_view_same_outcomes. Qed.
Print Assumptions PIPELINE_same_view_same_outcomes.

(* ================================================================== (f) rejected programs are not run *)
Theorem PIPELINE_accepted_iff : forall d, accepted d = true <->
  fd_lex d = [] /\ p_diags (fd_parsed d) = [] /\ fd_viol d = [].
Proof. exact accepted_iff. Qed.
Print Assumptions PIPELINE_accepted_iff.

Theorem PIPELINE_rejected_not_run : forall eps fuel src d,
  front src = Front d -> accepted d = false ->
  exists ph, rejecting_phase d = Some ph /\
    run_source eps fuel src = Rejected ph (rejection_of d) /\
    run_source_impl eps fuel src = Rejected ph (rejection_of d).
Proof. exact rejected_not_run_lemma. Qed.
Print Assumptions PIPELINE_rejected_not_run.

Theorem PIPELINE_ran_was_accepted : forall eps fuel src o e,
  run_source eps fuel src = Ran o e ->
  exists d, front src = Front d /\ accepted d = true /\ Spec.run_spec eps fuel (fd_ast d) = (o, e).
Proof. exact ran_was_accepted_lemma. Qed.
Print Assumptions PIPELINE_ran_was_accepted.

Theorem PIPELINE_ran_impl_was_accepted : forall eps fuel src o e,
  run_source_impl eps fuel src = Ran o e ->
  exists d p, front src = Front d /\ accepted d = true /\ ids (fd_ast d) = Some p /\
              Lang.run_impl None eps fuel p = (o, e).
Proof. exact ran_impl_was_accepted_lemma. Qed.
Print Assumptions PIPELINE_ran_impl_was_accepted.

(* ================================================================== (c) redundant parentheses, end to end
   Two source texts that lex without diagnostics to `make <name> get <expression tokens>`, the
   expression tokens being prints (Pratt.print: parentheses where the generated binding powers
   need them, plus any redundant ones) of two annotated trees with the same erasure: same named
   AST, same rule violations, and LITERALLY the same outcome under both runners (such programs have
   no lexical and no syntax diagnostic, so nothing in the outcome carries a position).
   Composition of PARSER_make_statement_roundtrip (C01 / C10 `parens_redundant` on the full parser)
   with: the parser builds the parts of a string literal from its raw text, so C01's abstraction
   abs_expr determines Parser.to_lang.  (One declaration per text: the statement-level print /
   parse round trip is PARSER's partial theorem (d).) *)
Theorem PIPELINE_parens_redundant_end_to_end : forall eps fuel s1 s2 mk1 id1 gt1 ts1 f1 mk2 id2 gt2 ts2 f2
    (a1 a2 : Pratt.aexpr),
  lex Lexer.variant_of_source s1 = Ok (mk1 :: id1 :: gt1 :: ts1, [], f1) ->
  lex Lexer.variant_of_source s2 = Ok (mk2 :: id2 :: gt2 :: ts2, [], f2) ->
  t_kind mk1 = TMake -> t_kind id1 = TIdentifier -> t_kind gt1 = TGet ->
  t_kind mk2 = TMake -> t_kind id2 = TIdentifier -> t_kind gt2 = TGet ->
  t_payload id1 = t_payload id2 ->
  no_eof ts1 -> no_eof ts2 ->
  map ParserPratt.abs_tok ts1 = Pratt.print a1 -> map ParserPratt.abs_tok ts2 = Pratt.print a2 ->
  Pratt.erase a1 = Pratt.erase a2 ->
  (exists d1 d2, front s1 = Front d1 /\ front s2 = Front d2 /\
     fd_lex d1 = [] /\ fd_lex d2 = [] /\ p_diags (fd_parsed d1) = [] /\ p_diags (fd_parsed d2) = [] /\
     fd_ast d1 = fd_ast d2 /\ fd_viol d1 = fd_viol d2) /\
  run_source eps fuel s1 = run_source eps fuel s2 /\
  run_source_impl eps fuel s1 = run_source_impl eps fuel s2.
Proof. exact parens_redundant_end_to_end_lemma. Qed.
Print Assumptions PIPELINE_parens_redundant_end_to_end.

(* the parser only builds string nodes whose parts are computed from their own raw text *)
Theorem PIPELINE_parser_builds_canonical_strings : forall v f m st e st',
  parse_expression f v m st = Done (e, st') -> canon e.
Proof. exact parser_builds_canonical_strings. Qed.
Print Assumptions PIPELINE_parser_builds_canonical_strings.

(* ================================================================== (d) the resolved ids are lexical;
   implementation = reference, end to end.

   The names-only resolution Pipeline.ids = LexResolve.lex_ids (which the correspondence compares
   with the real resolver's ids up to a bijection) produces a tree that satisfies C04's binding
   relation — the statement the C04 work left open — and only attaches ids. *)
Theorem PIPELINE_resolved_ids_are_lexical : forall p p',
  LexResolve.lex_ids p = Some p' -> LexResolve.lexical p' = true.
Proof. exact lex_ids_lexical. Qed.
Print Assumptions PIPELINE_resolved_ids_are_lexical.

Theorem PIPELINE_resolution_keeps_names : forall p p',
  LexResolve.lex_ids p = Some p' -> erase_ids p' = erase_ids p.
Proof. exact lex_ids_erase. Qed.
Print Assumptions PIPELINE_resolution_keeps_names.

(* the static rules and the reference semantics read names only *)
Theorem PIPELINE_static_rules_ignore_ids : forall p, StaticRules.check (erase_ids p) = StaticRules.check p.
Proof. exact check_erase. Qed.
Print Assumptions PIPELINE_static_rules_ignore_ids.

Theorem PIPELINE_reference_semantics_ignores_ids : forall eps fuel p,
  Spec.run_spec eps fuel (erase_ids p) = Spec.run_spec eps fuel p.
Proof. exact run_spec_erase. Qed.
Print Assumptions PIPELINE_reference_semantics_ignores_ids.

(* a tree the static rules accept can always be resolved from names (lex_ids fails only on an
   undeclared variable / function or on duplicate function / parameter names of one block, each of
   which is a rule violation): so every accepted text reaches the runtime, with the facts below *)
Theorem PIPELINE_accepted_program_resolves : forall p,
  StaticRules.check p = [] -> exists q, LexResolve.lex_ids p = Some q.
Proof. exact check_resolves. Qed.
Print Assumptions PIPELINE_accepted_program_resolves.

Theorem PIPELINE_never_unresolved : forall eps fuel src, run_source_impl eps fuel src <> Unresolved.
Proof. exact never_unresolved_lemma. Qed.
Print Assumptions PIPELINE_never_unresolved.

(* the two runners reject together (same phase, same diagnostics) and evaluate together *)
Theorem PIPELINE_runners_agree_on_acceptance : forall eps fuel src,
  (forall ph r, run_source eps fuel src = Rejected ph r <-> run_source_impl eps fuel src = Rejected ph r) /\
  ((exists o e, run_source eps fuel src = Ran o e) <-> (exists o e, run_source_impl eps fuel src = Ran o e)).
Proof. exact runners_agree_on_acceptance. Qed.
Print Assumptions PIPELINE_runners_agree_on_acceptance.

(* For EVERY source text (no hypothesis on the text): if the reference pipeline ends normally or
   with a runtime error (comparable: not stuck, not out of fuel, no unsupported built-in), then the
   id-directed twin, run with the same fuel on the resolved tree, prints the same values and ends
   the same way.  Composition of C04_impl_equals_spec_scoping (ScopeCalls.impl_equals_spec_scoping)
   with (d), check_resolves, run_spec_erase and the fact that Parser.to_lang builds an id-free
   tree.  (The converse direction is false: C04_refuted_early_capture.) *)
Theorem PIPELINE_impl_equals_spec_end_to_end : forall eps fuel src o e,
  run_source eps fuel src = Ran o e -> comparable e = true ->
  run_source_impl eps fuel src = Ran o (ending_of e).
Proof. exact impl_equals_spec_end_to_end_full. Qed.
Print Assumptions PIPELINE_impl_equals_spec_end_to_end.

(* the same one level down: the resolved tree itself *)
Theorem PIPELINE_impl_equals_spec_resolved : forall eps fuel src d p o e,
  front src = Front d -> accepted d = true -> ids (fd_ast d) = Some p ->
  Spec.run_spec eps fuel (fd_ast d) = (o, e) -> comparable e = true ->
  Lang.run_impl None eps fuel p = (o, ending_of e) /\ run_source_impl eps fuel src = Ran o (ending_of e).
Proof. exact impl_equals_spec_resolved_lemma. Qed.
Print Assumptions PIPELINE_impl_equals_spec_resolved.

(* what is known about the tree the runtime is handed, for every accepted source text *)
Theorem PIPELINE_resolved_tree_facts : forall src d p,
  front src = Front d -> ids (fd_ast d) = Some p ->
  erase_ids p = fd_ast d /\ LexResolve.lexical p = true /\ StaticRules.check p = fd_viol d /\ idx_targets p = true.
Proof. exact resolved_tree_facts_lemma. Qed.
Print Assumptions PIPELINE_resolved_tree_facts.

(* ================================================================== (e) an accepted source never reaches the
   structural panic sites
   For EVERY source text accepted by [front], whatever the fuel, run_source_impl does not end in
   `Panicked s` at the six structural sites (argument counts, built-in arity, method argument
   index, comot/next escaping a function, index-assignment target, parameter range) nor at the
   four sites that are dead for all programs.  Composition of
   C06_accepted_by_rules_lexical_never_panics_structural and C06_parser_guarantees_idx_targets with
   (d) and check_erase: the hypotheses `check p = []`, `lexical p`, `erase_ids p = to_lang ..` of
   those theorems are FACTS here.  (The five scoping sites remain: early capture is the open
   finding of C04/C06.) *)
Theorem PIPELINE_accepted_never_panics_end_to_end : forall eps fuel src o s,
  run_source_impl eps fuel src = Ran o (Lang.Panicked s) ->
  s <> Lang.PArgCount /\ s <> Lang.PBuiltinArity /\ s <> Lang.PArgIndex /\ s <> Lang.PBreakEscapes /\
  s <> Lang.PIdxAssignEnd /\ s <> Lang.PParamRange.
Proof. exact accepted_never_panics_end_to_end_lemma. Qed.
Print Assumptions PIPELINE_accepted_never_panics_end_to_end.

Theorem PIPELINE_accepted_never_panics_dead_sites : forall eps fuel src o s,
  run_source_impl eps fuel src = Ran o (Lang.Panicked s) ->
  s <> Lang.PNumOp /\ s <> Lang.PMutBuiltin /\ s <> Lang.PNoFnScope /\ s <> Lang.PFind.
Proof. exact accepted_never_panics_dead_sites_lemma. Qed.
Print Assumptions PIPELINE_accepted_never_panics_dead_sites.

(* ================================================================== the fuel is a bound, not an input
   (LangFuel.run_impl_fuel_mono, end to end) *)
Theorem PIPELINE_run_source_impl_fuel_mono : forall eps n m src o e,
  n <= m -> run_source_impl eps n src = Ran o e -> e <> Lang.EFuel -> run_source_impl eps m src = Ran o e.
Proof. exact run_source_impl_fuel_mono. Qed.
Print Assumptions PIPELINE_run_source_impl_fuel_mono.

Theorem PIPELINE_rejection_independent_of_fuel : forall eps1 n1 eps2 n2 src ph r,
  run_source eps1 n1 src = Rejected ph r ->
  run_source eps2 n2 src = Rejected ph r /\ run_source_impl eps2 n2 src = Rejected ph r.
Proof. exact rejection_independent_of_fuel. Qed.
Print Assumptions PIPELINE_rejection_independent_of_fuel.

(* ================================================================== number literals
   The tree keeps the literal text; resolver and runtime call `text.parse::<f64>()` on it; the model
   reads it with NumParse.to_number (C13).  On every text of the shape of a Number token (digits,
   or digits '.' digits) to_number is inside dec2flt's decimal grammar: never the NaN fallback,
   the value is the correctly rounded decimal (NumParseProofs.to_number_decimal / round_q_interval).
   That the lexer model hands out only such payloads is proved below for every valid UTF-8 text
   (and re-checked on every token of every run of the correspondence: `numlit`); that rustc's
   parse::<f64> is correctly rounded is C13's differential plus the AST comparison of this check
   (the implementation prints the bits of text.parse::<f64>() for every literal). *)
Theorem PIPELINE_number_literal_parses : forall p, number_literal p = true ->
  exists ds e, NumParse.parse_decimal p = Some (ds, e) /\
    num_of_text p = NumParseProofs.exact_round false (NumParse.digits_val 0 ds) e.
Proof. exact number_literal_parses. Qed.
Print Assumptions PIPELINE_number_literal_parses.

(* for every valid UTF-8 text, every Number token of the lexer model is such a text: the bytes
   between the token start and the end of its digits are digits or digits '.' digits (the bad-dot
   recovery replaces the token by the next one; an alphabetic suffix is cut off and reported) *)
Theorem PIPELINE_lexer_numbers_are_literals : forall s, valid_utf8 s = true -> forall toks ds fin,
  lex Lexer.variant_of_source s = Ok (toks, ds, fin) -> Forall (fun t => tok_number_ok t = true) toks.
Proof. exact lexer_numbers_are_literals. Qed.
Print Assumptions PIPELINE_lexer_numbers_are_literals.

Theorem PIPELINE_front_numbers_are_literals : forall s d, valid_utf8 s = true -> front s = Front d ->
  Forall (fun t => tok_number_ok t = true) (fd_tokens d).
Proof. exact front_numbers_are_literals. Qed.
Print Assumptions PIPELINE_front_numbers_are_literals.

Theorem PIPELINE_rendered_numbers_are_literals : forall t, tk_ok t = true ->
  match t with KNumber _ _ => number_literal (snd (fst (tk_tok t))) = true | _ => True end.
Proof. exact rendered_numbers_are_literals. Qed.
Print Assumptions PIPELINE_rendered_numbers_are_literals.

(* ================================================================== non-vacuity: a complete program given
   as BYTES, evaluated end to end by computation, under two layouts
     make x get 2 add 3 times 4 / do f(a) start return a minus 1 end / shout(f(x)) / shout("v={x}")
   prints 13 and "v=14" *)
Definition eps0 : F64.f64 := F64.of_Z 0.
Definition thirteen : Lang.value := Lang.VNum (F64.of_Z 13).

Example PIPELINE_example_line :
  valid_utf8 ex_src_line = true /\
  run_source eps0 100 ex_src_line = Ran [thirteen; Lang.VStr [118; 61; 49; 52]%Z] Spec.SDone /\
  run_source_impl eps0 100 ex_src_line = Ran [thirteen; Lang.VStr [118; 61; 49; 52]%Z] Lang.Done.
Proof. vm_compute. repeat split. Qed.

Example PIPELINE_example_tall :
  valid_utf8 ex_src_tall = true /\
  run_source eps0 100 ex_src_tall = Ran [thirteen; Lang.VStr [118; 61; 49; 52]%Z] Spec.SDone /\
  run_source_impl eps0 100 ex_src_tall = Ran [thirteen; Lang.VStr [118; 61; 49; 52]%Z] Lang.Done.
Proof. vm_compute. repeat split. Qed.

Example PIPELINE_example_same_view :
  front_view_of (front ex_src_line) = front_view_of (front ex_src_tall) /\
  option_map fv_accepted (front_view_of (front ex_src_line)) = Some true.
Proof. vm_compute. split; reflexivity. Qed.

(* the hypotheses of (d) / (e) on the example: the resolved tree is lexical, passes the static
   rules, has the parser's shape, and has no early capture *)
Example PIPELINE_example_resolved :
  exists d p, front ex_src_line = Front d /\ accepted d = true /\ ids (fd_ast d) = Some p /\
    LexResolve.lexical p = true /\ StaticRules.check p = [] /\ idx_targets p = true /\
    LexResolve.no_early_capture p = true.
Proof. eexists. eexists. vm_compute. repeat split. Qed.

(* a comparable runtime-error ending: shout(1) shout(1 divide 0) prints 1, then Division by zero *)
Definition ex_src_divzero : bytes :=
  [115;104;111;117;116;40;49;41;10;115;104;111;117;116;40;49;32;100;105;118;105;100;101;32;48;41;10]%Z.
Example PIPELINE_example_runtime_error :
  run_source eps0 100 ex_src_divzero = Ran [Lang.VNum (F64.of_Z 1)] (Spec.SRtErr Lang.DivZero) /\
  run_source_impl eps0 100 ex_src_divzero = Ran [Lang.VNum (F64.of_Z 1)] (Lang.RtErr Lang.DivZero).
Proof. vm_compute. split; reflexivity. Qed.

(* make x get (1 add 2) times 3   versus   make x get ((1 add (2))) times ((3)) *)
Definition ex_src_parens1 : bytes :=
  [109;97;107;101;32;120;32;103;101;116;32;40;49;32;97;100;100;32;50;41;32;116;105;109;101;115;32;51;10]%Z.
Definition ex_src_parens2 : bytes :=
  [109;97;107;101;32;120;32;103;101;116;32;40;40;49;32;97;100;100;32;40;50;41;41;41;32;116;105;109;101;115;32;40;40;51;41;41;10]%Z.
Example PIPELINE_example_parens :
  option_map fv_ast (front_view_of (front ex_src_parens1)) = option_map fv_ast (front_view_of (front ex_src_parens2)) /\
  run_source eps0 50 ex_src_parens1 = run_source eps0 50 ex_src_parens2 /\
  run_source eps0 50 ex_src_parens1 = Ran [] Spec.SDone.
Proof. vm_compute. repeat split. Qed.

(* C10's worked token list under its two layouts (Layout.ex_tokens / ex_layout_line / ex_layout_tall):
   the hypotheses of (b) hold, and the conclusion recomputed: prints "a<LF>1" under both *)
Example PIPELINE_example_layouts :
  forallb tk_ok ex_tokens = true /\
  wf_layout ex_tokens ex_layout_line && separating ex_tokens ex_layout_line = true /\
  wf_layout ex_tokens ex_layout_tall && separating ex_tokens ex_layout_tall = true /\
  run_source eps0 100 (render ex_tokens ex_layout_line) = Ran [Lang.VStr [97; 10; 49]%Z] Spec.SDone /\
  run_source eps0 100 (render ex_tokens ex_layout_tall) = Ran [Lang.VStr [97; 10; 49]%Z] Spec.SDone /\
  run_source_impl eps0 100 (render ex_tokens ex_layout_tall) = Ran [Lang.VStr [97; 10; 49]%Z] Lang.Done.
Proof. vm_compute. repeat split. Qed.

(* where (d) and (e) end: shout(f()) / make x get 1 / do f() start return x end  — accepted, the
   reference is stuck (not comparable), the id-directed twin panics at a SCOPING site (the open
   early-capture finding of C04 / C06), which is none of the ten sites of (e) *)
Definition ex_src_early : bytes :=
  [115;104;111;117;116;40;102;40;41;41;10;109;97;107;101;32;120;32;103;101;116;32;49;10;
   100;111;32;102;40;41;32;115;116;97;114;116;32;114;101;116;117;114;110;32;120;32;101;110;100;10]%Z.
Example PIPELINE_example_early_capture :
  run_source eps0 100 ex_src_early = Ran [] Spec.SIsStuck /\
  run_source_impl eps0 100 ex_src_early = Ran [] (Lang.Panicked Lang.PVarMissing).
Proof. vm_compute. split; reflexivity. Qed.

(* the three rejecting phases, and the lazy lexer: the unterminated string behind the point where
   the parser gave up is never reported *)
Example PIPELINE_example_rejections :
  (exists r, run_source eps0 100 ex_src_static = Rejected PhStatic r /\
             rj_static r = [(StaticRules.UndeclaredVar, [0])]) /\
  (exists r, run_source eps0 100 ex_src_syntax = Rejected PhSyntax r /\ rj_static r = []) /\
  (exists r, run_source eps0 100 ex_src_lexical = Rejected PhLexical r /\
             map ldiag_kind (rj_lex r) = [(EUnexpectedChar, 0%Z)]) /\
  (exists d, front ex_src_unlexed = Front d /\ length (fd_lex_all d) = 1 /\ fd_lex d = [] /\
             rejecting_phase d = Some PhSyntax).
Proof.
  refine (conj _ (conj _ (conj _ _))); eexists; vm_compute; split; try reflexivity.
  repeat split.
Qed.
