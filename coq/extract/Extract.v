(* Extraction of the executable models to OCaml (ExtrOcamlBasic only). *)
Require Import ExtrOcamlBasic.
Require Import NS.theories.Generated NS.theories.Bump NS.theories.Pool NS.theories.StrLib NS.theories.NumParse NS.theories.CaseMap.
Extraction Language OCaml.
Extraction "extract/Model.ml"
  Bump.ctrace Bump.cinit Bump.cstep Bump.observe
  Pool.pstep Pool.pool_new Pool.pcounters Pool.sstep Pool.pset_new Pool.class_counters Pool.size_class
  StrLib.find StrLib.replace StrLib.split StrLib.join StrLib.slice StrLib.str_len StrLib.trim StrLib.is_whitespace
  NumParse.to_number_bits NumParse.roundtrip_obs
  CaseMap.to_upper CaseMap.to_lower CaseMap.upper_cp CaseMap.lower_cp CaseMap.encode.
