(* Extraction of the executable models to OCaml (ExtrOcamlBasic only). *)
Require Import ExtrOcamlBasic.
Require Import NS.theories.Generated NS.theories.Bump.
Extraction Language OCaml.
Extraction "extract/Model.ml"
  Bump.ctrace Bump.cinit Bump.cstep Bump.observe.
