(* Extraction of the container layer over the bump arena model (C11). *)
Require Import ExtrOcamlBasic.
Require Import NS.theories.Generated NS.theories.Bump NS.theories.BumpVec.
Extraction Language OCaml.
Extraction "extract/ModelBumpVec.ml" BumpVec.kinit BumpVec.kstep BumpVec.kobserve.
