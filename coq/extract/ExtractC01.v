(* Extraction of the C01 models: float operations (validated one by one against rustc), the
   token-level Pratt parser, template strings, and the simple type system (ExtrOcamlBasic only). *)
Require Import ExtrOcamlBasic.
Require Import NS.theories.F64 NS.theories.Lang NS.theories.GenPratt NS.theories.Pratt
               NS.theories.Template NS.theories.GenTemplate NS.theories.SimpleTypes.
Extraction Language OCaml.
Extraction "extract/ModelC01.ml"
  F64.of_bits F64.to_bits F64.fmt F64.fadd F64.fsub F64.fmul F64.fdiv F64.frem F64.fsqrt
  F64.ffloor F64.fceil F64.fround F64.fabs F64.fneg F64.to_isize F64.to_usize F64.is_int
  F64.is_finite F64.flt F64.fle F64.feqb F64.feq_eps F64.of_Z
  GenPratt.op_tokens Pratt.parse_tokens Pratt.print Pratt.embed
  Template.parse_string_literal Template.template_reading Template.parts_items
  GenTemplate.variant_of_source
  SimpleTypes.simply_typed.
