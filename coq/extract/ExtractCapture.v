(* Extraction of the C16 capture model to OCaml (ExtrOcamlBasic only). *)
Require Import ExtrOcamlBasic.
Require Import NS.theories.GenCapture NS.theories.Capture.
Extraction Language OCaml.
Extraction "extract/ModelCapture.ml"
  Capture.init Capture.step Capture.run Capture.outcome_of Capture.run_outcome
  Capture.outcome_ok Capture.utf8_valid Capture.captured GenCapture.read_chunk
  Capture.mk_cfg Capture.hc_of_list Capture.effective_timeout.
