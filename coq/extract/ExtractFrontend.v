(* Extraction of the C07 models (lexer, renderer geometry) to OCaml (ExtrOcamlBasic only). *)
Require Import ExtrOcamlBasic.
Require Import NS.theories.Utf8 NS.theories.GenLexer NS.theories.Lexer NS.theories.Render.
Extraction Language OCaml.
Extraction "extract/ModelFrontend.ml"
  Utf8.valid_utf8 Utf8.span_wfb
  GenLexer.tok_name GenLexer.lexerr_msg
  Lexer.lex Lexer.shipped Lexer.repaired Lexer.variant_of_source
  Render.render_diagnostic Render.render_lines Render.compute_line_starts.
