(* Extraction of the core-language model (ExtrOcamlBasic only). *)
Require Import ExtrOcamlBasic.
Require Import NS.theories.F64 NS.theories.StrLib NS.theories.Lang NS.theories.Spec.
Extraction Language OCaml.
Extraction "extract/ModelLang.ml"
  F64.of_bits F64.to_bits F64.fmt F64.fadd F64.fsub F64.fmul F64.fdiv F64.frem F64.fsqrt
  F64.ffloor F64.fceil F64.fround F64.fabs F64.fneg F64.to_isize F64.to_usize F64.is_int F64.flt F64.feqb
  Lang.run_impl Lang.display Spec.run_spec.
