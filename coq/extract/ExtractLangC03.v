(* Extraction of the C03 plan checkers (ExtrOcamlBasic only). *)
Require Import ExtrOcamlBasic.
Require Import NS.theories.F64 NS.theories.StrLib NS.theories.Lang NS.theories.PlanCheck NS.theories.LiveCheck.
Extraction Language OCaml.
Extraction "extract/ModelLangC03.ml"
  F64.of_bits F64.to_bits Lang.run_impl PlanCheck.plan_ok PlanCheck.plan_ok2 PlanCheck.prunable_unreachable
  LiveCheck.plan_ok3 LiveCheck.plan_ok4 LiveCheck.ds_ok LiveCheck.ds_ok_x.
