(* Extraction of the C04 binding checkers (ExtrOcamlBasic only). *)
Require Import ExtrOcamlBasic.
Require Import NS.theories.F64 NS.theories.Lang NS.theories.LexResolve.
Extraction Language OCaml.
Extraction "extract/ModelLangC04.ml"
  F64.of_bits
  LexResolve.lexical LexResolve.lexical_bij LexResolve.lex_ids LexResolve.same_binding_structure
  LexResolve.chk_block LexResolve.ids_ok LexResolve.no_early_capture LexResolve.nofn.
