(* Extraction of the C06 static checkers (ExtrOcamlBasic only). *)
Require Import ExtrOcamlBasic.
Require Import NS.theories.F64 NS.theories.Lang NS.theories.WfStatic NS.theories.WfScoped.
Extraction Language OCaml.
Extraction "extract/ModelLangC06.ml"
  F64.of_bits WfStatic.wf_static WfStatic.loopctl_static WfStatic.ftable WfScoped.wf_scoped.
