(* Extraction of the C06 round-2 tie: the static-rules checker (C09 model), the structural
   checker (C06) and the id-consistency checkers between them (ExtrOcamlBasic only). *)
Require Import ExtrOcamlBasic.
Require Import NS.theories.F64 NS.theories.Lang NS.theories.StaticRules NS.theories.WfStatic
               NS.theories.LexResolve NS.theories.RulesWf.
Extraction Language OCaml.
Extraction "extract/ModelLangC06R.ml"
  F64.of_bits StaticRules.check WfStatic.wf_static
  RulesWf.ids_consistent RulesWf.calls_lexical RulesWf.fids_unique RulesWf.params_in_range
  RulesWf.idx_targets LexResolve.lexical LexResolve.nofn.
