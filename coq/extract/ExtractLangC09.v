(* Extraction of the static-rules checker (C09) (ExtrOcamlBasic only). *)
Require Import ExtrOcamlBasic.
Require Import NS.theories.Lang NS.theories.GenRules NS.theories.StaticRules.
Extraction Language OCaml.
Extraction "extract/ModelLangC09.ml" StaticRules.check StaticRules.category.
