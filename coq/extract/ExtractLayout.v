(* Extraction of the C10 layout model (with the lexer model it is stated over) to OCaml
   (ExtrOcamlBasic only). *)
Require Import ExtrOcamlBasic.
Require Import NS.theories.Utf8 NS.theories.GenLexer NS.theories.Lexer NS.theories.Layout.
Extraction Language OCaml.
Extraction "extract/ModelLayout.ml"
  GenLexer.tok_name GenLexer.all_toks GenLexer.multi_table GenLexer.keyword_table
  Lexer.lex Lexer.variant_of_source
  Layout.render Layout.tk_ok Layout.wf_layout Layout.separating Layout.tk_tok Layout.kpo.
