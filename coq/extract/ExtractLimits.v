(* Extraction of the C18 model (analysis budgets) to OCaml (ExtrOcamlBasic only). *)
Require Import ExtrOcamlBasic.
Require Import NS.theories.GenLimits NS.theories.Limits.
Extraction Language OCaml.
Extraction "extract/ModelLimits.ml"
  Limits.first_exceeded_limit Limits.default_caps Limits.counts_of_program Limits.program_limit
  Limits.emit_analysis_warnings Limits.emit_analysis_warnings_with Limits.accepted
  Limits.stmt_is_pruned Limits.function_is_pruned
  Limits.summary_fn_threshold Limits.summary_event_bound Limits.liveness_event_bound
  Limits.z_of_digits Limits.digits_of_z Limits.metric_index Limits.n_functions.
