(* Extraction of the storage model of C02 (ExtrOcamlBasic only). *)
Require Import ExtrOcamlBasic.
Require Import NS.theories.F64 NS.theories.Lang NS.theories.Mem.
Extraction Language OCaml.
Extraction "extract/ModelMem.ml" F64.of_bits F64.to_bits Mem.observe Mem.aobserve Mem.cfg_repaired.
