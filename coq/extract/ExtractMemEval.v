(* Extraction of the instrumented evaluator of C02 (ExtrOcamlBasic only). *)
Require Import ExtrOcamlBasic.
Require Import NS.theories.F64 NS.theories.Lang NS.theories.Mem NS.theories.MemEval.
Extraction Language OCaml.
Extraction "extract/ModelMemEval.ml" F64.of_bits F64.to_bits MemEval.memeval_report MemEval.eval_ops.
