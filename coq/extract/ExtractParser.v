(* Extraction of the parser model (and the lexer model it is also run behind) to OCaml
   (ExtrOcamlBasic only).  The two aliases only give the variants stable OCaml names. *)
Require Import ExtrOcamlBasic.
Require Import NS.theories.Utf8 NS.theories.GenLexer NS.theories.Lexer NS.theories.GenParser NS.theories.Parser.
Require NS.theories.F64.
Definition lexer_variant_src : Lexer.variant := Lexer.variant_of_source.
Definition parser_variant_src : Parser.pvariant := Parser.variant_of_source.
Extraction Language OCaml.
Extraction "extract/ModelParser.ml"
  Utf8.valid_utf8
  GenLexer.tok_name GenLexer.all_toks
  Lexer.lex lexer_variant_src
  GenParser.synerr_msg
  Parser.parse_program parser_variant_src Parser.to_lang
  F64.of_bits F64.to_bits.
