(* Extraction of the end-to-end pipeline model (check PIPELINE) to OCaml (ExtrOcamlBasic only).
   The aliases only give the two source variants stable OCaml names. *)
Require Import ExtrOcamlBasic.
Require Import NS.theories.Utf8 NS.theories.GenLexer NS.theories.Lexer NS.theories.GenParser NS.theories.Parser.
Require NS.theories.F64 NS.theories.Lang NS.theories.Spec NS.theories.NumParse NS.theories.StaticRules
        NS.theories.LexResolve NS.theories.RulesWf NS.theories.Pipeline.
Extraction Language OCaml.
Extraction "extract/ModelPipeline.ml"
  Utf8.valid_utf8
  GenLexer.tok_name GenLexer.lexerr_msg GenParser.synerr_msg
  F64.of_bits F64.to_bits
  Lang.display
  StaticRules.category
  LexResolve.lexical LexResolve.same_binding_structure LexResolve.no_early_capture
  RulesWf.erase_ids
  Pipeline.tok_number_ok
  Pipeline.front Pipeline.accepted Pipeline.rejecting_phase Pipeline.rejection_of Pipeline.ids
  Pipeline.spec_of_front Pipeline.impl_of_front Pipeline.run_source Pipeline.run_source_impl.
