(* Extraction of the C15 model (theories/Proc.v) to OCaml (ExtrOcamlBasic only). *)
Require Import ExtrOcamlBasic.
Require Import NS.theories.GenProc NS.theories.Proc.
Extraction Language OCaml.
Extraction "extract/ModelProc.ml"
  GenProc.default_caps GenProc.mkCaps GenProc.caps_fields
  Proc.command_new Proc.push_arg Proc.set_cwd Proc.set_env Proc.set_stdin Proc.set_stdout
  Proc.set_stderr Proc.set_timeout Proc.validate Proc.mkPolicy Proc.run_once Proc.run_script
  Proc.apply_call Proc.spec_lookup Proc.spec_argv.
