(* Extraction of the read_line model (property C17) to OCaml (ExtrOcamlBasic only). *)
Require Import ExtrOcamlBasic.
Require Import NS.theories.GenReadLine NS.theories.ReadLine.
Extraction Language OCaml.
Extraction "extract/ModelReadLine.ml" ReadLine.run ReadLine.expected_fast.
