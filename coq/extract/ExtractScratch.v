(* Extraction of the scratch-arena model (C14) to OCaml (ExtrOcamlBasic only). *)
Require Import ExtrOcamlBasic.
Require Import NS.theories.Generated NS.theories.Bump NS.theories.GenWiring NS.theories.Scratch.
Extraction Language OCaml.
Extraction "extract/ModelScratch.ml"
  Scratch.sinit Scratch.nstep Scratch.norm Scratch.discb Scratch.sop_okb Scratch.sobserve
  Scratch.expand Scratch.w0 Scratch.lib_script GenWiring.cli_script GenWiring.wasm_script
  Scratch.exit_code.
