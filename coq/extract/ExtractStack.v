(* Extraction of the C08 stack model (ExtrOcamlBasic only). *)
Require Import ExtrOcamlBasic.
Require Import NS.theories.GenStack NS.theories.StackModel.
Extraction Language OCaml.
Extraction "extract/ModelStack.ml"
  StackModel.classify_shape StackModel.fn_status GenStack.fn_names StackModel.model_meta StackModel.off_cycle StackModel.runtime_noguard
  StackModel.edge GenStack.call_graph GenStack.jump_edges StackModel.descent_edges.
