(* nsmodel — runs the extracted Coq models on the same inputs as the Rust harness.
   Hand-written glue (trusted): parsing of input lines, conversion between OCaml ints /
   strings and the extracted Z / nat / lists, printing of canonical observation lines. *)
open Model

let rec pos_of_int (i : int) : positive =
  if i = 1 then XH
  else if i land 1 = 0 then XO (pos_of_int (i lsr 1))
  else XI (pos_of_int (i lsr 1))

let z_of_int (i : int) : z =
  if i = 0 then Z0 else if i > 0 then Zpos (pos_of_int i) else Zneg (pos_of_int (-i))

let rec int_of_pos (p : positive) : int =
  match p with XH -> 1 | XO q -> 2 * int_of_pos q | XI q -> 2 * int_of_pos q + 1

let int_of_z (x : z) : int =
  match x with Z0 -> 0 | Zpos p -> int_of_pos p | Zneg p -> - (int_of_pos p)

let rec nat_of_int (i : int) : nat = if i <= 0 then O else S (nat_of_int (i - 1))
let rec int_of_nat (n : nat) : int = match n with O -> 0 | S m -> 1 + int_of_nat m

let zs = fun x -> string_of_int (int_of_z x)

let read_lines path =
  let ic = open_in path in
  let rec go acc = match input_line ic with
    | l -> go (l :: acc)
    | exception End_of_file -> close_in ic; List.rev acc in
  go []

let words l = List.filter (fun s -> s <> "") (String.split_on_char ' ' (String.trim l))

(* ------------------------------------------------------------------ bump *)
let bump_mode dbg inp outp =
  let oc = open_out outp in
  let c = ref (cinit Z0 Z0) in
  let started = ref false in
  List.iter (fun line ->
    match words line with
    | [] -> ()
    | "H" :: id :: cap :: base :: _ ->
        c := cinit (z_of_int (int_of_string base)) (z_of_int (int_of_string cap));
        started := true;
        Printf.fprintf oc "H %s cap=%s base=%s\n" id (zs (!c).c_s.s_a.a_cap) base
    | w ->
        if not !started then failwith "history header first";
        let n i = int_of_string (List.nth w i) in
        let o = match List.hd w with
          | "A" -> OAlloc (z_of_int (n 1), nat_of_int (n 2))
          | "Z" -> OAllocZ (z_of_int (n 1), nat_of_int (n 2))
          | "G" -> OGrow (nat_of_int (n 1), z_of_int (n 2), n 3 <> 0)
          | "S" -> OShrink (nat_of_int (n 1), z_of_int (n 2))
          | "R" -> OReset (z_of_int (n 1))
          | "RB" -> OResetBlk (nat_of_int (n 1))
          | "D" -> ODecommit
          | "W" -> OWrite (nat_of_int (n 1), z_of_int (n 2))
          | "B" -> OBorrow
          | "E" -> ORelease
          | s -> failwith ("unknown op " ^ s) in
        let (c', r) = cstep dbg !c o in
        c := c';
        (match r with
         | RBlock (ok, b, l) -> Printf.fprintf oc "blk %d %s %s" (if ok then 1 else 0) (zs b) (zs l)
         | RNone -> output_string oc "none");
        let (((off, com), nl), chk) = observe c' in
        Printf.fprintf oc " | %s %s %s %s\n" (zs off) (zs com) (zs nl) (zs chk)
  ) (read_lines inp);
  close_out oc

let () =
  match Array.to_list Sys.argv with
  | _ :: "bump" :: dbg :: inp :: outp :: _ -> bump_mode (dbg = "1") inp outp
  | _ -> prerr_endline "usage: nsmodel <mode> ..."; exit 2
