(* main.ml — nsmodel entry point: nsmodel <mode> args... *)
let () =
  match Array.to_list Sys.argv with
  | _ :: mode :: args ->
      (match Hashtbl.find_opt Modes.table mode with
       | Some f -> f args
       | None -> prerr_endline ("nsmodel: unknown mode " ^ mode); exit 2)
  | _ -> prerr_endline "usage: nsmodel <mode> ..."; exit 2
