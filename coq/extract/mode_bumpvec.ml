(* nsmodel bumpvec <dbg> <in> <out> — runs BumpVec.kstep (the Bump.v client plus the
   arena's client containers) on the same history files as `nsverif bump`.
   Hand-written glue (trusted): line parsing, data-spec expansion, UTF-8 encoding of a
   code point, printing. *)
open ModelBumpVec
open Modes

let rec pos_of_int (i : int) : positive =
  if i = 1 then XH
  else if i land 1 = 0 then XO (pos_of_int (i lsr 1))
  else XI (pos_of_int (i lsr 1))
let z_of_int (i : int) : z =
  if i = 0 then Z0 else if i > 0 then Zpos (pos_of_int i) else Zneg (pos_of_int (-i))
let rec int_of_pos (p : positive) : int =
  match p with XH -> 1 | XO q -> 2 * int_of_pos q | XI q -> 2 * int_of_pos q + 1
let int_of_z (x : z) : int =
  match x with Z0 -> 0 | Zpos p -> int_of_pos p | Zneg p -> - (int_of_pos p)
let rec nat_of_int (i : int) : nat = if i <= 0 then O else S (nat_of_int (i - 1))
let zs = fun x -> string_of_int (int_of_z x)

(* data specs: "-" empty, "x<hex>" explicit bytes, "p<seed>:<n>" printable-ASCII pattern *)
let data_of spec : z list =
  if spec = "-" then []
  else if spec.[0] = 'x' then
    List.init ((String.length spec - 1) / 2) (fun i -> z_of_int (int_of_string ("0x" ^ String.sub spec (1 + 2 * i) 2)))
  else if spec.[0] = 'p' then begin
    match String.split_on_char ':' (String.sub spec 1 (String.length spec - 1)) with
    | [s; n] ->
        let s = int_of_string s and n = int_of_string n in
        List.init n (fun i -> z_of_int (32 + (((s + 7 * i) mod 95) + 95) mod 95))
    | _ -> failwith "bad data spec"
  end else failwith "bad data spec"

let utf8 cp : int list =
  if cp < 0x80 then [cp]
  else if cp < 0x800 then [0xC0 lor (cp lsr 6); 0x80 lor (cp land 0x3F)]
  else if cp < 0x10000 then [0xE0 lor (cp lsr 12); 0x80 lor ((cp lsr 6) land 0x3F); 0x80 lor (cp land 0x3F)]
  else [0xF0 lor (cp lsr 18); 0x80 lor ((cp lsr 12) land 0x3F); 0x80 lor ((cp lsr 6) land 0x3F); 0x80 lor (cp land 0x3F)]

let bumpvec_mode dbg inp outp =
  let oc = open_out outp in
  let k = ref (kinit Z0 Z0) in
  let started = ref false in
  List.iter (fun line ->
    match words line with
    | [] -> ()
    | "H" :: id :: cap :: base :: _ ->
        k := kinit (z_of_int (int_of_string base)) (z_of_int (int_of_string cap));
        started := true;
        Printf.fprintf oc "H %s cap=%s base=%s\n" id (zs (!k).k_c.c_s.s_a.a_cap) base
    | w ->
        if not !started then failwith "history header first";
        let n i = int_of_string (List.nth w i) in
        let zn i = z_of_int (n i) in
        let d i = data_of (List.nth w i) in
        let o = match List.hd w with
          | "A" -> KRaw (OAlloc (zn 1, nat_of_int (n 2)))
          | "Z" -> KRaw (OAllocZ (zn 1, nat_of_int (n 2)))
          | "G" -> KRaw (OGrow (nat_of_int (n 1), zn 2, n 3 <> 0))
          | "S" -> KRaw (OShrink (nat_of_int (n 1), zn 2))
          | "R" -> KRaw (OReset (zn 1))
          | "RB" -> KRaw (OResetBlk (nat_of_int (n 1)))
          | "D" -> KRaw ODecommit
          | "W" -> KRaw (OWrite (nat_of_int (n 1), zn 2))
          | "B" -> KRaw OBorrow
          | "E" -> KRaw ORelease
          | "KN" -> if n 1 = 0 then KNew (true, z_of_int 1, nat_of_int 0, zn 2)
                    else KNew (false, z_of_int 4, nat_of_int 2, zn 2)
          | "KF" -> KFrom (d 2)
          | "KA" -> KFmt (d 1)
          | "KD" -> KClone (nat_of_int (n 1))
          | "KP" -> KAppend (nat_of_int (n 1), false, d 3)
          | "KC" -> KAppend (nat_of_int (n 1), true, List.map z_of_int (utf8 (n 3)))
          | "KR" -> let u = List.map z_of_int (utf8 (n 2)) in
                    KAppend (nat_of_int (n 1), true, List.concat (List.init (n 3) (fun _ -> u)))
          | "KV" -> KReserve (nat_of_int (n 1), false, zn 2)
          | "KE" -> KReserve (nat_of_int (n 1), true, zn 2)
          | "KX" -> KReplace (nat_of_int (n 1), zn 3, zn 4, d 5)
          | "KO" -> KReplaceOnce (nat_of_int (n 1), zn 2, zn 3, d 4)
          | "KS" -> KShrinkFit (nat_of_int (n 1))
          | "KZ" -> KClear (nat_of_int (n 1))
          | s -> failwith ("unknown op " ^ s) in
        let (k', r) = kstep dbg !k o in
        k := k';
        (match r with
         | KR (RBlock (ok, b, l)) -> Printf.fprintf oc "blk %d %s %s" (if ok then 1 else 0) (zs b) (zs l)
         | KR RNone | KSkip -> output_string oc "none"
         | KVec (off, lenb, capb) -> Printf.fprintf oc "vec %s %s %s" (zs off) (zs lenb) (zs capb));
        let (((off, com), nl), chk) = kobserve k' in
        Printf.fprintf oc " | %s %s %s %s\n" (zs off) (zs com) (zs nl) (zs chk)
  ) (read_lines inp);
  close_out oc

let () =
  register "bumpvec" (function dbg :: inp :: outp :: _ -> bumpvec_mode (dbg = "1") inp outp | _ -> failwith "bumpvec: args")
