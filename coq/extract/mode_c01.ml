(* mode_c01.ml — nsmodel modes of property C01 (trusted glue):
     nsmodel c01f64 <in> <out>       float operations of F64.v on bit patterns
     nsmodel pratt <in> <out>        token-level Pratt parser on token lists
     nsmodel template <in> <out>     parse_string_literal + the documented reading
     nsmodel simpletypes <in> <out>  SimpleTypes.simply_typed on dumped ASTs *)
open ModelC01
open Modes

let rec pos_of_int (i : int) : positive =
  if i = 1 then XH else if i land 1 = 0 then XO (pos_of_int (i lsr 1)) else XI (pos_of_int (i lsr 1))
let z_of_int (i : int) : z =
  if i = 0 then Z0 else if i > 0 then Zpos (pos_of_int i) else Zneg (pos_of_int (-i))
let rec int_of_pos (p : positive) : int =
  match p with XH -> 1 | XO q -> 2 * int_of_pos q | XI q -> 2 * int_of_pos q + 1
let int_of_z (x : z) : int =
  match x with Z0 -> 0 | Zpos p -> int_of_pos p | Zneg p -> - (int_of_pos p)

let pos_of_hex (h : string) : positive option =
  let acc = ref None in
  String.iter (fun c ->
    let d = int_of_string ("0x" ^ String.make 1 c) in
    for k = 3 downto 0 do
      let bit = (d lsr k) land 1 = 1 in
      acc := (match !acc, bit with
        | None, true -> Some XH
        | None, false -> None
        | Some p, true -> Some (XI p)
        | Some p, false -> Some (XO p))
    done) h;
  !acc
let z_of_hex (h : string) : z = match pos_of_hex h with None -> Z0 | Some p -> Zpos p
let z_of_shex (h : string) : z =
  if String.length h > 0 && h.[0] = '-' then
    (match pos_of_hex (String.sub h 1 (String.length h - 1)) with None -> Z0 | Some p -> Zneg p)
  else z_of_hex h

let hex_of_pos (p : positive) : string =
  let rec bits p acc = match p with
    | XH -> 1 :: acc | XO q -> bits q (0 :: acc) | XI q -> bits q (1 :: acc) in
  let bl = bits p [] in
  let n = List.length bl in
  let width = max 64 (((n + 3) / 4) * 4) in
  let padded = (List.init (width - n) (fun _ -> 0)) @ bl in
  let b = Buffer.create 16 in
  let rec go l = match l with
    | a :: b1 :: c :: d :: r -> Buffer.add_string b (Printf.sprintf "%x" (a*8 + b1*4 + c*2 + d)); go r
    | [] -> ()
    | _ -> failwith "hex_of_pos" in
  go padded; Buffer.contents b
let hex_of_z (x : z) : string =
  match x with Z0 -> String.make 16 '0' | Zpos p -> hex_of_pos p | Zneg p -> "-" ^ hex_of_pos p

let bytes_of_hex (h : string) : z list =
  if h = "-" then [] else
  List.init (String.length h / 2) (fun i -> z_of_int (int_of_string ("0x" ^ String.sub h (2*i) 2)))
let hex_of_bytes (b : z list) : string =
  if b = [] then "-" else String.concat "" (List.map (fun x -> Printf.sprintf "%02x" (int_of_z x)) b)
let bytes_of_string (s : string) : z list =
  List.init (String.length s) (fun i -> z_of_int (Char.code s.[i]))
let string_of_bytes (b : z list) : string =
  String.concat "" (List.map (fun x -> String.make 1 (Char.chr (int_of_z x))) b)

(* ---------------------------------------------------------------- c01f64 *)
let f64_mode inp outp =
  let oc = open_out outp in
  List.iter (fun line ->
    match words line with
    | [] -> ()
    | op :: args ->
        let a i = of_bits (z_of_hex (List.nth args i)) in
        let num x = (match x with S754_nan -> "nan" | _ -> hex_of_z (to_bits x)) in
        let b x = if x then "1" else "0" in
        let r = (match op with
          | "add" -> num (fadd (a 0) (a 1)) | "sub" -> num (fsub (a 0) (a 1))
          | "mul" -> num (fmul (a 0) (a 1)) | "div" -> num (fdiv (a 0) (a 1))
          | "rem" -> num (frem (a 0) (a 1)) | "sqrt" -> num (fsqrt (a 0))
          | "floor" -> num (ffloor (a 0)) | "ceil" -> num (fceil (a 0)) | "round" -> num (fround (a 0))
          | "abs" -> num (fabs (a 0)) | "neg" -> num (fneg (a 0))
          | "isize" -> hex_of_z (to_isize (a 0))
          | "usize" -> hex_of_z (to_usize (a 0))
          | "isint" -> b (is_int (a 0))
          | "isfinite" -> b (is_finite (a 0))
          | "lt" -> b (flt (a 0) (a 1)) | "le" -> b (fle (a 0) (a 1)) | "eq" -> b (feqb (a 0) (a 1))
          | "eqeps" -> b (feq_eps (a 0) (a 1) (a 2))
          | "fmt" -> hex_of_bytes (fmt (a 0))
          | "ofz" -> num (of_Z (z_of_shex (List.nth args 0)))
          | "bits" -> num (a 0)
          | _ -> "?") in
        Printf.fprintf oc "%s\n" r) (read_lines inp);
  close_out oc

(* ---------------------------------------------------------------- pratt *)
(* token syntax: L:<canonical leaf text>  I:<hex name>  K:<Token variant name> *)
let tok_of_string (s : string) : ptok =
  let n = String.length s in
  if n >= 2 && s.[1] = ':' then begin
    let body = String.sub s 2 (n - 2) in
    match s.[0] with
    | 'L' -> TLit (bytes_of_string body)
    | 'I' -> TIdent (bytes_of_hex body)
    | 'K' ->
        (match body with
         | "Not" -> TNot
         | "LParen" -> TLP | "RParen" -> TRP | "LBracket" -> TLB | "RBracket" -> TRB
         | "Comma" -> TComma | "Dot" -> TDot
         | _ ->
             (match List.find_opt (fun (nm, _) -> string_of_bytes nm = body) op_tokens with
              | Some (_, op) -> TOp op
              | None -> TOther (bytes_of_string body)))
    | _ -> TOther (bytes_of_string s)
  end else TOther (bytes_of_string s)

let binop_name = function
  | Add -> "add" | Minus -> "minus" | Times -> "times" | Divide -> "divide" | Mod -> "mod"
  | And -> "and" | Or -> "or" | OEq -> "eq" | OGt -> "gt" | OLt -> "lt"

let rec tree (b : Buffer.t) (e : pexpr) : unit =
  match e with
  | PLit a -> Buffer.add_string b ("(lit " ^ string_of_bytes a ^ ")")
  | PVar n -> Buffer.add_string b ("(var " ^ hex_of_bytes n ^ ")")
  | PUn (u, x) -> Buffer.add_string b (match u with Not -> "(un not " | Neg -> "(un neg "); tree b x; Buffer.add_char b ')'
  | PBin (op, x, y) -> Buffer.add_string b ("(bin " ^ binop_name op ^ " "); tree b x; Buffer.add_char b ' '; tree b y; Buffer.add_char b ')'
  | PArr es -> Buffer.add_string b "(arr"; List.iter (fun x -> Buffer.add_char b ' '; tree b x) es; Buffer.add_char b ')'
  | PIdx (x, i) -> Buffer.add_string b "(idx "; tree b x; Buffer.add_char b ' '; tree b i; Buffer.add_char b ')'
  | PMember (o, f) -> Buffer.add_string b "(mem "; tree b o; Buffer.add_string b (" " ^ hex_of_bytes f ^ ")")
  | PCall (c, args) -> Buffer.add_string b "(call "; tree b c; List.iter (fun x -> Buffer.add_char b ' '; tree b x) args; Buffer.add_char b ')'

let string_of_tok = function
  | TLit a -> "L:" ^ string_of_bytes a
  | TIdent n -> "I:" ^ hex_of_bytes n
  | TNot -> "K:Not"
  | TOp op -> (match List.find_opt (fun (_, o) -> o = op) op_tokens with
               | Some (nm, _) -> "K:" ^ string_of_bytes nm | None -> "K:?")
  | TLP -> "K:LParen" | TRP -> "K:RParen" | TLB -> "K:LBracket" | TRB -> "K:RBracket"
  | TComma -> "K:Comma" | TDot -> "K:Dot"
  | TOther k -> "K:" ^ string_of_bytes k

let pratt_mode inp outp =
  let oc = open_out outp in
  List.iter (fun line ->
    match words line with
    | "case" :: id :: _ -> Printf.fprintf oc "case %s\n" id
    | "toks" :: ts ->
        let toks = List.map tok_of_string ts in
        (match parse_tokens toks with
         | POk e ->
             let b = Buffer.create 128 in tree b e;
             (* the printer of the round-trip theorem, on the tree just parsed *)
             let back = print (embed e) in
             Printf.fprintf oc "tree %s\nprint %s\n" (Buffer.contents b)
               (String.concat " " (List.map string_of_tok back))
         | PErr -> Printf.fprintf oc "err\n"
         | POof -> Printf.fprintf oc "oof\n")
    | _ -> ()) (read_lines inp);
  close_out oc

(* ---------------------------------------------------------------- template *)
let items_str (its : item list) : string =
  (* consecutive characters merged: L<hex> V<hex> ... *)
  let b = Buffer.create 64 in
  let run = Buffer.create 32 in
  let flush () =
    if Buffer.length run > 0 then begin
      Buffer.add_string b (" L" ^ Buffer.contents run); Buffer.clear run end in
  List.iter (fun it -> match it with
    | IChar c -> Buffer.add_string run (Printf.sprintf "%02x" (int_of_z c))
    | IVar n -> flush (); Buffer.add_string b (" V" ^ hex_of_bytes n)) its;
  flush (); Buffer.contents b

let template_mode inp outp =
  let oc = open_out outp in
  List.iter (fun line ->
    match words line with
    | [owned; h] ->
        let content = bytes_of_hex h in
        let parts = parse_string_literal variant_of_source content (owned = "1") in
        let dump = (match parts with
          | SStatic s -> "S " ^ hex_of_bytes s
          | SInterp segs ->
              "I " ^ string_of_int (List.length segs) ^
              String.concat "" (List.map (fun g -> match g with
                | TSLit s -> " L " ^ hex_of_bytes s
                | TSVar n -> " V " ^ hex_of_bytes n) segs)) in
        Printf.fprintf oc "%s |%s |%s\n" dump (items_str (parts_items parts))
          (items_str (template_reading content))
    | _ -> ()) (read_lines inp);
  close_out oc

(* ---------------------------------------------------------------- simpletypes *)
let opt_id (t : string) : z option = if t = "-" then None else Some (z_of_int (int_of_string t))

exception Bad of string
let parse_program (toks : string array) : stmt list =
  let pos = ref 0 in
  let next () = if !pos >= Array.length toks then raise (Bad "eof") else (let t = toks.(!pos) in incr pos; t) in
  let int () = int_of_string (next ()) in
  let rec times n f = if n <= 0 then [] else let x = f () in x :: times (n - 1) f in
  let binop = function
    | "add" -> Add | "minus" -> Minus | "times" -> Times | "divide" -> Divide | "mod" -> Mod
    | "and" -> And | "or" -> Or | "eq" -> OEq | "gt" -> OGt | "lt" -> OLt | s -> raise (Bad s) in
  let rec expr () : expr =
    match next () with
    | "N" -> let t = next () in if t = "!" then raise (Bad "number") else ENum (of_bits (z_of_hex t))
    | "S" -> EStr (bytes_of_hex (next ()))
    | "I" -> let n = int () in
        EInterp (times n (fun () -> match next () with
          | "L" -> SegLit (bytes_of_hex (next ()))
          | "V" -> let nm = bytes_of_hex (next ()) in let l = opt_id (next ()) in SegVar (nm, l)
          | s -> raise (Bad s)))
    | "B" -> EBool (next () = "1")
    | "Z" -> ENull
    | "V" -> let nm = bytes_of_hex (next ()) in let l = opt_id (next ()) in EVar (nm, l)
    | "O" -> let op = binop (next ()) in let a = expr () in let b = expr () in EBin (op, a, b)
    | "U" -> let op = (match next () with "not" -> Not | "neg" -> Neg | s -> raise (Bad s)) in EUn (op, expr ())
    | "A" -> let n = int () in EArr (times n expr)
    | "X" -> let a = expr () in let i = expr () in EIdx (a, i)
    | "M" -> let o = expr () in let f = bytes_of_hex (next ()) in EMember (o, f)
    | "C" -> let c = expr () in let n = int () in let args = times n expr in let t = opt_id (next ()) in ECall (c, args, t)
    | s -> raise (Bad ("expr " ^ s))
  and block () : stmt list = let n = int () in times n stmt
  and stmt () : stmt =
    match next () with
    | "F" -> let sid = opt_id (next ()) in let nm = bytes_of_hex (next ()) in
        let np = next () in if np = "!" then raise (Bad "params") else
        let ps = times (int_of_string np) (fun () -> bytes_of_hex (next ())) in
        let body = block () in
        let fid = opt_id (next ()) in let ls = z_of_int (int ()) in let ll = z_of_int (int ()) in
        SFun (sid, nm, ps, body, fid, ls, ll)
    | "K" -> let sid = opt_id (next ()) in let nm = bytes_of_hex (next ()) in let l = opt_id (next ()) in SMake (sid, nm, l, expr ())
    | "T" -> let sid = opt_id (next ()) in let nm = bytes_of_hex (next ()) in let l = opt_id (next ()) in SSet (sid, nm, l, expr ())
    | "J" -> let sid = opt_id (next ()) in let t = expr () in let e = expr () in SSetIdx (sid, t, e)
    | "IF" -> let sid = opt_id (next ()) in let c = expr () in let t = block () in
        let f = (match next () with "1" -> Some (block ()) | _ -> None) in SIf (sid, c, t, f)
    | "W" -> let sid = opt_id (next ()) in let c = expr () in SLoop (sid, c, block ())
    | "BL" -> let sid = opt_id (next ()) in SBlock (sid, block ())
    | "R" -> let sid = opt_id (next ()) in (match next () with "1" -> SRet (sid, Some (expr ())) | _ -> SRet (sid, None))
    | "BR" -> SBreak (opt_id (next ()))
    | "NX" -> SNext (opt_id (next ()))
    | "EX" -> let sid = opt_id (next ()) in SExpr (sid, expr ())
    | s -> raise (Bad ("stmt " ^ s)) in
  let p = block () in
  if !pos <> Array.length toks then raise (Bad "trailing tokens");
  p

let simpletypes_mode inp outp =
  let oc = open_out outp in
  let cur = ref "?" in
  List.iter (fun line ->
    match words line with
    | "case" :: id :: _ -> cur := id
    | "ast" :: toks ->
        (try
           let p = parse_program (Array.of_list toks) in
           Printf.fprintf oc "st %s %s\n" !cur (if simply_typed p then "1" else "0")
         with Bad m -> Printf.fprintf oc "st %s badast:%s\n" !cur m)
    | _ -> ()) (read_lines inp);
  close_out oc

let () =
  register "c01f64" (function inp :: outp :: _ -> f64_mode inp outp | _ -> failwith "c01f64: <in> <out>");
  register "pratt" (function inp :: outp :: _ -> pratt_mode inp outp | _ -> failwith "pratt: <in> <out>");
  register "template" (function inp :: outp :: _ -> template_mode inp outp | _ -> failwith "template: <in> <out>");
  register "simpletypes" (function inp :: outp :: _ -> simpletypes_mode inp outp | _ -> failwith "simpletypes: <in> <out>")
