(* mode_capture.ml — nsmodel mode "capture" (property C16).  Hand-written glue (trusted):
   parsing of case lines, the byte patterns shared with the Rust harness and the helper child,
   a family of schedulers that drive the EXTRACTED transition function [ModelCapture.step]
   (every run they produce is a run of the Coq model), and printing.

   Input, one case per line:
     <id> <p1> <p2> <cap> <timeout> <poll> <n1> <k1> <n2> <k2> <code> | <observed outcome>
   p = c|i|n (capture / inherit / null); k = a|u|b|B (byte pattern kinds, see [pattern]);
   observed outcome, as printed by `nsverif capture`:
     ok code=<int|null> out=<null|full|prefix:K|other:L> err=<...>
     err kind=<timeout|limit|utf8> stream=<stdout|stderr|->
   Output per case:
     <id> judged=<1|0> reached=<1|0> family=<distinct outcomes the schedule family produced>
   judged  = the extracted [outcome_ok cfg observed] (theorem C16_outcome_ok_complete: every
             outcome of every schedule of the model satisfies it);
   reached = some schedule of the family produced exactly the observed outcome. *)
open ModelCapture
open Modes

let rec pos_of_int (i : int) : positive =
  if i = 1 then XH
  else if i land 1 = 0 then XO (pos_of_int (i lsr 1))
  else XI (pos_of_int (i lsr 1))
let z_of_int (i : int) : z =
  if i = 0 then Z0 else if i > 0 then Zpos (pos_of_int i) else Zneg (pos_of_int (-i))
let rec int_of_pos (p : positive) : int =
  match p with XH -> 1 | XO q -> 2 * int_of_pos q | XI q -> 2 * int_of_pos q + 1
let int_of_z (x : z) : int =
  match x with Z0 -> 0 | Zpos p -> int_of_pos p | Zneg p -> - (int_of_pos p)
let nat_of_int (i : int) : nat =
  let rec go i acc = if i <= 0 then acc else go (i - 1) (S acc) in go i O
let rec int_of_nat (n : nat) : int =
  let rec go n acc = match n with O -> acc | S m -> go m (acc + 1) in go n 0

(* ---------------------------------------------------------------- byte patterns
   (the same function exists in harness/src/capture.rs and harness/helpers/c16_child.rs)
     a : letters, lower case on stdout, upper case on stderr
     u : 3-byte characters (E2 82 AC on stdout, E2 82 AD on stderr), padded with 'x'/'X'
     b : as a, but the byte in the middle (index n/2) is 0xFF
     B : as a, but the last byte is 0xFF
     T : as a, but the text ends inside a multi-byte character (E2 82) *)
let pattern_byte (stream : int) (n : int) (kind : char) (i : int) : int =
  let base = if stream = 1 then 97 else 65 in
  match kind with
  | 'a' -> base + (i mod 26)
  | 'u' ->
      let full = (n / 3) * 3 in
      if i < full then (match i mod 3 with 0 -> 0xE2 | 1 -> 0x82 | _ -> if stream = 1 then 0xAC else 0xAD)
      else (if stream = 1 then 120 else 88)
  | 'b' -> if i = n / 2 then 0xFF else base + (i mod 26)
  | 'B' -> if i = n - 1 then 0xFF else base + (i mod 26)
  | 'T' -> if i = n - 2 || (n = 1 && i = 0) then 0xE2 else if i = n - 1 then 0x82 else base + (i mod 26)
  | _ -> failwith "pattern kind"

let pattern stream n kind : z list = List.init n (fun i -> z_of_int (pattern_byte stream n kind i))

let rec take k l = if k <= 0 then [] else match l with [] -> [] | x :: t -> x :: take (k - 1) t

(* ---------------------------------------------------------------- outcomes as text *)
let desc (expected : z list) (o : z list option) : string =
  match o with
  | None -> "null"
  | Some b ->
      if b = expected then "full"
      else
        let lb = List.length b in
        if lb < List.length expected && take lb expected = b then Printf.sprintf "prefix:%d" lb
        else Printf.sprintf "other:%d" lb

let show_result (c : cfg) (r : result) : string =
  match r with
  | ROk (o1, o2, code) ->
      Printf.sprintf "ok code=%s out=%s err=%s"
        (match code with Some z -> string_of_int (int_of_z z) | None -> "null")
        (desc c.out1 o1) (desc c.out2 o2)
  | RErr (EOLE s) -> Printf.sprintf "err kind=limit stream=%s" (match s with S1 -> "stdout" | S2 -> "stderr")
  | RErr (EUtf8 s) -> Printf.sprintf "err kind=utf8 stream=%s" (match s with S1 -> "stdout" | S2 -> "stderr")
  | RErr ETimeout -> "err kind=timeout stream=-"

let undesc (expected : z list) (s : string) : z list option =
  if s = "null" then None
  else if s = "full" then Some expected
  else match String.split_on_char ':' s with
    | ["prefix"; k] -> Some (take (int_of_string k) expected)
    | ["other"; _] -> Some (z_of_int (-1) :: expected)          (* something else: never equal *)
    | _ -> failwith ("observed stream description: " ^ s)

let kv w = match String.index_opt w '=' with
  | Some i -> (String.sub w 0 i, String.sub w (i + 1) (String.length w - i - 1))
  | None -> (w, "")

let parse_observed (c : cfg) (ws : string list) : result option =
  match ws with
  | "ok" :: rest ->
      let m = List.map kv rest in
      let code = match List.assoc "code" m with "null" -> None | s -> Some (z_of_int (int_of_string s)) in
      Some (ROk (undesc c.out1 (List.assoc "out" m), undesc c.out2 (List.assoc "err" m), code))
  | "err" :: rest ->
      let m = List.map kv rest in
      let s = match List.assoc "stream" m with "stdout" -> S1 | _ -> S2 in
      (match List.assoc "kind" m with
       | "timeout" -> Some (RErr ETimeout)
       | "limit" -> Some (RErr (EOLE s))
       | "utf8" -> Some (RErr (EUtf8 s))
       | _ -> None)
  | _ -> None

(* ---------------------------------------------------------------- schedulers *)
type strat = {
  wt : int array;            (* weights: tick, child, reader1, reader2, waiter *)
  rd_max : int;              (* a read returns at most this many bytes *)
  wr_max : int;              (* a write transfers at most this many bytes *)
  first : int;               (* stream the child prefers: 1, 2, or 0 = random *)
  die : bool;                (* closed pipe: SIGPIPE death (true) or EPIPE ignored *)
  child_from : int;          (* the child does nothing before this clock value (start-up / sleep) *)
  exit_from : int;           (* the child does not exit before this clock value *)
  pre : choice list;         (* choices tried first *)
  seed : int;
}

let nonempty = function [] -> false | _ -> true

(* The scheduler keeps its own byte counters (rem / pipe per stream) so that choosing a step
   costs O(1); they only guide the choice: a choice the model does not enable is skipped. *)
let run_strategy (c : cfg) (s : strat) : result option =
  let rng = Random.State.make [| s.seed |] in
  let st = ref (init c) in
  let remn = [| List.length c.out1; List.length c.out2 |] in
  let pipen = [| 0; 0 |] in
  let idx = function S1 -> 0 | S2 -> 1 in
  let apply ch =
    match step c !st ch with
    | None -> false
    | Some x ->
        (match ch with
         | Child (CWrite (str, k)) ->
             let k = int_of_nat k in
             remn.(idx str) <- remn.(idx str) - k;
             if captured c str then pipen.(idx str) <- pipen.(idx str) + k
         | Child (CPipe (str, false)) -> remn.(idx str) <- 0
         | Reader (str, k) ->
             (match (sget !st str).r_pc with
              | RLoop when pipen.(idx str) > 0 -> pipen.(idx str) <- pipen.(idx str) - int_of_nat k
              | _ -> ())
         | _ -> ());
        st := x; true in
  List.iter (fun ch -> ignore (apply ch)) s.pre;
  let budget = ref 3000 in
  let ticks = ref (int_of_z c.timeout + int_of_z c.poll + 1000) in
  let result = ref None in
  let pcap = int_of_z c.pcap in
  let child_choice () =
    let stx = !st in
    let clk = int_of_z stx.clock in
    if stx.cs <> CRun || clk < s.child_from then None
    else begin
      let cand str =
        let r = remn.(idx str) in
        if r = 0 then None
        else if captured c str then
          if (sget stx str).rclosed then Some (Child (CPipe (str, s.die)))
          else
            let room = pcap - pipen.(idx str) in
            let k = min (min r room) s.wr_max in
            if k >= 1 then Some (Child (CWrite (str, nat_of_int k))) else None
        else Some (Child (CWrite (str, nat_of_int (min r s.wr_max))))
      in
      let order = match s.first with
        | 1 -> [S1; S2] | 2 -> [S2; S1]
        | _ -> if Random.State.bool rng then [S1; S2] else [S2; S1] in
      let rec pick = function
        | [] -> None
        | str :: tl -> (match cand str with Some ch -> Some ch | None -> pick tl) in
      match pick order with
      | Some ch -> Some ch
      | None ->
          if remn.(0) = 0 && remn.(1) = 0 && clk >= s.exit_from then Some (Child CExit) else None
    end in
  let reader_choice str =
    let x = sget !st str in
    match x.r_pc with
    | RLoop ->
        let avail = pipen.(idx str) in
        if avail = 0 then (if !st.cs <> CRun then Some (Reader (str, O)) else None)
        else
          let m = min (min avail (int_of_z read_chunk)) s.rd_max in
          let k = if s.rd_max >= 8192 && Random.State.int rng 4 <> 0 then m else 1 + Random.State.int rng m in
          Some (Reader (str, nat_of_int k))
    | RFlag | RExit -> Some (Reader (str, O))
    | _ -> None in
  let waiter_enabled () =
    match !st.w with
    | WSleep u -> int_of_z u <= int_of_z !st.clock
    | WWait _ -> !st.cs <> CRun
    | EJoin1 _ | OJoin1 _ -> (match (sget !st S1).r_pc with RNone | RDone -> true | _ -> false)
    | EJoin2 _ | OJoin2 (_, _) -> (match (sget !st S2).r_pc with RNone | RDone -> true | _ -> false)
    | WDone _ -> false
    | _ -> true in
  while !result = None && !budget > 0 && !ticks > 0 do
    (match !st.w with WDone r -> result := Some r | _ -> ());
    if !result = None then begin
      let tick_useful = (match !st.w with WFlag | WTry | WDeadline | WSleep _ -> true | _ -> false) in
      let cands = [|
        (if tick_useful then Some Tick else None); child_choice (); reader_choice S1; reader_choice S2;
        (if waiter_enabled () then Some Waiter else None) |] in
      let total = ref 0 in
      Array.iteri (fun i ch -> if ch <> None then total := !total + s.wt.(i)) cands;
      let chosen =
        if !total = 0 then begin
          (* nothing with a positive weight is enabled: take any enabled non-tick step, else tick *)
          let res = ref (Some Tick) in
          for i = 4 downto 1 do if cands.(i) <> None then res := cands.(i) done;
          !res
        end else begin
          let r = ref (Random.State.int rng !total) in
          let res = ref None in
          Array.iteri (fun i ch ->
            if !res = None && ch <> None then begin
              if !r < s.wt.(i) then res := ch else r := !r - s.wt.(i)
            end) cands;
          !res
        end in
      match chosen with
      | Some Tick -> decr ticks; ignore (apply Tick)
      | Some ch -> decr budget; ignore (apply ch)
      | None -> decr budget
    end
  done;
  !result

let strategies (c : cfg) : strat list =
  let tmo = int_of_z c.timeout in
  let base = { wt = [| 1; 8; 8; 8; 8 |]; rd_max = 8192; wr_max = 1 lsl 30; first = 0; die = false;
               child_from = 0; exit_from = 0; pre = []; seed = 1 } in
  let l = ref [] in
  let add s = l := s :: !l in
  (* prompt runs: nothing is slow, ticks are rare *)
  List.iter (fun first -> List.iter (fun die -> List.iter (fun seed ->
    add { base with wt = [| 0; 8; 8; 8; 2 |]; first; die; seed };
    add { base with wt = [| 0; 8; 8; 8; 2 |]; first; die; seed; pre = [Waiter] };
    add { base with wt = [| 0; 9; 1; 9; 1 |]; first; die; seed; pre = [Waiter] };
    add { base with wt = [| 0; 9; 9; 1; 1 |]; first; die; seed; pre = [Waiter] };
    add { base with wt = [| 1; 8; 8; 8; 8 |]; first; die; seed; rd_max = 1000; wr_max = 3000 })
    [1; 2; 3]) [false; true]) [0; 1; 2];
  (* the waiter only looks again after everybody else is done (join re-check path) *)
  List.iter (fun first -> List.iter (fun rd -> List.iter (fun seed ->
    add { base with wt = [| 0; 50; 50; 50; 0 |]; first; rd_max = rd; seed; pre = [Waiter] };
    add { base with wt = [| 0; 50; 50; 1; 0 |]; first; rd_max = rd; seed; pre = [Waiter] };
    add { base with wt = [| 0; 50; 1; 50; 0 |]; first; rd_max = rd; seed; pre = [Waiter] })
    [1; 2]) [8192; 4000; 10]) [1; 2];
  (* slow child: starts late / exits late relative to the deadline *)
  List.iter (fun (cf, ef) -> List.iter (fun seed ->
    add { base with wt = [| 6; 8; 8; 8; 8 |]; child_from = cf; exit_from = ef; seed })
    [1; 2]) [(0, tmo + 5); (tmo + 5, 0); (tmo / 2, tmo / 2); (0, tmo - 1)];
  (* the clock runs first *)
  add { base with wt = [| 50; 1; 1; 1; 5 |]; seed = 7 };
  add { base with wt = [| 1; 0; 0; 0; 1 |]; seed = 8 };
  let all = List.rev !l in
  (* big cases: every third strategy (list operations of the extracted model are linear) *)
  let total = List.length c.out1 + List.length c.out2 in
  if total > 200000
  then List.map (fun s -> { s with rd_max = 8192; wr_max = 1 lsl 30 })
         (List.filteri (fun i _ -> i mod 12 = 0 || i >= List.length all - 2) all)
  else if total > 30000
  then List.map (fun s -> { s with rd_max = max s.rd_max 4000 })
         (List.filteri (fun i _ -> i mod 5 = 0 || i >= List.length all - 2) all)
  else if total > 4000
  then List.map (fun s -> { s with rd_max = max s.rd_max 500 })
         (List.filteri (fun i _ -> i mod 2 = 0 || i >= List.length all - 2) all)
  else all

(* ---------------------------------------------------------------- the mode *)
let policy_of = function "c" -> PCapture | "i" -> PInherit | "n" -> PNull | s -> failwith ("policy " ^ s)

let capture_mode inp outp =
  let oc = open_out outp in
  List.iter (fun line ->
    match String.index_opt line '|' with
    | None -> ()
    | Some bar ->
        let left = words (String.sub line 0 bar) in
        let right = words (String.sub line (bar + 1) (String.length line - bar - 1)) in
        (match left with
         | id :: p1 :: p2 :: cap :: tmo :: poll :: n1 :: k1 :: n2 :: k2 :: code :: rest ->
             let i = int_of_string in
             let o1 = pattern 1 (i n1) k1.[0] and o2 = pattern 2 (i n2) k2.[0] in
             let ec = if code = "null" then None else Some (z_of_int (i code)) in
             let observed_txt = String.concat " " right in
             (* with "caps=v0,..,vN" (ProcessCaps in declaration order) the configuration is derived by
                the extracted mk_cfg from the host caps and the builder ("-" = timeout_ms() never called) *)
             let cfg_opt =
               match List.filter (fun w -> String.length w > 5 && String.sub w 0 5 = "caps=") rest with
               | w :: _ ->
                   let vals = List.map (fun s -> z_of_int (i s))
                       (String.split_on_char ',' (String.sub w 5 (String.length w - 5))) in
                   let b = { b_pol1 = policy_of p1; b_pol2 = policy_of p2;
                             b_timeout = (if tmo = "-" then None else Some (z_of_int (i tmo))) } in
                   mk_cfg (hc_of_list vals) b (z_of_int 65536) o1 o2 ec
               | [] ->
                   Some { pol1 = policy_of p1; pol2 = policy_of p2; cap = z_of_int (i cap);
                          timeout = z_of_int (i tmo); poll = z_of_int (i poll); pcap = z_of_int 65536;
                          out1 = o1; out2 = o2; ecode = ec } in
             (match cfg_opt with
              | None ->
                  let ok = (match right with "err" :: "kind=spec" :: _ -> 1 | _ -> 0) in
                  Printf.fprintf oc "%s judged=%d reached=%d observed=[%s] family=[refused by validate]\n" id ok ok observed_txt
              | Some c ->
             let fam = Hashtbl.create 8 in
             List.iter (fun s ->
               match run_strategy c s with
               | Some r -> Hashtbl.replace fam (show_result c r) ()
               | None -> Hashtbl.replace fam "unfinished" ()) (strategies c);
             let fam_l = List.sort compare (Hashtbl.fold (fun k () acc -> k :: acc) fam []) in
             let judged, reached =
               match parse_observed c right with
               | Some r -> ((if outcome_ok c r then 1 else 0), (if Hashtbl.mem fam (show_result c r) then 1 else 0))
               | None -> (0, 0) in
             Printf.fprintf oc "%s judged=%d reached=%d observed=[%s] family=[%s] timeout=%d cap=%d poll=%d\n" id judged reached
               observed_txt (String.concat "; " fam_l) (int_of_z c.timeout) (int_of_z c.cap) (int_of_z c.poll))
         | _ -> Printf.fprintf oc "? malformed\n")
  ) (read_lines inp);
  close_out oc

let () = register "capture" (function inp :: outp :: _ -> capture_mode inp outp | _ -> failwith "capture: args")
