(* nsmodel — runs the extracted Coq models on the same inputs as the Rust harness.
   Hand-written glue (trusted): parsing of input lines, conversion between OCaml ints /
   strings and the extracted Z / nat / lists, printing of canonical observation lines. *)
open Model
open Modes

let rec pos_of_int (i : int) : positive =
  if i = 1 then XH
  else if i land 1 = 0 then XO (pos_of_int (i lsr 1))
  else XI (pos_of_int (i lsr 1))

let z_of_int (i : int) : z =
  if i = 0 then Z0 else if i > 0 then Zpos (pos_of_int i) else Zneg (pos_of_int (-i))

let rec int_of_pos (p : positive) : int =
  match p with XH -> 1 | XO q -> 2 * int_of_pos q | XI q -> 2 * int_of_pos q + 1

let int_of_z (x : z) : int =
  match x with Z0 -> 0 | Zpos p -> int_of_pos p | Zneg p -> - (int_of_pos p)

let rec nat_of_int (i : int) : nat = if i <= 0 then O else S (nat_of_int (i - 1))
let rec int_of_nat (n : nat) : int = match n with O -> 0 | S m -> 1 + int_of_nat m

let zs = fun x -> string_of_int (int_of_z x)

(* ------------------------------------------------------------------ bump *)
let bump_mode dbg inp outp =
  let oc = open_out outp in
  let c = ref (cinit Z0 Z0) in
  let started = ref false in
  List.iter (fun line ->
    match words line with
    | [] -> ()
    | "H" :: id :: cap :: base :: _ ->
        c := cinit (z_of_int (int_of_string base)) (z_of_int (int_of_string cap));
        started := true;
        Printf.fprintf oc "H %s cap=%s base=%s\n" id (zs (!c).c_s.s_a.a_cap) base
    | w ->
        if not !started then failwith "history header first";
        let n i = int_of_string (List.nth w i) in
        let o = match List.hd w with
          | "A" -> OAlloc (z_of_int (n 1), nat_of_int (n 2))
          | "Z" -> OAllocZ (z_of_int (n 1), nat_of_int (n 2))
          | "G" -> OGrow (nat_of_int (n 1), z_of_int (n 2), n 3 <> 0)
          | "S" -> OShrink (nat_of_int (n 1), z_of_int (n 2))
          | "R" -> OReset (z_of_int (n 1))
          | "RB" -> OResetBlk (nat_of_int (n 1))
          | "D" -> ODecommit
          | "W" -> OWrite (nat_of_int (n 1), z_of_int (n 2))
          | "B" -> OBorrow
          | "E" -> ORelease
          | s -> failwith ("unknown op " ^ s) in
        let (c', r) = cstep dbg !c o in
        c := c';
        (match r with
         | RBlock (ok, b, l) -> Printf.fprintf oc "blk %d %s %s" (if ok then 1 else 0) (zs b) (zs l)
         | RNone -> output_string oc "none");
        let (((off, com), nl), chk) = observe c' in
        Printf.fprintf oc " | %s %s %s %s\n" (zs off) (zs com) (zs nl) (zs chk)
  ) (read_lines inp);
  close_out oc

(* ------------------------------------------------------------------ pool *)
let pool_mode dbg inp outp =
  let oc = open_out outp in
  let single = ref None in
  let set = ref None in
  List.iter (fun line ->
    match words line with
    | [] -> ()
    | "P" :: id :: ssz :: cnt :: _ ->
        single := Some { pc_pool = pool_new Z0 (z_of_int (int_of_string ssz)) (z_of_int (int_of_string cnt)); pc_live = [] };
        set := None;
        Printf.fprintf oc "P %s base=0\n" id
    | "PS" :: id :: _ ->
        let c0 = cinit Z0 (z_of_int (4 lsl 20)) in
        (match pset_new dbg c0.c_s with
         | Some ps ->
             set := Some { sc_set = ps; sc_live = [] }; single := None;
             let bases = String.concat " " (List.map (fun p -> zs p.p_base) ps.ps_pools) in
             Printf.fprintf oc "PS %s off=%s bases=%s\n" id (zs ps.ps_arena.s_a.a_off) bases
         | None -> failwith "pset_new failed")
    | w ->
        let n i = int_of_string (List.nth w i) in
        (match !single, !set with
         | Some c, _ ->
             let o = match List.hd w with
               | "a" -> PAlloc | "f" -> PFree (nat_of_int (n 1)) | "c" -> PContains (z_of_int (n 1))
               | s -> failwith ("unknown op " ^ s) in
             let (c', r) = pstep c o in
             single := Some c';
             (match r with
              | PRSlot (a, l) -> Printf.fprintf oc "slot %s %s" (zs a) (zs l)
              | PRExhausted -> output_string oc "exhausted"
              | PRFreed a -> Printf.fprintf oc "freed %s" (zs a)
              | PRNone -> output_string oc "none"
              | PRBool b -> Printf.fprintf oc "contains %b" b
              | PRPanic -> output_string oc "PANIC");
             let ((l, f), b) = pcounters c'.pc_pool in
             Printf.fprintf oc " | %s %s %s\n" (zs l) (zs f) (zs b)
         | None, Some c ->
             let o = match List.hd w with
               | "a" -> SAlloc (z_of_int (n 1)) | "f" -> SFree (nat_of_int (n 1))
               | "c" -> SContains (z_of_int (n 1)) | "k" -> SClass (z_of_int (n 1))
               | s -> failwith ("unknown op " ^ s) in
             let touched = match o with
               | SAlloc sz -> size_class sz
               | SFree idx ->
                   (match c.sc_live with
                    | [] -> None
                    | l -> let k = (n 1) mod (List.length l) in size_class (List.nth l k).sb_size)
               | _ -> None in
             let (c', r) = sstep dbg c o in
             set := Some c';
             (match r with
              | SRBuf (pooled, a, l) -> Printf.fprintf oc "%s %s %s" (if pooled then "pool" else "arena") (zs a) (zs l)
              | SRFreed a -> Printf.fprintf oc "freed %s" (zs a)
              | SRNone -> output_string oc "none"
              | SRBool b -> Printf.fprintf oc "contains %b" b
              | SRClass (Some k) -> Printf.fprintf oc "class %s" (zs k)
              | SRClass None -> output_string oc "class none"
              | SRPanic -> output_string oc "PANIC");
             let off = zs c'.sc_set.ps_arena.s_a.a_off in
             (match touched with
              | Some k ->
                  let ((l, f), b) = class_counters c'.sc_set k in
                  Printf.fprintf oc " | %s %s %s %s %s\n" (zs k) (zs l) (zs f) (zs b) off
              | None -> Printf.fprintf oc " | - %s\n" off)
         | None, None -> failwith "header first")
  ) (read_lines inp);
  close_out oc

(* ------------------------------------------------------------------ strlib *)
let unhex s =
  if s = "-" then [] else
  List.init (String.length s / 2) (fun i -> z_of_int (int_of_string ("0x" ^ String.sub s (2 * i) 2)))

let hex (l : z list) =
  if l = [] then "-" else String.concat "" (List.map (fun b -> Printf.sprintf "%02x" (int_of_z b)) l)

(* 64-bit patterns do not fit OCaml's 63-bit int: convert through the bits *)
let z_of_hex (s : string) : z =
  let bits = ref [] in   (* most significant first *)
  String.iter (fun c ->
    let v = int_of_string ("0x" ^ String.make 1 c) in
    bits := !bits @ [v land 8 <> 0; v land 4 <> 0; v land 2 <> 0; v land 1 <> 0]) s;
  let rec go acc = function   (* acc : positive option, msb first *)
    | [] -> acc
    | b :: t ->
        go (match acc with
            | None -> if b then Some XH else None
            | Some p -> Some (if b then XI p else XO p)) t in
  match go None !bits with None -> Z0 | Some p -> Zpos p

let hex64_of_z (x : z) : string =
  let rec bits p = match p with XH -> [true] | XO q -> false :: bits q | XI q -> true :: bits q in  (* lsb first *)
  let l = match x with Z0 -> [] | Zpos p -> bits p | Zneg _ -> failwith "hex64_of_z: negative" in
  let a = Array.make 64 false in
  List.iteri (fun i b -> if i < 64 then a.(i) <- b else failwith "hex64_of_z: too wide") l;
  String.init 16 (fun k ->
    let base = 60 - 4 * k in
    let v = (if a.(base + 3) then 8 else 0) + (if a.(base + 2) then 4 else 0)
            + (if a.(base + 1) then 2 else 0) + (if a.(base) then 1 else 0) in
    "0123456789abcdef".[v])

(* f64 text -> isize after floor, saturating; NaN -> 0 (Rust `as isize`) *)
let isize_of_float_text t =
  let f = float_of_string t in
  if Float.is_nan f then 0
  else let fl = Float.floor f in
    if fl >= 4611686018427387903.0 then 4611686018427387903
    else if fl <= -4611686018427387904.0 then -4611686018427387904
    else int_of_float fl

let strlib_mode inp outp =
  let oc = open_out outp in
  List.iter (fun line ->
    match words line with
    | [] -> ()
    | "find" :: h :: n :: _ ->
        (match find (unhex h) (unhex n) with
         | Found i -> Printf.fprintf oc "found %d\n" (int_of_nat i)
         | NotFound -> output_string oc "notfound\n"
         | OutOfFuel -> output_string oc "MODEL-FUEL\n"
         | IndexOob -> output_string oc "MODEL-OOB\n")
    | "replace" :: h :: f :: t :: _ ->
        (match replace (unhex h) (unhex f) (unhex t) with
         | SOk s -> Printf.fprintf oc "str %s\n" (hex s)
         | SFuel -> output_string oc "MODEL-FUEL\n"
         | SOob -> output_string oc "MODEL-OOB\n")
    | "split" :: s :: sep :: _ ->
        Printf.fprintf oc "arr %s\n" (String.concat "," (List.map hex (split (unhex s) (unhex sep))))
    | "splitjoin" :: s :: sep :: _ ->
        Printf.fprintf oc "str %s\n" (hex (join (split (unhex s) (unhex sep)) (unhex sep)))
    | "slice" :: s :: a :: b :: _ ->
        Printf.fprintf oc "str %s\n" (hex (slice (unhex s) (z_of_int (isize_of_float_text a)) (z_of_int (isize_of_float_text b))))
    | "len" :: s :: _ -> Printf.fprintf oc "num %d\n" (int_of_nat (str_len (unhex s)))
    | "trim" :: s :: _ -> Printf.fprintf oc "str %s\n" (hex (trim (unhex s)))
    | "tonum" :: s :: _ -> Printf.fprintf oc "num %s\n" (hex64_of_z (to_number_bits (unhex s)))
    | "roundtrip" :: b :: _ ->
        let (t, r) = roundtrip_obs (z_of_hex b) in
        Printf.fprintf oc "txt %s num %s\n" (hex t) (hex64_of_z r)
    | "upper" :: s :: _ -> Printf.fprintf oc "str %s\n" (hex (to_upper (unhex s)))
    | "lower" :: s :: _ -> Printf.fprintf oc "str %s\n" (hex (to_lower (unhex s)))
    | "casemap" :: lo :: hi :: _ ->
        (* through the string-level functions on the encoded character, as the harness does *)
        let b = Buffer.create 4096 in
        Buffer.add_string b "cm";
        let decode_all (l : z list) =
          (* UTF-8 bytes (valid by CaseMapProofs.to_upper_valid_utf8) back to code points, for printing *)
          let rec go acc = function
            | [] -> List.rev acc
            | x :: t ->
                let x = int_of_z x in
                if x < 0x80 then go (x :: acc) t
                else
                  let n, v0 = if x < 0xE0 then 1, x land 0x1F else if x < 0xF0 then 2, x land 0x0F else 3, x land 0x07 in
                  let rec take k v l = if k = 0 then (v, l) else
                    match l with y :: l' -> take (k - 1) ((v lsl 6) lor (int_of_z y land 0x3F)) l' | [] -> failwith "casemap: truncated" in
                  let (v, rest) = take n v0 t in go (v :: acc) rest in
          go [] l in
        let seq l = String.concat "." (List.map (Printf.sprintf "%x") l) in
        for cp = int_of_string lo to int_of_string hi - 1 do
          if not (cp >= 0xD800 && cp <= 0xDFFF) then begin
            let e = encode (z_of_int cp) in
            let u = decode_all (to_upper e) and l = decode_all (to_lower e) in
            if u <> [cp] || l <> [cp] then Buffer.add_string b (Printf.sprintf " %x:%s:%s" cp (seq u) (seq l))
          end
        done;
        Printf.fprintf oc "%s\n" (Buffer.contents b)
    | "ws" :: lo :: hi :: _ ->
        let b = Buffer.create 64 in
        Buffer.add_string b "ws";
        for cp = int_of_string lo to int_of_string hi - 1 do
          if not (cp >= 0xD800 && cp <= 0xDFFF) && is_whitespace (z_of_int cp) then
            Buffer.add_string b (Printf.sprintf " %d" cp)
        done;
        Printf.fprintf oc "%s\n" (Buffer.contents b)
    | w :: _ -> failwith ("unknown case " ^ w)
  ) (read_lines inp);
  close_out oc


let () =
  register "bump" (function dbg :: inp :: outp :: _ -> bump_mode (dbg = "1") inp outp | _ -> failwith "bump: args");
  register "pool" (function dbg :: inp :: outp :: _ -> pool_mode (dbg = "1") inp outp | _ -> failwith "pool: args");
  register "strlib" (function inp :: outp :: _ -> strlib_mode inp outp | _ -> failwith "strlib: args")
