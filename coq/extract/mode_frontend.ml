(* nsmodel frontend <shipped|repaired|source> <in> <out> — the extracted lexer / renderer
   models on the inputs of `nsverif frontend`.  Hand-written glue (trusted): hex decoding,
   conversion between OCaml ints/strings and the extracted Z / nat / lists, printing. *)
open ModelFrontend
open Modes

let rec pos_of_int (i : int) : positive =
  if i = 1 then XH
  else if i land 1 = 0 then XO (pos_of_int (i lsr 1))
  else XI (pos_of_int (i lsr 1))
let z_of_int (i : int) : z =
  if i = 0 then Z0 else if i > 0 then Zpos (pos_of_int i) else Zneg (pos_of_int (-i))
let rec int_of_pos (p : positive) : int =
  match p with XH -> 1 | XO q -> 2 * int_of_pos q | XI q -> 2 * int_of_pos q + 1
let int_of_z (x : z) : int =
  match x with Z0 -> 0 | Zpos p -> int_of_pos p | Zneg p -> - (int_of_pos p)
let int_of_nat (n : nat) : int =
  let rec go acc n = match n with O -> acc | S m -> go (acc + 1) m in go 0 n

let ztab = Array.init 256 z_of_int

let unhex (s : string) : z list =
  if s = "-" then []
  else List.init (String.length s / 2) (fun i -> ztab.(int_of_string ("0x" ^ String.sub s (2 * i) 2)))

let hex (l : z list) : string =
  if l = [] then "-" else String.concat "" (List.map (fun b -> Printf.sprintf "%02x" (int_of_z b)) l)

let text (l : z list) : string =
  String.concat "" (List.map (fun b -> String.make 1 (Char.chr (int_of_z b))) l)

let underscored s = String.map (fun c -> if c = ' ' then '_' else c) s

let site_name = function
  | PNonAsciiChars -> "next_token-chars" | PWordSlice -> "read_word-slice"
  | PNumberSlice -> "scan_number-slice" | PStringSlice -> "scan_string-slice"
  | PEscapeChars -> "scan_string-escape-chars" | PIndex -> "index" | PUnreachable -> "unreachable"

let frontend_mode vname inp outp =
  let v = match vname with
    | "shipped" -> shipped | "repaired" -> repaired | "source" -> variant_of_source
    | s -> failwith ("frontend: unknown variant " ^ s) in
  let oc = open_out outp in
  List.iteri (fun idx line ->
    let line = String.trim line in
    if line <> "" then begin
      Printf.fprintf oc "CASE %d\n" idx;
      let s = unhex line in
      if not (valid_utf8 s) then output_string oc "SKIP not-utf8\n"
      else begin
        (match lex v s with
         | Ok ((toks, diags), fin) ->
             List.iter (fun t ->
               Printf.fprintf oc "T %s %d %d %d %s\n" (text (tok_name t.t_kind))
                 (int_of_nat t.t_start) (int_of_nat t.t_end) (if t.t_owned then 1 else 0) (hex t.t_payload)) toks;
             List.iter (fun d ->
               Printf.fprintf oc "D %s %d %d %d\n" (underscored (text (lexerr_msg d.d_err)))
                 (int_of_nat d.d_start) (int_of_nat d.d_end) (int_of_z d.d_label)) diags;
             (* geometry of every lexer diagnostic (its only label has the same span) *)
             if List.for_all (fun d -> span_wfb s d.d_start d.d_end) diags then
               List.iter (fun d ->
                 match render_diagnostic s (d.d_start, d.d_end) [ (d.d_start, d.d_end) ] with
                 | Some g ->
                     Printf.fprintf oc "RD %d %d %d" (int_of_nat g.g_line) (int_of_nat g.g_col) (int_of_nat g.g_carets);
                     output_string oc " S";
                     List.iter (fun ((same, c), n) -> if same then Printf.fprintf oc " %d %d" (int_of_nat c) (int_of_nat n)) g.g_labels;
                     output_string oc " X";
                     List.iter (fun ((same, c), n) -> if not same then Printf.fprintf oc " %d %d" (int_of_nat c) (int_of_nat n)) g.g_labels;
                     output_string oc "\n"
                 | None -> output_string oc "RD none\n") diags;
             Printf.fprintf oc "FIN %d\n" (int_of_nat fin)
         | LexPanic (site, p) -> Printf.fprintf oc "LEXPANIC %s %d\n" (site_name site) (int_of_nat p)
         | OutOfFuel -> output_string oc "OUTOFFUEL\n");
        output_string oc "LEXEND\n"
      end;
      Printf.fprintf oc "END %d\n" idx
    end) (read_lines inp);
  close_out oc

let rec nat_of_int (i : int) : nat = if i <= 0 then O else S (nat_of_int (i - 1))

(* the observation line of one rendered diagnostic: geometry + expanded source lines *)
let render_line (s : z list) (dspan : nat * nat) (labels : (nat * nat) list) : string =
  match render_diagnostic s dspan labels, render_lines s dspan labels with
  | Some g, Some (src, xs) ->
      let b = Buffer.create 64 in
      Buffer.add_string b (Printf.sprintf "R %d %d %d S" (int_of_nat g.g_line) (int_of_nat g.g_col) (int_of_nat g.g_carets));
      List.iter (fun ((same, c), n) -> if same then Buffer.add_string b (Printf.sprintf " %d %d" (int_of_nat c) (int_of_nat n))) g.g_labels;
      Buffer.add_string b " X";
      List.iter (fun ((same, c), n) -> if not same then Buffer.add_string b (Printf.sprintf " %d %d" (int_of_nat c) (int_of_nat n))) g.g_labels;
      Buffer.add_string b (" L " ^ hex src);
      List.iter (function Some l -> Buffer.add_string b (" " ^ hex l) | None -> ()) xs;
      Buffer.contents b
  | _, _ -> "R none"

(* nsmodel frontend_render <in> <out>: each line `<hexsrc> <a> <b> <n> <c1> <d1> ...` *)
let render_mode inp outp =
  let oc = open_out outp in
  let last_hex = ref "" and last_src = ref [] in
  List.iter (fun line ->
    match words line with
    | [] -> ()
    | h :: a :: b :: _n :: rest ->
        if h <> !last_hex then begin last_hex := h; last_src := unhex h end;
        let s = !last_src in
        let n i = nat_of_int (int_of_string i) in
        let rec pairs = function x :: y :: tl -> (n x, n y) :: pairs tl | _ -> [] in
        if not (valid_utf8 s) then output_string oc "R skip\n"
        else output_string oc (render_line s (n a, n b) (pairs rest) ^ "\n")
    | _ -> output_string oc "R badinput\n") (read_lines inp);
  close_out oc

let () = register "frontend" (function
  | v :: inp :: outp :: _ -> frontend_mode v inp outp
  | _ -> failwith "frontend: <shipped|repaired|source> <in> <out>")

let () = register "frontend_render" (function
  | inp :: outp :: _ -> render_mode inp outp
  | _ -> failwith "frontend_render: <in> <out>")
