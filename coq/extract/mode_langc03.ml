(* mode_langc03.ml — nsmodel mode for C03 (trusted glue):
     nsmodel langc03 <in> <out>   reads the `ast`/`plan` lines the harness printed and evaluates
                                  PlanCheck.plan_ok (the verified plan classifier) on the real plan:
       verdict <checked 0|1> | <stmt id>:<class> ... | <fn id>:<class> ... | S <residual stmts> F <residual fns> | D <dead ids> | L <live fn ids>
       verdict2 <checked main> <checked aug> | classes under the augmented plan | residual | A <added stmt ids>   (PlanCheck.plan_ok2)
       verdict3 <checked main> <checked liveness> | A <residual stmt ids accepted as flow-sensitive dead stores> | S <residual stmts> F <residual fns>   (LiveCheck.plan_ok3)
       verdict4 ... the same for LiveCheck.plan_ok4 (round 4: right-hand sides calling pure, trap-free user functions)
     classes: U unreachable, N never-read (covered), NM never-read but rhs may raise Type mismatch /
              declaration kept, DS dead store (flow), DC dead store with calls, X no class;
              functions: UF unused, XF no class *)
open ModelLangC03
open Modes

let rec pos_of_int (i : int) : positive =
  if i = 1 then XH else if i land 1 = 0 then XO (pos_of_int (i lsr 1)) else XI (pos_of_int (i lsr 1))
let z_of_int (i : int) : z =
  if i = 0 then Z0 else if i > 0 then Zpos (pos_of_int i) else Zneg (pos_of_int (-i))
let rec int_of_pos (p : positive) : int =
  match p with XH -> 1 | XO q -> 2 * int_of_pos q | XI q -> 2 * int_of_pos q + 1
let int_of_z (x : z) : int =
  match x with Z0 -> 0 | Zpos p -> int_of_pos p | Zneg p -> - (int_of_pos p)
let rec nat_of_int (i : int) : nat = if i <= 0 then O else S (nat_of_int (i - 1))

(* 64-bit patterns do not fit OCaml's 63-bit ints: go through the hex digits *)
let z_of_hex (h : string) : z =
  (* value = sum digit * 16^k, built as a positive from the most significant bit down *)
  let bits = Buffer.create 64 in
  String.iter (fun c ->
    let d = int_of_string ("0x" ^ String.make 1 c) in
    for k = 3 downto 0 do Buffer.add_char bits (if (d lsr k) land 1 = 1 then '1' else '0') done) h;
  let s = Buffer.contents bits in
  let acc = ref None in
  String.iter (fun c ->
    acc := (match !acc, c with
      | None, '1' -> Some XH
      | None, _ -> None
      | Some p, '1' -> Some (XI p)
      | Some p, _ -> Some (XO p))) s;
  match !acc with None -> Z0 | Some p -> Zpos p

let hex_of_z (x : z) : string =
  (* non-negative, below 2^64 *)
  let rec bits p acc = match p with
    | XH -> 1 :: acc | XO q -> bits q (0 :: acc) | XI q -> bits q (1 :: acc) in
  let bl = match x with Z0 -> [] | Zpos p -> bits p [] | Zneg _ -> failwith "hex_of_z: negative" in
  let n = List.length bl in
  let padded = (List.init (max 0 (64 - n)) (fun _ -> 0)) @ bl in
  let b = Buffer.create 16 in
  let rec go l = match l with
    | a :: b1 :: c :: d :: r -> Buffer.add_string b (Printf.sprintf "%x" (a*8 + b1*4 + c*2 + d)); go r
    | [] -> ()
    | _ -> failwith "hex_of_z" in
  go padded; Buffer.contents b

let bytes_of_hex (h : string) : z list =
  if h = "-" then [] else
  List.init (String.length h / 2) (fun i -> z_of_int (int_of_string ("0x" ^ String.sub h (2*i) 2)))
let hex_of_bytes (b : z list) : string =
  if b = [] then "-" else String.concat "" (List.map (fun x -> Printf.sprintf "%02x" (int_of_z x)) b)

let opt_id (t : string) : z option = if t = "-" then None else Some (z_of_int (int_of_string t))

(* ---- AST reader: prefix token stream ---- *)
exception Bad of string
let parse_program (toks : string array) : stmt list =
  let pos = ref 0 in
  let next () = if !pos >= Array.length toks then raise (Bad "eof") else (let t = toks.(!pos) in incr pos; t) in
  let int () = int_of_string (next ()) in
  let rec times n f = if n <= 0 then [] else let x = f () in x :: times (n - 1) f in
  let binop = function
    | "add" -> Add | "minus" -> Minus | "times" -> Times | "divide" -> Divide | "mod" -> Mod
    | "and" -> And | "or" -> Or | "eq" -> OEq | "gt" -> OGt | "lt" -> OLt | s -> raise (Bad s) in
  let rec expr () : expr =
    match next () with
    | "N" -> let t = next () in if t = "!" then raise (Bad "number") else ENum (of_bits (z_of_hex t))
    | "S" -> EStr (bytes_of_hex (next ()))
    | "I" -> let n = int () in
        EInterp (times n (fun () -> match next () with
          | "L" -> SegLit (bytes_of_hex (next ()))
          | "V" -> let nm = bytes_of_hex (next ()) in let l = opt_id (next ()) in SegVar (nm, l)
          | s -> raise (Bad s)))
    | "B" -> EBool (next () = "1")
    | "Z" -> ENull
    | "V" -> let nm = bytes_of_hex (next ()) in let l = opt_id (next ()) in EVar (nm, l)
    | "O" -> let op = binop (next ()) in let a = expr () in let b = expr () in EBin (op, a, b)
    | "U" -> let op = (match next () with "not" -> Not | "neg" -> Neg | s -> raise (Bad s)) in EUn (op, expr ())
    | "A" -> let n = int () in EArr (times n expr)
    | "X" -> let a = expr () in let i = expr () in EIdx (a, i)
    | "M" -> let o = expr () in let f = bytes_of_hex (next ()) in EMember (o, f)
    | "C" -> let c = expr () in let n = int () in let args = times n expr in let t = opt_id (next ()) in ECall (c, args, t)
    | s -> raise (Bad ("expr " ^ s))
  and block () : stmt list = let n = int () in times n stmt
  and stmt () : stmt =
    match next () with
    | "F" -> let sid = opt_id (next ()) in let nm = bytes_of_hex (next ()) in
        let np = next () in if np = "!" then raise (Bad "params") else
        let ps = times (int_of_string np) (fun () -> bytes_of_hex (next ())) in
        let body = block () in
        let fid = opt_id (next ()) in let ls = z_of_int (int ()) in let ll = z_of_int (int ()) in
        SFun (sid, nm, ps, body, fid, ls, ll)
    | "K" -> let sid = opt_id (next ()) in let nm = bytes_of_hex (next ()) in let l = opt_id (next ()) in SMake (sid, nm, l, expr ())
    | "T" -> let sid = opt_id (next ()) in let nm = bytes_of_hex (next ()) in let l = opt_id (next ()) in SSet (sid, nm, l, expr ())
    | "J" -> let sid = opt_id (next ()) in let t = expr () in let e = expr () in SSetIdx (sid, t, e)
    | "IF" -> let sid = opt_id (next ()) in let c = expr () in let t = block () in
        let f = (match next () with "1" -> Some (block ()) | _ -> None) in SIf (sid, c, t, f)
    | "W" -> let sid = opt_id (next ()) in let c = expr () in SLoop (sid, c, block ())
    | "BL" -> let sid = opt_id (next ()) in SBlock (sid, block ())
    | "R" -> let sid = opt_id (next ()) in (match next () with "1" -> SRet (sid, Some (expr ())) | _ -> SRet (sid, None))
    | "BR" -> SBreak (opt_id (next ()))
    | "NX" -> SNext (opt_id (next ()))
    | "EX" -> let sid = opt_id (next ()) in SExpr (sid, expr ())
    | s -> raise (Bad ("stmt " ^ s)) in
  let p = block () in
  if !pos <> Array.length toks then raise (Bad "trailing tokens");
  p


let cls = function
  | CUnreachable -> "U" | CNeverRead -> "N" | CNeverReadMayFail -> "NM"
  | CDeadStore -> "DS" | CDeadStoreCall -> "DC" | CNoClass -> "X"
let fcls = function FUnused -> "UF" | FNoClass -> "XF"

let zs l = String.concat " " (List.map (fun z -> string_of_int (int_of_z z)) l)

let langc03_mode inp outp =
  let oc = open_out outp in
  let prog = ref None in
  List.iter (fun line ->
    match words line with
    | "case" :: id :: _ -> Printf.fprintf oc "case %s\n" id; prog := None
    | "ast" :: toks ->
        (try prog := Some (parse_program (Array.of_list toks))
         with Bad m -> Printf.fprintf oc "badast %s\n" m; prog := None)
    | "plan" :: rest ->
        (match !prog, rest with
         | Some p, "S" :: r ->
             let rec split acc = function
               | "F" :: fs -> (List.rev acc, fs)
               | x :: r -> split (x :: acc) r
               | [] -> (List.rev acc, []) in
             let (ss, fs) = split [] r in
             let ss = List.map (fun t -> z_of_int (int_of_string t)) ss in
             let fs = List.map (fun t -> z_of_int (int_of_string t)) fs in
             let v = plan_ok p ss fs in
             let (rs, rf) = v.v_residual in
             Printf.fprintf oc "verdict %d | %s | %s | S %s F %s | D %s | L %s\n"
               (if v.v_checked then 1 else 0)
               (String.concat " " (List.map (fun (i, k) -> Printf.sprintf "%d:%s" (int_of_z i) (cls k)) v.v_stmt))
               (String.concat " " (List.map (fun (i, k) -> Printf.sprintf "%d:%s" (int_of_z i) (fcls k)) v.v_fn))
               (zs rs) (zs rf) (zs v.v_dead) (zs v.v_live);
             (* the same against the plan augmented by the kept writers of never-read locals *)
             let w = plan_ok2 p ss fs in
             let m = w.w_main in
             let (rs2, rf2) = m.v_residual in
             Printf.fprintf oc "verdict2 %d %d | %s | S %s F %s | A %s\n"
               (if m.v_checked then 1 else 0) (if w.w_checked_aug then 1 else 0)
               (String.concat " " (List.map (fun (i, k) -> Printf.sprintf "%d:%s" (int_of_z i) (cls k)) m.v_stmt))
               (zs rs2) (zs rf2) (zs w.w_aug);
             (* round 2: the residual entries the verified liveness checker accepts as dead stores *)
             let x = plan_ok3 p ss fs in
             let (rs3, rf3) = x.x_residual in
             Printf.fprintf oc "verdict3 %d %d | A %s | S %s F %s\n"
               (if x.x_main.v_checked then 1 else 0) (if x.x_checked then 1 else 0)
               (zs x.x_acc) (zs rs3) (zs rf3);
             (* round 4: the same with right-hand sides that call pure, trap-free user functions *)
             let y = plan_ok4 p ss fs in
             let (rs4, rf4) = y.x_residual in
             Printf.fprintf oc "verdict4 %d %d | A %s | S %s F %s\n"
               (if y.x_main.v_checked then 1 else 0) (if y.x_checked then 1 else 0)
               (zs y.x_acc) (zs rs4) (zs rf4)
         | Some _, _ -> Printf.fprintf oc "verdict none\n"
         | None, _ -> ())
    | "end" :: id :: _ -> Printf.fprintf oc "end %s\n" id
    | _ -> ()) (read_lines inp);
  close_out oc

let () =
  register "langc03" (function inp :: outp :: _ -> langc03_mode inp outp | _ -> failwith "langc03: <in> <out>")
