(* mode_langc06r.ml — nsmodel mode for the C06 round-2 tie (trusted glue):
     nsmodel langc06r <in> <out>   reads the `ast` lines the harness printed (same format as
                                   mode_lang.ml) and prints, per case,
       rw rules <0|1> wf <0|1> ids <0|1> calls <0|1> fids <0|1> prange <0|1> idxt <0|1> lexical <0|1> nofn <0|1>
     rules   = StaticRules.check p = []          (the C09 model of the resolver's static rules)
     wf      = WfStatic.wf_static p              (hypothesis of C06_wf_static_never_panics_structural)
     ids     = RulesWf.ids_consistent p = calls && fids && prange, on the REAL ids of the dump
     idxt    = RulesWf.idx_targets p             (parser-level shape)
     lexical = LexResolve.lexical p              (C04's binding relation; implies ids)
     nofn    = LexResolve.nofn p                 (no user-defined function anywhere)
   Theorem C06_rules_accept_implies_wf_static: rules && ids && idxt ==> wf.
   The helpers and the AST reader are a copy of mode_langc06.ml's (each Model*.ml has its own
   copy of the extracted datatypes). *)
open ModelLangC06R
open Modes

let rec pos_of_int (i : int) : positive =
  if i = 1 then XH else if i land 1 = 0 then XO (pos_of_int (i lsr 1)) else XI (pos_of_int (i lsr 1))
let z_of_int (i : int) : z =
  if i = 0 then Z0 else if i > 0 then Zpos (pos_of_int i) else Zneg (pos_of_int (-i))
let rec int_of_pos (p : positive) : int =
  match p with XH -> 1 | XO q -> 2 * int_of_pos q | XI q -> 2 * int_of_pos q + 1
let int_of_z (x : z) : int =
  match x with Z0 -> 0 | Zpos p -> int_of_pos p | Zneg p -> - (int_of_pos p)
let rec nat_of_int (i : int) : nat = if i <= 0 then O else S (nat_of_int (i - 1))

(* 64-bit patterns do not fit OCaml's 63-bit ints: go through the hex digits *)
let z_of_hex (h : string) : z =
  (* value = sum digit * 16^k, built as a positive from the most significant bit down *)
  let bits = Buffer.create 64 in
  String.iter (fun c ->
    let d = int_of_string ("0x" ^ String.make 1 c) in
    for k = 3 downto 0 do Buffer.add_char bits (if (d lsr k) land 1 = 1 then '1' else '0') done) h;
  let s = Buffer.contents bits in
  let acc = ref None in
  String.iter (fun c ->
    acc := (match !acc, c with
      | None, '1' -> Some XH
      | None, _ -> None
      | Some p, '1' -> Some (XI p)
      | Some p, _ -> Some (XO p))) s;
  match !acc with None -> Z0 | Some p -> Zpos p

let hex_of_z (x : z) : string =
  (* non-negative, below 2^64 *)
  let rec bits p acc = match p with
    | XH -> 1 :: acc | XO q -> bits q (0 :: acc) | XI q -> bits q (1 :: acc) in
  let bl = match x with Z0 -> [] | Zpos p -> bits p [] | Zneg _ -> failwith "hex_of_z: negative" in
  let n = List.length bl in
  let padded = (List.init (max 0 (64 - n)) (fun _ -> 0)) @ bl in
  let b = Buffer.create 16 in
  let rec go l = match l with
    | a :: b1 :: c :: d :: r -> Buffer.add_string b (Printf.sprintf "%x" (a*8 + b1*4 + c*2 + d)); go r
    | [] -> ()
    | _ -> failwith "hex_of_z" in
  go padded; Buffer.contents b

let bytes_of_hex (h : string) : z list =
  if h = "-" then [] else
  List.init (String.length h / 2) (fun i -> z_of_int (int_of_string ("0x" ^ String.sub h (2*i) 2)))
let hex_of_bytes (b : z list) : string =
  if b = [] then "-" else String.concat "" (List.map (fun x -> Printf.sprintf "%02x" (int_of_z x)) b)

let opt_id (t : string) : z option = if t = "-" then None else Some (z_of_int (int_of_string t))

(* ---- AST reader: prefix token stream ---- *)
exception Bad of string
let parse_program (toks : string array) : stmt list =
  let pos = ref 0 in
  let next () = if !pos >= Array.length toks then raise (Bad "eof") else (let t = toks.(!pos) in incr pos; t) in
  let int () = int_of_string (next ()) in
  let rec times n f = if n <= 0 then [] else let x = f () in x :: times (n - 1) f in
  let binop = function
    | "add" -> Add | "minus" -> Minus | "times" -> Times | "divide" -> Divide | "mod" -> Mod
    | "and" -> And | "or" -> Or | "eq" -> OEq | "gt" -> OGt | "lt" -> OLt | s -> raise (Bad s) in
  let rec expr () : expr =
    match next () with
    | "N" -> let t = next () in if t = "!" then raise (Bad "number") else ENum (of_bits (z_of_hex t))
    | "S" -> EStr (bytes_of_hex (next ()))
    | "I" -> let n = int () in
        EInterp (times n (fun () -> match next () with
          | "L" -> SegLit (bytes_of_hex (next ()))
          | "V" -> let nm = bytes_of_hex (next ()) in let l = opt_id (next ()) in SegVar (nm, l)
          | s -> raise (Bad s)))
    | "B" -> EBool (next () = "1")
    | "Z" -> ENull
    | "V" -> let nm = bytes_of_hex (next ()) in let l = opt_id (next ()) in EVar (nm, l)
    | "O" -> let op = binop (next ()) in let a = expr () in let b = expr () in EBin (op, a, b)
    | "U" -> let op = (match next () with "not" -> Not | "neg" -> Neg | s -> raise (Bad s)) in EUn (op, expr ())
    | "A" -> let n = int () in EArr (times n expr)
    | "X" -> let a = expr () in let i = expr () in EIdx (a, i)
    | "M" -> let o = expr () in let f = bytes_of_hex (next ()) in EMember (o, f)
    | "C" -> let c = expr () in let n = int () in let args = times n expr in let t = opt_id (next ()) in ECall (c, args, t)
    | s -> raise (Bad ("expr " ^ s))
  and block () : stmt list = let n = int () in times n stmt
  and stmt () : stmt =
    match next () with
    | "F" -> let sid = opt_id (next ()) in let nm = bytes_of_hex (next ()) in
        let np = next () in if np = "!" then raise (Bad "params") else
        let ps = times (int_of_string np) (fun () -> bytes_of_hex (next ())) in
        let body = block () in
        let fid = opt_id (next ()) in let ls = z_of_int (int ()) in let ll = z_of_int (int ()) in
        SFun (sid, nm, ps, body, fid, ls, ll)
    | "K" -> let sid = opt_id (next ()) in let nm = bytes_of_hex (next ()) in let l = opt_id (next ()) in SMake (sid, nm, l, expr ())
    | "T" -> let sid = opt_id (next ()) in let nm = bytes_of_hex (next ()) in let l = opt_id (next ()) in SSet (sid, nm, l, expr ())
    | "J" -> let sid = opt_id (next ()) in let t = expr () in let e = expr () in SSetIdx (sid, t, e)
    | "IF" -> let sid = opt_id (next ()) in let c = expr () in let t = block () in
        let f = (match next () with "1" -> Some (block ()) | _ -> None) in SIf (sid, c, t, f)
    | "W" -> let sid = opt_id (next ()) in let c = expr () in SLoop (sid, c, block ())
    | "BL" -> let sid = opt_id (next ()) in SBlock (sid, block ())
    | "R" -> let sid = opt_id (next ()) in (match next () with "1" -> SRet (sid, Some (expr ())) | _ -> SRet (sid, None))
    | "BR" -> SBreak (opt_id (next ()))
    | "NX" -> SNext (opt_id (next ()))
    | "EX" -> let sid = opt_id (next ()) in SExpr (sid, expr ())
    | s -> raise (Bad ("stmt " ^ s)) in
  let p = block () in
  if !pos <> Array.length toks then raise (Bad "trailing tokens");
  p



let b01 b = if b then "1" else "0"

let langc06r_mode inp outp =
  let oc = open_out outp in
  List.iter (fun line ->
    match words line with
    | "case" :: id :: _ -> Printf.fprintf oc "case %s\n" id
    | "ast" :: toks ->
        (try
           let p = parse_program (Array.of_list toks) in
           Printf.fprintf oc "rw rules %s wf %s ids %s calls %s fids %s prange %s idxt %s lexical %s nofn %s\n"
             (b01 (check p = [])) (b01 (wf_static p)) (b01 (ids_consistent p)) (b01 (calls_lexical p))
             (b01 (fids_unique p)) (b01 (params_in_range p)) (b01 (idx_targets p)) (b01 (lexical p)) (b01 (nofn p))
         with Bad m -> Printf.fprintf oc "badast %s\n" m)
    | "end" :: id :: _ -> Printf.fprintf oc "end %s\n" id
    | _ -> ()) (read_lines inp);
  close_out oc

let () =
  register "langc06r" (function inp :: outp :: _ -> langc06r_mode inp outp | _ -> failwith "langc06r: <in> <out>")
