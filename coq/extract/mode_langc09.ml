(* mode_langc09.ml — nsmodel mode for the static rules (C09) (trusted glue):
     nsmodel langc09 <in> <out>   reads `case <id>` / `ast <tokens>` lines (the harness's dump
                                  of every program that parses) and prints, per case,
                                  `accepted 0|1` and one `viol <rule> <category-hex> <path>` per
                                  violation reported by StaticRules.check *)
open ModelLangC09
open Modes

let rec pos_of_int (i : int) : positive =
  if i = 1 then XH else if i land 1 = 0 then XO (pos_of_int (i lsr 1)) else XI (pos_of_int (i lsr 1))
let z_of_int (i : int) : z =
  if i = 0 then Z0 else if i > 0 then Zpos (pos_of_int i) else Zneg (pos_of_int (-i))
let rec int_of_pos (p : positive) : int =
  match p with XH -> 1 | XO q -> 2 * int_of_pos q | XI q -> 2 * int_of_pos q + 1
let int_of_z (x : z) : int =
  match x with Z0 -> 0 | Zpos p -> int_of_pos p | Zneg p -> - (int_of_pos p)
let rec int_of_nat (n : nat) : int = match n with O -> 0 | S m -> 1 + int_of_nat m

let bytes_of_hex (h : string) : z list =
  if h = "-" then [] else
  List.init (String.length h / 2) (fun i -> z_of_int (int_of_string ("0x" ^ String.sub h (2*i) 2)))
let hex_of_bytes (b : z list) : string =
  if b = [] then "-" else String.concat "" (List.map (fun x -> Printf.sprintf "%02x" (int_of_z x)) b)

let opt_id (t : string) : z option = if t = "-" then None else Some (z_of_int (int_of_string t))

(* ---- AST reader: prefix token stream (same grammar as mode_lang.ml; the numeric value of a
   literal is irrelevant to the static rules and is read as +0) ---- *)
exception Bad of string
let parse_program (toks : string array) : stmt list =
  let pos = ref 0 in
  let next () = if !pos >= Array.length toks then raise (Bad "eof") else (let t = toks.(!pos) in incr pos; t) in
  let int () = int_of_string (next ()) in
  let rec times n f = if n <= 0 then [] else let x = f () in x :: times (n - 1) f in
  let binop = function
    | "add" -> Add | "minus" -> Minus | "times" -> Times | "divide" -> Divide | "mod" -> Mod
    | "and" -> And | "or" -> Or | "eq" -> OEq | "gt" -> OGt | "lt" -> OLt | s -> raise (Bad s) in
  let rec expr () : expr =
    match next () with
    | "N" -> let _ = next () in ENum (S754_zero false)
    | "S" -> EStr (bytes_of_hex (next ()))
    | "I" -> let n = int () in
        EInterp (times n (fun () -> match next () with
          | "L" -> SegLit (bytes_of_hex (next ()))
          | "V" -> let nm = bytes_of_hex (next ()) in let l = opt_id (next ()) in SegVar (nm, l)
          | s -> raise (Bad s)))
    | "B" -> EBool (next () = "1")
    | "Z" -> ENull
    | "V" -> let nm = bytes_of_hex (next ()) in let l = opt_id (next ()) in EVar (nm, l)
    | "O" -> let op = binop (next ()) in let a = expr () in let b = expr () in EBin (op, a, b)
    | "U" -> let op = (match next () with "not" -> Not | "neg" -> Neg | s -> raise (Bad s)) in EUn (op, expr ())
    | "A" -> let n = int () in EArr (times n expr)
    | "X" -> let a = expr () in let i = expr () in EIdx (a, i)
    | "M" -> let o = expr () in let f = bytes_of_hex (next ()) in EMember (o, f)
    | "C" -> let c = expr () in let n = int () in let args = times n expr in let t = opt_id (next ()) in ECall (c, args, t)
    | s -> raise (Bad ("expr " ^ s))
  and block () : stmt list = let n = int () in times n stmt
  and stmt () : stmt =
    match next () with
    | "F" -> let sid = opt_id (next ()) in let nm = bytes_of_hex (next ()) in
        let np = next () in if np = "!" then raise (Bad "params") else
        let ps = times (int_of_string np) (fun () -> bytes_of_hex (next ())) in
        let body = block () in
        let fid = opt_id (next ()) in let ls = z_of_int (int ()) in let ll = z_of_int (int ()) in
        SFun (sid, nm, ps, body, fid, ls, ll)
    | "K" -> let sid = opt_id (next ()) in let nm = bytes_of_hex (next ()) in let l = opt_id (next ()) in SMake (sid, nm, l, expr ())
    | "T" -> let sid = opt_id (next ()) in let nm = bytes_of_hex (next ()) in let l = opt_id (next ()) in SSet (sid, nm, l, expr ())
    | "J" -> let sid = opt_id (next ()) in let t = expr () in let e = expr () in SSetIdx (sid, t, e)
    | "IF" -> let sid = opt_id (next ()) in let c = expr () in let t = block () in
        let f = (match next () with "1" -> Some (block ()) | _ -> None) in SIf (sid, c, t, f)
    | "W" -> let sid = opt_id (next ()) in let c = expr () in SLoop (sid, c, block ())
    | "BL" -> let sid = opt_id (next ()) in SBlock (sid, block ())
    | "R" -> let sid = opt_id (next ()) in (match next () with "1" -> SRet (sid, Some (expr ())) | _ -> SRet (sid, None))
    | "BR" -> SBreak (opt_id (next ()))
    | "NX" -> SNext (opt_id (next ()))
    | "EX" -> let sid = opt_id (next ()) in SExpr (sid, expr ())
    | s -> raise (Bad ("stmt " ^ s)) in
  let p = block () in
  if !pos <> Array.length toks then raise (Bad "trailing tokens");
  p

let rule_str (r : rule) : string = match r with
  | UndeclaredVar -> "UndeclaredVar" | AssignUndeclared -> "AssignUndeclared"
  | UndeclaredFunction -> "UndeclaredFunction" | ArityMismatch -> "ArityMismatch"
  | UnknownMethod -> "UnknownMethod" | MethodArity -> "MethodArity"
  | BreakOutsideLoop -> "BreakOutsideLoop" | NextOutsideLoop -> "NextOutsideLoop"
  | ReturnOutsideFunction -> "ReturnOutsideFunction" | DuplicateFunction -> "DuplicateFunction"
  | DuplicateParameter -> "DuplicateParameter" | ReservedName -> "ReservedName"
  | TypeMismatch -> "TypeMismatch"

let langc09_mode inp outp =
  let oc = open_out outp in
  List.iter (fun line ->
    match words line with
    | "case" :: id :: _ -> Printf.fprintf oc "case %s\n" id
    | "ast" :: toks ->
        (try
           let p = parse_program (Array.of_list toks) in
           let vs = check p in
           Printf.fprintf oc "accepted %d\n" (if vs = [] then 1 else 0);
           List.iter (fun (r, path) ->
             Printf.fprintf oc "viol %s %s %s\n" (rule_str r) (hex_of_bytes (category r))
               (String.concat "." (List.map (fun n -> string_of_int (int_of_nat n)) path))) vs
         with Bad m -> Printf.fprintf oc "badast %s\n" m)
    | "end" :: id :: _ -> Printf.fprintf oc "end %s\n" id
    | _ -> ()) (read_lines inp);
  close_out oc

let () =
  register "langc09" (function inp :: outp :: _ -> langc09_mode inp outp | _ -> failwith "langc09: <in> <out>")
