(* nsmodel layout <in> <out> — C10: the extracted layout model and lexer model on the re-layouts
   produced by `nsverif layout`.  Hand-written glue (trusted): decoding of the abstract layout
   (see harness/src/layout.rs, Abs::encode), conversions, printing.

   input line:  <tag> <hex text> <lead> <tail> <n> { <tk> <inner> <after> }
   output line: <tag> R<render = text> K<all tk_ok> W<wf_layout> S<separating> E<tk_tok list = lexed tokens>
                <Kind:payloadhex:owned,...> <number of lexer diagnostics>
            or  <tag> ... LEXPANIC / OUTOFFUEL *)
open ModelLayout
open Modes

let rec pos_of_int (i : int) : positive =
  if i = 1 then XH
  else if i land 1 = 0 then XO (pos_of_int (i lsr 1))
  else XI (pos_of_int (i lsr 1))
let z_of_int (i : int) : z =
  if i = 0 then Z0 else if i > 0 then Zpos (pos_of_int i) else Zneg (pos_of_int (-i))
let rec int_of_pos (p : positive) : int =
  match p with XH -> 1 | XO q -> 2 * int_of_pos q | XI q -> 2 * int_of_pos q + 1
let int_of_z (x : z) : int =
  match x with Z0 -> 0 | Zpos p -> int_of_pos p | Zneg p -> - (int_of_pos p)

let ztab = Array.init 256 z_of_int

let unhex (s : string) : z list =
  if s = "-" then []
  else List.init (String.length s / 2) (fun i -> ztab.(int_of_string ("0x" ^ String.sub s (2 * i) 2)))

let hex0 (l : z list) : string = String.concat "" (List.map (fun b -> Printf.sprintf "%02x" (int_of_z b)) l)

let text (l : z list) : string =
  String.concat "" (List.map (fun b -> String.make 1 (Char.chr (int_of_z b))) l)

let tok_of_name (n : string) : tok =
  match List.filter (fun k -> text (tok_name k) = n) all_toks with
  | k :: _ -> k
  | [] -> failwith ("layout: unknown token name " ^ n)

let byte1 (s : string) : z = match unhex s with [b] -> b | _ -> failwith ("layout: one byte expected: " ^ s)

let sep_of (s : string) : sep_elem list =
  if s = "-" then []
  else List.map (fun e ->
    let body = String.sub e 1 (String.length e - 1) in
    match e.[0] with
    | 'w' -> SWs (byte1 body)
    | 'c' -> (match String.split_on_char ':' body with
              | [b; nl] -> SComment (unhex b, byte1 nl)
              | _ -> failwith ("layout: comment " ^ e))
    | _ -> failwith ("layout: separator element " ^ e)) (String.split_on_char ',' s)

let tk_of (s : string) : tk =
  match String.split_on_char ':' s with
  | ["K"; n] -> KKw (tok_of_name n)
  | ["M"; n] -> KMulti (tok_of_name n)
  | ["P"; n] -> KPunct (tok_of_name n)
  | ["I"; w] -> KIdent (unhex w)
  | ["N"; i; f] -> KNumber (unhex i, if f = "-" then None else Some (unhex f))
  | ["S"; q; last; segs] ->
      let segs = if segs = "" then [] else
        List.map (fun sg -> match String.split_on_char '~' sg with
          | [raw; e] -> (unhex raw, byte1 e)
          | _ -> failwith ("layout: string segment " ^ sg)) (String.split_on_char ';' segs) in
      KString (byte1 q, segs, unhex last)
  | _ -> failwith ("layout: token " ^ s)

let inner_of (s : string) : z list list =
  if s = "-" then [] else List.map unhex (String.split_on_char ',' s)

let layout_mode inp outp =
  let oc = open_out outp in
  List.iter (fun line ->
    match words line with
    | tag :: txt :: lead :: tail :: n :: rest ->
        let n = int_of_string n in
        let rec take k l = if k = 0 then [] else match l with
          | t :: i :: a :: l' -> (tk_of t, { s_inner = inner_of i; s_after = sep_of a }) :: take (k - 1) l'
          | _ -> failwith "layout: truncated token list" in
        let pairs = take n rest in
        let ts = List.map fst pairs in
        let lay = { l_lead = sep_of lead; l_slots = List.map snd pairs;
                    l_tail = (if tail = "-" then None else Some (unhex (String.sub tail 1 (String.length tail - 1)))) } in
        let s = unhex txt in
        let b x = if x then 1 else 0 in
        Printf.fprintf oc "%s R%d K%d W%d S%d" tag (b (render ts lay = s)) (b (List.for_all tk_ok ts))
          (b (wf_layout ts lay)) (b (separating ts lay));
        (match lex variant_of_source s with
         | Ok ((toks, diags), _) ->
             Printf.fprintf oc " E%d %s %d\n" (b (List.map kpo toks = List.map tk_tok ts))
               (if toks = [] then "-" else String.concat "," (List.map (fun t ->
                  Printf.sprintf "%s:%s:%d" (text (tok_name t.t_kind)) (hex0 t.t_payload) (b t.t_owned)) toks))
               (List.length diags)
         | LexPanic (_, _) -> output_string oc " LEXPANIC\n"
         | OutOfFuel -> output_string oc " OUTOFFUEL\n")
    | [] -> ()
    | _ -> failwith ("layout: malformed line " ^ line)) (read_lines inp);
  close_out oc

let () = register "layout" (function
  | inp :: outp :: _ -> layout_mode inp outp
  | _ -> failwith "layout: <in> <out>")

(* nsmodel layout-keywords <out> — the multi-word keywords of the regenerated table (GenLexer.multi_table),
   one per line: <TokName> <first word> <continuation words...>; the check builds its separator sweep
   inside the keywords from this list *)
let () = register "layout-keywords" (function
  | outp :: _ ->
      let oc = open_out outp in
      List.iter (fun (w, alts) ->
        List.iter (fun (ws, k) ->
          Printf.fprintf oc "%s %s\n" (text (tok_name k)) (String.concat " " (List.map text (w :: ws)))) alts) multi_table;
      (* single-word keywords (GenLexer.keyword_table): <TokName> <word> *)
      List.iter (fun (w, k) -> Printf.fprintf oc "%s %s\n" (text (tok_name k)) (text w)) keyword_table;
      close_out oc
  | _ -> failwith "layout-keywords: <out>")
