(* nsmodel limits ... — C18 (analysis budgets).  Hand-written glue (trusted): parsing of the
   input lines, conversion between decimal text and the extracted Z, printing of canonical
   observation lines.  Everything that decides anything is the extracted Coq code. *)
open ModelLimits
open Modes

let rec pos_of_int (i : int) : positive =
  if i = 1 then XH
  else if i land 1 = 0 then XO (pos_of_int (i lsr 1))
  else XI (pos_of_int (i lsr 1))

let z_of_int (i : int) : z =
  if i = 0 then Z0 else if i > 0 then Zpos (pos_of_int i) else Zneg (pos_of_int (-i))

let rec int_of_pos (p : positive) : int =
  match p with XH -> 1 | XO q -> 2 * int_of_pos q | XI q -> 2 * int_of_pos q + 1

let int_of_z (x : z) : int =
  match x with Z0 -> 0 | Zpos p -> int_of_pos p | Zneg p -> - (int_of_pos p)

(* decimal text <-> Z through the extracted helpers (values may exceed OCaml's int) *)
let z_of_string (s : string) : z =
  let ds = ref [] in
  String.iter (fun ch ->
    if ch < '0' || ch > '9' then failwith ("limits: not a number: " ^ s);
    ds := z_of_int (Char.code ch - 48) :: !ds) s;
  z_of_digits (List.rev !ds)

let string_of_z (x : z) : string =
  String.concat "" (List.map (fun d -> string_of_int (int_of_z d)) (digits_of_z x))

let split_on c s = List.map String.trim (String.split_on_char c s)
let numbers s = List.filter (fun x -> x <> "") (split_on ',' s)

let metric_name (m : metric) : string =
  match m with
  | MFunctions -> "functions" | MLocals -> "locals" | MScopes -> "scopes"
  | MStatements -> "statements" | MCfgOps -> "cfg_ops" | MOpsInFn -> "ops_in_one_function"
  | MCfgBlocks -> "cfg_blocks" | MBlocksInFn -> "blocks_in_one_function"
  | MCalls -> "direct_user_calls" | MSummary -> "summary_events"
  | MLiveness -> "liveness_events"

let limit_str (l : limit option) : string =
  match l with
  | None -> "none"
  | Some l -> Printf.sprintf "%s %s %s" (metric_name l.l_metric) (string_of_z l.l_observed) (string_of_z l.l_limit)

let caps_of (s : string) : caps =
  match List.map z_of_string (numbers s) with
  | [a; b; c; d; e; f; g; h; i; j; k] ->
      { max_functions = a; max_locals = b; max_scopes = c; max_statements = d; max_total_ops = e;
        max_ops_per_function = f; max_total_blocks = g; max_blocks_per_function = h;
        max_direct_user_calls = i; max_summary_events = j; max_liveness_events = k }
  | _ -> failwith "limits: caps need 11 numbers"

(* ---- function level: C <id> | caps | nL,nS,nN,nC,total_ops,total_blocks | b,o,l b,o,l ... *)
let fn_mode inp outp =
  let oc = open_out outp in
  List.iter (fun line ->
    if String.length line > 2 && String.sub line 0 2 = "C " then begin
      let parts = split_on '|' line in
      let id = List.nth (words (List.nth parts 0)) 1 in
      let k = if String.trim (List.nth parts 1) = "default" then default_caps else caps_of (List.nth parts 1) in
      let g = List.map z_of_string (numbers (List.nth parts 2)) in
      let triples = if List.length parts > 3 then words (List.nth parts 3) else [] in
      let pf = List.map (fun t ->
        match List.map z_of_string (numbers t) with
        | [b; o; l] -> { fc_blocks = b; fc_ops = o; fc_locals = l }
        | _ -> failwith "limits: triple") triples in
      let c = { per_fn = pf; n_locals = List.nth g 0; n_scopes = List.nth g 1; n_statements = List.nth g 2;
                n_calls = List.nth g 3; total_ops = List.nth g 4; total_blocks = List.nth g 5 } in
      Printf.fprintf oc "C %s -> %s\n" id (limit_str (first_exceeded_limit c k))
    end) (read_lines inp);
  close_out oc

(* ---- shapes:  d<k> s<k> r<k> b c  B( .. )  I<k>( .. )  E<k>( .. / .. )  L<k>( .. )  F<p>( .. )
                 *<n>( .. )   (the sequence repeated n times) *)
let num_after (tok : string) (from : int) (upto : int) : z =
  z_of_string (String.sub tok from (upto - from))

let rec parse_seq (toks : string list) : stmt list * string list =
  match toks with
  | [] -> ([], [])
  | (")" | "/") :: _ -> ([], toks)
  | t :: rest ->
      let n = String.length t in
      let ends_paren = n > 0 && t.[n - 1] = '(' in
      let (items, rest') =
        if not ends_paren then begin
          let k () = if n > 1 then num_after t 1 n else Z0 in
          match t.[0] with
          | 'd' -> ([SDecl (k ())], rest)
          | 's' -> ([SSimple (k ())], rest)
          | 'r' -> ([SReturn (k ())], rest)
          | 'b' -> ([SBreak], rest)
          | 'c' -> ([SContinue], rest)
          | _ -> failwith ("limits: bad token " ^ t)
        end else begin
          let k () = if n > 2 then num_after t 1 (n - 1) else Z0 in
          let (body, r1) = parse_seq rest in
          match t.[0], r1 with
          | 'B', ")" :: r2 -> ([SBlock body], r2)
          | 'I', ")" :: r2 -> ([SIf (k (), body, false, [])], r2)
          | 'E', "/" :: r2 ->
              let (eb, r3) = parse_seq r2 in
              (match r3 with ")" :: r4 -> ([SIf (k (), body, true, eb)], r4) | _ -> failwith "limits: E( .. / .. )")
          | 'L', ")" :: r2 -> ([SLoop (k (), body)], r2)
          | 'F', ")" :: r2 -> ([SFn (k (), body)], r2)
          | '*', ")" :: r2 ->
              let cnt = int_of_z (k ()) in
              let rb = List.rev body in
              let acc = ref [] in
              for _ = 1 to cnt do acc := List.rev_append rb !acc done;   (* body @ acc *)
              (!acc, r2)
          | _ -> failwith ("limits: unbalanced " ^ t)
        end in
      let (more, rest'') = parse_seq rest' in
      (List.rev_append (List.rev items) more, rest'')

let parse_shape (s : string) : stmt list =
  match parse_seq (words s) with
  | (l, []) -> l
  | _ -> failwith "limits: trailing tokens in shape"

let counts_str (c : counts) : string =
  let pf = String.concat ";" (List.map (fun x ->
    Printf.sprintf "%s,%s,%s" (string_of_z x.fc_blocks) (string_of_z x.fc_ops) (string_of_z x.fc_locals)) c.per_fn) in
  Printf.sprintf "F=%s L=%s S=%s N=%s C=%s tops=%s tblocks=%s pf=%s"
    (string_of_z (n_functions c)) (string_of_z c.n_locals) (string_of_z c.n_scopes)
    (string_of_z c.n_statements) (string_of_z c.n_calls) (string_of_z c.total_ops)
    (string_of_z c.total_blocks) pf

let ids s = List.map z_of_string (numbers s)

let wkind_name = function
  | WUnreachable -> "U" | WUnusedAssignment -> "A" | WUnusedVariable -> "V" | WUnusedFunction -> "F"

let diag_str = function
  | DEarlier (SevError, c) -> "e" ^ string_of_z c
  | DEarlier (SevWarning, c) -> "w" ^ string_of_z c
  | DEarlier (SevNote, c) -> "n" ^ string_of_z c
  | DResourceLimit l -> "R:" ^ String.concat ":" (words (limit_str (Some l)))
  | DAnalysis (w, s) -> wkind_name w ^ string_of_z s

(* S <id> | <shape>                                  -> counts and verdict
   S <id> | <shape> | earlier | U ids | A ids | V ids | F ids | rs ids | rf ids
                                                    -> additionally the gate's output *)
let shape_mode inp outp =
  let oc = open_out outp in
  List.iter (fun line ->
    if String.length line > 2 && String.sub line 0 2 = "S " then begin
      let parts = split_on '|' line in
      let id = List.nth (words (List.nth parts 0)) 1 in
      let root = parse_shape (List.nth parts 1) in
      let c = counts_of_program root in
      let v = first_exceeded_limit c default_caps in
      Printf.fprintf oc "S %s %s -> %s\n" id (counts_str c) (limit_str v);
      if List.length parts >= 9 then begin
        let earlier = List.map (fun w ->
          let code = z_of_string (String.sub w 1 (String.length w - 1)) in
          match w.[0] with
          | 'e' -> DEarlier (SevError, code) | 'w' -> DEarlier (SevWarning, code) | _ -> DEarlier (SevNote, code))
          (words (List.nth parts 2)) in
        let a = { a_unreachable = ids (List.nth parts 3); a_unused_assignments = ids (List.nth parts 4);
                  a_unused_variables = ids (List.nth parts 5); a_unused_functions = ids (List.nth parts 6);
                  a_plan = { removable_stmts = ids (List.nth parts 7); removable_fns = ids (List.nth parts 8) } } in
        let (ds, p) = emit_analysis_warnings earlier c a in
        let ps = match p with
          | None -> "none"
          | Some p -> Printf.sprintf "some rs=%s rf=%s"
                        (String.concat "," (List.map string_of_z p.removable_stmts))
                        (String.concat "," (List.map string_of_z p.removable_fns)) in
        (* the prune predicates of the runtime on the first few statement / function ids *)
        let probe = List.init 8 (fun i -> z_of_int i) in
        let pruned = String.concat "" (List.map (fun i ->
          (if stmt_is_pruned p (Some i) then "1" else "0") ^ (if function_is_pruned p i then "1" else "0")) probe) in
        Printf.fprintf oc "G %s accepted=%b diags=%s plan=%s pruned=%s\n" id (accepted ds)
          (String.concat " " (List.map diag_str ds)) ps pruned
      end
    end) (read_lines inp);
  close_out oc

let info_mode outp =
  let oc = open_out outp in
  let k = default_caps in
  Printf.fprintf oc "caps %s\n" (String.concat "," (List.map string_of_z
    [k.max_functions; k.max_locals; k.max_scopes; k.max_statements; k.max_total_ops; k.max_ops_per_function;
     k.max_total_blocks; k.max_blocks_per_function; k.max_direct_user_calls; k.max_summary_events;
     k.max_liveness_events]));
  Printf.fprintf oc "summary_fn_threshold_L0 %s\n" (string_of_z (summary_fn_threshold k.max_summary_events Z0));
  close_out oc

let () = register "limits" (function
  | "fn" :: inp :: outp :: _ -> fn_mode inp outp
  | "shape" :: inp :: outp :: _ -> shape_mode inp outp
  | "info" :: outp :: _ -> info_mode outp
  | _ -> failwith "limits: fn <in> <out> | shape <in> <out> | info <out>")
