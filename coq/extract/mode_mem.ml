(* mode_mem.ml — nsmodel mode for the storage model of C02 (trusted glue):
     nsmodel mem <in> <out>
   Input: cases `case <id>` ... `end`, one op per line in between (see lib/props/c02.py,
   `Shape.ops`).  For every case the op sequence is replayed by Mem.run under the repaired
   configuration and under the three shipped/mutated variants, and by the reclamation-free
   machine Mem.arun; one line each:
     mem <cfg> <ok|stale|ill|fault> | <printed values>       cfg in repaired alias noparam nostage
     ref <ok|ill> | <printed values> *)
open ModelMem
open Modes

let rec pos_of_int (i : int) : positive =
  if i = 1 then XH else if i land 1 = 0 then XO (pos_of_int (i lsr 1)) else XI (pos_of_int (i lsr 1))
let z_of_int (i : int) : z =
  if i = 0 then Z0 else if i > 0 then Zpos (pos_of_int i) else Zneg (pos_of_int (-i))
let rec int_of_pos (p : positive) : int =
  match p with XH -> 1 | XO q -> 2 * int_of_pos q | XI q -> 2 * int_of_pos q + 1
let int_of_z (x : z) : int =
  match x with Z0 -> 0 | Zpos p -> int_of_pos p | Zneg p -> - (int_of_pos p)
let rec nat_of_int (i : int) : nat = if i <= 0 then O else S (nat_of_int (i - 1))

let z_of_hex (h : string) : z =
  let bits = Buffer.create 64 in
  String.iter (fun c ->
    let d = int_of_string ("0x" ^ String.make 1 c) in
    for k = 3 downto 0 do Buffer.add_char bits (if (d lsr k) land 1 = 1 then '1' else '0') done) h;
  let s = Buffer.contents bits in
  let acc = ref None in
  String.iter (fun c ->
    acc := (match !acc, c with
      | None, '1' -> Some XH
      | None, _ -> None
      | Some p, '1' -> Some (XI p)
      | Some p, _ -> Some (XO p))) s;
  match !acc with None -> Z0 | Some p -> Zpos p

let hex_of_z (x : z) : string =
  let rec bits p acc = match p with
    | XH -> 1 :: acc | XO q -> bits q (0 :: acc) | XI q -> bits q (1 :: acc) in
  let bl = match x with Z0 -> [] | Zpos p -> bits p [] | Zneg _ -> failwith "hex_of_z: negative" in
  let n = List.length bl in
  let padded = (List.init (max 0 (64 - n)) (fun _ -> 0)) @ bl in
  let b = Buffer.create 16 in
  let rec go l = match l with
    | a :: b1 :: c :: d :: r -> Buffer.add_string b (Printf.sprintf "%x" (a*8 + b1*4 + c*2 + d)); go r
    | [] -> ()
    | _ -> failwith "hex_of_z" in
  go padded; Buffer.contents b

let bytes_of_hex (h : string) : z list =
  if h = "-" then [] else
  List.init (String.length h / 2) (fun i -> z_of_int (int_of_string ("0x" ^ String.sub h (2*i) 2)))
let hex_of_bytes (b : z list) : string =
  if b = [] then "-" else String.concat "" (List.map (fun x -> Printf.sprintf "%02x" (int_of_z x)) b)

let rec value_repr (b : Buffer.t) (v : value) : unit =
  match v with
  | VNum x -> (match x with
      | S754_nan -> Buffer.add_string b "n:nan"
      | _ -> Buffer.add_string b ("n:" ^ hex_of_z (to_bits x)))
  | VStr s -> Buffer.add_string b ("s:" ^ hex_of_bytes s)
  | VBool x -> Buffer.add_string b (if x then "b:1" else "b:0")
  | VNull -> Buffer.add_char b 'z'
  | VArr vs -> Buffer.add_string b "a[";
      List.iteri (fun i x -> if i > 0 then Buffer.add_char b ','; value_repr b x) vs;
      Buffer.add_char b ']'

let values_str (vs : value list) : string =
  let b = Buffer.create 64 in
  List.iter (fun v -> Buffer.add_char b ' '; value_repr b v) vs; Buffer.contents b

let nat_tok t = nat_of_int (int_of_string t)

let parse_op (ws : string list) : op =
  match ws with
  | ["num"; h] -> OScalar (SNum (of_bits (z_of_hex h)))
  | ["bool"; b] -> OScalar (SBool (b = "1"))
  | ["null"] -> OScalar SNull
  | ["lit"; h] -> OLit (bytes_of_hex h)
  | ["read"; x] -> ORead (nat_tok x)
  | ["interp"; x] -> OInterp (nat_tok x)
  | ["concat"] -> OConcat
  | ["mkarr"; n] -> OMkArr (nat_tok n)
  | ["index"; i] -> OIndex (nat_tok i)
  | ["drop"] -> ODrop
  | ["promote"] -> OPromote
  | ["make"; x] -> OMake (nat_tok x)
  | ["assign"; x] -> OAssign (nat_tok x)
  | "storeidx" :: x :: i :: path -> OStoreIdx (nat_tok x, List.map nat_tok path, nat_tok i)
  | "push" :: x :: path -> OPush (nat_tok x, List.map nat_tok path)
  | "pop" :: x :: path -> OPop (nat_tok x, List.map nat_tok path)
  | ["shout"] -> OShout
  | ["pushscope"] -> OPushScope
  | ["popscope"] -> OPopScope
  | ["callbegin"] -> OCallBegin
  | "callbind" :: xs -> OCallBind (List.map nat_tok xs)
  | ["callend"] -> OCallEnd
  | ["loopiter"] -> OLoopIter
  | ["loopiterend"] -> OLoopIterEnd
  | ["loopexit"] -> OLoopExit
  | "reverse" :: x :: path -> OReverse (nat_tok x, List.map nat_tok path)
  | _ -> failwith ("mem: bad op line: " ^ String.concat " " ws)

let verdict_str (v : verdict) : string =
  match v with
  | VOk vs -> "ok |" ^ values_str vs
  | VStale outs ->
      let b = Buffer.create 64 in
      List.iter (fun o -> Buffer.add_char b ' ';
                   match o with Some v -> value_repr b v | None -> Buffer.add_string b "!dead") outs;
      "stale |" ^ Buffer.contents b
  | VIll -> "ill |"
  | VFault -> "fault |"

let cfgs = [ ("repaired", cfg_repaired);
             ("alias", { c_alias = true; c_promote_params = true; c_stage = true });
             ("noparam", { c_alias = false; c_promote_params = false; c_stage = true });
             ("nostage", { c_alias = false; c_promote_params = true; c_stage = false }) ]

let mem_mode inp outp =
  let oc = open_out outp in
  let cur_id = ref None and cur = ref [] in
  let flush_case () =
    match !cur_id with
    | None -> ()
    | Some id ->
        let ops = List.rev !cur in
        Printf.fprintf oc "case %s\n" id;
        List.iter (fun (name, c) -> Printf.fprintf oc "mem %s %s\n" name (verdict_str (observe c ops))) cfgs;
        (match aobserve ops with
         | Some vs -> Printf.fprintf oc "ref ok |%s\n" (values_str vs)
         | None -> Printf.fprintf oc "ref ill |\n");
        Printf.fprintf oc "end %s\n" id;
        cur_id := None; cur := [] in
  List.iter (fun l ->
    match words l with
    | ["case"; id] -> flush_case (); cur_id := Some id
    | ["end"] | ["end"; _] -> flush_case ()
    | [] -> ()
    | ws -> cur := parse_op ws :: !cur) (read_lines inp);
  flush_case ();
  close_out oc

let () = register "mem" (function inp :: outp :: _ -> mem_mode inp outp | _ -> failwith "mem: args")
