(* mode_memeval.ml — nsmodel mode for the instrumented evaluator of C02 (trusted glue):
     nsmodel memeval <eps-hex> <fuel> <in> <out>
   Input: the `case` / `ast` / `plan` / `end` lines of `nsmodel lang`.  For every program and for
   the run without plan (n) and, when the plan is not empty, with the plan (p), MemEval.memeval_report:
     me <n|p> ops <count> ctr <frame resets> <pool returns> <promotions>
     mem <ok|stale|ill|fault> | <values read back from the storage machine's heap>
     twin <ok|ill> | <values of the reclamation-free machine>
     out <ending> | <values the instrumented evaluator printed>
   With NSMEMEVAL_OPS=1 the issued ops are printed too (one `op ...` line each, syntax of nsmodel mem). *)
open ModelMemEval
open Modes

let rec pos_of_int (i : int) : positive =
  if i = 1 then XH else if i land 1 = 0 then XO (pos_of_int (i lsr 1)) else XI (pos_of_int (i lsr 1))
let z_of_int (i : int) : z =
  if i = 0 then Z0 else if i > 0 then Zpos (pos_of_int i) else Zneg (pos_of_int (-i))
let rec int_of_pos (p : positive) : int =
  match p with XH -> 1 | XO q -> 2 * int_of_pos q | XI q -> 2 * int_of_pos q + 1
let int_of_z (x : z) : int =
  match x with Z0 -> 0 | Zpos p -> int_of_pos p | Zneg p -> - (int_of_pos p)
let rec nat_of_int (i : int) : nat = if i <= 0 then O else S (nat_of_int (i - 1))

(* 64-bit patterns do not fit OCaml's 63-bit ints: go through the hex digits *)
let z_of_hex (h : string) : z =
  (* value = sum digit * 16^k, built as a positive from the most significant bit down *)
  let bits = Buffer.create 64 in
  String.iter (fun c ->
    let d = int_of_string ("0x" ^ String.make 1 c) in
    for k = 3 downto 0 do Buffer.add_char bits (if (d lsr k) land 1 = 1 then '1' else '0') done) h;
  let s = Buffer.contents bits in
  let acc = ref None in
  String.iter (fun c ->
    acc := (match !acc, c with
      | None, '1' -> Some XH
      | None, _ -> None
      | Some p, '1' -> Some (XI p)
      | Some p, _ -> Some (XO p))) s;
  match !acc with None -> Z0 | Some p -> Zpos p

let hex_of_z (x : z) : string =
  (* non-negative, below 2^64 *)
  let rec bits p acc = match p with
    | XH -> 1 :: acc | XO q -> bits q (0 :: acc) | XI q -> bits q (1 :: acc) in
  let bl = match x with Z0 -> [] | Zpos p -> bits p [] | Zneg _ -> failwith "hex_of_z: negative" in
  let n = List.length bl in
  let padded = (List.init (max 0 (64 - n)) (fun _ -> 0)) @ bl in
  let b = Buffer.create 16 in
  let rec go l = match l with
    | a :: b1 :: c :: d :: r -> Buffer.add_string b (Printf.sprintf "%x" (a*8 + b1*4 + c*2 + d)); go r
    | [] -> ()
    | _ -> failwith "hex_of_z" in
  go padded; Buffer.contents b

let bytes_of_hex (h : string) : z list =
  if h = "-" then [] else
  List.init (String.length h / 2) (fun i -> z_of_int (int_of_string ("0x" ^ String.sub h (2*i) 2)))
let hex_of_bytes (b : z list) : string =
  if b = [] then "-" else String.concat "" (List.map (fun x -> Printf.sprintf "%02x" (int_of_z x)) b)

let opt_id (t : string) : z option = if t = "-" then None else Some (z_of_int (int_of_string t))

(* ---- AST reader: prefix token stream ---- *)
exception Bad of string
let parse_program (toks : string array) : stmt list =
  let pos = ref 0 in
  let next () = if !pos >= Array.length toks then raise (Bad "eof") else (let t = toks.(!pos) in incr pos; t) in
  let int () = int_of_string (next ()) in
  let rec times n f = if n <= 0 then [] else let x = f () in x :: times (n - 1) f in
  let binop = function
    | "add" -> Add | "minus" -> Minus | "times" -> Times | "divide" -> Divide | "mod" -> Mod
    | "and" -> And | "or" -> Or | "eq" -> OEq | "gt" -> OGt | "lt" -> OLt | s -> raise (Bad s) in
  let rec expr () : expr =
    match next () with
    | "N" -> let t = next () in if t = "!" then raise (Bad "number") else ENum (of_bits (z_of_hex t))
    | "S" -> EStr (bytes_of_hex (next ()))
    | "I" -> let n = int () in
        EInterp (times n (fun () -> match next () with
          | "L" -> SegLit (bytes_of_hex (next ()))
          | "V" -> let nm = bytes_of_hex (next ()) in let l = opt_id (next ()) in SegVar (nm, l)
          | s -> raise (Bad s)))
    | "B" -> EBool (next () = "1")
    | "Z" -> ENull
    | "V" -> let nm = bytes_of_hex (next ()) in let l = opt_id (next ()) in EVar (nm, l)
    | "O" -> let op = binop (next ()) in let a = expr () in let b = expr () in EBin (op, a, b)
    | "U" -> let op = (match next () with "not" -> Not | "neg" -> Neg | s -> raise (Bad s)) in EUn (op, expr ())
    | "A" -> let n = int () in EArr (times n expr)
    | "X" -> let a = expr () in let i = expr () in EIdx (a, i)
    | "M" -> let o = expr () in let f = bytes_of_hex (next ()) in EMember (o, f)
    | "C" -> let c = expr () in let n = int () in let args = times n expr in let t = opt_id (next ()) in ECall (c, args, t)
    | s -> raise (Bad ("expr " ^ s))
  and block () : stmt list = let n = int () in times n stmt
  and stmt () : stmt =
    match next () with
    | "F" -> let sid = opt_id (next ()) in let nm = bytes_of_hex (next ()) in
        let np = next () in if np = "!" then raise (Bad "params") else
        let ps = times (int_of_string np) (fun () -> bytes_of_hex (next ())) in
        let body = block () in
        let fid = opt_id (next ()) in let ls = z_of_int (int ()) in let ll = z_of_int (int ()) in
        SFun (sid, nm, ps, body, fid, ls, ll)
    | "K" -> let sid = opt_id (next ()) in let nm = bytes_of_hex (next ()) in let l = opt_id (next ()) in SMake (sid, nm, l, expr ())
    | "T" -> let sid = opt_id (next ()) in let nm = bytes_of_hex (next ()) in let l = opt_id (next ()) in SSet (sid, nm, l, expr ())
    | "J" -> let sid = opt_id (next ()) in let t = expr () in let e = expr () in SSetIdx (sid, t, e)
    | "IF" -> let sid = opt_id (next ()) in let c = expr () in let t = block () in
        let f = (match next () with "1" -> Some (block ()) | _ -> None) in SIf (sid, c, t, f)
    | "W" -> let sid = opt_id (next ()) in let c = expr () in SLoop (sid, c, block ())
    | "BL" -> let sid = opt_id (next ()) in SBlock (sid, block ())
    | "R" -> let sid = opt_id (next ()) in (match next () with "1" -> SRet (sid, Some (expr ())) | _ -> SRet (sid, None))
    | "BR" -> SBreak (opt_id (next ()))
    | "NX" -> SNext (opt_id (next ()))
    | "EX" -> let sid = opt_id (next ()) in SExpr (sid, expr ())
    | s -> raise (Bad ("stmt " ^ s)) in
  let p = block () in
  if !pos <> Array.length toks then raise (Bad "trailing tokens");
  p

let rec value_repr (b : Buffer.t) (v : value) : unit =
  match v with
  | VNum x -> (match x with
      | S754_nan -> Buffer.add_string b "n:nan"
      | _ -> Buffer.add_string b ("n:" ^ hex_of_z (to_bits x)))
  | VStr s -> Buffer.add_string b ("s:" ^ hex_of_bytes s)
  | VBool x -> Buffer.add_string b (if x then "b:1" else "b:0")
  | VNull -> Buffer.add_char b 'z'
  | VArr vs -> Buffer.add_string b "a[";
      List.iteri (fun i x -> if i > 0 then Buffer.add_char b ','; value_repr b x) vs;
      Buffer.add_char b ']'

let ending_str = function
  | Done -> "ok"
  | RtErr DivZero -> "err:Division_by_zero"
  | RtErr StackOv -> "err:Stack_overflow"
  | RtErr IdxOob -> "err:Index_out_of_bounds"
  | RtErr TypeMis -> "err:Type_mismatch"
  | RtErr InvIdx -> "err:Invalid_index"
  | Panicked _ -> "panic"
  | EFuel -> "fuel"
  | Unsupported -> "unsupported"

let psite_str (p : psite) : string = match p with
  | PNumOp -> "PNumOp" | PVarMissing -> "PVarMissing" | PFuncMissing -> "PFuncMissing"
  | PArgCount -> "PArgCount" | PBuiltinArity -> "PBuiltinArity" | PBreakEscapes -> "PBreakEscapes"
  | PAssignMissing -> "PAssignMissing" | PMutVarMissing -> "PMutVarMissing" | PArgIndex -> "PArgIndex"
  | PSegVar -> "PSegVar" | PParamRange -> "PParamRange" | PNoFnScope -> "PNoFnScope"
  | PIdxAssignEnd -> "PIdxAssignEnd" | PFind -> "PFind" | PMutBuiltin -> "PMutBuiltin"


let rec int_of_nat (n : nat) : int = let rec go n acc = match n with O -> acc | S m -> go m (acc + 1) in go n 0

let values_str (vs : value list) : string =
  let b = Buffer.create 64 in
  List.iter (fun v -> Buffer.add_char b ' '; value_repr b v) vs; Buffer.contents b

let verdict_str (v : verdict) : string =
  match v with
  | VOk vs -> "ok |" ^ values_str vs
  | VStale outs ->
      let b = Buffer.create 64 in
      List.iter (fun o -> Buffer.add_char b ' ';
                   match o with Some v -> value_repr b v | None -> Buffer.add_string b "!dead") outs;
      "stale |" ^ Buffer.contents b
  | VIll -> "ill |"
  | VFault -> "fault |"

let nats l = String.concat " " (List.map (fun n -> string_of_int (int_of_nat n)) l)
let op_str (o : op) : string =
  match o with
  | OScalar (SNum x) -> (match x with S754_nan -> "num nan" | _ -> "num " ^ hex_of_z (to_bits x))
  | OScalar (SBool b) -> if b then "bool 1" else "bool 0"
  | OScalar SNull -> "null"
  | OLit b -> "lit " ^ hex_of_bytes b
  | ORead x -> "read " ^ nats [x]
  | OInterp x -> "interp " ^ nats [x]
  | OConcat -> "concat"
  | OMkArr n -> "mkarr " ^ nats [n]
  | OIndex i -> "index " ^ nats [i]
  | ODrop -> "drop"
  | OPromote -> "promote"
  | OMake x -> "make " ^ nats [x]
  | OAssign x -> "assign " ^ nats [x]
  | OStoreIdx (x, path, i) -> "storeidx " ^ nats (x :: i :: path)
  | OPush (x, path) -> "push " ^ nats (x :: path)
  | OPop (x, path) -> "pop " ^ nats (x :: path)
  | OShout -> "shout"
  | OPushScope -> "pushscope"
  | OPopScope -> "popscope"
  | OCallBegin -> "callbegin"
  | OCallBind xs -> "callbind " ^ nats xs
  | OCallEnd -> "callend"
  | OLoopIter -> "loopiter"
  | OLoopIterEnd -> "loopiterend"
  | OLoopExit -> "loopexit"
  | OReverse (x, path) -> "reverse " ^ nats (x :: path)

let dump_ops = (try Sys.getenv "NSMEMEVAL_OPS" = "1" with Not_found -> false)

let run_one oc tag (pl : (z list * z list) option) eps fuel prog =
  let r = memeval_report pl eps fuel prog in
  let c = r.r_counts in
  Printf.fprintf oc "me %s ops %d ctr %d %d %d\n" tag (int_of_nat r.r_nops)
    (int_of_nat c.n_resets) (int_of_nat c.n_returns) (int_of_nat c.n_promotions);
  Printf.fprintf oc "mem %s\n" (verdict_str r.r_mem);
  (match r.r_twin with
   | Some vs -> Printf.fprintf oc "twin ok |%s\n" (values_str vs)
   | None -> Printf.fprintf oc "twin ill |\n");
  let extra = match r.r_end with Panicked p -> ":" ^ psite_str p | _ -> "" in
  Printf.fprintf oc "out %s%s |%s\n" (ending_str r.r_end) extra (values_str r.r_out);
  if dump_ops then List.iter (fun o -> Printf.fprintf oc "op %s\n" (op_str o)) (eval_ops pl eps fuel prog)

let memeval_mode eps_hex fuel_s inp outp =
  let oc = open_out outp in
  let eps = of_bits (z_of_hex eps_hex) in
  let fuel = nat_of_int (int_of_string fuel_s) in
  let prog = ref None in
  List.iter (fun line ->
    match words line with
    | "case" :: id :: _ -> Printf.fprintf oc "case %s\n" id; prog := None
    | "ast" :: toks ->
        (try prog := Some (parse_program (Array.of_list toks))
         with Bad m -> Printf.fprintf oc "badast %s\n" m; prog := None)
    | "plan" :: rest ->
        (match !prog with
         | None -> ()
         | Some p ->
             let pl = (match rest with
               | ["none"] -> None
               | "S" :: r ->
                   let rec split acc = function
                     | "F" :: fs -> (List.rev acc, fs)
                     | x :: r -> split (x :: acc) r
                     | [] -> (List.rev acc, []) in
                   let (ss, fs) = split [] r in
                   Some (List.map (fun t -> z_of_int (int_of_string t)) ss,
                         List.map (fun t -> z_of_int (int_of_string t)) fs)
               | _ -> None) in
             run_one oc "n" None eps fuel p;
             (match pl with Some ([], []) | None -> () | Some _ -> run_one oc "p" pl eps fuel p);
             flush oc)
    | "end" :: id :: _ -> Printf.fprintf oc "end %s\n" id
    | _ -> ()) (read_lines inp);
  close_out oc

let () =
  register "memeval" (function eps :: fuel :: inp :: outp :: _ -> memeval_mode eps fuel inp outp
                              | _ -> failwith "memeval: <eps-hex> <fuel> <in> <out>")
