(* nsmodel parser <in> <out> — the extracted parser model (Parser.parse_program) on the output of
   `nsverif parsedump`: for every case it is run (1) on the REAL token list (the `T` lines of the
   stand-alone lexer run) and (2) on the token list of the extracted lexer model (Lexer.lex on the
   source bytes of the CASE line).  Hand-written glue (trusted): hex decoding, conversion between
   OCaml ints/strings and the extracted Z / nat / lists, printing.

   Output per case:
     CASE <index>
     A <tree>                     same grammar as nsverif parsedump
     PD syntax <message_> <start> <end> <n labels> {<start> <end> <label hex>}
     PULLED <tokens pulled from the lexer> <1 if the lexer was asked past its last token>
     L <named AST>                Parser.to_lang of the tree, printed in the grammar of the `ast` line of
                                  `nsverif lang` (harness/src/lang.rs) with every id `-` (local ranges 0 0);
                                  number literals are read by OCaml's float_of_string (glue)
     MTOK same | MTOK differ <first differing index> | MTOK lexpanic | MTOK fuel | MTOK not-utf8
     MA / MPD / MPULLED           (2), only when the model lexer's tokens differ from the real ones
     END <index> *)
open ModelParser
open Modes

let rec pos_of_int (i : int) : positive =
  if i = 1 then XH
  else if i land 1 = 0 then XO (pos_of_int (i lsr 1))
  else XI (pos_of_int (i lsr 1))
let z_of_int (i : int) : z =
  if i = 0 then Z0 else if i > 0 then Zpos (pos_of_int i) else Zneg (pos_of_int (-i))
let rec int_of_pos (p : positive) : int =
  match p with XH -> 1 | XO q -> 2 * int_of_pos q | XI q -> 2 * int_of_pos q + 1
let int_of_z (x : z) : int =
  match x with Z0 -> 0 | Zpos p -> int_of_pos p | Zneg p -> - (int_of_pos p)
let int_of_nat (n : nat) : int =
  let rec go acc n = match n with O -> acc | S m -> go (acc + 1) m in go 0 n
let nat_of_int (i : int) : nat =
  let rec go acc i = if i <= 0 then acc else go (S acc) (i - 1) in go O i

let ztab = Array.init 256 z_of_int

let unhex (s : string) : z list =
  if s = "-" then []
  else List.init (String.length s / 2) (fun i -> ztab.(int_of_string ("0x" ^ String.sub s (2 * i) 2)))

let hex (l : z list) : string =
  if l = [] then "-" else String.concat "" (List.map (fun b -> Printf.sprintf "%02x" (int_of_z b)) l)

let text (l : z list) : string =
  String.concat "" (List.map (fun b -> String.make 1 (Char.chr (int_of_z b))) l)

let underscored s = String.map (fun c -> if c = ' ' then '_' else c) s

let kind_table : (string, tok) Hashtbl.t =
  let h = Hashtbl.create 64 in
  List.iter (fun k -> Hashtbl.replace h (text (tok_name k)) k) all_toks; h

let binop_name = function
  | Add -> "add" | Minus -> "minus" | Times -> "times" | Divide -> "divide" | Mod -> "mod"
  | And -> "and" | Or -> "or" | OEq -> "eq" | OGt -> "gt" | OLt -> "lt"
let unop_name = function Not -> "not" | Neg -> "neg"

let sp b ((a, e) : span) = Printf.bprintf b " %d:%d" (int_of_nat a) (int_of_nat e)

let rec dump_expr b (e : sexpr) =
  match e with
  | XNum (t, s) -> Printf.bprintf b " N %s" (hex t); sp b s
  | XStr (_, _, SStatic t, s) -> Printf.bprintf b " S %s" (hex t); sp b s
  | XStr (_, _, SInterp segs, s) ->
      Printf.bprintf b " I %d" (List.length segs);
      List.iter (function
        | TSLit t -> Printf.bprintf b " L %s" (hex t)
        | TSVar n -> Printf.bprintf b " V %s" (hex n)) segs;
      sp b s
  | XBool (v, s) -> Printf.bprintf b " B %d" (if v then 1 else 0); sp b s
  | XNull s -> Buffer.add_string b " Z"; sp b s
  | XVar (n, s) -> Printf.bprintf b " V %s" (hex n); sp b s
  | XBin (op, l, r, s) -> Printf.bprintf b " O %s" (binop_name op); dump_expr b l; dump_expr b r; sp b s
  | XUn (op, a, s) -> Printf.bprintf b " U %s" (unop_name op); dump_expr b a; sp b s
  | XArr (es, s) -> Printf.bprintf b " A %d" (List.length es); List.iter (dump_expr b) es; sp b s
  | XIdx (a, i, isp, s) -> Buffer.add_string b " X"; dump_expr b a; dump_expr b i; sp b isp; sp b s
  | XMember (o, f, fsp, s) -> Buffer.add_string b " M"; dump_expr b o; Printf.bprintf b " %s" (hex f); sp b fsp; sp b s
  | XCall (c, args, s) ->
      Buffer.add_string b " C"; dump_expr b c; Printf.bprintf b " %d" (List.length args);
      List.iter (dump_expr b) args; sp b s

let rec dump_block b (ss : sstmt list) (bsp : span) =
  Printf.bprintf b " %d" (List.length ss); List.iter (dump_stmt b) ss; sp b bsp

and dump_stmt b (s : sstmt) =
  match s with
  | YFun (n, nsp, ps, psps, body, bsp, s) ->
      Printf.bprintf b " F %s" (hex n); sp b nsp;
      Printf.bprintf b " %d" (List.length ps);
      List.iter2 (fun p q -> Printf.bprintf b " %s" (hex p); sp b q) ps psps;
      dump_block b body bsp; sp b s
  | YMake (x, xsp, e, s) -> Printf.bprintf b " K %s" (hex x); sp b xsp; dump_expr b e; sp b s
  | YSet (x, xsp, e, s) -> Printf.bprintf b " T %s" (hex x); sp b xsp; dump_expr b e; sp b s
  | YSetIdx (t, e, s) -> Buffer.add_string b " J"; dump_expr b t; dump_expr b e; sp b s
  | YIf (c, t, tsp, he, f, fsp, s) ->
      Buffer.add_string b " IF"; dump_expr b c; dump_block b t tsp;
      if he then (Buffer.add_string b " 1"; dump_block b f fsp) else Buffer.add_string b " 0";
      sp b s
  | YLoop (c, body, bsp, s) -> Buffer.add_string b " W"; dump_expr b c; dump_block b body bsp; sp b s
  | YBlock (body, bsp, s) -> Buffer.add_string b " BL"; dump_block b body bsp; sp b s
  | YRet (None, s) -> Buffer.add_string b " R 0"; sp b s
  | YRet (Some e, s) -> Buffer.add_string b " R 1"; dump_expr b e; sp b s
  | YBreak s -> Buffer.add_string b " BR"; sp b s
  | YNext s -> Buffer.add_string b " NX"; sp b s
  | YExpr (e, s) -> Buffer.add_string b " EX"; dump_expr b e; sp b s

(* ---- the named Lang AST, in the grammar of harness/src/lang.rs `ast` *)
let rec pos_of_int64 (i : int64) : positive =
  if i = 1L then XH
  else if Int64.logand i 1L = 0L then XO (pos_of_int64 (Int64.shift_right_logical i 1))
  else XI (pos_of_int64 (Int64.shift_right_logical i 1))
let z_of_bits (i : int64) : z = if i = 0L then Z0 else Zpos (pos_of_int64 i)
let rec int64_of_pos (p : positive) : int64 =
  match p with
  | XH -> 1L
  | XO q -> Int64.shift_left (int64_of_pos q) 1
  | XI q -> Int64.logor (Int64.shift_left (int64_of_pos q) 1) 1L
let bits_of_z (x : z) : int64 = match x with Z0 -> 0L | Zpos p -> int64_of_pos p | Zneg _ -> 0L

(* str::parse::<f64> on a number token (digits, optionally `.` digits) *)
let num_of_text (t : z list) : f64 =
  match float_of_string_opt (text t) with
  | Some f -> of_bits (z_of_bits (Int64.bits_of_float f))
  | None -> of_bits (z_of_bits (Int64.bits_of_float nan))

let rec lang_expr b (e : expr) =
  match e with
  | ENum x -> Printf.bprintf b " N %016Lx" (bits_of_z (to_bits x))
  | EStr s -> Printf.bprintf b " S %s" (hex s)
  | EInterp segs ->
      Printf.bprintf b " I %d" (List.length segs);
      List.iter (function
        | SegLit s -> Printf.bprintf b " L %s" (hex s)
        | SegVar (n, _) -> Printf.bprintf b " V %s -" (hex n)) segs
  | EBool v -> Printf.bprintf b " B %d" (if v then 1 else 0)
  | ENull -> Buffer.add_string b " Z"
  | EVar (n, _) -> Printf.bprintf b " V %s -" (hex n)
  | EBin (op, l, r) -> Printf.bprintf b " O %s" (binop_name op); lang_expr b l; lang_expr b r
  | EUn (op, a) -> Printf.bprintf b " U %s" (unop_name op); lang_expr b a
  | EArr es -> Printf.bprintf b " A %d" (List.length es); List.iter (lang_expr b) es
  | EIdx (a, i) -> Buffer.add_string b " X"; lang_expr b a; lang_expr b i
  | EMember (o, f) -> Buffer.add_string b " M"; lang_expr b o; Printf.bprintf b " %s" (hex f)
  | ECall (c, args, _) ->
      Buffer.add_string b " C"; lang_expr b c; Printf.bprintf b " %d" (List.length args);
      List.iter (lang_expr b) args; Buffer.add_string b " -"

let rec lang_block b (ss : stmt list) =
  Printf.bprintf b " %d" (List.length ss); List.iter (lang_stmt b) ss

and lang_stmt b (s : stmt) =
  match s with
  | SFun (_, n, ps, body, _, _, _) ->
      Printf.bprintf b " F - %s %d" (hex n) (List.length ps);
      List.iter (fun p -> Printf.bprintf b " %s" (hex p)) ps;
      lang_block b body; Buffer.add_string b " - 0 0"
  | SMake (_, x, _, e) -> Printf.bprintf b " K - %s -" (hex x); lang_expr b e
  | SSet (_, x, _, e) -> Printf.bprintf b " T - %s -" (hex x); lang_expr b e
  | SSetIdx (_, t, e) -> Buffer.add_string b " J -"; lang_expr b t; lang_expr b e
  | SIf (_, c, t, f) ->
      Buffer.add_string b " IF -"; lang_expr b c; lang_block b t;
      (match f with Some fb -> Buffer.add_string b " 1"; lang_block b fb | None -> Buffer.add_string b " 0")
  | SLoop (_, c, body) -> Buffer.add_string b " W -"; lang_expr b c; lang_block b body
  | SBlock (_, body) -> Buffer.add_string b " BL -"; lang_block b body
  | SRet (_, None) -> Buffer.add_string b " R - 0"
  | SRet (_, Some e) -> Buffer.add_string b " R - 1"; lang_expr b e
  | SBreak _ -> Buffer.add_string b " BR -"
  | SNext _ -> Buffer.add_string b " NX -"
  | SExpr (_, e) -> Buffer.add_string b " EX -"; lang_expr b e

let print_parse oc prefix (toks : token list) =
  match parse_program parser_variant_src toks with
  | NoFuel -> Printf.fprintf oc "%sFUEL\n" prefix
  | Done p ->
      let b = Buffer.create 1024 in
      dump_block b p.p_stmts p.p_span;
      Printf.fprintf oc "%sA%s\n" prefix (Buffer.contents b);
      List.iter (fun d ->
        let (a, e) = d.pd_span in
        Printf.fprintf oc "%sPD syntax %s %d %d" prefix (underscored (text (synerr_msg d.pd_err)))
          (int_of_nat a) (int_of_nat e);
        (match d.pd_label with
         | Some l -> Printf.fprintf oc " 1 %d %d %s" (int_of_nat a) (int_of_nat e) (hex l)
         | None -> output_string oc " 0");
        output_string oc "\n") p.p_diags;
      Printf.fprintf oc "%sPULLED %d %d\n" prefix (int_of_nat p.p_pulled) (if p.p_lexed_all then 1 else 0);
      let lb = Buffer.create 1024 in
      lang_block lb (to_lang num_of_text p.p_stmts);
      Printf.fprintf oc "%sL%s\n" prefix (Buffer.contents lb)

let tok_same (a : token) (b : token) =
  a.t_kind = b.t_kind && a.t_owned = b.t_owned
  && int_of_nat a.t_start = int_of_nat b.t_start && int_of_nat a.t_end = int_of_nat b.t_end
  && List.map int_of_z a.t_payload = List.map int_of_z b.t_payload

let rec first_diff i a b =
  match a, b with
  | [], [] -> None
  | x :: a', y :: b' -> if tok_same x y then first_diff (i + 1) a' b' else Some i
  | _, _ -> Some i

let parser_mode inp outp =
  let oc = open_out outp in
  let cur_idx = ref "" and cur_src = ref "-" and toks = ref [] and skip = ref false in
  let finish () =
    if !cur_idx <> "" then begin
      Printf.fprintf oc "CASE %s\n" !cur_idx;
      if not !skip then begin
        let real = List.rev !toks in
        print_parse oc "" real;
        let s = unhex !cur_src in
        if not (valid_utf8 s) then output_string oc "MTOK not-utf8\n"
        else
          (match lex lexer_variant_src s with
           | Ok ((mt, _), _) ->
               (match first_diff 0 real mt with
                | None -> output_string oc "MTOK same\n"
                | Some i -> Printf.fprintf oc "MTOK differ %d\n" i; print_parse oc "M" mt)
           | LexPanic (_, _) -> output_string oc "MTOK lexpanic\n"
           | OutOfFuel -> output_string oc "MTOK fuel\n")
      end;
      Printf.fprintf oc "END %s\n" !cur_idx
    end in
  List.iter (fun line ->
    match words line with
    | "CASE" :: idx :: src :: _ ->
        finish (); cur_idx := idx; cur_src := src; toks := []; skip := false
    | [ "T"; k; a; e; o; p; _ ] ->
        let kd = (match Hashtbl.find_opt kind_table k with Some kd -> kd | None -> failwith ("parser: unknown token kind " ^ k)) in
        toks := { t_kind = kd; t_payload = unhex p; t_owned = (o = "1");
                  t_start = nat_of_int (int_of_string a); t_end = nat_of_int (int_of_string e) } :: !toks
    | "SKIP" :: _ -> skip := true
    | "PANIC" :: "lex" :: _ -> skip := true
    | _ -> ()) (read_lines inp);
  finish ();
  close_out oc

let () = register "parser" (function
  | inp :: outp :: _ -> parser_mode inp outp
  | _ -> failwith "parser: <in> <out>")
