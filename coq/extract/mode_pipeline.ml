(* nsmodel pipeline <eps-hex> <fuel> <in> <out> — the extracted END-TO-END model (theories/Pipeline.v):
   Pipeline.front / run_source / run_source_impl lex and parse the SOURCE TEXT themselves.
   run_source = spec_of_front o front and run_source_impl = impl_of_front o front by definition; the
   glue calls `front` once per case and hands its result to both (the extracted lexer is quadratic on
   byte lists); with NSPIPE_DIRECT set it calls run_source / run_source_impl themselves.
   Hand-written glue (trusted): hex decoding, conversion between OCaml ints/strings and the
   extracted Z / nat / lists, the reader of the `ast` line of `nsverif lang` (copied from
   mode_lang.ml), printing.

   Input, per case:
     case <id> <hex of the source text> [<fuel for this case>]
     ast <resolved AST printed by nsverif lang>        (optional: the implementation's tree)
   Output, per case:
     case <id>
     front ok | notutf8 | lexpanic <site> <pos> | lexfuel | parsefuel
     tokens <number of tokens> pulled <n> lexed_all 0|1 lexdiags_all <n>
     numlit 1|0             every Number token's payload is digits or digits '.' digits
                            (Pipeline.tok_number_ok: the texts on which NumParse.to_number is proved
                            to be the correctly rounded decimal, never the NaN fallback)
     ldiag <message_> <start> <end>                    reported lexical diagnostics
     sdiag <message_> <start> <end> <label hex>        syntax diagnostics
     viol <rule> <category hex> <path>                 broken static rules
     accepted 0|1
     phase lexical|syntax|static|-
     nast <named AST, grammar of the `ast` line, every id `-`>
     asteq 1|0|-            implementation's tree with ids erased = model tree   (- : no ast line)
     resolved 1|0|-         Pipeline.ids succeeded                               (accepted only)
     lexical 1|0            LexResolve.lexical of the model's resolved tree      (resolved only)
     bindeq 1|0|-           same_binding_structure (implementation's tree) (model's resolved tree)
     nec 1|0                LexResolve.no_early_capture of the resolved tree
     run s <ending> | <values>      Pipeline.run_source      (Spec.run_spec)
     run i <ending> | <values>      Pipeline.run_source_impl (Lang.run_impl None on Pipeline.ids)
     out <hex>                      what `shout` wrote for run i: Lang.display of every value + LF
     end <id> *)
open ModelPipeline
open Modes

let rec pos_of_int (i : int) : positive =
  if i = 1 then XH else if i land 1 = 0 then XO (pos_of_int (i lsr 1)) else XI (pos_of_int (i lsr 1))
let z_of_int (i : int) : z =
  if i = 0 then Z0 else if i > 0 then Zpos (pos_of_int i) else Zneg (pos_of_int (-i))
let rec int_of_pos (p : positive) : int =
  match p with XH -> 1 | XO q -> 2 * int_of_pos q | XI q -> 2 * int_of_pos q + 1
let int_of_z (x : z) : int =
  match x with Z0 -> 0 | Zpos p -> int_of_pos p | Zneg p -> - (int_of_pos p)
let int_of_nat (n : nat) : int =
  let rec go acc n = match n with O -> acc | S m -> go (acc + 1) m in go 0 n
let nat_of_int (i : int) : nat =
  let rec go acc i = if i <= 0 then acc else go (S acc) (i - 1) in go O i

let ztab = Array.init 256 z_of_int

let z_of_hex (h : string) : z =
  let acc = ref None in
  String.iter (fun c ->
    let d = int_of_string ("0x" ^ String.make 1 c) in
    for k = 3 downto 0 do
      let bit = (d lsr k) land 1 = 1 in
      acc := (match !acc, bit with
        | None, true -> Some XH
        | None, false -> None
        | Some p, true -> Some (XI p)
        | Some p, false -> Some (XO p))
    done) h;
  match !acc with None -> Z0 | Some p -> Zpos p

let hex_of_z (x : z) : string =
  let rec bits p acc = match p with
    | XH -> 1 :: acc | XO q -> bits q (0 :: acc) | XI q -> bits q (1 :: acc) in
  let bl = match x with Z0 -> [] | Zpos p -> bits p [] | Zneg _ -> failwith "hex_of_z: negative" in
  let n = List.length bl in
  let padded = (List.init (max 0 (64 - n)) (fun _ -> 0)) @ bl in
  let b = Buffer.create 16 in
  let rec go l = match l with
    | a :: b1 :: c :: d :: r -> Buffer.add_string b (Printf.sprintf "%x" (a*8 + b1*4 + c*2 + d)); go r
    | [] -> ()
    | _ -> failwith "hex_of_z" in
  go padded; Buffer.contents b

let unhex (s : string) : z list =
  if s = "-" then []
  else List.init (String.length s / 2) (fun i -> ztab.(int_of_string ("0x" ^ String.sub s (2 * i) 2)))
let hex (l : z list) : string =
  if l = [] then "-" else String.concat "" (List.map (fun b -> Printf.sprintf "%02x" (int_of_z b)) l)
let text (l : z list) : string =
  String.concat "" (List.map (fun b -> String.make 1 (Char.chr (int_of_z b))) l)
let underscored s = String.map (fun c -> if c = ' ' then '_' else c) s

let opt_id (t : string) : z option = if t = "-" then None else Some (z_of_int (int_of_string t))

(* ---- reader of the `ast` line (same as mode_lang.ml) ---- *)
exception Bad of string
let parse_ast (toks : string array) : stmt list =
  let pos = ref 0 in
  let next () = if !pos >= Array.length toks then raise (Bad "eof") else (let t = toks.(!pos) in incr pos; t) in
  let int () = int_of_string (next ()) in
  let rec times n f = if n <= 0 then [] else let x = f () in x :: times (n - 1) f in
  let binop = function
    | "add" -> Add | "minus" -> Minus | "times" -> Times | "divide" -> Divide | "mod" -> Mod
    | "and" -> And | "or" -> Or | "eq" -> OEq | "gt" -> OGt | "lt" -> OLt | s -> raise (Bad s) in
  let rec expr () : expr =
    match next () with
    | "N" -> let t = next () in if t = "!" then raise (Bad "number") else ENum (of_bits (z_of_hex t))
    | "S" -> EStr (unhex (next ()))
    | "I" -> let n = int () in
        EInterp (times n (fun () -> match next () with
          | "L" -> SegLit (unhex (next ()))
          | "V" -> let nm = unhex (next ()) in let l = opt_id (next ()) in SegVar (nm, l)
          | s -> raise (Bad s)))
    | "B" -> EBool (next () = "1")
    | "Z" -> ENull
    | "V" -> let nm = unhex (next ()) in let l = opt_id (next ()) in EVar (nm, l)
    | "O" -> let op = binop (next ()) in let a = expr () in let b = expr () in EBin (op, a, b)
    | "U" -> let op = (match next () with "not" -> Not | "neg" -> Neg | s -> raise (Bad s)) in EUn (op, expr ())
    | "A" -> let n = int () in EArr (times n expr)
    | "X" -> let a = expr () in let i = expr () in EIdx (a, i)
    | "M" -> let o = expr () in let f = unhex (next ()) in EMember (o, f)
    | "C" -> let c = expr () in let n = int () in let args = times n expr in let t = opt_id (next ()) in ECall (c, args, t)
    | s -> raise (Bad ("expr " ^ s))
  and block () : stmt list = let n = int () in times n stmt
  and stmt () : stmt =
    match next () with
    | "F" -> let sid = opt_id (next ()) in let nm = unhex (next ()) in
        let np = next () in if np = "!" then raise (Bad "params") else
        let ps = times (int_of_string np) (fun () -> unhex (next ())) in
        let body = block () in
        let fid = opt_id (next ()) in let ls = z_of_int (int ()) in let ll = z_of_int (int ()) in
        SFun (sid, nm, ps, body, fid, ls, ll)
    | "K" -> let sid = opt_id (next ()) in let nm = unhex (next ()) in let l = opt_id (next ()) in SMake (sid, nm, l, expr ())
    | "T" -> let sid = opt_id (next ()) in let nm = unhex (next ()) in let l = opt_id (next ()) in SSet (sid, nm, l, expr ())
    | "J" -> let sid = opt_id (next ()) in let t = expr () in let e = expr () in SSetIdx (sid, t, e)
    | "IF" -> let sid = opt_id (next ()) in let c = expr () in let t = block () in
        let f = (match next () with "1" -> Some (block ()) | _ -> None) in SIf (sid, c, t, f)
    | "W" -> let sid = opt_id (next ()) in let c = expr () in SLoop (sid, c, block ())
    | "BL" -> let sid = opt_id (next ()) in SBlock (sid, block ())
    | "R" -> let sid = opt_id (next ()) in (match next () with "1" -> SRet (sid, Some (expr ())) | _ -> SRet (sid, None))
    | "BR" -> SBreak (opt_id (next ()))
    | "NX" -> SNext (opt_id (next ()))
    | "EX" -> let sid = opt_id (next ()) in SExpr (sid, expr ())
    | s -> raise (Bad ("stmt " ^ s)) in
  let p = block () in
  if !pos <> Array.length toks then raise (Bad "trailing tokens");
  p

(* ---- printer of the named AST (grammar of the `ast` line, every id `-`) ---- *)
let binop_name = function
  | Add -> "add" | Minus -> "minus" | Times -> "times" | Divide -> "divide" | Mod -> "mod"
  | And -> "and" | Or -> "or" | OEq -> "eq" | OGt -> "gt" | OLt -> "lt"
let unop_name = function Not -> "not" | Neg -> "neg"
let num_repr x = match x with S754_nan -> "nan" | _ -> hex_of_z (to_bits x)

let rec lang_expr b (e : expr) =
  match e with
  | ENum x -> Printf.bprintf b " N %s" (num_repr x)
  | EStr s -> Printf.bprintf b " S %s" (hex s)
  | EInterp segs ->
      Printf.bprintf b " I %d" (List.length segs);
      List.iter (function
        | SegLit s -> Printf.bprintf b " L %s" (hex s)
        | SegVar (n, _) -> Printf.bprintf b " V %s -" (hex n)) segs
  | EBool v -> Printf.bprintf b " B %d" (if v then 1 else 0)
  | ENull -> Buffer.add_string b " Z"
  | EVar (n, _) -> Printf.bprintf b " V %s -" (hex n)
  | EBin (op, l, r) -> Printf.bprintf b " O %s" (binop_name op); lang_expr b l; lang_expr b r
  | EUn (op, a) -> Printf.bprintf b " U %s" (unop_name op); lang_expr b a
  | EArr es -> Printf.bprintf b " A %d" (List.length es); List.iter (lang_expr b) es
  | EIdx (a, i) -> Buffer.add_string b " X"; lang_expr b a; lang_expr b i
  | EMember (o, f) -> Buffer.add_string b " M"; lang_expr b o; Printf.bprintf b " %s" (hex f)
  | ECall (c, args, _) ->
      Buffer.add_string b " C"; lang_expr b c; Printf.bprintf b " %d" (List.length args);
      List.iter (lang_expr b) args; Buffer.add_string b " -"

let rec lang_block b (ss : stmt list) =
  Printf.bprintf b " %d" (List.length ss); List.iter (lang_stmt b) ss
and lang_stmt b (s : stmt) =
  match s with
  | SFun (_, n, ps, body, _, _, _) ->
      Printf.bprintf b " F - %s %d" (hex n) (List.length ps);
      List.iter (fun p -> Printf.bprintf b " %s" (hex p)) ps;
      lang_block b body; Buffer.add_string b " - 0 0"
  | SMake (_, x, _, e) -> Printf.bprintf b " K - %s -" (hex x); lang_expr b e
  | SSet (_, x, _, e) -> Printf.bprintf b " T - %s -" (hex x); lang_expr b e
  | SSetIdx (_, t, e) -> Buffer.add_string b " J -"; lang_expr b t; lang_expr b e
  | SIf (_, c, t, f) ->
      Buffer.add_string b " IF -"; lang_expr b c; lang_block b t;
      (match f with Some fb -> Buffer.add_string b " 1"; lang_block b fb | None -> Buffer.add_string b " 0")
  | SLoop (_, c, body) -> Buffer.add_string b " W -"; lang_expr b c; lang_block b body
  | SBlock (_, body) -> Buffer.add_string b " BL -"; lang_block b body
  | SRet (_, None) -> Buffer.add_string b " R - 0"
  | SRet (_, Some e) -> Buffer.add_string b " R - 1"; lang_expr b e
  | SBreak _ -> Buffer.add_string b " BR -"
  | SNext _ -> Buffer.add_string b " NX -"
  | SExpr (_, e) -> Buffer.add_string b " EX -"; lang_expr b e

let named_dump (p : stmt list) : string =
  let b = Buffer.create 1024 in lang_block b p; Buffer.contents b

(* ---- values and endings (same canonical form as mode_lang.ml / harness lang.rs) ---- *)
let rec value_repr (b : Buffer.t) (v : value) : unit =
  match v with
  | VNum x -> (match x with
      | S754_nan -> Buffer.add_string b "n:nan"
      | _ -> Buffer.add_string b ("n:" ^ hex_of_z (to_bits x)))
  | VStr s -> Buffer.add_string b ("s:" ^ hex s)
  | VBool x -> Buffer.add_string b (if x then "b:1" else "b:0")
  | VNull -> Buffer.add_char b 'z'
  | VArr vs -> Buffer.add_string b "a[";
      List.iteri (fun i x -> if i > 0 then Buffer.add_char b ','; value_repr b x) vs;
      Buffer.add_char b ']'

let rterr_str = function
  | DivZero -> "err:Division_by_zero" | StackOv -> "err:Stack_overflow"
  | IdxOob -> "err:Index_out_of_bounds" | TypeMis -> "err:Type_mismatch" | InvIdx -> "err:Invalid_index"

let psite_str (p : psite) : string = match p with
  | PNumOp -> "PNumOp" | PVarMissing -> "PVarMissing" | PFuncMissing -> "PFuncMissing"
  | PArgCount -> "PArgCount" | PBuiltinArity -> "PBuiltinArity" | PBreakEscapes -> "PBreakEscapes"
  | PAssignMissing -> "PAssignMissing" | PMutVarMissing -> "PMutVarMissing" | PArgIndex -> "PArgIndex"
  | PSegVar -> "PSegVar" | PParamRange -> "PParamRange" | PNoFnScope -> "PNoFnScope"
  | PIdxAssignEnd -> "PIdxAssignEnd" | PFind -> "PFind" | PMutBuiltin -> "PMutBuiltin"

let ending_str (e : ending) = match e with
  | Done -> "ok" | RtErr r -> rterr_str r | Panicked p -> "panic:" ^ psite_str p
  | EFuel -> "fuel" | Unsupported -> "unsupported"
let sending_str (e : sending) = match e with
  | SDone -> "ok" | SRtErr r -> rterr_str r | SIsStuck -> "stuck"
  | SOutOfFuel -> "fuel" | SUnsupported -> "unsupported"

let values_str outs =
  let b = Buffer.create 256 in
  List.iter (fun v -> Buffer.add_char b ' '; value_repr b v) outs; Buffer.contents b

let phase_str = function PhLexical -> "lexical" | PhSyntax -> "syntax" | PhStatic -> "static"

let site_name = function
  | PNonAsciiChars -> "next_token-chars" | PWordSlice -> "read_word-slice"
  | PNumberSlice -> "scan_number-slice" | PStringSlice -> "scan_string-slice"
  | PEscapeChars -> "scan_string-escape-chars" | PIndex -> "index" | PUnreachable -> "unreachable"

let failure_str = function
  | FLexPanic (site, p) -> Printf.sprintf "lexpanic %s %d" (site_name site) (int_of_nat p)
  | FLexFuel -> "lexfuel"
  | FParseFuel -> "parsefuel"

let rule_str (r : rule) : string = match r with
  | UndeclaredVar -> "UndeclaredVar" | AssignUndeclared -> "AssignUndeclared"
  | UndeclaredFunction -> "UndeclaredFunction" | ArityMismatch -> "ArityMismatch"
  | UnknownMethod -> "UnknownMethod" | MethodArity -> "MethodArity"
  | BreakOutsideLoop -> "BreakOutsideLoop" | NextOutsideLoop -> "NextOutsideLoop"
  | ReturnOutsideFunction -> "ReturnOutsideFunction" | DuplicateFunction -> "DuplicateFunction"
  | DuplicateParameter -> "DuplicateParameter" | ReservedName -> "ReservedName"
  | TypeMismatch -> "TypeMismatch"

let run_line oc tag (estr : 'e -> string) (o : 'e outcome_of) =
  match o with
  | Ran (outs, e) ->
      Printf.fprintf oc "run %s %s |%s\n" tag (estr e) (values_str outs);
      if tag = "i" then
        Printf.fprintf oc "out %s\n" (hex (List.concat (List.map (fun v -> display v @ [z_of_int 10]) outs)))
  | Rejected (ph, _) -> Printf.fprintf oc "run %s rejected:%s |\n" tag (phase_str ph)
  | NoFront f -> Printf.fprintf oc "run %s nofront:%s |\n" tag (underscored (failure_str f))
  | Unresolved -> Printf.fprintf oc "run %s unresolved |\n" tag

let one_case oc eps fuel (id : string) (src : z list) (impl_ast : stmt list option) (bad_ast : string option) =
  Printf.fprintf oc "case %s\n" id;
  let timing = Sys.getenv_opt "NSPIPE_TIMING" <> None in
  let t0 = Sys.time () in
  let lap = ref t0 in
  let tick what = if timing then begin
    let t = Sys.time () in Printf.fprintf oc "time %s %.3f\n" what (t -. !lap); lap := t end in
  if not (valid_utf8 src) then output_string oc "front notutf8\n"
  else begin
    let fr = front src in
    (match fr with
     | FrontFails f -> Printf.fprintf oc "front %s\n" (failure_str f)
     | Front d ->
         output_string oc "front ok\n"; tick "front";
         let p = d.fd_parsed in
         Printf.fprintf oc "tokens %d pulled %d lexed_all %d lexdiags_all %d\n" (List.length d.fd_tokens)
           (int_of_nat p.p_pulled) (if p.p_lexed_all then 1 else 0) (List.length d.fd_lex_all);
         Printf.fprintf oc "numlit %d\n" (if List.for_all tok_number_ok d.fd_tokens then 1 else 0);
         List.iter (fun (dg : diag) ->
           Printf.fprintf oc "ldiag %s %d %d\n" (underscored (text (lexerr_msg dg.d_err)))
             (int_of_nat dg.d_start) (int_of_nat dg.d_end)) d.fd_lex;
         List.iter (fun (dg : pdiag) ->
           let (a, e) = dg.pd_span in
           Printf.fprintf oc "sdiag %s %d %d %s\n" (underscored (text (synerr_msg dg.pd_err)))
             (int_of_nat a) (int_of_nat e) (match dg.pd_label with Some l -> hex l | None -> "-")) p.p_diags;
         List.iter (fun (r, path) ->
           Printf.fprintf oc "viol %s %s %s\n" (rule_str r) (hex (category r))
             (String.concat "." (List.map (fun n -> string_of_int (int_of_nat n)) path))) d.fd_viol;
         let acc = accepted d in
         Printf.fprintf oc "accepted %d\n" (if acc then 1 else 0);
         Printf.fprintf oc "phase %s\n" (match rejecting_phase d with Some ph -> phase_str ph | None -> "-");
         let mine = named_dump d.fd_ast in
         Printf.fprintf oc "nast%s\n" mine;
         (match impl_ast, bad_ast with
          | Some ia, _ ->
              let theirs = named_dump (erase_ids ia) in
              if theirs = mine then output_string oc "asteq 1\n"
              else Printf.fprintf oc "asteq 0\niast%s\n" theirs
          | None, Some m -> Printf.fprintf oc "asteq - badast %s\n" m
          | None, None -> output_string oc "asteq -\n");
         if acc then begin
           match ids d.fd_ast with
           | None -> output_string oc "resolved 0\n"
           | Some q ->
               output_string oc "resolved 1\n";
               Printf.fprintf oc "lexical %d\n" (if lexical q then 1 else 0);
               (match impl_ast with
                | Some ia -> Printf.fprintf oc "bindeq %d\n" (if same_binding_structure ia q then 1 else 0)
                | None -> output_string oc "bindeq -\n");
               Printf.fprintf oc "nec %d\n" (if no_early_capture q then 1 else 0)
         end else output_string oc "resolved -\n");
    tick "checks";
    let direct = Sys.getenv_opt "NSPIPE_DIRECT" <> None in
    run_line oc "s" sending_str (if direct then run_source eps fuel src else spec_of_front eps fuel fr); tick "run_source";
    run_line oc "i" ending_str (if direct then run_source_impl eps fuel src else impl_of_front eps fuel fr); tick "run_source_impl"
  end;
  Printf.fprintf oc "end %s\n" id

let pipeline_mode eps_hex fuel_s inp outp =
  let oc = open_out outp in
  let eps = of_bits (z_of_hex eps_hex) in
  let fuel = nat_of_int (int_of_string fuel_s) in
  let cur = ref None and ast = ref None and bad = ref None in
  let flush_case () =
    (match !cur with
     | Some (id, src, f) -> one_case oc eps f id src !ast !bad; Stdlib.flush oc
     | None -> ());
    cur := None; ast := None; bad := None in
  List.iter (fun line ->
    match words line with
    | "case" :: id :: h :: rest ->
        flush_case ();
        let f = (match rest with n :: _ -> nat_of_int (int_of_string n) | [] -> fuel) in
        cur := Some (id, unhex h, f)
    | "ast" :: toks ->
        (try ast := Some (parse_ast (Array.of_list toks)) with Bad m -> bad := Some m)
    | _ -> ()) (read_lines inp);
  flush_case ();
  close_out oc

let () = register "pipeline" (function
  | eps :: fuel :: inp :: outp :: _ -> pipeline_mode eps fuel inp outp
  | _ -> failwith "pipeline: <eps-hex> <fuel> <in> <out>")
