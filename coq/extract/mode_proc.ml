(* mode_proc.ml — nsmodel mode "proc" (property C15): runs the extracted theories/Proc.v on
   the same case files as harness/src/proc.rs.  Hand-written glue (trusted): hex decoding,
   int <-> extracted Z, printing of the canonical lines.

   (a) function level (same input lines as the harness):
        C <id> <14 caps> / P A W E I IN II O1 O2 T / D / V
       output identical in shape to the harness: "C <id>", "D <builder>", "V ok <spec>" | "V err <Kind>"
   (b) script level:
        M <id> <allow 0|1> <14 caps>
        P <hex program>
        A <hex>                 CallArg (text = to_string of the value)
        W <hex> | W !           CallCwd (Some path) | (None: not a string)
        E <hexk|!> <hexv>       CallEnv
        I <hex> | IN | II       stdin_text / stdin_null / stdin_inherit
        O1 C|I|N | O2 C|I|N     stdout_* / stderr_*
        T i <int> | T f | T n | T !     timeout_ms(integral | fractional | non-finite | not a number)
        R                       run()
       output: "M <id>", one "spawn <spec> L=<abs|rel|search> A0=<hex argv0>" per specification handed to the backend (the
       backend oracle always succeeds), then "end ok" | "end err <kind>". *)
open ModelProc
open Modes

let rec pos_of_int (i : int) : positive =
  if i = 1 then XH
  else if i land 1 = 0 then XO (pos_of_int (i lsr 1))
  else XI (pos_of_int (i lsr 1))

let z_of_int (i : int) : z =
  if i = 0 then Z0 else if i > 0 then Zpos (pos_of_int i) else Zneg (pos_of_int (-i))

let rec int_of_pos (p : positive) : int =
  match p with XH -> 1 | XO q -> 2 * int_of_pos q | XI q -> 2 * int_of_pos q + 1

let int_of_z (x : z) : int =
  match x with Z0 -> 0 | Zpos p -> int_of_pos p | Zneg p -> - (int_of_pos p)

let byte_z = Array.init 256 z_of_int

let bytes_of_hex (h : string) : z list =
  if h = "-" then [] else begin
    let n = String.length h / 2 in
    let acc = ref [] in
    for i = n - 1 downto 0 do
      acc := byte_z.(int_of_string ("0x" ^ String.sub h (2 * i) 2)) :: !acc
    done;
    !acc
  end

let hex_of_bytes (l : z list) : string =
  match l with
  | [] -> "-"
  | _ ->
    let b = Buffer.create 64 in
    List.iter (fun x -> Buffer.add_string b (Printf.sprintf "%02x" (int_of_z x))) l;
    Buffer.contents b

let caps_of (s : string) : caps =
  match List.map (fun x -> z_of_int (int_of_string x)) (String.split_on_char ',' s) with
  | [a; b; c; d; e; f; g; h; i; j; k; l; m; n] ->
      { max_program_bytes = a; max_cwd_bytes = b; max_args = c; max_arg_bytes = d;
        max_total_arg_bytes = e; max_env_pairs = f; max_env_key_bytes = g;
        max_env_value_bytes = h; max_total_env_bytes = i; max_stdin_bytes = j;
        max_capture_bytes_per_stream = k; default_timeout_ms = l; max_timeout_ms = m;
        wait_poll_ms = n }
  | _ -> failwith "proc: 14 caps expected"

let out_policy = function
  | "C" -> OutCapture | "I" -> OutInherit | "N" -> OutNull
  | s -> failwith ("proc: bad output policy " ^ s)
let out_name = function OutCapture -> "C" | OutInherit -> "I" | OutNull -> "N"
let stdin_repr = function
  | StdinInherit -> "I" | StdinNull -> "N" | StdinText t -> "T:" ^ hex_of_bytes t

let dump program args cwd env stdin stdout stderr timeout =
  let b = Buffer.create 256 in
  Buffer.add_string b (Printf.sprintf "P=%s A=%d" (hex_of_bytes program) (List.length args));
  List.iteri (fun i a ->
    Buffer.add_char b (if i = 0 then ':' else ',');
    Buffer.add_string b (hex_of_bytes a)) args;
  Buffer.add_string b (" W=" ^ (match cwd with None -> "none" | Some c -> hex_of_bytes c));
  Buffer.add_string b (Printf.sprintf " E=%d" (List.length env));
  List.iteri (fun i (k, v) ->
    Buffer.add_char b (if i = 0 then ':' else ',');
    Buffer.add_string b (hex_of_bytes k ^ "=" ^ hex_of_bytes v)) env;
  Buffer.add_string b
    (Printf.sprintf " I=%s O1=%s O2=%s T=%s" (stdin_repr stdin) (out_name stdout) (out_name stderr)
       (match timeout with None -> "none" | Some t -> string_of_int (int_of_z t)));
  Buffer.contents b

let dump_cmd (c : command) =
  dump c.c_program c.c_args c.c_cwd c.c_env c.c_stdin c.c_stdout c.c_stderr c.c_timeout
let dump_spec (s : spec) =
  dump s.s_program s.s_args s.s_cwd s.s_env s.s_stdin s.s_stdout s.s_stderr (Some s.s_timeout)

let verr_name = function
  | VProgram -> "VProgram" | VArgCount -> "VArgCount" | VEnvCount -> "VEnvCount"
  | VArgument -> "VArgument" | VArgBytes -> "VArgBytes" | VCwd -> "VCwd"
  | VEnvKey -> "VEnvKey" | VEnvValue -> "VEnvValue" | VEnvBytes -> "VEnvBytes"
  | VStdin -> "VStdin" | VTimeoutZero -> "VTimeoutZero" | VTimeoutMax -> "VTimeoutMax"

let rt_name = function
  | RtDenied -> "Denied"
  | RtSpecInvalid e -> "SpecInvalid:" ^ verr_name e
  | RtTimeoutNotNumber -> "TimeoutNotNumber"
  | RtTimeoutNotPositiveWhole -> "TimeoutNotPositiveWhole"
  | RtTypeMismatch -> "TypeMismatch"
  | RtBackend () -> "Backend"

(* the backend oracle: always succeeds *)
let spawn_ok (_ : spec) (_ : caps) : (unit, unit) sum = Inl ()

let proc_mode inp outp =
  let oc = open_out outp in
  (* function level state *)
  let fcaps = ref default_caps in
  let cmd = ref None in
  (* script level state *)
  let script = ref None in            (* (allow, caps) *)
  let sprog = ref [] in
  let steps = ref [] in               (* reversed *)
  let flush_script () =
    match !script with
    | None -> ()
    | Some (allow, c) ->
        let pol = { allow_process = allow; process_caps = c } in
        let ((log, err), _) = run_script spawn_ok pol !sprog (List.rev !steps) in
        let lookup_name s = match spec_lookup s with
          | LookupAbsolute _ -> "abs" | LookupRelative _ -> "rel" | LookupSearch _ -> "search" in
        List.iter (fun s ->
          output_string oc ("spawn " ^ dump_spec s ^ " L=" ^ lookup_name s ^ " A0=" ^
                            hex_of_bytes (List.hd (spec_argv s)) ^ "\n")) log;
        (match err with
         | None -> output_string oc "end ok\n"
         | Some e -> output_string oc ("end err " ^ rt_name e ^ "\n"));
        script := None; steps := [] in
  let get () = match !cmd with Some c -> c | None -> failwith "proc: P line first" in
  List.iter (fun line ->
    match words line with
    | [] -> ()
    | "C" :: id :: caps :: _ ->
        flush_script ();
        fcaps := caps_of caps; cmd := None;
        output_string oc ("C " ^ id ^ "\n")
    | "M" :: id :: allow :: caps :: _ ->
        flush_script ();
        cmd := None;
        script := Some (allow = "1", caps_of caps); sprog := []; steps := [];
        output_string oc ("M " ^ id ^ "\n")
    | w when !script <> None ->
        let push c = steps := SCall c :: !steps in
        (match w with
         | ["P"; h] -> sprog := bytes_of_hex h
         | ["A"; h] -> push (CallArg (bytes_of_hex h))
         | ["W"; "!"] -> push (CallCwd None)
         | ["W"; h] -> push (CallCwd (Some (bytes_of_hex h)))
         | ["E"; "!"; v] -> push (CallEnv (None, bytes_of_hex v))
         | ["E"; k; v] -> push (CallEnv (Some (bytes_of_hex k), bytes_of_hex v))
         | ["I"; h] -> push (CallStdinText (bytes_of_hex h))
         | ["IN"] -> push CallStdinNull
         | ["II"] -> push CallStdinInherit
         | ["O1"; "C"] -> push CallStdoutCapture
         | ["O1"; "I"] -> push CallStdoutInherit
         | ["O1"; "N"] -> push CallStdoutNull
         | ["O2"; "C"] -> push CallStderrCapture
         | ["O2"; "I"] -> push CallStderrInherit
         | ["O2"; "N"] -> push CallStderrNull
         | ["T"; "i"; n] -> push (CallTimeoutMs (Some (NumInt (z_of_int (int_of_string n)))))
         | ["T"; "f"] -> push (CallTimeoutMs (Some NumFractional))
         | ["T"; "n"] -> push (CallTimeoutMs (Some NumNonFinite))
         | ["T"; "!"] -> push (CallTimeoutMs None)
         | ["R"] -> steps := SRun :: !steps
         | _ -> failwith ("proc: bad script line " ^ line))
    | ["P"; h] -> cmd := Some (command_new (bytes_of_hex h))
    | ["A"; h] -> cmd := Some (push_arg (get ()) (bytes_of_hex h))
    | ["W"; h] -> cmd := Some (set_cwd (get ()) (bytes_of_hex h))
    | ["E"; k; v] -> cmd := Some (set_env (get ()) (bytes_of_hex k) (bytes_of_hex v))
    | ["I"; h] -> cmd := Some (set_stdin (get ()) (StdinText (bytes_of_hex h)))
    | ["IN"] -> cmd := Some (set_stdin (get ()) StdinNull)
    | ["II"] -> cmd := Some (set_stdin (get ()) StdinInherit)
    | ["O1"; p] -> cmd := Some (set_stdout (get ()) (out_policy p))
    | ["O2"; p] -> cmd := Some (set_stderr (get ()) (out_policy p))
    | ["T"; n] -> cmd := Some (set_timeout (get ()) (z_of_int (int_of_string n)))
    | ["D"] -> output_string oc ("D " ^ dump_cmd (get ()) ^ "\n")
    | ["V"] ->
        (match validate !fcaps (get ()) with
         | Ok s -> output_string oc ("V ok " ^ dump_spec s ^ "\n")
         | Err e -> output_string oc ("V err " ^ verr_name e ^ "\n"))
    | _ -> failwith ("proc: bad line " ^ line)
  ) (read_lines inp);
  flush_script ();
  close_out oc

let () = register "proc" (function inp :: outp :: _ -> proc_mode inp outp | _ -> failwith "proc: args")
