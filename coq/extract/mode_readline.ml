(* mode_readline.ml — nsmodel mode "readline" (property C17): runs the extracted
   ReadLine.run on (text, schedule, k) cases.  Hand-written glue (trusted): hex decoding,
   int <-> extracted Z / nat, printing.

   Input, one case per line:   C <id> <k> <hex of the text | -> <s1,s2,... | ->
   Output per case:            C <id>
                               L <hex of the line | -> <count:n,count:n,... | ->     (k of them)
                               X <hex of the expected line | ->                      (k of them)
                           or  C <id> / NONE   when the model faults or runs out of fuel. *)
open ModelReadLine
open Modes

let rec pos_of_int (i : int) : positive =
  if i = 1 then XH
  else if i land 1 = 0 then XO (pos_of_int (i lsr 1))
  else XI (pos_of_int (i lsr 1))

let z_of_int (i : int) : z =
  if i = 0 then Z0 else if i > 0 then Zpos (pos_of_int i) else Zneg (pos_of_int (-i))

let rec int_of_pos (p : positive) : int =
  match p with XH -> 1 | XO q -> 2 * int_of_pos q | XI q -> 2 * int_of_pos q + 1

let int_of_z (x : z) : int =
  match x with Z0 -> 0 | Zpos p -> int_of_pos p | Zneg p -> - (int_of_pos p)

let nat_of_int (i : int) : nat =
  let rec go acc i = if i <= 0 then acc else go (S acc) (i - 1) in go O i

(* one extracted Z per byte value, shared *)
let byte_z = Array.init 256 z_of_int

let bytes_of_hex (h : string) : z list =
  if h = "-" then [] else begin
    let n = String.length h / 2 in
    let acc = ref [] in
    for i = n - 1 downto 0 do
      acc := byte_z.(int_of_string ("0x" ^ String.sub h (2 * i) 2)) :: !acc
    done;
    !acc
  end

let hex_of_bytes (l : z list) : string =
  match l with
  | [] -> "-"
  | _ ->
      let b = Buffer.create 64 in
      List.iter (fun x -> Buffer.add_string b (Printf.sprintf "%02x" (int_of_z x))) l;
      Buffer.contents b

let readline_mode inp outp =
  let oc = open_out outp in
  List.iter (fun line ->
    match words line with
    | [] -> ()
    | "C" :: id :: k :: hex :: sched :: _ ->
        let text = bytes_of_hex hex in
        let sched =
          if sched = "-" then []
          else List.map (fun s -> z_of_int (int_of_string s)) (String.split_on_char ',' sched) in
        let k = nat_of_int (int_of_string k) in
        Printf.fprintf oc "C %s\n" id;
        (match run text sched k with
         | None -> output_string oc "NONE\n"
         | Some rs ->
             List.iter (fun (l, tr) ->
               let t = match tr with
                 | [] -> "-"
                 | _ -> String.concat "," (List.map (fun (c, n) ->
                          Printf.sprintf "%d:%d" (int_of_z c) (int_of_z n)) tr) in
               Printf.fprintf oc "L %s %s\n" (hex_of_bytes l) t) rs;
             List.iter (fun l -> Printf.fprintf oc "X %s\n" (hex_of_bytes l)) (expected_fast text k))
    | _ -> failwith ("readline: bad input line: " ^ line)
  ) (read_lines inp);
  close_out oc

let () = register "readline" (function
  | inp :: outp :: _ -> readline_mode inp outp
  | _ -> failwith "readline: args")
