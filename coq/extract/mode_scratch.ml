(* nsmodel scratch <dbg> <in> <out> — runs the extracted theories/Scratch.v on the op
   histories that `nsverif pipeline scratch` drives through the real scratch API.
   Hand-written glue (trusted): parsing, conversions, printing. *)
open ModelScratch
open Modes

let rec pos_of_int (i : int) : positive =
  if i = 1 then XH
  else if i land 1 = 0 then XO (pos_of_int (i lsr 1))
  else XI (pos_of_int (i lsr 1))

let z_of_int (i : int) : z =
  if i = 0 then Z0 else if i > 0 then Zpos (pos_of_int i) else Zneg (pos_of_int (-i))

let rec int_of_pos (p : positive) : int =
  match p with XH -> 1 | XO q -> 2 * int_of_pos q | XI q -> 2 * int_of_pos q + 1

let int_of_z (x : z) : int =
  match x with Z0 -> 0 | Zpos p -> int_of_pos p | Zneg p -> - (int_of_pos p)

let rec nat_of_int (i : int) : nat = if i <= 0 then O else S (nat_of_int (i - 1))

let zs = fun x -> string_of_int (int_of_z x)

let scratch_mode dbg inp outp =
  let oc = open_out outp in
  let st = ref (sinit Z0 Z0 Z0) in
  let started = ref false in
  List.iter (fun line ->
    match words line with
    | [] -> ()
    | "X" :: cap :: b0 :: b1 :: _ ->
        st := sinit (z_of_int (int_of_string b0)) (z_of_int (int_of_string b1)) (z_of_int (int_of_string cap));
        started := true;
        Printf.fprintf oc "X cap=%s base0=%s base1=%s\n" (zs (!st).ss0.c_s.s_a.a_cap) b0 b1
    | "H" :: id :: _ -> Printf.fprintf oc "H %s\n" id
    | w ->
        if not !started then failwith "X header first";
        let n i = int_of_string (List.nth w i) in
        let o = match w with
          | "I" :: _ -> SInit
          | "B" :: "n" :: _ -> SBorrow CNone
          | "B" :: "o" :: _ -> SBorrow COther
          | "B" :: "h" :: k :: _ ->
              let bors = (!st).ss_bors in
              (match bors with
               | [] -> SBorrow CNone
               | _ -> let b = List.nth bors ((int_of_string k) mod (List.length bors)) in
                      SBorrow (CScratch b.bo_arena))
          | "D" :: _ -> SDrop
          | "C" :: a :: rest ->
              let m i = int_of_string (List.nth rest i) in
              let o = match List.hd rest with
                | "A" -> OAlloc (z_of_int (m 1), nat_of_int (m 2))
                | "Z" -> OAllocZ (z_of_int (m 1), nat_of_int (m 2))
                | "G" -> OGrow (nat_of_int (m 1), z_of_int (m 2), m 3 <> 0)
                | "S" -> OShrink (nat_of_int (m 1), z_of_int (m 2))
                | "R" -> OReset (z_of_int (m 1))
                | "RB" -> OResetBlk (nat_of_int (m 1))
                | "D" -> ODecommit
                | "W" -> OWrite (nat_of_int (m 1), z_of_int (m 2))
                | s -> failwith ("unknown client op " ^ s) in
              SCli (a = "1", o)
          | s :: _ -> failwith ("unknown op " ^ s)
          | [] -> failwith "empty" in
        ignore n;
        (* every op the model executes lies inside the hypothesis of the C14 theorems *)
        let flag = match norm !st o with
          | Some o' -> if discb !st o' && sop_okb o' then "" else " UNDISCIPLINED"
          | None -> "" in
        let (st', r) = nstep dbg !st o in
        st := st';
        (match r with
         | SRBorrow (a, off) -> Printf.fprintf oc "borrow %d %s" (if a then 1 else 0) (zs off)
         | SRDrop (a, off) -> Printf.fprintf oc "drop %d %s" (if a then 1 else 0) (zs off)
         | SRCli (RBlock (ok, b, l)) -> Printf.fprintf oc "blk %d %s %s" (if ok then 1 else 0) (zs b) (zs l)
         | SRCli RNone -> output_string oc "none"
         | SRNone -> output_string oc "none");
        let ((o0, o1), nb) = sobserve st' in
        let pr (((off, com), nl), chk) = Printf.fprintf oc " | %s %s %s %s" (zs off) (zs com) (zs nl) (zs chk) in
        pr o0; pr o1;
        Printf.fprintf oc " | %s%s\n" (zs nb) flag
  ) (read_lines inp);
  close_out oc

let () =
  register "scratch" (function dbg :: inp :: outp :: _ -> scratch_mode (dbg = "1") inp outp | _ -> failwith "scratch: args")
