(* nsmodel stack <in> <out> — C08: answers, from the extracted model over the regenerated call
   graph, what kind of cycle a list of function ids is.  Hand-written glue (trusted). *)
open ModelStack
open Modes

let rec pos_of_int (i : int) : positive =
  if i = 1 then XH
  else if i land 1 = 0 then XO (pos_of_int (i lsr 1))
  else XI (pos_of_int (i lsr 1))
let rec int_of_pos (p : positive) : int =
  match p with XH -> 1 | XO q -> 2 * int_of_pos q | XI q -> 2 * int_of_pos q + 1
let int_of_z (x : z) : int =
  match x with Z0 -> 0 | Zpos p -> int_of_pos p | Zneg p -> - (int_of_pos p)
let rec nat_of_int (i : int) : nat = if i <= 0 then O else S (nat_of_int (i - 1))
let rec int_of_nat (n : nat) : int = match n with O -> 0 | S m -> 1 + int_of_nat m

let verdict_s = function
  | NotACycle -> "not-a-cycle" | Guarded -> "guarded" | DescentOnly -> "descent-only" | Unguarded -> "unguarded"

let status_s = function
  | FGuard -> "guard" | FUnguardedCycle -> "gf-cycle" | FDescentCycle -> "descent-cycle"
  | FOffCycle -> "off-cycle" | FUnknown -> "unknown"

(* the model's own name table: names travel as text, so a model built from another revision of
   the graph cannot be asked about the wrong function *)
let name_table : (string, nat) Hashtbl.t =
  let t = Hashtbl.create 512 in
  List.iter (fun (id, codes) ->
    let b = Buffer.create 32 in
    List.iter (fun c -> Buffer.add_char b (Char.chr (int_of_z c))) codes;
    Hashtbl.replace t (Buffer.contents b) id) fn_names;
  t
let fingerprint () =
  let names = List.sort compare (Hashtbl.fold (fun k _ acc -> k :: acc) name_table []) in
  Digest.to_hex (Digest.string (String.concat "," names))

let stack_mode inp outp =
  let oc = open_out outp in
  List.iter (fun line ->
    match words line with
    | [] -> ()
    | "META" :: _ ->
        let (((budget, l), acyc), guards) = model_meta in
        Printf.fprintf oc "meta budget=%d L=%d core_acyclic=%d guards=%s nfuncs=%d names=%s\n" (int_of_z budget) (int_of_z l)
          (if acyc then 1 else 0) (String.concat "," (List.map (fun g -> string_of_int (int_of_nat g)) guards))
          (Hashtbl.length name_table) (fingerprint ())
    | "JUMPS" :: _ ->
        List.iter (fun (a, b) ->
          Printf.fprintf oc "jump %d %d off_cycle=%d\n" (int_of_nat a) (int_of_nat b)
            (if off_cycle runtime_noguard a then 1 else 0)) jump_edges
    | "F" :: name :: _ ->
        (match Hashtbl.find_opt name_table name with
         | None -> Printf.fprintf oc "fn %s missing\n" name
         | Some id -> Printf.fprintf oc "fn %s %s\n" name (status_s (fn_status id)))
    | "S" :: name :: ids ->
        let c = List.map (fun s -> nat_of_int (int_of_string s)) ids in
        Printf.fprintf oc "%s %s\n" name (verdict_s (classify_shape c))
    | w -> failwith ("stack: bad line " ^ line)
  ) (read_lines inp);
  close_out oc

let () = register "stack" (function inp :: outp :: _ -> stack_mode inp outp | _ -> failwith "stack: args")
