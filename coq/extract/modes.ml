(* modes.ml — registry of nsmodel modes; every mode_*.ml calls [Modes.register]. *)
let table : (string, string list -> unit) Hashtbl.t = Hashtbl.create 16
let register name f = Hashtbl.replace table name f

let read_lines path =
  let ic = open_in path in
  let rec go acc = match input_line ic with
    | l -> go (l :: acc)
    | exception End_of_file -> close_in ic; List.rev acc in
  go []

let words l = List.filter (fun s -> s <> "") (String.split_on_char ' ' (String.trim l))
