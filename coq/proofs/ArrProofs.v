(* ArrProofs — proofs for C05 ("arrays are values") over Lang.v / ArrSpec.v.

   Part 1  paths:   assign_path / mutate_path change exactly the addressed position
   Part 2  slots:   assign_env / define_env change exactly one variable slot
   Part 3  steps:   SSetIdx and push/pop/reverse calls = operand evaluation, then one store
   Part 4  copies:  a copied array is independent of its source, over whole histories *)
From Coq Require Import ZArith List Bool Lia.
Require Import NS.theories.F64 NS.theories.Lang NS.theories.ArrSpec.
Import ListNotations.
Open Scope Z_scope.

(* ================================================================== *)
(* Part 1: paths                                                       *)
(* ================================================================== *)

Lemma nth_value_lt : forall vs i, (i < length vs)%nat -> exists v, nth_value vs i = Some v.
Proof.
  induction vs as [|x vs IH]; intros i Hi; cbn [length] in Hi; [lia|].
  destruct i as [|i]; cbn [nth_value]; [eauto|]. apply IH. lia.
Qed.

Lemma nth_value_some_lt : forall vs i v, nth_value vs i = Some v -> (i < length vs)%nat.
Proof.
  induction vs as [|x vs IH]; intros i v H; destruct i; cbn [nth_value length] in *;
    try discriminate; [lia|]. apply IH in H. lia.
Qed.

Lemma set_nth_length : forall vs i v, length (set_nth vs i v) = length vs.
Proof.
  induction vs as [|x vs IH]; intros i v; destruct i; cbn [set_nth length]; auto.
Qed.

Lemma nth_set_nth_same : forall vs i v,
  (i < length vs)%nat -> nth_value (set_nth vs i v) i = Some v.
Proof.
  induction vs as [|x vs IH]; intros i v Hi; cbn [length] in Hi; [lia|].
  destruct i; cbn [set_nth nth_value]; [reflexivity|]. apply IH. lia.
Qed.

Lemma nth_set_nth_other : forall vs i j v,
  i <> j -> nth_value (set_nth vs i v) j = nth_value vs j.
Proof.
  induction vs as [|x vs IH]; intros i j v Hij; destruct i, j; cbn [set_nth nth_value];
    try reflexivity; try congruence. apply IH. congruence.
Qed.

Lemma len_z_set_nth : forall vs i v, len_z (set_nth vs i v) = len_z vs.
Proof. intros. unfold len_z. now rewrite set_nth_length. Qed.

Lemma nth_z_some_bounds : forall items i x, nth_z items i = Some x -> 0 <= i < len_z items.
Proof.
  unfold nth_z, len_z. intros items i x H.
  destruct (i <? 0) eqn:Hneg; [discriminate|]. apply Z.ltb_ge in Hneg.
  apply nth_value_some_lt in H. lia.
Qed.

Lemma nth_z_in_bounds : forall items i, 0 <= i < len_z items -> exists x, nth_z items i = Some x.
Proof.
  unfold nth_z, len_z. intros items i [H0 H1].
  destruct (i <? 0) eqn:Hneg; [apply Z.ltb_lt in Hneg; lia|].
  apply nth_value_lt. lia.
Qed.

Lemma nth_z_nonneg : forall items i, 0 <= i -> nth_z items i = nth_value items (Z.to_nat i).
Proof.
  unfold nth_z. intros items i H. destruct (i <? 0) eqn:Hneg; [apply Z.ltb_lt in Hneg; lia|reflexivity].
Qed.

Lemma nth_z_set_same : forall items i x,
  0 <= i < len_z items -> nth_z (set_nth items (Z.to_nat i) x) i = Some x.
Proof.
  intros items i x [H0 H1]. rewrite nth_z_nonneg by lia.
  apply nth_set_nth_same. unfold len_z in H1. lia.
Qed.

Lemma nth_z_set_other : forall items i j x,
  0 <= i -> i <> j -> nth_z (set_nth items (Z.to_nat i) x) j = nth_z items j.
Proof.
  intros items i j x H0 Hij. unfold nth_z. destruct (j <? 0) eqn:Hneg; [reflexivity|].
  apply Z.ltb_ge in Hneg. apply nth_set_nth_other. lia.
Qed.

Lemma get_path_app : forall p q v,
  get_path v (p ++ q) = match get_path v p with Some x => get_path x q | None => None end.
Proof.
  induction p as [|i p IH]; intros q v; cbn [app get_path]; [reflexivity|].
  destruct v; try reflexivity. destruct (nth_z vs i); [apply IH|reflexivity].
Qed.

Lemma prefix_nil : forall q, prefix [] q.
Proof. intros q. exists q. reflexivity. Qed.

Lemma prefix_cons : forall i p q, prefix (i :: p) (i :: q) <-> prefix p q.
Proof.
  intros i p q. split; intros [r Hr].
  - exists r. cbn [app] in Hr. now inversion Hr.
  - exists r. cbn [app]. now rewrite Hr.
Qed.

Lemma prefix_cons_neq : forall i j p q, i <> j -> ~ prefix (i :: p) (j :: q).
Proof. intros i j p q Hij [r Hr]. cbn [app] in Hr. inversion Hr. congruence. Qed.

Lemma prefix_refl : forall p, prefix p p.
Proof. intros p. exists []. now rewrite app_nil_r. Qed.

(* unfolding of one step of assign_path on an array *)
Lemma assign_path_cons : forall items i rest nv,
  assign_path (VArr items) (i :: rest) nv =
  if len_z items <=? i then Err IdxOob
  else match rest with
       | [] => Ok (VArr (set_nth items (Z.to_nat i) nv))
       | _ => match nth_value items (Z.to_nat i) with
              | Some sub => bind (assign_path sub rest nv)
                                 (fun sub' => Ok (VArr (set_nth items (Z.to_nat i) sub')))
              | None => Err IdxOob
              end
       end.
Proof. intros. destruct rest; reflexivity. Qed.

(* inversion of a successful assign_path step *)
Lemma assign_path_ok_inv : forall v i rest nv v',
  0 <= i -> assign_path v (i :: rest) nv = Ok v' ->
  exists items, v = VArr items /\ i < len_z items /\
    ((rest = [] /\ v' = VArr (set_nth items (Z.to_nat i) nv)) \/
     (rest <> [] /\ exists sub sub', nth_z items i = Some sub /\
        assign_path sub rest nv = Ok sub' /\ v' = VArr (set_nth items (Z.to_nat i) sub'))).
Proof.
  intros v i rest nv v' H0 H. destruct v as [| | | |items]; try discriminate H.
  rewrite assign_path_cons in H. exists items. split; [reflexivity|].
  destruct (len_z items <=? i) eqn:Hle; [discriminate|]. apply Z.leb_gt in Hle.
  split; [exact Hle|].
  destruct rest as [|j rest'].
  - left. split; [reflexivity|]. now inversion H.
  - right. split; [discriminate|].
    destruct (nth_value items (Z.to_nat i)) as [sub|] eqn:Hn; [|discriminate].
    destruct (assign_path sub (j :: rest') nv) as [sub'| | | |] eqn:Hs; try discriminate H.
    cbn [bind] in H. inversion H. exists sub, sub'.
    rewrite nth_z_nonneg by lia. auto.
Qed.

Lemma nonneg_cons : forall i p, nonneg (i :: p) <-> 0 <= i /\ nonneg p.
Proof.
  intros i p. unfold nonneg. split; intros H.
  - inversion H; auto.
  - constructor; tauto.
Qed.

(* the written position reads back the new value *)
Lemma assign_path_get : forall p v nv v',
  nonneg p -> assign_path v p nv = Ok v' -> get_path v' p = Some nv.
Proof.
  induction p as [|i rest IH]; intros v nv v' Hnn H; [discriminate H|].
  apply nonneg_cons in Hnn. destruct Hnn as [H0 Hnn].
  apply assign_path_ok_inv in H; [|exact H0].
  destruct H as (items & -> & Hlt & [[-> ->] | (Hne & sub & sub' & Hn & Hs & ->)]).
  - cbn [get_path]. now rewrite nth_z_set_same by lia.
  - cbn [get_path]. rewrite nth_z_set_same by lia. eapply IH; eauto.
Qed.

(* every position that is neither below nor above the written one is unchanged *)
Lemma assign_path_frame : forall p v nv v',
  nonneg p -> assign_path v p nv = Ok v' ->
  forall q, indep p q -> get_path v' q = get_path v q.
Proof.
  induction p as [|i rest IH]; intros v nv v' Hnn H q [Hpq Hqp]; [discriminate H|].
  apply nonneg_cons in Hnn. destruct Hnn as [H0 Hnn].
  apply assign_path_ok_inv in H; [|exact H0].
  destruct q as [|j qr]; [exfalso; apply Hqp, prefix_nil|].
  destruct H as (items & -> & Hlt & Hcase).
  destruct (Z.eq_dec i j) as [<-|Hij].
  - destruct Hcase as [[-> ->] | (Hne & sub & sub' & Hn & Hs & ->)].
    + exfalso. apply Hpq. apply prefix_cons, prefix_nil.
    + cbn [get_path]. rewrite nth_z_set_same by lia. rewrite Hn.
      eapply IH; eauto. split; intros Hc; [apply Hpq|apply Hqp]; now apply prefix_cons.
  - assert (Hset : forall x, get_path (VArr (set_nth items (Z.to_nat i) x)) (j :: qr)
                             = get_path (VArr items) (j :: qr)).
    { intros x. cbn [get_path]. now rewrite nth_z_set_other by assumption. }
    destruct Hcase as [[_ ->] | (_ & sub & sub' & _ & _ & ->)]; apply Hset.
Qed.

(* no array changes its length, except what is stored at (or below) the written position *)
Lemma assign_path_len : forall p v nv v',
  nonneg p -> assign_path v p nv = Ok v' ->
  forall q, ~ prefix p q -> alen (get_path v' q) = alen (get_path v q).
Proof.
  induction p as [|i rest IH]; intros v nv v' Hnn H q Hpq; [discriminate H|].
  apply nonneg_cons in Hnn. destruct Hnn as [H0 Hnn].
  apply assign_path_ok_inv in H; [|exact H0].
  destruct H as (items & -> & Hlt & Hcase).
  destruct q as [|j qr].
  - destruct Hcase as [[_ ->] | (_ & sub & sub' & _ & _ & ->)];
      cbn [get_path alen]; now rewrite set_nth_length.
  - destruct (Z.eq_dec i j) as [<-|Hij].
    + destruct Hcase as [[-> ->] | (Hne & sub & sub' & Hn & Hs & ->)].
      * exfalso. apply Hpq. apply prefix_cons, prefix_nil.
      * cbn [get_path]. rewrite nth_z_set_same by lia. rewrite Hn.
        eapply IH; eauto. intros Hc. apply Hpq. now apply prefix_cons.
    + assert (Hset : forall x, get_path (VArr (set_nth items (Z.to_nat i) x)) (j :: qr)
                               = get_path (VArr items) (j :: qr)).
      { intros x. cbn [get_path]. now rewrite nth_z_set_other by assumption. }
      destruct Hcase as [[_ ->] | (_ & sub & sub' & _ & _ & ->)]; now rewrite Hset.
Qed.

(* the error cases, exactly *)
Lemma assign_path_err_fault : forall p v nv e,
  nonneg p -> assign_path v p nv = Err e -> fault_at v p e.
Proof.
  induction p as [|i rest IH]; intros v nv e Hnn H; [discriminate H|].
  apply nonneg_cons in Hnn. destruct Hnn as [H0 Hnn].
  destruct v as [x|x|x| |items];
    try (inversion H; subst e; exists [], i, rest; eexists; cbn [app get_path];
         split; [reflexivity|split; [reflexivity|reflexivity]]).
  rewrite assign_path_cons in H.
  destruct (len_z items <=? i) eqn:Hle.
  - inversion H; subst e. apply Z.leb_le in Hle.
    exists [], i, rest, (VArr items). cbn [app get_path]. auto.
  - apply Z.leb_gt in Hle. destruct rest as [|j rest']; [discriminate H|].
    destruct (nth_z_in_bounds items i) as [sub Hsub]; [lia|].
    rewrite nth_z_nonneg in Hsub by lia. rewrite Hsub in H.
    destruct (assign_path sub (j :: rest') nv) as [sub'|e'| | |] eqn:Hs; try discriminate H.
    cbn [bind] in H. inversion H; subst e'.
    apply IH in Hs; [|exact Hnn].
    destruct Hs as (q & i' & r & x & Hp & Hg & Hx).
    exists (i :: q), i', r, x. split; [cbn [app]; now rewrite Hp|]. split; [|exact Hx].
    cbn [get_path]. rewrite nth_z_nonneg by lia. now rewrite Hsub.
Qed.

Lemma fault_assign_path_err : forall q v p nv e i r x,
  p = q ++ i :: r -> get_path v q = Some x ->
  match x with VArr items => e = IdxOob /\ len_z items <= i | _ => e = InvIdx end ->
  assign_path v p nv = Err e.
Proof.
  induction q as [|j q IH]; intros v p nv e i r x Hp Hg Hx; subst p; cbn [app].
  - cbn [get_path] in Hg. inversion Hg; subst x.
    destruct v as [a|a|a| |items]; try (subst e; reflexivity).
    destruct Hx as [-> Hle]. rewrite assign_path_cons.
    apply Z.leb_le in Hle. now rewrite Hle.
  - cbn [get_path] in Hg. destruct v as [a|a|a| |items]; try discriminate Hg.
    destruct (nth_z items j) as [sub|] eqn:Hn; [|discriminate Hg].
    pose proof (nth_z_some_bounds _ _ _ Hn) as [Hj0 Hj1].
    rewrite assign_path_cons. apply Z.leb_gt in Hj1. rewrite Hj1.
    rewrite nth_z_nonneg in Hn by lia. rewrite Hn.
    destruct (q ++ i :: r) as [|a rest] eqn:Hrest; [destruct q; discriminate Hrest|].
    rewrite <- Hrest. erewrite IH; eauto. reflexivity.
Qed.

Lemma assign_path_err_iff : forall p v nv e,
  nonneg p -> (assign_path v p nv = Err e <-> fault_at v p e).
Proof.
  intros p v nv e Hnn. split.
  - now apply assign_path_err_fault.
  - intros (q & i & r & x & Hp & Hg & Hx). eapply fault_assign_path_err; eauto.
Qed.

(* assign_path never runs out of fuel, never is unsupported, and its only panic is the
   empty index chain, which flatten_target never produces for an index assignment *)
Lemma assign_path_total : forall p v nv,
  (exists v', assign_path v p nv = Ok v') \/ assign_path v p nv = Err InvIdx \/
  assign_path v p nv = Err IdxOob \/ (p = [] /\ assign_path v p nv = Panic PIdxAssignEnd).
Proof.
  induction p as [|i rest IH]; intros v nv; [right; right; right; auto|].
  destruct v as [a|a|a| |items]; try (right; left; reflexivity).
  rewrite assign_path_cons. destruct (len_z items <=? i); [right; right; left; reflexivity|].
  destruct rest as [|j rest']; [left; eauto|].
  destruct (nth_value items (Z.to_nat i)) as [sub|]; [|right; right; left; reflexivity].
  destruct (IH sub nv) as [[v' ->] | [-> | [-> | [Hnil _]]]]; cbn [bind]; eauto.
  discriminate Hnil.
Qed.

Lemma assign_path_ok_iff : forall p v nv,
  nonneg p ->
  ((exists v', assign_path v p nv = Ok v') <-> (p <> [] /\ forall e, ~ fault_at v p e)).
Proof.
  intros p v nv Hnn. split.
  - intros [v' H]. split; [intros ->; discriminate H|].
    intros e Hf. apply (assign_path_err_iff p v nv e Hnn) in Hf. congruence.
  - intros [Hne Hnf].
    destruct (assign_path_total p v nv) as [Hok | [He | [He | [Hnil _]]]];
      [exact Hok| | |congruence];
      apply (assign_path_err_iff p v nv _ Hnn) in He; exfalso; eapply Hnf; eauto.
Qed.

(* ---------- push / pop / reverse at a path ---------- *)
Lemma mutate_path_cons : forall items i rest op,
  mutate_path (VArr items) (i :: rest) op =
  if len_z items <=? i then Err IdxOob
  else match nth_value items (Z.to_nat i) with
       | Some sub => bind (mutate_path sub rest op)
                          (fun '(sub', r) => Ok (VArr (set_nth items (Z.to_nat i) sub'), r))
       | None => Err IdxOob
       end.
Proof. reflexivity. Qed.

Lemma mutate_path_ok_inv : forall v i rest op v' r,
  0 <= i -> mutate_path v (i :: rest) op = Ok (v', r) ->
  exists items sub sub', v = VArr items /\ i < len_z items /\ nth_z items i = Some sub /\
    mutate_path sub rest op = Ok (sub', r) /\ v' = VArr (set_nth items (Z.to_nat i) sub').
Proof.
  intros v i rest op v' r H0 H. destruct v as [| | | |items]; try discriminate H.
  rewrite mutate_path_cons in H.
  destruct (len_z items <=? i) eqn:Hle; [discriminate|]. apply Z.leb_gt in Hle.
  destruct (nth_value items (Z.to_nat i)) as [sub|] eqn:Hn; [|discriminate].
  destruct (mutate_path sub rest op) as [[sub' r']| | | |] eqn:Hs; try discriminate H.
  cbn [bind] in H. inversion H; subst. exists items, sub, sub'.
  rewrite nth_z_nonneg by lia. auto.
Qed.

(* the addressed sub-array, and only it, is replaced by the result of the list operation *)
Lemma mutate_path_target : forall p v op v' r,
  nonneg p -> mutate_path v p op = Ok (v', r) ->
  exists items, get_path v p = Some (VArr items) /\
    get_path v' p = Some (VArr (fst (apply_mutop op items))) /\ r = snd (apply_mutop op items).
Proof.
  induction p as [|i rest IH]; intros v op v' r Hnn H.
  - cbn [mutate_path] in H. destruct v as [| | | |items]; try discriminate H.
    destruct (apply_mutop op items) as [items' r'] eqn:Ha. inversion H; subst.
    exists items. cbn [get_path]. rewrite Ha. cbn [fst snd]. auto.
  - apply nonneg_cons in Hnn. destruct Hnn as [H0 Hnn].
    apply mutate_path_ok_inv in H; [|exact H0].
    destruct H as (items & sub & sub' & -> & Hlt & Hn & Hs & ->).
    destruct (IH _ _ _ _ Hnn Hs) as (its & Hg & Hg' & Hr).
    exists its. cbn [get_path]. rewrite Hn, nth_z_set_same by lia. auto.
Qed.

Lemma mutate_path_frame : forall p v op v' r,
  nonneg p -> mutate_path v p op = Ok (v', r) ->
  forall q, indep p q -> get_path v' q = get_path v q.
Proof.
  induction p as [|i rest IH]; intros v op v' r Hnn H q [Hpq Hqp].
  - exfalso. apply Hpq, prefix_nil.
  - apply nonneg_cons in Hnn. destruct Hnn as [H0 Hnn].
    apply mutate_path_ok_inv in H; [|exact H0].
    destruct H as (items & sub & sub' & -> & Hlt & Hn & Hs & ->).
    destruct q as [|j qr]; [exfalso; apply Hqp, prefix_nil|].
    destruct (Z.eq_dec i j) as [<-|Hij].
    + cbn [get_path]. rewrite nth_z_set_same by lia. rewrite Hn.
      eapply IH; eauto. split; intros Hc; [apply Hpq|apply Hqp]; now apply prefix_cons.
    + cbn [get_path]. now rewrite nth_z_set_other by assumption.
Qed.

(* arrays strictly above the addressed one keep their length *)
Lemma mutate_path_len : forall p v op v' r,
  nonneg p -> mutate_path v p op = Ok (v', r) ->
  forall q, ~ prefix p q -> alen (get_path v' q) = alen (get_path v q).
Proof.
  induction p as [|i rest IH]; intros v op v' r Hnn H q Hpq.
  - exfalso. apply Hpq, prefix_nil.
  - apply nonneg_cons in Hnn. destruct Hnn as [H0 Hnn].
    apply mutate_path_ok_inv in H; [|exact H0].
    destruct H as (items & sub & sub' & -> & Hlt & Hn & Hs & ->).
    destruct q as [|j qr]; [cbn [get_path alen]; now rewrite set_nth_length|].
    destruct (Z.eq_dec i j) as [<-|Hij].
    + cbn [get_path]. rewrite nth_z_set_same by lia. rewrite Hn.
      eapply IH; eauto. intros Hc. apply Hpq. now apply prefix_cons.
    + cbn [get_path]. now rewrite nth_z_set_other by assumption.
Qed.

(* what the three list operations do *)
Lemma apply_push : forall x items, apply_mutop (MPush x) items = (items ++ [x], VNull).
Proof. reflexivity. Qed.

Lemma apply_reverse : forall items, apply_mutop MReverse items = (rev items, VNull).
Proof. reflexivity. Qed.

Lemma apply_pop_empty : apply_mutop MPop [] = ([], VNull).
Proof. reflexivity. Qed.

Lemma apply_pop_snoc : forall items x, apply_mutop MPop (items ++ [x]) = (items, x).
Proof.
  intros items x. unfold apply_mutop, last_value.
  destruct (items ++ [x]) eqn:Hd; [destruct items; discriminate Hd|].
  rewrite <- Hd. now rewrite removelast_last, last_last.
Qed.

(* errors of mutate_path: the walk faults exactly as for assign_path; a non-array at the
   end of the walk is a Type mismatch *)
Lemma mutate_path_err_fault : forall p v op e,
  nonneg p -> mutate_path v p op = Err e ->
  fault_at v p e \/ (e = TypeMis /\ exists x, get_path v p = Some x /\
                                      match x with VArr _ => False | _ => True end).
Proof.
  induction p as [|i rest IH]; intros v op e Hnn H.
  - right. cbn [mutate_path] in H. destruct v as [a|a|a| |items];
      try (inversion H; split; [reflexivity|]; eexists; cbn [get_path]; split; [reflexivity|exact I]).
    destruct (apply_mutop op items); discriminate H.
  - apply nonneg_cons in Hnn. destruct Hnn as [H0 Hnn].
    destruct v as [x|x|x| |items];
      try (left; inversion H; subst e; exists [], i, rest; eexists; cbn [app get_path];
           split; [reflexivity|split; [reflexivity|reflexivity]]).
    rewrite mutate_path_cons in H.
    destruct (len_z items <=? i) eqn:Hle.
    + left. inversion H; subst e. apply Z.leb_le in Hle.
      exists [], i, rest, (VArr items). cbn [app get_path]. auto.
    + apply Z.leb_gt in Hle.
      destruct (nth_z_in_bounds items i) as [sub Hsub]; [lia|].
      pose proof Hsub as Hsubz.
      rewrite nth_z_nonneg in Hsub by lia. rewrite Hsub in H.
      destruct (mutate_path sub rest op) as [[sub' r']|e'| | |] eqn:Hs; try discriminate H.
      cbn [bind] in H. inversion H; subst e'.
      apply IH in Hs; [|exact Hnn].
      destruct Hs as [(q & i' & r & x & Hp & Hg & Hx) | (-> & x & Hg & Hx)].
      * left. exists (i :: q), i', r, x. split; [cbn [app]; now rewrite Hp|]. split; [|exact Hx].
        cbn [get_path]. now rewrite Hsubz.
      * right. split; [reflexivity|]. exists x. split; [|exact Hx].
        cbn [get_path]. now rewrite Hsubz.
Qed.

Lemma mutate_path_total : forall p v op,
  (exists v' r, mutate_path v p op = Ok (v', r)) \/
  (exists e, mutate_path v p op = Err e /\ (e = InvIdx \/ e = IdxOob \/ e = TypeMis)).
Proof.
  induction p as [|i rest IH]; intros v op.
  - cbn [mutate_path]. destruct v as [a|a|a| |items]; try (right; eexists; split; [reflexivity|auto]).
    destruct (apply_mutop op items). left; eauto.
  - destruct v as [a|a|a| |items]; try (right; eexists; split; [reflexivity|auto]).
    rewrite mutate_path_cons.
    destruct (len_z items <=? i); [right; eexists; split; [reflexivity|auto]|].
    destruct (nth_value items (Z.to_nat i)) as [sub|]; [|right; eexists; split; [reflexivity|auto]].
    destruct (IH sub op) as [(v' & r & ->) | (e & -> & He)]; cbn [bind]; [left; eauto|right; eauto].
Qed.
