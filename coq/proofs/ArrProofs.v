(* ArrProofs — proofs for C05 ("arrays are values") over Lang.v / ArrSpec.v.

   Part 1  paths:   assign_path / mutate_path change exactly the addressed position
   Part 2  slots:   assign_env / define_env change exactly one variable slot
   Part 3  steps:   SSetIdx and push/pop/reverse calls = operand evaluation, then one store
   Part 4  copies:  a copied array is independent of its source, over whole histories *)
From Coq Require Import ZArith List Bool Lia SpecFloat.
Require Import NS.theories.F64 NS.theories.Lang NS.theories.ArrSpec.
Import ListNotations.
Open Scope Z_scope.

(* ================================================================== *)
(* Part 1: paths                                                       *)
(* ================================================================== *)

Lemma nth_value_lt : forall vs i, (i < length vs)%nat -> exists v, nth_value vs i = Some v.
Proof.
  induction vs as [|x vs IH]; intros i Hi; cbn [length] in Hi; [lia|].
  destruct i as [|i]; cbn [nth_value]; [eauto|]. apply IH. lia.
Qed.

Lemma nth_value_some_lt : forall vs i v, nth_value vs i = Some v -> (i < length vs)%nat.
Proof.
  induction vs as [|x vs IH]; intros i v H; destruct i; cbn [nth_value length] in *;
    try discriminate; [lia|]. apply IH in H. lia.
Qed.

Lemma set_nth_length : forall vs i v, length (set_nth vs i v) = length vs.
Proof.
  induction vs as [|x vs IH]; intros i v; destruct i; cbn [set_nth length]; auto.
Qed.

Lemma nth_set_nth_same : forall vs i v,
  (i < length vs)%nat -> nth_value (set_nth vs i v) i = Some v.
Proof.
  induction vs as [|x vs IH]; intros i v Hi; cbn [length] in Hi; [lia|].
  destruct i; cbn [set_nth nth_value]; [reflexivity|]. apply IH. lia.
Qed.

Lemma nth_set_nth_other : forall vs i j v,
  i <> j -> nth_value (set_nth vs i v) j = nth_value vs j.
Proof.
  induction vs as [|x vs IH]; intros i j v Hij; destruct i, j; cbn [set_nth nth_value];
    try reflexivity; try congruence. apply IH. congruence.
Qed.

Lemma len_z_set_nth : forall vs i v, len_z (set_nth vs i v) = len_z vs.
Proof. intros. unfold len_z. now rewrite set_nth_length. Qed.

Lemma nth_z_some_bounds : forall items i x, nth_z items i = Some x -> 0 <= i < len_z items.
Proof.
  unfold nth_z, len_z. intros items i x H.
  destruct (i <? 0) eqn:Hneg; [discriminate|]. apply Z.ltb_ge in Hneg.
  apply nth_value_some_lt in H. lia.
Qed.

Lemma nth_z_in_bounds : forall items i, 0 <= i < len_z items -> exists x, nth_z items i = Some x.
Proof.
  unfold nth_z, len_z. intros items i [H0 H1].
  destruct (i <? 0) eqn:Hneg; [apply Z.ltb_lt in Hneg; lia|].
  apply nth_value_lt. lia.
Qed.

Lemma nth_z_nonneg : forall items i, 0 <= i -> nth_z items i = nth_value items (Z.to_nat i).
Proof.
  unfold nth_z. intros items i H. destruct (i <? 0) eqn:Hneg; [apply Z.ltb_lt in Hneg; lia|reflexivity].
Qed.

Lemma nth_z_set_same : forall items i x,
  0 <= i < len_z items -> nth_z (set_nth items (Z.to_nat i) x) i = Some x.
Proof.
  intros items i x [H0 H1]. rewrite nth_z_nonneg by lia.
  apply nth_set_nth_same. unfold len_z in H1. lia.
Qed.

Lemma nth_z_set_other : forall items i j x,
  0 <= i -> i <> j -> nth_z (set_nth items (Z.to_nat i) x) j = nth_z items j.
Proof.
  intros items i j x H0 Hij. unfold nth_z. destruct (j <? 0) eqn:Hneg; [reflexivity|].
  apply Z.ltb_ge in Hneg. apply nth_set_nth_other. lia.
Qed.

Lemma get_path_app : forall p q v,
  get_path v (p ++ q) = match get_path v p with Some x => get_path x q | None => None end.
Proof.
  induction p as [|i p IH]; intros q v; cbn [app get_path]; [reflexivity|].
  destruct v; try reflexivity. destruct (nth_z vs i); [apply IH|reflexivity].
Qed.

Lemma prefix_nil : forall q, prefix [] q.
Proof. intros q. exists q. reflexivity. Qed.

Lemma prefix_cons : forall i p q, prefix (i :: p) (i :: q) <-> prefix p q.
Proof.
  intros i p q. split; intros [r Hr].
  - exists r. cbn [app] in Hr. now inversion Hr.
  - exists r. cbn [app]. now rewrite Hr.
Qed.

Lemma prefix_cons_neq : forall i j p q, i <> j -> ~ prefix (i :: p) (j :: q).
Proof. intros i j p q Hij [r Hr]. cbn [app] in Hr. inversion Hr. congruence. Qed.

Lemma prefix_refl : forall p, prefix p p.
Proof. intros p. exists []. now rewrite app_nil_r. Qed.

(* unfolding of one step of assign_path on an array *)
Lemma assign_path_cons : forall items i rest nv,
  assign_path (VArr items) (i :: rest) nv =
  if len_z items <=? i then Err IdxOob
  else match rest with
       | [] => Ok (VArr (set_nth items (Z.to_nat i) nv))
       | _ => match nth_value items (Z.to_nat i) with
              | Some sub => bind (assign_path sub rest nv)
                                 (fun sub' => Ok (VArr (set_nth items (Z.to_nat i) sub')))
              | None => Err IdxOob
              end
       end.
Proof. intros. destruct rest; reflexivity. Qed.

(* inversion of a successful assign_path step *)
Lemma assign_path_ok_inv : forall v i rest nv v',
  0 <= i -> assign_path v (i :: rest) nv = Ok v' ->
  exists items, v = VArr items /\ i < len_z items /\
    ((rest = [] /\ v' = VArr (set_nth items (Z.to_nat i) nv)) \/
     (rest <> [] /\ exists sub sub', nth_z items i = Some sub /\
        assign_path sub rest nv = Ok sub' /\ v' = VArr (set_nth items (Z.to_nat i) sub'))).
Proof.
  intros v i rest nv v' H0 H. destruct v as [| | | |items]; try discriminate H.
  rewrite assign_path_cons in H. exists items. split; [reflexivity|].
  destruct (len_z items <=? i) eqn:Hle; [discriminate|]. apply Z.leb_gt in Hle.
  split; [exact Hle|].
  destruct rest as [|j rest'].
  - left. split; [reflexivity|]. now inversion H.
  - right. split; [discriminate|].
    destruct (nth_value items (Z.to_nat i)) as [sub|] eqn:Hn; [|discriminate].
    destruct (assign_path sub (j :: rest') nv) as [sub'| | | |] eqn:Hs; try discriminate H.
    cbn [bind] in H. inversion H. exists sub, sub'.
    rewrite nth_z_nonneg by lia. auto.
Qed.

Lemma nonneg_cons : forall i p, nonneg (i :: p) <-> 0 <= i /\ nonneg p.
Proof.
  intros i p. unfold nonneg. split; intros H.
  - inversion H; auto.
  - constructor; tauto.
Qed.

(* the written position reads back the new value *)
Lemma assign_path_get : forall p v nv v',
  nonneg p -> assign_path v p nv = Ok v' -> get_path v' p = Some nv.
Proof.
  induction p as [|i rest IH]; intros v nv v' Hnn H; [discriminate H|].
  apply nonneg_cons in Hnn. destruct Hnn as [H0 Hnn].
  apply assign_path_ok_inv in H; [|exact H0].
  destruct H as (items & -> & Hlt & [[-> ->] | (Hne & sub & sub' & Hn & Hs & ->)]).
  - cbn [get_path]. now rewrite nth_z_set_same by lia.
  - cbn [get_path]. rewrite nth_z_set_same by lia. eapply IH; eauto.
Qed.

(* every position that is neither below nor above the written one is unchanged *)
Lemma assign_path_frame : forall p v nv v',
  nonneg p -> assign_path v p nv = Ok v' ->
  forall q, indep p q -> get_path v' q = get_path v q.
Proof.
  induction p as [|i rest IH]; intros v nv v' Hnn H q [Hpq Hqp]; [discriminate H|].
  apply nonneg_cons in Hnn. destruct Hnn as [H0 Hnn].
  apply assign_path_ok_inv in H; [|exact H0].
  destruct q as [|j qr]; [exfalso; apply Hqp, prefix_nil|].
  destruct H as (items & -> & Hlt & Hcase).
  destruct (Z.eq_dec i j) as [<-|Hij].
  - destruct Hcase as [[-> ->] | (Hne & sub & sub' & Hn & Hs & ->)].
    + exfalso. apply Hpq. apply prefix_cons, prefix_nil.
    + cbn [get_path]. rewrite nth_z_set_same by lia. rewrite Hn.
      eapply IH; eauto. split; intros Hc; [apply Hpq|apply Hqp]; now apply prefix_cons.
  - assert (Hset : forall x, get_path (VArr (set_nth items (Z.to_nat i) x)) (j :: qr)
                             = get_path (VArr items) (j :: qr)).
    { intros x. cbn [get_path]. now rewrite nth_z_set_other by assumption. }
    destruct Hcase as [[_ ->] | (_ & sub & sub' & _ & _ & ->)]; apply Hset.
Qed.

(* no array changes its length, except what is stored at (or below) the written position *)
Lemma assign_path_len : forall p v nv v',
  nonneg p -> assign_path v p nv = Ok v' ->
  forall q, ~ prefix p q -> alen (get_path v' q) = alen (get_path v q).
Proof.
  induction p as [|i rest IH]; intros v nv v' Hnn H q Hpq; [discriminate H|].
  apply nonneg_cons in Hnn. destruct Hnn as [H0 Hnn].
  apply assign_path_ok_inv in H; [|exact H0].
  destruct H as (items & -> & Hlt & Hcase).
  destruct q as [|j qr].
  - destruct Hcase as [[_ ->] | (_ & sub & sub' & _ & _ & ->)];
      cbn [get_path alen]; now rewrite set_nth_length.
  - destruct (Z.eq_dec i j) as [<-|Hij].
    + destruct Hcase as [[-> ->] | (Hne & sub & sub' & Hn & Hs & ->)].
      * exfalso. apply Hpq. apply prefix_cons, prefix_nil.
      * cbn [get_path]. rewrite nth_z_set_same by lia. rewrite Hn.
        eapply IH; eauto. intros Hc. apply Hpq. now apply prefix_cons.
    + assert (Hset : forall x, get_path (VArr (set_nth items (Z.to_nat i) x)) (j :: qr)
                               = get_path (VArr items) (j :: qr)).
      { intros x. cbn [get_path]. now rewrite nth_z_set_other by assumption. }
      destruct Hcase as [[_ ->] | (_ & sub & sub' & _ & _ & ->)]; now rewrite Hset.
Qed.

(* the error cases, exactly *)
Lemma assign_path_err_fault : forall p v nv e,
  nonneg p -> assign_path v p nv = Err e -> fault_at v p e.
Proof.
  induction p as [|i rest IH]; intros v nv e Hnn H; [discriminate H|].
  apply nonneg_cons in Hnn. destruct Hnn as [H0 Hnn].
  destruct v as [x|x|x| |items];
    try (inversion H; subst e; exists [], i, rest; eexists; cbn [app get_path];
         split; [reflexivity|split; [reflexivity|reflexivity]]).
  rewrite assign_path_cons in H.
  destruct (len_z items <=? i) eqn:Hle.
  - inversion H; subst e. apply Z.leb_le in Hle.
    exists [], i, rest, (VArr items). cbn [app get_path]. auto.
  - apply Z.leb_gt in Hle. destruct rest as [|j rest']; [discriminate H|].
    destruct (nth_z_in_bounds items i) as [sub Hsub]; [lia|].
    rewrite nth_z_nonneg in Hsub by lia. rewrite Hsub in H.
    destruct (assign_path sub (j :: rest') nv) as [sub'|e'| | |] eqn:Hs; try discriminate H.
    cbn [bind] in H. inversion H; subst e'.
    apply IH in Hs; [|exact Hnn].
    destruct Hs as (q & i' & r & x & Hp & Hg & Hx).
    exists (i :: q), i', r, x. split; [cbn [app]; now rewrite Hp|]. split; [|exact Hx].
    cbn [get_path]. rewrite nth_z_nonneg by lia. now rewrite Hsub.
Qed.

Lemma fault_assign_path_err : forall q v p nv e i r x,
  p = q ++ i :: r -> get_path v q = Some x ->
  match x with VArr items => e = IdxOob /\ len_z items <= i | _ => e = InvIdx end ->
  assign_path v p nv = Err e.
Proof.
  induction q as [|j q IH]; intros v p nv e i r x Hp Hg Hx; subst p; cbn [app].
  - cbn [get_path] in Hg. inversion Hg; subst x.
    destruct v as [a|a|a| |items]; try (subst e; reflexivity).
    destruct Hx as [-> Hle]. rewrite assign_path_cons.
    apply Z.leb_le in Hle. now rewrite Hle.
  - cbn [get_path] in Hg. destruct v as [a|a|a| |items]; try discriminate Hg.
    destruct (nth_z items j) as [sub|] eqn:Hn; [|discriminate Hg].
    pose proof (nth_z_some_bounds _ _ _ Hn) as [Hj0 Hj1].
    rewrite assign_path_cons. apply Z.leb_gt in Hj1. rewrite Hj1.
    rewrite nth_z_nonneg in Hn by lia. rewrite Hn.
    destruct (q ++ i :: r) as [|a rest] eqn:Hrest; [destruct q; discriminate Hrest|].
    rewrite <- Hrest. erewrite IH; eauto. reflexivity.
Qed.

Lemma assign_path_err_iff : forall p v nv e,
  nonneg p -> (assign_path v p nv = Err e <-> fault_at v p e).
Proof.
  intros p v nv e Hnn. split.
  - now apply assign_path_err_fault.
  - intros (q & i & r & x & Hp & Hg & Hx). eapply fault_assign_path_err; eauto.
Qed.

(* assign_path never runs out of fuel, never is unsupported, and its only panic is the
   empty index chain, which flatten_target never produces for an index assignment *)
Lemma assign_path_total : forall p v nv,
  (exists v', assign_path v p nv = Ok v') \/ assign_path v p nv = Err InvIdx \/
  assign_path v p nv = Err IdxOob \/ (p = [] /\ assign_path v p nv = Panic PIdxAssignEnd).
Proof.
  induction p as [|i rest IH]; intros v nv; [right; right; right; auto|].
  destruct v as [a|a|a| |items]; try (right; left; reflexivity).
  rewrite assign_path_cons. destruct (len_z items <=? i); [right; right; left; reflexivity|].
  destruct rest as [|j rest']; [left; eauto|].
  destruct (nth_value items (Z.to_nat i)) as [sub|]; [|right; right; left; reflexivity].
  destruct (IH sub nv) as [[v' ->] | [-> | [-> | [Hnil _]]]]; cbn [bind]; eauto.
  discriminate Hnil.
Qed.

Lemma assign_path_ok_iff : forall p v nv,
  nonneg p ->
  ((exists v', assign_path v p nv = Ok v') <-> (p <> [] /\ forall e, ~ fault_at v p e)).
Proof.
  intros p v nv Hnn. split.
  - intros [v' H]. split; [intros ->; discriminate H|].
    intros e Hf. apply (assign_path_err_iff p v nv e Hnn) in Hf. congruence.
  - intros [Hne Hnf].
    destruct (assign_path_total p v nv) as [Hok | [He | [He | [Hnil _]]]];
      [exact Hok| | |congruence];
      apply (assign_path_err_iff p v nv _ Hnn) in He; exfalso; eapply Hnf; eauto.
Qed.

(* ---------- push / pop / reverse at a path ---------- *)
Lemma mutate_path_cons : forall items i rest op,
  mutate_path (VArr items) (i :: rest) op =
  if len_z items <=? i then Err IdxOob
  else match nth_value items (Z.to_nat i) with
       | Some sub => bind (mutate_path sub rest op)
                          (fun '(sub', r) => Ok (VArr (set_nth items (Z.to_nat i) sub'), r))
       | None => Err IdxOob
       end.
Proof. reflexivity. Qed.

Lemma mutate_path_ok_inv : forall v i rest op v' r,
  0 <= i -> mutate_path v (i :: rest) op = Ok (v', r) ->
  exists items sub sub', v = VArr items /\ i < len_z items /\ nth_z items i = Some sub /\
    mutate_path sub rest op = Ok (sub', r) /\ v' = VArr (set_nth items (Z.to_nat i) sub').
Proof.
  intros v i rest op v' r H0 H. destruct v as [| | | |items]; try discriminate H.
  rewrite mutate_path_cons in H.
  destruct (len_z items <=? i) eqn:Hle; [discriminate|]. apply Z.leb_gt in Hle.
  destruct (nth_value items (Z.to_nat i)) as [sub|] eqn:Hn; [|discriminate].
  destruct (mutate_path sub rest op) as [[sub' r']| | | |] eqn:Hs; try discriminate H.
  cbn [bind] in H. inversion H; subst. exists items, sub, sub'.
  rewrite nth_z_nonneg by lia. auto.
Qed.

(* the addressed sub-array, and only it, is replaced by the result of the list operation *)
Lemma mutate_path_target : forall p v op v' r,
  nonneg p -> mutate_path v p op = Ok (v', r) ->
  exists items, get_path v p = Some (VArr items) /\
    get_path v' p = Some (VArr (fst (apply_mutop op items))) /\ r = snd (apply_mutop op items).
Proof.
  induction p as [|i rest IH]; intros v op v' r Hnn H.
  - cbn [mutate_path] in H. destruct v as [| | | |items]; try discriminate H.
    destruct (apply_mutop op items) as [items' r'] eqn:Ha. inversion H; subst.
    exists items. cbn [get_path]. rewrite Ha. cbn [fst snd]. auto.
  - apply nonneg_cons in Hnn. destruct Hnn as [H0 Hnn].
    apply mutate_path_ok_inv in H; [|exact H0].
    destruct H as (items & sub & sub' & -> & Hlt & Hn & Hs & ->).
    destruct (IH _ _ _ _ Hnn Hs) as (its & Hg & Hg' & Hr).
    exists its. cbn [get_path]. rewrite Hn, nth_z_set_same by lia. auto.
Qed.

Lemma mutate_path_frame : forall p v op v' r,
  nonneg p -> mutate_path v p op = Ok (v', r) ->
  forall q, indep p q -> get_path v' q = get_path v q.
Proof.
  induction p as [|i rest IH]; intros v op v' r Hnn H q [Hpq Hqp].
  - exfalso. apply Hpq, prefix_nil.
  - apply nonneg_cons in Hnn. destruct Hnn as [H0 Hnn].
    apply mutate_path_ok_inv in H; [|exact H0].
    destruct H as (items & sub & sub' & -> & Hlt & Hn & Hs & ->).
    destruct q as [|j qr]; [exfalso; apply Hqp, prefix_nil|].
    destruct (Z.eq_dec i j) as [<-|Hij].
    + cbn [get_path]. rewrite nth_z_set_same by lia. rewrite Hn.
      eapply IH; eauto. split; intros Hc; [apply Hpq|apply Hqp]; now apply prefix_cons.
    + cbn [get_path]. now rewrite nth_z_set_other by assumption.
Qed.

(* arrays strictly above the addressed one keep their length *)
Lemma mutate_path_len : forall p v op v' r,
  nonneg p -> mutate_path v p op = Ok (v', r) ->
  forall q, ~ prefix p q -> alen (get_path v' q) = alen (get_path v q).
Proof.
  induction p as [|i rest IH]; intros v op v' r Hnn H q Hpq.
  - exfalso. apply Hpq, prefix_nil.
  - apply nonneg_cons in Hnn. destruct Hnn as [H0 Hnn].
    apply mutate_path_ok_inv in H; [|exact H0].
    destruct H as (items & sub & sub' & -> & Hlt & Hn & Hs & ->).
    destruct q as [|j qr]; [cbn [get_path alen]; now rewrite set_nth_length|].
    destruct (Z.eq_dec i j) as [<-|Hij].
    + cbn [get_path]. rewrite nth_z_set_same by lia. rewrite Hn.
      eapply IH; eauto. intros Hc. apply Hpq. now apply prefix_cons.
    + cbn [get_path]. now rewrite nth_z_set_other by assumption.
Qed.

(* what the three list operations do *)
Lemma apply_push : forall x items, apply_mutop (MPush x) items = (items ++ [x], VNull).
Proof. reflexivity. Qed.

Lemma apply_reverse : forall items, apply_mutop MReverse items = (rev items, VNull).
Proof. reflexivity. Qed.

Lemma apply_pop_empty : apply_mutop MPop [] = ([], VNull).
Proof. reflexivity. Qed.

Lemma apply_pop_snoc : forall items x, apply_mutop MPop (items ++ [x]) = (items, x).
Proof.
  intros items x. unfold apply_mutop, last_value.
  destruct (items ++ [x]) eqn:Hd; [destruct items; discriminate Hd|].
  rewrite <- Hd. now rewrite removelast_last, last_last.
Qed.

(* errors of mutate_path: the walk faults exactly as for assign_path; a non-array at the
   end of the walk is a Type mismatch *)
Lemma mutate_path_err_fault : forall p v op e,
  nonneg p -> mutate_path v p op = Err e ->
  fault_at v p e \/ (e = TypeMis /\ exists x, get_path v p = Some x /\
                                      match x with VArr _ => False | _ => True end).
Proof.
  induction p as [|i rest IH]; intros v op e Hnn H.
  - right. cbn [mutate_path] in H. destruct v as [a|a|a| |items];
      try (inversion H; split; [reflexivity|]; eexists; cbn [get_path]; split; [reflexivity|exact I]).
    destruct (apply_mutop op items); discriminate H.
  - apply nonneg_cons in Hnn. destruct Hnn as [H0 Hnn].
    destruct v as [x|x|x| |items];
      try (left; inversion H; subst e; exists [], i, rest; eexists; cbn [app get_path];
           split; [reflexivity|split; [reflexivity|reflexivity]]).
    rewrite mutate_path_cons in H.
    destruct (len_z items <=? i) eqn:Hle.
    + left. inversion H; subst e. apply Z.leb_le in Hle.
      exists [], i, rest, (VArr items). cbn [app get_path]. auto.
    + apply Z.leb_gt in Hle.
      destruct (nth_z_in_bounds items i) as [sub Hsub]; [lia|].
      pose proof Hsub as Hsubz.
      rewrite nth_z_nonneg in Hsub by lia. rewrite Hsub in H.
      destruct (mutate_path sub rest op) as [[sub' r']|e'| | |] eqn:Hs; try discriminate H.
      cbn [bind] in H. inversion H; subst e'.
      apply IH in Hs; [|exact Hnn].
      destruct Hs as [(q & i' & r & x & Hp & Hg & Hx) | (-> & x & Hg & Hx)].
      * left. exists (i :: q), i', r, x. split; [cbn [app]; now rewrite Hp|]. split; [|exact Hx].
        cbn [get_path]. now rewrite Hsubz.
      * right. split; [reflexivity|]. exists x. split; [|exact Hx].
        cbn [get_path]. now rewrite Hsubz.
Qed.

Lemma mutate_path_total : forall p v op,
  (exists v' r, mutate_path v p op = Ok (v', r)) \/
  (exists e, mutate_path v p op = Err e /\ (e = InvIdx \/ e = IdxOob \/ e = TypeMis)).
Proof.
  induction p as [|i rest IH]; intros v op.
  - cbn [mutate_path]. destruct v as [a|a|a| |items]; try (right; eexists; split; [reflexivity|auto]).
    destruct (apply_mutop op items). left; eauto.
  - destruct v as [a|a|a| |items]; try (right; eexists; split; [reflexivity|auto]).
    rewrite mutate_path_cons.
    destruct (len_z items <=? i); [right; eexists; split; [reflexivity|auto]|].
    destruct (nth_value items (Z.to_nat i)) as [sub|]; [|right; eexists; split; [reflexivity|auto]].
    destruct (IH sub op) as [(v' & r & ->) | (e & -> & He)]; cbn [bind]; [left; eauto|right; eauto].
Qed.

(* ---------- element persistence below the mutated array ---------- *)
Lemma nth_value_nth_error : forall vs i, nth_value vs i = nth_error vs i.
Proof. induction vs as [|x vs IH]; intros [|i]; cbn [nth_value nth_error]; auto. Qed.

Lemma nth_z_app_l : forall a b k, 0 <= k < len_z a -> nth_z (a ++ b) k = nth_z a k.
Proof.
  intros a b k [H0 H1]. rewrite !nth_z_nonneg by lia. rewrite !nth_value_nth_error.
  apply nth_error_app1. unfold len_z in H1. lia.
Qed.

Lemma nth_z_app_last : forall a x, nth_z (a ++ [x]) (len_z a) = Some x.
Proof.
  intros a x. unfold len_z. rewrite nth_z_nonneg by lia. rewrite nth_value_nth_error.
  rewrite Nat2Z.id. rewrite nth_error_app2 by lia. now rewrite Nat.sub_diag.
Qed.

Lemma nth_z_rev : forall a k, 0 <= k < len_z a -> nth_z (rev a) k = nth_z a (len_z a - 1 - k).
Proof.
  intros a k [H0 H1]. unfold len_z in *. rewrite !nth_z_nonneg by lia.
  rewrite !nth_value_nth_error.
  assert (Hk : (Z.to_nat k < length a)%nat) by lia.
  rewrite (nth_error_nth' (rev a) VNull) by (rewrite rev_length; exact Hk).
  rewrite (nth_error_nth' a VNull) by lia.
  rewrite rev_nth by exact Hk. f_equal. f_equal. lia.
Qed.

Lemma get_path_below : forall v p items k rest,
  get_path v p = Some (VArr items) ->
  get_path v (p ++ k :: rest) =
  match nth_z items k with Some x => get_path x rest | None => None end.
Proof. intros v p items k rest Hg. rewrite get_path_app, Hg. reflexivity. Qed.

(* push appends exactly one element at the end of the addressed array; every element
   that was there keeps its position and its value *)
Lemma mutate_push_elements : forall p v x v' r,
  nonneg p -> mutate_path v p (MPush x) = Ok (v', r) ->
  exists items, get_path v p = Some (VArr items) /\ r = VNull /\
    get_path v' p = Some (VArr (items ++ [x])) /\
    get_path v' (p ++ [len_z items]) = Some x /\
    forall k rest, 0 <= k < len_z items ->
      get_path v' (p ++ k :: rest) = get_path v (p ++ k :: rest).
Proof.
  intros p v x v' r Hnn H.
  destruct (mutate_path_target _ _ _ _ _ Hnn H) as (items & Hg & Hg' & Hr).
  rewrite apply_push in Hg', Hr. cbn [fst snd] in Hg', Hr.
  exists items. refine (conj Hg (conj Hr (conj Hg' (conj _ _)))).
  - rewrite (get_path_below _ _ _ _ _ Hg'). now rewrite nth_z_app_last.
  - intros k rest Hk. rewrite (get_path_below _ _ _ _ _ Hg'), (get_path_below _ _ _ _ _ Hg).
    now rewrite nth_z_app_l.
Qed.

(* pop removes exactly the last element and returns it (null on an empty array) *)
Lemma mutate_pop_elements : forall p v v' r,
  nonneg p -> mutate_path v p MPop = Ok (v', r) ->
  exists items, get_path v p = Some (VArr items) /\
    ((items = [] /\ r = VNull /\ get_path v' p = Some (VArr [])) \/
     (exists l, items = l ++ [r] /\ get_path v' p = Some (VArr l) /\
        forall k rest, 0 <= k < len_z l ->
          get_path v' (p ++ k :: rest) = get_path v (p ++ k :: rest))).
Proof.
  intros p v v' r Hnn H.
  destruct (mutate_path_target _ _ _ _ _ Hnn H) as (items & Hg & Hg' & Hr).
  exists items. split; [exact Hg|].
  destruct items as [|a items0].
  - left. rewrite apply_pop_empty in Hg', Hr. auto.
  - right. destruct (exists_last (l := a :: items0)) as (l & x & Hl); [discriminate|].
    rewrite Hl in Hg, Hg', Hr. rewrite apply_pop_snoc in Hg', Hr. cbn [fst snd] in Hg', Hr.
    subst x. exists l. refine (conj Hl (conj Hg' _)).
    intros k rest Hk. rewrite (get_path_below _ _ _ _ _ Hg'), (get_path_below _ _ _ _ _ Hg).
    now rewrite nth_z_app_l.
Qed.

(* reverse: the element at position k afterwards is the one that was at len-1-k *)
Lemma mutate_reverse_elements : forall p v v' r,
  nonneg p -> mutate_path v p MReverse = Ok (v', r) ->
  exists items, get_path v p = Some (VArr items) /\ r = VNull /\
    get_path v' p = Some (VArr (rev items)) /\
    forall k rest, 0 <= k < len_z items ->
      get_path v' (p ++ k :: rest) = get_path v (p ++ (len_z items - 1 - k) :: rest).
Proof.
  intros p v v' r Hnn H.
  destruct (mutate_path_target _ _ _ _ _ Hnn H) as (items & Hg & Hg' & Hr).
  rewrite apply_reverse in Hg', Hr. cbn [fst snd] in Hg', Hr.
  exists items. refine (conj Hg (conj Hr (conj Hg' _))).
  intros k rest Hk. rewrite (get_path_below _ _ _ _ _ Hg'), (get_path_below _ _ _ _ _ Hg).
  now rewrite nth_z_rev.
Qed.

(* ================================================================== *)
(* Part 2: variable slots                                              *)
(* ================================================================== *)

Lemma find_idx_some : forall l n sc j,
  find_idx l n sc = Some j ->
  exists s, nth_error sc j = Some s /\ slot_matches l n s = true /\
            find_slot l n sc = Some (s_val s).
Proof.
  induction sc as [|s sc IH]; intros j H; cbn [find_idx] in H; [discriminate|].
  cbn [find_slot]. destruct (slot_matches l n s) eqn:Hm.
  - inversion H; subst j. exists s. cbn [nth_error]. auto.
  - destruct (find_idx l n sc) as [j'|] eqn:Hf; [|discriminate]. inversion H; subst j.
    destruct (IH j' eq_refl) as (s' & Hn & Hm' & Hfs). exists s'. cbn [nth_error]. auto.
Qed.

Lemma find_idx_none : forall l n sc, find_idx l n sc = None -> find_slot l n sc = None.
Proof.
  induction sc as [|s sc IH]; intros H; cbn [find_idx find_slot] in *; [reflexivity|].
  destruct (slot_matches l n s); [discriminate|].
  destruct (find_idx l n sc); [discriminate|]. now apply IH.
Qed.

(* a variable reference reads the slot it resolves to *)
Lemma lookup_env_pos : forall l n e,
  lookup_env l n e =
  match find_pos l n e with
  | Some pos => option_map s_val (slot_at e pos)
  | None => None
  end.
Proof.
  induction e as [|sc e IH]; cbn [lookup_env find_pos]; [reflexivity|].
  destruct (find_idx l n sc) as [j|] eqn:Hf.
  - destruct (find_idx_some _ _ _ _ Hf) as (s & Hn & _ & Hfs). rewrite Hfs.
    unfold slot_at. cbn [fst snd nth_error]. now rewrite Hn.
  - rewrite (find_idx_none _ _ _ Hf), IH.
    destruct (find_pos l n e) as [[i j]|]; reflexivity.
Qed.

Lemma slot_matches_skey : forall l n s s',
  s_id s = s_id s' -> s_name s = s_name s' -> slot_matches l n s = slot_matches l n s'.
Proof. intros l n s s' H1 H2. unfold slot_matches. now rewrite H1, H2. Qed.

Lemma find_idx_shape : forall l n sc sc',
  map skey sc = map skey sc' -> find_idx l n sc = find_idx l n sc'.
Proof.
  induction sc as [|s sc IH]; intros [|s' sc'] H; cbn [map] in H; try discriminate; [reflexivity|].
  injection H as Hk Hn Hr. cbn [find_idx]. rewrite (slot_matches_skey l n s s' Hk Hn).
  now rewrite (IH sc' Hr).
Qed.

(* which slot a reference resolves to depends only on the shape of the environment *)
Lemma find_pos_shape : forall l n e e', shape e = shape e' -> find_pos l n e = find_pos l n e'.
Proof.
  unfold shape. induction e as [|sc e IH]; intros [|sc' e'] H; cbn [map] in H; try discriminate;
    [reflexivity|].
  injection H as Hk Hr. cbn [find_pos]. rewrite (find_idx_shape l n sc sc' Hk).
  now rewrite (IH e' Hr).
Qed.

Lemma set_slot_spec : forall l n v sc,
  match find_idx l n sc with
  | Some j => exists s sc', nth_error sc j = Some s /\ set_slot l n v sc = Some sc' /\
                nth_error sc' j = Some (with_val s v) /\
                (forall k, k <> j -> nth_error sc' k = nth_error sc k) /\
                map skey sc' = map skey sc
  | None => set_slot l n v sc = None
  end.
Proof.
  induction sc as [|s sc IH]; cbn [find_idx set_slot]; [reflexivity|].
  destruct (slot_matches l n s) eqn:Hm.
  - exists s. eexists. refine (conj eq_refl (conj eq_refl (conj eq_refl (conj _ eq_refl)))).
    intros [|k] Hk; [congruence|reflexivity].
  - destruct (find_idx l n sc) as [j|] eqn:Hf.
    + destruct IH as (s0 & sc' & Hn & Hs & Hn' & Hoth & Hshape). rewrite Hs.
      exists s0, (s :: sc'). cbn [nth_error map]. refine (conj Hn (conj eq_refl (conj Hn' (conj _ _)))).
      * intros [|k] Hk; [reflexivity|]. cbn [nth_error]. apply Hoth. congruence.
      * now rewrite Hshape.
    + now rewrite IH.
Qed.

Lemma assign_env_spec : forall l n v e,
  match find_pos l n e with
  | Some pos => exists s e', slot_at e pos = Some s /\ assign_env l n v e = Some e' /\
                  slot_at e' pos = Some (with_val s v) /\
                  (forall pos', pos' <> pos -> slot_at e' pos' = slot_at e pos') /\
                  shape e' = shape e
  | None => assign_env l n v e = None
  end.
Proof.
  induction e as [|sc e IH]; cbn [find_pos assign_env]; [reflexivity|].
  pose proof (set_slot_spec l n v sc) as Hss.
  destruct (find_idx l n sc) as [j|] eqn:Hf.
  - destruct Hss as (s & sc' & Hn & Hs & Hn' & Hoth & Hshape). rewrite Hs.
    exists s, (sc' :: e). unfold slot_at, shape. cbn [fst snd nth_error map].
    refine (conj Hn (conj eq_refl (conj Hn' (conj _ _)))).
    + intros [[|i] k] Hne; cbn [fst snd nth_error]; [|reflexivity].
      apply Hoth. congruence.
    + now rewrite Hshape.
  - rewrite Hss. destruct (find_pos l n e) as [[i j]|] eqn:Hp.
    + destruct IH as (s & e' & Hsa & Ha & Hsa' & Hoth & Hshape). rewrite Ha.
      exists s, (sc :: e'). unfold slot_at, shape in *. cbn [fst snd nth_error map] in *.
      refine (conj Hsa (conj eq_refl (conj Hsa' (conj _ _)))).
      * intros [[|i'] k] Hne; cbn [fst snd nth_error]; [reflexivity|].
        apply (Hoth (i', k)). congruence.
      * now rewrite Hshape.
    + now rewrite IH.
Qed.

(* assign_env: exactly the first matching slot (innermost scope first) gets the value;
   no other slot changes; scope count and slot ids/names/order are kept *)
Lemma assign_env_frame : forall l n v e e',
  assign_env l n v e = Some e' ->
  exists pos s, find_pos l n e = Some pos /\ slot_at e pos = Some s /\
    slot_at e' pos = Some (with_val s v) /\
    (forall pos', pos' <> pos -> slot_at e' pos' = slot_at e pos') /\
    shape e' = shape e.
Proof.
  intros l n v e e' H. pose proof (assign_env_spec l n v e) as Hs.
  destruct (find_pos l n e) as [pos|]; [|congruence].
  destruct Hs as (s & e'' & Hsa & Ha & Hsa' & Hoth & Hshape).
  rewrite H in Ha. inversion Ha; subst e''. exists pos, s. auto.
Qed.

Lemma assign_env_defined : forall l n v e,
  assign_env l n v e = None <-> lookup_env l n e = None.
Proof.
  intros l n v e. pose proof (assign_env_spec l n v e) as Hs. rewrite lookup_env_pos.
  destruct (find_pos l n e) as [pos|].
  - destruct Hs as (s & e' & Hsa & Ha & _). rewrite Ha, Hsa. cbn [option_map]. split; discriminate.
  - tauto.
Qed.

(* the same, through variable references: the assigned variable reads the new value and
   every reference that resolves to another slot reads what it read before *)
Lemma assign_env_lookup : forall l n v e e',
  assign_env l n v e = Some e' ->
  lookup_env l n e' = Some v /\
  (forall l' n', find_pos l' n' e' = find_pos l' n' e) /\
  (forall l' n', find_pos l' n' e <> find_pos l n e -> lookup_env l' n' e' = lookup_env l' n' e) /\
  (forall l' n', find_pos l' n' e = find_pos l n e -> lookup_env l' n' e' = Some v).
Proof.
  intros l n v e e' H.
  destruct (assign_env_frame _ _ _ _ _ H) as (pos & s & Hp & Hsa & Hsa' & Hoth & Hshape).
  assert (Hfp : forall l' n', find_pos l' n' e' = find_pos l' n' e)
    by (intros; now apply find_pos_shape).
  assert (Hsame : forall l' n', find_pos l' n' e = find_pos l n e -> lookup_env l' n' e' = Some v).
  { intros l' n' He. rewrite lookup_env_pos, Hfp, He, Hp, Hsa'. reflexivity. }
  refine (conj (Hsame l n eq_refl) (conj Hfp (conj _ Hsame))).
  intros l' n' Hne. rewrite !lookup_env_pos, Hfp.
  destruct (find_pos l' n' e) as [pos'|]; [|reflexivity].
  rewrite Hoth; [reflexivity|]. intros ->. apply Hne. now rewrite Hp.
Qed.

(* `make`: overwrite in the innermost scope, or push exactly one new slot there *)
Lemma bytes_eqb_refl : forall a, bytes_eqb a a = true.
Proof. induction a as [|x a IH]; cbn [bytes_eqb]; [reflexivity|]. now rewrite Z.eqb_refl, IH. Qed.

Lemma slot_matches_new : forall l n v, slot_matches l n {| s_id := l; s_name := n; s_val := v |} = true.
Proof.
  intros [i|] n v; unfold slot_matches; cbn [s_id s_name opt_eqb].
  - apply Z.eqb_refl.
  - apply bytes_eqb_refl.
Qed.

Lemma define_env_cases : forall l n v sc r,
  (exists j, find_idx l n sc = Some j /\
             assign_env l n v (sc :: r) = Some (define_env l n v (sc :: r))) \/
  (find_idx l n sc = None /\
   define_env l n v (sc :: r) = ({| s_id := l; s_name := n; s_val := v |} :: sc) :: r).
Proof.
  intros l n v sc r. cbn [define_env assign_env].
  pose proof (set_slot_spec l n v sc) as Hs.
  destruct (find_idx l n sc) as [j|].
  - left. destruct Hs as (s & sc' & _ & Hset & _). rewrite Hset. eauto.
  - right. now rewrite Hs.
Qed.

Lemma define_env_frame : forall l n v sc r,
  let e := sc :: r in
  let e' := define_env l n v e in
  lookup_env l n e' = Some v /\
  (shape e' = shape e \/ shape e' = ((l, n) :: map skey sc) :: shape r) /\
  (forall l' n', find_pos l' n' e' <> find_pos l n e' -> lookup_env l' n' e' = lookup_env l' n' e).
Proof.
  intros l n v sc r e e'. subst e e'.
  destruct (define_env_cases l n v sc r) as [(j & Hf & Ha) | (Hf & Hd)].
  - destruct (assign_env_lookup _ _ _ _ _ Ha) as (Hl & Hfp & Hoth & _).
    destruct (assign_env_frame _ _ _ _ _ Ha) as (_ & _ & _ & _ & _ & _ & Hshape).
    refine (conj Hl (conj (or_introl Hshape) _)).
    intros l' n' Hne. apply Hoth. now rewrite <- !Hfp.
  - rewrite Hd. refine (conj _ (conj (or_intror eq_refl) _)).
    + cbn [lookup_env find_slot]. now rewrite slot_matches_new.
    + intros l' n'. cbn [find_pos find_idx lookup_env find_slot]. rewrite slot_matches_new.
      destruct (slot_matches l' n' _) eqn:Hm; [intros Hc; now contradiction Hc|].
      intros _. reflexivity.
Qed.

(* ================================================================== *)
(* Part 3: the mutating constructs of run_impl                         *)
(* ================================================================== *)

Lemma bytes_eqb_eq : forall a b, bytes_eqb a b = true -> a = b.
Proof.
  induction a as [|x a IH]; intros [|y b] H; cbn [bytes_eqb] in H; try discriminate; [reflexivity|].
  apply andb_true_iff in H. destruct H as [Hx Hr]. apply Z.eqb_eq in Hx. subst y.
  now rewrite (IH b Hr).
Qed.

Lemma mut_method_cases : forall f,
  mem_name f array_mut_methods = true -> f = n_push \/ f = n_pop \/ f = n_reverse.
Proof.
  intros f H. unfold mem_name, array_mut_methods in H. cbn [existsb] in H.
  repeat (apply orb_true_iff in H; destruct H as [H|H]); try discriminate H;
    apply bytes_eqb_eq in H; auto.
Qed.

Lemma to_usize_nonneg : forall x, 0 <= to_usize x.
Proof.
  intros x. unfold to_usize, clamp, usize_max.
  destruct x as [b| b| |b m e]; try lia.
  - destruct (trunc_Z (S754_zero b)); lia.
  - destruct b; lia.
  - destruct (trunc_Z (S754_finite b m e)); lia.
Qed.

Lemma index_value_nonneg : forall v i, index_value v = Ok i -> 0 <= i.
Proof.
  intros v i H. unfold index_value in H. destruct v; try discriminate H.
  destruct (negb (is_finite x) || negb (is_int x)); [discriminate H|].
  destruct (flt x (fzero false)); [discriminate H|].
  inversion H. apply to_usize_nonneg.
Qed.

Section Steps.
Variable P : plan.
Variable eps : f64.

Lemma bindM_ok_inv : forall A B (m : M A) (f : A -> M B) o b,
  bindM m f = (o, Ok b) ->
  exists o1 a o2, m = (o1, Ok a) /\ f a = (o2, Ok b) /\ o = o1 ++ o2.
Proof.
  intros A B [o1 [a|e|p| |]] f o b H; cbn [bindM] in H; try discriminate H.
  destruct (f a) as [o2 r] eqn:Hf. inversion H; subst. exists o1, a, o2. auto.
Qed.

Ltac bind_inv H :=
  let o1 := fresh "o" in let a := fresh "a" in let o2 := fresh "o" in
  let Hm := fresh "Hm" in let Ho := fresh "Ho" in
  apply bindM_ok_inv in H; destruct H as (o1 & a & o2 & Hm & H & Ho).

(* ---------- the construct equations (all by computation) ---------- *)
Lemma eval_indices_nil : forall n s, eval_indices P eps n [] s = OkM ([], s).
Proof. reflexivity. Qed.

Lemma eval_indices_cons : forall n e r s,
  eval_indices P eps n (e :: r) s =
  bindM (eval P eps n e s) (fun '(iv, s1) =>
  bindM (lift (index_value iv)) (fun i =>
  bindM (eval_indices P eps n r s1) (fun '(is, s2) => OkM (i :: is, s2)))).
Proof. reflexivity. Qed.

Lemma evals_nil : forall n s, evals P eps n [] s = OkM ([], s).
Proof. reflexivity. Qed.

Lemma evals_cons : forall n e r s,
  evals P eps n (e :: r) s =
  bindM (eval P eps n e s) (fun '(v, s1) =>
  bindM (evals P eps n r s1) (fun '(vs, s2) => OkM (v :: vs, s2))).
Proof. reflexivity. Qed.

Lemma mutate_with_recv : forall n o op s,
  mutate_with (eval P eps n) o op s = mutate_recv P eps n o op s.
Proof. intros. destruct o; reflexivity. Qed.

Lemma exec_setidx_S : forall n sid t e s,
  exec P eps (S n) (SSetIdx sid t e) s =
  bindM (eval P eps n e s) (fun '(v, s1) =>
    match flatten_target t [] with
    | None => ErrM TypeMis
    | Some (vn, vl, idx) =>
        bindM (eval_indices P eps n idx s1) (fun '(path, s2) => store_idx vn vl path v s2)
    end).
Proof. reflexivity. Qed.

Lemma eval_push_S : forall n o a0 rest t s,
  eval P eps (S n) (ECall (EMember o n_push) (a0 :: rest) t) s =
  bindM (eval P eps n a0 s) (fun '(v, s1) => mutate_recv P eps n o (MPush v) s1).
Proof. intros. destruct o; reflexivity. Qed.

Lemma eval_push_noarg_S : forall n o t s,
  eval P eps (S n) (ECall (EMember o n_push) [] t) s = PanicM PArgIndex.
Proof. reflexivity. Qed.

Lemma eval_pop_S : forall n o args t s,
  eval P eps (S n) (ECall (EMember o n_pop) args t) s = mutate_recv P eps n o MPop s.
Proof. intros. destruct o; reflexivity. Qed.

Lemma eval_reverse_S : forall n o args t s,
  eval P eps (S n) (ECall (EMember o n_reverse) args t) s = mutate_recv P eps n o MReverse s.
Proof. intros. destruct o; reflexivity. Qed.

Lemma exec_make_S : forall n sid vn vl e s,
  exec P eps (S n) (SMake sid vn vl e) s =
  bindM (eval P eps n e s) (fun '(v, s1) =>
    OkM (FNormal, with_env (define_env vl vn v (env s1)) s1)).
Proof. reflexivity. Qed.

Lemma exec_expr_S : forall n sid e s,
  exec P eps (S n) (SExpr sid e) s =
  bindM (eval P eps n e s) (fun '(_, s1) => OkM (FNormal, s1)).
Proof. reflexivity. Qed.

Lemma eval_var_S : forall n vn vl s,
  eval P eps (S n) (EVar vn vl) s =
  match lookup_env vl vn (env s) with
  | Some v => OkM (v, s)
  | None => PanicM PVarMissing
  end.
Proof. reflexivity. Qed.

Lemma eval_arr_S : forall n es s,
  eval P eps (S n) (EArr es) s =
  bindM (evals P eps n es s) (fun '(vs, s1) => OkM (VArr vs, s1)).
Proof. reflexivity. Qed.

(* the call of a user function: arguments are evaluated to values, each parameter gets a
   fresh slot holding its argument value in a new innermost scope, the body runs, the
   scope is dropped *)
Lemma eval_call_S : forall n fname l args target s,
  global_builtin fname = None ->
  eval P eps (S n) (ECall (EVar fname l) args target) s =
  match lookup_fn target fname (fns s) with
  | None => PanicM PFuncMissing
  | Some fd =>
      bindM (evals P eps n args s) (fun '(vs, s1) =>
        if negb (Nat.eqb (length vs) (length (f_params fd))) then PanicM PArgCount
        else if (match f_id fd with
                 | Some _ => f_llen fd <? Z.of_nat (length (f_params fd))
                 | None => false end) then PanicM PParamRange
        else
          bindM (exec_block P eps n (f_body fd)
                   (push_scope (bind_params (f_id fd) (f_lstart fd) (f_params fd) vs 0 []) s1))
                (fun '(fl, s3) =>
                   match fl with
                   | FNormal => OkM (VNull, pop_scope s3)
                   | FReturn v => OkM (v, pop_scope s3)
                   | FBreak | FNext => PanicM PBreakEscapes
                   end))
  end.
Proof. intros n fname l args target s Hg. cbn [eval]. rewrite Hg. reflexivity. Qed.

(* ---------- index evaluation ---------- *)
Lemma eval_indices_nonneg : forall n idx s o path s',
  eval_indices P eps n idx s = (o, Ok (path, s')) -> nonneg path.
Proof.
  induction idx as [|e idx IH]; intros s o path s' H;
    [rewrite eval_indices_nil in H|rewrite eval_indices_cons in H].
  - inversion H. constructor.
  - bind_inv H. destruct a as [iv s1]. bind_inv H. bind_inv H. destruct a0 as [is s2].
    inversion H; subst. apply nonneg_cons. split.
    + unfold lift in Hm0. inversion Hm0 as [[Ho' Hi]]. eapply index_value_nonneg; eauto.
    + eapply IH; eauto.
Qed.

(* ---------- the store phase ---------- *)
Lemma store_idx_ok_inv : forall vn vl path v s o fl s',
  store_idx vn vl path v s = (o, Ok (fl, s')) ->
  o = [] /\ fl = FNormal /\
  exists root root', stored vn vl s s' root root' /\ assign_path root path v = Ok root'.
Proof.
  intros vn vl path v s o fl s' H. unfold store_idx in H.
  destruct (lookup_env vl vn (env s)) as [root|] eqn:Hl; [|discriminate H].
  bind_inv H. unfold lift in Hm. inversion Hm as [[Ho' Ha]]. subst o0.
  destruct (assign_env vl vn a (env s)) as [e'|] eqn:Hae; [|discriminate H].
  inversion H; subst. refine (conj eq_refl (conj eq_refl _)).
  exists root, a. unfold stored. cbn [with_env env fns]. auto.
Qed.

Lemma store_mut_ok_inv : forall vn vl path op s o r s',
  store_mut vn vl path op s = (o, Ok (r, s')) ->
  o = [] /\
  exists root root', stored vn vl s s' root root' /\ mutate_path root path op = Ok (root', r).
Proof.
  intros vn vl path op s o r s' H. unfold store_mut in H.
  destruct (lookup_env vl vn (env s)) as [root|] eqn:Hl; [|discriminate H].
  bind_inv H. destruct a as [root' r']. unfold lift in Hm. inversion Hm as [[Ho' Ha]]. subst o0.
  destruct (assign_env vl vn root' (env s)) as [e'|] eqn:Hae; [|discriminate H].
  inversion H; subst. refine (conj eq_refl _).
  exists root, root'. unfold stored. cbn [with_env env fns]. auto.
Qed.

(* what a store does to the environment: one slot, nothing else *)
Lemma store_frame : forall vn vl s s' root root',
  stored vn vl s s' root root' ->
  lookup_env vl vn (env s') = Some root' /\
  shape (env s') = shape (env s) /\
  fns s' = fns s /\
  (forall l' n', find_pos l' n' (env s') = find_pos l' n' (env s)) /\
  (forall l' n', find_pos l' n' (env s) <> find_pos vl vn (env s) ->
                 lookup_env l' n' (env s') = lookup_env l' n' (env s)) /\
  (forall pos', find_pos vl vn (env s) <> Some pos' ->
                slot_at (env s') pos' = slot_at (env s) pos').
Proof.
  intros vn vl s s' root root' (Hl & Ha & Hf).
  destruct (assign_env_lookup _ _ _ _ _ Ha) as (Hnew & Hfp & Hoth & _).
  destruct (assign_env_frame _ _ _ _ _ Ha) as (pos & sl & Hp & _ & _ & Hslots & Hshape).
  refine (conj Hnew (conj Hshape (conj Hf (conj Hfp (conj Hoth _))))).
  intros pos' Hne. apply Hslots. intros ->. now apply Hne.
Qed.

(* ---------- SSetIdx, general: operand evaluation, then one store ---------- *)
Lemma exec_setidx_store : forall n sid t e s out fl s',
  exec P eps (S n) (SSetIdx sid t e) s = (out, Ok (fl, s')) ->
  exists v s1 o1 vn vl idx path s2 o2 root root',
    eval P eps n e s = (o1, Ok (v, s1)) /\
    flatten_target t [] = Some (vn, vl, idx) /\
    eval_indices P eps n idx s1 = (o2, Ok (path, s2)) /\
    nonneg path /\ out = o1 ++ o2 /\ fl = FNormal /\
    stored vn vl s2 s' root root' /\ assign_path root path v = Ok root'.
Proof.
  intros n sid t e s out fl s' H. rewrite exec_setidx_S in H.
  bind_inv H. destruct a as [v s1].
  destruct (flatten_target t []) as [[[vn vl] idx]|] eqn:Hft; [|discriminate H].
  bind_inv H. destruct a as [path s2].
  apply store_idx_ok_inv in H. destruct H as (-> & -> & root & root' & Hst & Hap).
  exists v, s1, o, vn, vl, idx, path, s2, o1, root, root'.
  rewrite app_nil_r in Ho0. subst o0.
  refine (conj Hm (conj eq_refl (conj Hm0 (conj _ (conj Ho (conj eq_refl (conj Hst Hap))))))).
  eapply eval_indices_nonneg; eauto.
Qed.

(* ---------- push / pop / reverse, general ---------- *)
Lemma flatten_target_var : forall vn vl acc, flatten_target (EVar vn vl) acc = Some (vn, vl, acc).
Proof. reflexivity. Qed.

Lemma mutate_recv_ok_inv : forall n o op s out r s',
  mutate_recv P eps n o op s = (out, Ok (r, s')) ->
  exists vn vl idx path s2 root root',
    flatten_target o [] = Some (vn, vl, idx) /\
    eval_indices P eps n idx s = (out, Ok (path, s2)) /\ nonneg path /\
    stored vn vl s2 s' root root' /\ mutate_path root path op = Ok (root', r).
Proof.
  intros n o op s out r s' H. destruct o; try discriminate H.
  - (* EVar *) cbn [mutate_recv] in H. apply store_mut_ok_inv in H.
    destruct H as (-> & root & root' & Hst & Hmp).
    exists n0, l, [], [], s, root, root'. rewrite eval_indices_nil.
    refine (conj eq_refl (conj eq_refl (conj _ (conj Hst Hmp)))). constructor.
  - (* EIdx *) cbn [mutate_recv] in H.
    destruct (flatten_target (EIdx o1 o2) []) as [[[vn vl] idx]|] eqn:Hft; [|discriminate H].
    bind_inv H. destruct a as [path s2]. apply store_mut_ok_inv in H.
    destruct H as (-> & root & root' & Hst & Hmp). rewrite app_nil_r in Ho. subst out.
    exists vn, vl, idx, path, s2, root, root'.
    refine (conj eq_refl (conj Hm (conj _ (conj Hst Hmp)))).
    eapply eval_indices_nonneg; eauto.
Qed.

(* a call of push / pop / reverse that returns: the argument (push only) is evaluated, then
   the index expressions of the receiver, then exactly one store happens *)
Lemma mutating_call_store : forall n o f args t s out r s',
  mem_name f array_mut_methods = true ->
  eval P eps (S n) (ECall (EMember o f) args t) s = (out, Ok (r, s')) ->
  exists op s1 o1 vn vl idx path s2 o2 root root',
    ((f = n_push /\ exists a0 rest v, args = a0 :: rest /\ op = MPush v /\
                     eval P eps n a0 s = (o1, Ok (v, s1))) \/
     (f = n_pop /\ op = MPop /\ s1 = s /\ o1 = []) \/
     (f = n_reverse /\ op = MReverse /\ s1 = s /\ o1 = [])) /\
    flatten_target o [] = Some (vn, vl, idx) /\
    eval_indices P eps n idx s1 = (o2, Ok (path, s2)) /\ nonneg path /\ out = o1 ++ o2 /\
    stored vn vl s2 s' root root' /\ mutate_path root path op = Ok (root', r).
Proof.
  intros n o f args t s out r s' Hf H.
  destruct (mut_method_cases f Hf) as [-> | [-> | ->]].
  - destruct args as [|a0 rest]; [rewrite eval_push_noarg_S in H; discriminate H|].
    rewrite eval_push_S in H. bind_inv H. destruct a as [v s1].
    apply mutate_recv_ok_inv in H.
    destruct H as (vn & vl & idx & path & s2 & root & root' & Hft & Hei & Hnn & Hst & Hmp).
    exists (MPush v), s1, o0, vn, vl, idx, path, s2, o1, root, root'.
    refine (conj _ (conj Hft (conj Hei (conj Hnn (conj Ho (conj Hst Hmp)))))).
    left. split; [reflexivity|]. exists a0, rest, v. auto.
  - rewrite eval_pop_S in H. apply mutate_recv_ok_inv in H.
    destruct H as (vn & vl & idx & path & s2 & root & root' & Hft & Hei & Hnn & Hst & Hmp).
    exists MPop, s, [], vn, vl, idx, path, s2, out, root, root'.
    refine (conj _ (conj Hft (conj Hei (conj Hnn (conj eq_refl (conj Hst Hmp)))))).
    right. left. auto.
  - rewrite eval_reverse_S in H. apply mutate_recv_ok_inv in H.
    destruct H as (vn & vl & idx & path & s2 & root & root' & Hft & Hei & Hnn & Hst & Hmp).
    exists MReverse, s, [], vn, vl, idx, path, s2, out, root, root'.
    refine (conj _ (conj Hft (conj Hei (conj Hnn (conj eq_refl (conj Hst Hmp)))))).
    right. right. auto.
Qed.

(* ---------- call-free expressions leave the state alone ---------- *)
Ltac pure_step IH :=
  match goal with
  | H : bindM _ _ = (_, Ok _) |- _ => bind_inv H
  | a : (value * st)%type |- _ => destruct a
  | H : eval P eps _ _ _ = (_, Ok (_, _)) |- _ => apply IH in H; [subst|assumption]
  | H : OkM _ = (_, Ok _) |- _ => unfold OkM in H; inversion H; clear H; subst
  | H : ErrM _ = (_, Ok _) |- _ => discriminate H
  | H : PanicM _ = (_, Ok _) |- _ => discriminate H
  | H : lift _ = (_, Ok _) |- _ => unfold lift in H
  | H : (match ?x with _ => _ end) = (_, Ok _) |- _ => destruct x; try discriminate H
  end.

Lemma eval_pure : forall n e s o v s',
  pure_expr e = true -> eval P eps n e s = (o, Ok (v, s')) -> s' = s.
Proof.
  induction n as [|n IH]; intros e s o v s' Hp H; [discriminate H|].
  assert (Hev : forall es s o vs s', forallb pure_expr es = true ->
                  evals P eps n es s = (o, Ok (vs, s')) -> s' = s).
  { induction es as [|e0 es IHes]; intros s0 o0 vs s0' Hpe He;
      [rewrite evals_nil in He|rewrite evals_cons in He].
    - now inversion He.
    - cbn [forallb] in Hpe. apply andb_true_iff in Hpe. destruct Hpe as [Hp0 Hpe].
      bind_inv He. destruct a as [v0 s1]. bind_inv He. destruct a as [vs0 s2].
      inversion He; subst. apply IH in Hm; [|exact Hp0]. subst s1.
      eapply IHes; eauto. }
  destruct e; cbn [pure_expr] in Hp; try discriminate Hp.
  - cbn [eval] in H. now inversion H.
  - cbn [eval] in H. now inversion H.
  - cbn [eval] in H. bind_inv H. now inversion H.
  - cbn [eval] in H. now inversion H.
  - cbn [eval] in H. now inversion H.
  - rewrite eval_var_S in H. destruct (lookup_env l n0 (env s)); [now inversion H|discriminate H].
  - apply andb_true_iff in Hp. destruct Hp as [Hp1 Hp2].
    destruct op; cbn [eval] in H; repeat pure_step IH; reflexivity.
  - cbn [eval] in H. repeat pure_step IH; reflexivity.
  - rewrite eval_arr_S in H. bind_inv H. destruct a as [vs s1]. inversion H; subst.
    eapply Hev; eauto.
  - apply andb_true_iff in Hp. destruct Hp as [Hp1 Hp2].
    cbn [eval] in H. repeat pure_step IH; reflexivity.
  - cbn [eval] in H. discriminate H.
Qed.

Lemma eval_indices_pure : forall n idx s o path s',
  forallb pure_expr idx = true ->
  eval_indices P eps n idx s = (o, Ok (path, s')) -> s' = s.
Proof.
  induction idx as [|e idx IH]; intros s o path s' Hp H;
    [rewrite eval_indices_nil in H|rewrite eval_indices_cons in H].
  - now inversion H.
  - cbn [forallb] in Hp. apply andb_true_iff in Hp. destruct Hp as [Hp0 Hp].
    bind_inv H. destruct a as [iv s1]. bind_inv H. bind_inv H. destruct a0 as [is s2].
    inversion H; subst. apply eval_pure in Hm; [|exact Hp0]. subst s1. eapply IH; eauto.
Qed.

Lemma flatten_pure : forall t acc vn vl idx,
  flatten_target t acc = Some (vn, vl, idx) -> pure_expr t = true ->
  forallb pure_expr acc = true -> forallb pure_expr idx = true.
Proof.
  induction t; intros acc vn vl idx H Hp Hacc; cbn [flatten_target] in H; try discriminate H.
  - inversion H; subst. exact Hacc.
  - cbn [pure_expr] in Hp. apply andb_true_iff in Hp. destruct Hp as [Hp1 Hp2].
    eapply IHt1; eauto. cbn [forallb]. now rewrite Hp2, Hacc.
Qed.

(* ---------- SSetIdx with call-free operands ---------- *)
Lemma exec_setidx_frame : forall n sid t e s out fl s',
  pure_expr t = true -> pure_expr e = true ->
  exec P eps (S n) (SSetIdx sid t e) s = (out, Ok (fl, s')) ->
  exists vn vl idx v path root root' o1 o2,
    flatten_target t [] = Some (vn, vl, idx) /\
    eval P eps n e s = (o1, Ok (v, s)) /\
    eval_indices P eps n idx s = (o2, Ok (path, s)) /\ nonneg path /\
    lookup_env vl vn (env s) = Some root /\
    assign_path root path v = Ok root' /\
    (* the base variable: exactly the addressed position is replaced *)
    lookup_env vl vn (env s') = Some root' /\
    get_path root' path = Some v /\
    (forall q, indep path q -> get_path root' q = get_path root q) /\
    (forall q, ~ prefix path q -> alen (get_path root' q) = alen (get_path root q)) /\
    (* every other variable, in every scope and activation *)
    (forall l' n', find_pos l' n' (env s) <> find_pos vl vn (env s) ->
                   lookup_env l' n' (env s') = lookup_env l' n' (env s)) /\
    shape (env s') = shape (env s) /\ fns s' = fns s /\ fl = FNormal.
Proof.
  intros n sid t e s out fl s' Hpt Hpe H.
  apply exec_setidx_store in H.
  destruct H as (v & s1 & o1 & vn & vl & idx & path & s2 & o2 & root & root' &
                 Hev & Hft & Hei & Hnn & Hout & Hfl & Hst & Hap).
  pose proof (eval_pure _ _ _ _ _ _ Hpe Hev) as Hs1. subst s1.
  assert (Hpi : forallb pure_expr idx = true) by (eapply flatten_pure; eauto).
  pose proof (eval_indices_pure _ _ _ _ _ _ Hpi Hei) as Hs2. subst s2.
  destruct (store_frame _ _ _ _ _ _ Hst) as (Hnew & Hshape & Hfns & _ & Hoth & _).
  destruct Hst as (Hl & _ & _).
  exists vn, vl, idx, v, path, root, root', o1, o2.
  refine (conj Hft (conj Hev (conj Hei (conj Hnn (conj Hl (conj Hap (conj Hnew
          (conj _ (conj _ (conj _ (conj Hoth (conj Hshape (conj Hfns Hfl))))))))))))).
  - eapply assign_path_get; eauto.
  - eapply assign_path_frame; eauto.
  - eapply assign_path_len; eauto.
Qed.

(* ---------- push / pop / reverse with call-free operands ---------- *)
Lemma mutating_call_frame : forall n o f args t s out r s',
  mem_name f array_mut_methods = true ->
  pure_expr o = true -> forallb pure_expr args = true ->
  eval P eps (S n) (ECall (EMember o f) args t) s = (out, Ok (r, s')) ->
  exists op vn vl idx path root root' o2,
    flatten_target o [] = Some (vn, vl, idx) /\
    eval_indices P eps n idx s = (o2, Ok (path, s)) /\ nonneg path /\
    ((f = n_push /\ exists a0 rest v o1, args = a0 :: rest /\ op = MPush v /\
                     eval P eps n a0 s = (o1, Ok (v, s))) \/
     (f = n_pop /\ op = MPop) \/ (f = n_reverse /\ op = MReverse)) /\
    lookup_env vl vn (env s) = Some root /\
    mutate_path root path op = Ok (root', r) /\
    (* the base variable: exactly the addressed array is replaced by the list operation *)
    lookup_env vl vn (env s') = Some root' /\
    (exists items, get_path root path = Some (VArr items) /\
       get_path root' path = Some (VArr (fst (apply_mutop op items))) /\
       r = snd (apply_mutop op items)) /\
    (forall q, indep path q -> get_path root' q = get_path root q) /\
    (forall q, ~ prefix path q -> alen (get_path root' q) = alen (get_path root q)) /\
    (* every other variable *)
    (forall l' n', find_pos l' n' (env s) <> find_pos vl vn (env s) ->
                   lookup_env l' n' (env s') = lookup_env l' n' (env s)) /\
    shape (env s') = shape (env s) /\ fns s' = fns s.
Proof.
  intros n o f args t s out r s' Hf Hpo Hpa H.
  apply mutating_call_store in H; [|exact Hf].
  destruct H as (op & s1 & o1 & vn & vl & idx & path & s2 & o2 & root & root' &
                 Hop & Hft & Hei & Hnn & Hout & Hst & Hmp).
  assert (Hs1 : s1 = s /\
     ((f = n_push /\ exists a0 rest v o1, args = a0 :: rest /\ op = MPush v /\
                     eval P eps n a0 s = (o1, Ok (v, s))) \/
      (f = n_pop /\ op = MPop) \/ (f = n_reverse /\ op = MReverse))).
  { destruct Hop as [(-> & a0 & rest & v & -> & -> & Hev) | [(-> & -> & -> & _) | (-> & -> & -> & _)]].
    - cbn [forallb] in Hpa. apply andb_true_iff in Hpa. destruct Hpa as [Hp0 _].
      pose proof (eval_pure _ _ _ _ _ _ Hp0 Hev) as ->. split; [reflexivity|].
      left. split; [reflexivity|]. exists a0, rest, v, o1. auto.
    - auto.
    - auto. }
  destruct Hs1 as [-> Hop'].
  assert (Hpi : forallb pure_expr idx = true) by (eapply flatten_pure; eauto).
  pose proof (eval_indices_pure _ _ _ _ _ _ Hpi Hei) as Hs2. subst s2.
  destruct (store_frame _ _ _ _ _ _ Hst) as (Hnew & Hshape & Hfns & _ & Hoth & _).
  destruct Hst as (Hl & _ & _).
  exists op, vn, vl, idx, path, root, root', o2.
  refine (conj Hft (conj Hei (conj Hnn (conj Hop' (conj Hl (conj Hmp (conj Hnew
          (conj _ (conj _ (conj _ (conj Hoth (conj Hshape Hfns)))))))))))).
  - eapply mutate_path_target; eauto.
  - eapply mutate_path_frame; eauto.
  - eapply mutate_path_len; eauto.
Qed.

(* ================================================================== *)
(* Part 4: copies                                                      *)
(* ================================================================== *)

(* any mutating statement with call-free operands: every variable other than its base
   variable keeps its value, whatever scope or activation it lives in *)
Lemma pure_mutation_frame : forall n t vn vl s o fl s',
  mut_base t = Some (vn, vl) ->
  exec P eps n t s = (o, Ok (fl, s')) ->
  (forall l' n', find_pos l' n' (env s) <> find_pos vl vn (env s) ->
                 lookup_env l' n' (env s') = lookup_env l' n' (env s)) /\
  shape (env s') = shape (env s) /\ fns s' = fns s /\ fl = FNormal.
Proof.
  intros n t vn vl s o fl s' Hb H. destruct n as [|n]; [discriminate H|].
  destruct t; try discriminate Hb; cbn [mut_base] in Hb.
  - (* SSetIdx *)
    destruct (pure_expr target && pure_expr e) eqn:Hp; [|discriminate Hb].
    apply andb_true_iff in Hp. destruct Hp as [Hpt Hpe].
    apply exec_setidx_frame in H; [|exact Hpt|exact Hpe].
    destruct H as (vn' & vl' & idx & v & path & root & root' & o1 & o2 & Hft & _ & _ & _ & _ & _ &
                   _ & _ & _ & _ & Hoth & Hshape & Hfns & Hfl).
    unfold target_var in Hb. rewrite Hft in Hb. inversion Hb; subst. auto.
  - (* SExpr (ECall (EMember o f) args _) *)
    destruct e; try discriminate Hb. destruct e; try discriminate Hb.
    destruct (mem_name f array_mut_methods && pure_expr e && forallb pure_expr args) eqn:Hp;
      [|discriminate Hb].
    apply andb_true_iff in Hp. destruct Hp as [Hp Hpa].
    apply andb_true_iff in Hp. destruct Hp as [Hf Hpo].
    rewrite exec_expr_S in H. bind_inv H. destruct a as [r s1]. inversion H; subst.
    destruct n as [|n]; [discriminate Hm|].
    apply mutating_call_frame in Hm; [|exact Hf|exact Hpo|exact Hpa].
    destruct Hm as (op & vn' & vl' & idx & path & root & root' & o2 & Hft & _ & _ & _ & _ & _ &
                    _ & _ & _ & _ & Hoth & Hshape & Hfns).
    unfold target_var in Hb. rewrite Hft in Hb. inversion Hb; subst. auto.
Qed.

(* a whole history of such mutations through other variables *)
Lemma steps_frame : forall s ts s' lb b,
  steps P eps s ts s' ->
  (forall t, In t ts -> exists vn vl, mut_base t = Some (vn, vl) /\
                          find_pos vl vn (env s) <> find_pos lb b (env s)) ->
  lookup_env lb b (env s') = lookup_env lb b (env s) /\ shape (env s') = shape (env s).
Proof.
  intros s ts s' lb b Hst. induction Hst as [s|n t ts s o s1 s2 Hex Hst IH]; intros Hall; [auto|].
  destruct (Hall t (or_introl eq_refl)) as (vn & vl & Hb & Hne).
  destruct (pure_mutation_frame _ _ _ _ _ _ _ _ Hb Hex) as (Hoth & Hshape & _ & _).
  destruct IH as [IHl IHs].
  - intros t' Hin. destruct (Hall t' (or_intror Hin)) as (vn' & vl' & Hb' & Hne').
    exists vn', vl'. split; [exact Hb'|].
    now rewrite !(find_pos_shape _ _ _ _ Hshape).
  - rewrite IHl, IHs. split; [|exact Hshape]. apply Hoth. intros Hc. apply Hne. now rewrite Hc.
Qed.

(* `make b get a`: b is bound to a's value, a keeps it, and from then on mutations through
   one of the two are invisible through the other *)
Lemma copy_is_value : forall n sid b lb a la s o fl s1,
  exec P eps (S n) (SMake sid b lb (EVar a la)) s = (o, Ok (fl, s1)) ->
  exists va,
    lookup_env la a (env s) = Some va /\
    lookup_env lb b (env s1) = Some va /\
    (find_pos la a (env s1) <> find_pos lb b (env s1) ->
       lookup_env la a (env s1) = Some va /\
       (* histories of call-free mutations through a (or through anything but b) ... *)
       (forall ts s2, steps P eps s1 ts s2 ->
          (forall t, In t ts -> exists vn vl, mut_base t = Some (vn, vl) /\
                                find_pos vl vn (env s1) <> find_pos lb b (env s1)) ->
          lookup_env lb b (env s2) = Some va) /\
       (* ... and through b (or through anything but a) *)
       (forall ts s2, steps P eps s1 ts s2 ->
          (forall t, In t ts -> exists vn vl, mut_base t = Some (vn, vl) /\
                                find_pos vl vn (env s1) <> find_pos la a (env s1)) ->
          lookup_env la a (env s2) = Some va)).
Proof.
  intros n sid b lb a la s o fl s1 H. rewrite exec_make_S in H.
  destruct n as [|n]; [discriminate H|].
  bind_inv H. destruct a0 as [v s0]. rewrite eval_var_S in Hm.
  destruct (lookup_env la a (env s)) as [va|] eqn:Hla; [|discriminate Hm].
  inversion Hm; subst. inversion H; subst. cbn [with_env env].
  exists v. split; [reflexivity|].
  destruct (env s0) as [|sc r] eqn:He.
  - cbn [lookup_env] in Hla. discriminate Hla.
  - destruct (define_env_frame lb b v sc r) as (Hnew & _ & Hoth).
    split; [exact Hnew|]. intros Hne.
    assert (Hlav : lookup_env la a (define_env lb b v (sc :: r)) = Some v)
      by (rewrite Hoth by exact Hne; exact Hla).
    refine (conj Hlav (conj _ _)); intros ts s2 Hst Hall.
    + destruct (steps_frame _ _ _ lb b Hst) as [Hl _]; [exact Hall|].
      cbn [with_env env] in Hl. now rewrite Hl.
    + destruct (steps_frame _ _ _ la a Hst) as [Hl _]; [exact Hall|].
      cbn [with_env env] in Hl. now rewrite Hl.
Qed.

(* `b get a` (assignment to an existing variable): b's slot, and only it, receives a's value *)
Lemma exec_set_S : forall n sid vn vl e s,
  exec P eps (S n) (SSet sid vn vl e) s =
  bindM (eval P eps n e s) (fun '(v, s1) =>
    match assign_env vl vn v (env s1) with
    | Some e' => OkM (FNormal, with_env e' s1)
    | None => PanicM PAssignMissing
    end).
Proof. reflexivity. Qed.

Lemma assign_var_is_value : forall n sid b lb a la s o fl s1,
  exec P eps (S n) (SSet sid b lb (EVar a la)) s = (o, Ok (fl, s1)) ->
  exists va,
    lookup_env la a (env s) = Some va /\ lookup_env lb b (env s1) = Some va /\ (forall l' n', find_pos l' n' (env s) <> find_pos lb b (env s) ->
                   lookup_env l' n' (env s1) = lookup_env l' n' (env s)) /\ shape (env s1) = shape (env s) /\ fns s1 = fns s.
Proof.
  intros n sid b lb a la s o fl s1 H. rewrite exec_set_S in H.
  destruct n as [|n]; [discriminate H|].
  bind_inv H. destruct a0 as [v s0]. rewrite eval_var_S in Hm.
  destruct (lookup_env la a (env s)) as [va|] eqn:Hla; [|discriminate Hm].
  inversion Hm; subst.
  destruct (assign_env lb b v (env s0)) as [e'|] eqn:Ha; [|discriminate H].
  inversion H; subst. cbn [with_env env fns].
  destruct (assign_env_lookup _ _ _ _ _ Ha) as (Hnew & _ & Hoth & _).
  destruct (assign_env_frame _ _ _ _ _ Ha) as (_ & _ & _ & _ & _ & _ & Hshape).
  exists v. auto.
Qed.

(* storing a variable into an array literal, passing it, returning it: the value itself
   is what travels; the source variable is not touched *)
Lemma read_var_is_value : forall n a la s o v s',
  eval P eps (S n) (EVar a la) s = (o, Ok (v, s')) ->
  lookup_env la a (env s) = Some v /\ s' = s /\ o = [].
Proof.
  intros n a la s o v s' H. rewrite eval_var_S in H.
  destruct (lookup_env la a (env s)); [|discriminate H]. now inversion H.
Qed.

Lemma array_literal_holds_values : forall n es s o v s',
  forallb pure_expr es = true ->
  eval P eps (S n) (EArr es) s = (o, Ok (v, s')) ->
  s' = s /\ exists vs o', v = VArr vs /\ evals P eps n es s = (o', Ok (vs, s)).
Proof.
  intros n es s o v s' Hp H. pose proof H as H0.
  apply eval_pure in H0; [|exact Hp]. subst s'. split; [reflexivity|].
  rewrite eval_arr_S in H. bind_inv H. destruct a as [vs s1]. inversion H; subst.
  exists vs, o0. auto.
Qed.


(* ---------- call by value: arguments are evaluated strictly left to right ---------- *)
(* Every argument is evaluated in the state left by the arguments before it, and its value is
   fixed at that point: what a later argument does (e.g. a call that mutates the variable an
   earlier argument named) cannot reach it, and what an earlier argument did is seen by it.
   This is Lang.evals_with threading the state through the list; stated here for any position. *)
Lemma evals_cons_inv : forall n e r s o vs s',
  evals P eps n (e :: r) s = (o, Ok (vs, s')) ->
  exists o1 v s1 o2 vs', eval P eps n e s = (o1, Ok (v, s1)) /\
    evals P eps n r s1 = (o2, Ok (vs', s')) /\ vs = v :: vs' /\ o = o1 ++ o2.
Proof.
  intros n e r s o vs s' H. rewrite evals_cons in H.
  bind_inv H. destruct a as [v s1]. bind_inv H. destruct a as [vs' s2].
  unfold OkM in H. inversion H; subst. rewrite app_nil_r. exists o0, v, s1, o2, vs'. auto.
Qed.

Lemma args_left_to_right : forall n pre e post s o vs s',
  evals P eps n (pre ++ e :: post) s = (o, Ok (vs, s')) ->
  exists o1 vpre sk o2 v sk1 o3 vpost,
    evals P eps n pre s = (o1, Ok (vpre, sk)) /\
    eval P eps n e sk = (o2, Ok (v, sk1)) /\
    evals P eps n post sk1 = (o3, Ok (vpost, s')) /\
    vs = vpre ++ v :: vpost /\ length vpre = length pre /\ o = o1 ++ o2 ++ o3.
Proof.
  induction pre as [|e0 pre IH]; intros e post s o vs s' H; cbn [app] in H.
  - apply evals_cons_inv in H. destruct H as (o1 & v & s1 & o2 & vs' & He & Hr & -> & ->).
    exists [], [], s, o1, v, s1, o2, vs'. rewrite evals_nil. cbn [app length].
    refine (conj eq_refl (conj He (conj Hr (conj eq_refl (conj eq_refl eq_refl))))).
  - apply evals_cons_inv in H. destruct H as (o1 & v0 & s1 & o2 & vs' & He0 & Hr & -> & ->).
    apply IH in Hr.
    destruct Hr as (p1 & vpre & sk & p2 & v & sk1 & p3 & vpost & Hpre & He & Hpost & -> & Hlen & ->).
    exists (o1 ++ p1), (v0 :: vpre), sk, p2, v, sk1, p3, vpost.
    rewrite evals_cons, He0. cbn [bindM]. rewrite Hpre. cbn [bindM OkM app length].
    rewrite app_nil_r, Hlen, <- app_assoc.
    refine (conj eq_refl (conj He (conj Hpost (conj eq_refl (conj eq_refl eq_refl))))).
Qed.

(* an argument that is a plain variable: the parameter gets the variable's value as it is after
   the earlier arguments and before the later ones were evaluated *)
Lemma arg_var_snapshot : forall n pre a la post s o vs s',
  evals P eps (S n) (pre ++ EVar a la :: post) s = (o, Ok (vs, s')) ->
  exists o1 vpre sk va,
    evals P eps (S n) pre s = (o1, Ok (vpre, sk)) /\
    lookup_env la a (env sk) = Some va /\
    nth_error vs (length pre) = Some va.
Proof.
  intros n pre a la post s o vs s' H. apply args_left_to_right in H.
  destruct H as (o1 & vpre & sk & o2 & v & sk1 & o3 & vpost & Hpre & He & _ & -> & Hlen & _).
  rewrite eval_var_S in He. destruct (lookup_env la a (env sk)) as [va|] eqn:Hl; [|discriminate He].
  assert (Hv : va = v) by (inversion He; reflexivity). subst va.
  exists o1, vpre, sk, v. refine (conj Hpre (conj Hl _)).
  rewrite <- Hlen, nth_error_app2 by lia. now rewrite Nat.sub_diag.
Qed.

(* parameters are bound positionally: the i-th parameter name gets the i-th argument value *)
Lemma bind_params_pairs : forall fid ls ps vs k acc,
  map (fun sl => (s_name sl, s_val sl)) (bind_params fid ls ps vs k acc) =
  rev (combine ps vs) ++ map (fun sl => (s_name sl, s_val sl)) acc.
Proof.
  induction ps as [|p ps IH]; intros vs k acc; [reflexivity|].
  destruct vs as [|v vs]; [reflexivity|].
  cbn [bind_params combine rev]. rewrite IH. cbn [map s_name s_val]. now rewrite <- app_assoc.
Qed.

End Steps.

(* ================================================================== *)
(* Combined statements (used by Properties/C05.v)                      *)
(* ================================================================== *)

Lemma assign_path_spec : forall p v nv v',
  nonneg p -> assign_path v p nv = Ok v' ->
  get_path v' p = Some nv /\
  (forall q, indep p q -> get_path v' q = get_path v q) /\
  (forall q, ~ prefix p q -> alen (get_path v' q) = alen (get_path v q)).
Proof.
  intros p v nv v' Hnn H. refine (conj _ (conj _ _)).
  - eapply assign_path_get; eauto.
  - eapply assign_path_frame; eauto.
  - eapply assign_path_len; eauto.
Qed.

Lemma assign_path_errors : forall p v nv,
  nonneg p ->
  (forall e, assign_path v p nv = Err e <-> fault_at v p e) /\
  ((exists v', assign_path v p nv = Ok v') <-> (p <> [] /\ forall e, ~ fault_at v p e)) /\
  ((exists v', assign_path v p nv = Ok v') \/ assign_path v p nv = Err InvIdx \/
   assign_path v p nv = Err IdxOob \/ (p = [] /\ assign_path v p nv = Panic PIdxAssignEnd)).
Proof.
  intros p v nv Hnn. refine (conj _ (conj _ _)).
  - intros e. now apply assign_path_err_iff.
  - now apply assign_path_ok_iff.
  - apply assign_path_total.
Qed.

Lemma mutate_path_spec : forall p v op v' r,
  nonneg p -> mutate_path v p op = Ok (v', r) ->
  (exists items, get_path v p = Some (VArr items) /\
     get_path v' p = Some (VArr (fst (apply_mutop op items))) /\
     r = snd (apply_mutop op items)) /\
  (forall q, indep p q -> get_path v' q = get_path v q) /\
  (forall q, ~ prefix p q -> alen (get_path v' q) = alen (get_path v q)).
Proof.
  intros p v op v' r Hnn H. refine (conj _ (conj _ _)).
  - eapply mutate_path_target; eauto.
  - eapply mutate_path_frame; eauto.
  - eapply mutate_path_len; eauto.
Qed.

Lemma mutate_path_errors : forall p v op,
  nonneg p ->
  (forall e, mutate_path v p op = Err e ->
     fault_at v p e \/ (e = TypeMis /\ exists x, get_path v p = Some x /\
                                         match x with VArr _ => False | _ => True end)) /\
  ((exists v' r, mutate_path v p op = Ok (v', r)) \/
   (exists e, mutate_path v p op = Err e /\ (e = InvIdx \/ e = IdxOob \/ e = TypeMis))).
Proof.
  intros p v op Hnn. split.
  - intros e. now apply mutate_path_err_fault.
  - apply mutate_path_total.
Qed.

Lemma list_ops_spec :
  (forall x items, apply_mutop (MPush x) items = (items ++ [x], VNull)) /\
  apply_mutop MPop [] = ([], VNull) /\
  (forall items x, apply_mutop MPop (items ++ [x]) = (items, x)) /\
  (forall items, apply_mutop MReverse items = (rev items, VNull)).
Proof.
  refine (conj apply_push (conj apply_pop_empty (conj apply_pop_snoc apply_reverse))).
Qed.

Lemma index_values_nonneg : forall P eps n idx s o path s',
  eval_indices P eps n idx s = (o, Ok (path, s')) -> nonneg path.
Proof. exact eval_indices_nonneg. Qed.
