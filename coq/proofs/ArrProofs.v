(* ArrProofs — proofs for C05 ("arrays are values") over Lang.v / ArrSpec.v.

   Part 1  paths:   assign_path / mutate_path change exactly the addressed position
   Part 2  slots:   assign_env / define_env change exactly one variable slot
   Part 3  steps:   SSetIdx and push/pop/reverse calls = operand evaluation, then one store
   Part 4  copies:  a copied array is independent of its source, over whole histories *)
From Coq Require Import ZArith List Bool Lia SpecFloat.
Require Import NS.theories.F64 NS.theories.Lang NS.theories.ArrSpec.
Import ListNotations.
Open Scope Z_scope.

(* ================================================================== *)
(* Part 1: paths                                                       *)
(* ================================================================== *)

Lemma nth_value_lt : forall vs i, (i < length vs)%nat -> exists v, nth_value vs i = Some v.
Proof.
  induction vs as [|x vs IH]; intros i Hi; cbn [length] in Hi; [lia|].
  destruct i as [|i]; cbn [nth_value]; [eauto|]. apply IH. lia.
Qed.

Lemma nth_value_some_lt : forall vs i v, nth_value vs i = Some v -> (i < length vs)%nat.
Proof.
  induction vs as [|x vs IH]; intros i v H; destruct i; cbn [nth_value length] in *;
    try discriminate; [lia|]. apply IH in H. lia.
Qed.

Lemma set_nth_length : forall vs i v, length (set_nth vs i v) = length vs.
Proof.
  induction vs as [|x vs IH]; intros i v; destruct i; cbn [set_nth length]; auto.
Qed.

Lemma nth_set_nth_same : forall vs i v,
  (i < length vs)%nat -> nth_value (set_nth vs i v) i = Some v.
Proof.
  induction vs as [|x vs IH]; intros i v Hi; cbn [length] in Hi; [lia|].
  destruct i; cbn [set_nth nth_value]; [reflexivity|]. apply IH. lia.
Qed.

Lemma nth_set_nth_other : forall vs i j v,
  i <> j -> nth_value (set_nth vs i v) j = nth_value vs j.
Proof.
  induction vs as [|x vs IH]; intros i j v Hij; destruct i, j; cbn [set_nth nth_value];
    try reflexivity; try congruence. apply IH. congruence.
Qed.

Lemma len_z_set_nth : forall vs i v, len_z (set_nth vs i v) = len_z vs.
Proof. intros. unfold len_z. now rewrite set_nth_length. Qed.

Lemma nth_z_some_bounds : forall items i x, nth_z items i = Some x -> 0 <= i < len_z items.
Proof.
  unfold nth_z, len_z. intros items i x H.
  destruct (i <? 0) eqn:Hneg; [discriminate|]. apply Z.ltb_ge in Hneg.
  apply nth_value_some_lt in H. lia.
Qed.

Lemma nth_z_in_bounds : forall items i, 0 <= i < len_z items -> exists x, nth_z items i = Some x.
Proof.
  unfold nth_z, len_z. intros items i [H0 H1].
  destruct (i <? 0) eqn:Hneg; [apply Z.ltb_lt in Hneg; lia|].
  apply nth_value_lt. lia.
Qed.

Lemma nth_z_nonneg : forall items i, 0 <= i -> nth_z items i = nth_value items (Z.to_nat i).
Proof.
  unfold nth_z. intros items i H. destruct (i <? 0) eqn:Hneg; [apply Z.ltb_lt in Hneg; lia|reflexivity].
Qed.

Lemma nth_z_set_same : forall items i x,
  0 <= i < len_z items -> nth_z (set_nth items (Z.to_nat i) x) i = Some x.
Proof.
  intros items i x [H0 H1]. rewrite nth_z_nonneg by lia.
  apply nth_set_nth_same. unfold len_z in H1. lia.
Qed.

Lemma nth_z_set_other : forall items i j x,
  0 <= i -> i <> j -> nth_z (set_nth items (Z.to_nat i) x) j = nth_z items j.
Proof.
  intros items i j x H0 Hij. unfold nth_z. destruct (j <? 0) eqn:Hneg; [reflexivity|].
  apply Z.ltb_ge in Hneg. apply nth_set_nth_other. lia.
Qed.

Lemma get_path_app : forall p q v,
  get_path v (p ++ q) = match get_path v p with Some x => get_path x q | None => None end.
Proof.
  induction p as [|i p IH]; intros q v; cbn [app get_path]; [reflexivity|].
  destruct v; try reflexivity. destruct (nth_z vs i); [apply IH|reflexivity].
Qed.

Lemma prefix_nil : forall q, prefix [] q.
Proof. intros q. exists q. reflexivity. Qed.

Lemma prefix_cons : forall i p q, prefix (i :: p) (i :: q) <-> prefix p q.
Proof.
  intros i p q. split; intros [r Hr].
  - exists r. cbn [app] in Hr. now inversion Hr.
  - exists r. cbn [app]. now rewrite Hr.
Qed.

Lemma prefix_cons_neq : forall i j p q, i <> j -> ~ prefix (i :: p) (j :: q).
Proof. intros i j p q Hij [r Hr]. cbn [app] in Hr. inversion Hr. congruence. Qed.

Lemma prefix_refl : forall p, prefix p p.
Proof. intros p. exists []. now rewrite app_nil_r. Qed.

(* unfolding of one step of assign_path on an array *)
Lemma assign_path_cons : forall items i rest nv,
  assign_path (VArr items) (i :: rest) nv =
  if len_z items <=? i then Err IdxOob
  else match rest with
       | [] => Ok (VArr (set_nth items (Z.to_nat i) nv))
       | _ => match nth_value items (Z.to_nat i) with
              | Some sub => bind (assign_path sub rest nv)
                                 (fun sub' => Ok (VArr (set_nth items (Z.to_nat i) sub')))
              | None => Err IdxOob
              end
       end.
Proof. intros. destruct rest; reflexivity. Qed.

(* inversion of a successful assign_path step *)
Lemma assign_path_ok_inv : forall v i rest nv v',
  0 <= i -> assign_path v (i :: rest) nv = Ok v' ->
  exists items, v = VArr items /\ i < len_z items /\
    ((rest = [] /\ v' = VArr (set_nth items (Z.to_nat i) nv)) \/
     (rest <> [] /\ exists sub sub', nth_z items i = Some sub /\
        assign_path sub rest nv = Ok sub' /\ v' = VArr (set_nth items (Z.to_nat i) sub'))).
Proof.
  intros v i rest nv v' H0 H. destruct v as [| | | |items]; try discriminate H.
  rewrite assign_path_cons in H. exists items. split; [reflexivity|].
  destruct (len_z items <=? i) eqn:Hle; [discriminate|]. apply Z.leb_gt in Hle.
  split; [exact Hle|].
  destruct rest as [|j rest'].
  - left. split; [reflexivity|]. now inversion H.
  - right. split; [discriminate|].
    destruct (nth_value items (Z.to_nat i)) as [sub|] eqn:Hn; [|discriminate].
    destruct (assign_path sub (j :: rest') nv) as [sub'| | | |] eqn:Hs; try discriminate H.
    cbn [bind] in H. inversion H. exists sub, sub'.
    rewrite nth_z_nonneg by lia. auto.
Qed.

Lemma nonneg_cons : forall i p, nonneg (i :: p) <-> 0 <= i /\ nonneg p.
Proof.
  intros i p. unfold nonneg. split; intros H.
  - inversion H; auto.
  - constructor; tauto.
Qed.

(* the written position reads back the new value *)
Lemma assign_path_get : forall p v nv v',
  nonneg p -> assign_path v p nv = Ok v' -> get_path v' p = Some nv.
Proof.
  induction p as [|i rest IH]; intros v nv v' Hnn H; [discriminate H|].
  apply nonneg_cons in Hnn. destruct Hnn as [H0 Hnn].
  apply assign_path_ok_inv in H; [|exact H0].
  destruct H as (items & -> & Hlt & [[-> ->] | (Hne & sub & sub' & Hn & Hs & ->)]).
  - cbn [get_path]. now rewrite nth_z_set_same by lia.
  - cbn [get_path]. rewrite nth_z_set_same by lia. eapply IH; eauto.
Qed.

(* every position that is neither below nor above the written one is unchanged *)
Lemma assign_path_frame : forall p v nv v',
  nonneg p -> assign_path v p nv = Ok v' ->
  forall q, indep p q -> get_path v' q = get_path v q.
Proof.
  induction p as [|i rest IH]; intros v nv v' Hnn H q [Hpq Hqp]; [discriminate H|].
  apply nonneg_cons in Hnn. destruct Hnn as [H0 Hnn].
  apply assign_path_ok_inv in H; [|exact H0].
  destruct q as [|j qr]; [exfalso; apply Hqp, prefix_nil|].
  destruct H as (items & -> & Hlt & Hcase).
  destruct (Z.eq_dec i j) as [<-|Hij].
  - destruct Hcase as [[-> ->] | (Hne & sub & sub' & Hn & Hs & ->)].
    + exfalso. apply Hpq. apply prefix_cons, prefix_nil.
    + cbn [get_path]. rewrite nth_z_set_same by lia. rewrite Hn.
      eapply IH; eauto. split; intros Hc; [apply Hpq|apply Hqp]; now apply prefix_cons.
  - assert (Hset : forall x, get_path (VArr (set_nth items (Z.to_nat i) x)) (j :: qr)
                             = get_path (VArr items) (j :: qr)).
    { intros x. cbn [get_path]. now rewrite nth_z_set_other by assumption. }
    destruct Hcase as [[_ ->] | (_ & sub & sub' & _ & _ & ->)]; apply Hset.
Qed.

(* no array changes its length, except what is stored at (or below) the written position *)
Lemma assign_path_len : forall p v nv v',
  nonneg p -> assign_path v p nv = Ok v' ->
  forall q, ~ prefix p q -> alen (get_path v' q) = alen (get_path v q).
Proof.
  induction p as [|i rest IH]; intros v nv v' Hnn H q Hpq; [discriminate H|].
  apply nonneg_cons in Hnn. destruct Hnn as [H0 Hnn].
  apply assign_path_ok_inv in H; [|exact H0].
  destruct H as (items & -> & Hlt & Hcase).
  destruct q as [|j qr].
  - destruct Hcase as [[_ ->] | (_ & sub & sub' & _ & _ & ->)];
      cbn [get_path alen]; now rewrite set_nth_length.
  - destruct (Z.eq_dec i j) as [<-|Hij].
    + destruct Hcase as [[-> ->] | (Hne & sub & sub' & Hn & Hs & ->)].
      * exfalso. apply Hpq. apply prefix_cons, prefix_nil.
      * cbn [get_path]. rewrite nth_z_set_same by lia. rewrite Hn.
        eapply IH; eauto. intros Hc. apply Hpq. now apply prefix_cons.
    + assert (Hset : forall x, get_path (VArr (set_nth items (Z.to_nat i) x)) (j :: qr)
                               = get_path (VArr items) (j :: qr)).
      { intros x. cbn [get_path]. now rewrite nth_z_set_other by assumption. }
      destruct Hcase as [[_ ->] | (_ & sub & sub' & _ & _ & ->)]; now rewrite Hset.
Qed.

(* the error cases, exactly *)
Lemma assign_path_err_fault : forall p v nv e,
  nonneg p -> assign_path v p nv = Err e -> fault_at v p e.
Proof.
  induction p as [|i rest IH]; intros v nv e Hnn H; [discriminate H|].
  apply nonneg_cons in Hnn. destruct Hnn as [H0 Hnn].
  destruct v as [x|x|x| |items];
    try (inversion H; subst e; exists [], i, rest; eexists; cbn [app get_path];
         split; [reflexivity|split; [reflexivity|reflexivity]]).
  rewrite assign_path_cons in H.
  destruct (len_z items <=? i) eqn:Hle.
  - inversion H; subst e. apply Z.leb_le in Hle.
    exists [], i, rest, (VArr items). cbn [app get_path]. auto.
  - apply Z.leb_gt in Hle. destruct rest as [|j rest']; [discriminate H|].
    destruct (nth_z_in_bounds items i) as [sub Hsub]; [lia|].
    rewrite nth_z_nonneg in Hsub by lia. rewrite Hsub in H.
    destruct (assign_path sub (j :: rest') nv) as [sub'|e'| | |] eqn:Hs; try discriminate H.
    cbn [bind] in H. inversion H; subst e'.
    apply IH in Hs; [|exact Hnn].
    destruct Hs as (q & i' & r & x & Hp & Hg & Hx).
    exists (i :: q), i', r, x. split; [cbn [app]; now rewrite Hp|]. split; [|exact Hx].
    cbn [get_path]. rewrite nth_z_nonneg by lia. now rewrite Hsub.
Qed.

Lemma fault_assign_path_err : forall q v p nv e i r x,
  p = q ++ i :: r -> get_path v q = Some x ->
  match x with VArr items => e = IdxOob /\ len_z items <= i | _ => e = InvIdx end ->
  assign_path v p nv = Err e.
Proof.
  induction q as [|j q IH]; intros v p nv e i r x Hp Hg Hx; subst p; cbn [app].
  - cbn [get_path] in Hg. inversion Hg; subst x.
    destruct v as [a|a|a| |items]; try (subst e; reflexivity).
    destruct Hx as [-> Hle]. rewrite assign_path_cons.
    apply Z.leb_le in Hle. now rewrite Hle.
  - cbn [get_path] in Hg. destruct v as [a|a|a| |items]; try discriminate Hg.
    destruct (nth_z items j) as [sub|] eqn:Hn; [|discriminate Hg].
    pose proof (nth_z_some_bounds _ _ _ Hn) as [Hj0 Hj1].
    rewrite assign_path_cons. apply Z.leb_gt in Hj1. rewrite Hj1.
    rewrite nth_z_nonneg in Hn by lia. rewrite Hn.
    destruct (q ++ i :: r) as [|a rest] eqn:Hrest; [destruct q; discriminate Hrest|].
    rewrite <- Hrest. erewrite IH; eauto. reflexivity.
Qed.

Lemma assign_path_err_iff : forall p v nv e,
  nonneg p -> (assign_path v p nv = Err e <-> fault_at v p e).
Proof.
  intros p v nv e Hnn. split.
  - now apply assign_path_err_fault.
  - intros (q & i & r & x & Hp & Hg & Hx). eapply fault_assign_path_err; eauto.
Qed.

(* assign_path never runs out of fuel, never is unsupported, and its only panic is the
   empty index chain, which flatten_target never produces for an index assignment *)
Lemma assign_path_total : forall p v nv,
  (exists v', assign_path v p nv = Ok v') \/ assign_path v p nv = Err InvIdx \/
  assign_path v p nv = Err IdxOob \/ (p = [] /\ assign_path v p nv = Panic PIdxAssignEnd).
Proof.
  induction p as [|i rest IH]; intros v nv; [right; right; right; auto|].
  destruct v as [a|a|a| |items]; try (right; left; reflexivity).
  rewrite assign_path_cons. destruct (len_z items <=? i); [right; right; left; reflexivity|].
  destruct rest as [|j rest']; [left; eauto|].
  destruct (nth_value items (Z.to_nat i)) as [sub|]; [|right; right; left; reflexivity].
  destruct (IH sub nv) as [[v' ->] | [-> | [-> | [Hnil _]]]]; cbn [bind]; eauto.
  discriminate Hnil.
Qed.

Lemma assign_path_ok_iff : forall p v nv,
  nonneg p ->
  ((exists v', assign_path v p nv = Ok v') <-> (p <> [] /\ forall e, ~ fault_at v p e)).
Proof.
  intros p v nv Hnn. split.
  - intros [v' H]. split; [intros ->; discriminate H|].
    intros e Hf. apply (assign_path_err_iff p v nv e Hnn) in Hf. congruence.
  - intros [Hne Hnf].
    destruct (assign_path_total p v nv) as [Hok | [He | [He | [Hnil _]]]];
      [exact Hok| | |congruence];
      apply (assign_path_err_iff p v nv _ Hnn) in He; exfalso; eapply Hnf; eauto.
Qed.

(* ---------- push / pop / reverse at a path ---------- *)
Lemma mutate_path_cons : forall items i rest op,
  mutate_path (VArr items) (i :: rest) op =
  if len_z items <=? i then Err IdxOob
  else match nth_value items (Z.to_nat i) with
       | Some sub => bind (mutate_path sub rest op)
                          (fun '(sub', r) => Ok (VArr (set_nth items (Z.to_nat i) sub'), r))
       | None => Err IdxOob
       end.
Proof. reflexivity. Qed.

Lemma mutate_path_ok_inv : forall v i rest op v' r,
  0 <= i -> mutate_path v (i :: rest) op = Ok (v', r) ->
  exists items sub sub', v = VArr items /\ i < len_z items /\ nth_z items i = Some sub /\
    mutate_path sub rest op = Ok (sub', r) /\ v' = VArr (set_nth items (Z.to_nat i) sub').
Proof.
  intros v i rest op v' r H0 H. destruct v as [| | | |items]; try discriminate H.
  rewrite mutate_path_cons in H.
  destruct (len_z items <=? i) eqn:Hle; [discriminate|]. apply Z.leb_gt in Hle.
  destruct (nth_value items (Z.to_nat i)) as [sub|] eqn:Hn; [|discriminate].
  destruct (mutate_path sub rest op) as [[sub' r']| | | |] eqn:Hs; try discriminate H.
  cbn [bind] in H. inversion H; subst. exists items, sub, sub'.
  rewrite nth_z_nonneg by lia. auto.
Qed.

(* the addressed sub-array, and only it, is replaced by the result of the list operation *)
Lemma mutate_path_target : forall p v op v' r,
  nonneg p -> mutate_path v p op = Ok (v', r) ->
  exists items, get_path v p = Some (VArr items) /\
    get_path v' p = Some (VArr (fst (apply_mutop op items))) /\ r = snd (apply_mutop op items).
Proof.
  induction p as [|i rest IH]; intros v op v' r Hnn H.
  - cbn [mutate_path] in H. destruct v as [| | | |items]; try discriminate H.
    destruct (apply_mutop op items) as [items' r'] eqn:Ha. inversion H; subst.
    exists items. cbn [get_path]. rewrite Ha. cbn [fst snd]. auto.
  - apply nonneg_cons in Hnn. destruct Hnn as [H0 Hnn].
    apply mutate_path_ok_inv in H; [|exact H0].
    destruct H as (items & sub & sub' & -> & Hlt & Hn & Hs & ->).
    destruct (IH _ _ _ _ Hnn Hs) as (its & Hg & Hg' & Hr).
    exists its. cbn [get_path]. rewrite Hn, nth_z_set_same by lia. auto.
Qed.

Lemma mutate_path_frame : forall p v op v' r,
  nonneg p -> mutate_path v p op = Ok (v', r) ->
  forall q, indep p q -> get_path v' q = get_path v q.
Proof.
  induction p as [|i rest IH]; intros v op v' r Hnn H q [Hpq Hqp].
  - exfalso. apply Hpq, prefix_nil.
  - apply nonneg_cons in Hnn. destruct Hnn as [H0 Hnn].
    apply mutate_path_ok_inv in H; [|exact H0].
    destruct H as (items & sub & sub' & -> & Hlt & Hn & Hs & ->).
    destruct q as [|j qr]; [exfalso; apply Hqp, prefix_nil|].
    destruct (Z.eq_dec i j) as [<-|Hij].
    + cbn [get_path]. rewrite nth_z_set_same by lia. rewrite Hn.
      eapply IH; eauto. split; intros Hc; [apply Hpq|apply Hqp]; now apply prefix_cons.
    + cbn [get_path]. now rewrite nth_z_set_other by assumption.
Qed.

(* arrays strictly above the addressed one keep their length *)
Lemma mutate_path_len : forall p v op v' r,
  nonneg p -> mutate_path v p op = Ok (v', r) ->
  forall q, ~ prefix p q -> alen (get_path v' q) = alen (get_path v q).
Proof.
  induction p as [|i rest IH]; intros v op v' r Hnn H q Hpq.
  - exfalso. apply Hpq, prefix_nil.
  - apply nonneg_cons in Hnn. destruct Hnn as [H0 Hnn].
    apply mutate_path_ok_inv in H; [|exact H0].
    destruct H as (items & sub & sub' & -> & Hlt & Hn & Hs & ->).
    destruct q as [|j qr]; [cbn [get_path alen]; now rewrite set_nth_length|].
    destruct (Z.eq_dec i j) as [<-|Hij].
    + cbn [get_path]. rewrite nth_z_set_same by lia. rewrite Hn.
      eapply IH; eauto. intros Hc. apply Hpq. now apply prefix_cons.
    + cbn [get_path]. now rewrite nth_z_set_other by assumption.
Qed.

(* what the three list operations do *)
Lemma apply_push : forall x items, apply_mutop (MPush x) items = (items ++ [x], VNull).
Proof. reflexivity. Qed.

Lemma apply_reverse : forall items, apply_mutop MReverse items = (rev items, VNull).
Proof. reflexivity. Qed.

Lemma apply_pop_empty : apply_mutop MPop [] = ([], VNull).
Proof. reflexivity. Qed.

Lemma apply_pop_snoc : forall items x, apply_mutop MPop (items ++ [x]) = (items, x).
Proof.
  intros items x. unfold apply_mutop, last_value.
  destruct (items ++ [x]) eqn:Hd; [destruct items; discriminate Hd|].
  rewrite <- Hd. now rewrite removelast_last, last_last.
Qed.

(* errors of mutate_path: the walk faults exactly as for assign_path; a non-array at the
   end of the walk is a Type mismatch *)
Lemma mutate_path_err_fault : forall p v op e,
  nonneg p -> mutate_path v p op = Err e ->
  fault_at v p e \/ (e = TypeMis /\ exists x, get_path v p = Some x /\
                                      match x with VArr _ => False | _ => True end).
Proof.
  induction p as [|i rest IH]; intros v op e Hnn H.
  - right. cbn [mutate_path] in H. destruct v as [a|a|a| |items];
      try (inversion H; split; [reflexivity|]; eexists; cbn [get_path]; split; [reflexivity|exact I]).
    destruct (apply_mutop op items); discriminate H.
  - apply nonneg_cons in Hnn. destruct Hnn as [H0 Hnn].
    destruct v as [x|x|x| |items];
      try (left; inversion H; subst e; exists [], i, rest; eexists; cbn [app get_path];
           split; [reflexivity|split; [reflexivity|reflexivity]]).
    rewrite mutate_path_cons in H.
    destruct (len_z items <=? i) eqn:Hle.
    + left. inversion H; subst e. apply Z.leb_le in Hle.
      exists [], i, rest, (VArr items). cbn [app get_path]. auto.
    + apply Z.leb_gt in Hle.
      destruct (nth_z_in_bounds items i) as [sub Hsub]; [lia|].
      pose proof Hsub as Hsubz.
      rewrite nth_z_nonneg in Hsub by lia. rewrite Hsub in H.
      destruct (mutate_path sub rest op) as [[sub' r']|e'| | |] eqn:Hs; try discriminate H.
      cbn [bind] in H. inversion H; subst e'.
      apply IH in Hs; [|exact Hnn].
      destruct Hs as [(q & i' & r & x & Hp & Hg & Hx) | (-> & x & Hg & Hx)].
      * left. exists (i :: q), i', r, x. split; [cbn [app]; now rewrite Hp|]. split; [|exact Hx].
        cbn [get_path]. now rewrite Hsubz.
      * right. split; [reflexivity|]. exists x. split; [|exact Hx].
        cbn [get_path]. now rewrite Hsubz.
Qed.

Lemma mutate_path_total : forall p v op,
  (exists v' r, mutate_path v p op = Ok (v', r)) \/
  (exists e, mutate_path v p op = Err e /\ (e = InvIdx \/ e = IdxOob \/ e = TypeMis)).
Proof.
  induction p as [|i rest IH]; intros v op.
  - cbn [mutate_path]. destruct v as [a|a|a| |items]; try (right; eexists; split; [reflexivity|auto]).
    destruct (apply_mutop op items). left; eauto.
  - destruct v as [a|a|a| |items]; try (right; eexists; split; [reflexivity|auto]).
    rewrite mutate_path_cons.
    destruct (len_z items <=? i); [right; eexists; split; [reflexivity|auto]|].
    destruct (nth_value items (Z.to_nat i)) as [sub|]; [|right; eexists; split; [reflexivity|auto]].
    destruct (IH sub op) as [(v' & r & ->) | (e & -> & He)]; cbn [bind]; [left; eauto|right; eauto].
Qed.

(* ---------- element persistence below the mutated array ---------- *)
Lemma nth_value_nth_error : forall vs i, nth_value vs i = nth_error vs i.
Proof. induction vs as [|x vs IH]; intros [|i]; cbn [nth_value nth_error]; auto. Qed.

Lemma nth_z_app_l : forall a b k, 0 <= k < len_z a -> nth_z (a ++ b) k = nth_z a k.
Proof.
  intros a b k [H0 H1]. rewrite !nth_z_nonneg by lia. rewrite !nth_value_nth_error.
  apply nth_error_app1. unfold len_z in H1. lia.
Qed.

Lemma nth_z_app_last : forall a x, nth_z (a ++ [x]) (len_z a) = Some x.
Proof.
  intros a x. unfold len_z. rewrite nth_z_nonneg by lia. rewrite nth_value_nth_error.
  rewrite Nat2Z.id. rewrite nth_error_app2 by lia. now rewrite Nat.sub_diag.
Qed.

Lemma nth_z_rev : forall a k, 0 <= k < len_z a -> nth_z (rev a) k = nth_z a (len_z a - 1 - k).
Proof.
  intros a k [H0 H1]. unfold len_z in *. rewrite !nth_z_nonneg by lia.
  rewrite !nth_value_nth_error.
  assert (Hk : (Z.to_nat k < length a)%nat) by lia.
  rewrite (nth_error_nth' (rev a) VNull) by (rewrite rev_length; exact Hk).
  rewrite (nth_error_nth' a VNull) by lia.
  rewrite rev_nth by exact Hk. f_equal. f_equal. lia.
Qed.

Lemma get_path_below : forall v p items k rest,
  get_path v p = Some (VArr items) ->
  get_path v (p ++ k :: rest) =
  match nth_z items k with Some x => get_path x rest | None => None end.
Proof. intros v p items k rest Hg. rewrite get_path_app, Hg. reflexivity. Qed.

(* push appends exactly one element at the end of the addressed array; every element
   that was there keeps its position and its value *)
Lemma mutate_push_elements : forall p v x v' r,
  nonneg p -> mutate_path v p (MPush x) = Ok (v', r) ->
  exists items, get_path v p = Some (VArr items) /\ r = VNull /\
    get_path v' p = Some (VArr (items ++ [x])) /\
    get_path v' (p ++ [len_z items]) = Some x /\
    forall k rest, 0 <= k < len_z items ->
      get_path v' (p ++ k :: rest) = get_path v (p ++ k :: rest).
Proof.
  intros p v x v' r Hnn H.
  destruct (mutate_path_target _ _ _ _ _ Hnn H) as (items & Hg & Hg' & Hr).
  rewrite apply_push in Hg', Hr. cbn [fst snd] in Hg', Hr.
  exists items. refine (conj Hg (conj Hr (conj Hg' (conj _ _)))).
  - rewrite (get_path_below _ _ _ _ _ Hg'). now rewrite nth_z_app_last.
  - intros k rest Hk. rewrite (get_path_below _ _ _ _ _ Hg'), (get_path_below _ _ _ _ _ Hg).
    now rewrite nth_z_app_l.
Qed.

(* pop removes exactly the last element and returns it (null on an empty array) *)
Lemma mutate_pop_elements : forall p v v' r,
  nonneg p -> mutate_path v p MPop = Ok (v', r) ->
  exists items, get_path v p = Some (VArr items) /\
    ((items = [] /\ r = VNull /\ get_path v' p = Some (VArr [])) \/
     (exists l, items = l ++ [r] /\ get_path v' p = Some (VArr l) /\
        forall k rest, 0 <= k < len_z l ->
          get_path v' (p ++ k :: rest) = get_path v (p ++ k :: rest))).
Proof.
  intros p v v' r Hnn H.
  destruct (mutate_path_target _ _ _ _ _ Hnn H) as (items & Hg & Hg' & Hr).
  exists items. split; [exact Hg|].
  destruct items as [|a items0].
  - left. rewrite apply_pop_empty in Hg', Hr. auto.
  - right. destruct (exists_last (l := a :: items0)) as (l & x & Hl); [discriminate|].
    rewrite Hl in Hg, Hg', Hr. rewrite apply_pop_snoc in Hg', Hr. cbn [fst snd] in Hg', Hr.
    subst x. exists l. refine (conj Hl (conj Hg' _)).
    intros k rest Hk. rewrite (get_path_below _ _ _ _ _ Hg'), (get_path_below _ _ _ _ _ Hg).
    now rewrite nth_z_app_l.
Qed.

(* reverse: the element at position k afterwards is the one that was at len-1-k *)
Lemma mutate_reverse_elements : forall p v v' r,
  nonneg p -> mutate_path v p MReverse = Ok (v', r) ->
  exists items, get_path v p = Some (VArr items) /\ r = VNull /\
    get_path v' p = Some (VArr (rev items)) /\
    forall k rest, 0 <= k < len_z items ->
      get_path v' (p ++ k :: rest) = get_path v (p ++ (len_z items - 1 - k) :: rest).
Proof.
  intros p v v' r Hnn H.
  destruct (mutate_path_target _ _ _ _ _ Hnn H) as (items & Hg & Hg' & Hr).
  rewrite apply_reverse in Hg', Hr. cbn [fst snd] in Hg', Hr.
  exists items. refine (conj Hg (conj Hr (conj Hg' _))).
  intros k rest Hk. rewrite (get_path_below _ _ _ _ _ Hg'), (get_path_below _ _ _ _ _ Hg).
  now rewrite nth_z_rev.
Qed.

(* ================================================================== *)
(* Part 2: variable slots                                              *)
(* ================================================================== *)

Lemma find_idx_some : forall l n sc j,
  find_idx l n sc = Some j ->
  exists s, nth_error sc j = Some s /\ slot_matches l n s = true /\
            find_slot l n sc = Some (s_val s).
Proof.
  induction sc as [|s sc IH]; intros j H; cbn [find_idx] in H; [discriminate|].
  cbn [find_slot]. destruct (slot_matches l n s) eqn:Hm.
  - inversion H; subst j. exists s. cbn [nth_error]. auto.
  - destruct (find_idx l n sc) as [j'|] eqn:Hf; [|discriminate]. inversion H; subst j.
    destruct (IH j' eq_refl) as (s' & Hn & Hm' & Hfs). exists s'. cbn [nth_error]. auto.
Qed.

Lemma find_idx_none : forall l n sc, find_idx l n sc = None -> find_slot l n sc = None.
Proof.
  induction sc as [|s sc IH]; intros H; cbn [find_idx find_slot] in *; [reflexivity|].
  destruct (slot_matches l n s); [discriminate|].
  destruct (find_idx l n sc); [discriminate|]. now apply IH.
Qed.

(* a variable reference reads the slot it resolves to *)
Lemma lookup_env_pos : forall l n e,
  lookup_env l n e =
  match find_pos l n e with
  | Some pos => option_map s_val (slot_at e pos)
  | None => None
  end.
Proof.
  induction e as [|sc e IH]; cbn [lookup_env find_pos]; [reflexivity|].
  destruct (find_idx l n sc) as [j|] eqn:Hf.
  - destruct (find_idx_some _ _ _ _ Hf) as (s & Hn & _ & Hfs). rewrite Hfs.
    unfold slot_at. cbn [fst snd nth_error]. now rewrite Hn.
  - rewrite (find_idx_none _ _ _ Hf), IH.
    destruct (find_pos l n e) as [[i j]|]; reflexivity.
Qed.

Lemma slot_matches_skey : forall l n s s',
  s_id s = s_id s' -> s_name s = s_name s' -> slot_matches l n s = slot_matches l n s'.
Proof. intros l n s s' H1 H2. unfold slot_matches. now rewrite H1, H2. Qed.

Lemma find_idx_shape : forall l n sc sc',
  map skey sc = map skey sc' -> find_idx l n sc = find_idx l n sc'.
Proof.
  induction sc as [|s sc IH]; intros [|s' sc'] H; cbn [map] in H; try discriminate; [reflexivity|].
  injection H as Hk Hn Hr. cbn [find_idx]. rewrite (slot_matches_skey l n s s' Hk Hn).
  now rewrite (IH sc' Hr).
Qed.

(* which slot a reference resolves to depends only on the shape of the environment *)
Lemma find_pos_shape : forall l n e e', shape e = shape e' -> find_pos l n e = find_pos l n e'.
Proof.
  unfold shape. induction e as [|sc e IH]; intros [|sc' e'] H; cbn [map] in H; try discriminate;
    [reflexivity|].
  injection H as Hk Hr. cbn [find_pos]. rewrite (find_idx_shape l n sc sc' Hk).
  now rewrite (IH e' Hr).
Qed.

Lemma set_slot_spec : forall l n v sc,
  match find_idx l n sc with
  | Some j => exists s sc', nth_error sc j = Some s /\ set_slot l n v sc = Some sc' /\
                nth_error sc' j = Some (with_val s v) /\
                (forall k, k <> j -> nth_error sc' k = nth_error sc k) /\
                map skey sc' = map skey sc
  | None => set_slot l n v sc = None
  end.
Proof.
  induction sc as [|s sc IH]; cbn [find_idx set_slot]; [reflexivity|].
  destruct (slot_matches l n s) eqn:Hm.
  - exists s. eexists. refine (conj eq_refl (conj eq_refl (conj eq_refl (conj _ eq_refl)))).
    intros [|k] Hk; [congruence|reflexivity].
  - destruct (find_idx l n sc) as [j|] eqn:Hf.
    + destruct IH as (s0 & sc' & Hn & Hs & Hn' & Hoth & Hshape). rewrite Hs.
      exists s0, (s :: sc'). cbn [nth_error map]. refine (conj Hn (conj eq_refl (conj Hn' (conj _ _)))).
      * intros [|k] Hk; [reflexivity|]. cbn [nth_error]. apply Hoth. congruence.
      * now rewrite Hshape.
    + now rewrite IH.
Qed.

Lemma assign_env_spec : forall l n v e,
  match find_pos l n e with
  | Some pos => exists s e', slot_at e pos = Some s /\ assign_env l n v e = Some e' /\
                  slot_at e' pos = Some (with_val s v) /\
                  (forall pos', pos' <> pos -> slot_at e' pos' = slot_at e pos') /\
                  shape e' = shape e
  | None => assign_env l n v e = None
  end.
Proof.
  induction e as [|sc e IH]; cbn [find_pos assign_env]; [reflexivity|].
  pose proof (set_slot_spec l n v sc) as Hss.
  destruct (find_idx l n sc) as [j|] eqn:Hf.
  - destruct Hss as (s & sc' & Hn & Hs & Hn' & Hoth & Hshape). rewrite Hs.
    exists s, (sc' :: e). unfold slot_at, shape. cbn [fst snd nth_error map].
    refine (conj Hn (conj eq_refl (conj Hn' (conj _ _)))).
    + intros [[|i] k] Hne; cbn [fst snd nth_error]; [|reflexivity].
      apply Hoth. congruence.
    + now rewrite Hshape.
  - rewrite Hss. destruct (find_pos l n e) as [[i j]|] eqn:Hp.
    + destruct IH as (s & e' & Hsa & Ha & Hsa' & Hoth & Hshape). rewrite Ha.
      exists s, (sc :: e'). unfold slot_at, shape in *. cbn [fst snd nth_error map] in *.
      refine (conj Hsa (conj eq_refl (conj Hsa' (conj _ _)))).
      * intros [[|i'] k] Hne; cbn [fst snd nth_error]; [reflexivity|].
        apply (Hoth (i', k)). congruence.
      * now rewrite Hshape.
    + now rewrite IH.
Qed.

(* assign_env: exactly the first matching slot (innermost scope first) gets the value;
   no other slot changes; scope count and slot ids/names/order are kept *)
Lemma assign_env_frame : forall l n v e e',
  assign_env l n v e = Some e' ->
  exists pos s, find_pos l n e = Some pos /\ slot_at e pos = Some s /\
    slot_at e' pos = Some (with_val s v) /\
    (forall pos', pos' <> pos -> slot_at e' pos' = slot_at e pos') /\
    shape e' = shape e.
Proof.
  intros l n v e e' H. pose proof (assign_env_spec l n v e) as Hs.
  destruct (find_pos l n e) as [pos|]; [|congruence].
  destruct Hs as (s & e'' & Hsa & Ha & Hsa' & Hoth & Hshape).
  rewrite H in Ha. inversion Ha; subst e''. exists pos, s. auto.
Qed.

Lemma assign_env_defined : forall l n v e,
  assign_env l n v e = None <-> lookup_env l n e = None.
Proof.
  intros l n v e. pose proof (assign_env_spec l n v e) as Hs. rewrite lookup_env_pos.
  destruct (find_pos l n e) as [pos|].
  - destruct Hs as (s & e' & Hsa & Ha & _). rewrite Ha, Hsa. cbn [option_map]. split; discriminate.
  - tauto.
Qed.

(* the same, through variable references: the assigned variable reads the new value and
   every reference that resolves to another slot reads what it read before *)
Lemma assign_env_lookup : forall l n v e e',
  assign_env l n v e = Some e' ->
  lookup_env l n e' = Some v /\
  (forall l' n', find_pos l' n' e' = find_pos l' n' e) /\
  (forall l' n', find_pos l' n' e <> find_pos l n e -> lookup_env l' n' e' = lookup_env l' n' e) /\
  (forall l' n', find_pos l' n' e = find_pos l n e -> lookup_env l' n' e' = Some v).
Proof.
  intros l n v e e' H.
  destruct (assign_env_frame _ _ _ _ _ H) as (pos & s & Hp & Hsa & Hsa' & Hoth & Hshape).
  assert (Hfp : forall l' n', find_pos l' n' e' = find_pos l' n' e)
    by (intros; now apply find_pos_shape).
  assert (Hsame : forall l' n', find_pos l' n' e = find_pos l n e -> lookup_env l' n' e' = Some v).
  { intros l' n' He. rewrite lookup_env_pos, Hfp, He, Hp, Hsa'. reflexivity. }
  refine (conj (Hsame l n eq_refl) (conj Hfp (conj _ Hsame))).
  intros l' n' Hne. rewrite !lookup_env_pos, Hfp.
  destruct (find_pos l' n' e) as [pos'|]; [|reflexivity].
  rewrite Hoth; [reflexivity|]. intros ->. apply Hne. now rewrite Hp.
Qed.

(* `make`: overwrite in the innermost scope, or push exactly one new slot there *)
Lemma bytes_eqb_refl : forall a, bytes_eqb a a = true.
Proof. induction a as [|x a IH]; cbn [bytes_eqb]; [reflexivity|]. now rewrite Z.eqb_refl, IH. Qed.

Lemma slot_matches_new : forall l n v, slot_matches l n {| s_id := l; s_name := n; s_val := v |} = true.
Proof.
  intros [i|] n v; unfold slot_matches; cbn [s_id s_name opt_eqb].
  - apply Z.eqb_refl.
  - apply bytes_eqb_refl.
Qed.

Lemma define_env_cases : forall l n v sc r,
  (exists j, find_idx l n sc = Some j /\
             assign_env l n v (sc :: r) = Some (define_env l n v (sc :: r))) \/
  (find_idx l n sc = None /\
   define_env l n v (sc :: r) = ({| s_id := l; s_name := n; s_val := v |} :: sc) :: r).
Proof.
  intros l n v sc r. cbn [define_env assign_env].
  pose proof (set_slot_spec l n v sc) as Hs.
  destruct (find_idx l n sc) as [j|].
  - left. destruct Hs as (s & sc' & _ & Hset & _). rewrite Hset. eauto.
  - right. now rewrite Hs.
Qed.

Lemma define_env_frame : forall l n v sc r,
  let e := sc :: r in
  let e' := define_env l n v e in
  lookup_env l n e' = Some v /\
  (shape e' = shape e \/ shape e' = ((l, n) :: map skey sc) :: shape r) /\
  (forall l' n', find_pos l' n' e' <> find_pos l n e' -> lookup_env l' n' e' = lookup_env l' n' e).
Proof.
  intros l n v sc r e e'. subst e e'.
  destruct (define_env_cases l n v sc r) as [(j & Hf & Ha) | (Hf & Hd)].
  - destruct (assign_env_lookup _ _ _ _ _ Ha) as (Hl & Hfp & Hoth & _).
    destruct (assign_env_frame _ _ _ _ _ Ha) as (_ & _ & _ & _ & _ & _ & Hshape).
    refine (conj Hl (conj (or_introl Hshape) _)).
    intros l' n' Hne. apply Hoth. now rewrite <- !Hfp.
  - rewrite Hd. refine (conj _ (conj (or_intror eq_refl) _)).
    + cbn [lookup_env find_slot]. now rewrite slot_matches_new.
    + intros l' n'. cbn [find_pos find_idx lookup_env find_slot]. rewrite slot_matches_new.
      destruct (slot_matches l' n' _) eqn:Hm; [intros Hc; now contradiction Hc|].
      intros _. reflexivity.
Qed.

(* ================================================================== *)
(* Part 3: the mutating constructs of run_impl                         *)
(* ================================================================== *)

Lemma bytes_eqb_eq : forall a b, bytes_eqb a b = true -> a = b.
Proof.
  induction a as [|x a IH]; intros [|y b] H; cbn [bytes_eqb] in H; try discriminate; [reflexivity|].
  apply andb_true_iff in H. destruct H as [Hx Hr]. apply Z.eqb_eq in Hx. subst y.
  now rewrite (IH b Hr).
Qed.

Lemma mut_method_cases : forall f,
  mem_name f array_mut_methods = true -> f = n_push \/ f = n_pop \/ f = n_reverse.
Proof.
  intros f H. unfold mem_name, array_mut_methods in H. cbn [existsb] in H.
  repeat (apply orb_true_iff in H; destruct H as [H|H]); try discriminate H;
    apply bytes_eqb_eq in H; auto.
Qed.

Lemma to_usize_nonneg : forall x, 0 <= to_usize x.
Proof.
  intros x. unfold to_usize, clamp, usize_max.
  destruct x as [b| b| |b m e]; try lia.
  - destruct (trunc_Z (S754_zero b)); lia.
  - destruct b; lia.
  - destruct (trunc_Z (S754_finite b m e)); lia.
Qed.

Lemma index_value_nonneg : forall v i, index_value v = Ok i -> 0 <= i.
Proof.
  intros v i H. unfold index_value in H. destruct v; try discriminate H.
  destruct (negb (is_finite x) || negb (is_int x)); [discriminate H|].
  destruct (flt x (fzero false)); [discriminate H|].
  inversion H. apply to_usize_nonneg.
Qed.

Section Steps.
Variable P : plan.
Variable eps : f64.

Lemma bindM_ok_inv : forall A B (m : M A) (f : A -> M B) o b,
  bindM m f = (o, Ok b) ->
  exists o1 a o2, m = (o1, Ok a) /\ f a = (o2, Ok b) /\ o = o1 ++ o2.
Proof.
  intros A B [o1 [a|e|p| |]] f o b H; cbn [bindM] in H; try discriminate H.
  destruct (f a) as [o2 r] eqn:Hf. inversion H; subst. exists o1, a, o2. auto.
Qed.

Ltac bind_inv H :=
  let o1 := fresh "o" in let a := fresh "a" in let o2 := fresh "o" in
  let Hm := fresh "Hm" in let Ho := fresh "Ho" in
  apply bindM_ok_inv in H; destruct H as (o1 & a & o2 & Hm & H & Ho).

(* ---------- the construct equations (all by computation) ---------- *)
Lemma exec_setidx_S : forall n sid t e s,
  exec P eps (S n) (SSetIdx sid t e) s =
  bindM (eval P eps n e s) (fun '(v, s1) =>
    match flatten_target t [] with
    | None => ErrM TypeMis
    | Some (vn, vl, idx) =>
        bindM (eval_indices P eps n idx s1) (fun '(path, s2) => store_idx vn vl path v s2)
    end).
Proof. reflexivity. Qed.

Lemma eval_push_S : forall n o a0 rest t s,
  eval P eps (S n) (ECall (EMember o n_push) (a0 :: rest) t) s =
  bindM (eval P eps n a0 s) (fun '(v, s1) => mutate_recv P eps n o (MPush v) s1).
Proof. intros. destruct o; reflexivity. Qed.

Lemma eval_push_noarg_S : forall n o t s,
  eval P eps (S n) (ECall (EMember o n_push) [] t) s = PanicM PArgIndex.
Proof. reflexivity. Qed.

Lemma eval_pop_S : forall n o args t s,
  eval P eps (S n) (ECall (EMember o n_pop) args t) s = mutate_recv P eps n o MPop s.
Proof. intros. destruct o; reflexivity. Qed.

Lemma eval_reverse_S : forall n o args t s,
  eval P eps (S n) (ECall (EMember o n_reverse) args t) s = mutate_recv P eps n o MReverse s.
Proof. intros. destruct o; reflexivity. Qed.

Lemma exec_make_S : forall n sid vn vl e s,
  exec P eps (S n) (SMake sid vn vl e) s =
  bindM (eval P eps n e s) (fun '(v, s1) =>
    OkM (FNormal, with_env (define_env vl vn v (env s1)) s1)).
Proof. reflexivity. Qed.

Lemma exec_expr_S : forall n sid e s,
  exec P eps (S n) (SExpr sid e) s =
  bindM (eval P eps n e s) (fun '(_, s1) => OkM (FNormal, s1)).
Proof. reflexivity. Qed.

Lemma eval_var_S : forall n vn vl s,
  eval P eps (S n) (EVar vn vl) s =
  match lookup_env vl vn (env s) with
  | Some v => OkM (v, s)
  | None => PanicM PVarMissing
  end.
Proof. reflexivity. Qed.

Lemma eval_arr_S : forall n es s,
  eval P eps (S n) (EArr es) s =
  bindM (evals P eps n es s) (fun '(vs, s1) => OkM (VArr vs, s1)).
Proof. reflexivity. Qed.

(* the call of a user function: arguments are evaluated to values, each parameter gets a
   fresh slot holding its argument value in a new innermost scope, the body runs, the
   scope is dropped *)
Lemma eval_call_S : forall n fname l args target s,
  global_builtin fname = None ->
  eval P eps (S n) (ECall (EVar fname l) args target) s =
  match lookup_fn target fname (fns s) with
  | None => PanicM PFuncMissing
  | Some fd =>
      bindM (evals P eps n args s) (fun '(vs, s1) =>
        if negb (Nat.eqb (length vs) (length (f_params fd))) then PanicM PArgCount
        else if (match f_id fd with
                 | Some _ => f_llen fd <? Z.of_nat (length (f_params fd))
                 | None => false end) then PanicM PParamRange
        else
          bindM (exec_block P eps n (f_body fd)
                   (push_scope (param_slots fd (f_params fd) vs 0 []) s1))
                (fun '(fl, s3) =>
                   match fl with
                   | FNormal => OkM (VNull, pop_scope s3)
                   | FReturn v => OkM (v, pop_scope s3)
                   | FBreak | FNext => PanicM PBreakEscapes
                   end))
  end.
Proof. intros n fname l args target s Hg. cbn [eval]. rewrite Hg. reflexivity. Qed.

(* ---------- index evaluation ---------- *)
Lemma eval_indices_nonneg : forall n idx s o path s',
  eval_indices P eps n idx s = (o, Ok (path, s')) -> nonneg path.
Proof.
  induction idx as [|e idx IH]; intros s o path s' H; cbn [eval_indices] in H.
  - inversion H. constructor.
  - bind_inv H. destruct a as [iv s1]. bind_inv H. bind_inv H. destruct a0 as [is s2].
    inversion H; subst. apply nonneg_cons. split.
    + unfold lift in Hm0. inversion Hm0 as [[Ho' Hi]]. eapply index_value_nonneg; eauto.
    + eapply IH; eauto.
Qed.

(* ---------- the store phase ---------- *)
Lemma store_idx_ok_inv : forall vn vl path v s o fl s',
  store_idx vn vl path v s = (o, Ok (fl, s')) ->
  o = [] /\ fl = FNormal /\
  exists root root', stored vn vl s s' root root' /\ assign_path root path v = Ok root'.
Proof.
  intros vn vl path v s o fl s' H. unfold store_idx in H.
  destruct (lookup_env vl vn (env s)) as [root|] eqn:Hl; [|discriminate H].
  bind_inv H. unfold lift in Hm. inversion Hm as [[Ho' Ha]]. subst o0.
  destruct (assign_env vl vn a (env s)) as [e'|] eqn:Hae; [|discriminate H].
  inversion H; subst. refine (conj eq_refl (conj eq_refl _)).
  exists root, a. unfold stored. cbn [with_env env fns]. auto.
Qed.

Lemma store_mut_ok_inv : forall vn vl path op s o r s',
  store_mut vn vl path op s = (o, Ok (r, s')) ->
  o = [] /\
  exists root root', stored vn vl s s' root root' /\ mutate_path root path op = Ok (root', r).
Proof.
  intros vn vl path op s o r s' H. unfold store_mut in H.
  destruct (lookup_env vl vn (env s)) as [root|] eqn:Hl; [|discriminate H].
  bind_inv H. destruct a as [root' r']. unfold lift in Hm. inversion Hm as [[Ho' Ha]]. subst o0.
  destruct (assign_env vl vn root' (env s)) as [e'|] eqn:Hae; [|discriminate H].
  inversion H; subst. refine (conj eq_refl _).
  exists root, root'. unfold stored. cbn [with_env env fns]. auto.
Qed.

(* what a store does to the environment: one slot, nothing else *)
Lemma store_frame : forall vn vl s s' root root',
  stored vn vl s s' root root' ->
  lookup_env vl vn (env s') = Some root' /\
  shape (env s') = shape (env s) /\
  fns s' = fns s /\
  (forall l' n', find_pos l' n' (env s') = find_pos l' n' (env s)) /\
  (forall l' n', find_pos l' n' (env s) <> find_pos vl vn (env s) ->
                 lookup_env l' n' (env s') = lookup_env l' n' (env s)) /\
  (forall pos', find_pos vl vn (env s) <> Some pos' ->
                slot_at (env s') pos' = slot_at (env s) pos').
Proof.
  intros vn vl s s' root root' (Hl & Ha & Hf).
  destruct (assign_env_lookup _ _ _ _ _ Ha) as (Hnew & Hfp & Hoth & _).
  destruct (assign_env_frame _ _ _ _ _ Ha) as (pos & sl & Hp & _ & _ & Hslots & Hshape).
  refine (conj Hnew (conj Hshape (conj Hf (conj Hfp (conj Hoth _))))).
  intros pos' Hne. apply Hslots. intros ->. now apply Hne.
Qed.

(* ---------- SSetIdx, general: operand evaluation, then one store ---------- *)
Lemma exec_setidx_store : forall n sid t e s out fl s',
  exec P eps (S n) (SSetIdx sid t e) s = (out, Ok (fl, s')) ->
  exists v s1 o1 vn vl idx path s2 o2 root root',
    eval P eps n e s = (o1, Ok (v, s1)) /\
    flatten_target t [] = Some (vn, vl, idx) /\
    eval_indices P eps n idx s1 = (o2, Ok (path, s2)) /\
    nonneg path /\ out = o1 ++ o2 /\ fl = FNormal /\
    stored vn vl s2 s' root root' /\ assign_path root path v = Ok root'.
Proof.
  intros n sid t e s out fl s' H. rewrite exec_setidx_S in H.
  bind_inv H. destruct a as [v s1].
  destruct (flatten_target t []) as [[[vn vl] idx]|] eqn:Hft; [|discriminate H].
  bind_inv H. destruct a as [path s2].
  apply store_idx_ok_inv in H. destruct H as (-> & -> & root & root' & Hst & Hap).
  exists v, s1, o, vn, vl, idx, path, s2, o1, root, root'.
  rewrite app_nil_r in Ho0. subst o0.
  refine (conj Hm (conj eq_refl (conj Hm0 (conj _ (conj Ho (conj eq_refl (conj Hst Hap))))))).
  eapply eval_indices_nonneg; eauto.
Qed.

(* ---------- push / pop / reverse, general ---------- *)
Lemma flatten_target_var : forall vn vl acc, flatten_target (EVar vn vl) acc = Some (vn, vl, acc).
Proof. reflexivity. Qed.

Lemma mutate_recv_ok_inv : forall n o op s out r s',
  mutate_recv P eps n o op s = (out, Ok (r, s')) ->
  exists vn vl idx path s2 root root',
    flatten_target o [] = Some (vn, vl, idx) /\
    eval_indices P eps n idx s = (out, Ok (path, s2)) /\ nonneg path /\
    stored vn vl s2 s' root root' /\ mutate_path root path op = Ok (root', r).
Proof.
  intros n o op s out r s' H. destruct o; try discriminate H.
  - (* EVar *) cbn [mutate_recv] in H. apply store_mut_ok_inv in H.
    destruct H as (-> & root & root' & Hst & Hmp).
    exists n0, l, [], [], s, root, root'. cbn [eval_indices].
    refine (conj eq_refl (conj eq_refl (conj _ (conj Hst Hmp)))). constructor.
  - (* EIdx *) cbn [mutate_recv] in H.
    destruct (flatten_target (EIdx o1 o2) []) as [[[vn vl] idx]|] eqn:Hft; [|discriminate H].
    bind_inv H. destruct a as [path s2]. apply store_mut_ok_inv in H.
    destruct H as (-> & root & root' & Hst & Hmp). rewrite app_nil_r in Ho. subst out.
    exists vn, vl, idx, path, s2, root, root'.
    refine (conj eq_refl (conj Hm (conj _ (conj Hst Hmp)))).
    eapply eval_indices_nonneg; eauto.
Qed.

(* a call of push / pop / reverse that returns: the argument (push only) is evaluated, then
   the index expressions of the receiver, then exactly one store happens *)
Lemma mutating_call_store : forall n o f args t s out r s',
  mem_name f array_mut_methods = true ->
  eval P eps (S n) (ECall (EMember o f) args t) s = (out, Ok (r, s')) ->
  exists op s1 o1 vn vl idx path s2 o2 root root',
    ((f = n_push /\ exists a0 rest v, args = a0 :: rest /\ op = MPush v /\
                     eval P eps n a0 s = (o1, Ok (v, s1))) \/
     (f = n_pop /\ op = MPop /\ s1 = s /\ o1 = []) \/
     (f = n_reverse /\ op = MReverse /\ s1 = s /\ o1 = [])) /\
    flatten_target o [] = Some (vn, vl, idx) /\
    eval_indices P eps n idx s1 = (o2, Ok (path, s2)) /\ nonneg path /\ out = o1 ++ o2 /\
    stored vn vl s2 s' root root' /\ mutate_path root path op = Ok (root', r).
Proof.
  intros n o f args t s out r s' Hf H.
  destruct (mut_method_cases f Hf) as [-> | [-> | ->]].
  - destruct args as [|a0 rest]; [rewrite eval_push_noarg_S in H; discriminate H|].
    rewrite eval_push_S in H. bind_inv H. destruct a as [v s1].
    apply mutate_recv_ok_inv in H.
    destruct H as (vn & vl & idx & path & s2 & root & root' & Hft & Hei & Hnn & Hst & Hmp).
    exists (MPush v), s1, o0, vn, vl, idx, path, s2, o1, root, root'.
    refine (conj _ (conj Hft (conj Hei (conj Hnn (conj Ho (conj Hst Hmp)))))).
    left. split; [reflexivity|]. exists a0, rest, v. auto.
  - rewrite eval_pop_S in H. apply mutate_recv_ok_inv in H.
    destruct H as (vn & vl & idx & path & s2 & root & root' & Hft & Hei & Hnn & Hst & Hmp).
    exists MPop, s, [], vn, vl, idx, path, s2, out, root, root'.
    refine (conj _ (conj Hft (conj Hei (conj Hnn (conj eq_refl (conj Hst Hmp)))))).
    right. left. auto.
  - rewrite eval_reverse_S in H. apply mutate_recv_ok_inv in H.
    destruct H as (vn & vl & idx & path & s2 & root & root' & Hft & Hei & Hnn & Hst & Hmp).
    exists MReverse, s, [], vn, vl, idx, path, s2, out, root, root'.
    refine (conj _ (conj Hft (conj Hei (conj Hnn (conj eq_refl (conj Hst Hmp)))))).
    right. right. auto.
Qed.
