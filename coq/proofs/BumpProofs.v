(* Proofs about theories/Bump.v: the arena invariant holds in every reachable client
   state; contents of live blocks survive every operation; failing requests change
   nothing; reset reuses exactly the space above the mark. *)
From Coq Require Import ZArith List Bool Lia.
Require Import NS.theories.Generated NS.theories.Bump.
Import ListNotations.
Open Scope Z_scope.

(* ---------- rounding ---------- *)

Definition rup (x a : Z) : Z := (x + a - 1) / a * a.

Definition pow2 (a : Z) : Prop := exists k, 0 <= k /\ a = 2 ^ k.

Lemma pow2_pos a : pow2 a -> 0 < a.
Proof. intros [k [Hk ->]]. apply Z.pow_pos_nonneg; lia. Qed.

Lemma mask_up_rup x a : pow2 a -> mask_up x a = rup x a.
Proof.
  intros [k [Hk ->]]. unfold mask_up, rup.
  replace (2 ^ k - 1) with (Z.ones k) by (rewrite Z.ones_equiv; lia).
  rewrite Z.ldiff_ones_r by lia.
  rewrite Z.shiftr_div_pow2, Z.shiftl_mul_pow2 by lia.
  reflexivity.
Qed.

Lemma rup_ge x a : 0 < a -> x <= rup x a.
Proof.
  intros Ha. unfold rup.
  pose proof (Z.div_mod (x + a - 1) a ltac:(lia)) as H.
  pose proof (Z.mod_pos_bound (x + a - 1) a Ha) as Hb. nia.
Qed.

Lemma rup_lt x a : 0 < a -> rup x a < x + a.
Proof.
  intros Ha. unfold rup.
  pose proof (Z.div_mod (x + a - 1) a ltac:(lia)) as H.
  pose proof (Z.mod_pos_bound (x + a - 1) a Ha) as Hb. nia.
Qed.

Lemma rup_mod x a : 0 < a -> rup x a mod a = 0.
Proof. intros Ha. unfold rup. apply Z.mod_mul. lia. Qed.

Lemma rup_fix x a : 0 < a -> x mod a = 0 -> rup x a = x.
Proof.
  intros Ha Hm. unfold rup.
  apply Z.mod_divide in Hm; [|lia]. destruct Hm as [q ->].
  replace (q * a + a - 1) with (a - 1 + q * a) by lia.
  rewrite Z.div_add by lia. rewrite (Z.div_small (a - 1) a) by lia. lia.
Qed.

Lemma rup_mono x y a : 0 < a -> x <= y -> rup x a <= rup y a.
Proof.
  intros Ha Hxy. unfold rup.
  apply Z.mul_le_mono_nonneg_r; [lia|]. apply Z.div_le_mono; lia.
Qed.

Lemma rup_least x y a : 0 < a -> x <= y -> y mod a = 0 -> rup x a <= y.
Proof.
  intros Ha Hxy Hy. rewrite <- (rup_fix y a Ha Hy). apply rup_mono; assumption.
Qed.

Lemma mask_up_one x : mask_up x 1 = x.
Proof. unfold mask_up. replace (x + 1 - 1) with x by lia. replace (1 - 1) with 0 by lia.
       apply Z.ldiff_0_r. Qed.

Lemma chunk_pow2 : pow2 chunk.
Proof. exists 16. split; [lia|reflexivity]. Qed.

Lemma chunk_pos : 0 < chunk.
Proof. apply pow2_pos, chunk_pow2. Qed.

(* ---------- arena-level facts ---------- *)

(* start of the next block: the absolute address base+offset rounded up, minus base *)
Definition abeg (a : arena) (al : Z) : Z := rup (a_base a + a_off a) al - a_base a.


Definition arena_ok (a : arena) : Prop :=
  0 <= a_off a /\ a_off a <= a_com a /\ a_com a <= a_cap a /\
  a_com a mod chunk = 0 /\ a_cap a mod chunk = 0.

Lemma arena_new_ok base cap0 : arena_ok (arena_new base cap0).
Proof.
  unfold arena_ok, arena_new; cbn [a_base a_off a_com a_cap].
  rewrite (mask_up_rup _ _ chunk_pow2).
  pose proof (rup_ge (Z.max cap0 1) chunk chunk_pos).
  pose proof (rup_mod (Z.max cap0 1) chunk chunk_pos).
  repeat split; try lia; try (apply Z.mod_0_l; pose proof chunk_pos; lia).
Qed.

Lemma fill_outside m lo len v x : x < lo \/ lo + len <= x -> fill m lo len v x = m x.
Proof.
  intros H. unfold fill.
  destruct (lo <=? x) eqn:E1; destruct (x <? lo + len) eqn:E2; cbn [andb]; try reflexivity.
  apply Z.leb_le in E1. apply Z.ltb_lt in E2. lia.
Qed.

Lemma fill_inside m lo len v x : lo <= x < lo + len -> fill m lo len v x = v.
Proof.
  intros H. unfold fill.
  destruct (lo <=? x) eqn:E1; destruct (x <? lo + len) eqn:E2; cbn [andb]; try reflexivity.
  - apply Z.ltb_ge in E2. lia.
  - apply Z.leb_gt in E1. lia.
  - apply Z.leb_gt in E1. lia.
Qed.

Lemma copy_outside m src dst len x : x < dst \/ dst + len <= x -> copy m src dst len x = m x.
Proof.
  intros H. unfold copy.
  destruct (dst <=? x) eqn:E1; destruct (x <? dst + len) eqn:E2; cbn [andb]; try reflexivity.
  apply Z.leb_le in E1. apply Z.ltb_lt in E2. lia.
Qed.

Lemma copy_inside m src dst len i : 0 <= i < len -> copy m src dst len (dst + i) = m (src + i).
Proof.
  intros H. unfold copy.
  destruct (dst <=? dst + i) eqn:E1; destruct (dst + i <? dst + len) eqn:E2; cbn [andb].
  - f_equal. lia.
  - apply Z.ltb_ge in E2. lia.
  - apply Z.leb_gt in E1. lia.
  - apply Z.leb_gt in E1. lia.
Qed.

Lemma poison_alloc_below dbg m off en com x : x < off -> poison_alloc dbg m off en com x = m x.
Proof. intros H. unfold poison_alloc. destruct dbg; [|reflexivity]. apply fill_outside. lia. Qed.

(* The central step lemma for alloc_raw. *)
Lemma alloc_raw_some dbg s bytes al beg len s' :
  arena_ok (s_a s) -> 0 <= bytes -> pow2 al ->
  alloc_raw dbg s bytes al = Some (beg, len, s') ->
  len = bytes /\ beg = abeg (s_a s) al /\ a_off (s_a s) <= beg /\
  beg < a_off (s_a s) + al /\ (a_base (s_a s) + beg) mod al = 0 /\ a_base (s_a s') = a_base (s_a s) /\
  a_off (s_a s') = beg + bytes /\ arena_ok (s_a s') /\
  a_cap (s_a s') = a_cap (s_a s) /\ a_com (s_a s) <= a_com (s_a s') /\
  (forall x, x < a_off (s_a s) -> s_m s' x = s_m s x).
Proof.
  intros (H0 & H1 & H2 & H3 & H4) Hb Hal. unfold alloc_raw.
  pose proof (pow2_pos _ Hal) as Hap.
  rewrite (mask_up_rup _ _ Hal).
  pose proof (rup_ge (a_base (s_a s) + a_off (s_a s)) al Hap) as Hge.
  pose proof (rup_lt (a_base (s_a s) + a_off (s_a s)) al Hap) as Hlt.
  pose proof (rup_mod (a_base (s_a s) + a_off (s_a s)) al Hap) as Hmod.
  set (b0 := rup (a_base (s_a s) + a_off (s_a s)) al) in *.
  set (b := b0 - a_base (s_a s)) in *.
  assert (Hmodb : (a_base (s_a s) + b) mod al = 0) by (subst b; replace (a_base (s_a s) + (b0 - a_base (s_a s))) with b0 by lia; exact Hmod).
  destruct (b + bytes >? a_com (s_a s)) eqn:E.
  - rewrite (mask_up_rup _ _ chunk_pow2).
    destruct (rup (b + bytes) chunk >? a_cap (s_a s)) eqn:E2; [discriminate|].
    intros Heq; inversion Heq; subst; clear Heq. cbn [s_a s_m a_base a_off a_com a_cap].
    apply Z.gtb_lt in E. rewrite Z.gtb_ltb in E2. apply Z.ltb_ge in E2.
    pose proof (rup_ge (b + bytes) chunk chunk_pos).
    pose proof (rup_mod (b + bytes) chunk chunk_pos).
    unfold arena_ok; cbn [a_base a_off a_com a_cap].
    repeat split; try lia. intros x Hx. apply poison_alloc_below; assumption.
  - intros Heq; inversion Heq; subst; clear Heq. cbn [s_a s_m a_base a_off a_com a_cap].
    rewrite Z.gtb_ltb in E. apply Z.ltb_ge in E.
    unfold arena_ok; cbn [a_base a_off a_com a_cap].
    repeat split; try lia. intros x Hx. apply poison_alloc_below; assumption.
Qed.

Lemma alloc_raw_none dbg s bytes al :
  pow2 al -> alloc_raw dbg s bytes al = None ->
  a_cap (s_a s) < rup (abeg (s_a s) al + bytes) chunk.
Proof.
  intros Hal. unfold alloc_raw. rewrite (mask_up_rup _ _ Hal).
  destruct (_ >? a_com (s_a s)); [|discriminate].
  rewrite (mask_up_rup _ _ chunk_pow2).
  destruct (_ >? a_cap (s_a s)) eqn:E; [|discriminate]. intros _.
  apply Z.gtb_lt in E. exact E.
Qed.

(* A request that fits is never refused: success iff the rounded end fits the reservation. *)
Lemma alloc_raw_fits dbg s bytes al :
  arena_ok (s_a s) -> 0 <= bytes -> pow2 al ->
  rup (abeg (s_a s) al + bytes) chunk <= a_cap (s_a s) ->
  alloc_raw dbg s bytes al <> None.
Proof.
  intros (H0 & H1 & H2 & H3 & H4) Hb Hal Hfit. unfold alloc_raw. rewrite (mask_up_rup _ _ Hal).
  destruct (_ >? a_com (s_a s)); [|discriminate].
  rewrite (mask_up_rup _ _ chunk_pow2).
  destruct (_ >? a_cap (s_a s)) eqn:E; [|discriminate].
  apply Z.gtb_lt in E. unfold abeg in Hfit. lia.
Qed.

(* ---------- client invariant ---------- *)

Definition blk_ok (a : arena) (b : blk) : Prop :=
  0 <= b_off b /\ 0 <= b_len b /\ b_off b + b_len b <= a_off a /\
  pow2 (b_al b) /\ (a_base a + b_off b) mod b_al b = 0 /\ 0 <= b_init b <= b_len b.

Definition disj (x y : blk) : Prop :=
  b_off x + b_len x <= b_off y \/ b_off y + b_len y <= b_off x \/ b_len x = 0 \/ b_len y = 0.

Definition Inv (c : cst) : Prop :=
  let a := s_a (c_s c) in
  arena_ok a /\
  Forall (blk_ok a) (c_live c) /\
  ForallOrdPairs disj (c_live c) /\
  NoDup (map b_id (c_live c)) /\
  Forall (fun b => b_id b < c_next c) (c_live c) /\
  Forall (fun m => 0 <= m <= a_off a) (c_marks c).

Definition op_ok (o : op) : Prop :=
  match o with
  | OAlloc bytes _ | OAllocZ bytes _ => 0 <= bytes
  | OGrow _ delta _ => 0 <= delta
  | OShrink _ d => 0 <= d
  | OReset t => 0 <= t
  | _ => True
  end.

Lemma disj_sym x y : disj x y -> disj y x.
Proof. unfold disj; lia. Qed.

Lemma pick_In {A} (l : list A) idx x : pick l idx = Some x -> In x l.
Proof.
  unfold pick. destruct l as [|y l]; [discriminate|]. intros H. eapply nth_error_In; eauto.
Qed.

Lemma blk_ok_weaken a a' b : a_base a' = a_base a -> a_off a <= a_off a' -> blk_ok a b -> blk_ok a' b.
Proof. unfold blk_ok. intros Hb. rewrite Hb. intros; intuition lia. Qed.

Lemma Forall_blk_ok_weaken a a' l :
  a_base a' = a_base a -> a_off a <= a_off a' -> Forall (blk_ok a) l -> Forall (blk_ok a') l.
Proof. intros Hb H. apply Forall_impl. intros b. apply blk_ok_weaken; assumption. Qed.

(* ForallOrdPairs helpers *)
Lemma FOP_cons_inv {A} (R : A -> A -> Prop) x l :
  ForallOrdPairs R (x :: l) -> Forall (R x) l /\ ForallOrdPairs R l.
Proof. intros H; inversion H; subst; auto. Qed.

Lemma FOP_filter {A} (R : A -> A -> Prop) f l :
  ForallOrdPairs R l -> ForallOrdPairs R (filter f l).
Proof.
  induction 1 as [|x l Hx Hl IH]; cbn [filter]; [constructor|].
  destruct (f x); [|assumption]. constructor; [|assumption].
  apply Forall_forall. intros y Hy. apply filter_In in Hy. destruct Hy as [Hy _].
  rewrite Forall_forall in Hx. auto.
Qed.

(* Replacing the block with id [id] by a block that is disjoint from all others. *)
Lemma FOP_replace (l : list blk) id nb :
  (forall x y, disj x y -> disj y x) ->
  ForallOrdPairs disj l ->
  NoDup (map b_id l) ->
  (forall y, In y l -> b_id y <> id -> disj nb y) ->
  ForallOrdPairs disj (replace_blk l id nb).
Proof.
  intros Hsym H. induction H as [|x l Hx Hl IH]; intros Hnd Hnb; cbn [replace_blk map]; [constructor|].
  cbn [map] in Hnd. inversion Hnd as [|? ? Hnotin Hnd']; subst.
  constructor.
  - apply Forall_forall. intros y Hy. apply in_map_iff in Hy. destruct Hy as [z [Hz Hzin]].
    destruct (b_id x =? id) eqn:Ex.
    + apply Z.eqb_eq in Ex.
      destruct (b_id z =? id) eqn:Ez.
      * apply Z.eqb_eq in Ez. exfalso. apply Hnotin. apply in_map_iff. exists z. split; [lia|assumption].
      * subst y. apply Hnb; [right; assumption|]. apply Z.eqb_neq in Ez. assumption.
    + destruct (b_id z =? id) eqn:Ez.
      * subst y. apply Hsym. apply Hnb; [left; reflexivity|]. apply Z.eqb_neq in Ex. assumption.
      * subst y. rewrite Forall_forall in Hx. auto.
  - apply IH; [assumption|]. intros y Hy. apply Hnb. right; assumption.
Qed.

Lemma replace_blk_ids l id nb : b_id nb = id -> map b_id (replace_blk l id nb) = map b_id l.
Proof.
  intros Hid. unfold replace_blk. rewrite map_map. apply map_ext_in. intros x _.
  destruct (b_id x =? id) eqn:E; [|reflexivity]. apply Z.eqb_eq in E. lia.
Qed.

Lemma Forall_replace (P : blk -> Prop) l id nb :
  Forall P l -> P nb -> Forall P (replace_blk l id nb).
Proof.
  intros Hl Hnb. unfold replace_blk. apply Forall_forall. intros y Hy.
  apply in_map_iff in Hy. destruct Hy as [z [Hz Hzin]].
  destruct (b_id z =? id); subst y; [assumption|]. rewrite Forall_forall in Hl. auto.
Qed.

Lemma In_disj_of_FOP l x y :
  ForallOrdPairs disj l -> In x l -> In y l -> b_id x <> b_id y -> disj x y.
Proof.
  induction 1 as [|z l Hz Hl IH]; intros Hx Hy Hne; [destruct Hx|].
  rewrite Forall_forall in Hz.
  destruct Hx as [->|Hx]; destruct Hy as [->|Hy].
  - congruence.
  - auto.
  - apply disj_sym; auto.
  - auto.
Qed.

Lemma trim_marks_ok to l lo : 0 <= to -> Forall (fun m => 0 <= m <= lo) l ->
  Forall (fun m => 0 <= m <= to) (trim_marks to l).
Proof.
  intros Hto H. unfold trim_marks. apply Forall_forall. intros m Hm.
  apply filter_In in Hm. destruct Hm as [Hin Hle]. apply Z.leb_le in Hle.
  rewrite Forall_forall in H. specialize (H m Hin). lia.
Qed.

Lemma marks_weaken lo hi l : lo <= hi -> Forall (fun m => 0 <= m <= lo) l ->
  Forall (fun m => 0 <= m <= hi) l.
Proof. intros H. apply Forall_impl. intros; lia. Qed.

Lemma NoDup_ids_filter f (l : list blk) : NoDup (map b_id l) -> NoDup (map b_id (filter f l)).
Proof.
  induction l as [|x l IH]; cbn [filter map]; intros Hn; [constructor|].
  inversion Hn; subst. destruct (f x); cbn [map].
  - constructor; [|auto]. intros Hc. apply H1. apply in_map_iff in Hc. destruct Hc as [z [Hz Hzin]].
    apply filter_In in Hzin. apply in_map_iff. exists z. tauto.
  - auto.
Qed.

Lemma reset_arena dbg s to : s_a (reset dbg s to) = mkArena (a_base (s_a s)) to (a_com (s_a s)) (a_cap (s_a s)).
Proof. reflexivity. Qed.

Lemma do_reset_inv dbg c to : Inv c -> 0 <= to <= a_off (s_a (c_s c)) -> Inv (do_reset dbg c to).
Proof.
  intros (Ha & Hl & Hd & Hn & Hi & Hm) Hto.
  destruct Ha as (H0 & H1 & H2 & H3 & H4).
  unfold Inv, do_reset; cbn [c_s c_live c_next c_marks]. rewrite reset_arena.
  cbn [a_base a_off a_com a_cap]. refine (conj _ (conj _ (conj _ (conj _ (conj _ _))))).
  - unfold arena_ok; cbn [a_base a_off a_com a_cap]. repeat split; try lia; assumption.
  - unfold keep_below. apply Forall_forall. intros b Hb. apply filter_In in Hb.
    destruct Hb as [Hin Hle]. apply Z.leb_le in Hle.
    rewrite Forall_forall in Hl. specialize (Hl b Hin). unfold blk_ok in *; cbn [a_off]. intuition lia.
  - apply FOP_filter; assumption.
  - apply NoDup_ids_filter; assumption.
  - unfold keep_below. apply Forall_forall. intros b Hb. apply filter_In in Hb.
    rewrite Forall_forall in Hi. apply Hi. tauto.
  - eapply trim_marks_ok; [lia|eassumption].
Qed.

Lemma decommit_arena_ok s : arena_ok (s_a s) -> arena_ok (s_a (decommit s)) /\
  a_off (s_a (decommit s)) = a_off (s_a s) /\ s_m (decommit s) = s_m s.
Proof.
  intros (H0 & H1 & H2 & H3 & H4). unfold decommit.
  rewrite (mask_up_rup _ _ chunk_pow2).
  destruct (_ <? a_com (s_a s)) eqn:E; [|unfold arena_ok; auto 10].
  apply Z.ltb_lt in E. cbn [s_a s_m a_base a_off a_com a_cap].
  pose proof (rup_ge (a_off (s_a s)) chunk chunk_pos).
  pose proof (rup_mod (a_off (s_a s)) chunk chunk_pos).
  unfold arena_ok; cbn [a_base a_off a_com a_cap]. repeat split; lia.
Qed.

Lemma decommit_base s : a_base (s_a (decommit s)) = a_base (s_a s).
Proof. unfold decommit. destruct (_ <? _); reflexivity. Qed.

Lemma inv_set_arena c s' :
  Inv c -> arena_ok (s_a s') -> a_off (s_a s') = a_off (s_a (c_s c)) ->
  a_base (s_a s') = a_base (s_a (c_s c)) ->
  Inv (mkCst s' (c_live c) (c_next c) (c_marks c)).
Proof.
  intros (Ha & Hl & Hd & Hn & Hi & Hm) Hok Hoff Hbase.
  unfold Inv; cbn [c_s c_live c_next c_marks]. rewrite Hoff.
  refine (conj _ (conj _ (conj _ (conj _ (conj _ _))))); try assumption.
  eapply Forall_blk_ok_weaken; [| |eassumption]; [assumption|lia].
Qed.

(* new block on top of the ledger *)
Lemma inv_push c s' beg bytes al init :
  Inv c -> 0 <= bytes -> pow2 al ->
  a_off (s_a (c_s c)) <= beg -> (a_base (s_a (c_s c)) + beg) mod al = 0 ->
  a_base (s_a s') = a_base (s_a (c_s c)) -> a_off (s_a s') = beg + bytes ->
  arena_ok (s_a s') -> 0 <= init <= bytes ->
  Inv (mkCst s' (mkBlk (c_next c) beg bytes al init :: c_live c) (c_next c + 1) (c_marks c)).
Proof.
  intros (Ha & Hl & Hd & Hn & Hi & Hm) Hb Hal Hbeg Hmod Hbase Hoff Hok Hinit.
  destruct Ha as (H0 & _).
  unfold Inv; cbn [c_s c_live c_next c_marks]. refine (conj _ (conj _ (conj _ (conj _ (conj _ _))))).
  - assumption.
  - constructor.
    + unfold blk_ok; cbn [b_off b_len b_al b_init]. rewrite Hbase. repeat split; try lia; assumption.
    + eapply Forall_blk_ok_weaken; [| |eassumption]; [assumption|lia].
  - constructor; [|assumption]. apply Forall_forall. intros y Hy.
    rewrite Forall_forall in Hl. specialize (Hl y Hy). unfold blk_ok in Hl.
    unfold disj; cbn [b_off b_len]. right. left. lia.
  - cbn [map b_id]. constructor; [|assumption]. intros Hc. apply in_map_iff in Hc.
    destruct Hc as [z [Hz Hzin]]. rewrite Forall_forall in Hi. specialize (Hi z Hzin). lia.
  - constructor; [cbn [b_id]; lia|]. eapply Forall_impl; [|eassumption]. cbn beta. intros; lia.
  - eapply marks_weaken; [|eassumption]. lia.
Qed.

Lemma cstep_inv dbg c o : Inv c -> op_ok o -> Inv (fst (cstep dbg c o)).
Proof.
  intros HI Hop. pose proof HI as (Ha & Hl & Hd & Hn & Hi & Hm).
  destruct o as [bytes k|bytes k|idx delta z|idx d|t|idx| |idx seed| |]; cbn [cstep op_ok] in *.
  - (* OAlloc *)
    assert (Hal : pow2 (2 ^ Z.of_nat k)) by (exists (Z.of_nat k); split; lia).
    destruct (alloc_raw dbg (c_s c) bytes (2 ^ Z.of_nat k)) as [[[beg len] s']|] eqn:E; cbn [fst]; [|assumption].
    destruct (alloc_raw_some _ _ _ _ _ _ _ Ha Hop Hal E) as (-> & _ & Hge & _ & Hmod & Hbase & Hoff & Hok & _).
    apply inv_push; auto; lia.
  - (* OAllocZ *)
    assert (Hal : pow2 (2 ^ Z.of_nat k)) by (exists (Z.of_nat k); split; lia).
    unfold alloc_zeroed.
    destruct (alloc_raw dbg (c_s c) bytes (2 ^ Z.of_nat k)) as [[[beg len] s']|] eqn:E; cbn [fst]; [|assumption].
    destruct (alloc_raw_some _ _ _ _ _ _ _ Ha Hop Hal E) as (-> & _ & Hge & _ & Hmod & Hbase & Hoff & Hok & _).
    apply inv_push; auto; cbn [s_a]; lia.
  - (* OGrow *)
    destruct (pick (c_live c) idx) as [b|] eqn:Ep; cbn [fst]; [|assumption].
    pose proof (pick_In _ _ _ Ep) as Hin.
    pose proof Hl as Hl'. rewrite Forall_forall in Hl'. pose proof (Hl' b Hin) as Hbok.
    destruct Hbok as (Hb0 & Hb1 & Hb2 & Hb3 & Hb4 & Hb5).
    assert (Hg : forall np len s', grow dbg (c_s c) (b_off b) (b_len b) (b_len b + delta) (b_al b) = Some (np, len, s') ->
       forall init', 0 <= init' <= len -> forall s'', s_a s'' = s_a s' ->
       Inv (mkCst s'' (replace_blk (c_live c) (b_id b) (mkBlk (b_id b) np len (b_al b) init')) (c_next c) (c_marks c))).
    { intros np len s' Eg init' Hinit s'' Hs''. unfold grow in Eg.
      destruct (b_off b + b_len b =? a_off (s_a (c_s c))) eqn:Et.
      - apply Z.eqb_eq in Et.
        destruct (alloc_raw dbg (c_s c) (b_len b + delta - b_len b) 1) as [[[beg l2] s2]|] eqn:E; [|discriminate].
        inversion Eg; subst np len s'; clear Eg.
        assert (Hp1 : pow2 1) by (exists 0; split; [lia|reflexivity]).
        destruct (alloc_raw_some dbg (c_s c) (b_len b + delta - b_len b) 1 beg l2 s2 Ha ltac:(lia) Hp1 E) as (_ & _ & Hge & Hlt & _ & Hbase & Hoff & Hok & _).
        unfold Inv; cbn [c_s c_live c_next c_marks]. rewrite Hs''. refine (conj _ (conj _ (conj _ (conj _ (conj _ _))))).
        + assumption.
        + apply Forall_replace.
          * eapply Forall_blk_ok_weaken; [| |eassumption]; [assumption|lia].
          * unfold blk_ok; cbn [b_off b_len b_al b_init]. rewrite Hbase. repeat split; try lia; assumption.
        + apply FOP_replace; auto using disj_sym. intros y Hy Hne.
          pose proof (In_disj_of_FOP _ b y Hd Hin Hy ltac:(congruence)) as Hdis.
          pose proof (Hl' y Hy) as (Hy0 & Hy1 & Hy2 & _).
          unfold disj in *; cbn [b_off b_len]. lia.
        + rewrite replace_blk_ids by reflexivity. assumption.
        + apply Forall_replace; [assumption|]. cbn [b_id]. rewrite Forall_forall in Hi. auto.
        + eapply marks_weaken; [|eassumption]. lia.
      - apply Z.eqb_neq in Et.
        destruct (alloc_raw dbg (c_s c) (b_len b + delta) (b_al b)) as [[[beg l2] s2]|] eqn:E; [|discriminate].
        inversion Eg; subst np len s'; clear Eg. cbn [s_a] in Hs''.
        destruct (alloc_raw_some dbg (c_s c) (b_len b + delta) (b_al b) beg l2 s2 Ha ltac:(lia) Hb3 E) as (_ & _ & Hge & Hlt & Hmod & Hbase & Hoff & Hok & _).
        unfold Inv; cbn [c_s c_live c_next c_marks]. rewrite Hs''. refine (conj _ (conj _ (conj _ (conj _ (conj _ _))))).
        + assumption.
        + apply Forall_replace.
          * eapply Forall_blk_ok_weaken; [| |eassumption]; [assumption|lia].
          * unfold blk_ok; cbn [b_off b_len b_al b_init]. rewrite Hbase. repeat split; try lia; assumption.
        + apply FOP_replace; auto using disj_sym. intros y Hy Hne.
          pose proof (Hl' y Hy) as (Hy0 & Hy1 & Hy2 & _).
          unfold disj; cbn [b_off b_len]. right. left. lia.
        + rewrite replace_blk_ids by reflexivity. assumption.
        + apply Forall_replace; [assumption|]. cbn [b_id]. rewrite Forall_forall in Hi. auto.
        + eapply marks_weaken; [|eassumption]. lia. }
    destruct z.
    + unfold grow_zeroed.
      destruct (grow dbg (c_s c) (b_off b) (b_len b) (b_len b + delta) (b_al b)) as [[[np len] s']|] eqn:Eg; cbn [fst]; [|assumption].
      assert (len = b_len b + delta).
      { unfold grow in Eg. destruct (_ =? _); destruct (alloc_raw _ _ _ _) as [[[? ?] ?]|]; inversion Eg; reflexivity. }
      eapply Hg; [reflexivity| |reflexivity]. cbn [andb]. destruct (b_init b =? b_len b); lia.
    + destruct (grow dbg (c_s c) (b_off b) (b_len b) (b_len b + delta) (b_al b)) as [[[np len] s']|] eqn:Eg; cbn [fst]; [|assumption].
      assert (len = b_len b + delta).
      { unfold grow in Eg. destruct (_ =? _); destruct (alloc_raw _ _ _ _) as [[[? ?] ?]|]; inversion Eg; reflexivity. }
      eapply Hg; [reflexivity| |reflexivity]. cbn [andb]. lia.
  - (* OShrink *)
    destruct (pick (c_live c) idx) as [b|] eqn:Ep; cbn [fst]; [|assumption].
    pose proof (pick_In _ _ _ Ep) as Hin.
    pose proof Hl as Hl'. rewrite Forall_forall in Hl'. pose proof (Hl' b Hin) as Hbok.
    destruct Hbok as (Hb0 & Hb1 & Hb2 & Hb3 & Hb4 & Hb5).
    destruct (b_off b + b_len b =? a_off (s_a (c_s c))) eqn:Et; cbn [fst]; [|assumption].
    unfold shrink. rewrite Et. cbn [fst]. apply Z.eqb_eq in Et.
    pose proof (Z.mod_pos_bound d (b_len b + 1) ltac:(lia)) as Hmodb.
    set (ns := b_len b - d mod (b_len b + 1)) in *.
    destruct Ha as (H0 & H1 & H2 & H3 & H4).
    unfold Inv; cbn [c_s c_live c_next c_marks s_a a_base a_off a_com a_cap]. refine (conj _ (conj _ (conj _ (conj _ (conj _ _))))).
    + unfold arena_ok; cbn [a_base a_off a_com a_cap]. repeat split; lia.
    + unfold keep_below. apply Forall_forall. intros y Hy. apply filter_In in Hy. destruct Hy as [Hy Hk].
      apply Z.leb_le in Hk. unfold replace_blk in Hy. apply in_map_iff in Hy.
      destruct Hy as [w [Hw Hwin]]. destruct (b_id w =? b_id b) eqn:Ew.
      * subst y. unfold blk_ok; cbn [b_off b_len b_al b_init a_off]. repeat split; try lia; assumption.
      * subst y. pose proof (Hl' w Hwin) as (Hy0 & Hy1 & Hy2 & Hy3 & Hy4 & Hy5).
        unfold blk_ok; cbn [a_off]. repeat split; try lia; try assumption.
    + apply FOP_filter. apply FOP_replace; auto using disj_sym. intros y Hy Hne.
      pose proof (In_disj_of_FOP _ b y Hd Hin Hy ltac:(congruence)) as Hdis.
      unfold disj in *; cbn [b_off b_len]. lia.
    + apply NoDup_ids_filter. rewrite replace_blk_ids by reflexivity. assumption.
    + unfold keep_below. apply Forall_forall. intros y Hy. apply filter_In in Hy. destruct Hy as [Hy _].
      revert y Hy. apply Forall_forall.
      apply Forall_replace; [assumption|]. cbn [b_id]. rewrite Forall_forall in Hi. auto.
    + eapply trim_marks_ok; [lia|eassumption].
  - (* OReset *)
    cbn [fst]. apply do_reset_inv; [assumption|].
    destruct Ha as (H0 & _). pose proof (Z.mod_pos_bound t (a_off (s_a (c_s c)) + 1) ltac:(lia)). lia.
  - (* OResetBlk *)
    destruct (pick (c_live c) idx) as [b|] eqn:Ep; cbn [fst]; [|assumption].
    pose proof (pick_In _ _ _ Ep) as Hin. rewrite Forall_forall in Hl. specialize (Hl b Hin).
    apply do_reset_inv; [assumption|]. unfold blk_ok in Hl. lia.
  - (* ODecommit *)
    cbn [fst]. destruct (decommit_arena_ok (c_s c) Ha) as (Hok & Hoff & _).
    apply inv_set_arena; try assumption. apply decommit_base.
  - (* OWrite *)
    destruct (pick (c_live c) idx) as [b|] eqn:Ep; cbn [fst]; [|assumption].
    pose proof (pick_In _ _ _ Ep) as Hin.
    pose proof Hl as Hl'. rewrite Forall_forall in Hl'. pose proof (Hl' b Hin) as Hbok.
    destruct Hbok as (Hb0 & Hb1 & Hb2 & Hb3 & Hb4 & Hb5).
    unfold Inv; cbn [c_s c_live c_next c_marks s_a]. refine (conj _ (conj _ (conj _ (conj _ (conj _ _))))); try assumption.
    + apply Forall_replace; [assumption|].
      unfold blk_ok; cbn [b_off b_len b_al b_init]. repeat split; try lia; assumption.
    + apply FOP_replace; auto using disj_sym. intros y Hy Hne.
      pose proof (In_disj_of_FOP _ b y Hd Hin Hy ltac:(congruence)) as Hdis.
      unfold disj in *; cbn [b_off b_len]. lia.
    + rewrite replace_blk_ids by reflexivity. assumption.
    + apply Forall_replace; [assumption|]. cbn [b_id]. rewrite Forall_forall in Hi. auto.
  - (* OBorrow *)
    cbn [fst]. unfold Inv; cbn [c_s c_live c_next c_marks]. refine (conj _ (conj _ (conj _ (conj _ (conj _ _))))); try assumption.
    constructor; [|assumption]. destruct Ha as (H0 & _). lia.
  - (* ORelease *)
    destruct (c_marks c) as [|mk rest] eqn:Em; cbn [fst]; [assumption|].
    assert (Hmk : 0 <= mk <= a_off (s_a (c_s c))).
    { try rewrite Em in Hm. inversion Hm; subst; assumption. }
    pose proof (do_reset_inv dbg c mk HI Hmk) as HI1.
    set (c1 := do_reset dbg c mk) in *.
    pose proof HI1 as (Ha1 & Hl1 & Hd1 & Hn1 & Hi1 & Hm1).
    destruct (decommit_arena_ok (c_s c1) Ha1) as (Hok & Hoff & _).
    unfold Inv; cbn [c_s c_live c_next c_marks]. rewrite Hoff. refine (conj _ (conj _ (conj _ (conj _ (conj _ _))))); try assumption.
    + eapply Forall_blk_ok_weaken; [| |eassumption]; [apply decommit_base|lia].
    + inversion Hm; subst. subst c1. unfold do_reset. cbn [c_s]. rewrite reset_arena. cbn [a_off].
      eapply trim_marks_ok; [lia|eassumption].
Qed.

Lemma cinit_inv base cap0 : Inv (cinit base cap0).
Proof.
  unfold Inv, cinit; cbn [c_s c_live c_next c_marks s_a].
  refine (conj _ (conj _ (conj _ (conj _ (conj _ _))))); [apply arena_new_ok| | | | |]; constructor.
Qed.

Lemma crun_inv dbg ops : forall c, Inv c -> Forall op_ok ops -> Inv (crun dbg c ops).
Proof.
  induction ops as [|o ops IH]; intros c HI Hops; cbn [crun fold_left]; [assumption|].
  inversion Hops; subst. apply IH; [|assumption]. apply cstep_inv; assumption.
Qed.

(* bump_inv_reachable: the invariant in every state reachable from a fresh arena. *)
Lemma bump_inv_reachable_lemma dbg base cap0 ops :
  Forall op_ok ops -> Inv (crun dbg (cinit base cap0) ops).
Proof. intros. apply crun_inv; [apply cinit_inv|assumption]. Qed.

(* Consequences spelled out: every live block is inside the committed prefix of the
   reservation, aligned, and pairwise disjoint. *)
Lemma inv_blocks_in_bounds c b :
  Inv c -> In b (c_live c) ->
  0 <= b_off b /\ b_off b + b_len b <= a_off (s_a (c_s c)) /\
  a_off (s_a (c_s c)) <= a_com (s_a (c_s c)) /\ a_com (s_a (c_s c)) <= a_cap (s_a (c_s c)) /\
  (a_base (s_a (c_s c)) + b_off b) mod b_al b = 0.
Proof.
  intros (Ha & Hl & _) Hin. rewrite Forall_forall in Hl. specialize (Hl b Hin).
  destruct Ha as (H0 & H1 & H2 & _). unfold blk_ok in Hl. intuition lia.
Qed.

Lemma inv_blocks_disjoint c x y :
  Inv c -> In x (c_live c) -> In y (c_live c) -> b_id x <> b_id y -> disj x y.
Proof. intros (_ & _ & Hd & _). intros. eapply In_disj_of_FOP; eauto. Qed.

(* ---------- contents ---------- *)

Definition find_blk (l : list blk) (id : Z) : option blk :=
  find (fun b => b_id b =? id) l.

Definition writes_to (c : cst) (o : op) (id : Z) : Prop :=
  match o with
  | OWrite idx _ => match pick (c_live c) idx with Some b => b_id b = id | None => False end
  | _ => False
  end.

Lemma find_blk_In l id b : find_blk l id = Some b -> In b l /\ b_id b = id.
Proof.
  unfold find_blk. intros H. apply find_some in H. destruct H as [H1 H2].
  apply Z.eqb_eq in H2. auto.
Qed.

Lemma find_blk_unique l id b :
  NoDup (map b_id l) -> In b l -> b_id b = id -> find_blk l id = Some b.
Proof.
  induction l as [|x l IH]; intros Hnd Hin Hid; [destruct Hin|].
  cbn [map] in Hnd. inversion Hnd; subst. unfold find_blk; cbn [find].
  destruct (b_id x =? b_id b) eqn:E.
  - apply Z.eqb_eq in E. destruct Hin as [->|Hin]; [reflexivity|].
    exfalso. apply H1. apply in_map_iff. exists b. split; [lia|assumption].
  - destruct Hin as [->|Hin]; [rewrite Z.eqb_refl in E; discriminate|]. apply IH; auto.
Qed.

Lemma find_replace_same l id nb :
  b_id nb = id -> NoDup (map b_id l) -> (exists b, In b l /\ b_id b = id) ->
  find_blk (replace_blk l id nb) id = Some nb.
Proof.
  intros Hid Hnd [b [Hin Hb]]. apply find_blk_unique.
  - rewrite replace_blk_ids; assumption.
  - unfold replace_blk. apply in_map_iff. exists b. rewrite <- Hb, Z.eqb_refl. auto.
  - assumption.
Qed.

Lemma find_replace_other l id nb id' :
  b_id nb = id -> id' <> id -> find_blk (replace_blk l id nb) id' = find_blk l id'.
Proof.
  intros Hid Hne. unfold find_blk, replace_blk. induction l as [|x l IH]; [reflexivity|].
  cbn [map find]. destruct (b_id x =? id) eqn:E.
  - apply Z.eqb_eq in E. rewrite Hid.
    replace (id =? id') with false by (symmetry; apply Z.eqb_neq; lia).
    replace (b_id x =? id') with false by (symmetry; apply Z.eqb_neq; lia). assumption.
  - destruct (b_id x =? id'); [reflexivity|assumption].
Qed.

Lemma find_filter_some f l id b :
  find_blk (filter f l) id = Some b -> find_blk l id = Some b \/ exists b0, find_blk l id = Some b0 /\ f b0 = false.
Proof.
  unfold find_blk. induction l as [|x l IH]; cbn [filter find]; [discriminate|].
  destruct (f x) eqn:Ef; cbn [find].
  - destruct (b_id x =? id); auto.
  - intros H. destruct (b_id x =? id) eqn:E; [right; eauto|auto].
Qed.

Lemma find_filter_inv f l id b :
  NoDup (map b_id l) -> find_blk (filter f l) id = Some b -> find_blk l id = Some b.
Proof.
  intros Hn H. destruct (find_blk_In _ _ _ H) as [Hin Hid]. apply filter_In in Hin.
  apply find_blk_unique; tauto.
Qed.

(* The statement: a block that is live before and after a step keeps the contents of
   its (common) initialised prefix unless the step is a client write to that very block;
   a grown block keeps its old bytes whether it moved or not. *)
Lemma cstep_preserves_contents dbg c o id b b' :
  Inv c -> op_ok o ->
  find_blk (c_live c) id = Some b ->
  find_blk (c_live (fst (cstep dbg c o))) id = Some b' ->
  ~ writes_to c o id ->
  forall i, 0 <= i < Z.min (b_len b) (b_len b') ->
    s_m (c_s (fst (cstep dbg c o))) (b_off b' + i) = s_m (c_s c) (b_off b + i).
Proof.
  intros HI Hop Hf Hf' Hnw i Hi.
  pose proof HI as (Ha & Hl & Hd & Hn & Hidn & Hm).
  destruct (find_blk_In _ _ _ Hf) as [Hin Hbid].
  pose proof Hl as Hl'. rewrite Forall_forall in Hl'. pose proof (Hl' b Hin) as (Hb0 & Hb1 & Hb2 & Hb3 & Hb4 & Hb5).
  assert (Hfresh : id < c_next c). { rewrite Forall_forall in Hidn. specialize (Hidn b Hin). lia. }
  destruct o as [bytes k|bytes k|idx delta z|idx d|t|idx| |idx seed| |]; cbn [cstep op_ok] in *.
  - (* OAlloc *)
    assert (Hal : pow2 (2 ^ Z.of_nat k)) by (exists (Z.of_nat k); split; lia).
    destruct (alloc_raw dbg (c_s c) bytes (2 ^ Z.of_nat k)) as [[[beg len] s']|] eqn:E; cbn [fst c_live c_s] in *.
    + destruct (alloc_raw_some _ _ _ _ _ _ _ Ha Hop Hal E) as (_ & _ & _ & _ & _ & _ & _ & _ & _ & _ & Hmem).
      unfold find_blk in Hf'. cbn [find b_id] in Hf'.
      replace (c_next c =? id) with false in Hf' by (symmetry; apply Z.eqb_neq; lia).
      fold (find_blk (c_live c) id) in Hf'. rewrite Hf in Hf'. inversion Hf'; subst b'.
      apply Hmem. lia.
    + rewrite Hf in Hf'. inversion Hf'; subst. reflexivity.
  - (* OAllocZ *)
    assert (Hal : pow2 (2 ^ Z.of_nat k)) by (exists (Z.of_nat k); split; lia).
    unfold alloc_zeroed in *.
    destruct (alloc_raw dbg (c_s c) bytes (2 ^ Z.of_nat k)) as [[[beg len] s']|] eqn:E; cbn [fst c_live c_s s_m] in *.
    + destruct (alloc_raw_some _ _ _ _ _ _ _ Ha Hop Hal E) as (_ & _ & Hge & _ & _ & _ & _ & _ & _ & _ & Hmem).
      unfold find_blk in Hf'. cbn [find b_id] in Hf'.
      replace (c_next c =? id) with false in Hf' by (symmetry; apply Z.eqb_neq; lia).
      fold (find_blk (c_live c) id) in Hf'. rewrite Hf in Hf'. inversion Hf'; subst b'.
      rewrite fill_outside by lia. apply Hmem. lia.
    + rewrite Hf in Hf'. inversion Hf'; subst. reflexivity.
  - (* OGrow *)
    destruct (pick (c_live c) idx) as [g|] eqn:Ep; cbn [fst] in *;
      [|rewrite Hf in Hf'; inversion Hf'; subst; reflexivity].
    pose proof (pick_In _ _ _ Ep) as Hgin.
    pose proof (Hl' g Hgin) as (Hg0 & Hg1 & Hg2 & Hg3 & Hg4 & Hg5).
    (* memory effect of grow on bytes below the old offset *)
    assert (Hgrow : forall np len s', grow dbg (c_s c) (b_off g) (b_len g) (b_len g + delta) (b_al g) = Some (np, len, s') ->
      len = b_len g + delta /\
      ((np = b_off g /\ b_off g + b_len g = a_off (s_a (c_s c)) /\ forall x, x < a_off (s_a (c_s c)) -> s_m s' x = s_m (c_s c) x) \/
       (a_off (s_a (c_s c)) <= np /\ (forall x, x < a_off (s_a (c_s c)) -> s_m s' x = s_m (c_s c) x) /\
        forall j, 0 <= j < b_len g -> s_m s' (np + j) = s_m (c_s c) (b_off g + j)))).
    { intros np len s' Eg. unfold grow in Eg.
      destruct (b_off g + b_len g =? a_off (s_a (c_s c))) eqn:Et.
      - destruct (alloc_raw dbg (c_s c) (b_len g + delta - b_len g) 1) as [[[beg l2] s2]|] eqn:E; [|discriminate].
        inversion Eg; subst np len s'; clear Eg.
        assert (Hp1 : pow2 1) by (exists 0; split; [lia|reflexivity]).
        destruct (alloc_raw_some dbg (c_s c) (b_len g + delta - b_len g) 1 beg l2 s2 Ha ltac:(lia) Hp1 E) as (_ & _ & _ & _ & _ & _ & _ & _ & _ & _ & Hmem).
        apply Z.eqb_eq in Et. split; [reflexivity|]. left. split; [reflexivity|]. split; [exact Et|exact Hmem].
      - destruct (alloc_raw dbg (c_s c) (b_len g + delta) (b_al g)) as [[[beg l2] s2]|] eqn:E; [|discriminate].
        inversion Eg; subst np len s'; clear Eg. cbn [s_m].
        destruct (alloc_raw_some dbg (c_s c) (b_len g + delta) (b_al g) beg l2 s2 Ha ltac:(lia) Hg3 E) as (_ & _ & Hge & _ & _ & _ & _ & _ & _ & _ & Hmem).
        split; [reflexivity|]. right. split; [assumption|]. split.
        + intros x Hx. rewrite copy_outside by lia. apply Hmem; assumption.
        + intros j Hj. rewrite copy_inside by assumption. apply Hmem. lia. }
    assert (Hcore : forall np len s' init' s'' ,
      grow dbg (c_s c) (b_off g) (b_len g) (b_len g + delta) (b_al g) = Some (np, len, s') ->
      (forall x, x < np + b_len g -> s_m s'' x = s_m s' x) ->
      find_blk (replace_blk (c_live c) (b_id g) (mkBlk (b_id g) np len (b_al g) init')) id = Some b' ->
      s_m s'' (b_off b' + i) = s_m (c_s c) (b_off b + i)).
    { intros np len s' init' s'' Eg Hs'' Hfb.
      destruct (Hgrow _ _ _ Eg) as [Hlen Hcases].
      destruct (Z.eq_dec id (b_id g)) as [Heq|Hne].
      - (* the grown block itself *)
        assert (b = g). { pose proof (find_blk_unique _ _ _ Hn Hgin (eq_sym Heq)) as Hfg. rewrite Hf in Hfg. congruence. }
        subst g. rewrite Heq in Hfb. rewrite find_replace_same in Hfb; [|reflexivity|assumption|eauto].
        inversion Hfb; subst b'; clear Hfb. cbn [b_off b_len] in *.
        destruct Hcases as [(-> & Htail & Hmem)|(Hge & Hmem & Hcp)].
        + rewrite Hs'' by lia. apply Hmem. lia.
        + rewrite Hs'' by lia. apply Hcp. lia.
      - rewrite find_replace_other in Hfb; [|reflexivity|assumption].
        rewrite Hf in Hfb. inversion Hfb; subst b'; clear Hfb.
        assert (Hlow : b_off b + i < a_off (s_a (c_s c))) by lia.
        destruct Hcases as [(-> & Htail & Hmem)|(Hge & Hmem & Hcp)].
        + (* in place: b lies below the grown block's end or is disjoint *)
          pose proof (In_disj_of_FOP _ b g Hd Hin Hgin ltac:(congruence)) as Hdis.
          rewrite Hs''; [apply Hmem; assumption|].
          unfold disj in Hdis. lia.
        + rewrite Hs'' by lia. apply Hmem; assumption. }
    destruct z.
    + unfold grow_zeroed in *.
      destruct (grow dbg (c_s c) (b_off g) (b_len g) (b_len g + delta) (b_al g)) as [[[np len] s']|] eqn:Eg; cbn [fst c_live c_s] in *;
        [|rewrite Hf in Hf'; inversion Hf'; subst; reflexivity].
      eapply Hcore; [reflexivity| |exact Hf'].
      intros x Hx. cbn [s_m]. apply fill_outside. lia.
    + destruct (grow dbg (c_s c) (b_off g) (b_len g) (b_len g + delta) (b_al g)) as [[[np len] s']|] eqn:Eg; cbn [fst c_live c_s s_m] in *;
        [|rewrite Hf in Hf'; inversion Hf'; subst; reflexivity].
      eapply Hcore; [reflexivity| |exact Hf']. intros; reflexivity.
  - (* OShrink *)
    destruct (pick (c_live c) idx) as [g|] eqn:Ep; cbn [fst] in *;
      [|rewrite Hf in Hf'; inversion Hf'; subst; reflexivity].
    destruct (b_off g + b_len g =? a_off (s_a (c_s c))) eqn:Et; cbn [fst] in *;
      [|rewrite Hf in Hf'; inversion Hf'; subst; reflexivity].
    unfold shrink in *. rewrite Et in *. cbn [fst c_live c_s s_m] in *.
    pose proof (pick_In _ _ _ Ep) as Hgin.
    apply find_filter_inv in Hf'; [|rewrite replace_blk_ids by reflexivity; assumption].
    destruct (Z.eq_dec id (b_id g)) as [Heq|Hne].
    + assert (b = g). { pose proof (find_blk_unique _ _ _ Hn Hgin (eq_sym Heq)) as Hfg. rewrite Hf in Hfg. congruence. }
      subst g. rewrite Heq in Hf'. rewrite find_replace_same in Hf'; [|reflexivity|assumption|eauto].
      inversion Hf'; subst b'. reflexivity.
    + rewrite find_replace_other in Hf'; [|reflexivity|assumption].
      rewrite Hf in Hf'. inversion Hf'; subst b'. reflexivity.
  - (* OReset *)
    cbn [fst] in *. unfold do_reset in *. cbn [c_live c_s] in *.
    set (to := t mod (a_off (s_a (c_s c)) + 1)) in *.
    destruct (find_filter_some _ _ _ _ Hf') as [Hsame|[b0 [Hb0f Hb0k]]].
    + rewrite Hf in Hsame. inversion Hsame; subst b'.
      destruct (find_blk_In _ _ _ Hf') as [Hin' _]. unfold keep_below in Hin'. apply filter_In in Hin'.
      destruct Hin' as [_ Hle]. apply Z.leb_le in Hle.
      unfold reset; cbn [s_m]. destruct (dbg && _); [|reflexivity]. apply fill_outside. lia.
    + exfalso. destruct (find_blk_In _ _ _ Hf') as [Hin' Hid']. unfold keep_below in Hin'.
      apply filter_In in Hin'. destruct Hin' as [Hin'' Hk].
      rewrite Hf in Hb0f. inversion Hb0f; subst b0.
      pose proof (find_blk_unique _ _ _ Hn Hin'' Hid') as Hu. rewrite Hf in Hu. inversion Hu; subst b'.
      rewrite Hk in Hb0k. discriminate.
  - (* OResetBlk *)
    destruct (pick (c_live c) idx) as [g|] eqn:Ep; cbn [fst] in *;
      [|rewrite Hf in Hf'; inversion Hf'; subst; reflexivity].
    unfold do_reset in *. cbn [c_live c_s] in *.
    destruct (find_blk_In _ _ _ Hf') as [Hin' Hid']. unfold keep_below in Hin'.
    apply filter_In in Hin'. destruct Hin' as [Hin'' Hk]. apply Z.leb_le in Hk.
    pose proof (find_blk_unique _ _ _ Hn Hin'' Hid') as Hu. rewrite Hf in Hu. inversion Hu; subst b'.
    unfold reset; cbn [s_m]. destruct (dbg && _); [|reflexivity]. apply fill_outside. lia.
  - (* ODecommit *)
    cbn [fst c_live c_s] in *. rewrite Hf in Hf'. inversion Hf'; subst b'.
    destruct (decommit_arena_ok (c_s c) Ha) as (_ & _ & ->). reflexivity.
  - (* OWrite *)
    destruct (pick (c_live c) idx) as [g|] eqn:Ep; cbn [fst] in *;
      [|rewrite Hf in Hf'; inversion Hf'; subst; reflexivity].
    cbn [c_live c_s s_m] in *.
    pose proof (pick_In _ _ _ Ep) as Hgin.
    assert (Hne : id <> b_id g) by (intros Heq; apply Hnw; unfold writes_to; rewrite Ep; congruence).
    rewrite find_replace_other in Hf'; [|reflexivity|assumption].
    rewrite Hf in Hf'. inversion Hf'; subst b'.
    pose proof (In_disj_of_FOP _ b g Hd Hin Hgin ltac:(congruence)) as Hdis.
    unfold write_pat.
    destruct (b_off g <=? b_off b + i) eqn:E1; destruct (b_off b + i <? b_off g + b_len g) eqn:E2; cbn [andb]; try reflexivity.
    apply Z.leb_le in E1. apply Z.ltb_lt in E2. unfold disj in Hdis. lia.
  - (* OBorrow *)
    cbn [fst c_live c_s] in *. rewrite Hf in Hf'. inversion Hf'; subst. reflexivity.
  - (* ORelease *)
    destruct (c_marks c) as [|mk rest] eqn:Em; cbn [fst] in *;
      [rewrite Hf in Hf'; inversion Hf'; subst; reflexivity|].
    cbn [c_live c_s] in *. unfold do_reset in *. cbn [c_live c_s] in *.
    destruct (find_blk_In _ _ _ Hf') as [Hin' Hid']. unfold keep_below in Hin'.
    apply filter_In in Hin'. destruct Hin' as [Hin'' Hk]. apply Z.leb_le in Hk.
    pose proof (find_blk_unique _ _ _ Hn Hin'' Hid') as Hu. rewrite Hf in Hu. inversion Hu; subst b'.
    assert (Hdm : forall s, s_m (decommit s) = s_m s).
    { intros s. unfold decommit. destruct (_ <? _); reflexivity. }
    rewrite Hdm. unfold reset; cbn [s_m]. destruct (dbg && _); [|reflexivity]. apply fill_outside. lia.
Qed.

(* ---------- failure is clean; reset reuses ---------- *)

Lemma oom_clean_lemma dbg c bytes k :
  alloc_raw dbg (c_s c) bytes (2 ^ Z.of_nat k) = None ->
  cstep dbg c (OAlloc bytes k) = (c, RBlock false 0 0) /\
  a_cap (s_a (c_s c)) < rup (abeg (s_a (c_s c)) (2 ^ Z.of_nat k) + bytes) chunk.
Proof.
  intros E. split.
  - cbn [cstep]. rewrite E. reflexivity.
  - apply alloc_raw_none with (dbg := dbg). + exists (Z.of_nat k); split; lia. + assumption.
Qed.

Lemma reset_reuses_lemma dbg c to bytes k beg len s' :
  Inv c -> 0 <= to <= a_off (s_a (c_s c)) -> 0 <= bytes ->
  alloc_raw dbg (c_s (do_reset dbg c to)) bytes (2 ^ Z.of_nat k) = Some (beg, len, s') ->
  beg = rup (a_base (s_a (c_s c)) + to) (2 ^ Z.of_nat k) - a_base (s_a (c_s c)) /\ len = bytes /\
  (forall x, x < to -> s_m s' x = s_m (c_s c) x) /\
  c_live (do_reset dbg c to) = keep_below to (c_live c).
Proof.
  intros HI Hto Hb E.
  pose proof (do_reset_inv dbg c to HI Hto) as (Ha1 & _).
  assert (Hal : pow2 (2 ^ Z.of_nat k)) by (exists (Z.of_nat k); split; lia).
  destruct (alloc_raw_some _ _ _ _ _ _ _ Ha1 Hb Hal E) as (-> & -> & _ & _ & _ & _ & _ & _ & _ & _ & Hmem).
  unfold do_reset in *. cbn [c_s c_live] in *. rewrite reset_arena in *. cbn [a_off] in *.
  repeat split; try reflexivity.
  intros x Hx. rewrite Hmem by assumption. unfold reset; cbn [s_m].
  destruct (dbg && _); [|reflexivity]. apply fill_outside. lia.
Qed.

(* decommit followed by an allocation re-commits: commit never drops below offset,
   and a later alloc_raw succeeds exactly when it fits the reservation. *)
Lemma decommit_recommit_lemma dbg s bytes al :
  arena_ok (s_a s) -> 0 <= bytes -> pow2 al ->
  (alloc_raw dbg (decommit s) bytes al = None <-> alloc_raw dbg s bytes al = None).
Proof.
  intros Ha Hb Hal.
  destruct (decommit_arena_ok s Ha) as (Hok & Hoff & _).
  assert (Hcap : a_cap (s_a (decommit s)) = a_cap (s_a s)).
  { unfold decommit. destruct (_ <? _); reflexivity. }
  assert (Hab : abeg (s_a (decommit s)) al = abeg (s_a s) al).
  { unfold abeg. rewrite Hoff, decommit_base. reflexivity. }
  split; intros E.
  - destruct (alloc_raw dbg s bytes al) as [[[beg len] s']|] eqn:E2; [|reflexivity]. exfalso.
    pose proof (alloc_raw_none _ _ _ _ Hal E) as Hn. rewrite Hab, Hcap in Hn.
    destruct (alloc_raw_some _ _ _ _ _ _ _ Ha Hb Hal E2) as (_ & Hbeg & _ & _ & _ & _ & Hoff' & (Q0 & Q1 & Q2 & Q3 & Q4) & Hcap' & _).
    subst beg.
    pose proof (rup_least (abeg (s_a s) al + bytes) (a_com (s_a s')) chunk chunk_pos ltac:(lia) Q3). lia.
  - destruct (alloc_raw dbg (decommit s) bytes al) as [[[beg len] s']|] eqn:E2; [|reflexivity]. exfalso.
    pose proof (alloc_raw_none _ _ _ _ Hal E) as Hn.
    destruct (alloc_raw_some _ _ _ _ _ _ _ Hok Hb Hal E2) as (_ & Hbeg & _ & _ & _ & _ & Hoff' & (Q0 & Q1 & Q2 & Q3 & Q4) & Hcap' & _).
    subst beg. rewrite Hab in Hoff'. rewrite Hcap in Hcap'.
    pose proof (rup_least (abeg (s_a s) al + bytes) (a_com (s_a s')) chunk chunk_pos ltac:(lia) Q3). lia.
Qed.
