(* BumpVecProofs.v — the container layer (theories/BumpVec.v) keeps the arena client's
   invariant: container buffers are ledger blocks obtained through the Bump.v steps, so all
   of BumpProofs.v applies to them. *)
From Coq Require Import ZArith List Bool Lia.
Require Import NS.theories.Generated NS.theories.Bump NS.theories.BumpVec NS.proofs.BumpProofs.
Import ListNotations.
Open Scope Z_scope.

Definition kop_ok (o : kop) : Prop :=
  match o with
  | KRaw o => op_ok o
  | _ => True
  end.

Lemma blk_by_id_In l id b : blk_by_id l id = Some b -> In b l /\ b_id b = id.
Proof. exact (find_blk_In l id b). Qed.

Lemma vblk_In c v b : vblk c v = Some b -> In b (c_live c).
Proof.
  unfold vblk. destruct (v_blk v) as [id|]; [|discriminate].
  intros H. apply blk_by_id_In in H. tauto.
Qed.

(* writes inside a buffer + set_len: the ledger geometry does not change *)
Lemma vedit_inv k v f n k' : Inv (k_c k) -> vedit k v f n = Some k' -> Inv (k_c k').
Proof.
  intros HI. unfold vedit. destruct (vblk (k_c k) v) as [b|] eqn:Eb.
  - destruct ((0 <=? n) && (n <=? b_len b)) eqn:E; [|discriminate].
    intros H; inversion H; subst k'; clear H. cbn [k_c].
    apply andb_true_iff in E. destruct E as [E1 E2]. apply Z.leb_le in E1. apply Z.leb_le in E2.
    pose proof (vblk_In _ _ _ Eb) as Hin.
    destruct HI as (Ha & Hl & Hd & Hn & Hi & Hm).
    unfold Inv; cbn [c_s c_live c_next c_marks s_a].
    refine (conj _ (conj _ (conj _ (conj _ (conj _ _))))); try assumption.
    + apply Forall_replace; [assumption|]. rewrite Forall_forall in Hl. specialize (Hl b Hin).
      unfold blk_ok in *; cbn [b_off b_len b_al b_init]. intuition lia.
    + apply FOP_replace; auto using disj_sym. intros y Hy Hne.
      pose proof (In_disj_of_FOP _ b y Hd Hin Hy ltac:(congruence)) as Hdis.
      unfold disj in *; cbn [b_off b_len]. assumption.
    + rewrite replace_blk_ids by reflexivity. assumption.
    + apply Forall_replace; [assumption|]. cbn [b_id]. rewrite Forall_forall in Hi. auto.
  - destruct (n =? 0); [|discriminate]. intros H; inversion H; subst; assumption.
Qed.

Lemma vgrow_inv dbg k v nc k' v' : Inv (k_c k) -> vgrow dbg k v nc = Some (k', v') -> Inv (k_c k').
Proof.
  intros HI. unfold vgrow. destruct (vblk (k_c k) v) as [b|].
  - destruct (0 <=? nc * v_esz v - b_len b) eqn:E; [|discriminate]. apply Z.leb_le in E.
    pose proof (cstep_inv dbg (k_c k) (OGrow (pos_of (c_live (k_c k)) (b_id b)) (nc * v_esz v - b_len b) false) HI E) as H.
    destruct (cstep dbg (k_c k) (OGrow (pos_of (c_live (k_c k)) (b_id b)) (nc * v_esz v - b_len b) false)) as [c' r].
    destruct r as [ok ? ?|]; [|discriminate]. destruct ok; [|discriminate].
    intros X; inversion X; subst. exact H.
  - destruct (0 <=? nc * v_esz v) eqn:E; [|discriminate]. apply Z.leb_le in E.
    pose proof (cstep_inv dbg (k_c k) (OAlloc (nc * v_esz v) (v_k v)) HI E) as H.
    destruct (cstep dbg (k_c k) (OAlloc (nc * v_esz v) (v_k v))) as [c' r].
    destruct r as [ok ? ?|]; [|discriminate]. destruct ok; [|discriminate].
    intros X; inversion X; subst. exact H.
Qed.

Lemma vreserve_inv dbg ex k v add k' v' :
  Inv (k_c k) -> vreserve dbg ex k v add = Some (k', v') -> Inv (k_c k').
Proof.
  intros HI. unfold vreserve.
  destruct (add <=? _); [intros X; inversion X; subst; assumption|].
  destruct (guard_ok _ _ _); [|discriminate]. apply vgrow_inv. assumption.
Qed.

Lemma vappend_inv dbg k v data k' v' :
  Inv (k_c k) -> vappend dbg k v data = Some (k', v') -> Inv (k_c k').
Proof.
  intros HI. unfold vappend.
  destruct (vreserve dbg false k v _) as [[k1 v1]|] eqn:E; [|discriminate].
  pose proof (vreserve_inv _ _ _ _ _ _ _ HI E) as H1.
  destruct (vedit k1 v1 _ _) as [k2|] eqn:E2; [|discriminate].
  intros X; inversion X; subst. eapply vedit_inv; eassumption.
Qed.

Lemma vreplace_inv dbg k v s e data k' v' :
  Inv (k_c k) -> vreplace dbg k v s e data = Some (k', v') -> Inv (k_c k').
Proof.
  intros HI. unfold vreplace.
  destruct (_ && _); [intros X; inversion X; subst; assumption|].
  match goal with |- context [if ?c then vreserve ?a ?b ?k0 ?v0 ?n else _] =>
    destruct (if c then vreserve a b k0 v0 n else Some (k0, v0)) as [[k1 v1]|] eqn:E end; [|discriminate].
  assert (H1 : Inv (k_c k1)).
  { destruct (_ >? _) in E.
    - eapply vreserve_inv; eassumption.
    - inversion E; subst; assumption. }
  destruct (vedit k1 v1 _ _) as [k2|] eqn:E2; [|discriminate].
  intros X; inversion X; subst. eapply vedit_inv; eassumption.
Qed.

Lemma knew_inv dbg k str esz al cap k' v' :
  Inv (k_c k) -> knew dbg k str esz al cap = Some (k', v') -> Inv (k_c k').
Proof.
  intros HI. unfold knew.
  destruct (cap <=? 0); [intros X; inversion X; subst; assumption|].
  destruct (guard_ok _ _ _); [|discriminate].
  apply vgrow_inv. assumption.
Qed.

Lemma kdone_inv k r :
  Inv (k_c k) -> (forall k' v', r = Some (k', v') -> Inv (k_c k')) -> Inv (k_c (fst (kdone k r))).
Proof.
  intros HI H. unfold kdone. destruct r as [[k' v']|]; cbn [fst]; [eapply H; reflexivity|assumption].
Qed.

Lemma kstep_inv dbg k o : Inv (k_c k) -> kop_ok o -> Inv (k_c (fst (kstep dbg k o))).
Proof.
  intros HI Hok.
  destruct o as [o|str esz al cap|data|vi|data|vi sonly data|vi ex add|vi s e data|vi a b data|vi|vi];
    cbn [kstep kop_ok] in *.
  - (* KRaw *)
    pose proof (cstep_inv dbg (k_c k) o HI Hok) as H.
    destruct (raw_target (k_c k) o) as [b|].
    + destruct (owned (k_vecs k) (b_id b)); [assumption|].
      destruct (cstep dbg (k_c k) o) as [c' r]; exact H.
    + destruct (cstep dbg (k_c k) o) as [c' r]; exact H.
  - (* KNew *) apply kdone_inv; [assumption|]. intros k' v'. apply knew_inv. assumption.
  - (* KFrom *)
    destruct (knew dbg k true 1 0%nat _) as [[k1 v1]|] eqn:E; [|assumption].
    apply kdone_inv; [assumption|]. intros k' v'. apply vappend_inv. eapply knew_inv; eassumption.
  - (* KClone *)
    destruct (pick (k_vecs k) vi) as [v|]; [|assumption].
    destruct (read_limit <? _); [assumption|].
    destruct (knew dbg k _ _ _ _) as [[k1 v1]|] eqn:E; [|assumption].
    apply kdone_inv; [assumption|]. intros k' v'. apply vappend_inv. eapply knew_inv; eassumption.
  - (* KFmt *)
    destruct (knew dbg k true 1 0%nat 0) as [[k1 v1]|] eqn:E; [|assumption].
    apply kdone_inv; [assumption|]. intros k' v'. apply vappend_inv. eapply knew_inv; eassumption.
  - (* KAppend *)
    destruct (pick (k_vecs k) vi) as [v|]; [|assumption].
    destruct (sonly && negb (v_str v)); [assumption|].
    apply kdone_inv; [assumption|]. intros k' v'. apply vappend_inv. assumption.
  - (* KReserve *)
    destruct (pick (k_vecs k) vi) as [v|]; [|assumption].
    apply kdone_inv; [assumption|]. intros k' v'. apply vreserve_inv. assumption.
  - (* KReplace *)
    destruct (pick (k_vecs k) vi) as [v|]; [|assumption].
    destruct (negb (v_str v)); [assumption|].
    apply kdone_inv; [assumption|]. intros k' v'. apply vreplace_inv. assumption.
  - (* KReplaceOnce *)
    destruct (pick (k_vecs k) vi) as [v|]; [|assumption].
    destruct (negb (v_str v) || _); [assumption|].
    destruct (find_sub _ _ 0) as [beg|]; [|assumption].
    apply kdone_inv; [assumption|]. intros k' v'. apply vreplace_inv. assumption.
  - (* KShrinkFit *)
    destruct (pick (k_vecs k) vi) as [v|]; [|assumption].
    destruct (vblk (k_c k) v) as [b|]; [|assumption].
    destruct (_ && _ && _) eqn:E; [|assumption].
    apply andb_true_iff in E. destruct E as [E E3]. apply Z.ltb_lt in E3.
    assert (Hd : op_ok (OShrink (pos_of (c_live (k_c k)) (b_id b)) (b_len b - b_init b))) by (cbn [op_ok]; lia).
    pose proof (cstep_inv dbg (k_c k) _ HI Hd) as H.
    destruct (cstep dbg (k_c k) _) as [c' r]. exact H.
  - (* KClear *)
    destruct (pick (k_vecs k) vi) as [v|]; [|assumption].
    destruct (vedit k v _ 0) as [k'|] eqn:E; [|assumption].
    cbn [fst]. eapply vedit_inv; eassumption.
Qed.

Lemma krun_inv dbg ops : forall k, Inv (k_c k) -> Forall kop_ok ops -> Inv (k_c (krun dbg k ops)).
Proof.
  induction ops as [|o ops IH]; intros k HI Hok; cbn [krun fold_left]; [assumption|].
  inversion Hok; subst. apply IH; [|assumption]. apply kstep_inv; assumption.
Qed.

Lemma kinv_reachable_lemma dbg base cap0 ops :
  Forall kop_ok ops -> Inv (k_c (krun dbg (kinit base cap0) ops)).
Proof. intros. apply krun_inv; [apply cinit_inv|assumption]. Qed.

(* ---------- the edit of vec_replace_impl is the list-level splice, pointwise ---------- *)

Lemma store_inside m base data i :
  0 <= i < Z.of_nat (length data) -> store m base data (base + i) = nth (Z.to_nat i) data 0.
Proof.
  intros H. unfold store.
  replace ((base <=? base + i) && (base + i <? base + Z.of_nat (length data))) with true.
  - f_equal. f_equal. lia.
  - symmetry. apply andb_true_iff. split; [apply Z.leb_le|apply Z.ltb_lt]; lia.
Qed.

Lemma store_outside m base data x :
  x < base \/ base + Z.of_nat (length data) <= x -> store m base data x = m x.
Proof.
  intros H. unfold store.
  destruct (base <=? x) eqn:E1; cbn [andb]; [|reflexivity].
  destruct (x <? base + Z.of_nat (length data)) eqn:E2; [|reflexivity].
  apply Z.leb_le in E1. apply Z.ltb_lt in E2. lia.
Qed.

(* With 0 <= off, del, tail (in elements of esz bytes) and a replacement of srcl elements:
   the prefix is unchanged, the replacement sits at off, the old tail follows it, and
   nothing outside [base + off*esz, base + (off+srcl+tail)*esz) is written. *)
Lemma replace_edit_splice m base esz off del srcl tail data :
  0 < esz -> 0 <= off -> 0 <= del -> 0 <= tail -> Z.of_nat (length data) = srcl * esz ->
  let m' := replace_edit m base esz off del srcl tail data in
  (forall i, 0 <= i < off * esz -> m' (base + i) = m (base + i)) /\
  (forall i, 0 <= i < srcl * esz -> m' (base + off * esz + i) = nth (Z.to_nat i) data 0) /\
  (forall i, 0 <= i < tail * esz ->
     m' (base + (off + srcl) * esz + i) = m (base + (off + del) * esz + i)) /\
  (forall x, x < base + off * esz \/ base + (off + srcl + tail) * esz <= x -> m' x = m x).
Proof.
  intros Hesz Hoff Hdel Htail Hlen. cbv zeta. unfold replace_edit.
  assert (Hs : 0 <= srcl) by nia.
  refine (conj _ (conj _ (conj _ _))).
  - intros i Hi. rewrite store_outside by lia.
    destruct ((tail >? 0) && negb (srcl =? del)); [|reflexivity].
    apply copy_outside. nia.
  - intros i Hi. replace (base + off * esz + i) with ((base + off * esz) + i) by lia.
    apply store_inside. lia.
  - intros i Hi. rewrite store_outside by nia.
    destruct ((tail >? 0) && negb (srcl =? del)) eqn:E.
    + replace (base + (off + srcl) * esz + i) with ((base + off * esz + srcl * esz) + i) by lia.
      rewrite copy_inside by lia. f_equal. lia.
    + (* no shift: either the tail is empty or the replacement has the old length *)
      apply andb_false_iff in E. destruct E as [E|E].
      * rewrite Z.gtb_ltb in E. apply Z.ltb_ge in E. assert (tail = 0) by lia. subst tail. lia.
      * apply negb_false_iff in E. apply Z.eqb_eq in E. subst del. reflexivity.
  - intros x Hx. rewrite store_outside by nia.
    destruct ((tail >? 0) && negb (srcl =? del)); [|reflexivity].
    apply copy_outside. nia.
Qed.
