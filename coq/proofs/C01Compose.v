(* C01Compose — the umbrella statement of C01 as far as the neighbouring properties prove it:
   C04 (scoping: run_spec = run_impl without plan, for lexical programs) composed with C03
   (pruning: a plan accepted in the four proved classes with empty residual does not change
   the run). *)
From Coq Require Import ZArith List Bool.
Require Import NS.theories.F64 NS.theories.Lang NS.theories.Spec NS.theories.LexResolve
               NS.theories.PlanCheck NS.theories.LiveCheck.
Require Import NS.proofs.ScopeProofs NS.proofs.ScopeCalls NS.proofs.LiveProofs.
Import ListNotations.

Lemma eval_refines_spec : forall eps fuel p ss fs o e,
  lexical p = true ->
  run_spec eps fuel p = (o, e) -> comparable e = true ->
  v_checked (x_main (plan_ok3 p ss fs)) = true ->
  x_checked (plan_ok3 p ss fs) = true ->
  x_residual (plan_ok3 p ss fs) = ([], []) ->
  run_impl (Some (ss, fs)) eps fuel p = (o, ending_of e).
Proof.
  intros eps fuel p ss fs o e Hl Hr Hc H1 H2 H3.
  apply prune_dead_stores_sound_lemma; auto.
  - apply impl_equals_spec_scoping; auto.
  - destruct e; try discriminate Hc; reflexivity.
Qed.

(* the same against the strongest C03 statement (round 5: all classes, calls of pure callees
   included; plan_ok4).  A comparable reference ending is neither fuel nor a panic, so none of
   the endings C03 leaves out can occur. *)
Lemma eval_refines_spec_all_classes : forall eps fuel p ss fs o e,
  lexical p = true ->
  run_spec eps fuel p = (o, e) -> comparable e = true ->
  v_checked (x_main (plan_ok4 p ss fs)) = true ->
  x_checked (plan_ok4 p ss fs) = true ->
  x_residual (plan_ok4 p ss fs) = ([], []) ->
  run_impl (Some (ss, fs)) eps fuel p = (o, ending_of e).
Proof.
  intros eps fuel p ss fs o e Hl Hr Hc H1 H2 H3.
  apply prune_sound_five_classes_lemma; auto.
  - apply impl_equals_spec_scoping; auto.
  - destruct e; try discriminate Hc; reflexivity.
Qed.
