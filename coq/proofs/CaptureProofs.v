(* CaptureProofs.v — C16: invariant of the capture protocol (theories/Capture.v) and the
   theorems read off it. *)
From Coq Require Import ZArith List Bool Lia.
Require Import NS.theories.GenCapture NS.theories.Capture.
Import ListNotations.
Open Scope Z_scope.

(* ------------------------------------------------------------------ source shape *)
(* Facts of the generated file the model's control flow (not its constants) relies on. *)
Lemma source_shape_as_modelled :
  wait_loop_order = [WFlagCheck; WTryWait; WDeadlineCheck; WSleepStep] /\
  err_join_order = [S1; S2] /\ ok_join_order = [S1; S2] /\
  ovf_breaks = true /\ kill_then_wait = true.
Proof. repeat split; reflexivity. Qed.

(* ------------------------------------------------------------------ lists *)
Lemma len_nonneg : forall l, 0 <= len l.
Proof. intros l; unfold len; lia. Qed.

Lemma len_app : forall a b, len (a ++ b) = len a + len b.
Proof. intros a b; unfold len; rewrite app_length; lia. Qed.

Lemma len_nil : len [] = 0.
Proof. reflexivity. Qed.

Lemma len_firstn : forall k l, Z.of_nat k <= len l -> len (firstn k l) = Z.of_nat k.
Proof. intros k l H; unfold len in *; rewrite firstn_length; lia. Qed.

Lemma nil_b_true : forall l, nil_b l = true -> l = [].
Proof. intros [|a l]; cbn; congruence. Qed.

Lemma nil_b_false : forall l, nil_b l = false -> l <> [].
Proof. intros [|a l]; cbn; congruence. Qed.

Lemma is_run_false : forall x, is_run x = false -> x <> CRun.
Proof. intros [] ; cbn; congruence. Qed.

Lemma is_run_true : forall x, is_run x = true -> x = CRun.
Proof. intros [] ; cbn; congruence. Qed.

(* ------------------------------------------------------------------ per-stream invariant *)
Record SI (c : cfg) (s : stream) (x : strm) (run : bool) (fl : Z) : Prop := {
  si_nocap : captured c s = false -> r_pc x = RNone /\ rovf x = false /\ rclosed x = false;
  si_cap : captured c s = true -> r_pc x <> RNone;
  si_out : exists d, out c s = written x ++ rem x ++ d /\ (rovf x = false -> d = []);
  si_loop : r_pc x = RLoop -> written x = rbuf x ++ pipe x /\ rovf x = false;
  si_eof : rovf x = false -> (r_pc x = RExit \/ r_pc x = RDone) ->
           written x = rbuf x /\ pipe x = [] /\ run = false;
  si_ovf : rovf x = true ->
           cap c < len (written x) /\ (r_pc x = RFlag \/ r_pc x = RExit \/ r_pc x = RDone);
  si_flagpc : r_pc x = RFlag -> rovf x = true;
  si_len : len (rbuf x) <= cap c;
  si_closed : rclosed x = true -> r_pc x = RDone;
  si_flag_mine : fl = reader_code s -> rovf x = true /\ (r_pc x = RExit \/ r_pc x = RDone);
  si_flag_set : rovf x = true -> (r_pc x = RExit \/ r_pc x = RDone) -> fl <> 0
}.

Lemma SI_init : forall c s, cfg_ok c -> SI c s (init_strm c s) true 0.
Proof.
  intros c s Hc. unfold init_strm.
  constructor; cbn [rem pipe rclosed r_pc rbuf written rovf].
  - intros H; rewrite H; auto.
  - intros H; rewrite H; discriminate.
  - exists []. rewrite app_nil_r. auto.
  - auto.
  - intros _ [H|H]; destruct (captured c s); discriminate.
  - discriminate.
  - destruct (captured c s); discriminate.
  - rewrite len_nil. exact Hc.
  - discriminate.
  - intros H; destruct s; discriminate.
  - discriminate.
Qed.

Ltac si_open H :=
  destruct H as [h1 h2 h3 h4 h5 h6 h7 h8 h9 h10 h11];
  constructor; cbn [rem pipe rclosed r_pc rbuf written rovf].

(* bullets, in order: nocap cap out loop eof ovf flagpc len closed flag_mine flag_set *)

(* the child stops running (exit, SIGPIPE, kill): nothing else changes *)
Lemma SI_run_off : forall c s x run fl, SI c s x run fl -> SI c s x false fl.
Proof.
  intros c s x run fl H. si_open H.
  - auto. - auto. - auto. - auto.
  - intros Ho Hp. destruct (h5 Ho Hp) as (A & B & _). auto.
  - auto. - auto. - auto. - auto. - auto. - auto.
Qed.

(* a successful write of k bytes to a captured stream *)
Lemma SI_write_cap : forall c s x fl k,
  SI c s x true fl -> rclosed x = false ->
  Z.of_nat k <= len (rem x) ->
  SI c s {| rem := skipn k (rem x); pipe := pipe x ++ firstn k (rem x); rclosed := rclosed x;
            r_pc := r_pc x; rbuf := rbuf x; written := written x ++ firstn k (rem x);
            rovf := rovf x |} true fl.
Proof.
  intros c s x fl k H Hcl Hk. si_open H.
  - auto.
  - auto.
  - destruct h3 as (d & E & D). exists d. split; auto.
    rewrite E. rewrite <- (firstn_skipn k (rem x)) at 1. rewrite <- !app_assoc. reflexivity.
  - intros Hp. destruct (h4 Hp) as (A & B). split; auto. rewrite A, app_assoc. reflexivity.
  - intros Ho Hp. destruct (h5 Ho Hp) as (_ & _ & F). discriminate.
  - intros Ho. destruct (h6 Ho) as (A & B). split; auto. rewrite len_app.
    pose proof (len_nonneg (firstn k (rem x))). lia.
  - auto. - auto. - auto. - auto. - auto.
Qed.

(* a write to a stream that is not captured (sink) *)
Lemma SI_write_sink : forall c s x run fl k,
  SI c s x run fl -> captured c s = false ->
  SI c s {| rem := skipn k (rem x); pipe := pipe x; rclosed := rclosed x;
            r_pc := r_pc x; rbuf := rbuf x; written := written x ++ firstn k (rem x);
            rovf := rovf x |} run fl.
Proof.
  intros c s x run fl k H Hn. si_open H.
  destruct (h1 Hn) as (P & O & C).
  - auto.
  - auto.
  - destruct h3 as (d & E & D). exists d. split; auto.
    rewrite E. rewrite <- (firstn_skipn k (rem x)) at 1. rewrite <- !app_assoc. reflexivity.
  - destruct (h1 Hn) as (P & O & C). rewrite P. discriminate.
  - destruct (h1 Hn) as (P & O & C). rewrite P. intros _ [H|H]; discriminate.
  - destruct (h1 Hn) as (P & O & C). rewrite O. discriminate.
  - auto. - auto. - auto. - auto. - auto.
Qed.

(* EPIPE seen and ignored: the child gives the stream up *)
Lemma SI_epipe : forall c s x run fl,
  SI c s x run fl -> rclosed x = true -> run = true ->
  SI c s {| rem := []; pipe := pipe x; rclosed := rclosed x; r_pc := r_pc x; rbuf := rbuf x;
            written := written x; rovf := rovf x |} run fl.
Proof.
  intros c s x run fl H Hcl Hrun. si_open H.
  pose proof (h9 Hcl) as Hd.
  - auto.
  - auto.
  - destruct h3 as (d & E & D). exists (rem x ++ d). split.
    + rewrite E. reflexivity.
    + intros Ho. destruct (h5 Ho (or_intror (h9 Hcl))) as (_ & _ & F). congruence.
  - auto. - auto. - auto. - auto. - auto. - auto. - auto. - auto.
Qed.

(* reader: EOF *)
Lemma SI_read_eof : forall c s x fl,
  SI c s x false fl -> r_pc x = RLoop -> pipe x = [] ->
  SI c s {| rem := rem x; pipe := pipe x; rclosed := rclosed x; r_pc := RExit; rbuf := rbuf x;
            written := written x; rovf := rovf x |} false fl.
Proof.
  intros c s x fl H Hp He. si_open H.
  - intros Hn. destruct (h1 Hn) as (P & _). congruence.
  - discriminate.
  - auto.
  - discriminate.
  - intros _ _. destruct (h4 Hp) as (A & B). rewrite A, He, app_nil_r. auto.
  - intros Ho. destruct (h4 Hp) as (A & B). congruence.
  - discriminate.
  - auto.
  - intros Hc. rewrite (h9 Hc) in Hp. discriminate.
  - intros Hf. destruct (h10 Hf) as (F & _). destruct (h4 Hp) as (A & B). congruence.
  - intros Ho. destruct (h4 Hp) as (A & B). congruence.
Qed.

(* reader: a chunk that fits *)
Lemma SI_read_fit : forall c s x run fl k,
  SI c s x run fl -> r_pc x = RLoop -> Z.of_nat k <= len (pipe x) ->
  overflows c (len (rbuf x)) (Z.of_nat k) = false ->
  SI c s {| rem := rem x; pipe := skipn k (pipe x); rclosed := rclosed x; r_pc := RLoop;
            rbuf := rbuf x ++ firstn k (pipe x); written := written x; rovf := rovf x |} run fl.
Proof.
  intros c s x run fl k H Hp Hk Hov. si_open H.
  - intros Hn. destruct (h1 Hn) as (P & _). congruence.
  - discriminate.
  - auto.
  - intros _. destruct (h4 Hp) as (A & B). split; auto.
    rewrite A, <- app_assoc, firstn_skipn. reflexivity.
  - intros _ [H|H]; discriminate.
  - intros Ho. destruct (h4 Hp) as (A & B). congruence.
  - discriminate.
  - rewrite len_app, len_firstn by exact Hk.
    unfold overflows in Hov. destruct ovf_strict; lia.
  - intros Hc. rewrite (h9 Hc) in Hp. discriminate.
  - intros Hf. destruct (h10 Hf) as (F & _). destruct (h4 Hp) as (A & B). congruence.
  - intros _ [H|H]; discriminate.
Qed.

(* reader: a chunk that does not fit — needs the strict test of the source *)
Lemma SI_read_ovf : forall c s x run fl k,
  SI c s x run fl -> r_pc x = RLoop -> Z.of_nat k <= len (pipe x) ->
  overflows c (len (rbuf x)) (Z.of_nat k) = true ->
  SI c s {| rem := rem x; pipe := skipn k (pipe x); rclosed := rclosed x; r_pc := RFlag;
            rbuf := rbuf x; written := written x; rovf := true |} run fl.
Proof.
  intros c s x run fl k H Hp Hk Hov. si_open H.
  - intros Hn. destruct (h1 Hn) as (P & _). congruence.
  - discriminate.
  - destruct h3 as (d & E & D). exists d. split; auto. discriminate.
  - discriminate.
  - discriminate.
  - intros _. destruct (h4 Hp) as (A & B). split; auto. rewrite A, len_app.
    unfold overflows in Hov. change ovf_strict with true in Hov. cbv iota in Hov. lia.
  - auto.
  - auto.
  - intros Hc. rewrite (h9 Hc) in Hp. discriminate.
  - intros Hf. destruct (h10 Hf) as (F & _). destruct (h4 Hp) as (A & B). congruence.
  - intros _ [H|H]; discriminate.
Qed.

Lemma reader_code_nonzero : forall s, reader_code s <> 0.
Proof. intros []; cbn; lia. Qed.

Lemma reader_code_inj : forall s s', reader_code s = reader_code s' -> s = s'.
Proof. intros [] []; cbn; intros; auto; lia. Qed.

Lemma join_code_is_reader_code : forall s, join_code s = reader_code s.
Proof. intros []; reflexivity. Qed.

Lemma from_code_reader_code : forall s, from_code (reader_code s) = s.
Proof. intros []; reflexivity. Qed.

(* set-if-still-zero, as compare_exchange(0, code) *)
Lemma update_flag_cas : forall f code, update_flag f code = if f =? 0 then code else f.
Proof. reflexivity. Qed.

(* reader: the flag update after an overflow, seen from the overflowing stream *)
Lemma SI_flag_self : forall c s x run fl,
  SI c s x run fl -> r_pc x = RFlag ->
  SI c s {| rem := rem x; pipe := pipe x; rclosed := rclosed x; r_pc := RExit; rbuf := rbuf x;
            written := written x; rovf := rovf x |} run (update_flag fl (reader_code s)).
Proof.
  intros c s x run fl H Hp. si_open H.
  - intros Hn. destruct (h1 Hn) as (P & _). congruence.
  - discriminate.
  - auto.
  - discriminate.
  - intros Ho. rewrite (h7 Hp) in Ho. discriminate.
  - intros Ho'. destruct (h6 Ho') as (A & _). auto.
  - discriminate.
  - auto.
  - intros Hc. rewrite (h9 Hc) in Hp. discriminate.
  - intros _. split; auto.
  - intros _ _. rewrite update_flag_cas. destruct (Z.eqb_spec fl 0); auto.
    apply reader_code_nonzero.
Qed.

(* ... and seen from the other stream *)
Lemma SI_flag_other : forall c s s' x run fl,
  SI c s x run fl -> s' <> s ->
  SI c s x run (update_flag fl (reader_code s')).
Proof.
  intros c s s' x run fl H Hne. si_open H.
  - auto. - auto. - auto. - auto. - auto. - auto. - auto. - auto. - auto.
  - rewrite update_flag_cas. destruct (Z.eqb_spec fl 0) as [E|E]; auto.
    intros H. apply reader_code_inj in H. congruence.
  - intros Ho Hp. rewrite update_flag_cas. destruct (Z.eqb_spec fl 0) as [E|E].
    + apply reader_code_nonzero.
    + auto.
Qed.

(* reader: return (the read end is dropped) *)
Lemma SI_exit : forall c s x run fl,
  SI c s x run fl -> r_pc x = RExit ->
  SI c s {| rem := rem x; pipe := pipe x; rclosed := true; r_pc := RDone; rbuf := rbuf x;
            written := written x; rovf := rovf x |} run fl.
Proof.
  intros c s x run fl H Hp. si_open H.
  - intros Hn. destruct (h1 Hn) as (P & _). congruence.
  - discriminate.
  - auto.
  - discriminate.
  - intros Ho _. apply h5; auto.
  - intros Ho. destruct (h6 Ho) as (A & _). auto.
  - discriminate.
  - auto.
  - auto.
  - intros Hf. destruct (h10 Hf) as (F & _). auto.
  - intros Ho _. apply h11; auto.
Qed.

(* ------------------------------------------------------------------ whole-state invariant *)
Definition err_ok (c : cfg) (st : state) (e : perr) : Prop :=
  result_spec c (RErr e) /\ (e = ETimeout -> exists t, g_tmo st = Some t) /\
  (forall s, e <> EUtf8 s).

(* what is known about stdout's join while the waiter is at stderr's join *)
Definition J1 (c : cfg) (st : state) (o1 : option bytes) : Prop :=
  if captured c S1
  then r_pc (st1 st) = RDone /\ o1 = Some (rbuf (st1 st)) /\ utf8_valid (rbuf (st1 st)) = true /\
       (rovf (st1 st) = true -> flag st = reader_code S2)
  else o1 = None.

Definition WI (c : cfg) (st : state) : Prop :=
  match w st with
  | WFlag | WTry | WDeadline | WSleep _ => reaped st = false /\ kill_sent st = false
  | WKill e => reaped st = false /\ kill_sent st = false /\ err_ok c st e
  | WWait e => kill_sent st = true /\ cs st <> CRun /\ err_ok c st e
  | EJoin1 e | EJoin2 e => kill_sent st = true /\ cs st <> CRun /\ reaped st = true /\ err_ok c st e
  | OJoin1 code =>
      reaped st = true /\ kill_sent st = false /\ (cs st = CExited \/ cs st = CSigpipe) /\
      code = status_code c (cs st)
  | OJoin2 o1 code =>
      reaped st = true /\ kill_sent st = false /\ (cs st = CExited \/ cs st = CSigpipe) /\
      code = status_code c (cs st) /\ J1 c st o1
  | WDone r => result_spec c r /\ reaped_spec c st r /\
               (join_recheck_mode = RecheckAny -> strict_spec c r)
  end.

Record Inv (c : cfg) (st : state) : Prop := {
  inv_s1 : SI c S1 (st1 st) (is_run (cs st)) (flag st);
  inv_s2 : SI c S2 (st2 st) (is_run (cs st)) (flag st);
  inv_flag : flag st = 0 \/ flag st = reader_code S1 \/ flag st = reader_code S2;
  inv_exited : cs st = CExited -> rem (st1 st) = [] /\ rem (st2 st) = [];
  inv_sigpipe : cs st = CSigpipe -> exists s, rovf (sget st s) = true /\ r_pc (sget st s) = RDone;
  inv_killed : cs st = CKilled -> kill_sent st = true;
  inv_clock : forall t, g_tmo st = Some t -> timeout c <= t /\ t <= clock st;
  inv_w : WI c st
}.

Lemma inv_s : forall c st s, Inv c st -> SI c s (sget st s) (is_run (cs st)) (flag st).
Proof. intros c st [] H; [apply (inv_s1 _ _ H) | apply (inv_s2 _ _ H)]. Qed.

Lemma Inv_init : forall c, cfg_ok c -> Inv c (init c).
Proof.
  intros c Hc. constructor; cbn.
  - apply SI_init; auto.
  - apply SI_init; auto.
  - auto.
  - discriminate.
  - discriminate.
  - discriminate.
  - discriminate.
  - unfold WI; cbn. auto.
Qed.

Ltac st_simpl :=
  cbn [sset set_w set_cs set_flag set_reaped do_kill tick sget
       st1 st2 cs reaped kill_sent flag clock w g_tmo] in *.

(* while the child runs the waiter is still in (or just leaving) its loop *)
Lemma WI_running : forall c st, WI c st -> cs st = CRun ->
  match w st with
  | WFlag | WTry | WDeadline | WSleep _ | WKill _ => True
  | _ => False
  end.
Proof.
  intros c st H Hr. unfold WI in H. destruct (w st); auto.
  - destruct H as (_ & N & _). auto.
  - destruct H as (_ & N & _). auto.
  - destruct H as (_ & N & _). auto.
  - destruct H as (_ & _ & [N|N] & _); congruence.
  - destruct H as (_ & _ & [N|N] & _); congruence.
  - destruct H as (_ & (_ & N & _) & _). auto.
Qed.

(* WI of a waiter in its loop does not look at the streams, the child or the clock *)
Lemma WI_loop_frame : forall c st st',
  WI c st -> cs st = CRun ->
  w st' = w st -> reaped st' = reaped st -> kill_sent st' = kill_sent st -> g_tmo st' = g_tmo st ->
  WI c st'.
Proof.
  intros c st st' H Hr Hw Hre Hk Hg. pose proof (WI_running _ _ H Hr) as R.
  unfold WI in *. rewrite Hw. destruct (w st); try contradiction; rewrite ?Hre, ?Hk; auto.
  destruct H as (A & B & (C & D & E)). repeat split; auto. rewrite Hg. auto.
Qed.

Lemma inv_tick : forall c st, Inv c st -> Inv c (tick st).
Proof.
  intros c st H. destruct H as [h1 h2 hf he hs hk hc hw].
  constructor; st_simpl; auto.
  - intros t Ht. destruct (hc t Ht). lia.
  - unfold WI in *. st_simpl. destruct (w st); auto.
    destruct hw as (A & B & S). split; [auto|split; [|auto]].
    unfold reaped_spec in *. st_simpl.
    destruct B as (B1 & B2 & B3 & B4). repeat split; auto.
    destruct r as [o1 o2 code|[s|s|]]; auto.
    destruct B4 as (K & t & T1 & T2 & T3). split; auto. exists t. repeat split; auto; lia.
Qed.

(* ------------------------------------------------------------------ child steps *)
Lemma inv_sset_running : forall c st s x',
  Inv c st -> cs st = CRun -> SI c s x' true (flag st) -> Inv c (sset st s x').
Proof.
  intros c st s x' H Hr Hx. destruct H as [h1 h2 hf he hs hk hc hw].
  rewrite Hr in h1, h2. cbn [is_run] in h1, h2.
  assert (WI c (sset st s x')) as W
    by (apply (WI_loop_frame c st); auto; destruct s; reflexivity).
  destruct s; constructor; st_simpl; auto;
    try (intros N; rewrite Hr in N; discriminate N);
    try (rewrite Hr; cbn [is_run]; auto).
Qed.

Lemma inv_child : forall c st a st', Inv c st -> child_step c st a = Some st' -> Inv c st'.
Proof.
  intros c st a st' H Hs. unfold child_step in Hs.
  destruct (is_run (cs st)) eqn:Hrun; cbn [negb] in Hs; [|discriminate].
  apply is_run_true in Hrun.
  pose proof (inv_s c st) as HS.
  destruct a as [s k|s die|].
  - (* write *)
    destruct ((1 <=? Z.of_nat k) && (Z.of_nat k <=? len (rem (sget st s)))) eqn:Hk; [|discriminate].
    apply andb_prop in Hk. destruct Hk as (K1 & K2). apply Z.leb_le in K2.
    specialize (HS s H). rewrite Hrun in HS. cbn [is_run] in HS.
    destruct (captured c s) eqn:Hc.
    + destruct (rclosed (sget st s)) eqn:Hcl; [discriminate|].
      destruct (Z.of_nat k <=? pcap c - len (pipe (sget st s))); [|discriminate].
      inversion Hs; subst st'. apply inv_sset_running; auto.
      rewrite <- Hcl at 1. apply SI_write_cap; auto.
    + inversion Hs; subst st'. apply inv_sset_running; auto.
      apply SI_write_sink; auto.
  - (* EPIPE / SIGPIPE *)
    destruct (captured c s && rclosed (sget st s) && negb (nil_b (rem (sget st s)))) eqn:Hk; [|discriminate].
    apply andb_prop in Hk. destruct Hk as (Hk & K3). apply andb_prop in Hk. destruct Hk as (K1 & K2).
    pose proof (HS s H) as Hx. rewrite Hrun in Hx. cbn [is_run] in Hx.
    destruct die; inversion Hs; subst st'.
    + (* the child dies *)
      destruct H as [h1 h2 hf he hs hk hc hw].
      constructor; st_simpl; cbn [is_run]; auto; try discriminate.
      * eapply SI_run_off; eauto.
      * eapply SI_run_off; eauto.
      * intros _. exists s.
        pose proof (si_closed _ _ _ _ _ Hx K2) as Hd.
        split; [|destruct s; exact Hd].
        destruct (rovf (sget st s)) eqn:Ho; [destruct s; exact Ho|].
        destruct (si_eof _ _ _ _ _ Hx Ho (or_intror Hd)) as (_ & _ & F). discriminate.
      * apply (WI_loop_frame c st); auto.
    + apply inv_sset_running; auto.
      apply SI_epipe; auto.
  - (* exit *)
    destruct (nil_b (rem (st1 st)) && nil_b (rem (st2 st))) eqn:Hk; [|discriminate].
    apply andb_prop in Hk. destruct Hk as (K1 & K2).
    apply nil_b_true in K1. apply nil_b_true in K2.
    inversion Hs; subst st'.
    destruct H as [h1 h2 hf he hs hk hc hw].
    constructor; st_simpl; cbn [is_run]; auto; try discriminate.
    * eapply SI_run_off; eauto.
    * eapply SI_run_off; eauto.
    * apply (WI_loop_frame c st); auto.
Qed.

(* ------------------------------------------------------------------ reader steps *)
Lemma WI_reader_frame : forall c st st',
  WI c st ->
  w st' = w st -> reaped st' = reaped st -> kill_sent st' = kill_sent st -> cs st' = cs st ->
  g_tmo st' = g_tmo st -> clock st' = clock st ->
  (flag st <> 0 -> flag st' = flag st) ->
  (r_pc (st1 st) = RDone -> st1 st' = st1 st) ->
  WI c st'.
Proof.
  intros c st st' H Hw Hre Hk Hc Hg Hcl Hf H1.
  unfold WI in *. rewrite Hw. unfold err_ok, reaped_spec, J1 in *.
  destruct (w st); rewrite ?Hre, ?Hk, ?Hc, ?Hg, ?Hcl; auto.
  destruct H as (A & B & C & D & E). repeat split; auto.
  destruct (captured c S1); auto.
  destruct E as (E1 & E2 & E3 & E4). rewrite (H1 E1). repeat split; auto.
  intros Ho. pose proof (E4 Ho) as F. rewrite Hf; auto. rewrite F. discriminate.
Qed.

Lemma inv_reader_frame : forall c st st' s,
  Inv c st ->
  r_pc (sget st s) <> RDone ->
  sget st' (other s) = sget st (other s) ->
  cs st' = cs st -> reaped st' = reaped st -> kill_sent st' = kill_sent st ->
  clock st' = clock st -> w st' = w st -> g_tmo st' = g_tmo st ->
  rem (sget st' s) = rem (sget st s) ->
  SI c s (sget st' s) (is_run (cs st)) (flag st') ->
  SI c (other s) (sget st (other s)) (is_run (cs st)) (flag st') ->
  (flag st' = 0 \/ flag st' = reader_code S1 \/ flag st' = reader_code S2) ->
  (flag st <> 0 -> flag st' = flag st) ->
  Inv c st'.
Proof.
  intros c st st' s H Hnd Ho Hcs Hre Hk Hcl Hw Hg Hrem Hs Hso Hfl Hf.
  destruct H as [h1 h2 hf he hs hk hc hw].
  assert (WI c st') as W.
  { apply (WI_reader_frame c st); auto.
    intros Hd. destruct s; cbn [sget other] in *; [contradiction | auto]. }
  constructor; auto; rewrite ?Hcs, ?Hk, ?Hg, ?Hcl; auto.
  - destruct s; cbn [sget other] in *; [exact Hs | rewrite Ho; exact Hso].
  - destruct s; cbn [sget other] in *; [rewrite Ho; exact Hso | exact Hs].
  - intros E. destruct (he E) as (A & B).
    destruct s; cbn [sget other] in *; rewrite ?Ho, ?Hrem; auto.
  - intros E. destruct (hs E) as (s0 & A & B).
    exists s0. destruct s, s0; cbn [sget other] in *; try contradiction; rewrite ?Ho; auto.
Qed.

Lemma sget_sset_same : forall st s x, sget (sset st s x) s = x.
Proof. intros st [] x; reflexivity. Qed.

Lemma sget_sset_other : forall st s x, sget (sset st s x) (other s) = sget st (other s).
Proof. intros st [] x; reflexivity. Qed.

Lemma other_neq : forall s, other s <> s.
Proof. intros []; discriminate. Qed.

Lemma inv_reader : forall c st s k st', Inv c st -> reader_step c st s k = Some st' -> Inv c st'.
Proof.
  intros c st s k st' H Hs. unfold reader_step in Hs.
  pose proof (inv_s c st s H) as Hx. pose proof (inv_s c st (other s) H) as Hy.
  destruct (r_pc (sget st s)) eqn:Hp; try discriminate.
  - (* RLoop *)
    destruct (nil_b (pipe (sget st s))) eqn:Hn.
    + destruct (is_run (cs st)) eqn:Hrun; [discriminate|]. inversion Hs; subst st'. clear Hs.
      apply (inv_reader_frame c st _ s); auto;
        rewrite ?sget_sset_same, ?sget_sset_other; try (destruct s; reflexivity);
        try congruence; try (rewrite Hrun).
      * replace (flag (sset st s _)) with (flag st) by (destruct s; reflexivity).
        apply SI_read_eof; auto. apply nil_b_true; auto.
      * replace (flag (sset st s _)) with (flag st) by (destruct s; reflexivity). exact Hy.
      * replace (flag (sset st s _)) with (flag st) by (destruct s; reflexivity).
        apply (inv_flag _ _ H).
    + destruct ((1 <=? Z.of_nat k) && (Z.of_nat k <=? Z.min read_chunk (len (pipe (sget st s))))) eqn:Hk;
        [|discriminate].
      apply andb_prop in Hk. destruct Hk as (K1 & K2). apply Z.leb_le in K2.
      assert (Z.of_nat k <= len (pipe (sget st s))) as K3 by lia.
      destruct (overflows c (len (rbuf (sget st s))) (Z.of_nat k)) eqn:Hov;
        inversion Hs; subst st'; clear Hs.
      * apply (inv_reader_frame c st _ s); auto;
          rewrite ?sget_sset_same, ?sget_sset_other; try (destruct s; reflexivity); try congruence.
        -- replace (flag (sset st s _)) with (flag st) by (destruct s; reflexivity).
           apply SI_read_ovf; auto.
        -- replace (flag (sset st s _)) with (flag st) by (destruct s; reflexivity). exact Hy.
        -- replace (flag (sset st s _)) with (flag st) by (destruct s; reflexivity).
           apply (inv_flag _ _ H).
      * apply (inv_reader_frame c st _ s); auto;
          rewrite ?sget_sset_same, ?sget_sset_other; try (destruct s; reflexivity); try congruence.
        -- replace (flag (sset st s _)) with (flag st) by (destruct s; reflexivity).
           apply SI_read_fit; auto.
        -- replace (flag (sset st s _)) with (flag st) by (destruct s; reflexivity). exact Hy.
        -- replace (flag (sset st s _)) with (flag st) by (destruct s; reflexivity).
           apply (inv_flag _ _ H).
  - (* RFlag *)
    inversion Hs; subst st'; clear Hs.
    apply (inv_reader_frame c st _ s); auto; st_simpl;
      rewrite ?sget_sset_same, ?sget_sset_other; try (destruct s; reflexivity); try congruence.
    + replace (sget (set_flag (sset st s _) _) s) with
        {| rem := rem (sget st s); pipe := pipe (sget st s); rclosed := rclosed (sget st s);
           r_pc := RExit; rbuf := rbuf (sget st s); written := written (sget st s);
           rovf := rovf (sget st s) |} by (destruct s; reflexivity).
      apply SI_flag_self; auto.
    + apply SI_flag_other; auto. intros E. symmetry in E. exact (other_neq s E).
    + rewrite update_flag_cas. destruct (Z.eqb_spec (flag st) 0).
      * destruct s; auto.
      * apply (inv_flag _ _ H).
    + intros Hnz. rewrite update_flag_cas. destruct (Z.eqb_spec (flag st) 0); congruence.
  - (* RExit *)
    inversion Hs; subst st'; clear Hs.
    apply (inv_reader_frame c st _ s); auto;
      rewrite ?sget_sset_same, ?sget_sset_other; try (destruct s; reflexivity); try congruence.
    + replace (flag (sset st s _)) with (flag st) by (destruct s; reflexivity).
      apply SI_exit; auto.
    + replace (flag (sset st s _)) with (flag st) by (destruct s; reflexivity). exact Hy.
    + replace (flag (sset st s _)) with (flag st) by (destruct s; reflexivity).
      apply (inv_flag _ _ H).
Qed.

(* ------------------------------------------------------------------ facts used at the joins *)
Lemma ovf_facts : forall c s x run fl,
  SI c s x run fl -> rovf x = true -> captured c s = true /\ cap c < len (out c s).
Proof.
  intros c s x run fl H Ho. split.
  - destruct (captured c s) eqn:E; auto.
    destruct (si_nocap _ _ _ _ _ H E) as (_ & F & _). congruence.
  - destruct (si_ovf _ _ _ _ _ H Ho) as (A & _).
    destruct (si_out _ _ _ _ _ H) as (d & E & _). rewrite E, !len_app.
    pose proof (len_nonneg (rem x)). pose proof (len_nonneg d). lia.
Qed.

Lemma complete_facts : forall c s x run fl,
  SI c s x run fl -> rovf x = false -> r_pc x = RDone -> rem x = [] ->
  out c s = rbuf x /\ len (out c s) <= cap c.
Proof.
  intros c s x run fl H Ho Hp Hr.
  destruct (si_eof _ _ _ _ _ H Ho (or_intror Hp)) as (A & _).
  destruct (si_out _ _ _ _ _ H) as (d & E & D). rewrite (D Ho), Hr, !app_nil_r, A in E.
  split; auto. rewrite E. apply (si_len _ _ _ _ _ H).
Qed.

Lemma ovf_done_flag : forall c st s,
  Inv c st -> rovf (sget st s) = true -> r_pc (sget st s) = RDone -> flag st <> 0.
Proof.
  intros c st s H Ho Hp. apply (si_flag_set _ _ _ _ _ (inv_s c st s H)); auto.
Qed.

Lemma sigpipe_flag : forall c st, Inv c st -> cs st = CSigpipe -> flag st <> 0.
Proof.
  intros c st H E. destruct (inv_sigpipe _ _ H E) as (s & A & B).
  eapply ovf_done_flag; eauto.
Qed.

Lemma flag_cases : forall c st s,
  Inv c st -> flag st <> 0 -> flag st <> reader_code s ->
  flag st = reader_code (other s) /\ rovf (sget st (other s)) = true.
Proof.
  intros c st s H Hnz Hne.
  assert (flag st = reader_code (other s)) as E.
  { destruct (inv_flag _ _ H) as [F|[F|F]]; destruct s; cbn [other] in *; congruence. }
  split; auto.
  destruct (si_flag_mine _ _ _ _ _ (inv_s c st (other s) H) E); auto.
Qed.

Lemma flag_mine_ovf : forall c st s,
  Inv c st -> flag st = reader_code s -> result_spec c (RErr (EOLE s)).
Proof.
  intros c st s H E. cbn [result_spec].
  destruct (si_flag_mine _ _ _ _ _ (inv_s c st s H) E) as (Ho & _).
  eapply ovf_facts; eauto. apply (inv_s c st s H).
Qed.

Lemma utf8_err_spec : forall c st s,
  Inv c st -> (cs st = CExited \/ cs st = CSigpipe) ->
  r_pc (sget st s) = RDone -> flag st <> reader_code s ->
  utf8_valid (rbuf (sget st s)) = false ->
  result_spec c (RErr (EUtf8 s)).
Proof.
  intros c st s H Hcs Hp Hne Hu. cbn [result_spec].
  pose proof (inv_s c st s H) as Hx.
  assert (captured c s = true) as Hc.
  { destruct (captured c s) eqn:E; auto.
    destruct (si_nocap _ _ _ _ _ Hx E) as (F & _). congruence. }
  split; auto.
  assert (flag st <> 0 -> captured c (other s) = true /\ cap c < len (out c (other s))) as K.
  { intros Hnz. destruct (flag_cases c st s H Hnz Hne) as (_ & Ho).
    eapply ovf_facts; eauto. apply (inv_s c st (other s) H). }
  destruct (rovf (sget st s)) eqn:Ho.
  - right. apply K. eapply ovf_done_flag; eauto.
  - destruct Hcs as [E|E].
    + left. destruct (inv_exited _ _ H E) as (R1 & R2).
      assert (rem (sget st s) = []) as R by (destruct s; auto).
      destruct (complete_facts _ _ _ _ _ Hx Ho Hp R) as (A & _). congruence.
    + right. apply K. eapply sigpipe_flag; eauto.
Qed.

Lemma utf8_err_strict : forall c st s,
  Inv c st -> (cs st = CExited \/ cs st = CSigpipe) ->
  r_pc (sget st s) = RDone -> flag st = 0 ->
  utf8_valid (rbuf (sget st s)) = false ->
  utf8_valid (out c s) = false.
Proof.
  intros c st s H Hcs Hp Hf Hu. pose proof (inv_s c st s H) as Hx.
  destruct (rovf (sget st s)) eqn:Ho.
  - exfalso. apply (ovf_done_flag c st s H Ho Hp). exact Hf.
  - destruct Hcs as [E|E].
    + destruct (inv_exited _ _ H E) as (R1 & R2).
      assert (rem (sget st s) = []) as R by (destruct s; auto).
      destruct (complete_facts _ _ _ _ _ Hx Ho Hp R) as (A & _). congruence.
    + exfalso. apply (sigpipe_flag c st H E). exact Hf.
Qed.

Lemma inv_set_w : forall c st x, Inv c st -> WI c (set_w st x) -> Inv c (set_w st x).
Proof. intros c st x [h1 h2 hf he hs hk hc hw] W. constructor; st_simpl; auto. Qed.

Lemma inv_set_reaped : forall c st x, Inv c st -> WI c (set_reaped st x) -> Inv c (set_reaped st x).
Proof. intros c st x [h1 h2 hf he hs hk hc hw] W. constructor; st_simpl; auto. Qed.

(* join_ok unfolded, for either shape of the post-join re-check (not for a missing one) *)
Definition flag_in_range (st : state) : Prop :=
  flag st = 0 \/ flag st = reader_code S1 \/ flag st = reader_code S2.

Lemma join_ok_m_cases : forall m st s,
  m <> RecheckNone -> flag_in_range st ->
  match join_ok_m m st s with
  | JBlocked => True
  | JNone => r_pc (sget st s) = RNone
  | JSome b => r_pc (sget st s) = RDone /\ flag st <> reader_code s /\
               b = rbuf (sget st s) /\ utf8_valid b = true
  | JErr e => r_pc (sget st s) = RDone /\
              ((exists s', e = EOLE s' /\ flag st = reader_code s') \/
               (e = EUtf8 s /\ flag st <> reader_code s /\ utf8_valid (rbuf (sget st s)) = false /\
                (m = RecheckAny -> flag st = 0)))
  end.
Proof.
  intros m st s Hm Hr. unfold join_ok_m. destruct (r_pc (sget st s)) eqn:Hp; auto.
  change utf8_checked with true. cbn [negb orb].
  destruct m; [contradiction| |]; cbn [recheck].
  - (* own code only *)
    rewrite join_code_is_reader_code.
    destruct (Z.eqb_spec (flag st) (reader_code s)) as [E|E].
    + split; [auto|]. left. exists s. auto.
    + destruct (utf8_valid (rbuf (sget st s))) eqn:Hu.
      * repeat split; auto.
      * split; [auto|]. right. repeat split; auto. discriminate.
  - (* any recorded overflow *)
    destruct (Z.eqb_spec (flag st) 0) as [E|E].
    + assert (flag st <> reader_code s) as N
        by (rewrite E; intros F; symmetry in F; exact (reader_code_nonzero s F)).
      destruct (utf8_valid (rbuf (sget st s))) eqn:Hu.
      * repeat split; auto.
      * split; [auto|]. right. repeat split; auto.
    + split; [auto|]. left. exists (from_code (flag st)). split; auto.
      destruct Hr as [F|[F|F]]; [contradiction| |]; rewrite F at 2; rewrite from_code_reader_code; auto.
Qed.

Lemma recheck_present : join_recheck_mode <> RecheckNone.
Proof. discriminate. Qed.

Lemma join_ok_cases : forall st s,
  flag_in_range st ->
  match join_ok st s with
  | JBlocked => True
  | JNone => r_pc (sget st s) = RNone
  | JSome b => r_pc (sget st s) = RDone /\ flag st <> reader_code s /\
               b = rbuf (sget st s) /\ utf8_valid b = true
  | JErr e => r_pc (sget st s) = RDone /\
              ((exists s', e = EOLE s' /\ flag st = reader_code s') \/
               (e = EUtf8 s /\ flag st <> reader_code s /\ utf8_valid (rbuf (sget st s)) = false /\
                (join_recheck_mode = RecheckAny -> flag st = 0)))
  end.
Proof. intros st s Hr. apply (join_ok_m_cases join_recheck_mode st s recheck_present Hr). Qed.

Lemma nocap_of_rnone : forall c s x run fl, SI c s x run fl -> r_pc x = RNone -> captured c s = false.
Proof.
  intros c s x run fl H Hp. destruct (captured c s) eqn:E; auto.
  exfalso. apply (si_cap _ _ _ _ _ H E Hp).
Qed.

Lemma cap_of_rdone : forall c s x run fl, SI c s x run fl -> r_pc x = RDone -> captured c s = true.
Proof.
  intros c s x run fl H Hp. destruct (captured c s) eqn:E; auto.
  destruct (si_nocap _ _ _ _ _ H E) as (F & _). congruence.
Qed.

Lemma rovf_nocap : forall c s x run fl, SI c s x run fl -> captured c s = false -> rovf x = false.
Proof. intros c s x run fl H E. destruct (si_nocap _ _ _ _ _ H E) as (_ & F & _). auto. Qed.

(* a stream that ran to EOF after a normal exit holds everything *)
Lemma ok_stream_some : forall c st s,
  Inv c st -> cs st = CExited -> r_pc (sget st s) = RDone -> rovf (sget st s) = false ->
  utf8_valid (rbuf (sget st s)) = true ->
  ok_stream c s (Some (rbuf (sget st s))).
Proof.
  intros c st s H E Hp Ho Hu. pose proof (inv_s c st s H) as Hx.
  unfold ok_stream. rewrite (cap_of_rdone _ _ _ _ _ Hx Hp).
  destruct (inv_exited _ _ H E) as (R1 & R2).
  assert (rem (sget st s) = []) as R by (destruct s; auto).
  destruct (complete_facts _ _ _ _ _ Hx Ho Hp R) as (A & B).
  rewrite A at 1. repeat split; auto. rewrite A. auto.
Qed.

Lemma ok_stream_none : forall c st s,
  Inv c st -> r_pc (sget st s) = RNone -> ok_stream c s None.
Proof.
  intros c st s H Hp. unfold ok_stream.
  rewrite (nocap_of_rnone _ _ _ _ _ (inv_s c st s H) Hp). reflexivity.
Qed.

(* ------------------------------------------------------------------ waiter steps *)
Lemma exit_kills_true : forall e, exit_kills e = true.
Proof. intros [s|s|]; reflexivity. Qed.

Lemma inv_kill : forall c st e, Inv c st -> w st = WKill e -> Inv c (do_kill st e true).
Proof.
  intros c st e H Hw. pose proof (inv_w _ _ H) as W. unfold WI in W. rewrite Hw in W.
  destruct W as (Wr & Wk & We).
  destruct H as [h1 h2 hf he hs hk hc hw].
  constructor; st_simpl; auto.
  - destruct (is_run (cs st)) eqn:R; cbn [is_run]; [eapply SI_run_off; eauto|rewrite R; auto].
  - destruct (is_run (cs st)) eqn:R; cbn [is_run]; [eapply SI_run_off; eauto|rewrite R; auto].
  - destruct (is_run (cs st)) eqn:R; [discriminate|auto].
  - destruct (is_run (cs st)) eqn:R; [discriminate|auto].
  - unfold WI; st_simpl. destruct We as (We1 & We2 & We3).
    split; [auto|split]; [|split; [auto|split; auto]].
    destruct (is_run (cs st)) eqn:R; [discriminate|apply is_run_false; auto].
Qed.

Lemma J1_ok_stream : forall c st o1,
  Inv c st -> cs st = CExited -> J1 c st o1 -> rovf (st1 st) = false -> ok_stream c S1 o1.
Proof.
  intros c st o1 H E J Ho. unfold J1 in J. destruct (captured c S1) eqn:Hc.
  - destruct J as (Jp & Jo & Ju & _). subst o1.
    apply (ok_stream_some c st S1); auto.
  - unfold ok_stream. rewrite Hc. auto.
Qed.

(* a join that fails on the success path: the three parts of WI at WDone *)
Lemma join_err_done : forall c st s e,
  Inv c st -> reaped st = true -> kill_sent st = false -> (cs st = CExited \/ cs st = CSigpipe) ->
  r_pc (sget st s) = RDone ->
  ((exists s', e = EOLE s' /\ flag st = reader_code s') \/
   (e = EUtf8 s /\ flag st <> reader_code s /\ utf8_valid (rbuf (sget st s)) = false /\
    (join_recheck_mode = RecheckAny -> flag st = 0))) ->
  WI c (set_w st (WDone (RErr e))).
Proof.
  intros c st s e H A B C Jp J. unfold WI; st_simpl.
  assert (reaped_spec c (set_w st (WDone (RErr e))) (RErr e)) as RS.
  { unfold reaped_spec; st_simpl. repeat split; auto; try (destruct C; congruence).
    destruct J as [(s' & Je & _)|(Je & _)]; subst e; auto. }
  destruct J as [(s' & Je & Jf)|(Je & Jf & Ju & Jm)]; subst e.
  - split; [apply (flag_mine_ovf c st); auto|]. split; [exact RS|]. intros _. exact I.
  - split; [apply (utf8_err_spec c st s); auto|]. split; [exact RS|].
    intros M. cbn [strict_spec]. apply (utf8_err_strict c st s); auto.
Qed.

Lemma inv_waiter : forall c st st', Inv c st -> waiter_step c st = Some st' -> Inv c st'.
Proof.
  intros c st st' H Hs. unfold waiter_step in Hs.
  pose proof (inv_w _ _ H) as W. unfold WI in W.
  pose proof (inv_flag _ _ H) as FR. fold (flag_in_range st) in FR.
  destruct (w st) eqn:Hw.
  - (* WFlag *)
    destruct (Z.eqb_spec (flag st) 0) as [E|E]; inversion Hs; subst st'; apply inv_set_w; auto;
      unfold WI; st_simpl; auto.
    destruct W as (A & B). split; [auto|split; [auto|]]. split; [|split; discriminate].
    assert (flag st = reader_code (from_code (flag st))) as F.
    { destruct (inv_flag _ _ H) as [F|[F|F]]; [contradiction| |]; rewrite F at 2;
        rewrite from_code_reader_code; auto. }
    apply (flag_mine_ovf c st); auto.
  - (* WTry *)
    destruct (is_run (cs st)) eqn:R; inversion Hs; subst st'.
    + apply inv_set_w; auto.
    + apply inv_set_reaped; auto. unfold WI; st_simpl. destruct W as (A & B).
      repeat split; auto.
      destruct (cs st) eqn:E; auto; try discriminate.
      pose proof (inv_killed _ _ H E). congruence.
  - (* WDeadline *)
    destruct (deadline_passed c st) eqn:D; inversion Hs; subst st'.
    + destruct W as (A & B). destruct H as [h1 h2 hf he hs hk hc hw].
      constructor; st_simpl; auto.
      * intros t Ht. inversion Ht; subst t. unfold deadline_passed in D.
        change deadline_ge with true in D. cbv iota in D. apply Z.leb_le in D. lia.
      * unfold WI; st_simpl. split; [auto|split; [auto|]]. split; [exact I|split].
        -- intros _. exists (clock st). reflexivity.
        -- discriminate.
    + apply inv_set_w; auto.
  - (* WSleep *)
    destruct (until <=? clock st); inversion Hs; subst st'. apply inv_set_w; auto.
  - (* WKill *)
    inversion Hs; subst st'. rewrite exit_kills_true. apply inv_kill; auto.
  - (* WWait *)
    destruct (is_run (cs st)) eqn:R; inversion Hs; subst st'.
    apply inv_set_reaped; auto. unfold WI; st_simpl. destruct W as (A & B & C). auto.
  - (* EJoin1 *)
    destruct (joined st S1); inversion Hs; subst st'. apply inv_set_w; auto.
  - (* EJoin2 *)
    destruct (joined st S2); inversion Hs; subst st'. apply inv_set_w; auto.
    unfold WI; st_simpl. destruct W as (A & B & C & (D & D' & D'')). split; [auto|split].
    + unfold reaped_spec; st_simpl. repeat split; auto.
      destruct e as [s|s|]; auto. split; auto.
      destruct (D' eq_refl) as (t & Ht). exists t. split; auto. apply (inv_clock _ _ H); auto.
    + intros _. destruct e as [s|s|]; cbn [strict_spec]; auto. exfalso. apply (D'' s). reflexivity.
  - (* OJoin1 *)
    destruct W as (A & B & C & D).
    pose proof (join_ok_cases st S1 FR) as J. pose proof (inv_s c st S1 H) as Hx.
    destruct (join_ok st S1) as [| |b|e]; inversion Hs; subst st'; apply inv_set_w; auto.
    + unfold WI; st_simpl. repeat split; auto. unfold J1. st_simpl.
      cbn [sget] in J. rewrite (nocap_of_rnone _ _ _ _ _ Hx J). auto.
    + unfold WI; st_simpl. destruct J as (Jp & Jf & Jb & Ju). cbn [sget] in *. subst b.
      repeat split; auto. unfold J1; st_simpl. rewrite (cap_of_rdone _ _ _ _ _ Hx Jp).
      repeat split; auto. intros Ho.
      destruct (flag_cases c st S1 H) as (F & _); auto.
      apply (ovf_done_flag c st S1); auto.
    + destruct J as (Jp & J). apply (join_err_done c st S1 e H A B C Jp J).
  - (* OJoin2 *)
    destruct W as (A & B & C & D & J1').
    pose proof (join_ok_cases st S2 FR) as J. pose proof (inv_s c st S2 H) as Hy.
    pose proof (inv_s c st S1 H) as Hx. cbn [sget] in Hx, Hy.
    (* if stdout overflowed, the flag names stderr *)
    assert (rovf (st1 st) = true -> flag st = reader_code S2) as K1.
    { intros Ho. unfold J1 in J1'. destruct (captured c S1) eqn:Hc.
      - destruct J1' as (_ & _ & _ & F). auto.
      - rewrite (rovf_nocap _ _ _ _ _ Hx Hc) in Ho. discriminate. }
    destruct (join_ok st S2) as [| |b|e]; inversion Hs; subst st'; apply inv_set_w; auto.
    + (* stderr not captured *)
      unfold WI; st_simpl. cbn [sget] in J.
      assert (rovf (st1 st) = false) as O1.
      { destruct (rovf (st1 st)) eqn:Ho; auto. pose proof (K1 eq_refl) as F.
        destruct (si_flag_mine _ _ _ _ _ Hy F) as (_ & [P|P]); congruence. }
      assert (cs st = CExited) as E.
      { destruct C as [E|E]; auto. exfalso.
        destruct (inv_sigpipe _ _ H E) as (s0 & Q1 & Q2). destruct s0; cbn [sget] in *; congruence. }
      split; [|split; [|intros _; exact I]].
      * cbn [result_spec]. rewrite D, E. repeat split; auto.
        -- apply (J1_ok_stream c st); auto.
        -- apply (ok_stream_none c st S2); auto.
      * unfold reaped_spec; st_simpl. repeat split; auto. rewrite E; discriminate.
    + unfold WI; st_simpl. destruct J as (Jp & Jf & Jb & Ju). cbn [sget] in *. subst b.
      assert (rovf (st1 st) = false) as O1.
      { destruct (rovf (st1 st)) eqn:Ho; auto. pose proof (K1 eq_refl). congruence. }
      assert (rovf (st2 st) = false) as O2.
      { destruct (rovf (st2 st)) eqn:Ho; auto. exfalso.
        assert (flag st <> 0) as Hnz by (apply (ovf_done_flag c st S2); auto).
        destruct (flag_cases c st S2 H Hnz Jf) as (_ & Q). cbn [other sget] in Q. congruence. }
      assert (cs st = CExited) as E.
      { destruct C as [E|E]; auto. exfalso.
        destruct (inv_sigpipe _ _ H E) as (s0 & Q1 & Q2). destruct s0; cbn [sget] in *; congruence. }
      split; [|split; [|intros _; exact I]].
      * cbn [result_spec]. rewrite D, E. repeat split; auto.
        -- apply (J1_ok_stream c st); auto.
        -- apply (ok_stream_some c st S2); auto.
      * unfold reaped_spec; st_simpl. repeat split; auto. rewrite E; discriminate.
    + destruct J as (Jp & J). apply (join_err_done c st S2 e H A B C Jp J).
  - discriminate.
Qed.

(* ------------------------------------------------------------------ main theorems *)
Lemma step_inv : forall c st ch st', Inv c st -> step c st ch = Some st' -> Inv c st'.
Proof.
  intros c st ch st' H Hs. destruct ch as [|a|s k|]; cbn [step] in Hs.
  - inversion Hs; subst st'. apply inv_tick; auto.
  - eapply inv_child; eauto.
  - eapply inv_reader; eauto.
  - eapply inv_waiter; eauto.
Qed.

Lemma reachable_inv : forall c st, cfg_ok c -> reachable c st -> Inv c st.
Proof.
  intros c st Hc R. induction R.
  - apply Inv_init; auto.
  - eapply step_inv; eauto.
Qed.

Lemma run_reachable : forall c sched st, reachable c st -> reachable c (run c sched st).
Proof.
  intros c sched. induction sched as [|ch tl IH]; intros st R; cbn [run fold_left]; auto.
  apply IH. unfold step_skip. destruct (step c st ch) eqn:E; auto.
  eapply reach_step; eauto.
Qed.

Lemma reachable_is_run : forall c st, reachable c st -> exists sched, st = run c sched (init c).
Proof.
  intros c st R. induction R.
  - exists []. reflexivity.
  - destruct IHR as (sched & E). exists (sched ++ [ch]).
    unfold run. rewrite fold_left_app. cbn [fold_left]. fold (run c sched (init c)). rewrite <- E.
    unfold step_skip. rewrite H. reflexivity.
Qed.

(* FULL STATEMENT (proved): for every configuration, every schedule — every interleaving of
   child, readers, waiter and clock, every split of reads and writes, every reaction of the child
   to a closed pipe — if the waiter has returned r then r satisfies result_spec and the child is
   reaped (reaped_spec). *)
Lemma capture_complete_or_error_lemma : forall c sched r,
  cfg_ok c ->
  w (run c sched (init c)) = WDone r ->
  result_spec c r /\ reaped_spec c (run c sched (init c)) r.
Proof.
  intros c sched r Hc Hw.
  pose proof (reachable_inv c _ Hc (run_reachable c sched _ (reach_init c))) as H.
  pose proof (inv_w _ _ H) as W. unfold WI in W. rewrite Hw in W.
  destruct W as (A & B & _). auto.
Qed.

(* With the any-overflow re-check the InvalidUtf8 clause is exact. *)
Lemma error_kind_exact_lemma : forall c sched s,
  join_recheck_mode = RecheckAny ->
  cfg_ok c ->
  w (run c sched (init c)) = WDone (RErr (EUtf8 s)) ->
  captured c s = true /\ utf8_valid (out c s) = false.
Proof.
  intros c sched s M Hc Hw.
  pose proof (reachable_inv c _ Hc (run_reachable c sched _ (reach_init c))) as H.
  pose proof (inv_w _ _ H) as W. unfold WI in W. rewrite Hw in W.
  destruct W as ((A & _) & _ & C). split; auto. apply (C M).
Qed.

Lemma strict_lemma : forall c sched r,
  cfg_ok c -> w (run c sched (init c)) = WDone r ->
  join_recheck_mode = RecheckAny -> strict_spec c r.
Proof.
  intros c sched r Hc Hw.
  pose proof (reachable_inv c _ Hc (run_reachable c sched _ (reach_init c))) as H.
  pose proof (inv_w _ _ H) as W. unfold WI in W. rewrite Hw in W.
  destruct W as (_ & _ & C). exact C.
Qed.

Lemma capture_reachable_lemma : forall c st r,
  cfg_ok c -> reachable c st -> w st = WDone r -> result_spec c r /\ reaped_spec c st r.
Proof.
  intros c st r Hc R Hw. pose proof (reachable_inv c _ Hc R) as H.
  pose proof (inv_w _ _ H) as W. unfold WI in W. rewrite Hw in W.
  destruct W as (A & B & _). auto.
Qed.

Lemma child_reaped_lemma : forall c sched r,
  cfg_ok c -> w (run c sched (init c)) = WDone r ->
  let st := run c sched (init c) in
  reaped st = true /\ cs st <> CRun /\
  (match r with ROk _ _ _ => cs st = CExited /\ kill_sent st = false | _ => True end) /\
  (r = RErr ETimeout -> kill_sent st = true) /\
  (kill_sent st = true \/ cs st = CExited \/ cs st = CSigpipe).
Proof.
  intros c sched r Hc Hw st.
  destruct (capture_complete_or_error_lemma c sched r Hc Hw) as (_ & A & B & C & D).
  fold st in A, B, C, D. repeat split; auto.
  - destruct r as [o1 o2 code|e]; auto.
  - intros E; subst r. destruct D; auto.
Qed.

(* the corollaries in the words of the property *)
Lemma never_truncated_lemma : forall c sched o1 o2 code s,
  cfg_ok c -> w (run c sched (init c)) = WDone (ROk o1 o2 code) ->
  captured c s = true ->
  (match s with S1 => o1 | S2 => o2 end) = Some (out c s) /\
  len (out c s) <= cap c /\ utf8_valid (out c s) = true.
Proof.
  intros c sched o1 o2 code s Hc Hw Hcap.
  destruct (capture_complete_or_error_lemma c sched _ Hc Hw) as ((_ & A & B) & _).
  unfold ok_stream in A, B. destruct s; rewrite Hcap in *; auto.
Qed.

Lemma uncaptured_is_null_lemma : forall c sched o1 o2 code s,
  cfg_ok c -> w (run c sched (init c)) = WDone (ROk o1 o2 code) ->
  captured c s = false -> (match s with S1 => o1 | S2 => o2 end) = None.
Proof.
  intros c sched o1 o2 code s Hc Hw Hcap.
  destruct (capture_complete_or_error_lemma c sched _ Hc Hw) as ((_ & A & B) & _).
  unfold ok_stream in A, B. destruct s; rewrite Hcap in *; auto.
Qed.

Lemma over_limit_is_error_lemma : forall c sched r s,
  cfg_ok c -> w (run c sched (init c)) = WDone r ->
  captured c s = true -> cap c < len (out c s) -> exists e, r = RErr e.
Proof.
  intros c sched r s Hc Hw Hcap Hlen. destruct r as [o1 o2 code|e]; eauto.
  destruct (never_truncated_lemma c sched o1 o2 code s Hc Hw Hcap) as (_ & A & _). lia.
Qed.

Lemma invalid_utf8_is_error_lemma : forall c sched r s,
  cfg_ok c -> w (run c sched (init c)) = WDone r ->
  captured c s = true -> utf8_valid (out c s) = false -> exists e, r = RErr e.
Proof.
  intros c sched r s Hc Hw Hcap Hu. destruct r as [o1 o2 code|e]; eauto.
  destruct (never_truncated_lemma c sched o1 o2 code s Hc Hw Hcap) as (_ & _ & A). congruence.
Qed.

(* an error names a condition that really holds; the only imprecise case is InvalidUtf8 s for a
   child whose s-output is valid: then the OTHER stream exceeded its limit (see
   misattributed_utf8_reachable below) *)
Lemma error_is_justified_lemma : forall c sched e,
  cfg_ok c -> w (run c sched (init c)) = WDone (RErr e) ->
  match e with
  | EOLE s => captured c s = true /\ cap c < len (out c s)
  | EUtf8 s => captured c s = true /\
               (utf8_valid (out c s) = false \/
                (captured c (other s) = true /\ cap c < len (out c (other s))))
  | ETimeout => exists t, g_tmo (run c sched (init c)) = Some t /\ timeout c <= t /\
                          t <= clock (run c sched (init c))
  end.
Proof.
  intros c sched e Hc Hw.
  destruct (capture_complete_or_error_lemma c sched _ Hc Hw) as (A & (_ & _ & _ & B)).
  destruct e as [s|s|]; cbn [result_spec] in A; auto. destruct B; auto.
Qed.

(* the executable judgement used by the model executable is implied by the theorem *)
Lemma opt_eqb_refl : forall o, opt_eqb o o = true.
Proof. intros [x|]; cbn; auto. destruct (list_eq_dec Z.eq_dec x x); auto. Qed.

Lemma outcome_ok_m_complete : forall m c r,
  result_spec c r -> (m = RecheckAny -> strict_spec c r) -> outcome_ok_m m c r = true.
Proof.
  intros m c r A S.
  destruct r as [o1 o2 code|[s|s|]]; cbn [result_spec outcome_ok_m strict_spec] in *.
  - destruct A as (A1 & A2 & A3). subst code.
    replace (match ecode c with Some z => match ecode c with Some z' => z =? z' | None => false end
             | None => match ecode c with Some _ => false | None => true end end) with true
      by (destruct (ecode c); [rewrite Z.eqb_refl|]; reflexivity).
    cbn [andb].
    assert (forall s o, ok_stream c s o -> ok_stream_b c s o = true) as K.
    { intros s o. unfold ok_stream, ok_stream_b. destruct (captured c s).
      - intros (E1 & E2 & E3). subst o. rewrite opt_eqb_refl, E3.
        apply Z.leb_le in E2. rewrite E2. reflexivity.
      - intros E; subst o. reflexivity. }
    rewrite (K S1 o1 A2), (K S2 o2 A3). reflexivity.
  - destruct A as (A1 & A2). rewrite A1. apply Z.ltb_lt in A2. rewrite A2. reflexivity.
  - destruct A as (A1 & A2). rewrite A1. cbn [andb].
    destruct m.
    + destruct A2 as [A2|(A2 & A3)]; [rewrite A2; reflexivity|].
      rewrite A2. apply Z.ltb_lt in A3. rewrite A3. apply orb_true_r.
    + destruct A2 as [A2|(A2 & A3)]; [rewrite A2; reflexivity|].
      rewrite A2. apply Z.ltb_lt in A3. rewrite A3. apply orb_true_r.
    + rewrite (S eq_refl). reflexivity.
  - reflexivity.
Qed.

Lemma outcome_ok_complete_lemma : forall c sched r,
  cfg_ok c -> w (run c sched (init c)) = WDone r -> outcome_ok c r = true.
Proof.
  intros c sched r Hc Hw. unfold outcome_ok. apply outcome_ok_m_complete.
  - apply (capture_complete_or_error_lemma c sched r Hc Hw).
  - apply (strict_lemma c sched r Hc Hw).
Qed.

(* ------------------------------------------------------------------ error exits are final *)
Definition pending (x : wpc) : option perr :=
  match x with
  | WKill e | WWait e | EJoin1 e | EJoin2 e | WDone (RErr e) => Some e
  | _ => None
  end.

Lemma pending_step : forall c st ch st' e,
  step c st ch = Some st' -> pending (w st) = Some e -> pending (w st') = Some e.
Proof.
  intros c st ch st' e Hs Hp. destruct ch as [|a|s k|]; cbn [step] in Hs.
  - inversion Hs; subst st'. exact Hp.
  - unfold child_step in Hs. destruct (negb (is_run (cs st))); [discriminate|].
    destruct a as [s k|s die|].
    + destruct ((1 <=? Z.of_nat k) && (Z.of_nat k <=? len (rem (sget st s)))); [|discriminate].
      destruct (captured c s).
      * destruct (rclosed (sget st s)); [discriminate|].
        destruct (Z.of_nat k <=? pcap c - len (pipe (sget st s))); [|discriminate].
        inversion Hs; subst st'. destruct s; exact Hp.
      * inversion Hs; subst st'. destruct s; exact Hp.
    + destruct (captured c s && rclosed (sget st s) && negb (nil_b (rem (sget st s)))); [|discriminate].
      destruct die; inversion Hs; subst st'; [exact Hp | destruct s; exact Hp].
    + destruct (nil_b (rem (st1 st)) && nil_b (rem (st2 st))); [|discriminate].
      inversion Hs; subst st'. exact Hp.
  - unfold reader_step in Hs. destruct (r_pc (sget st s)); try discriminate.
    + destruct (nil_b (pipe (sget st s))).
      * destruct (is_run (cs st)); [discriminate|]. inversion Hs; subst st'. destruct s; exact Hp.
      * destruct ((1 <=? Z.of_nat k) && (Z.of_nat k <=? Z.min read_chunk (len (pipe (sget st s)))));
          [|discriminate].
        destruct (overflows c (len (rbuf (sget st s))) (Z.of_nat k));
          inversion Hs; subst st'; destruct s; exact Hp.
    + inversion Hs; subst st'. destruct s; exact Hp.
    + inversion Hs; subst st'. destruct s; exact Hp.
  - unfold waiter_step in Hs. destruct (w st) eqn:Hw; cbn [pending] in Hp; try discriminate.
    + inversion Hp; subst e0. inversion Hs; subst st'. reflexivity.
    + inversion Hp; subst e0. destruct (is_run (cs st)); inversion Hs; subst st'. reflexivity.
    + inversion Hp; subst e0. destruct (joined st S1); inversion Hs; subst st'. reflexivity.
    + inversion Hp; subst e0. destruct (joined st S2); inversion Hs; subst st'. reflexivity.
Qed.

Lemma pending_run : forall c sched st e,
  pending (w st) = Some e -> pending (w (run c sched st)) = Some e.
Proof.
  intros c sched. induction sched as [|ch tl IH]; intros st e Hp; cbn [run fold_left]; auto.
  apply IH. unfold step_skip. destruct (step c st ch) eqn:E; auto.
  eapply pending_step; eauto.
Qed.

Lemma pending_done : forall x e r, pending x = Some e -> x = WDone r -> r = RErr e.
Proof. intros x e r Hp E; subst x. cbn in Hp. destruct r; congruence. Qed.

(* the deadline test firing (clock >= timeout while try_wait just said "still running") fixes
   the outcome: whatever happens next, the run can only end in Err Timeout, after a kill *)
Lemma deadline_forces_timeout_lemma : forall c st,
  w st = WDeadline -> timeout c <= clock st ->
  exists st', step c st Waiter = Some st' /\
    forall sched r, w (run c sched st') = WDone r -> r = RErr ETimeout.
Proof.
  intros c st Hw Ht. cbn [step]. unfold waiter_step. rewrite Hw.
  unfold deadline_passed. change deadline_ge with true. cbv iota.
  apply Z.leb_le in Ht. rewrite Ht. eexists. split; [reflexivity|].
  intros sched r Hr. eapply pending_done; [|exact Hr]. apply pending_run. reflexivity.
Qed.

(* the waiter seeing the flag set fixes the outcome as well *)
Lemma flag_seen_forces_limit_error_lemma : forall c st,
  w st = WFlag -> flag st <> 0 ->
  exists st', step c st Waiter = Some st' /\
    forall sched r, w (run c sched st') = WDone r -> r = RErr (EOLE (from_code (flag st))).
Proof.
  intros c st Hw Hf. cbn [step]. unfold waiter_step. rewrite Hw.
  destruct (Z.eqb_spec (flag st) 0); [contradiction|]. eexists. split; [reflexivity|].
  intros sched r Hr. eapply pending_done; [|exact Hr]. apply pending_run. reflexivity.
Qed.

(* ------------------------------------------------------------------ a reachable imprecision *)
(* Both streams exceed the limit; stderr's reader wins the compare-exchange; stdout's reader had
   already kept a prefix that ends inside a multi-byte character; the child has exited, so the
   waiter takes the success path, stdout's join sees flag = 2 <> 1 and validates the PREFIX:
   Err (InvalidUtf8 stdout) although everything the child wrote to stdout is valid UTF-8.
   The run is still an error (never Ok), but the kind names the wrong condition. *)
Definition mis_cfg : cfg :=
  {| pol1 := PCapture; pol2 := PCapture; cap := 4; timeout := 1000; poll := 10; pcap := 65536;
     out1 := [226; 130; 172; 226; 130; 172]; out2 := [120; 120; 120; 120; 120]; ecode := Some 0 |}.
Definition mis_sched : list choice :=
  [Waiter; Child (CWrite S1 6); Child (CWrite S2 5); Child CExit;
   Reader S2 5; Reader S2 0; Reader S1 4; Reader S1 2; Reader S1 0; Reader S1 0; Reader S2 0;
   Waiter; Waiter].

Lemma misattributed_utf8_reachable :
  join_recheck_mode = RecheckOwn ->
  utf8_valid (out1 mis_cfg) = true /\
  run_outcome mis_cfg mis_sched = Finished (RErr (EUtf8 S1)).
Proof. intros M. vm_compute in M. first [discriminate M | split; vm_compute; reflexivity]. Qed.

(* the same schedule under the any-overflow re-check ends in the limit error of stderr *)
Lemma misattribution_repaired :
  join_recheck_mode = RecheckAny ->
  run_outcome mis_cfg mis_sched = Finished (RErr (EOLE S2)).
Proof. intros M. vm_compute in M. first [discriminate M | vm_compute; reflexivity]. Qed.

(* ------------------------------------------------------------------ the protocol cannot get stuck *)
(* A measure that some enabled step always decreases (child steps are never needed): the readers
   drain what is in their pipes and return; the waiter's loop is paid for by the clock. *)
Definition rrank (x : strm) : nat :=
  match r_pc x with
  | RNone | RDone => 0
  | RExit => 1
  | RFlag => 2
  | RLoop => 3 + length (pipe x)
  end%nat.

Definition pollp (c : cfg) : Z := Z.max (poll c) poll_min.
Definition kfac (c : cfg) : nat := (Z.to_nat (pollp c) + 4)%nat.
Definition togo (c : cfg) (t : Z) : nat := Z.to_nat (timeout c - t).

Definition wrank (c : cfg) (st : state) : nat :=
  match w st with
  | WFlag => 10 + kfac c * togo c (clock st) + 3
  | WTry => 10 + kfac c * togo c (clock st) + 2
  | WDeadline => 10 + kfac c * togo c (clock st) + 1
  | WSleep u => 10 + kfac c * togo c (Z.max (clock st) u) + 4 + Z.to_nat (u - clock st)
  | WKill _ => 6
  | WWait _ => 5
  | EJoin1 _ | OJoin1 _ => 4
  | EJoin2 _ | OJoin2 _ _ => 3
  | WDone _ => 0
  end%nat.

Definition mu (c : cfg) (st : state) : nat := (wrank c st + rrank (st1 st) + rrank (st2 st))%nat.

Lemma pollp_pos : forall c, 1 <= pollp c.
Proof. intros c. unfold pollp. change poll_min with 1. lia. Qed.

Lemma read_chunk_pos : 1 <= read_chunk.
Proof. unfold read_chunk. lia. Qed.

(* a reader whose writer is gone always has a step, and it lowers its rank *)
Lemma reader_progress : forall c st s,
  cs st <> CRun -> joined st s = false ->
  exists st', reader_step c st s 1 = Some st' /\
    (rrank (sget st' s) < rrank (sget st s))%nat /\
    sget st' (other s) = sget st (other s) /\ w st' = w st /\ clock st' = clock st.
Proof.
  intros c st s Hc Hj. unfold joined in Hj. unfold reader_step.
  assert (is_run (cs st) = false) as R by (destruct (cs st); auto; congruence).
  destruct (r_pc (sget st s)) eqn:Hp; try discriminate.
  - destruct (pipe (sget st s)) as [|b tl] eqn:Hpipe; cbn [nil_b].
    + rewrite R. eexists. split; [reflexivity|].
      rewrite sget_sset_same, sget_sset_other. unfold rrank. cbn [r_pc]. rewrite Hp, Hpipe.
      repeat split; try (destruct s; reflexivity). cbn. lia.
    + assert ((1 <=? Z.of_nat 1) && (Z.of_nat 1 <=? Z.min read_chunk (len (b :: tl))) = true) as K.
      { apply andb_true_intro. split; [reflexivity|]. apply Z.leb_le.
        pose proof read_chunk_pos. unfold len. cbn [length]. lia. }
      rewrite K.
      destruct (overflows c (len (rbuf (sget st s))) (Z.of_nat 1)); eexists; (split; [reflexivity|]);
        rewrite sget_sset_same, sget_sset_other; unfold rrank; cbn [r_pc pipe skipn]; rewrite Hp, Hpipe;
        repeat split; try (destruct s; reflexivity); cbn [length]; lia.
  - eexists. split; [reflexivity|].
    replace (sget (set_flag (sset st s _) _) s) with
      {| rem := rem (sget st s); pipe := pipe (sget st s); rclosed := rclosed (sget st s);
         r_pc := RExit; rbuf := rbuf (sget st s); written := written (sget st s);
         rovf := rovf (sget st s) |} by (destruct s; reflexivity).
    unfold rrank. cbn [r_pc]. rewrite Hp.
    repeat split; try (destruct s; reflexivity). lia.
  - eexists. split; [reflexivity|].
    rewrite sget_sset_same, sget_sset_other. unfold rrank. cbn [r_pc]. rewrite Hp.
    repeat split; try (destruct s; reflexivity). lia.
Qed.

Lemma mu_reader : forall c st st' s,
  (rrank (sget st' s) < rrank (sget st s))%nat ->
  sget st' (other s) = sget st (other s) -> w st' = w st -> clock st' = clock st ->
  (mu c st' < mu c st)%nat.
Proof.
  intros c st st' s Hr Ho Hw Hc. unfold mu, wrank. rewrite Hw, Hc.
  destruct s; cbn [sget other] in *; rewrite Ho; lia.
Qed.

Lemma mu_waiter : forall c st st',
  st1 st' = st1 st -> st2 st' = st2 st -> (wrank c st' < wrank c st)%nat -> (mu c st' < mu c st)%nat.
Proof. intros c st st' H1 H2 H. unfold mu. rewrite H1, H2. lia. Qed.

Lemma join_blocked_not_joined : forall st s, join_ok st s = JBlocked -> joined st s = false.
Proof.
  intros st s. unfold join_ok, join_ok_m, joined. destruct (r_pc (sget st s)); auto; try discriminate.
  destruct (recheck join_recheck_mode st s); [discriminate|].
  destruct (negb utf8_checked || utf8_valid (rbuf (sget st s))); discriminate.
Qed.

Lemma progress : forall c st,
  Inv c st -> (forall r, w st <> WDone r) ->
  exists ch st', step c st ch = Some st' /\ (mu c st' < mu c st)%nat.
Proof.
  intros c st H Hnd. pose proof (inv_w _ _ H) as W. unfold WI in W.
  assert (forall s, cs st <> CRun -> joined st s = false ->
          exists ch st', step c st ch = Some st' /\ (mu c st' < mu c st)%nat) as RD.
  { intros s Hc Hj. destruct (reader_progress c st s Hc Hj) as (st' & A & B & C & D & E).
    exists (Reader s 1), st'. split; [exact A|]. eapply mu_reader; eauto. }
  destruct (w st) eqn:Hw.
  - (* WFlag *)
    exists Waiter. cbn [step]. unfold waiter_step. rewrite Hw.
    destruct (flag st =? 0); eexists; (split; [reflexivity|]); apply mu_waiter; auto;
      unfold wrank; st_simpl; rewrite Hw; lia.
  - exists Waiter. cbn [step]. unfold waiter_step. rewrite Hw.
    destruct (is_run (cs st)); eexists; (split; [reflexivity|]); apply mu_waiter; auto;
      unfold wrank; st_simpl; rewrite Hw; lia.
  - (* WDeadline *)
    exists Waiter. cbn [step]. unfold waiter_step. rewrite Hw.
    destruct (deadline_passed c st) eqn:D; eexists; (split; [reflexivity|]); apply mu_waiter; auto;
      unfold wrank; st_simpl; rewrite Hw; [lia|].
    unfold deadline_passed in D. change deadline_ge with true in D. cbv iota in D.
    apply Z.leb_gt in D. fold (pollp c). pose proof (pollp_pos c) as P.
    replace (Z.max (clock st) (clock st + pollp c)) with (clock st + pollp c) by lia.
    replace (clock st + pollp c - clock st) with (pollp c) by lia.
    unfold togo, kfac.
    assert (Z.to_nat (timeout c - (clock st + pollp c)) + 1 <= Z.to_nat (timeout c - clock st))%nat as Q by lia.
    apply (Nat.mul_le_mono_l _ _ (Z.to_nat (pollp c) + 4)) in Q.
    rewrite Nat.mul_add_distr_l, Nat.mul_1_r in Q. lia.
  - (* WSleep *)
    destruct (Z.leb_spec until (clock st)) as [L|L].
    + exists Waiter. cbn [step]. unfold waiter_step. rewrite Hw.
      apply Z.leb_le in L. rewrite L. apply Z.leb_le in L.
      eexists; (split; [reflexivity|]); apply mu_waiter; auto.
      unfold wrank; st_simpl; rewrite Hw.
      replace (Z.max (clock st) until) with (clock st) by lia. lia.
    + exists Tick. eexists. split; [reflexivity|]. apply mu_waiter; auto.
      unfold wrank; st_simpl; rewrite Hw.
      replace (Z.max (clock st + 1) until) with until by lia.
      replace (Z.max (clock st) until) with until by lia. lia.
  - exists Waiter. cbn [step]. unfold waiter_step. rewrite Hw.
    eexists; (split; [reflexivity|]); apply mu_waiter; auto.
    unfold wrank, do_kill; cbn [w]; rewrite Hw; lia.
  - (* WWait *)
    destruct W as (A & B & C).
    exists Waiter. cbn [step]. unfold waiter_step. rewrite Hw.
    assert (is_run (cs st) = false) as R by (destruct (cs st); auto; congruence). rewrite R.
    eexists; (split; [reflexivity|]); apply mu_waiter; auto.
    unfold wrank; st_simpl; rewrite Hw; lia.
  - (* EJoin1 *)
    destruct W as (A & B & C & D).
    destruct (joined st S1) eqn:J; [|apply (RD S1); auto].
    exists Waiter. cbn [step]. unfold waiter_step. rewrite Hw, J.
    eexists; (split; [reflexivity|]); apply mu_waiter; auto.
    unfold wrank; st_simpl; rewrite Hw; lia.
  - destruct W as (A & B & C & D).
    destruct (joined st S2) eqn:J; [|apply (RD S2); auto].
    exists Waiter. cbn [step]. unfold waiter_step. rewrite Hw, J.
    eexists; (split; [reflexivity|]); apply mu_waiter; auto.
    unfold wrank; st_simpl; rewrite Hw; lia.
  - (* OJoin1 *)
    destruct W as (A & B & C & D).
    assert (cs st <> CRun) as NR by (destruct C; congruence).
    destruct (join_ok st S1) eqn:J.
    + apply (RD S1); auto. apply join_blocked_not_joined; auto.
    + exists Waiter. cbn [step]. unfold waiter_step. rewrite Hw, J.
      eexists; (split; [reflexivity|]); apply mu_waiter; auto. unfold wrank; st_simpl; rewrite Hw; lia.
    + exists Waiter. cbn [step]. unfold waiter_step. rewrite Hw, J.
      eexists; (split; [reflexivity|]); apply mu_waiter; auto. unfold wrank; st_simpl; rewrite Hw; lia.
    + exists Waiter. cbn [step]. unfold waiter_step. rewrite Hw, J.
      eexists; (split; [reflexivity|]); apply mu_waiter; auto. unfold wrank; st_simpl; rewrite Hw; lia.
  - destruct W as (A & B & C & D).
    assert (cs st <> CRun) as NR by (destruct C; congruence).
    destruct (join_ok st S2) eqn:J.
    + apply (RD S2); auto. apply join_blocked_not_joined; auto.
    + exists Waiter. cbn [step]. unfold waiter_step. rewrite Hw, J.
      eexists; (split; [reflexivity|]); apply mu_waiter; auto. unfold wrank; st_simpl; rewrite Hw; lia.
    + exists Waiter. cbn [step]. unfold waiter_step. rewrite Hw, J.
      eexists; (split; [reflexivity|]); apply mu_waiter; auto. unfold wrank; st_simpl; rewrite Hw; lia.
    + exists Waiter. cbn [step]. unfold waiter_step. rewrite Hw, J.
      eexists; (split; [reflexivity|]); apply mu_waiter; auto. unfold wrank; st_simpl; rewrite Hw; lia.
  - exfalso. apply (Hnd r). reflexivity.
Qed.

Lemma can_finish_aux : forall c n st,
  (mu c st < n)%nat -> Inv c st -> exists sched r, w (run c sched st) = WDone r.
Proof.
  intros c n. induction n as [|n IH]; intros st Hm H; [lia|].
  destruct (w st) eqn:Hw; try (
    assert (forall r, w st <> WDone r) as Hnd by (intros r0 E; rewrite Hw in E; discriminate E);
    destruct (progress c st H Hnd) as (ch & st' & Hs & Hlt);
    destruct (IH st') as (sched & r0 & Hr); [lia | eapply step_inv; eauto |];
    exists (ch :: sched), r0; cbn [run fold_left]; unfold step_skip; rewrite Hs; exact Hr).
  exists [], r. exact Hw.
Qed.

Lemma can_always_finish_lemma : forall c st,
  cfg_ok c -> reachable c st -> exists sched r, w (run c sched st) = WDone r.
Proof.
  intros c st Hc R. apply (can_finish_aux c (S (mu c st))); [lia|]. apply reachable_inv; auto.
Qed.

(* ------------------------------------------------------------------ host layer *)
(* Every quantity of the protocol comes from the ProcessCaps field it is named after. *)
Lemma cap_routing_lemma :
  (forall s, reader_cap_field s = F_max_capture_bytes_per_stream) /\
  poll_field = F_wait_poll_ms /\
  timeout_fallback_field = F_default_timeout_ms /\
  timeout_upper_field = F_max_timeout_ms /\
  wait_deadline_is_spec_timeout = true.
Proof. split; [intros []; reflexivity | repeat split; reflexivity]. Qed.

Lemma effective_timeout_spec : forall hc t,
  effective_timeout hc t =
  let v := match t with Some x => x | None => hc F_default_timeout_ms end in
  if (v =? 0) || (hc F_max_timeout_ms <? v) then None else Some v.
Proof.
  intros hc t. unfold effective_timeout.
  change timeout_fallback_field with F_default_timeout_ms.
  change timeout_upper_field with F_max_timeout_ms.
  change timeout_zero_rejected with true. change timeout_upper_strict with true.
  cbv zeta. cbn [andb]. destruct (_ =? 0); reflexivity.
Qed.

(* no explicit timeout => the deadline is default_timeout_ms (not the maximum, not the poll interval) *)
Lemma unset_timeout_is_default_lemma : forall hc,
  0 < hc F_default_timeout_ms <= hc F_max_timeout_ms ->
  effective_timeout hc None = Some (hc F_default_timeout_ms).
Proof.
  intros hc H. rewrite effective_timeout_spec. cbv zeta.
  destruct (Z.eqb_spec (hc F_default_timeout_ms) 0); [lia|].
  destruct (Z.ltb_spec (hc F_max_timeout_ms) (hc F_default_timeout_ms)); [lia|]. reflexivity.
Qed.

Lemma explicit_timeout_lemma : forall hc t,
  effective_timeout hc (Some t) =
  if (t =? 0) || (hc F_max_timeout_ms <? t) then None else Some t.
Proof. intros hc t. rewrite effective_timeout_spec. reflexivity. Qed.

Lemma mk_cfg_fields_lemma : forall hc b pc o1 o2 code c,
  mk_cfg hc b pc o1 o2 code = Some c ->
  pol1 c = b_pol1 b /\ pol2 c = b_pol2 b /\
  cap c = hc F_max_capture_bytes_per_stream /\ poll c = hc F_wait_poll_ms /\
  timeout c = (match b_timeout b with Some t => t | None => hc F_default_timeout_ms end) /\
  timeout c <> 0 /\ timeout c <= hc F_max_timeout_ms /\
  out1 c = o1 /\ out2 c = o2 /\ ecode c = code.
Proof.
  intros hc b pc o1 o2 code c H. unfold mk_cfg in H. rewrite effective_timeout_spec in H.
  cbv zeta in H.
  set (v := match b_timeout b with Some x => x | None => hc F_default_timeout_ms end) in *.
  destruct (Z.eqb_spec v 0); cbn [orb] in H; [discriminate|].
  destruct (Z.ltb_spec (hc F_max_timeout_ms) v); [discriminate|].
  inversion H; subst c. cbn. repeat split; auto.
Qed.

(* the protocol theorem at host level: a Timeout of a command that never called timeout_ms() is
   reported only once default_timeout_ms have passed, and passing it (with the child still
   running at the test) forces the Timeout *)
Lemma unset_timeout_deadline_lemma : forall hc b pc o1 o2 code c sched,
  mk_cfg hc b pc o1 o2 code = Some c -> b_timeout b = None -> cfg_ok c ->
  (w (run c sched (init c)) = WDone (RErr ETimeout) ->
   exists t, g_tmo (run c sched (init c)) = Some t /\ hc F_default_timeout_ms <= t) /\
  (forall st, w st = WDeadline -> hc F_default_timeout_ms <= clock st ->
   exists st', step c st Waiter = Some st' /\
     forall sched' r, w (run c sched' st') = WDone r -> r = RErr ETimeout).
Proof.
  intros hc b pc o1 o2 code c sched Hm Hb Hc.
  destruct (mk_cfg_fields_lemma _ _ _ _ _ _ _ Hm) as (_ & _ & _ & _ & Ht & _).
  rewrite Hb in Ht. split.
  - intros Hw. pose proof (error_is_justified_lemma c sched ETimeout Hc Hw) as (t & A & B & _).
    exists t. split; auto. lia.
  - intros st Hw Hcl. apply deadline_forces_timeout_lemma; auto. lia.
Qed.
