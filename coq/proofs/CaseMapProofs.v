(* CaseMapProofs.v — lemmas about theories/CaseMap.v (to_uppercase / to_lowercase of
   src/builtins/string.rs = per-character std char::to_uppercase / char::to_lowercase).

   tables_wf            the generated tables pass CaseMap.tables_ok (vm_compute over a few hundred rows)
   upper_cp_scalar / lower_cp_scalar, upper_cp_len / lower_cp_len, upper_cp_nonzero / lower_cp_nonzero
                        for ALL code points, from tables_wf by lemmas generic in the tables
   find_range_complete / find_multi_complete
                        on sorted tables the linear scan of the model returns the unique entry that
                        contains the key (what Rust's binary search returns)
   encode_valid         the UTF-8 encoding of a scalar value is well-formed
   to_upper_valid_utf8 / to_lower_valid_utf8
   to_upper_ascii / to_lower_ascii
   examples             ß, ŉ, ǰ, İ, Σ (no final sigma), U+019B (wrapping delta), U+10400, ẞ, U+0000 *)
From Coq Require Import ZArith List Bool Arith Lia.
Require Import NS.theories.GenUnicode NS.theories.StrLib NS.theories.Utf8 NS.theories.CaseMap.
Require Import NS.proofs.Utf8Proofs NS.proofs.StrUtf8Proofs.
Import ListNotations.
Open Scope Z_scope.

Definition scalar (cp : Z) : Prop := 0 <= cp < 55296 \/ 57344 <= cp < 1114112.

Ltac b2p :=
  repeat match goal with
  | H : _ && _ = true |- _ => apply andb_true_iff in H; destruct H
  | H : (_ <=? _)%Z = true |- _ => apply Z.leb_le in H
  | H : (_ <? _)%Z = true |- _ => apply Z.ltb_lt in H
  | H : (_ =? _)%Z = true |- _ => apply Z.eqb_eq in H
  | H : negb _ = true |- _ => apply negb_true_iff in H
  | H : (_ =? _)%Z = false |- _ => apply Z.eqb_neq in H
  | H : (_ <=? _)%Z = false |- _ => apply Z.leb_gt in H
  | H : (_ <? _)%Z = false |- _ => apply Z.ltb_ge in H
  end.

Lemma scalarb_spec : forall cp, scalarb cp = true <-> scalar cp.
Proof.
  intros cp. unfold scalarb, scalar.
  rewrite orb_true_iff, !andb_true_iff, !Z.leb_le, !Z.ltb_lt. tauto.
Qed.

(* ================================================================ the generated tables *)

Lemma tables_wf : tables_ok = true.
Proof. vm_compute. reflexivity. Qed.

Lemma lower_table_ok : table_ok lower_singles lower_multis = true.
Proof. pose proof tables_wf as H. unfold tables_ok in H. b2p. assumption. Qed.

Lemma upper_table_ok : table_ok upper_singles upper_multis = true.
Proof. pose proof tables_wf as H. unfold tables_ok in H. b2p. assumption. Qed.

Lemma lower_ascii_below_ge : 128 <= lower_ascii_below.
Proof. pose proof tables_wf as H. unfold tables_ok in H. b2p. assumption. Qed.

Lemma upper_ascii_below_ge : 128 <= upper_ascii_below.
Proof. pose proof tables_wf as H. unfold tables_ok in H. b2p. assumption. Qed.

(* ================================================================ lookup, generically in the tables *)

Lemma find_range_in : forall rs low s e p d,
  find_range rs low = Some (s, e, p, d) -> In (s, e, p, d) rs /\ s <= low <= e.
Proof.
  induction rs as [|[[[s0 e0] p0] d0] t IH]; intros low s e p d H; cbn [find_range] in H.
  - discriminate.
  - destruct ((s0 <=? low) && (low <=? e0)) eqn:E.
    + inversion H; subst. b2p. split; [left; reflexivity | lia].
    + apply IH in H. destruct H as [Hin Hr]. split; [right; exact Hin | exact Hr].
Qed.

Lemma find_multi_in : forall ms low outs, find_multi ms low = Some outs -> In (low, outs) ms.
Proof.
  induction ms as [|[k o] t IH]; intros low outs H; cbn [find_multi] in H.
  - discriminate.
  - destruct (k =? low) eqn:E.
    + inversion H; subst. b2p. subst. left; reflexivity.
    + right. apply IH. exact H.
Qed.

(* --- adequacy of the linear scan: on sorted tables the containing entry is unique *)
Lemma ranges_sorted_from_lt : forall rs prev s e p d,
  ranges_sorted_from prev rs = true -> In (s, e, p, d) rs -> prev < s /\ s <= e < 65536.
Proof.
  induction rs as [|[[[s0 e0] p0] d0] t IH]; intros prev s e p d H Hin; cbn [ranges_sorted_from] in H.
  - destruct Hin.
  - b2p. destruct Hin as [Heq | Hin].
    + inversion Heq; subst. lia.
    + pose proof (IH _ _ _ _ _ H0 Hin). lia.
Qed.

Lemma find_range_complete : forall rs prev low s e p d,
  ranges_sorted_from prev rs = true -> In (s, e, p, d) rs -> s <= low <= e ->
  find_range rs low = Some (s, e, p, d).
Proof.
  induction rs as [|[[[s0 e0] p0] d0] t IH]; intros prev low s e p d H Hin Hr.
  - destruct Hin.
  - cbn [ranges_sorted_from] in H. b2p. cbn [find_range]. destruct Hin as [Heq | Hin].
    + inversion Heq; subst.
      replace ((s <=? low) && (low <=? e)) with true; [reflexivity|].
      symmetry. apply andb_true_iff. split; [apply Z.leb_le | apply Z.leb_le]; lia.
    + pose proof (ranges_sorted_from_lt _ _ _ _ _ _ H0 Hin) as Hlt.
      replace ((s0 <=? low) && (low <=? e0)) with false.
      * eapply IH; eassumption.
      * symmetry. apply andb_false_iff. right. apply Z.leb_gt. lia.
Qed.

Lemma find_range_unique : forall rs low s e p d,
  ranges_sorted rs = true -> In (s, e, p, d) rs -> s <= low <= e ->
  find_range rs low = Some (s, e, p, d).
Proof. intros. eapply find_range_complete; eassumption. Qed.

Lemma multis_sorted_from_lt : forall ms prev k o,
  multis_sorted_from prev ms = true -> In (k, o) ms -> prev < k.
Proof.
  induction ms as [|[k0 o0] t IH]; intros prev k o H Hin; cbn [multis_sorted_from] in H.
  - destruct Hin.
  - b2p. destruct Hin as [Heq | Hin].
    + inversion Heq; subst. lia.
    + pose proof (IH _ _ _ H0 Hin). lia.
Qed.

Lemma find_multi_complete : forall ms prev k o,
  multis_sorted_from prev ms = true -> In (k, o) ms -> find_multi ms k = Some o.
Proof.
  induction ms as [|[k0 o0] t IH]; intros prev k o H Hin.
  - destruct Hin.
  - cbn [multis_sorted_from] in H. b2p. cbn [find_multi]. destruct Hin as [Heq | Hin].
    + inversion Heq; subst. rewrite Z.eqb_refl. reflexivity.
    + pose proof (multis_sorted_from_lt _ _ _ _ H0 Hin) as Hlt.
      replace (k0 =? k) with false; [eapply IH; eassumption|].
      symmetry. apply Z.eqb_neq. lia.
Qed.

Lemma find_multi_unique : forall ms k o,
  multis_sorted ms = true -> In (k, o) ms -> find_multi ms k = Some o.
Proof. intros. eapply find_multi_complete; eassumption. Qed.

(* --- one single: every member of the range is sent to a non-zero scalar value *)
Lemma single_ok_scalar : forall plane s e p d low,
  single_ok plane (s, e, p, d) = true -> s <= low <= e ->
  scalar (reconstruct plane (wrapping_add_signed_u16 low d)) /\
  reconstruct plane (wrapping_add_signed_u16 low d) <> 0.
Proof.
  intros plane s e p d low H Hr. unfold single_ok in H. cbv zeta in H. b2p.
  unfold scalar, reconstruct, wrapping_add_signed_u16 in *.
  match goal with Ho : (_ || _) = true |- _ => apply orb_true_iff in Ho; destruct Ho as [Ho | Ho] end; b2p.
  - Z.div_mod_to_equations. lia.
  - Z.div_mod_to_equations. lia.
Qed.

(* the [char; 3] array: three scalar values, a '\0' in the middle only before a '\0' *)
Definition arr_ok (r : list Z) : Prop :=
  exists a b c, r = [a; b; c] /\ scalar a /\ scalar b /\ scalar c /\ (b = 0 -> c = 0).

Lemma scalar_0 : scalar 0.
Proof. unfold scalar. lia. Qed.

Lemma multi_ok_arr : forall plane k outs,
  multi_ok plane (k, outs) = true ->
  arr_ok (map (reconstruct plane) outs) /\ hd 0 (map (reconstruct plane) outs) <> 0.
Proof.
  intros plane k outs H. unfold multi_ok in H. b2p.
  destruct outs as [|o1 [|o2 [|o3 [|o4 t]]]]; try discriminate.
  b2p. cbn [forallb] in *. b2p.
  repeat match goal with Hs : scalarb _ = true |- _ => apply scalarb_spec in Hs end.
  cbn [map hd]. split.
  - exists (reconstruct plane o1), (reconstruct plane o2), (reconstruct plane o3).
    refine (conj eq_refl (conj _ (conj _ (conj _ _)))); try assumption.
    intros Hz.
    match goal with Ho : (_ || _) = true |- _ => apply orb_true_iff in Ho; destruct Ho as [Ho | Ho] end; b2p.
    + contradiction.
    + assumption.
  - assumption.
Qed.

Lemma planes_ok_nth : forall sss mss plane n ss ms,
  planes_ok plane sss mss = true ->
  nth_error sss n = Some ss -> nth_error mss n = Some ms ->
  plane_ok (plane + Z.of_nat n) ss ms = true.
Proof.
  induction sss as [|ss0 sss IH]; intros mss plane n ss ms H Hs Hm.
  - destruct n; discriminate.
  - destruct mss as [|ms0 mss]; [destruct n; discriminate|].
    cbn [planes_ok] in H. b2p. destruct n as [|n].
    + cbn [nth_error] in Hs, Hm. inversion Hs; inversion Hm; subst.
      replace (plane + Z.of_nat 0) with plane by (cbn; lia). assumption.
    + cbn [nth_error] in Hs, Hm.
      replace (plane + Z.of_nat (S n)) with (plane + 1 + Z.of_nat n) by lia.
      eapply IH; eassumption.
Qed.

Lemma lookup_ok : forall sss mss cp r,
  table_ok sss mss = true -> lookup sss mss cp = Some r -> arr_ok r /\ hd 0 r <> 0.
Proof.
  intros sss mss cp r Hok H. unfold lookup in H. cbv zeta in H.
  destruct (cp <? 0) eqn:Ecp; [discriminate|]. b2p.
  destruct (nth_error sss (Z.to_nat (cp / 65536))) as [ss|] eqn:Es; [|discriminate].
  destruct (nth_error mss (Z.to_nat (cp / 65536))) as [ms|] eqn:Em; [|discriminate].
  assert (Hp : 0 <= cp / 65536) by (apply Z.div_pos; lia).
  pose proof (planes_ok_nth _ _ _ _ _ _ Hok Es Em) as Hpl.
  rewrite Z2Nat.id in Hpl by exact Hp. rewrite Z.add_0_l in Hpl.
  unfold plane_ok in Hpl. b2p.
  rewrite forallb_forall in *.
  assert (Hmulti : forall outs, find_multi ms (cp mod 65536) = Some outs ->
            arr_ok (map (reconstruct (cp / 65536)) outs) /\ hd 0 (map (reconstruct (cp / 65536)) outs) <> 0).
  { intros outs Hf. apply find_multi_in in Hf. eapply multi_ok_arr.
    match goal with Hall : forall x, In x ms -> _ |- _ => apply (Hall _ Hf) end. }
  destruct (find_range ss (cp mod 65536)) as [[[[s e] p] d]|] eqn:Ef.
  - destruct (parity_ok p (cp mod 65536) s) eqn:Epar.
    + inversion H; subst. apply find_range_in in Ef. destruct Ef as [Hin Hr].
      assert (Hso : single_ok (cp / 65536) (s, e, p, d) = true).
      { match goal with Hall : forall x, In x ss -> _ |- _ => apply (Hall _ Hin) end. }
      destruct (single_ok_scalar _ _ _ _ _ _ Hso Hr) as [Hsc Hnz].
      cbn [hd]. split; [|exact Hnz].
      eexists _, 0, 0. refine (conj eq_refl (conj Hsc (conj scalar_0 (conj scalar_0 _)))). reflexivity.
    + destruct (find_multi ms (cp mod 65536)) as [outs|] eqn:Efm; [|discriminate].
      inversion H; subst. apply Hmulti. reflexivity.
  - destruct (find_multi ms (cp mod 65536)) as [outs|] eqn:Efm; [|discriminate].
    inversion H; subst. apply Hmulti. reflexivity.
Qed.

(* ================================================================ char::to_uppercase / to_lowercase *)

Lemma ascii_upper_cp_scalar : forall cp, scalar cp -> scalar (ascii_upper_cp cp).
Proof.
  intros cp H. unfold ascii_upper_cp. destruct ((97 <=? cp) && (cp <=? 122)) eqn:E; [|exact H].
  b2p. unfold scalar. lia.
Qed.

Lemma ascii_lower_cp_scalar : forall cp, scalar cp -> scalar (ascii_lower_cp cp).
Proof.
  intros cp H. unfold ascii_lower_cp. destruct ((65 <=? cp) && (cp <=? 90)) eqn:E; [|exact H].
  b2p. unfold scalar. lia.
Qed.

Lemma ascii_upper_cp_nz : forall cp, cp <> 0 -> ascii_upper_cp cp <> 0.
Proof.
  intros cp H. unfold ascii_upper_cp. destruct ((97 <=? cp) && (cp <=? 122)) eqn:E; [|exact H]. b2p. lia.
Qed.

Lemma ascii_lower_cp_nz : forall cp, cp <> 0 -> ascii_lower_cp cp <> 0.
Proof.
  intros cp H. unfold ascii_lower_cp. destruct ((65 <=? cp) && (cp <=? 90)) eqn:E; [|exact H]. b2p. lia.
Qed.

Lemma pad_ok : forall a, scalar a -> arr_ok [a; 0; 0].
Proof.
  intros a H. exists a, 0, 0. refine (conj eq_refl (conj H (conj scalar_0 (conj scalar_0 _)))). reflexivity.
Qed.

Lemma to_upper_arr_ok : forall cp, scalar cp ->
  arr_ok (to_upper_arr cp) /\ (cp <> 0 -> hd 0 (to_upper_arr cp) <> 0).
Proof.
  intros cp H. unfold to_upper_arr. destruct (cp <? upper_ascii_below).
  - split; [apply pad_ok, ascii_upper_cp_scalar, H | cbn [hd]; apply ascii_upper_cp_nz].
  - destruct (lookup upper_singles upper_multis cp) as [r|] eqn:E.
    + destruct (lookup_ok _ _ _ _ upper_table_ok E) as [Ha Hn]. split; [exact Ha | intros _; exact Hn].
    + split; [apply pad_ok, H | cbn [hd]; intros Hn; exact Hn].
Qed.

Lemma to_lower_arr_ok : forall cp, scalar cp ->
  arr_ok (to_lower_arr cp) /\ (cp <> 0 -> hd 0 (to_lower_arr cp) <> 0).
Proof.
  intros cp H. unfold to_lower_arr. destruct (cp <? lower_ascii_below).
  - split; [apply pad_ok, ascii_lower_cp_scalar, H | cbn [hd]; apply ascii_lower_cp_nz].
  - destruct (lookup lower_singles lower_multis cp) as [r|] eqn:E.
    + destruct (lookup_ok _ _ _ _ lower_table_ok E) as [Ha Hn]. split; [exact Ha | intros _; exact Hn].
    + split; [apply pad_ok, H | cbn [hd]; intros Hn; exact Hn].
Qed.

Lemma to_upper_arr_len : forall cp, length (to_upper_arr cp) = 3%nat.
Proof.
  intros cp. unfold to_upper_arr. destruct (cp <? upper_ascii_below); [reflexivity|].
  destruct (lookup upper_singles upper_multis cp) as [r|] eqn:E; [|reflexivity].
  destruct (lookup_ok _ _ _ _ upper_table_ok E) as [(a & b & c & -> & _) _]. reflexivity.
Qed.

Lemma to_lower_arr_len : forall cp, length (to_lower_arr cp) = 3%nat.
Proof.
  intros cp. unfold to_lower_arr. destruct (cp <? lower_ascii_below); [reflexivity|].
  destruct (lookup lower_singles lower_multis cp) as [r|] eqn:E; [|reflexivity].
  destruct (lookup_ok _ _ _ _ lower_table_ok E) as [(a & b & c & -> & _) _]. reflexivity.
Qed.

(* --- CaseMappingIter::new *)
Lemma trim3_len : forall r, length r = 3%nat -> (1 <= length (trim3 r) <= 3)%nat.
Proof.
  intros r H. destruct r as [|a [|b [|c [|x t]]]]; try discriminate. cbn [trim3].
  destruct (c =? 0); [destruct (b =? 0)|]; cbn [length]; lia.
Qed.

Lemma trim3_scalar : forall r, arr_ok r -> Forall scalar (trim3 r).
Proof.
  intros r (a & b & c & -> & Ha & Hb & Hc & _). cbn [trim3].
  destruct (c =? 0); [destruct (b =? 0)|]; repeat (apply Forall_cons; [assumption|]); apply Forall_nil.
Qed.

Lemma trim3_nonzero : forall r, arr_ok r -> hd 0 r <> 0 -> Forall (fun x => x <> 0) (trim3 r).
Proof.
  intros r (a & b & c & -> & _ & _ & _ & Hbc) Hn. cbn [hd] in Hn. cbn [trim3].
  assert (Hb0 : c <> 0 -> b <> 0) by (intros Hc Hb; apply Hc, Hbc, Hb).
  destruct (c =? 0) eqn:Ec; [destruct (b =? 0) eqn:Eb|]; b2p;
    repeat (apply Forall_cons; [solve [assumption | apply Hb0; assumption]|]); apply Forall_nil.
Qed.

(* what the iterator yields is the array up to its '\0' padding: a prefix of it, and what is cut
   off is '\0' only *)
Lemma trim3_prefix : forall r, exists pad, r = trim3 r ++ pad /\ Forall (fun x => x = 0) pad.
Proof.
  intros r. destruct r as [|a [|b [|c [|x t]]]]; try (exists []; rewrite app_nil_r; split; [reflexivity | constructor]).
  cbn [trim3]. destruct (c =? 0) eqn:Ec; [destruct (b =? 0) eqn:Eb|]; b2p; subst.
  - exists [0; 0]. split; [reflexivity | repeat (apply Forall_cons; [reflexivity|]); apply Forall_nil].
  - exists [0]. split; [reflexivity | repeat (apply Forall_cons; [reflexivity|]); apply Forall_nil].
  - exists []. split; [reflexivity | constructor].
Qed.

Theorem upper_cp_scalar : forall cp, scalar cp -> Forall scalar (upper_cp cp).
Proof. intros cp H. unfold upper_cp. apply trim3_scalar. apply to_upper_arr_ok. exact H. Qed.

Theorem lower_cp_scalar : forall cp, scalar cp -> Forall scalar (lower_cp cp).
Proof. intros cp H. unfold lower_cp. apply trim3_scalar. apply to_lower_arr_ok. exact H. Qed.

Theorem upper_cp_len : forall cp, (1 <= length (upper_cp cp) <= 3)%nat.
Proof. intros cp. unfold upper_cp. apply trim3_len. apply to_upper_arr_len. Qed.

Theorem lower_cp_len : forall cp, (1 <= length (lower_cp cp) <= 3)%nat.
Proof. intros cp. unfold lower_cp. apply trim3_len. apply to_lower_arr_len. Qed.

(* no NUL is introduced: the '\0' trimming never cuts a real output, and a non-NUL character is
   never mapped to a sequence containing NUL *)
Theorem upper_cp_nonzero : forall cp, scalar cp -> cp <> 0 -> Forall (fun x => x <> 0) (upper_cp cp).
Proof.
  intros cp H Hn. unfold upper_cp. destruct (to_upper_arr_ok cp H) as [Ha Hh].
  apply trim3_nonzero; [exact Ha | exact (Hh Hn)].
Qed.

Theorem lower_cp_nonzero : forall cp, scalar cp -> cp <> 0 -> Forall (fun x => x <> 0) (lower_cp cp).
Proof.
  intros cp H Hn. unfold lower_cp. destruct (to_lower_arr_ok cp H) as [Ha Hh].
  apply trim3_nonzero; [exact Ha | exact (Hh Hn)].
Qed.

(* U+0000 itself is yielded, not dropped *)
Lemma upper_cp_nul : upper_cp 0 = [0].
Proof. vm_compute. reflexivity. Qed.
Lemma lower_cp_nul : lower_cp 0 = [0].
Proof. vm_compute. reflexivity. Qed.

(* ASCII *)
Lemma upper_cp_ascii : forall b, 0 <= b < 128 -> upper_cp b = [ascii_upper_cp b].
Proof.
  intros b H. unfold upper_cp, to_upper_arr. pose proof upper_ascii_below_ge as Hge.
  replace (b <? upper_ascii_below) with true by (symmetry; apply Z.ltb_lt; lia).
  reflexivity.
Qed.

Lemma lower_cp_ascii : forall b, 0 <= b < 128 -> lower_cp b = [ascii_lower_cp b].
Proof.
  intros b H. unfold lower_cp, to_lower_arr. pose proof lower_ascii_below_ge as Hge.
  replace (b <? lower_ascii_below) with true by (symmetry; apply Z.ltb_lt; lia).
  reflexivity.
Qed.

(* ================================================================ encode *)

Ltac in_t := symmetry; apply in_range_spec; lia.
Ltac in_f := symmetry; apply in_range_false; lia.

Theorem encode_valid : forall cp, scalar cp -> valid_utf8 (encode cp) = true.
Proof.
  intros cp H. unfold scalar in H. unfold encode.
  destruct (cp <? 128) eqn:E1; b2p.
  { cbn [valid_utf8]. replace (in_range 0 127 cp) with true by in_t. reflexivity. }
  destruct (cp <? 2048) eqn:E2; b2p.
  { cbn [valid_utf8].
    assert (Hq : 2 <= cp / 64 <= 31) by (Z.div_mod_to_equations; lia).
    assert (Hm : 0 <= cp mod 64 < 64) by (apply Z.mod_pos_bound; lia).
    replace (in_range 0 127 (192 + cp / 64)) with false by in_f.
    replace (in_range 194 223 (192 + cp / 64)) with true by in_t.
    unfold is_cont. replace (in_range 128 191 (128 + cp mod 64)) with true by in_t. reflexivity. }
  destruct (cp <? 65536) eqn:E3; b2p.
  { cbn [valid_utf8].
    assert (Hq : 0 <= cp / 4096 <= 15) by (Z.div_mod_to_equations; lia).
    assert (Hm : 0 <= cp mod 64 < 64) by (apply Z.mod_pos_bound; lia).
    assert (Hm2 : 0 <= (cp / 64) mod 64 < 64) by (apply Z.mod_pos_bound; lia).
    replace (in_range 0 127 (224 + cp / 4096)) with false by in_f.
    replace (in_range 194 223 (224 + cp / 4096)) with false by in_f.
    replace (in_range 224 239 (224 + cp / 4096)) with true by in_t.
    unfold is_cont. replace (in_range 128 191 (128 + cp mod 64)) with true by in_t.
    rewrite !andb_true_r.
    apply in_range_spec. unfold second_lo, second_hi.
    destruct (224 + cp / 4096 =? 224) eqn:A; destruct (224 + cp / 4096 =? 240) eqn:B;
      destruct (224 + cp / 4096 =? 237) eqn:C; destruct (224 + cp / 4096 =? 244) eqn:D; b2p;
      try lia; Z.div_mod_to_equations; lia. }
  { cbn [valid_utf8].
    assert (Hq : 0 <= cp / 262144 <= 4) by (Z.div_mod_to_equations; lia).
    assert (Hm : 0 <= cp mod 64 < 64) by (apply Z.mod_pos_bound; lia).
    assert (Hm2 : 0 <= (cp / 64) mod 64 < 64) by (apply Z.mod_pos_bound; lia).
    assert (Hm3 : 0 <= (cp / 4096) mod 64 < 64) by (apply Z.mod_pos_bound; lia).
    replace (in_range 0 127 (240 + cp / 262144)) with false by in_f.
    replace (in_range 194 223 (240 + cp / 262144)) with false by in_f.
    replace (in_range 224 239 (240 + cp / 262144)) with false by in_f.
    replace (in_range 240 244 (240 + cp / 262144)) with true by in_t.
    unfold is_cont. replace (in_range 128 191 (128 + cp mod 64)) with true by in_t.
    replace (in_range 128 191 (128 + (cp / 64) mod 64)) with true by in_t.
    rewrite !andb_true_r.
    apply in_range_spec. unfold second_lo, second_hi.
    destruct (240 + cp / 262144 =? 224) eqn:A; destruct (240 + cp / 262144 =? 240) eqn:B;
      destruct (240 + cp / 262144 =? 237) eqn:C; destruct (240 + cp / 262144 =? 244) eqn:D; b2p;
      try lia; Z.div_mod_to_equations; lia. }
Qed.

Lemma encode_ascii : forall b, b < 128 -> encode b = [b].
Proof. intros b H. unfold encode. replace (b <? 128) with true by (symmetry; apply Z.ltb_lt; lia). reflexivity. Qed.

(* ================================================================ strings *)

(* valid_concat, chars_valid (every chunk of StrLib.chars of a well-formed text is one well-formed
   character) and decode_scalar (such a chunk decodes to a scalar value) come from
   proofs/StrUtf8Proofs.v *)
Lemma chars_scalar : forall s, valid_utf8 s = true ->
  Forall (fun c => scalar (StrLib.decode c)) (StrLib.chars s).
Proof.
  intros s H. eapply Forall_impl; [|apply chars_valid; exact H].
  intros c Hc. exact (decode_scalar c Hc).
Qed.

Ltac width_is :=
  unfold utf8_width;
  repeat match goal with
  | |- context [(?x <? ?y)%Z] => let E := fresh "E" in destruct (x <? y)%Z eqn:E; b2p
  end; try reflexivity; exfalso; lia.

(* generic: mapping every character to a sequence of scalar values keeps the text well-formed *)
Lemma map_chars_valid : forall (f : Z -> list Z),
  (forall cp, scalar cp -> Forall scalar (f cp)) ->
  forall s, valid_utf8 s = true ->
  valid_utf8 (concat (map (fun c => concat (map encode (f (StrLib.decode c)))) (StrLib.chars s))) = true.
Proof.
  intros f Hf s Hs. apply valid_concat. apply Forall_map.
  eapply Forall_impl; [|apply chars_scalar; exact Hs].
  intros c Hc. cbv beta in Hc |- *. apply valid_concat. apply Forall_map.
  eapply Forall_impl; [|apply Hf; exact Hc].
  intros x Hx. apply encode_valid. exact Hx.
Qed.

Theorem to_upper_valid_utf8 : forall s, valid_utf8 s = true -> valid_utf8 (to_upper s) = true.
Proof. intros s H. unfold to_upper. apply (map_chars_valid upper_cp upper_cp_scalar s H). Qed.

Theorem to_lower_valid_utf8 : forall s, valid_utf8 s = true -> valid_utf8 (to_lower s) = true.
Proof. intros s H. unfold to_lower. apply (map_chars_valid lower_cp lower_cp_scalar s H). Qed.

(* --- ASCII-only strings *)
Lemma chars_fuel_ascii : forall fuel s, (length s <= fuel)%nat -> is_ascii_str s = true ->
  chars_fuel fuel s = map (fun b => [b]) s.
Proof.
  induction fuel as [|fuel IH]; intros s Hl Ha.
  - destruct s; [reflexivity | cbn [length] in Hl; lia].
  - destruct s as [|b t]; [reflexivity|].
    unfold is_ascii_str in Ha. cbn [forallb] in Ha. b2p. cbn [length] in Hl.
    cbn [chars_fuel map].
    assert (W : utf8_width b = 1%nat) by width_is.
    rewrite W. cbn [firstn skipn]. f_equal. apply IH; [lia | assumption].
Qed.

Lemma map_chars_ascii : forall (f : Z -> list Z) (g : Z -> Z),
  (forall b, 0 <= b < 128 -> f b = [g b] /\ g b < 128) ->
  forall s, is_ascii_str s = true ->
  concat (map (fun c => concat (map encode (f (StrLib.decode c)))) (StrLib.chars s)) = map g s.
Proof.
  intros f g Hfg s Ha. unfold StrLib.chars. rewrite (chars_fuel_ascii _ _ (Nat.le_refl _) Ha).
  induction s as [|b t IH]; [reflexivity|].
  unfold is_ascii_str in Ha. cbn [forallb] in Ha. b2p.
  cbn [map concat]. cbn [StrLib.decode].
  destruct (Hfg b ltac:(lia)) as [Hf Hg]. rewrite Hf. cbn [map concat].
  rewrite (encode_ascii _ Hg). cbn [app]. f_equal. apply IH. assumption.
Qed.

Theorem to_upper_ascii : forall s, is_ascii_str s = true -> to_upper s = ascii_upper_str s.
Proof.
  intros s H. unfold to_upper, ascii_upper_str.
  apply (map_chars_ascii upper_cp (fun b => if (97 <=? b) && (b <=? 122) then b - 32 else b)); [|exact H].
  intros b Hb. split.
  - rewrite (upper_cp_ascii b Hb). reflexivity.
  - destruct ((97 <=? b) && (b <=? 122)); lia.
Qed.

Theorem to_lower_ascii : forall s, is_ascii_str s = true -> to_lower s = ascii_lower_str s.
Proof.
  intros s H. unfold to_lower, ascii_lower_str.
  apply (map_chars_ascii lower_cp (fun b => if (65 <=? b) && (b <=? 90) then b + 32 else b)); [|exact H].
  intros b Hb. split.
  - rewrite (lower_cp_ascii b Hb). reflexivity.
  - destruct ((65 <=? b) && (b <=? 90)) eqn:E; b2p; lia.
Qed.

(* ================================================================ the generated tables are sorted
   (so that find_range_unique / find_multi_unique apply to them) *)
Lemma tables_sorted :
  forallb ranges_sorted lower_singles && forallb multis_sorted lower_multis &&
  forallb ranges_sorted upper_singles && forallb multis_sorted upper_multis = true.
Proof. vm_compute. reflexivity. Qed.

(* ================================================================ examples *)
(* ß U+00DF -> "SS" *)
Example ex_sharp_s : upper_cp 223 = [83; 83] /\ to_upper [195; 159] = [83; 83].
Proof. vm_compute. split; reflexivity. Qed.
(* ŉ U+0149 -> ʼN (U+02BC U+004E) *)
Example ex_n_apostrophe : upper_cp 329 = [700; 78].
Proof. vm_compute. reflexivity. Qed.
(* ǰ U+01F0 -> J + U+030C *)
Example ex_j_caron : upper_cp 496 = [74; 780].
Proof. vm_compute. reflexivity. Qed.
(* İ U+0130 lower -> i + U+0307 (the only multi-character lowercase mapping) *)
Example ex_i_dot : lower_cp 304 = [105; 775] /\ to_lower [196; 176] = [105; 204; 135].
Proof. vm_compute. split; reflexivity. Qed.
(* three-character expansion: ΐ U+0390 -> U+0399 U+0308 U+0301 *)
Example ex_three : upper_cp 912 = [921; 776; 769].
Proof. vm_compute. reflexivity. Qed.
(* Σ U+03A3 lower -> σ U+03C3, also at the end of a word: "ΑΣ" -> "ασ" (no final-sigma rule) *)
Example ex_sigma : lower_cp 931 = [963] /\ to_lower [206; 145; 206; 163] = [206; 177; 207; 131].
Proof. vm_compute. split; reflexivity. Qed.
(* ƛ U+019B upper -> U+A7DC: delta -22975 wraps modulo 65536 *)
Example ex_wrapping_delta : upper_cp 411 = [42972] /\ lower_cp 42972 = [411].
Proof. vm_compute. split; reflexivity. Qed.
(* plane 1: 𐐀 U+10400 lower -> 𐐨 U+10428 and back *)
Example ex_plane1 : lower_cp 66560 = [66600] /\ upper_cp 66600 = [66560] /\
  to_lower [240; 144; 144; 128] = [240; 144; 144; 168].
Proof. vm_compute. repeat split; reflexivity. Qed.
(* ẞ U+1E9E lower -> ß U+00DF *)
Example ex_capital_sharp_s : lower_cp 7838 = [223].
Proof. vm_compute. reflexivity. Qed.
(* parity miss falls through to the multis: U+1F52 lies inside step_by_2(0x1f51..=0x1f57) *)
Example ex_parity_fallthrough : upper_cp 8018 = [933; 787; 768] /\ upper_cp 8017 = [8025].
Proof. vm_compute. split; reflexivity. Qed.
(* planes above 1 and unmapped characters are left alone; U+0000 is yielded *)
Example ex_identity : upper_cp 131072 = [131072] /\ lower_cp 1114111 = [1114111] /\ upper_cp 48 = [48] /\
  to_upper [0; 97; 0] = [0; 65; 0].
Proof. vm_compute. repeat split; reflexivity. Qed.
Example ex_ascii : to_upper [104; 105; 33] = [72; 73; 33] /\ to_lower [72; 73; 33] = [104; 105; 33].
Proof. vm_compute. split; reflexivity. Qed.

Print Assumptions tables_wf.
Print Assumptions upper_cp_scalar.
Print Assumptions lower_cp_scalar.
Print Assumptions upper_cp_len.
Print Assumptions lower_cp_len.
Print Assumptions upper_cp_nonzero.
Print Assumptions lower_cp_nonzero.
Print Assumptions find_range_unique.
Print Assumptions find_multi_unique.
Print Assumptions encode_valid.
Print Assumptions to_upper_valid_utf8.
Print Assumptions to_lower_valid_utf8.
Print Assumptions to_upper_ascii.
Print Assumptions to_lower_ascii.
