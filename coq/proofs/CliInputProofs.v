(* Proofs about theories/CliInput.v: the text run_source sees does not depend on how read(2)
   cut the standard input into blocks; stdin mode and file mode accept and deliver the same
   texts. *)
From Coq Require Import ZArith List Bool Lia.
Require Import NS.theories.GenWiring NS.theories.Utf8 NS.theories.CliInput.
Import ListNotations.
Open Scope Z_scope.

Lemma stdin_is_whole blocks : stdin_source blocks = read_whole blocks.
Proof. unfold stdin_source, cli_stdin_validates_whole_buffer. reflexivity. Qed.

Lemma stdin_equals_file_lemma blocks : stdin_source blocks = file_source (concat blocks).
Proof. rewrite stdin_is_whole. reflexivity. Qed.

Lemma stdin_chunking_independent_lemma blocks blocks' :
  concat blocks = concat blocks' -> stdin_source blocks = stdin_source blocks'.
Proof. intros H. rewrite !stdin_equals_file_lemma, H. reflexivity. Qed.

Lemma concat_split_blocks n : (0 < n)%nat -> forall fuel l, (length l <= fuel)%nat ->
  concat (split_blocks fuel n l) = l.
Proof.
  intros Hn. induction fuel as [|f IH]; intros l Hl.
  - destruct l; [reflexivity|cbn in Hl; lia].
  - cbn [split_blocks]. destruct l as [|x l']; [reflexivity|].
    cbn [concat]. rewrite IH.
    + apply firstn_skipn.
    + rewrite skipn_length. cbn [length] in *. lia.
Qed.

Lemma stdin_redirect_equals_file_lemma content :
  stdin_source (redirect_blocks content) = file_source content.
Proof.
  rewrite stdin_equals_file_lemma. unfold redirect_blocks.
  rewrite concat_split_blocks; [reflexivity| |lia].
  unfold cli_stdin_block. apply Nat2Z.inj_lt. rewrite Z2Nat.id by lia. lia.
Qed.

Lemma redirect_blocks_bounded content :
  Forall (fun b => (length b <= Z.to_nat cli_stdin_block)%nat) (redirect_blocks content).
Proof.
  unfold redirect_blocks. generalize (length content) as fuel. intros fuel. revert content.
  induction fuel as [|f IH]; intros l; cbn [split_blocks]; [constructor|].
  destruct l as [|x l']; [constructor|]. constructor; [apply firstn_le_length|apply IH].
Qed.

Lemma input_modes_agree_lemma blocks :
  let c := concat blocks in
  file_mode c = library_text c /\ eval_mode c = library_text c /\ stdin_mode blocks = library_text c.
Proof.
  cbv zeta. unfold file_mode, eval_mode, stdin_mode, library_text, handed_on.
  unfold cli_file_text_passthrough, cli_eval_text_passthrough, cli_stdin_text_passthrough,
    cli_run_source_text_passthrough. cbn [andb].
  rewrite stdin_equals_file_lemma. repeat split; reflexivity.
Qed.
