(* F64Proofs — facts about the hand-written parts of theories/F64.v (bit patterns, casts,
   remainder, rounding to integers).  General statements are proved structurally; where a
   statement would need a theory of SpecFloat's rounding (binary_normalize) it is proved as a
   finite sweep over every binary exponent and the boundary mantissas, by computation. *)
From Coq Require Import ZArith List Bool Lia SpecFloat.
Require Import NS.theories.F64.
Import ListNotations.
Open Scope Z_scope.

(* ------------------------------------------------------------------ bit patterns *)
(* the floats that have a bit pattern: canonical mantissa/exponent pairs of binary64 *)
Definition valid (x : f64) : Prop :=
  match x with
  | S754_finite _ m e =>
      (e = -1074 /\ Zpos m < 2 ^ 52) \/ (2 ^ 52 <= Zpos m < 2 ^ 53 /\ -1074 <= e <= 971)
  | _ => True
  end.

Lemma p63 : 2 ^ 63 = 9223372036854775808. Proof. reflexivity. Qed.
Lemma p52 : 2 ^ 52 = 4503599627370496. Proof. reflexivity. Qed.
Lemma p53 : 2 ^ 53 = 9007199254740992. Proof. reflexivity. Qed.
Lemma p11 : 2 ^ 11 = 2048. Proof. reflexivity. Qed.
Lemma p64 : 2 ^ 64 = 18446744073709551616. Proof. reflexivity. Qed.

Lemma fields s E M :
  (s = 0 \/ s = 1) -> 0 <= E < 2 ^ 11 -> 0 <= M < 2 ^ 52 ->
  let b := s * 2 ^ 63 + E * 2 ^ 52 + M in
  b / 2 ^ 63 = s /\ (b / 2 ^ 52) mod 2 ^ 11 = E /\ b mod 2 ^ 52 = M.
Proof.
  intros Hs HE HM b. subst b. rewrite p63, p52, p11 in *.
  assert (H1 : (s * 9223372036854775808 + E * 4503599627370496 + M) / 9223372036854775808 = s).
  { symmetry. apply Z.div_unique with (r := E * 4503599627370496 + M); lia. }
  assert (H2 : (s * 9223372036854775808 + E * 4503599627370496 + M) / 4503599627370496 = s * 2048 + E).
  { symmetry. apply Z.div_unique with (r := M); lia. }
  assert (H3 : (s * 9223372036854775808 + E * 4503599627370496 + M) mod 4503599627370496 = M).
  { symmetry. apply Z.mod_unique with (q := s * 2048 + E); lia. }
  split; [exact H1|]. split; [|exact H3]. rewrite H2.
  symmetry. apply Z.mod_unique with (q := s); lia.
Qed.

Definition sbit (s : bool) : Z := if s then 1 else 0.
Lemma sbit_01 s : sbit s = 0 \/ sbit s = 1. Proof. destruct s; cbn; auto. Qed.
Lemma odd_sbit s : Z.odd (sbit s) = s. Proof. destruct s; reflexivity. Qed.
Lemma sb_sbit (s : bool) : (if s then 2 ^ 63 else 0) = sbit s * 2 ^ 63. Proof. destruct s; reflexivity. Qed.

Lemma of_bits_fields s E M :
  0 <= E < 2 ^ 11 -> 0 <= M < 2 ^ 52 ->
  of_bits (sbit s * 2 ^ 63 + E * 2 ^ 52 + M) =
    if E =? 0 then match M with Zpos p => S754_finite s p (-1074) | _ => S754_zero s end
    else if E =? 2047 then (if M =? 0 then S754_infinity s else S754_nan)
    else match M + 2 ^ 52 with Zpos p => S754_finite s p (E - 1075) | _ => S754_nan end.
Proof.
  intros HE HM. destruct (fields (sbit s) E M (sbit_01 s) HE HM) as (H1 & H2 & H3).
  unfold of_bits. rewrite H1, H2, H3, odd_sbit. reflexivity.
Qed.

Theorem of_bits_to_bits : forall x, valid x -> of_bits (to_bits x) = x.
Proof.
  intros x Hv. destruct x as [s|s| |s m e]; cbn [to_bits].
  - rewrite sb_sbit. replace (sbit s * 2 ^ 63) with (sbit s * 2 ^ 63 + 0 * 2 ^ 52 + 0) by lia.
    rewrite of_bits_fields by (rewrite ?p11, ?p52; lia). reflexivity.
  - rewrite sb_sbit. replace (sbit s * 2 ^ 63 + 2047 * 2 ^ 52) with (sbit s * 2 ^ 63 + 2047 * 2 ^ 52 + 0) by lia.
    rewrite of_bits_fields by (rewrite ?p11, ?p52; lia). reflexivity.
  - reflexivity.
  - cbn [valid] in Hv. rewrite sb_sbit. destruct Hv as [[He Hm]|[Hm He]].
    + subst e. assert (E : (Zpos m <? 2 ^ 52) = true) by (apply Z.ltb_lt; exact Hm). rewrite E.
      replace (sbit s * 2 ^ 63 + Zpos m) with (sbit s * 2 ^ 63 + 0 * 2 ^ 52 + Zpos m) by lia.
      rewrite of_bits_fields by (rewrite ?p11, ?p52 in *; lia). reflexivity.
    + assert (E : (Zpos m <? 2 ^ 52) = false) by (apply Z.ltb_ge; lia). rewrite E.
      replace (sbit s * 2 ^ 63 + (e + 1075) * 2 ^ 52 + (Zpos m - 2 ^ 52))
        with (sbit s * 2 ^ 63 + (e + 1075) * 2 ^ 52 + (Zpos m - 2 ^ 52)) by lia.
      rewrite of_bits_fields by (rewrite ?p11, ?p52, ?p53 in *; lia).
      assert (E1 : (e + 1075 =? 0) = false) by (apply Z.eqb_neq; lia).
      assert (E2 : (e + 1075 =? 2047) = false) by (apply Z.eqb_neq; lia).
      rewrite E1, E2. replace (Zpos m - 2 ^ 52 + 2 ^ 52) with (Zpos m) by lia.
      replace (e + 1075 - 1075) with e by lia. reflexivity.
Qed.

(* every 64-bit pattern decomposes into sign, exponent field and fraction field *)
Lemma decompose b :
  0 <= b < 2 ^ 64 ->
  exists s E M, 0 <= E < 2 ^ 11 /\ 0 <= M < 2 ^ 52 /\ b = sbit s * 2 ^ 63 + E * 2 ^ 52 + M.
Proof.
  intros Hb. rewrite p64 in Hb.
  exists (Z.odd (b / 2 ^ 63)), ((b / 2 ^ 52) mod 2 ^ 11), (b mod 2 ^ 52).
  rewrite p63, p52, p11.
  pose proof (Z.div_mod b 4503599627370496 ltac:(lia)) as D1.
  pose proof (Z.mod_pos_bound b 4503599627370496 ltac:(lia)) as B1.
  pose proof (Z.div_mod (b / 4503599627370496) 2048 ltac:(lia)) as D2.
  pose proof (Z.mod_pos_bound (b / 4503599627370496) 2048 ltac:(lia)) as B2.
  assert (Hq : b / 9223372036854775808 = (b / 4503599627370496) / 2048).
  { rewrite Z.div_div by lia. reflexivity. }
  assert (Hq01 : 0 <= b / 9223372036854775808 < 2).
  { split; [apply Z.div_pos; lia| apply Z.div_lt_upper_bound; lia]. }
  assert (Hs : sbit (Z.odd (b / 9223372036854775808)) = b / 9223372036854775808).
  { assert (b / 9223372036854775808 = 0 \/ b / 9223372036854775808 = 1) as [E|E] by lia; rewrite E; reflexivity. }
  repeat split; lia.
Qed.

Definition nan_pattern (b : Z) : Prop := (b / 2 ^ 52) mod 2 ^ 11 = 2047 /\ b mod 2 ^ 52 <> 0.

Theorem to_bits_of_bits : forall b, 0 <= b < 2 ^ 64 -> ~ nan_pattern b -> to_bits (of_bits b) = b.
Proof.
  intros b Hb Hn. destruct (decompose b Hb) as (s & E & M & HE & HM & ->).
  destruct (fields (sbit s) E M (sbit_01 s) HE HM) as (_ & F2 & F3).
  unfold nan_pattern in Hn. rewrite F2, F3 in Hn.
  rewrite of_bits_fields by assumption.
  destruct (E =? 0) eqn:E0.
  - apply Z.eqb_eq in E0. subst E. destruct M as [|p|p]; cbn [to_bits]; rewrite ?sb_sbit; try lia.
    assert (Hp : (Zpos p <? 2 ^ 52) = true) by (apply Z.ltb_lt; lia). rewrite Hp. lia.
  - destruct (E =? 2047) eqn:E1.
    + apply Z.eqb_eq in E1. subst E. destruct (M =? 0) eqn:M0.
      * apply Z.eqb_eq in M0. subst M. cbn [to_bits]. rewrite sb_sbit. lia.
      * apply Z.eqb_neq in M0. exfalso. apply Hn. split; [reflexivity|exact M0].
    + apply Z.eqb_neq in E0, E1. destruct (M + 2 ^ 52) as [|p|p] eqn:EM; try (rewrite p52 in *; lia).
      cbn [to_bits]. rewrite sb_sbit.
      assert (Hp : (Zpos p <? 2 ^ 52) = false) by (apply Z.ltb_ge; lia). rewrite Hp. lia.
Qed.

(* what of_bits builds always has a bit pattern *)
Theorem of_bits_valid : forall b, 0 <= b < 2 ^ 64 -> valid (of_bits b).
Proof.
  intros b Hb. destruct (decompose b Hb) as (s & E & M & HE & HM & ->).
  rewrite of_bits_fields by assumption.
  destruct (E =? 0) eqn:E0.
  - destruct M as [|p|p]; cbn [valid]; auto. left. split; [reflexivity|lia].
  - destruct (E =? 2047) eqn:E1.
    + destruct (M =? 0); exact I.
    + apply Z.eqb_neq in E0, E1. destruct (M + 2 ^ 52) as [|p|p] eqn:EM; cbn [valid]; auto.
      right. rewrite p52, p53, p11 in *. lia.
Qed.

Lemma nan_bits_roundtrip : of_bits nan_bits = S754_nan /\ to_bits S754_nan = nan_bits.
Proof. split; reflexivity. Qed.

(* ------------------------------------------------------------------ saturating casts *)
Lemma clamp_range lo hi n : lo <= hi -> lo <= clamp lo hi n <= hi.
Proof. unfold clamp. lia. Qed.

Theorem to_isize_range : forall x, - 2 ^ 63 <= to_isize x <= 2 ^ 63 - 1.
Proof.
  intros x. unfold to_isize. change isize_min with (- 2 ^ 63). change isize_max with (2 ^ 63 - 1).
  rewrite p63.
  destruct x as [s|s| |s m e]; try (destruct s); try lia;
    try (destruct (trunc_Z _); [apply clamp_range|]; lia).
Qed.

Theorem to_usize_range : forall x, 0 <= to_usize x <= 2 ^ 64 - 1.
Proof.
  intros x. unfold to_usize. change usize_max with (2 ^ 64 - 1). rewrite p64.
  destruct x as [s|s| |s m e]; try (destruct s); try lia;
    try (destruct (trunc_Z _); [apply clamp_range|]; lia).
Qed.

(* an integer-valued float inside the range converts to exactly its value *)
Lemma to_isize_exact : forall s m e, 0 <= e ->
  - 2 ^ 63 <= signed s (Zpos m * 2 ^ e) <= 2 ^ 63 - 1 ->
  to_isize (S754_finite s m e) = signed s (Zpos m * 2 ^ e).
Proof.
  intros s m e He Hr. unfold to_isize, trunc_Z. assert (E : (0 <=? e) = true) by (apply Z.leb_le; exact He).
  rewrite E. unfold clamp, isize_min, isize_max. lia.
Qed.

(* ------------------------------------------------------------------ sign of a rounded result *)
(* binary_normalize never changes the sign it is given (a NaN result is impossible but is a
   syntactic branch of binary_round_aux) *)
Lemma bn_sign : forall n e s,
  match binary_normalize prec emax n e s with
  | S754_nan => True
  | r => sign_of r = match n with Z0 => s | Zpos _ => false | Zneg _ => true end
  end.
Proof.
  intros n e s. destruct n as [|p|p]; cbn [binary_normalize].
  - reflexivity.
  - unfold binary_round. destruct (shl_align p e _) as [mz ez].
    unfold binary_round_aux.
    destruct (shr_fexp prec emax (Z.pos mz) ez loc_Exact) as [mrs' e'].
    destruct (shr_fexp prec emax _ e' loc_Exact) as [mrs'' e''].
    destruct (shr_m mrs''); try exact I; [reflexivity|].
    destruct (Zle_bool e'' (emax - prec)); reflexivity.
  - unfold binary_round. destruct (shl_align p e _) as [mz ez].
    unfold binary_round_aux.
    destruct (shr_fexp prec emax (Z.pos mz) ez loc_Exact) as [mrs' e'].
    destruct (shr_fexp prec emax _ e' loc_Exact) as [mrs'' e''].
    destruct (shr_m mrs''); try exact I; [reflexivity|].
    destruct (Zle_bool e'' (emax - prec)); reflexivity.
Qed.

Lemma bn_signed_sign : forall s n e,
  0 <= n ->
  match binary_normalize prec emax (signed s n) e s with
  | S754_nan => True
  | r => sign_of r = s
  end.
Proof.
  intros s n e Hn. pose proof (bn_sign (signed s n) e s) as H.
  destruct (binary_normalize prec emax (signed s n) e s); try exact I;
    (rewrite H; unfold signed; destruct s, n; try reflexivity; lia).
Qed.

(* Rust's `%`: the result takes the sign of the dividend (also for a zero result) *)
Theorem frem_sign : forall x y,
  match frem x y with
  | S754_nan => True
  | r => sign_of r = sign_of x
  end.
Proof.
  intros x y. destruct x as [sx|sx| |sx mx ex]; destruct y as [sy|sy| |sy my ey]; cbn [frem sign_of]; auto.
  apply bn_signed_sign. apply Z.mod_pos_bound.
  apply Z.mul_pos_pos; [lia|]. apply Z.pow_pos_nonneg; lia.
Qed.

Theorem frem_special : forall x y,
  (is_nan x = true \/ is_nan y = true \/ is_finite x = false \/ is_zero y = true -> frem x y = S754_nan) /\
  (is_finite x = true -> y = S754_infinity true \/ y = S754_infinity false -> frem x y = x) /\
  (is_zero x = true -> is_finite y = true -> is_zero y = false -> frem x y = x).
Proof.
  intros x y. repeat split.
  - intros H. destruct x, y; cbn in *; try reflexivity;
      destruct H as [H|[H|[H|H]]]; discriminate.
  - intros Hx [-> | ->]; destruct x; cbn in *; try reflexivity; discriminate.
  - intros Hx Hy Hz. destruct x, y; cbn in *; try reflexivity; discriminate.
Qed.

(* rounding to an integer keeps the sign (floor(0.5) = +0, ceil(-0.5) = -0, round(-0.4) = -0) *)
Theorem round_ops_sign : forall x,
  (match ffloor x with S754_nan => True | r => sign_of r = sign_of x end) /\
  (match fceil x with S754_nan => True | r => sign_of r = sign_of x end) /\
  (match fround x with S754_nan => True | r => sign_of r = sign_of x end).
Proof.
  intros x. destruct x as [s|s| |s m e]; cbn [ffloor fceil fround sign_of]; auto.
  destruct (0 <=? e) eqn:E; [cbn [sign_of]; auto|].
  unfold split_frac.
  assert (Hd : 0 < 2 ^ (- e)) by (apply Z.pow_pos_nonneg; apply Z.leb_gt in E; lia).
  pose proof (Z.div_pos (Zpos m) (2 ^ (- e)) ltac:(lia) Hd) as Hq.
  refine (conj _ (conj _ _)).
  - apply bn_signed_sign. destruct s; [destruct (_ =? 0)|]; lia.
  - apply bn_signed_sign. destruct s; [|destruct (_ =? 0)]; lia.
  - apply bn_signed_sign. destruct (2 ^ (- e) <=? 2 * (Z.pos m mod 2 ^ (- e))); lia.
Qed.

(* on integers, infinities, NaN and zeros the rounding functions are the identity *)
Theorem round_ops_id : forall x,
  is_int x = true \/ is_finite x = false ->
  (match x with S754_finite _ _ e => 0 <= e | _ => True end) ->
  ffloor x = x /\ fceil x = x /\ fround x = x.
Proof.
  intros x _ He. destruct x as [s|s| |s m e]; cbn [ffloor fceil fround]; auto.
  apply Z.leb_le in He. rewrite He. auto.
Qed.

(* ------------------------------------------------------------------ finite sweeps *)
(* every negative binary exponent of a double, with the boundary mantissas of a binade
   (smallest, smallest+1, middle, middle+1, largest, and 1, 3 for the subnormal row), both signs *)
Definition sweep_mantissas : list positive :=
  [4503599627370496; 4503599627370497; 6755399441055744; 6755399441055745; 9007199254740991;
   5629499534213120; 7881299347898368]%positive.
Definition sweep_sub_mantissas : list positive := [1; 2; 3; 2251799813685248; 4503599627370495]%positive.

Fixpoint exps_down (n : nat) (e : Z) : list Z :=
  match n with O => [] | S k => e :: exps_down k (e - 1) end.
Definition neg_exps : list Z := exps_down 1074 (-1).      (* -1 .. -1074 *)

Definition sweep_inputs : list f64 :=
  flat_map (fun e => flat_map (fun m => [S754_finite false m e; S754_finite true m e]) sweep_mantissas) neg_exps
  ++ flat_map (fun m => [S754_finite false m (-1074); S754_finite true m (-1074)]) sweep_sub_mantissas.

Lemma sweep_size : length sweep_inputs = 15046%nat.
Proof. vm_compute. reflexivity. Qed.

(* floor, ceil and round of a non-integer double are integers, floor <= x <= ceil, ceil - floor
   is 1 (or 0 when x is an integer), and round is one of the two — on the sweep *)
Definition round_ok (x : f64) : bool :=
  let fl := ffloor x in let ce := fceil x in let ro := fround x in
  is_int fl && is_int ce && is_int ro &&
  fle fl x && fle x ce &&
  (feqb (fsub ce fl) (of_Z 1) || feqb ce fl) &&
  (feqb ro fl || feqb ro ce).

Lemma round_ops_sweep : forallb round_ok sweep_inputs = true.
Proof. vm_compute. reflexivity. Qed.

(* |x % y| < |y| and x % y has at most the magnitude of x, on pairs drawn from the sweep *)
Definition rem_ok (x y : f64) : bool :=
  let r := frem x y in flt (fabs r) (fabs y) && fle (fabs r) (fabs x).

Definition rem_pairs : list (f64 * f64) :=
  let xs := flat_map (fun e => [S754_finite false 4503599627370497 e; S754_finite true 9007199254740991 e;
                                S754_finite false 6755399441055745 (e + 60)])
                     (exps_down 120 (-1)) in
  let ys := [S754_finite false 4503599627370496 (-52); S754_finite true 6755399441055744 (-51);
             S754_finite false 5629499534213120 (-60); S754_finite false 9007199254740991 (-80);
             S754_finite false 1 (-1074); S754_finite true 4503599627370497 0] in
  flat_map (fun x => map (fun y => (x, y)) ys) xs.

Lemma frem_magnitude_sweep : forallb (fun p => rem_ok (fst p) (snd p)) rem_pairs = true.
Proof. vm_compute. reflexivity. Qed.

(* the bit-pattern round trip on the sweep (independent of the structural proof above) *)
Lemma bits_sweep : forallb (fun x => feqb (of_bits (to_bits x)) x && (to_bits (of_bits (to_bits x)) =? to_bits x)) sweep_inputs = true.
Proof. vm_compute. reflexivity. Qed.

(* ------------------------------------------------------------------ rounding to an integer gives an integer *)
From Coq Require Import Zpower.

Lemma digits2_shift : forall d p, digits2_pos (shift_pos d p) = (digits2_pos p + d)%positive.
Proof.
  intros d p. unfold shift_pos. induction d as [|d IH] using Pos.peano_ind.
  - cbn. rewrite Pos.add_1_r. reflexivity.
  - rewrite Pos.iter_succ. cbn [digits2_pos]. rewrite IH. rewrite Pos.add_succ_r. reflexivity.
Qed.

Lemma shr_exp_ge : forall mrs e n, e <= snd (shr mrs e n).
Proof. intros mrs e n. destruct n; cbn; lia. Qed.

Lemma round_aux_exp_ge : forall sx m e l,
  match binary_round_aux prec emax sx m e l with
  | S754_finite _ _ e'' => e <= e''
  | _ => True
  end.
Proof.
  intros sx m e l. unfold binary_round_aux, shr_fexp.
  pose proof (shr_exp_ge (shr_record_of_loc m l) e (fexp prec emax (Zdigits2 m + e) - e)) as H1.
  destruct (shr (shr_record_of_loc m l) e (fexp prec emax (Zdigits2 m + e) - e)) as [mrs' e'].
  cbn [snd] in H1.
  match goal with |- context [shr ?r e' ?n] => pose proof (shr_exp_ge r e' n) as H2; destruct (shr r e' n) as [mrs'' e''] end.
  cbn [snd] in H2.
  destruct (shr_m mrs''); try exact I. destruct (Zle_bool e'' (emax - prec)); [lia|exact I].
Qed.

(* an integer given with exponent 0 is normalised to a float whose value is an integer *)
Lemma binary_round_int : forall sx p,
  match binary_round prec emax sx p 0 with
  | S754_finite s m e => is_int (S754_finite s m e) = true
  | _ => True
  end.
Proof.
  intros sx p. unfold binary_round, shl_align.
  set (F := fexp prec emax (Z.pos (digits2_pos p) + 0)).
  destruct (F - 0) as [|k|d] eqn:EF.
  - pose proof (round_aux_exp_ge sx (Z.pos p) 0 loc_Exact) as H.
    destruct (binary_round_aux prec emax sx (Z.pos p) 0 loc_Exact); try exact I.
    cbn [is_int]. assert (E : (0 <=? e) = true) by (apply Z.leb_le; exact H). rewrite E. reflexivity.
  - pose proof (round_aux_exp_ge sx (Z.pos p) 0 loc_Exact) as H.
    destruct (binary_round_aux prec emax sx (Z.pos p) 0 loc_Exact); try exact I.
    cbn [is_int]. assert (E : (0 <=? e) = true) by (apply Z.leb_le; exact H). rewrite E. reflexivity.
  - assert (HF : F = Z.neg d) by lia.
    unfold binary_round_aux, shr_fexp.
    assert (Hn : fexp prec emax (Zdigits2 (Z.pos (shift_pos d p)) + F) - F = 0).
    { cbn [Zdigits2]. rewrite digits2_shift.
      replace (Z.pos (digits2_pos p + d) + F) with (Z.pos (digits2_pos p) + 0) by (rewrite HF; lia).
      fold F. lia. }
    rewrite Hn. cbn [shr shr_record_of_loc shr_m loc_of_shr_record round_nearest_even].
    rewrite Hn. cbn [shr shr_m].
    destruct (Zle_bool F (emax - prec)); [|exact I].
    cbn [is_int]. rewrite HF. cbn [Z.leb Z.compare]. unfold split_frac.
    rewrite shift_pos_correct. cbn [Z.opp].
    assert (E : Zpower_pos 2 d * Z.pos p = Z.pos p * 2 ^ Z.pos d) by (rewrite Z.mul_comm; reflexivity).
    rewrite E. rewrite Z.mod_mul; [reflexivity|].
    apply Z.pow_nonzero; lia.
Qed.

Lemma bn_int_is_int : forall z s,
  match binary_normalize prec emax z 0 s with
  | S754_finite s' m e => is_int (S754_finite s' m e) = true
  | S754_zero _ => True
  | _ => True
  end.
Proof.
  intros z s. destruct z as [|p|p]; cbn [binary_normalize]; [exact I| |].
  - pose proof (binary_round_int false p) as H. destruct (binary_round prec emax false p 0); auto.
  - pose proof (binary_round_int true p) as H. destruct (binary_round prec emax true p 0); auto.
Qed.

(* floor, ceil and round return integers (whenever they return a finite number; they never
   overflow, which the sweep and the correspondence run show but is not needed here) *)
Theorem round_ops_int : forall x,
  is_finite x = true ->
  (is_finite (ffloor x) = true -> is_int (ffloor x) = true) /\
  (is_finite (fceil x) = true -> is_int (fceil x) = true) /\
  (is_finite (fround x) = true -> is_int (fround x) = true).
Proof.
  intros x Hx. destruct x as [s|s| |s m e]; try discriminate Hx; cbn [ffloor fceil fround].
  - repeat split; reflexivity.
  - destruct (0 <=? e) eqn:E.
    + cbn [is_int]. rewrite E. repeat split; reflexivity.
    + unfold split_frac. repeat split; intros Hf;
        match goal with |- is_int (binary_normalize prec emax ?z 0 ?sg) = true =>
          pose proof (bn_int_is_int z sg) as H; destruct (binary_normalize prec emax z 0 sg);
          try discriminate Hf; [reflexivity| exact H] end.
Qed.
