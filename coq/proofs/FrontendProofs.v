(* FrontendProofs.v — the lexer theorems for the variant that the translator read off the
   current source (GenLexer.src_* switches), and lexer + renderer together.
   [source_variant_is_repaired] is the only table-dependent step: it fails to compile when the
   source still has (or gets back) one of the two cursor bugs of scanner.rs. *)
From Coq Require Import ZArith List Bool Arith Lia.
Require Import NS.theories.Utf8 NS.theories.GenLexer NS.theories.Lexer NS.theories.Render.
Require Import NS.proofs.Utf8Proofs NS.proofs.LexerProofs NS.proofs.RenderProofs.
Import ListNotations.
Open Scope nat_scope.

Lemma source_variant_is_repaired : variant_of_source = repaired.
Proof. reflexivity. Qed.

Theorem lex_total_spans_wf : forall s, valid_utf8 s = true ->
  exists toks diags, lex variant_of_source s = Ok (toks, diags, length s) /\
    Forall (token_wf s) toks /\ Forall (diag_wf s) diags /\ tokens_ordered 0 toks.
Proof. rewrite source_variant_is_repaired. exact lex_total_spans_wf_repaired. Qed.

Theorem lex_progress : forall s c, valid_utf8 s = true -> cursor_wf s c ->
  exists t c' ds, next_token (token_fuel c) variant_of_source s c = Ok (t, c', ds) /\ cursor_wf s c' /\
    c_pos c <= t_start t /\ t_end t = c_pos c' /\
    (c_pos c < c_pos c' \/ (is_eof t = true /\ c_pos c' = length s)).
Proof. rewrite source_variant_is_repaired. exact lex_progress_repaired. Qed.

(* how the lexer's diagnostics reach the renderer: one label with the diagnostic's span *)
Definition lexer_diag_spans (d : diag) : (nat * nat) * list (nat * nat) :=
  ((d_start d, d_end d), [(d_start d, d_end d)]).

Theorem lexer_diagnostics_render : forall s, valid_utf8 s = true ->
  exists toks diags fin gs, lex variant_of_source s = Ok (toks, diags, fin) /\
    render_ansi s (map lexer_diag_spans diags) = Some gs /\ length gs = length diags.
Proof.
  intros s V. destruct (lex_total_spans_wf s V) as (toks & diags & E & _ & D & _).
  destruct (render_ansi_total s V (map lexer_diag_spans diags)) as (gs & G & L).
  - apply Forall_map. eapply Forall_impl; [|exact D]. intros d W. cbn.
    split; [exact W | constructor; [exact W | constructor]].
  - exists toks, diags, (length s), gs. rewrite map_length in L. auto.
Qed.
