(* LangFuel — fuel monotonicity of Lang.run_impl: a run that does not end in `Fuel` gives
   the same outputs and the same result with any larger fuel.  Hence "resource exhaustion"
   is the only way fuel can influence a run, and theorems comparing runs may quantify
   fuel existentially. *)
From Coq Require Import ZArith List Bool Lia.
Require Import NS.theories.F64 NS.theories.StrLib NS.theories.Lang.
Import ListNotations.

Definition is_fuel {A} (r : res A) : bool := match r with Fuel => true | _ => false end.

(* x ⊑ y: unless x ran out of fuel, y is the same run *)
Definition mle {A} (x y : M A) : Prop := is_fuel (snd x) = false -> x = y.

Lemma mle_refl {A} (x : M A) : mle x x.
Proof. intros _; reflexivity. Qed.

Lemma mle_fuel {A} (o : list value) (y : M A) : mle (o, Fuel) y.
Proof. intros H; discriminate H. Qed.

Lemma bind_mle {A B} (m1 m2 : M A) (f1 f2 : A -> M B) :
  mle m1 m2 -> (forall a, mle (f1 a) (f2 a)) -> mle (bindM m1 f1) (bindM m2 f2).
Proof.
  intros Hm Hf. destruct m1 as [o1 r1]. destruct r1 as [a| e | p | | ]; intros Hnf.
  - assert (E : (o1, Ok a) = m2) by (apply Hm; reflexivity). subst m2.
    cbn [bindM] in *. specialize (Hf a).
    destruct (f1 a) as [o2 r2] eqn:E1. cbn [snd] in Hnf.
    assert (E2 : (o2, r2) = f2 a) by (apply Hf; exact Hnf). rewrite <- E2. reflexivity.
  - assert (E : (o1, Err e) = m2) by (apply Hm; reflexivity). subst m2. reflexivity.
  - assert (E : (o1, Panic p) = m2) by (apply Hm; reflexivity). subst m2. reflexivity.
  - discriminate Hnf.
  - assert (E : (o1, @Unsupp A) = m2) by (apply Hm; reflexivity). subst m2. reflexivity.
Qed.

Section Mono.
Variable P : plan.
Variable eps : f64.

Lemma evals_with_mle ev1 ev2 :
  (forall e s, mle (ev1 e s) (ev2 e s)) ->
  forall es s, mle (evals_with ev1 es s) (evals_with ev2 es s).
Proof.
  intros H es; induction es as [|e r IH]; intros s; cbn [evals_with].
  - apply mle_refl.
  - apply bind_mle; [apply H|]. intros [v s1]. apply bind_mle; [apply IH|].
    intros [vs s2]. apply mle_refl.
Qed.

Lemma indices_with_mle ev1 ev2 :
  (forall e s, mle (ev1 e s) (ev2 e s)) ->
  forall es s, mle (indices_with ev1 es s) (indices_with ev2 es s).
Proof.
  intros H es; induction es as [|e r IH]; intros s; cbn [indices_with].
  - apply mle_refl.
  - apply bind_mle; [apply H|]. intros [v s1]. apply bind_mle; [apply mle_refl|].
    intros i. apply bind_mle; [apply IH|]. intros [is s2]. apply mle_refl.
Qed.

Lemma mutate_with_mle ev1 ev2 :
  (forall e s, mle (ev1 e s) (ev2 e s)) ->
  forall o op s, mle (mutate_with ev1 o op s) (mutate_with ev2 o op s).
Proof.
  intros H o op s. unfold mutate_with. destruct o; try apply mle_refl.
  destruct (flatten_target _ _) as [[[vn vl] ix]|]; [|apply mle_refl].
  apply bind_mle; [apply indices_with_mle; exact H|]. intros [path s1]. apply mle_refl.
Qed.

Lemma stmts_with_mle ex1 ex2 :
  (forall t s, mle (ex1 t s) (ex2 t s)) ->
  forall ts s, mle (stmts_with P ex1 ts s) (stmts_with P ex2 ts s).
Proof.
  intros H ts; induction ts as [|t r IH]; intros s; cbn [stmts_with].
  - apply mle_refl.
  - destruct (in_plan_stmt P (stmt_sid t)); [apply IH|].
    apply bind_mle; [apply H|]. intros [fl s']. destruct fl; try apply mle_refl. apply IH.
Qed.

Ltac mle_step :=
  first
    [ apply mle_refl
    | apply mle_fuel
    | apply bind_mle; [ | intros ]
    | match goal with
      | |- mle (match ?x with _ => _ end) (match ?x with _ => _ end) => destruct x
      | |- mle (if ?x then _ else _) (if ?x then _ else _) => destruct x
      | |- mle (let '(a, b) := ?x in _) _ => destruct x
      end ].

(* one unfolding step: if level n is below level m for all four functions, so is S n / S m *)
Lemma mono_step n m :
  (forall e s, mle (eval P eps n e s) (eval P eps m e s)) ->
  (forall t s, mle (exec P eps n t s) (exec P eps m t s)) ->
  (forall c b s, mle (exec_loop P eps n c b s) (exec_loop P eps m c b s)) ->
  (forall b s, mle (exec_block P eps n b s) (exec_block P eps m b s)) ->
  (forall e s, mle (eval P eps (S n) e s) (eval P eps (S m) e s)) /\
  (forall t s, mle (exec P eps (S n) t s) (exec P eps (S m) t s)) /\
  (forall c b s, mle (exec_loop P eps (S n) c b s) (exec_loop P eps (S m) c b s)) /\
  (forall b s, mle (exec_block P eps (S n) b s) (exec_block P eps (S m) b s)).
Proof.
  intros He Hx Hl Hb.
  pose proof (evals_with_mle _ _ He) as Hes.
  pose proof (indices_with_mle _ _ He) as His.
  pose proof (mutate_with_mle _ _ He) as Hmu.
  pose proof (stmts_with_mle _ _ Hx) as Hst.
  refine (conj _ (conj _ (conj _ _))).
  - intros e s. cbn [eval].
    destruct e; try apply mle_refl.
    + (* EBin *) destruct op;
        repeat (first [ apply He | apply Hes | apply His | apply Hmu | apply Hb | mle_step ]).
    + (* EUn *) repeat (first [ apply He | mle_step ]).
    + (* EArr *) repeat (first [ apply Hes | mle_step ]).
    + (* EIdx *) repeat (first [ apply He | mle_step ]).
    + (* ECall *)
      destruct e; try apply mle_refl.
      * (* callee EVar *)
        repeat (first [ apply He | apply Hes | apply Hb | mle_step ]).
      * (* callee EMember *)
        repeat (first [ apply He | apply Hes | apply His | apply Hmu | apply Hb | mle_step ]).
  - intros t s. cbn [exec].
    destruct t; repeat (first [ apply He | apply His | apply Hb | apply Hl | mle_step ]).
  - intros c b s. cbn [exec_loop].
    repeat (first [ apply He | apply Hb | apply Hl | mle_step ]).
  - intros b s. cbn [exec_block].
    repeat (first [ apply Hst | mle_step ]).
Qed.

Theorem mono_succ : forall n,
  (forall e s, mle (eval P eps n e s) (eval P eps (S n) e s)) /\
  (forall t s, mle (exec P eps n t s) (exec P eps (S n) t s)) /\
  (forall c b s, mle (exec_loop P eps n c b s) (exec_loop P eps (S n) c b s)) /\
  (forall b s, mle (exec_block P eps n b s) (exec_block P eps (S n) b s)).
Proof.
  induction n as [|n (He & Hx & Hl & Hb)].
  - refine (conj _ (conj _ (conj _ _))); intros; apply mle_fuel.
  - apply mono_step; assumption.
Qed.

Lemma mle_trans {A} (x y z : M A) : mle x y -> mle y z -> mle x z.
Proof.
  intros H1 H2 Hnf. assert (E : x = y) by (apply H1; exact Hnf). subst y. apply H2; exact Hnf.
Qed.

Theorem exec_block_mono : forall (n m : nat) b s, (n <= m)%nat ->
  mle (exec_block P eps n b s) (exec_block P eps m b s).
Proof.
  intros n m b s Hle. induction Hle as [|m Hle IH].
  - apply mle_refl.
  - eapply mle_trans; [exact IH|]. apply (mono_succ m).
Qed.

Theorem eval_mono : forall (n m : nat) e s, (n <= m)%nat ->
  mle (eval P eps n e s) (eval P eps m e s).
Proof.
  intros n m e s Hle. induction Hle as [|m Hle IH].
  - apply mle_refl.
  - eapply mle_trans; [exact IH|]. apply (mono_succ m).
Qed.

End Mono.

(* whole programs: a run that does not exhaust its fuel is reproduced by any larger fuel *)
Theorem run_impl_fuel_mono : forall p eps (n m : nat) prog outs e,
  (n <= m)%nat -> run_impl p eps n prog = (outs, e) -> e <> EFuel ->
  run_impl p eps m prog = (outs, e).
Proof.
  intros p eps n m prog outs e Hle Hrun Hne.
  unfold run_impl in *.
  pose proof (exec_block_mono p eps n m prog init_st Hle) as Hm.
  destruct (exec_block p eps n prog init_st) as [o r] eqn:E1.
  assert (Hnf : is_fuel r = false).
  { destruct r; try reflexivity. inversion Hrun; subst. contradiction Hne; reflexivity. }
  specialize (Hm Hnf). rewrite <- Hm. exact Hrun.
Qed.
