(* LangFuel — fuel monotonicity of Lang.run_impl: a run that does not end in `Fuel` gives
   the same outputs and the same result with any larger fuel.  Hence "resource exhaustion"
   is the only way fuel can influence a run, and theorems comparing runs may quantify
   fuel existentially. *)
From Coq Require Import ZArith List Bool Lia.
Require Import NS.theories.F64 NS.theories.StrLib NS.theories.Lang.
Import ListNotations.

Definition is_fuel {A} (r : res A) : bool := match r with Fuel => true | _ => false end.

(* x ⊑ y: unless x ran out of fuel, y is the same run *)
Definition mle {A} (x y : M A) : Prop := is_fuel (snd x) = false -> x = y.

Lemma mle_refl {A} (x : M A) : mle x x.
Proof. intros _; reflexivity. Qed.

Lemma mle_fuel {A} (o : list value) (y : M A) : mle (o, Fuel) y.
Proof. intros H; discriminate H. Qed.

Lemma bind_mle {A B} (m1 m2 : M A) (f1 f2 : A -> M B) :
  mle m1 m2 -> (forall a, mle (f1 a) (f2 a)) -> mle (bindM m1 f1) (bindM m2 f2).
Proof.
  intros Hm Hf. destruct m1 as [o1 r1]. destruct r1 as [a| e | p | | ]; intros Hnf.
  - assert (E : (o1, Ok a) = m2) by (apply Hm; reflexivity). subst m2.
    cbn [bindM] in *. specialize (Hf a).
    destruct (f1 a) as [o2 r2] eqn:E1. cbn [snd] in Hnf.
    assert (E2 : (o2, r2) = f2 a) by (apply Hf; exact Hnf). rewrite <- E2. reflexivity.
  - assert (E : (o1, Err e) = m2) by (apply Hm; reflexivity). subst m2. reflexivity.
  - assert (E : (o1, Panic p) = m2) by (apply Hm; reflexivity). subst m2. reflexivity.
  - discriminate Hnf.
  - assert (E : (o1, @Unsupp A) = m2) by (apply Hm; reflexivity). subst m2. reflexivity.
Qed.
