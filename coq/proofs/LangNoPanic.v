(* LangNoPanic — which `Panic site` endings of Lang.run_impl are impossible.

   Part A (no hypothesis on the program, the plan, eps or the fuel): the sites PNumOp,
   PMutBuiltin, PNoFnScope and PFind are dead by construction.
   Part B (hypothesis: WfStatic.wf_static p = true): the structural sites PArgCount,
   PBuiltinArity, PArgIndex, PBreakEscapes, PIdxAssignEnd and PParamRange are dead.
   Both are proved for ALL plans (also plans the analysis would never produce), all eps and
   all fuel; a run that exhausts the fuel ends in EFuel, a run that reaches an unmodelled
   built-in ends in Unsupported — neither is a Panicked ending, and neither is claimed to
   say anything about what the implementation would have done afterwards. *)
From Coq Require Import ZArith List Bool Lia.
Require Import NS.theories.F64 NS.theories.StrLib NS.theories.Lang NS.theories.WfStatic.
Require Import NS.proofs.StrLibProofs NS.proofs.LangUnfold.
Import ListNotations.
Open Scope Z_scope.

(* ---------- a Hoare-style predicate on the writer/result monad ---------- *)
(* [sat D Q m]: if m ends Ok a then Q a; if it ends in Panic p then p is not one of the
   sites D; Err / Fuel / Unsupp endings are unconstrained. *)
Definition rsat {A} (D : psite -> Prop) (Q : A -> Prop) (r : res A) : Prop :=
  match r with Ok a => Q a | Panic p => ~ D p | _ => True end.
Definition sat {A} (D : psite -> Prop) (Q : A -> Prop) (m : M A) : Prop := rsat D Q (snd m).

Lemma sat_bind {A B} D (Q : A -> Prop) (R : B -> Prop) (m : M A) (f : A -> M B) :
  sat D Q m -> (forall a, Q a -> sat D R (f a)) -> sat D R (bindM m f).
Proof.
  destruct m as [o [a|e|p| |]]; unfold sat, rsat; cbn; intros H K; auto.
  specialize (K a H). destruct (f a) as [o2 r]. exact K.
Qed.

Lemma sat_weaken {A} D (Q Q' : A -> Prop) (m : M A) :
  (forall a, Q a -> Q' a) -> sat D Q m -> sat D Q' m.
Proof. destruct m as [o [a|e|p| |]]; unfold sat, rsat; cbn; auto. Qed.

Lemma sat_lift {A} D (Q : A -> Prop) (r : res A) : rsat D Q r -> sat D Q (lift r).
Proof. exact (fun H => H). Qed.

Lemma sat_OkM {A} D (Q : A -> Prop) a : Q a -> sat D Q (OkM a).
Proof. exact (fun H => H). Qed.
Lemma sat_ErrM {A} D (Q : A -> Prop) e : sat D Q (@ErrM A e).
Proof. exact I. Qed.
Lemma sat_UnsuppM {A} D (Q : A -> Prop) : sat D Q (@UnsuppM A).
Proof. exact I. Qed.
Lemma sat_FuelM {A} D (Q : A -> Prop) : sat D Q (@FuelM A).
Proof. exact I. Qed.
Lemma sat_PanicM {A} (D : psite -> Prop) (Q : A -> Prop) p : ~ D p -> sat D Q (@PanicM A p).
Proof. exact (fun H => H). Qed.

(* results that never panic at all *)
Definition nopanic {A} (r : res A) : Prop := match r with Panic _ => False | _ => True end.
Lemma nopanic_rsat {A} D (r : res A) : nopanic r -> rsat D (fun _ => True) r.
Proof. destruct r; cbn; auto. Qed.

Lemma index_value_nopanic v : nopanic (index_value v).
Proof.
  destruct v; cbn; auto.
  destruct (negb (is_finite x) || negb (is_int x)); cbn; auto.
  destruct (flt x (fzero false)); cbn; auto.
Qed.

Lemma truthy_nopanic v : nopanic (truthy_cond v).
Proof. destruct v; cbn; auto. Qed.

Lemma mutate_path_nopanic op : forall path v, nopanic (mutate_path v path op).
Proof.
  induction path as [|i rest IH]; intros v; destruct v; cbn; auto.
  - destruct (apply_mutop op vs). exact I.
  - destruct (len_z vs <=? i); cbn; auto.
    destruct (nth_value vs (Z.to_nat i)) as [sub|]; cbn; auto.
    specialize (IH sub). destruct (mutate_path sub rest op) as [[sub' r]| | | |]; cbn in *; auto.
Qed.

Lemma num_binop_nopanic eps op a b : op <> And -> op <> Or -> nopanic (num_binop eps op a b).
Proof.
  intros H1 H2. destruct op; cbn; auto; try congruence;
  destruct (feqb b (fzero false)); cbn; auto.
Qed.

Lemma binop_values_nopanic eps op l r : op <> And -> op <> Or -> nopanic (binop_values eps op l r).
Proof.
  intros H1 H2. destruct l, r; cbn; try (destruct op; cbn; auto; fail).
  apply num_binop_nopanic; assumption.
Qed.

Lemma find_total h n : match find h n with Found _ | NotFound => True | _ => False end.
Proof. rewrite find_correct. destruct (first_occ h n); exact I. Qed.

Lemma interp_segs_only_segvar e : forall segs p, interp_segs e segs = Panic p -> p = PSegVar.
Proof.
  induction segs as [|g r IH]; intros p; cbn [interp_segs]; [discriminate|].
  destruct g as [b|vn vl].
  - destruct (interp_segs e r); try discriminate. intros H; injection H as <-. apply IH; reflexivity.
  - destruct (lookup_env vl vn e); [|intros H; injection H as <-; reflexivity].
    destruct (interp_segs e r); try discriminate. intros H; injection H as <-. apply IH; reflexivity.
Qed.

Lemma interp_segs_rsat (D : psite -> Prop) e segs : ~ D PSegVar -> rsat D (fun _ => True) (interp_segs e segs).
Proof.
  intros HD. destruct (interp_segs e segs) eqn:E; cbn; auto.
  apply interp_segs_only_segvar in E. subst. exact HD.
Qed.

Lemma assign_path_panic nv : forall path v p,
  assign_path v path nv = Panic p -> path = [] /\ p = PIdxAssignEnd.
Proof.
  induction path as [|i rest IH]; intros v p; cbn [assign_path].
  - intros H; injection H as <-. auto.
  - destruct v; try discriminate.
    destruct (len_z vs <=? i); [discriminate|].
    destruct rest as [|j rest']; [discriminate|].
    destruct (nth_value vs (Z.to_nat i)) as [sub|]; [|discriminate].
    destruct (assign_path sub (j :: rest') nv) eqn:E; cbn; try discriminate.
    intros H; injection H as <-. apply IH in E. destruct E as [E _]. discriminate E.
Qed.

Lemma assign_path_rsat (D : psite -> Prop) nv path v :
  ~ D PIdxAssignEnd \/ path <> [] -> rsat D (fun _ => True) (assign_path v path nv).
Proof.
  intros HD. destruct (assign_path v path nv) eqn:E; cbn; auto.
  apply assign_path_panic in E. destruct E as [-> ->]. destruct HD as [HD|HD]; [exact HD|congruence].
Qed.

(* ---------- method-name facts ---------- *)
Lemma mut_builtin_dead f :
  mem_name f array_mut_methods = false -> mem_name f array_methods = true ->
  bytes_eqb f n_len = false -> bytes_eqb f n_join = false -> False.
Proof.
  unfold mem_name, array_mut_methods, array_methods. cbn [existsb].
  intros H1 H2 H3 H4. rewrite H3, H4 in H2.
  destruct (bytes_eqb f n_push), (bytes_eqb f n_pop), (bytes_eqb f n_reverse); cbn in *; discriminate.
Qed.

Lemma string_last_is_split f :
  mem_name f string_methods = true ->
  bytes_eqb f n_len = false -> bytes_eqb f n_slice = false -> bytes_eqb f n_to_uppercase = false ->
  bytes_eqb f n_to_lowercase = false -> bytes_eqb f n_trim = false -> bytes_eqb f n_to_number = false ->
  bytes_eqb f n_find = false -> bytes_eqb f n_replace = false -> bytes_eqb f n_split = true.
Proof.
  unfold mem_name, string_methods. cbn [existsb].
  intros H H1 H2 H3 H4 H5 H6 H7 H8. rewrite H1, H2, H3, H4, H5, H6, H7, H8 in H.
  cbn in H. rewrite orb_false_r in H. exact H.
Qed.

(* ====================================================================================== *)
(* Part A: sites dead by construction                                                     *)
(* ====================================================================================== *)
Definition DeadA (p : psite) : Prop := p = PNumOp \/ p = PMutBuiltin \/ p = PNoFnScope \/ p = PFind.

Ltac notA := let H := fresh in intros H; unfold DeadA in H; intuition discriminate.

Definition T {A} : A -> Prop := fun _ => True.
Notation npA m := (sat DeadA T m).

Lemma hoist_nopanic P : forall b s, fns s <> [] -> nopanic (hoist P b s).
Proof.
  induction b as [|t r IH]; intros s Hs; cbn; auto.
  destruct t; try (apply IH; assumption).
  destruct (in_plan_fn P fid); [apply IH; assumption|].
  destruct (fns s) as [|sc rest] eqn:E; [congruence|].
  apply IH. cbn. discriminate.
Qed.

Section PartA.
Variable P : plan.
Variable eps : f64.
Variable ev : expr -> st -> M (value * st).
Variable ex : stmt -> st -> M (flow * st).
Variable el : expr -> list stmt -> st -> M (flow * st).
Variable eb : list stmt -> st -> M (flow * st).
Hypothesis Hev : forall e s, npA (ev e s).
Hypothesis Hex : forall t s, npA (ex t s).
Hypothesis Hel : forall c b s, npA (el c b s).
Hypothesis Heb : forall b s, npA (eb b s).

Tactic Notation "bindA" "as" simple_intropattern(pat) := eapply sat_bind; [ | intros pat _ ].
Ltac bindA := eapply sat_bind; [ | intros ? _ ].
Ltac leafA :=
  first [ exact I | apply sat_ErrM | apply sat_UnsuppM | apply sat_OkM; exact I
        | apply sat_PanicM; notA | apply Hev | apply Heb | apply Hel | apply Hex ].

Lemma evals_f_A : forall es s, npA (evals_with ev es s).
Proof.
  induction es as [|e r IH]; intros s; cbn [evals_with]; [leafA|].
  bindA as [v s1]; [apply Hev|]. bindA as [vs s2]; [apply IH|]. leafA.
Qed.

Lemma eval_indices_f_A : forall es s, npA (indices_with ev es s).
Proof.
  induction es as [|e r IH]; intros s; cbn [indices_with]; [leafA|].
  bindA as [v s1]; [apply Hev|].
  bindA; [apply sat_lift, nopanic_rsat, index_value_nopanic|].
  bindA as [is s2]; [apply IH|]. leafA.
Qed.

Lemma tail_mutate_A vl vn s root path op :
  npA (bindM (lift (mutate_path root path op))
        (fun '(root', r) => match assign_env vl vn root' (env s) with
                            | Some e' => OkM (r, with_env e' s)
                            | None => PanicM PMutVarMissing end)).
Proof.
  bindA as [root' r]; [apply sat_lift, nopanic_rsat, mutate_path_nopanic|]. destruct (assign_env vl vn root' (env s)); leafA.
Qed.

Lemma mutate_f_A o op s : npA (mutate_with ev o op s).
Proof.
  destruct o; cbn [mutate_with]; try leafA.
  - destruct (lookup_env l n (env s)); [apply tail_mutate_A|leafA].
  - destruct (flatten_target (EIdx o1 o2) []) as [[[vn vl] idx]|]; [|leafA].
    bindA as [path s1]; [apply eval_indices_f_A|].
    destruct (lookup_env vl vn (env s1)); [apply tail_mutate_A|leafA].
Qed.

Lemma string_call_A str f args s1 : npA (string_call ev str f args s1).
Proof.
  unfold string_call.
  repeat match goal with
  | |- sat _ _ (if ?c then _ else _) => destruct c
  | |- sat _ _ (match ?a with [] => _ | _ :: _ => _ end) => destruct a
  | |- sat _ _ (bindM (ev _ _) _) => bindA; [apply Hev|]
  | |- sat _ _ (let '(_, _) := ?a in _) => destruct a
  | |- sat _ _ (match ?a with (_, _) => _ end) => destruct a
  | |- sat _ _ (match ?v with VNum _ => _ | _ => _ end) => destruct v
  | |- sat _ _ (match find ?h ?n with Found _ => _ | _ => _ end) =>
      let Hf := fresh "Hf" in pose proof (find_total h n) as Hf; destruct (find h n); try leafA; destruct Hf
  | |- sat _ _ (match replace ?h ?a ?b with SOk _ => _ | _ => _ end) => rewrite replace_correct
  | |- _ => leafA
  end.
Qed.

Lemma array_call_A items f args s1 :
  mem_name f array_mut_methods = false -> npA (array_call ev items f args s1).
Proof.
  intros Hm. unfold array_call.
  destruct (mem_name f array_methods) eqn:E1; cbn [negb]; [|leafA].
  destruct (bytes_eqb f n_len) eqn:E2; [leafA|].
  destruct (bytes_eqb f n_join) eqn:E3.
  - destruct args as [|a0 ?]; [leafA|]. bindA as [v0 s2]; [apply Hev|]. destruct v0; leafA.
  - exfalso. eapply mut_builtin_dead; eassumption.
Qed.

Lemma member_call_A o f args s : npA (member_call ev o f args s).
Proof.
  unfold member_call.
  destruct (mem_name f array_mut_methods) eqn:Em.
  - destruct (bytes_eqb f n_push).
    + destruct args as [|a0 ?]; [leafA|]. bindA as [v s1]; [apply Hev|]. apply mutate_f_A.
    + destruct (bytes_eqb f n_pop); apply mutate_f_A.
  - destruct (mem_name f proc_mut_names); [leafA|].
    bindA as [recv s1]; [apply Hev|]. destruct recv; try leafA.
    + destruct (mem_name f number_methods); leafA.
    + apply string_call_A.
    + apply array_call_A. exact Em.
Qed.

Lemma user_call_A fname args target s : npA (user_call ev eb fname args target s).
Proof.
  unfold user_call. destruct (lookup_fn target fname (fns s)) as [fd|]; [|leafA].
  bindA as [vs s1]; [apply evals_f_A|].
  destruct (negb (Nat.eqb (length vs) (length (f_params fd)))); [leafA|].
  match goal with |- sat _ _ (if ?c then _ else _) => destruct c end; [leafA|].
  lazy zeta. bindA as [fl s3]; [apply Heb|]. destruct fl; leafA.
Qed.

Lemma builtin_call_A g args s : npA (builtin_call ev g args s).
Proof.
  unfold builtin_call. bindA as [vs s1]; [apply evals_f_A|].
  destruct vs as [|v [|? ?]]; try leafA. destruct g; leafA.
Qed.

Lemma eval_body_A e s : npA (eval_body eps ev eb e s).
Proof.
  destruct e; cbn [eval_body]; try leafA.
  - bindA; [apply sat_lift, interp_segs_rsat; notA|]. leafA.
  - destruct (lookup_env l n (env s)); leafA.
  - destruct op.
    all: try (bindA as [lv s1]; [apply Hev|]; bindA as [rv s2]; [apply Hev|];
              bindA; [apply sat_lift, nopanic_rsat, binop_values_nopanic; discriminate|]; leafA).
    + bindA as [lv s1]; [apply Hev|].
      destruct lv as [| |[|]| |]; try leafA;
      (bindA as [rv s2]; [apply Hev|]; destruct rv; leafA).
    + bindA as [lv s1]; [apply Hev|].
      destruct lv as [| |[|]| |]; try leafA;
      (bindA as [rv s2]; [apply Hev|]; destruct rv; leafA).
  - bindA as [v s1]; [apply Hev|]. destruct op, v; leafA.
  - bindA as [vs s1]; [apply evals_f_A|]. leafA.
  - bindA as [av s1]; [apply Hev|]. bindA as [iv s2]; [apply Hev|].
    destruct av; try leafA. destruct iv; try leafA.
    destruct (negb (is_finite x) || negb (is_int x)); [leafA|]. lazy zeta.
    destruct ((to_isize x <? 0) || (len_z vs <=? to_isize x)); [leafA|].
    destruct (nth_value vs (Z.to_nat (to_isize x))); leafA.
  - destruct e; try leafA.
    + destruct (global_builtin n); [apply builtin_call_A|apply user_call_A].
    + apply member_call_A.
Qed.

Lemma exec_body_A t s : npA (exec_body ev el eb t s).
Proof.
  destruct t; cbn [exec_body]; try leafA.
  - bindA as [v s1]; [apply Hev|]. leafA.
  - bindA as [v s1]; [apply Hev|]. destruct (assign_env l n v (env s1)); leafA.
  - bindA as [v s1]; [apply Hev|].
    destruct (flatten_target target []) as [[[vn vl] idx]|]; [|leafA].
    bindA as [path s2]; [apply eval_indices_f_A|].
    destruct (lookup_env vl vn (env s2)) as [root|]; [|leafA].
    bindA as root'; [apply sat_lift, assign_path_rsat; left; notA|].
    destruct (assign_env vl vn root' (env s2)); leafA.
  - bindA as [cv s1]; [apply Hev|].
    bindA; [apply sat_lift, nopanic_rsat, truthy_nopanic|].
    destruct a; [apply Heb|]. destruct f; leafA.
  - destruct e; [|leafA]. bindA as [v s1]; [apply Hev|]. leafA.
  - bindA as [v s1]; [apply Hev|]. leafA.
Qed.

Lemma loop_body_A c body s : npA (loop_body ev el eb c body s).
Proof.
  unfold loop_body. bindA as [cv s1]; [apply Hev|].
  bindA as b; [apply sat_lift, nopanic_rsat, truthy_nopanic|].
  destruct (negb b); [leafA|]. bindA as [fl s2]; [apply Heb|]. destruct fl; leafA.
Qed.

Lemma stmts_with_A : forall ts s, npA (stmts_with P ex ts s).
Proof.
  induction ts as [|t r IH]; intros s; cbn [stmts_with]; [leafA|].
  destruct (in_plan_stmt P (stmt_sid t)); [apply IH|].
  bindA as [fl s']; [apply Hex|]. destruct fl; try leafA. apply IH.
Qed.

Lemma block_body_A b s : npA (block_body P ex b s).
Proof.
  unfold block_body. bindA as s1; [|apply stmts_with_A].
  apply sat_lift, nopanic_rsat, hoist_nopanic. cbn. discriminate.
Qed.

End PartA.

Lemma deadA_all P eps : forall n,
  (forall e s, npA (eval P eps n e s)) /\ (forall t s, npA (exec P eps n t s)) /\
  (forall c b s, npA (exec_loop P eps n c b s)) /\ (forall b s, npA (exec_block P eps n b s)).
Proof.
  induction n as [|n (IHe & IHx & IHl & IHb)].
  - repeat split; intros; exact I.
  - refine (conj _ (conj _ (conj _ _))); intros.
    + rewrite eval_S. apply eval_body_A; assumption.
    + rewrite exec_S. apply exec_body_A; assumption.
    + rewrite exec_loop_S. apply loop_body_A; assumption.
    + rewrite exec_block_S. apply block_body_A; assumption.
Qed.

Definition ending_of (r : list value * ending) : ending := snd r.

Theorem run_impl_deadA plan eps fuel prog s :
  ending_of (run_impl plan eps fuel prog) = Panicked s -> ~ DeadA s.
Proof.
  unfold run_impl, ending_of.
  pose proof (proj2 (proj2 (proj2 (deadA_all plan eps fuel))) prog init_st) as H.
  unfold sat in H. destruct (exec_block plan eps fuel prog init_st) as [o r].
  cbn [snd] in *. destruct r; try discriminate. intros E; injection E as <-. exact H.
Qed.

(* ====================================================================================== *)
(* Part B: structural sites, dead for programs that pass WfStatic.wf_static               *)
(* ====================================================================================== *)
Definition DeadB (p : psite) : Prop :=
  p = PArgCount \/ p = PBuiltinArity \/ p = PArgIndex \/ p = PBreakEscapes \/
  p = PIdxAssignEnd \/ p = PParamRange.

Ltac notB := let H := fresh in intros H; unfold DeadB in H; intuition discriminate.
Ltac andb_split :=
  repeat match goal with H : _ && _ = true |- _ => apply andb_prop in H; destruct H end.

Lemma opt_nat_eqb_true a n : opt_nat_eqb a n = true -> a = Some n.
Proof. destruct a as [k|]; cbn; [|discriminate]. intros H. apply Nat.eqb_eq in H. congruence. Qed.

Lemma need_true f m k n : need f m k n = true -> bytes_eqb f m = true -> (k <= n)%nat.
Proof. unfold need. intros H E. rewrite E in H. cbn in H. apply Nat.leb_le. exact H. Qed.

Lemma flatten_len : forall t acc n l idxs,
  flatten_target t acc = Some (n, l, idxs) -> (length acc <= length idxs)%nat.
Proof.
  induction t; intros acc n0 l0 idxs; cbn [flatten_target]; try discriminate.
  - intros H; injection H as _ _ <-. lia.
  - intros H. apply IHt1 in H. cbn in H. lia.
Qed.

Section PartB.
Variable tbl : list (Z * nat).

Lemma flatten_wf : forall t acc n l idxs,
  wf_expr tbl t = true -> forallb (wf_expr tbl) acc = true ->
  flatten_target t acc = Some (n, l, idxs) -> forallb (wf_expr tbl) idxs = true.
Proof.
  induction t; intros acc n0 l0 idxs Hw Ha; cbn [flatten_target]; try discriminate.
  - intros H; injection H as _ _ <-. exact Ha.
  - cbn [wf_expr] in Hw. andb_split. intros Hf. eapply IHt1; [assumption| |exact Hf].
    cbn [forallb]. rewrite Ha. match goal with H : wf_expr tbl t2 = true |- _ => rewrite H end. reflexivity.
Qed.

Definition fd_ok (fd : fdef) : Prop :=
  exists i, f_id fd = Some i /\ assoc i tbl = Some (length (f_params fd))
            /\ Z.of_nat (length (f_params fd)) <= f_llen fd
            /\ wf_block tbl false (f_body fd) = true.

(* every function registered in any runtime function scope is a checked definition *)
Definition inv (s : st) : Prop := Forall (Forall fd_ok) (fns s).

Definition Qe (r : value * st) : Prop := inv (snd r).
Definition Qx (il : bool) (r : flow * st) : Prop :=
  inv (snd r) /\ (il = false -> fst r <> FBreak /\ fst r <> FNext).

Lemma inv_push sl s : inv s -> inv (push_scope sl s).
Proof. unfold inv. cbn. intros H. constructor; [constructor|exact H]. Qed.
Lemma inv_pop s : inv s -> inv (pop_scope s).
Proof. unfold inv, pop_scope. cbn. destruct (fns s); cbn; auto. intros H. inversion H; assumption. Qed.
Lemma inv_with_env e s : inv s -> inv (with_env e s).
Proof. exact (fun H => H). Qed.

Lemma Qx_weaken il r : Qx false r -> Qx il r.
Proof. intros [H1 H2]. split; [exact H1|]. intros _. apply H2. reflexivity. Qed.

Lemma hoist_inv P : forall b s il, wf_block tbl il b = true -> inv s -> rsat DeadB inv (hoist P b s).
Proof.
  induction b as [|t r IH]; intros s il Hw Hi; cbn [hoist]; [exact Hi|].
  unfold wf_block in Hw. cbn [forallb] in Hw. andb_split.
  destruct t; try (eapply IH; eassumption).
  destruct (in_plan_fn P fid); [eapply IH; eassumption|].
  destruct (fns s) as [|sc rest] eqn:E; [cbn; notB|].
  eapply IH; [eassumption|]. unfold inv in *. cbn [fns]. rewrite E in Hi.
  inversion Hi as [|? ? Hsc Hrest]; subst. constructor; [|exact Hrest]. constructor; [|exact Hsc].
  match goal with H : wf_stmt _ _ (SFun _ _ _ _ _ _ _) = true |- _ => cbn [wf_stmt] in H end.
  andb_split. destruct fid as [i|]; [|discriminate].
  exists i. cbn. refine (conj eq_refl (conj _ (conj _ _))).
  - apply opt_nat_eqb_true. assumption.
  - apply Z.leb_le. assumption.
  - assumption.
Qed.

Lemma find_fn_scope_ok target n : forall sc fd,
  Forall fd_ok sc -> find_fn_scope target n sc = Some fd -> fd_ok fd /\ fdef_matches target n fd = true.
Proof.
  induction sc as [|f r IH]; intros fd Hs; cbn [find_fn_scope]; [discriminate|].
  inversion Hs; subst. destruct (fdef_matches target n f) eqn:E.
  - intros H; injection H as <-. auto.
  - apply IH. assumption.
Qed.

Lemma lookup_fn_ok target n : forall fs fd,
  Forall (Forall fd_ok) fs -> lookup_fn target n fs = Some fd -> fd_ok fd /\ fdef_matches target n fd = true.
Proof.
  induction fs as [|sc r IH]; intros fd Hs; cbn [lookup_fn]; [discriminate|].
  inversion Hs; subst. destruct (find_fn_scope target n sc) as [f|] eqn:E.
  - intros H; injection H as <-. eapply find_fn_scope_ok; eassumption.
  - apply IH. assumption.
Qed.

Variable P : plan.
Variable eps : f64.
Variable ev : expr -> st -> M (value * st).
Variable ex : stmt -> st -> M (flow * st).
Variable el : expr -> list stmt -> st -> M (flow * st).
Variable eb : list stmt -> st -> M (flow * st).
Hypothesis Hev : forall e s, wf_expr tbl e = true -> inv s -> sat DeadB Qe (ev e s).
Hypothesis Hex : forall t s il, wf_stmt tbl il t = true -> inv s -> sat DeadB (Qx il) (ex t s).
Hypothesis Hel : forall c b s, wf_expr tbl c = true -> wf_block tbl true b = true -> inv s ->
                               sat DeadB (Qx false) (el c b s).
Hypothesis Heb : forall b s il, wf_block tbl il b = true -> inv s -> sat DeadB (Qx il) (eb b s).

Tactic Notation "bindB" "by" tactic3(t) "as" simple_intropattern(p1) simple_intropattern(p2) :=
  eapply sat_bind; [ t | intros p1 p2 ].
Ltac leafB :=
  first [ exact I | apply sat_ErrM | apply sat_UnsuppM | apply sat_PanicM; notB ].
Ltac evB := apply Hev; assumption.

Lemma evals_with_B : forall es s, forallb (wf_expr tbl) es = true -> inv s ->
  sat DeadB (fun r => inv (snd r) /\ length (fst r) = length es) (evals_with ev es s).
Proof.
  induction es as [|e r IH]; intros s Hw Hi; cbn [evals_with].
  - apply sat_OkM. cbn. auto.
  - cbn [forallb] in Hw. andb_split.
    bindB by (evB) as [v s1] Hq. unfold Qe in Hq; cbn [snd] in Hq.
    bindB by (apply IH; assumption) as [vs s2] [Hq2 Hl]. cbn [fst snd] in *.
    apply sat_OkM. cbn. auto.
Qed.

Lemma indices_with_B : forall es s, forallb (wf_expr tbl) es = true -> inv s ->
  sat DeadB (fun r => inv (snd r) /\ length (fst r) = length es) (indices_with ev es s).
Proof.
  induction es as [|e r IH]; intros s Hw Hi; cbn [indices_with].
  - apply sat_OkM. cbn. auto.
  - cbn [forallb] in Hw. andb_split.
    bindB by (evB) as [v s1] Hq. unfold Qe in Hq; cbn [snd] in Hq.
    bindB by (apply sat_lift, nopanic_rsat, index_value_nopanic) as i _.
    bindB by (apply IH; assumption) as [is s2] [Hq2 Hl]. cbn [fst snd] in *.
    apply sat_OkM. cbn. auto.
Qed.

Lemma tail_mutate_B vl vn s root path op : inv s ->
  sat DeadB Qe (bindM (lift (mutate_path root path op))
        (fun '(root', r) => match assign_env vl vn root' (env s) with
                            | Some e' => OkM (r, with_env e' s)
                            | None => PanicM PMutVarMissing end)).
Proof.
  intros Hi. bindB by (apply sat_lift, nopanic_rsat, mutate_path_nopanic) as [root' r] _.
  destruct (assign_env vl vn root' (env s)); [apply sat_OkM; exact Hi|leafB].
Qed.

Lemma mutate_with_B o op s : wf_expr tbl o = true -> inv s -> sat DeadB Qe (mutate_with ev o op s).
Proof.
  intros Hw Hi. destruct o; cbn [mutate_with]; try leafB.
  - destruct (lookup_env l n (env s)); [apply tail_mutate_B; assumption|leafB].
  - destruct (flatten_target (EIdx o1 o2) []) as [[[vn vl] idx]|] eqn:Ef; [|leafB].
    assert (Hidx : forallb (wf_expr tbl) idx = true)
      by (eapply flatten_wf; [exact Hw| |exact Ef]; reflexivity).
    bindB by (apply indices_with_B; assumption) as [path s1] [Hq _].
    cbn [snd] in Hq. destruct (lookup_env vl vn (env s1)); [apply tail_mutate_B; assumption|leafB].
Qed.

Lemma string_call_B str f args s1 :
  forallb (wf_expr tbl) args = true -> member_args_ok f (length args) = true -> inv s1 ->
  sat DeadB Qe (string_call ev str f args s1).
Proof.
  intros Hw Hm Hi. unfold member_args_ok in Hm. andb_split. unfold string_call.
  destruct (mem_name f string_methods) eqn:E0; cbn [negb]; [|leafB].
  destruct (bytes_eqb f n_len) eqn:E1; [apply sat_OkM; exact Hi|].
  destruct (bytes_eqb f n_slice) eqn:E2.
  { match goal with H : need f n_slice _ _ = true |- _ => pose proof (need_true _ _ _ _ H E2) as Hl end.
    destruct args as [|a0 [|a1 rest]]; cbn [length] in Hl; try lia.
    cbn [forallb] in Hw. andb_split.
    bindB by (evB) as [v0 s2] Hq. unfold Qe in Hq; cbn [snd] in Hq.
    bindB by (evB) as [v1 s3] Hq3. unfold Qe in Hq3; cbn [snd] in Hq3.
    destruct v0; try leafB; destruct v1; try leafB. apply sat_OkM. exact Hq3. }
  destruct (bytes_eqb f n_to_uppercase) eqn:E3.
  { apply sat_OkM; exact Hi. }
  destruct (bytes_eqb f n_to_lowercase) eqn:E4.
  { apply sat_OkM; exact Hi. }
  destruct (bytes_eqb f n_trim) eqn:E5; [apply sat_OkM; exact Hi|].
  destruct (bytes_eqb f n_to_number) eqn:E6; [apply sat_OkM; exact Hi|].
  destruct (bytes_eqb f n_find) eqn:E7.
  { match goal with H : need f n_find _ _ = true |- _ => pose proof (need_true _ _ _ _ H E7) as Hl end.
    destruct args as [|a0 rest]; cbn [length] in Hl; try lia.
    cbn [forallb] in Hw. andb_split.
    bindB by (evB) as [v0 s2] Hq. unfold Qe in Hq; cbn [snd] in Hq.
    destruct v0; try leafB. destruct (find str s); try leafB; apply sat_OkM; exact Hq. }
  destruct (bytes_eqb f n_replace) eqn:E8.
  { match goal with H : need f n_replace _ _ = true |- _ => pose proof (need_true _ _ _ _ H E8) as Hl end.
    destruct args as [|a0 [|a1 rest]]; cbn [length] in Hl; try lia.
    cbn [forallb] in Hw. andb_split.
    bindB by (evB) as [v0 s2] Hq. unfold Qe in Hq; cbn [snd] in Hq.
    bindB by (evB) as [v1 s3] Hq3. unfold Qe in Hq3; cbn [snd] in Hq3.
    destruct v0; try leafB; destruct v1; try leafB.
    destruct (replace str s s0); try leafB. apply sat_OkM. exact Hq3. }
  pose proof (string_last_is_split f E0 E1 E2 E3 E4 E5 E6 E7 E8) as E9.
  match goal with H : need f n_split _ _ = true |- _ => pose proof (need_true _ _ _ _ H E9) as Hl end.
  destruct args as [|a0 rest]; cbn [length] in Hl; try lia.
  cbn [forallb] in Hw. andb_split.
  bindB by (evB) as [v0 s2] Hq. unfold Qe in Hq; cbn [snd] in Hq.
  destruct v0; try leafB. apply sat_OkM. exact Hq.
Qed.

Lemma array_call_B items f args s1 :
  forallb (wf_expr tbl) args = true -> member_args_ok f (length args) = true -> inv s1 ->
  sat DeadB Qe (array_call ev items f args s1).
Proof.
  intros Hw Hm Hi. unfold member_args_ok in Hm. andb_split. unfold array_call.
  destruct (mem_name f array_methods) eqn:E0; cbn [negb]; [|leafB].
  destruct (bytes_eqb f n_len) eqn:E1; [apply sat_OkM; exact Hi|].
  destruct (bytes_eqb f n_join) eqn:E2; [|leafB].
  match goal with H : need f n_join _ _ = true |- _ => pose proof (need_true _ _ _ _ H E2) as Hl end.
  destruct args as [|a0 rest]; cbn [length] in Hl; try lia.
  cbn [forallb] in Hw. andb_split.
  bindB by (evB) as [v0 s2] Hq. unfold Qe in Hq; cbn [snd] in Hq.
  destruct v0; try leafB. apply sat_OkM. exact Hq.
Qed.

Lemma member_call_B o f args s :
  wf_expr tbl o = true -> forallb (wf_expr tbl) args = true ->
  member_args_ok f (length args) = true -> inv s ->
  sat DeadB Qe (member_call ev o f args s).
Proof.
  intros Ho Hw Hm Hi. unfold member_call.
  destruct (mem_name f array_mut_methods) eqn:Em.
  - destruct (bytes_eqb f n_push) eqn:E1.
    + unfold member_args_ok in Hm. andb_split.
      match goal with H : need f n_push _ _ = true |- _ => pose proof (need_true _ _ _ _ H E1) as Hl end.
      destruct args as [|a0 rest]; cbn [length] in Hl; try lia.
      cbn [forallb] in Hw. andb_split.
      bindB by (evB) as [v s1] Hq. unfold Qe in Hq; cbn [snd] in Hq.
      apply mutate_with_B; assumption.
    + destruct (bytes_eqb f n_pop); apply mutate_with_B; assumption.
  - destruct (mem_name f proc_mut_names); [leafB|].
    bindB by (evB) as [recv s1] Hq. unfold Qe in Hq; cbn [snd] in Hq.
    destruct recv; try leafB.
    + destruct (mem_name f number_methods); [apply sat_OkM; exact Hq|leafB].
    + apply string_call_B; assumption.
    + apply array_call_B; assumption.
Qed.

Lemma builtin_call_B g args s :
  forallb (wf_expr tbl) args = true -> length args = 1%nat -> inv s ->
  sat DeadB Qe (builtin_call ev g args s).
Proof.
  intros Hw Hl Hi. unfold builtin_call.
  bindB by (apply evals_with_B; assumption) as [vs s1] [Hq Hlen]. cbn [fst snd] in *.
  rewrite Hl in Hlen. destruct vs as [|v [|? ?]]; cbn [length] in Hlen; try lia.
  destruct g; first [exact Hq | leafB | apply sat_OkM; exact Hq].
Qed.

Lemma user_call_B fname args i s :
  forallb (wf_expr tbl) args = true -> assoc i tbl = Some (length args) -> inv s ->
  sat DeadB Qe (user_call ev eb fname args (Some i) s).
Proof.
  intros Hw Ha Hi. unfold user_call.
  destruct (lookup_fn (Some i) fname (fns s)) as [fd|] eqn:El; [|leafB].
  destruct (lookup_fn_ok _ _ _ _ Hi El) as [(j & Hid & Has & Hll & Hbody) Hmatch].
  unfold fdef_matches in Hmatch. rewrite Hid in Hmatch. cbn [opt_eqb] in Hmatch.
  apply Z.eqb_eq in Hmatch. subst j.
  bindB by (apply evals_with_B; assumption) as [vs s1] [Hq Hlen]. cbn [fst snd] in *.
  assert (Hn : length vs = length (f_params fd)) by congruence.
  rewrite Hn, Nat.eqb_refl. cbn [negb]. rewrite Hid.
  destruct (f_llen fd <? Z.of_nat (length (f_params fd))) eqn:Elt; [apply Z.ltb_lt in Elt; lia|].
  lazy zeta. bindB by (apply Heb; [exact Hbody|apply inv_push; exact Hq]) as [fl s3] [Hq3 Hfl].
  cbn [fst snd] in *. specialize (Hfl eq_refl). destruct Hfl as [Hb Hn'].
  destruct fl; try congruence; apply sat_OkM; apply inv_pop; exact Hq3.
Qed.

Lemma eval_body_B e s : wf_expr tbl e = true -> inv s -> sat DeadB Qe (eval_body eps ev eb e s).
Proof.
  intros Hw Hi. destruct e; cbn [eval_body]; try (apply sat_OkM; exact Hi); try leafB.
  - bindB by (apply sat_lift, interp_segs_rsat; notB) as b _. apply sat_OkM. exact Hi.
  - destruct (lookup_env l n (env s)); [apply sat_OkM; exact Hi|leafB].
  - cbn [wf_expr] in Hw. andb_split. destruct op.
    all: try (bindB by (evB) as [lv s1] Hq; unfold Qe in Hq; cbn [snd] in Hq;
              bindB by (evB) as [rv s2] Hq2; unfold Qe in Hq2; cbn [snd] in Hq2;
              bindB by (apply sat_lift, nopanic_rsat, binop_values_nopanic; discriminate) as v _;
              apply sat_OkM; exact Hq2).
    + bindB by (evB) as [lv s1] Hq. unfold Qe in Hq; cbn [snd] in Hq.
      destruct lv as [| |[|]| |]; try (apply sat_OkM; exact Hq);
      (bindB by (evB) as [rv s2] Hq2; unfold Qe in Hq2; cbn [snd] in Hq2;
       destruct rv; try leafB; apply sat_OkM; exact Hq2).
    + bindB by (evB) as [lv s1] Hq. unfold Qe in Hq; cbn [snd] in Hq.
      destruct lv as [| |[|]| |]; try (apply sat_OkM; exact Hq);
      (bindB by (evB) as [rv s2] Hq2; unfold Qe in Hq2; cbn [snd] in Hq2;
       destruct rv; try leafB; apply sat_OkM; exact Hq2).
  - cbn [wf_expr] in Hw. bindB by (evB) as [v s1] Hq. unfold Qe in Hq; cbn [snd] in Hq.
    destruct op, v; try leafB; apply sat_OkM; exact Hq.
  - cbn [wf_expr] in Hw. bindB by (apply evals_with_B; assumption) as [vs s1] [Hq _].
    apply sat_OkM. exact Hq.
  - cbn [wf_expr] in Hw. andb_split.
    bindB by (evB) as [av s1] Hq. unfold Qe in Hq; cbn [snd] in Hq.
    bindB by (evB) as [iv s2] Hq2. unfold Qe in Hq2; cbn [snd] in Hq2.
    destruct av; try leafB. destruct iv; try leafB.
    destruct (negb (is_finite x) || negb (is_int x)); [leafB|]. lazy zeta.
    destruct ((to_isize x <? 0) || (len_z vs <=? to_isize x)); [leafB|].
    destruct (nth_value vs (Z.to_nat (to_isize x))); [apply sat_OkM; exact Hq2|leafB].
  - destruct e; try leafB.
    + cbn [wf_expr] in Hw. andb_split. destruct (global_builtin n) eqn:Eg.
      * apply builtin_call_B; try assumption. apply Nat.eqb_eq. assumption.
      * destruct target as [i|]; [|discriminate].
        apply user_call_B; try assumption. apply opt_nat_eqb_true. assumption.
    + cbn [wf_expr] in Hw. andb_split. apply member_call_B; assumption.
Qed.

Lemma QxN il s : inv s -> Qx il (FNormal, s).
Proof. intros H. split; [exact H|]. intros _. split; discriminate. Qed.

Lemma exec_body_B t s il : wf_stmt tbl il t = true -> inv s -> sat DeadB (Qx il) (exec_body ev el eb t s).
Proof.
  intros Hw Hi. destruct t; cbn [exec_body]; cbn [wf_stmt] in Hw.
  - apply sat_OkM. apply QxN. exact Hi.
  - bindB by (evB) as [v s1] Hq. apply sat_OkM. apply QxN. exact Hq.
  - bindB by (evB) as [v s1] Hq. unfold Qe in Hq; cbn [snd] in Hq.
    destruct (assign_env l n v (env s1)); [apply sat_OkM; apply QxN; exact Hq|leafB].
  - andb_split. bindB by (evB) as [v s1] Hq. unfold Qe in Hq; cbn [snd] in Hq.
    destruct (flatten_target target []) as [[[vn vl] idx]|] eqn:Ef; [|leafB].
    assert (Hidx : forallb (wf_expr tbl) idx = true)
      by (apply (flatten_wf target [] vn vl idx); [assumption|reflexivity|exact Ef]).
    bindB by (apply indices_with_B; assumption) as [path s2] [Hq2 Hlen].
    cbn [fst snd] in *. destruct (lookup_env vl vn (env s2)) as [root|]; [|leafB].
    assert (Hne : path <> []).
    { destruct target; try discriminate.
      cbn [flatten_target] in Ef. apply flatten_len in Ef. cbn [length] in Ef.
      destruct path; [cbn in Hlen; lia|discriminate]. }
    bindB by (apply sat_lift, assign_path_rsat; right; exact Hne) as root' _.
    destruct (assign_env vl vn root' (env s2)); [apply sat_OkM; apply QxN; exact Hq2|leafB].
  - andb_split. bindB by (evB) as [cv s1] Hq. unfold Qe in Hq; cbn [snd] in Hq.
    bindB by (apply sat_lift, nopanic_rsat, truthy_nopanic) as b _.
    destruct b; [apply Heb; assumption|].
    destruct f; [apply Heb; assumption|apply sat_OkM; apply QxN; exact Hq].
  - andb_split. eapply sat_weaken; [apply Qx_weaken|]. apply Hel; assumption.
  - apply Heb; assumption.
  - destruct e.
    + bindB by (evB) as [v s1] Hq. apply sat_OkM. split; [exact Hq|]. intros _; split; discriminate.
    + apply sat_OkM. split; [exact Hi|]. intros _; split; discriminate.
  - apply sat_OkM. split; [exact Hi|]. intros E. congruence.
  - apply sat_OkM. split; [exact Hi|]. intros E. congruence.
  - bindB by (evB) as [v s1] Hq. apply sat_OkM. apply QxN. exact Hq.
Qed.

Lemma loop_body_B c body s :
  wf_expr tbl c = true -> wf_block tbl true body = true -> inv s ->
  sat DeadB (Qx false) (loop_body ev el eb c body s).
Proof.
  intros Hc Hb Hi. unfold loop_body.
  bindB by (evB) as [cv s1] Hq. unfold Qe in Hq; cbn [snd] in Hq.
  bindB by (apply sat_lift, nopanic_rsat, truthy_nopanic) as b _.
  destruct (negb b); [apply sat_OkM; apply QxN; exact Hq|].
  bindB by (apply (Heb body s1 true); assumption) as [fl s2] [Hq2 _]. cbn [snd] in Hq2.
  destruct fl.
  - apply Hel; assumption.
  - apply sat_OkM. split; [exact Hq2|]. intros _; split; discriminate.
  - apply sat_OkM. apply QxN. exact Hq2.
  - apply Hel; assumption.
Qed.

Lemma stmts_with_B il : forall ts s, wf_block tbl il ts = true -> inv s ->
  sat DeadB (Qx il) (stmts_with P ex ts s).
Proof.
  induction ts as [|t r IH]; intros s Hw Hi; cbn [stmts_with].
  - apply sat_OkM. apply QxN. apply inv_pop. exact Hi.
  - unfold wf_block in Hw. cbn [forallb] in Hw. andb_split.
    destruct (in_plan_stmt P (stmt_sid t)); [apply IH; assumption|].
    bindB by (apply (Hex t s il); assumption) as [fl s'] [Hq Hfl]. cbn [fst snd] in *.
    destruct fl; try (apply IH; assumption);
      (apply sat_OkM; split; [apply inv_pop; exact Hq|exact Hfl]).
Qed.

Lemma block_body_B b s il : wf_block tbl il b = true -> inv s -> sat DeadB (Qx il) (block_body P ex b s).
Proof.
  intros Hw Hi. unfold block_body.
  bindB by (apply sat_lift; eapply hoist_inv; [exact Hw|apply inv_push; exact Hi]) as s1 Hq.
  apply stmts_with_B; assumption.
Qed.

End PartB.

Lemma deadB_all tbl P eps : forall n,
  (forall e s, wf_expr tbl e = true -> inv tbl s -> sat DeadB (Qe tbl) (eval P eps n e s)) /\
  (forall t s il, wf_stmt tbl il t = true -> inv tbl s -> sat DeadB (Qx tbl il) (exec P eps n t s)) /\
  (forall c b s, wf_expr tbl c = true -> wf_block tbl true b = true -> inv tbl s ->
                 sat DeadB (Qx tbl false) (exec_loop P eps n c b s)) /\
  (forall b s il, wf_block tbl il b = true -> inv tbl s -> sat DeadB (Qx tbl il) (exec_block P eps n b s)).
Proof.
  induction n as [|n (IHe & IHx & IHl & IHb)].
  - refine (conj _ (conj _ (conj _ _))); intros; exact I.
  - refine (conj _ (conj _ (conj _ _))); intros.
    + rewrite eval_S. apply eval_body_B; assumption.
    + rewrite exec_S. apply exec_body_B; assumption.
    + rewrite exec_loop_S. apply loop_body_B; assumption.
    + rewrite exec_block_S. apply block_body_B; assumption.
Qed.

Lemma inv_init tbl : inv tbl init_st.
Proof. unfold inv. cbn. repeat constructor. Qed.

Theorem run_impl_deadB prog : wf_static prog = true ->
  forall plan eps fuel s, ending_of (run_impl plan eps fuel prog) = Panicked s -> ~ DeadB s.
Proof.
  intros Hw plan eps fuel s. unfold run_impl, ending_of.
  pose proof (proj2 (proj2 (proj2 (deadB_all (ftable prog) plan eps fuel))) prog init_st false Hw
                (inv_init _)) as H.
  unfold sat in H. destruct (exec_block plan eps fuel prog init_st) as [o r].
  cbn [snd] in *. destruct r; try discriminate. intros E; injection E as <-. exact H.
Qed.

(* ---------- the two results in the form stated by Properties/C06.v ---------- *)
Lemma dead_by_construction :
  forall plan eps fuel prog s,
  ending_of (run_impl plan eps fuel prog) = Panicked s ->
  s <> PNumOp /\ s <> PMutBuiltin /\ s <> PNoFnScope /\ s <> PFind.
Proof.
  intros plan eps fuel prog s H. apply run_impl_deadA in H. unfold DeadA in H.
  repeat split; intros E; apply H; auto.
Qed.

Lemma wf_static_never_panics_structural :
  forall prog, wf_static prog = true ->
  forall plan eps fuel s,
  ending_of (run_impl plan eps fuel prog) = Panicked s ->
  s <> PArgCount /\ s <> PBuiltinArity /\ s <> PArgIndex /\ s <> PBreakEscapes /\
  s <> PIdxAssignEnd /\ s <> PParamRange.
Proof.
  intros prog Hw plan eps fuel s H. apply (run_impl_deadB prog Hw) in H. unfold DeadB in H.
  repeat split; intros E; apply H; auto 7.
Qed.
