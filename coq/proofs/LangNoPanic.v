(* LangNoPanic — which `Panic site` endings of Lang.run_impl are impossible.

   Part A (no hypothesis on the program, the plan, eps or the fuel): the sites PNumOp,
   PMutBuiltin, PNoFnScope and PFind are dead by construction.
   Part B (hypothesis: WfStatic.wf_static p = true): the structural sites PArgCount,
   PBuiltinArity, PArgIndex, PBreakEscapes, PIdxAssignEnd and PParamRange are dead.
   Both are proved for ALL plans (also plans the analysis would never produce), all eps and
   all fuel; a run that exhausts the fuel ends in EFuel, a run that reaches an unmodelled
   built-in ends in Unsupported — neither is a Panicked ending, and neither is claimed to
   say anything about what the implementation would have done afterwards. *)
From Coq Require Import ZArith List Bool Lia.
Require Import NS.theories.F64 NS.theories.StrLib NS.theories.Lang NS.theories.WfStatic.
Require Import NS.proofs.StrLibProofs NS.proofs.LangUnfold.
Import ListNotations.
Open Scope Z_scope.

(* ---------- a Hoare-style predicate on the writer/result monad ---------- *)
(* [sat D Q m]: if m ends Ok a then Q a; if it ends in Panic p then p is not one of the
   sites D; Err / Fuel / Unsupp endings are unconstrained. *)
Definition rsat {A} (D : psite -> Prop) (Q : A -> Prop) (r : res A) : Prop :=
  match r with Ok a => Q a | Panic p => ~ D p | _ => True end.
Definition sat {A} (D : psite -> Prop) (Q : A -> Prop) (m : M A) : Prop := rsat D Q (snd m).

Lemma sat_bind {A B} D (Q : A -> Prop) (R : B -> Prop) (m : M A) (f : A -> M B) :
  sat D Q m -> (forall a, Q a -> sat D R (f a)) -> sat D R (bindM m f).
Proof.
  destruct m as [o [a|e|p| |]]; unfold sat, rsat; cbn; intros H K; auto.
  specialize (K a H). destruct (f a) as [o2 r]. exact K.
Qed.

Lemma sat_weaken {A} D (Q Q' : A -> Prop) (m : M A) :
  (forall a, Q a -> Q' a) -> sat D Q m -> sat D Q' m.
Proof. destruct m as [o [a|e|p| |]]; unfold sat, rsat; cbn; auto. Qed.

Lemma sat_lift {A} D (Q : A -> Prop) (r : res A) : rsat D Q r -> sat D Q (lift r).
Proof. exact (fun H => H). Qed.

Lemma sat_OkM {A} D (Q : A -> Prop) a : Q a -> sat D Q (OkM a).
Proof. exact (fun H => H). Qed.
Lemma sat_ErrM {A} D (Q : A -> Prop) e : sat D Q (@ErrM A e).
Proof. exact I. Qed.
Lemma sat_UnsuppM {A} D (Q : A -> Prop) : sat D Q (@UnsuppM A).
Proof. exact I. Qed.
Lemma sat_FuelM {A} D (Q : A -> Prop) : sat D Q (@FuelM A).
Proof. exact I. Qed.
Lemma sat_PanicM {A} (D : psite -> Prop) (Q : A -> Prop) p : ~ D p -> sat D Q (@PanicM A p).
Proof. exact (fun H => H). Qed.

(* results that never panic at all *)
Definition nopanic {A} (r : res A) : Prop := match r with Panic _ => False | _ => True end.
Lemma nopanic_rsat {A} D (r : res A) : nopanic r -> rsat D (fun _ => True) r.
Proof. destruct r; cbn; auto. Qed.

Lemma index_value_nopanic v : nopanic (index_value v).
Proof.
  destruct v; cbn; auto.
  destruct (negb (is_finite x) || negb (is_int x)); cbn; auto.
  destruct (flt x (fzero false)); cbn; auto.
Qed.

Lemma truthy_nopanic v : nopanic (truthy_cond v).
Proof. destruct v; cbn; auto. Qed.

Lemma mutate_path_nopanic op : forall path v, nopanic (mutate_path v path op).
Proof.
  induction path as [|i rest IH]; intros v; destruct v; cbn; auto.
  - destruct (apply_mutop op vs). exact I.
  - destruct (len_z vs <=? i); cbn; auto.
    destruct (nth_value vs (Z.to_nat i)) as [sub|]; cbn; auto.
    specialize (IH sub). destruct (mutate_path sub rest op) as [[sub' r]| | | |]; cbn in *; auto.
Qed.

Lemma num_binop_nopanic eps op a b : op <> And -> op <> Or -> nopanic (num_binop eps op a b).
Proof.
  intros H1 H2. destruct op; cbn; auto; try congruence;
  destruct (feqb b (fzero false)); cbn; auto.
Qed.

Lemma binop_values_nopanic eps op l r : op <> And -> op <> Or -> nopanic (binop_values eps op l r).
Proof.
  intros H1 H2. destruct l, r; cbn; try (destruct op; cbn; auto; fail).
  apply num_binop_nopanic; assumption.
Qed.

Lemma find_total h n : match find h n with Found _ | NotFound => True | _ => False end.
Proof. rewrite find_correct. destruct (first_occ h n); exact I. Qed.

(* ---------- method-name facts ---------- *)
Lemma mut_builtin_dead f :
  mem_name f array_mut_methods = false -> mem_name f array_methods = true ->
  bytes_eqb f n_len = false -> bytes_eqb f n_join = false -> False.
Proof.
  unfold mem_name, array_mut_methods, array_methods. cbn [existsb].
  intros H1 H2 H3 H4. rewrite H3, H4 in H2.
  destruct (bytes_eqb f n_push), (bytes_eqb f n_pop), (bytes_eqb f n_reverse); cbn in *; discriminate.
Qed.

Lemma string_last_is_split f :
  mem_name f string_methods = true ->
  bytes_eqb f n_len = false -> bytes_eqb f n_slice = false -> bytes_eqb f n_to_uppercase = false ->
  bytes_eqb f n_to_lowercase = false -> bytes_eqb f n_trim = false -> bytes_eqb f n_to_number = false ->
  bytes_eqb f n_find = false -> bytes_eqb f n_replace = false -> bytes_eqb f n_split = true.
Proof.
  unfold mem_name, string_methods. cbn [existsb].
  intros H H1 H2 H3 H4 H5 H6 H7 H8. rewrite H1, H2, H3, H4, H5, H6, H7, H8 in H.
  cbn in H. rewrite orb_false_r in H. exact H.
Qed.

(* ====================================================================================== *)
(* Part A: sites dead by construction                                                     *)
(* ====================================================================================== *)
Definition DeadA (p : psite) : Prop := p = PNumOp \/ p = PMutBuiltin \/ p = PNoFnScope \/ p = PFind.

Ltac notA := let H := fresh in intros H; unfold DeadA in H; intuition discriminate.

Definition T {A} : A -> Prop := fun _ => True.
Notation npA m := (sat DeadA T m).

Lemma hoist_nopanic P : forall b s, fns s <> [] -> nopanic (hoist P b s).
Proof.
  induction b as [|t r IH]; intros s Hs; cbn; auto.
  destruct t; try (apply IH; assumption).
  destruct (in_plan_fn P fid); [apply IH; assumption|].
  destruct (fns s) as [|sc rest] eqn:E; [congruence|].
  apply IH. cbn. discriminate.
Qed.

Section PartA.
Variable P : plan.
Variable eps : f64.
Variable ev : expr -> st -> M (value * st).
Variable ex : stmt -> st -> M (flow * st).
Variable el : expr -> list stmt -> st -> M (flow * st).
Variable eb : list stmt -> st -> M (flow * st).
Hypothesis Hev : forall e s, npA (ev e s).
Hypothesis Hex : forall t s, npA (ex t s).
Hypothesis Hel : forall c b s, npA (el c b s).
Hypothesis Heb : forall b s, npA (eb b s).

Tactic Notation "bindA" "as" simple_intropattern(pat) := eapply sat_bind; [ | intros pat _ ].
Ltac bindA := eapply sat_bind; [ | intros ? _ ].
Ltac leafA :=
  first [ exact I | apply sat_ErrM | apply sat_UnsuppM | apply sat_OkM; exact I
        | apply sat_PanicM; notA | apply Hev | apply Heb | apply Hel | apply Hex ].

Lemma evals_f_A : forall es s, npA (evals_f ev es s).
Proof.
  induction es as [|e r IH]; intros s; cbn [evals_f]; [leafA|].
  bindA as [v s1]; [apply Hev|]. bindA as [vs s2]; [apply IH|]. leafA.
Qed.

Lemma eval_indices_f_A : forall es s, npA (eval_indices_f ev es s).
Proof.
  induction es as [|e r IH]; intros s; cbn [eval_indices_f]; [leafA|].
  bindA as [v s1]; [apply Hev|].
  bindA; [apply sat_lift, nopanic_rsat, index_value_nopanic|].
  bindA as [is s2]; [apply IH|]. leafA.
Qed.

Lemma tail_mutate_A vl vn s root path op :
  npA (bindM (lift (mutate_path root path op))
        (fun '(root', r) => match assign_env vl vn root' (env s) with
                            | Some e' => OkM (r, with_env e' s)
                            | None => PanicM PMutVarMissing end)).
Proof.
  bindA as [root' r]; [apply sat_lift, nopanic_rsat, mutate_path_nopanic|]. destruct (assign_env vl vn root' (env s)); leafA.
Qed.

Lemma mutate_f_A o op s : npA (mutate_f ev o op s).
Proof.
  destruct o; cbn [mutate_f]; try leafA.
  - destruct (lookup_env l n (env s)); [apply tail_mutate_A|leafA].
  - destruct (flatten_target (EIdx o1 o2) []) as [[[vn vl] idx]|]; [|leafA].
    bindA as [path s1]; [apply eval_indices_f_A|].
    destruct (lookup_env vl vn (env s1)); [apply tail_mutate_A|leafA].
Qed.

Lemma interp_go_A s : forall segs, npA (interp_go s segs).
Proof.
  induction segs as [|g r IH]; cbn [interp_go]; [leafA|].
  destruct g as [b|vn vl].
  - bindA; [apply IH|]. leafA.
  - destruct (lookup_env vl vn (env s)); [|leafA]. bindA; [apply IH|]. leafA.
Qed.

Lemma string_call_A str f args s1 : npA (string_call ev str f args s1).
Proof.
  unfold string_call.
  repeat match goal with
  | |- sat _ _ (if ?c then _ else _) => destruct c
  | |- sat _ _ (match ?a with [] => _ | _ :: _ => _ end) => destruct a
  | |- sat _ _ (bindM (ev _ _) _) => bindA; [apply Hev|]
  | |- sat _ _ (let '(_, _) := ?a in _) => destruct a
  | |- sat _ _ (match ?a with (_, _) => _ end) => destruct a
  | |- sat _ _ (match ?v with VNum _ => _ | _ => _ end) => destruct v
  | |- sat _ _ (match find ?h ?n with Found _ => _ | _ => _ end) =>
      let Hf := fresh "Hf" in pose proof (find_total h n) as Hf; destruct (find h n); try leafA; destruct Hf
  | |- sat _ _ (match replace ?h ?a ?b with SOk _ => _ | _ => _ end) => rewrite replace_correct
  | |- _ => leafA
  end.
Qed.

Lemma array_call_A items f args s1 :
  mem_name f array_mut_methods = false -> npA (array_call ev items f args s1).
Proof.
  intros Hm. unfold array_call.
  destruct (mem_name f array_methods) eqn:E1; cbn [negb]; [|leafA].
  destruct (bytes_eqb f n_len) eqn:E2; [leafA|].
  destruct (bytes_eqb f n_join) eqn:E3.
  - destruct args as [|a0 ?]; [leafA|]. bindA as [v0 s2]; [apply Hev|]. destruct v0; leafA.
  - exfalso. eapply mut_builtin_dead; eassumption.
Qed.

Lemma member_call_A o f args s : npA (member_call ev o f args s).
Proof.
  unfold member_call.
  destruct (mem_name f array_mut_methods) eqn:Em.
  - destruct (bytes_eqb f n_push).
    + destruct args as [|a0 ?]; [leafA|]. bindA as [v s1]; [apply Hev|]. apply mutate_f_A.
    + destruct (bytes_eqb f n_pop); apply mutate_f_A.
  - destruct (mem_name f proc_mut_names); [leafA|].
    bindA as [recv s1]; [apply Hev|]. destruct recv; try leafA.
    + destruct (mem_name f number_methods); leafA.
    + apply string_call_A.
    + apply array_call_A. exact Em.
Qed.

Lemma user_call_A fname args target s : npA (user_call ev eb fname args target s).
Proof.
  unfold user_call. destruct (lookup_fn target fname (fns s)) as [fd|]; [|leafA].
  bindA as [vs s1]; [apply evals_f_A|].
  destruct (negb (Nat.eqb (length vs) (length (f_params fd)))); [leafA|].
  match goal with |- sat _ _ (if ?c then _ else _) => destruct c end; [leafA|].
  lazy zeta. bindA as [fl s3]; [apply Heb|]. destruct fl; leafA.
Qed.

Lemma builtin_call_A g args s : npA (builtin_call ev g args s).
Proof.
  unfold builtin_call. bindA as [vs s1]; [apply evals_f_A|].
  destruct vs as [|v [|? ?]]; try leafA. destruct g; leafA.
Qed.

Lemma eval_body_A e s : npA (eval_body eps ev eb e s).
Proof.
  destruct e; cbn [eval_body]; try leafA.
  - bindA; [apply interp_go_A|]. leafA.
  - destruct (lookup_env l n (env s)); leafA.
  - destruct op.
    all: try (bindA as [lv s1]; [apply Hev|]; bindA as [rv s2]; [apply Hev|];
              bindA; [apply sat_lift, nopanic_rsat, binop_values_nopanic; discriminate|]; leafA).
    + bindA as [lv s1]; [apply Hev|].
      destruct lv as [| |[|]| |]; try leafA;
      (bindA as [rv s2]; [apply Hev|]; destruct rv; leafA).
    + bindA as [lv s1]; [apply Hev|].
      destruct lv as [| |[|]| |]; try leafA;
      (bindA as [rv s2]; [apply Hev|]; destruct rv; leafA).
  - bindA as [v s1]; [apply Hev|]. destruct op, v; leafA.
  - bindA as [vs s1]; [apply evals_f_A|]. leafA.
  - bindA as [av s1]; [apply Hev|]. bindA as [iv s2]; [apply Hev|].
    destruct av; try leafA. destruct iv; try leafA.
    destruct (negb (is_finite x) || negb (is_int x)); [leafA|]. lazy zeta.
    destruct ((to_isize x <? 0) || (len_z vs <=? to_isize x)); [leafA|].
    destruct (nth_value vs (Z.to_nat (to_isize x))); leafA.
  - destruct e; try leafA.
    + destruct (global_builtin n); [apply builtin_call_A|apply user_call_A].
    + apply member_call_A.
Qed.

Lemma exec_body_A t s : npA (exec_body ev el eb t s).
Proof.
  destruct t; cbn [exec_body]; try leafA.
  - bindA as [v s1]; [apply Hev|]. leafA.
  - bindA as [v s1]; [apply Hev|]. destruct (assign_env l n v (env s1)); leafA.
  - bindA as [v s1]; [apply Hev|].
    destruct (flatten_target target []) as [[[vn vl] idx]|]; [|leafA].
    bindA as [path s2]; [apply eval_indices_f_A|].
    destruct (lookup_env vl vn (env s2)) as [root|]; [|leafA].
    destruct (assign_path root path v) as [root'| | | |] eqn:Ea; unfold lift; cbn [bindM]; try exact I.
    + destruct (assign_env vl vn root' (env s2)); cbn; leafA.
    + cbn. unfold sat, rsat. cbn. notA_site.
  - bindA as [cv s1]; [apply Hev|].
    bindA; [apply sat_lift, nopanic_rsat, truthy_nopanic|].
    destruct a; [apply Heb|]. destruct f; leafA.
  - destruct e; [|leafA]. bindA as [v s1]; [apply Hev|]. leafA.
  - bindA as [v s1]; [apply Hev|]. leafA.
Qed.

End PartA.
