(* LangScoped — Part C of C06: the scoping sites PVarMissing, PSegVar, PAssignMissing,
   PMutVarMissing, PFuncMissing are dead for programs that pass WfScoped.sc_block for the plan
   that is run (any table T; WfScoped.wf_scoped instantiates T with `collect`).

   Invariant carried along the evaluation of code checked under (G, F):
     Cov G F s : env s is non-empty, every id of G has a slot somewhere on the scope stack,
                 every id of F is registered somewhere on the function-scope stack;
     J s       : every registered function has a resolved id whose table entry (Gd, Fd) makes
                 its body pass sc_block under its parameters ++ Gd and Fd.
   Frame property proved simultaneously for every Ok result: the scope stack keeps its
   shape and only grows slot-wise (ext), the function-scope stack is restored exactly. *)
From Coq Require Import ZArith List Bool Lia.
Require Import NS.theories.F64 NS.theories.StrLib NS.theories.Lang NS.theories.WfScoped.
Require Import NS.proofs.LangUnfold NS.proofs.LangNoPanic.
Import ListNotations.
Open Scope Z_scope.

(* ---------- boolean helpers ---------- *)
Lemma zmem_In i l : zmem i l = true <-> In i l.
Proof.
  unfold zmem. rewrite existsb_exists. split.
  - intros [x [Hx He]]. apply Z.eqb_eq in He. subst. exact Hx.
  - intros H. exists i. split; [exact H|apply Z.eqb_refl].
Qed.

Lemma zincl_In a b : zincl a b = true -> forall i, In i a -> In i b.
Proof.
  unfold zincl. rewrite forallb_forall. intros H i Hi. apply zmem_In. apply H. exact Hi.
Qed.

Lemma zlist_eqb_eq : forall a b, zlist_eqb a b = true -> a = b.
Proof.
  induction a as [|x a IH]; destruct b as [|y b]; cbn; try discriminate; auto.
  intros H. apply andb_prop in H. destruct H as [H1 H2]. apply Z.eqb_eq in H1. f_equal; auto.
Qed.

(* ---------- slots by id ---------- *)
Definition ids (sc : list slot) : list (option Z) := map s_id sc.
Definition has (i : Z) (e : list (list slot)) : Prop := exists sc, In sc e /\ In (Some i) (ids sc).
Definition sub (sc sc' : list slot) : Prop := forall i, In (Some i) (ids sc) -> In (Some i) (ids sc').
Definition ext (e e' : list (list slot)) : Prop := Forall2 sub e e'.

Lemma sub_refl sc : sub sc sc.
Proof. intros i H; exact H. Qed.
Lemma ext_refl e : ext e e.
Proof. induction e; constructor; [apply sub_refl|assumption]. Qed.
Lemma ext_trans e1 : forall e2 e3, ext e1 e2 -> ext e2 e3 -> ext e1 e3.
Proof.
  induction e1 as [|a e1 IH]; intros e2 e3 H12 H23; inversion H12; subst; inversion H23; subst; constructor.
  - intros i Hi. auto.
  - eapply IH; eassumption.
Qed.
Lemma ext_has e e' i : ext e e' -> has i e -> has i e'.
Proof.
  induction 1 as [|sc sc' e e' Hs He IH]; intros [x [Hin Hi]]; [destruct Hin|].
  destruct Hin as [<-|Hin].
  - exists sc'. split; [left; reflexivity|apply Hs; exact Hi].
  - destruct IH as [y [Hy Hiy]]; [exists x; auto|]. exists y. split; [right; exact Hy|exact Hiy].
Qed.
Lemma ext_tl e e' : ext e e' -> ext (tl e) (tl e').
Proof. destruct 1; cbn; [constructor|assumption]. Qed.
Lemma ext_nonempty e e' : ext e e' -> e <> [] -> e' <> [].
Proof. destruct 1; intros Hne; [congruence|discriminate]. Qed.
Lemma ext_cons sc e e' : ext e e' -> ext (sc :: e) (sc :: e').
Proof. intros H. constructor; [apply sub_refl|exact H]. Qed.
Lemma has_cons sc e i : has i e -> has i (sc :: e).
Proof. intros [x [Hx Hi]]. exists x. split; [right; exact Hx|exact Hi]. Qed.
Lemma has_head sc e i : In (Some i) (ids sc) -> has i (sc :: e).
Proof. intros H. exists sc. split; [left; reflexivity|exact H]. Qed.

Lemma slot_matches_some i n s : slot_matches (Some i) n s = true <-> s_id s = Some i.
Proof.
  unfold slot_matches, opt_eqb. destruct (s_id s) as [j|]; split; try discriminate.
  - intros H. apply Z.eqb_eq in H. congruence.
  - intros H. injection H as ->. apply Z.eqb_refl.
Qed.

Lemma find_slot_has i n : forall sc, In (Some i) (ids sc) -> exists v, find_slot (Some i) n sc = Some v.
Proof.
  induction sc as [|s r IH]; cbn [ids map In find_slot]; [intros []|].
  intros [H|H].
  - assert (E : slot_matches (Some i) n s = true) by (apply slot_matches_some; exact H).
    rewrite E. eauto.
  - destruct (slot_matches (Some i) n s); [eauto|apply IH; exact H].
Qed.

Lemma lookup_has i n : forall e, has i e -> exists v, lookup_env (Some i) n e = Some v.
Proof.
  induction e as [|sc r IH]; intros [x [Hx Hi]]; [destruct Hx|]. cbn [lookup_env].
  destruct (find_slot (Some i) n sc) as [v|] eqn:E; [eauto|].
  destruct Hx as [<-|Hx].
  - destruct (find_slot_has i n sc Hi) as [v Hv]. congruence.
  - apply IH. exists x. auto.
Qed.

Lemma set_slot_ids l n v : forall sc sc', set_slot l n v sc = Some sc' -> ids sc' = ids sc.
Proof.
  induction sc as [|s r IH]; intros sc'; cbn [set_slot]; [discriminate|].
  destruct (slot_matches l n s).
  - intros H; injection H as <-. reflexivity.
  - destruct (set_slot l n v r) as [r'|] eqn:E; [|discriminate].
    intros H; injection H as <-. cbn [ids map]. f_equal. apply IH. reflexivity.
Qed.

Lemma set_slot_find l n v : forall sc, find_slot l n sc <> None -> set_slot l n v sc <> None.
Proof.
  induction sc as [|s r IH]; cbn [find_slot set_slot]; [congruence|].
  destruct (slot_matches l n s); [discriminate|].
  intros H. specialize (IH H). destruct (set_slot l n v r); [discriminate|congruence].
Qed.

Lemma assign_env_ext l n v : forall e e', assign_env l n v e = Some e' -> ext e e'.
Proof.
  induction e as [|sc r IH]; intros e'; cbn [assign_env]; [discriminate|].
  destruct (set_slot l n v sc) as [sc'|] eqn:E.
  - intros H; injection H as <-. constructor; [|apply ext_refl].
    intros i Hi. rewrite (set_slot_ids _ _ _ _ _ E). exact Hi.
  - destruct (assign_env l n v r) as [r'|] eqn:E2; [|discriminate].
    intros H; injection H as <-. constructor; [apply sub_refl|apply IH; reflexivity].
Qed.

Lemma assign_env_lookup l n v : forall e, lookup_env l n e <> None -> assign_env l n v e <> None.
Proof.
  induction e as [|sc r IH]; cbn [lookup_env assign_env]; [congruence|].
  destruct (find_slot l n sc) as [x|] eqn:E.
  - intros _. assert (H : set_slot l n v sc <> None) by (apply set_slot_find; congruence).
    destruct (set_slot l n v sc); [discriminate|congruence].
  - intros H. specialize (IH H). destruct (set_slot l n v sc); [discriminate|].
    destruct (assign_env l n v r); [discriminate|congruence].
Qed.

Lemma set_slot_has i n v : forall sc sc', set_slot (Some i) n v sc = Some sc' -> In (Some i) (ids sc').
Proof.
  induction sc as [|s r IH]; intros sc'; cbn [set_slot]; [discriminate|].
  destruct (slot_matches (Some i) n s) eqn:E.
  - intros H; injection H as <-. cbn. left. apply slot_matches_some in E. exact E.
  - destruct (set_slot (Some i) n v r) as [r'|] eqn:E2; [|discriminate].
    intros H; injection H as <-. cbn. right. apply IH. reflexivity.
Qed.

Lemma define_env_ext l n v e : ext e (define_env l n v e).
Proof.
  destruct e as [|sc r]; cbn [define_env]; [constructor|].
  destruct (set_slot l n v sc) as [sc'|] eqn:E; constructor; try apply ext_refl.
  - intros i Hi. rewrite (set_slot_ids _ _ _ _ _ E). exact Hi.
  - intros i Hi. cbn. right. exact Hi.
Qed.

Lemma define_env_has i n v e : e <> [] -> has i (define_env (Some i) n v e).
Proof.
  destruct e as [|sc r]; [congruence|]. intros _. cbn [define_env].
  destruct (set_slot (Some i) n v sc) as [sc'|] eqn:E; apply has_head.
  - eapply set_slot_has. exact E.
  - cbn. left. reflexivity.
Qed.

(* ---------- registered functions by id ---------- *)
Definition fhas (j : Z) (fs : list (list fdef)) : Prop :=
  exists sc, In sc fs /\ exists fd, In fd sc /\ f_id fd = Some j.

Lemma fdef_matches_some j n f : fdef_matches (Some j) n f = true <-> f_id f = Some j.
Proof.
  unfold fdef_matches, opt_eqb. destruct (f_id f) as [k|]; split; try discriminate.
  - intros H. apply Z.eqb_eq in H. congruence.
  - intros H. injection H as ->. apply Z.eqb_refl.
Qed.

Lemma find_fn_scope_fhas j n : forall sc, (exists fd, In fd sc /\ f_id fd = Some j) ->
  exists fd, find_fn_scope (Some j) n sc = Some fd.
Proof.
  induction sc as [|f r IH]; intros [fd [Hin Hid]]; [destruct Hin|]. cbn [find_fn_scope].
  destruct (fdef_matches (Some j) n f) eqn:E; [eauto|].
  destruct Hin as [<-|Hin].
  - apply (proj2 (fdef_matches_some j n f)) in Hid. congruence.
  - apply IH. eauto.
Qed.

Lemma lookup_fn_fhas j n : forall fs, fhas j fs -> exists fd, lookup_fn (Some j) n fs = Some fd.
Proof.
  induction fs as [|sc r IH]; intros [x [Hx Hfd]]; [destruct Hx|]. cbn [lookup_fn].
  destruct (find_fn_scope (Some j) n sc) as [fd|] eqn:E; [eauto|].
  destruct Hx as [<-|Hx].
  - destruct (find_fn_scope_fhas j n sc Hfd) as [fd Hf]. congruence.
  - apply IH. exists x. auto.
Qed.

Lemma fhas_cons sc fs j : fhas j fs -> fhas j (sc :: fs).
Proof. intros [x [Hx H]]. exists x. split; [right; exact Hx|exact H]. Qed.

(* ---------- bind_params ---------- *)
Lemma bind_params_ids i ls : forall ps vs k acc,
  length ps = length vs ->
  forall j, (In (Some j) (ids acc) \/ In j (map (fun d => ls + k + Z.of_nat d) (seq 0 (length ps)))) ->
  In (Some j) (ids (bind_params (Some i) ls ps vs k acc)).
Proof.
  induction ps as [|p ps IH]; intros vs k acc Hl j Hj; destruct vs as [|v vs]; try discriminate; cbn [bind_params].
  - destruct Hj as [Hj|Hj]; [exact Hj|destruct Hj].
  - injection Hl as Hl. apply IH; [exact Hl|].
    cbn [length seq map] in Hj. destruct Hj as [Hj|[Hj|Hj]].
    + left. cbn. right. exact Hj.
    + left. cbn. left. f_equal. lia.
    + right. rewrite <- seq_shift in Hj. rewrite map_map in Hj.
      apply in_map_iff in Hj. destruct Hj as [d [Hd Hin]]. apply in_map_iff. exists d. split; [lia|exact Hin].
Qed.

Lemma bind_params_param_ids i ls ps vs :
  length ps = length vs ->
  forall j, In j (param_ids ls (length ps)) -> In (Some j) (ids (bind_params (Some i) ls ps vs 0 [])).
Proof.
  intros Hl j Hj. apply bind_params_ids; [exact Hl|]. right.
  unfold param_ids in Hj. apply in_map_iff in Hj. destruct Hj as [d [Hd Hin]].
  apply in_map_iff. exists d. split; [lia|exact Hin].
Qed.

(* ====================================================================================== *)
Definition DeadC (p : psite) : Prop :=
  p = PVarMissing \/ p = PSegVar \/ p = PAssignMissing \/ p = PMutVarMissing \/ p = PFuncMissing.
Ltac notC := let H := fresh in intros H; unfold DeadC in H; intuition discriminate.
Ltac andb_split :=
  repeat match goal with H : _ && _ = true |- _ => apply andb_prop in H; destruct H end.

Section PartC.
Variable P : plan.
Variable T : ftab.

Definition fdok (fd : fdef) : Prop :=
  exists i Gd Fd, f_id fd = Some i /\ tlookup i T = Some (Gd, Fd) /\
    sc_block P T (param_ids (f_lstart fd) (length (f_params fd)) ++ Gd) Fd (f_body fd) = true.
Definition J (s : st) : Prop := Forall (Forall fdok) (fns s).
Definition Cov (G F : list Z) (s : st) : Prop :=
  env s <> [] /\ (forall i, In i G -> has i (env s)) /\ (forall j, In j F -> fhas j (fns s)).
(* frame: the scope stack only grows slot-wise, the function-scope stack is restored *)
Definition Fr (s s' : st) : Prop := ext (env s) (env s') /\ fns s' = fns s.
(* code checked under (G, F) started in s0 and is now in s *)
Definition Pre (G F : list Z) (s0 s : st) : Prop := Cov G F s0 /\ J s0 /\ Fr s0 s.

Lemma Fr_refl s : Fr s s.
Proof. split; [apply ext_refl|reflexivity]. Qed.
Lemma Fr_trans s1 s2 s3 : Fr s1 s2 -> Fr s2 s3 -> Fr s1 s3.
Proof. intros [H1 H2] [H3 H4]. split; [eapply ext_trans; eassumption|congruence]. Qed.
Lemma Cov_Fr G F s s' : Cov G F s -> Fr s s' -> Cov G F s'.
Proof.
  intros (Hn & Hv & Hf) [He Hfn]. refine (conj _ (conj _ _)).
  - eapply ext_nonempty; eassumption.
  - intros i Hi. eapply ext_has; [exact He|auto].
  - intros j Hj. rewrite Hfn. auto.
Qed.
Lemma J_Fr s s' : J s -> Fr s s' -> J s'.
Proof. intros H [_ Hf]. unfold J. rewrite Hf. exact H. Qed.
Lemma Pre_refl G F s : Cov G F s -> J s -> Pre G F s s.
Proof. intros H1 H2. refine (conj H1 (conj H2 (Fr_refl s))). Qed.
Lemma Pre_now G F s0 s : Pre G F s0 s -> Cov G F s /\ J s.
Proof. intros (H1 & H2 & H3). split; [eapply Cov_Fr; eassumption|eapply J_Fr; eassumption]. Qed.
Lemma Pre_step G F s0 s s' : Pre G F s0 s -> Fr s s' -> Pre G F s0 s'.
Proof. intros (H1 & H2 & H3) H. refine (conj H1 (conj H2 _)). eapply Fr_trans; eassumption. Qed.
Lemma Pre_with_env G F s0 s e' : Pre G F s0 s -> ext (env s) e' -> Pre G F s0 (with_env e' s).
Proof. intros H He. eapply Pre_step; [exact H|]. split; [exact He|reflexivity]. Qed.

Lemma var_ok_has G F s l n : Cov G F s -> var_ok G l = true ->
  exists i v, l = Some i /\ lookup_env l n (env s) = Some v.
Proof.
  intros (_ & Hv & _) H. destruct l as [i|]; [|discriminate]. cbn in H. apply zmem_In in H.
  destruct (lookup_has i n (env s) (Hv i H)) as [v Hl]. eauto.
Qed.

Lemma interp_segs_ok G F s : Cov G F s -> forall segs, forallb (seg_ok G) segs = true ->
  nopanic (interp_segs (env s) segs).
Proof.
  intros Hc. induction segs as [|g r IH]; cbn [forallb interp_segs]; [intros _; exact I|].
  intros H. andb_split. specialize (IH H0). destruct g as [b|vn vl].
  - destruct (interp_segs (env s) r); cbn in *; auto.
  - cbn [seg_ok] in H. destruct (var_ok_has G F s vl vn Hc H) as (i & v & _ & Hl). rewrite Hl.
    destruct (interp_segs (env s) r); cbn in *; auto.
Qed.

Lemma flatten_sc G F : forall t acc n l idxs,
  sc_expr T G F t = true -> forallb (sc_expr T G F) acc = true ->
  flatten_target t acc = Some (n, l, idxs) ->
  var_ok G l = true /\ forallb (sc_expr T G F) idxs = true.
Proof.
  induction t; intros acc n0 l0 idxs Hw Ha; cbn [flatten_target]; try discriminate.
  - intros Hf; injection Hf as _ <- <-. cbn [sc_expr] in Hw. auto.
  - cbn [sc_expr] in Hw. andb_split. intros Hf. eapply IHt1; [assumption| |exact Hf].
    cbn [forallb]. rewrite Ha. match goal with H : sc_expr T G F t2 = true |- _ => rewrite H end. reflexivity.
Qed.

(* hoisting registers every non-pruned function of the block, checked *)
Lemma hoist_ok : forall b s G F' sc rest,
  sc_stmts_with P (sc_stmt P T) G F' b = true ->
  fns s = sc :: rest -> Forall fdok sc ->
  exists s1 sc', hoist P b s = Ok s1 /\ env s1 = env s /\ fns s1 = sc' :: rest /\ Forall fdok sc' /\
    (forall fd, In fd sc -> In fd sc') /\
    (forall j, In j (block_fns P b) -> exists fd, In fd sc' /\ f_id fd = Some j).
Proof.
  induction b as [|t r IH]; intros s G F' sc rest Hw Hf Hs.
  - exists s, sc. cbn. repeat split; auto. intros j [].
  - cbn [sc_stmts_with] in Hw. apply andb_prop in Hw. destruct Hw as [Ht Hr].
    destruct t; try (cbn [hoist block_fns flat_map app]; eapply IH; eassumption).
    cbn [is_fun negb] in Ht. rewrite andb_false_r in Ht. cbn [sc_stmt] in Ht.
    destruct fid as [i|]; [|discriminate]. cbn [hoist block_fns flat_map].
    destruct (in_plan_fn P (Some i)) eqn:Ep.
    + cbn [app]. eapply IH; eassumption.
    + destruct (tlookup i T) as [[Gd Fd]|] eqn:Et; [|discriminate].
      apply andb_prop in Ht. destruct Ht as [Ht Hbody].
      apply andb_prop in Ht. destruct Ht as [HGd HFd].
      apply zlist_eqb_eq in HGd. apply zlist_eqb_eq in HFd. subst Gd Fd.
      rewrite Hf.
      match goal with |- context [hoist P r ?s'] =>
        destruct (IH s' (decl_run P (SFun sid n ps body (Some i) lstart llen) ++ G) F'
                    ({| f_id := Some i; f_name := n; f_params := ps; f_body := body;
                        f_lstart := lstart; f_llen := llen |} :: sc) rest Hr eq_refl)
          as (s1 & sc' & Ha1 & Ha2 & Ha3 & Ha4 & Ha5 & Ha6)
      end.
      * constructor; [|exact Hs]. exists i, G, F'. cbn.
        refine (conj eq_refl (conj Et _)). exact Hbody.
      * exists s1, sc'. cbn [env] in Ha2. refine (conj Ha1 (conj Ha2 (conj Ha3 (conj Ha4 (conj _ _))))).
        -- intros fd Hin. apply Ha5. right. exact Hin.
        -- intros j [<-|Hj]; [|apply Ha6; exact Hj].
           eexists. split; [apply Ha5; left; reflexivity|reflexivity].
Qed.

Variable eps : f64.
Variable ev : expr -> st -> M (value * st).
Variable ex : stmt -> st -> M (flow * st).
Variable el : expr -> list stmt -> st -> M (flow * st).
Variable eb : list stmt -> st -> M (flow * st).

Definition Qx (s : st) (t : stmt) (r : flow * st) : Prop :=
  Fr s (snd r) /\ (fst r = FNormal -> forall i, In i (decl_of t) -> has i (env (snd r))).

Hypothesis Hev : forall G F e s, sc_expr T G F e = true -> Cov G F s -> J s ->
  sat DeadC (fun r => Fr s (snd r)) (ev e s).
Hypothesis Hex : forall G F t s, sc_stmt P T G F t = true -> Cov G F s -> J s ->
  sat DeadC (Qx s t) (ex t s).
Hypothesis Hel : forall G F c b s, sc_expr T G F c = true -> sc_block P T G F b = true ->
  Cov G F s -> J s -> sat DeadC (fun r => Fr s (snd r)) (el c b s).
Hypothesis Heb : forall G F b s, sc_block P T G F b = true -> Cov G F s -> J s ->
  sat DeadC (fun r => Fr s (snd r)) (eb b s).

Tactic Notation "bindC" "by" tactic3(t) "as" simple_intropattern(p1) simple_intropattern(p2) :=
  eapply sat_bind; [ t | intros p1 p2 ].
Ltac leafC := first [ exact I | apply sat_ErrM | apply sat_UnsuppM | apply sat_PanicM; notC ].

(* the one-expression hypothesis, threaded: started in s0, now in s *)
Lemma Hev' G F e s0 s : sc_expr T G F e = true -> Pre G F s0 s ->
  sat DeadC (fun r => Pre G F s0 (snd r)) (ev e s).
Proof.
  intros Hw Hp. destruct (Pre_now _ _ _ _ Hp) as [Hc Hj].
  eapply sat_weaken; [|apply (Hev G F e s Hw Hc Hj)].
  intros r Hr. eapply Pre_step; eassumption.
Qed.

Lemma evals_with_C G F s0 : forall es s, forallb (sc_expr T G F) es = true -> Pre G F s0 s ->
  sat DeadC (fun r => Pre G F s0 (snd r)) (evals_with ev es s).
Proof.
  induction es as [|e r IH]; intros s Hw Hp; cbn [evals_with].
  - apply sat_OkM. exact Hp.
  - cbn [forallb] in Hw. andb_split.
    bindC by (apply Hev'; eassumption) as [v s1] Hq. cbn [snd] in Hq.
    bindC by (apply IH; eassumption) as [vs s2] Hq2. cbn [snd] in Hq2.
    apply sat_OkM. exact Hq2.
Qed.

Lemma indices_with_C G F s0 : forall es s, forallb (sc_expr T G F) es = true -> Pre G F s0 s ->
  sat DeadC (fun r => Pre G F s0 (snd r)) (indices_with ev es s).
Proof.
  induction es as [|e r IH]; intros s Hw Hp; cbn [indices_with].
  - apply sat_OkM. exact Hp.
  - cbn [forallb] in Hw. andb_split.
    bindC by (apply Hev'; eassumption) as [v s1] Hq. cbn [snd] in Hq.
    bindC by (apply sat_lift, nopanic_rsat, index_value_nopanic) as i _.
    bindC by (apply IH; eassumption) as [is s2] Hq2. cbn [snd] in Hq2.
    apply sat_OkM. exact Hq2.
Qed.

Lemma tail_mutate_C G F s0 vl vn s root path op : Pre G F s0 s ->
  lookup_env vl vn (env s) <> None ->
  sat DeadC (fun r => Pre G F s0 (snd r))
      (bindM (lift (mutate_path root path op))
        (fun '(root', r) => match assign_env vl vn root' (env s) with
                            | Some e' => OkM (r, with_env e' s)
                            | None => PanicM PMutVarMissing end)).
Proof.
  intros Hp Hl. bindC by (apply sat_lift, nopanic_rsat, mutate_path_nopanic) as [root' r] _.
  pose proof (assign_env_lookup vl vn root' (env s) Hl) as Ha.
  destruct (assign_env vl vn root' (env s)) as [e'|] eqn:E; [|congruence].
  apply sat_OkM. cbn [snd]. apply Pre_with_env; [exact Hp|]. eapply assign_env_ext. exact E.
Qed.

Lemma mutate_with_C G F s0 o op s : sc_expr T G F o = true -> Pre G F s0 s ->
  sat DeadC (fun r => Pre G F s0 (snd r)) (mutate_with ev o op s).
Proof.
  intros Hw Hp. destruct o; cbn [mutate_with]; try leafC.
  - cbn [sc_expr] in Hw. destruct (Pre_now _ _ _ _ Hp) as [Hc _].
    destruct (var_ok_has G F s l n Hc Hw) as (i & v & _ & Hl). rewrite Hl.
    apply tail_mutate_C; [exact Hp|congruence].
  - destruct (flatten_target (EIdx o1 o2) []) as [[[vn vl] idx]|] eqn:Ef; [|leafC].
    destruct (flatten_sc G F (EIdx o1 o2) [] vn vl idx Hw eq_refl Ef) as [Hv Hidx].
    bindC by (apply indices_with_C; eassumption) as [path s1] Hq. cbn [snd] in Hq.
    destruct (Pre_now _ _ _ _ Hq) as [Hc _].
    destruct (var_ok_has G F s1 vl vn Hc Hv) as (i & v & _ & Hl). rewrite Hl.
    apply tail_mutate_C; [exact Hq|congruence].
Qed.

Ltac evC := apply Hev'; eassumption.
Ltac okC := apply sat_OkM; cbn [snd]; eassumption.

Lemma string_call_C G F s0 str f args s1 :
  forallb (sc_expr T G F) args = true -> Pre G F s0 s1 ->
  sat DeadC (fun r => Pre G F s0 (snd r)) (string_call ev str f args s1).
Proof.
  intros Hw Hp. unfold string_call.
  repeat match goal with
  | |- sat _ _ (if ?c then _ else _) => destruct c
  | |- sat _ _ (match ?a with [] => _ | _ :: _ => _ end) =>
      destruct a;
      repeat match goal with H : forallb _ (_ :: _) = true |- _ => cbn [forallb] in H end; andb_split
  | |- sat _ _ (bindM (ev _ _) _) =>
      let v := fresh "v" in let s' := fresh "s" in let Hq := fresh "Hq" in
      bindC by evC as [v s'] Hq; cbn [snd] in Hq
  | |- sat _ _ (match ?v with VNum _ => _ | _ => _ end) => destruct v
  | |- sat _ _ (match find ?h ?n with Found _ => _ | _ => _ end) => destruct (find h n)
  | |- sat _ _ (match replace ?h ?a ?b with SOk _ => _ | _ => _ end) => destruct (replace h a b)
  | |- _ => first [leafC | okC]
  end.
Qed.

Lemma array_call_C G F s0 items f args s1 :
  forallb (sc_expr T G F) args = true -> Pre G F s0 s1 ->
  sat DeadC (fun r => Pre G F s0 (snd r)) (array_call ev items f args s1).
Proof.
  intros Hw Hp. unfold array_call.
  repeat match goal with
  | |- sat _ _ (if ?c then _ else _) => destruct c
  | |- sat _ _ (match ?a with [] => _ | _ :: _ => _ end) =>
      destruct a;
      repeat match goal with H : forallb _ (_ :: _) = true |- _ => cbn [forallb] in H end; andb_split
  | |- sat _ _ (bindM (ev _ _) _) =>
      let v := fresh "v" in let s' := fresh "s" in let Hq := fresh "Hq" in
      bindC by evC as [v s'] Hq; cbn [snd] in Hq
  | |- sat _ _ (match ?v with VNum _ => _ | _ => _ end) => destruct v
  | |- _ => first [leafC | okC]
  end.
Qed.

Lemma member_call_C G F s0 o f args s :
  sc_expr T G F o = true -> forallb (sc_expr T G F) args = true -> Pre G F s0 s ->
  sat DeadC (fun r => Pre G F s0 (snd r)) (member_call ev o f args s).
Proof.
  intros Ho Hw Hp. unfold member_call.
  destruct (mem_name f array_mut_methods).
  - destruct (bytes_eqb f n_push).
    + destruct args as [|a0 rest]; [leafC|]. cbn [forallb] in Hw. andb_split.
      bindC by evC as [v s1] Hq. cbn [snd] in Hq. apply mutate_with_C; assumption.
    + destruct (bytes_eqb f n_pop); apply mutate_with_C; assumption.
  - destruct (mem_name f proc_mut_names); [leafC|].
    bindC by evC as [recv s1] Hq. cbn [snd] in Hq.
    destruct recv; try leafC.
    + destruct (mem_name f number_methods); [okC|leafC].
    + apply string_call_C; assumption.
    + apply array_call_C; assumption.
Qed.

Lemma builtin_call_C G F s0 g args s :
  forallb (sc_expr T G F) args = true -> Pre G F s0 s ->
  sat DeadC (fun r => Pre G F s0 (snd r)) (builtin_call ev g args s).
Proof.
  intros Hw Hp. unfold builtin_call.
  bindC by (apply evals_with_C; eassumption) as [vs s1] Hq. cbn [snd] in Hq.
  destruct vs as [|v [|? ?]]; try leafC. destruct g; first [exact Hq | leafC | okC].
Qed.

Lemma user_call_C G F s0 fname args i Gd Fd s :
  forallb (sc_expr T G F) args = true -> In i F -> tlookup i T = Some (Gd, Fd) ->
  zincl Gd G = true -> zincl Fd F = true -> Pre G F s0 s ->
  sat DeadC (fun r => Pre G F s0 (snd r)) (user_call ev eb fname args (Some i) s).
Proof.
  intros Hw Hi Ht HG HF Hp. unfold user_call.
  destruct (Pre_now _ _ _ _ Hp) as [(Hne & Hcv & Hcf) Hj].
  destruct (lookup_fn_fhas i fname (fns s) (Hcf i Hi)) as [fd El]. rewrite El.
  (* the function found is a checked one with this id *)
  assert (Hfd : fdok fd /\ f_id fd = Some i).
  { clear - El Hj. unfold J in Hj. revert El. induction (fns s) as [|sc r IH]; cbn [lookup_fn]; [discriminate|].
    inversion Hj; subst. destruct (find_fn_scope (Some i) fname sc) as [f|] eqn:E.
    - intros H; injection H as <-. clear - E H1. induction sc as [|f0 sc IH]; cbn [find_fn_scope] in E; [discriminate|].
      inversion H1; subst. destruct (fdef_matches (Some i) fname f0) eqn:Em.
      + injection E as <-. split; [assumption|]. apply fdef_matches_some in Em. exact Em.
      + apply IH; assumption.
    - apply IH. assumption. }
  destruct Hfd as [(i' & Gd' & Fd' & Hid & Ht' & Hbody) Hid2].
  assert (i' = i) by congruence. subst i'. rewrite Ht in Ht'. injection Ht' as <- <-.
  bindC by (apply evals_with_C; eassumption) as [vs s1] Hq. cbn [snd] in Hq.
  destruct (Nat.eqb (length vs) (length (f_params fd))) eqn:En; cbn [negb]; [|leafC].
  apply Nat.eqb_eq in En.
  match goal with |- sat _ _ (if ?c then _ else _) => destruct c end; [leafC|].
  lazy zeta.
  destruct (Pre_now _ _ _ _ Hq) as [(Hne1 & Hcv1 & Hcf1) Hj1].
  set (s2 := push_scope (bind_params (f_id fd) (f_lstart fd) (f_params fd) vs 0 []) s1).
  assert (Hc2 : Cov (param_ids (f_lstart fd) (length (f_params fd)) ++ Gd) Fd s2).
  { refine (conj _ (conj _ _)).
    - cbn. discriminate.
    - intros j Hin. apply in_app_or in Hin. destruct Hin as [Hin|Hin].
      + cbn [s2 push_scope env]. apply has_head. rewrite Hid.
        apply bind_params_param_ids; [symmetry; exact En|exact Hin].
      + cbn [s2 push_scope env]. apply has_cons. apply Hcv1. eapply zincl_In; eassumption.
    - intros j Hin. cbn [s2 push_scope fns]. apply fhas_cons. apply Hcf1. eapply zincl_In; eassumption. }
  assert (Hj2 : J s2) by (unfold J; cbn; constructor; [constructor|exact Hj1]).
  bindC by (apply (Heb _ _ _ _ Hbody Hc2 Hj2)) as [fl s3] Hq3. cbn [snd] in Hq3.
  assert (Hfr : Fr s1 (pop_scope s3)).
  { destruct Hq3 as [He Hf]. split.
    - cbn [pop_scope env]. apply ext_tl in He. exact He.
    - cbn [pop_scope fns]. rewrite Hf. reflexivity. }
  destruct fl; try leafC; apply sat_OkM; cbn [snd]; eapply Pre_step; eassumption.
Qed.

Lemma eval_body_C G F e s : sc_expr T G F e = true -> Cov G F s -> J s ->
  sat DeadC (fun r => Fr s (snd r)) (eval_body eps ev eb e s).
Proof.
  intros Hw Hc Hj. pose proof (Pre_refl G F s Hc Hj) as Hp.
  apply (sat_weaken DeadC (fun r : value * st => Pre G F s (snd r))); [intros r Hr; exact (proj2 (proj2 Hr))|].
  destruct e; cbn [eval_body]; try okC; try leafC.
  - cbn [sc_expr] in Hw.
    bindC by (apply sat_lift, nopanic_rsat, (interp_segs_ok G F s Hc); exact Hw) as b _. okC.
  - cbn [sc_expr] in Hw. destruct (var_ok_has G F s l n Hc Hw) as (i & v & _ & Hl). rewrite Hl. okC.
  - cbn [sc_expr] in Hw. andb_split. destruct op.
    all: try (bindC by evC as [lv s1] Hq; cbn [snd] in Hq;
              bindC by evC as [rv s2] Hq2; cbn [snd] in Hq2;
              bindC by (apply sat_lift, nopanic_rsat, binop_values_nopanic; discriminate) as v _; okC).
    + bindC by evC as [lv s1] Hq. cbn [snd] in Hq.
      destruct lv as [| |[|]| |]; try okC;
      (bindC by evC as [rv s2] Hq2; cbn [snd] in Hq2; destruct rv; first [leafC|okC]).
    + bindC by evC as [lv s1] Hq. cbn [snd] in Hq.
      destruct lv as [| |[|]| |]; try okC;
      (bindC by evC as [rv s2] Hq2; cbn [snd] in Hq2; destruct rv; first [leafC|okC]).
  - cbn [sc_expr] in Hw. bindC by evC as [v s1] Hq. cbn [snd] in Hq. destruct op, v; first [leafC|okC].
  - cbn [sc_expr] in Hw. bindC by (apply evals_with_C; eassumption) as [vs s1] Hq. okC.
  - cbn [sc_expr] in Hw. andb_split.
    bindC by evC as [av s1] Hq. cbn [snd] in Hq.
    bindC by evC as [iv s2] Hq2. cbn [snd] in Hq2.
    destruct av; try leafC. destruct iv; try leafC.
    destruct (negb (is_finite x) || negb (is_int x)); [leafC|]. lazy zeta.
    destruct ((to_isize x <? 0) || (len_z vs <=? to_isize x)); [leafC|].
    destruct (nth_value vs (Z.to_nat (to_isize x))); [okC|leafC].
  - destruct e; try leafC.
    + cbn [sc_expr] in Hw. andb_split. destruct (global_builtin n) eqn:Eg.
      * apply builtin_call_C; assumption.
      * destruct target as [i|]; [|discriminate]. andb_split.
        destruct (tlookup i T) as [[Gd Fd]|] eqn:Et; [|discriminate]. andb_split.
        eapply user_call_C; try eassumption. apply zmem_In. assumption.
    + cbn [sc_expr] in Hw. andb_split. apply member_call_C; assumption.
Qed.

Lemma QxN s t s' : Fr s s' -> decl_of t = [] -> Qx s t (FNormal, s').
Proof. intros H E. split; [exact H|]. intros _ i Hi. rewrite E in Hi. destruct Hi. Qed.
Lemma Qx_other s t fl s' : Fr s s' -> fl <> FNormal -> Qx s t (fl, s').
Proof. intros H E. split; [exact H|]. intros E2. cbn in E2. congruence. Qed.

Lemma exec_body_C G F t s : sc_stmt P T G F t = true -> Cov G F s -> J s ->
  sat DeadC (Qx s t) (exec_body ev el eb t s).
Proof.
  intros Hw Hc Hj. pose proof (Pre_refl G F s Hc Hj) as Hp.
  destruct t; cbn [exec_body]; cbn [sc_stmt] in Hw.
  - apply sat_OkM. apply QxN; [apply Fr_refl|reflexivity].
  - andb_split. bindC by evC as [v s1] Hq. cbn [snd] in Hq.
    destruct (Pre_now _ _ _ _ Hq) as [(Hne & _ & _) _].
    apply sat_OkM. split; cbn [fst snd].
    + eapply Fr_trans; [exact (proj2 (proj2 Hq))|]. split; [apply define_env_ext|reflexivity].
    + intros _ i Hi. destruct l as [i0|]; [|discriminate]. cbn [decl_of] in Hi.
      destruct Hi as [<-|[]]. cbn [with_env env]. apply define_env_has. exact Hne.
  - andb_split. bindC by evC as [v s1] Hq. cbn [snd] in Hq.
    destruct (Pre_now _ _ _ _ Hq) as [Hc1 _].
    match goal with H : var_ok G l = true |- _ => destruct (var_ok_has G F s1 l n Hc1 H) as (i & v0 & _ & Hl) end.
    assert (Ha : assign_env l n v (env s1) <> None) by (apply assign_env_lookup; congruence).
    destruct (assign_env l n v (env s1)) as [e'|] eqn:E; [|congruence].
    apply sat_OkM. apply QxN; [|reflexivity].
    eapply Fr_trans; [exact (proj2 (proj2 Hq))|]. split; [eapply assign_env_ext; exact E|reflexivity].
  - andb_split. bindC by evC as [v s1] Hq. cbn [snd] in Hq.
    destruct (flatten_target target []) as [[[vn vl] idx]|] eqn:Ef; [|leafC].
    match goal with H : sc_expr T G F target = true |- _ =>
      destruct (flatten_sc G F target [] vn vl idx H eq_refl Ef) as [Hv Hidx] end.
    bindC by (apply indices_with_C; eassumption) as [path s2] Hq2. cbn [snd] in Hq2.
    destruct (Pre_now _ _ _ _ Hq2) as [Hc2 _].
    destruct (var_ok_has G F s2 vl vn Hc2 Hv) as (i & v0 & _ & Hl). rewrite Hl.
    bindC by (apply sat_lift, assign_path_rsat; left; notC) as root' _.
    assert (Ha : assign_env vl vn root' (env s2) <> None) by (apply assign_env_lookup; congruence).
    destruct (assign_env vl vn root' (env s2)) as [e'|] eqn:E; [|congruence].
    apply sat_OkM. apply QxN; [|reflexivity].
    eapply Fr_trans; [exact (proj2 (proj2 Hq2))|]. split; [eapply assign_env_ext; exact E|reflexivity].
  - andb_split. bindC by evC as [cv s1] Hq. cbn [snd] in Hq.
    destruct (Pre_now _ _ _ _ Hq) as [Hc1 Hj1].
    bindC by (apply sat_lift, nopanic_rsat, truthy_nopanic) as b _.
    destruct b.
    + eapply sat_weaken; [|apply (Heb G F t s1); assumption].
      intros [fl s2] Hr. cbn [snd] in Hr. split; cbn [fst snd].
      * eapply Fr_trans; [exact (proj2 (proj2 Hq))|exact Hr].
      * intros _ i [].
    + destruct f as [fb|].
      * eapply sat_weaken; [|apply (Heb G F fb s1); assumption].
        intros [fl s2] Hr. cbn [snd] in Hr. split; cbn [fst snd].
        -- eapply Fr_trans; [exact (proj2 (proj2 Hq))|exact Hr].
        -- intros _ i [].
      * apply sat_OkM. apply QxN; [exact (proj2 (proj2 Hq))|reflexivity].
  - andb_split. eapply sat_weaken; [|apply (Hel G F c body s); assumption].
    intros [fl s2] Hr. cbn [snd] in Hr. split; cbn [fst snd]; [exact Hr|intros _ i []].
  - eapply sat_weaken; [|apply (Heb G F body s); assumption].
    intros [fl s2] Hr. cbn [snd] in Hr. split; cbn [fst snd]; [exact Hr|intros _ i []].
  - destruct e.
    + bindC by evC as [v s1] Hq. cbn [snd] in Hq. apply sat_OkM.
      apply Qx_other; [exact (proj2 (proj2 Hq))|discriminate].
    + apply sat_OkM. apply Qx_other; [apply Fr_refl|discriminate].
  - apply sat_OkM. apply Qx_other; [apply Fr_refl|discriminate].
  - apply sat_OkM. apply Qx_other; [apply Fr_refl|discriminate].
  - bindC by evC as [v s1] Hq. cbn [snd] in Hq. apply sat_OkM.
    apply QxN; [exact (proj2 (proj2 Hq))|reflexivity].
Qed.

Lemma loop_body_C G F c body s : sc_expr T G F c = true -> sc_block P T G F body = true ->
  Cov G F s -> J s -> sat DeadC (fun r => Fr s (snd r)) (loop_body ev el eb c body s).
Proof.
  intros Hw Hb Hc Hj. pose proof (Pre_refl G F s Hc Hj) as Hp. unfold loop_body.
  bindC by evC as [cv s1] Hq. cbn [snd] in Hq.
  destruct (Pre_now _ _ _ _ Hq) as [Hc1 Hj1].
  bindC by (apply sat_lift, nopanic_rsat, truthy_nopanic) as b _.
  destruct (negb b); [apply sat_OkM; exact (proj2 (proj2 Hq))|].
  bindC by (apply (Heb G F body s1); assumption) as [fl s2] Hq2. cbn [snd] in Hq2.
  assert (Hfr : Fr s s2) by (eapply Fr_trans; [exact (proj2 (proj2 Hq))|exact Hq2]).
  destruct fl; try (apply sat_OkM; exact Hfr).
  - eapply sat_weaken; [|apply (Hel G F c body s2); try assumption].
    + intros r Hr. eapply Fr_trans; eassumption.
    + eapply Cov_Fr; eassumption.
    + eapply J_Fr; eassumption.
  - eapply sat_weaken; [|apply (Hel G F c body s2); try assumption].
    + intros r Hr. eapply Fr_trans; eassumption.
    + eapply Cov_Fr; eassumption.
    + eapply J_Fr; eassumption.
Qed.

Lemma stmts_with_C F : forall ts G s1,
  sc_stmts_with P (sc_stmt P T) G F ts = true -> Cov G F s1 -> J s1 ->
  sat DeadC (fun r => ext (tl (env s1)) (env (snd r)) /\ fns (snd r) = tl (fns s1))
      (stmts_with P ex ts s1).
Proof.
  induction ts as [|t r IH]; intros G s1 Hw Hc Hj; cbn [stmts_with].
  - apply sat_OkM. cbn. split; [apply ext_refl|reflexivity].
  - cbn [sc_stmts_with] in Hw. apply andb_prop in Hw. destruct Hw as [Ht Hr].
    unfold decl_run, skipped in *.
    destruct (in_plan_stmt P (stmt_sid t)) eqn:Ep.
    + cbn [app] in Hr. eapply IH; eassumption.
    + cbn [andb] in Ht.
      bindC by (apply (Hex G F t s1 Ht Hc Hj)) as [fl s'] Hq. destruct Hq as [Hfr Hdecl]. cbn [fst snd] in *.
      assert (Hpop : ext (tl (env s1)) (tl (env s')) /\ tl (fns s') = tl (fns s1)).
      { destruct Hfr as [He Hf]. split; [apply ext_tl; exact He|rewrite Hf; reflexivity]. }
      destruct fl; try (apply sat_OkM; cbn; exact Hpop).
      eapply sat_weaken; [|apply (IH (decl_of t ++ G) s' Hr)].
      * intros r0 [H1 H2]. split; [eapply ext_trans; [exact (proj1 Hpop)|exact H1]|].
        rewrite H2. exact (proj2 Hpop).
      * pose proof (Cov_Fr _ _ _ _ Hc Hfr) as (Hn & Hv & Hf). refine (conj Hn (conj _ Hf)).
        intros i Hi. apply in_app_or in Hi. destruct Hi as [Hi|Hi]; [apply Hdecl; [reflexivity|exact Hi]|auto].
      * eapply J_Fr; eassumption.
Qed.

Lemma block_body_C G F b s : sc_block P T G F b = true -> Cov G F s -> J s ->
  sat DeadC (fun r => Fr s (snd r)) (block_body P ex b s).
Proof.
  intros Hw Hc Hj. unfold block_body. unfold sc_block in Hw.
  destruct (hoist_ok b (push_scope [] s) G (block_fns P b ++ F) [] (fns s) Hw eq_refl (Forall_nil _))
    as (s1 & top & Hh & He & Hf & Htop & _ & Hreg).
  rewrite Hh. unfold lift. cbn [bindM].
  destruct Hc as (Hn & Hv & Hfn).
  assert (Hc1 : Cov G (block_fns P b ++ F) s1).
  { refine (conj _ (conj _ _)).
    - rewrite He. cbn. discriminate.
    - intros i Hi. rewrite He. cbn. apply has_cons. auto.
    - intros j Hi. rewrite Hf. apply in_app_or in Hi. destruct Hi as [Hi|Hi].
      + destruct (Hreg j Hi) as [fd [Hin Hid]]. exists top. split; [left; reflexivity|eauto].
      + apply fhas_cons. auto. }
  assert (Hj1 : J s1) by (unfold J; rewrite Hf; constructor; assumption).
  pose proof (stmts_with_C (block_fns P b ++ F) b G s1 Hw Hc1 Hj1) as H.
  unfold sat in *. destruct (stmts_with P ex b s1) as [o r]. cbn [snd] in *.
  destruct r as [[fl s']| | | |]; cbn in *; auto.
  destruct H as [H1 H2]. rewrite He in H1. rewrite Hf in H2. cbn in H1, H2. split; assumption.
Qed.

End PartC.

Lemma deadC_all P T eps : forall n,
  (forall G F e s, sc_expr T G F e = true -> Cov G F s -> J P T s ->
     sat DeadC (fun r => Fr s (snd r)) (eval P eps n e s)) /\
  (forall G F t s, sc_stmt P T G F t = true -> Cov G F s -> J P T s ->
     sat DeadC (Qx s t) (exec P eps n t s)) /\
  (forall G F c b s, sc_expr T G F c = true -> sc_block P T G F b = true -> Cov G F s -> J P T s ->
     sat DeadC (fun r => Fr s (snd r)) (exec_loop P eps n c b s)) /\
  (forall G F b s, sc_block P T G F b = true -> Cov G F s -> J P T s ->
     sat DeadC (fun r => Fr s (snd r)) (exec_block P eps n b s)).
Proof.
  induction n as [|n (IHe & IHx & IHl & IHb)].
  - refine (conj _ (conj _ (conj _ _))); intros; exact I.
  - refine (conj _ (conj _ (conj _ _))); intros.
    + rewrite eval_S. eapply eval_body_C; eassumption.
    + rewrite exec_S. eapply exec_body_C; eassumption.
    + rewrite exec_loop_S. eapply loop_body_C; eassumption.
    + rewrite exec_block_S. eapply block_body_C; eassumption.
Qed.

Theorem run_impl_deadC plan T prog : wf_scoped_with plan T prog = true ->
  forall eps fuel s, ending_of (run_impl plan eps fuel prog) = Panicked s -> ~ DeadC s.
Proof.
  intros Hw eps fuel s. unfold run_impl, ending_of.
  assert (Hc : Cov [] [] init_st).
  { refine (conj _ (conj _ _)); [cbn; discriminate|intros i []|intros j []]. }
  assert (Hj : J plan T init_st) by (unfold J; cbn; repeat constructor).
  pose proof (proj2 (proj2 (proj2 (deadC_all plan T eps fuel))) [] [] prog init_st Hw Hc Hj) as H.
  unfold sat in H. destruct (exec_block plan eps fuel prog init_st) as [o r].
  cbn [snd] in *. destruct r; try discriminate. intros E; injection E as <-. exact H.
Qed.

Lemma wf_scoped_never_panics_scoping :
  forall plan prog, wf_scoped plan prog = true ->
  forall eps fuel s,
  ending_of (run_impl plan eps fuel prog) = Panicked s ->
  s <> PVarMissing /\ s <> PSegVar /\ s <> PAssignMissing /\ s <> PMutVarMissing /\ s <> PFuncMissing.
Proof.
  intros plan prog Hw eps fuel s H. apply (run_impl_deadC plan _ prog Hw) in H. unfold DeadC in H.
  repeat split; intros E; apply H; auto 6.
Qed.

(* all fifteen sites together *)
Lemma accepted_never_panics_partial :
  forall plan prog, WfStatic.wf_static prog = true -> wf_scoped plan prog = true ->
  forall eps fuel s, ending_of (run_impl plan eps fuel prog) <> Panicked s.
Proof.
  intros plan prog H1 H2 eps fuel s H.
  pose proof (dead_by_construction plan eps fuel prog s H) as (A1 & A2 & A3 & A4).
  pose proof (wf_static_never_panics_structural prog H1 plan eps fuel s H) as (B1 & B2 & B3 & B4 & B5 & B6).
  pose proof (wf_scoped_never_panics_scoping plan prog H2 eps fuel s H) as (C1 & C2 & C3 & C4 & C5).
  destruct s; congruence.
Qed.
