(* LangUnfold — one-step unfolding of Lang.eval / exec / exec_loop / exec_block.

   The evaluator of Lang.v is one mutual Fixpoint on fuel with nested local fixes.  For the
   proofs the body of each function is restated here in open-recursion style (on top of Lang.v's own
   list-level helpers evals_with / indices_with / mutate_with / stmts_with) (the recursive
   calls at fuel n become the parameters [ev ex el eb]); the four unfolding lemmas are proved
   by [reflexivity], i.e. the restatement is checked by the kernel to be CONVERTIBLE with
   Lang.v's text — it is not a second model.  All later proofs are by induction on fuel,
   rewrite with these lemmas, and reason about the non-recursive bodies. *)
From Coq Require Import ZArith List Bool.
Require Import NS.theories.F64 NS.theories.StrLib NS.theories.Lang.
Require NS.theories.NumParse NS.theories.CaseMap.
Import ListNotations.
Open Scope Z_scope.

Section Bodies.
Variable P : plan.
Variable eps : f64.

Notation "'do' x <- r ; k" := (bindM r (fun x => k)) (at level 200, x pattern, r at level 100, k at level 200).

Variable ev : expr -> st -> M (value * st).
Variable ex : stmt -> st -> M (flow * st).
Variable el : expr -> list stmt -> st -> M (flow * st).
Variable eb : list stmt -> st -> M (flow * st).

Definition string_call (str : list Z) (f : name) (args : list expr) (s1 : st) : M (value * st) :=
  if negb (mem_name f string_methods) then ErrM TypeMis
  else if bytes_eqb f n_len then OkM (VNum (of_Z (Z.of_nat (str_len str))), s1)
  else if bytes_eqb f n_slice then
    match args with
    | a0 :: a1 :: _ =>
        do (v0, s2) <- ev a0 s1;
        do (v1, s3) <- ev a1 s2;
        match v0, v1 with
        | VNum x0, VNum x1 =>
            OkM (VStr (slice str (to_isize (ffloor x0)) (to_isize (ffloor x1))), s3)
        | _, _ => ErrM TypeMis
        end
    | _ => PanicM PArgIndex
    end
  else if bytes_eqb f n_to_uppercase then
    OkM (VStr (CaseMap.to_upper str), s1)
  else if bytes_eqb f n_to_lowercase then
    OkM (VStr (CaseMap.to_lower str), s1)
  else if bytes_eqb f n_trim then OkM (VStr (trim str), s1)
  else if bytes_eqb f n_to_number then OkM (VNum (NumParse.to_number str), s1)
  else if bytes_eqb f n_find then
    match args with
    | a0 :: _ =>
        do (v0, s2) <- ev a0 s1;
        match v0 with
        | VStr needle =>
            match find str needle with
            | Found i => OkM (VNum (of_Z (Z.of_nat i)), s2)
            | NotFound => OkM (VNum (of_Z (-1)), s2)
            | _ => PanicM PFind
            end
        | _ => ErrM TypeMis
        end
    | _ => PanicM PArgIndex
    end
  else if bytes_eqb f n_replace then
    match args with
    | a0 :: a1 :: _ =>
        do (v0, s2) <- ev a0 s1;
        do (v1, s3) <- ev a1 s2;
        match v0, v1 with
        | VStr old, VStr new =>
            match replace str old new with
            | SOk r => OkM (VStr r, s3)
            | _ => PanicM PFind
            end
        | _, _ => ErrM TypeMis
        end
    | _ => PanicM PArgIndex
    end
  else (* split *)
    match args with
    | a0 :: _ =>
        do (v0, s2) <- ev a0 s1;
        match v0 with
        | VStr pat => OkM (VArr (map VStr (split str pat)), s2)
        | _ => ErrM TypeMis
        end
    | _ => PanicM PArgIndex
    end.

Definition array_call (items : list value) (f : name) (args : list expr) (s1 : st) : M (value * st) :=
  if negb (mem_name f array_methods) then ErrM TypeMis
  else if bytes_eqb f n_len then OkM (VNum (of_Z (len_z items)), s1)
  else if bytes_eqb f n_join then
    match args with
    | a0 :: _ =>
        do (v0, s2) <- ev a0 s1;
        match v0 with
        | VStr sep => OkM (VStr (join_values items sep), s2)
        | _ => ErrM TypeMis
        end
    | _ => PanicM PArgIndex
    end
  else PanicM PMutBuiltin.

Definition member_call (o : expr) (f : name) (args : list expr) (s : st) : M (value * st) :=
  if mem_name f array_mut_methods then
    if bytes_eqb f n_push then
      match args with
      | [] => PanicM PArgIndex
      | a0 :: _ => do (v, s1) <- ev a0 s; mutate_with ev o (MPush v) s1
      end
    else if bytes_eqb f n_pop then mutate_with ev o MPop s
    else mutate_with ev o MReverse s
  else if mem_name f proc_mut_names then UnsuppM
  else
    do (recv, s1) <- ev o s;
    match recv with
    | VStr str => string_call str f args s1
    | VNum x =>
        if mem_name f number_methods then OkM (number_method f x, s1) else ErrM TypeMis
    | VArr items => array_call items f args s1
    | VBool _ => ErrM TypeMis
    | VNull => ErrM TypeMis
    end.

Definition user_call (fname : name) (args : list expr) (target : option Z) (s : st) : M (value * st) :=
  match lookup_fn target fname (fns s) with
  | None => PanicM PFuncMissing
  | Some fd =>
      do (vs, s1) <- evals_with ev args s;
      if negb (Nat.eqb (length vs) (length (f_params fd))) then PanicM PArgCount
      else if (match f_id fd with
               | Some _ => f_llen fd <? Z.of_nat (length (f_params fd))
               | None => false end) then PanicM PParamRange
      else
        let s2 := push_scope (bind_params (f_id fd) (f_lstart fd) (f_params fd) vs 0 []) s1 in
        do (fl, s3) <- eb (f_body fd) s2;
        let s4 := pop_scope s3 in
        match fl with
        | FNormal => OkM (VNull, s4)
        | FReturn v => OkM (v, s4)
        | FBreak | FNext => PanicM PBreakEscapes
        end
  end.

Definition builtin_call (g : gbuiltin) (args : list expr) (s : st) : M (value * st) :=
  do (vs, s1) <- evals_with ev args s;
  match vs with
  | [v] =>
      match g with
      | GShout => ([v], Ok (VNull, s1))
      | GTypeOf => OkM (VStr (type_name v), s1)
      | GToString => OkM (VStr (display v), s1)
      | GReadLine | GCommand => UnsuppM
      end
  | _ => PanicM PBuiltinArity
  end.

Definition eval_body (e : expr) (s : st) : M (value * st) :=
  match e with
  | ENum x => OkM (VNum x, s)
  | EStr b => OkM (VStr b, s)
  | EInterp segs => do b <- lift (interp_segs (env s) segs); OkM (VStr b, s)
  | EBool b => OkM (VBool b, s)
  | ENull => OkM (VNull, s)
  | EVar vn vl =>
      match lookup_env vl vn (env s) with
      | Some v => OkM (v, s)
      | None => PanicM PVarMissing
      end
  | EBin And a b =>
      do (l, s1) <- ev a s;
      match l with
      | VBool false | VNull => OkM (VBool false, s1)
      | _ => do (r, s2) <- ev b s1;
             match r with
             | VBool x => OkM (VBool x, s2)
             | VNull => OkM (VBool false, s2)
             | _ => ErrM TypeMis
             end
      end
  | EBin Or a b =>
      do (l, s1) <- ev a s;
      match l with
      | VBool true => OkM (VBool true, s1)
      | _ => do (r, s2) <- ev b s1;
             match r with
             | VBool x => OkM (VBool x, s2)
             | VNull => OkM (VBool false, s2)
             | _ => ErrM TypeMis
             end
      end
  | EBin op a b =>
      do (l, s1) <- ev a s;
      do (r, s2) <- ev b s1;
      do v <- lift (binop_values eps op l r); OkM (v, s2)
  | EUn op a =>
      do (v, s1) <- ev a s;
      match op, v with
      | Not, VBool b => OkM (VBool (negb b), s1)
      | Not, VNull => OkM (VBool true, s1)
      | Neg, VNum x => OkM (VNum (fneg x), s1)
      | _, _ => ErrM TypeMis
      end
  | EArr es => do (vs, s1) <- evals_with ev es s; OkM (VArr vs, s1)
  | EIdx a i =>
      do (av, s1) <- ev a s;
      do (iv, s2) <- ev i s1;
      match av with
      | VArr items =>
          match iv with
          | VNum x =>
              if negb (is_finite x) || negb (is_int x) then ErrM InvIdx
              else
                let idx := to_isize x in
                if (idx <? 0) || (len_z items <=? idx) then ErrM IdxOob
                else match nth_value items (Z.to_nat idx) with
                     | Some v => OkM (v, s2)
                     | None => ErrM IdxOob
                     end
          | _ => ErrM InvIdx
          end
      | _ => ErrM TypeMis
      end
  | EMember _ _ => ErrM TypeMis
  | ECall (EMember o f) args _ => member_call o f args s
  | ECall (EVar fname _) args target =>
      match global_builtin fname with
      | Some g => builtin_call g args s
      | None => user_call fname args target s
      end
  | ECall _ _ _ => ErrM TypeMis
  end.

Definition exec_body (t : stmt) (s : st) : M (flow * st) :=
  match t with
  | SMake _ vn vl e =>
      do (v, s1) <- ev e s;
      OkM (FNormal, with_env (define_env vl vn v (env s1)) s1)
  | SSet _ vn vl e =>
      do (v, s1) <- ev e s;
      match assign_env vl vn v (env s1) with
      | Some e' => OkM (FNormal, with_env e' s1)
      | None => PanicM PAssignMissing
      end
  | SSetIdx _ target e =>
      do (v, s1) <- ev e s;
      match flatten_target target [] with
      | None => ErrM TypeMis
      | Some (vn, vl, idx_exprs) =>
          do (path, s2) <- indices_with ev idx_exprs s1;
          match lookup_env vl vn (env s2) with
          | None => PanicM PMutVarMissing
          | Some root =>
              do root' <- lift (assign_path root path v);
              match assign_env vl vn root' (env s2) with
              | Some e' => OkM (FNormal, with_env e' s2)
              | None => PanicM PMutVarMissing
              end
          end
      end
  | SIf _ c t f =>
      do (cv, s1) <- ev c s;
      do b <- lift (truthy_cond cv);
      if b then eb t s1
      else match f with Some fb => eb fb s1 | None => OkM (FNormal, s1) end
  | SLoop _ c body => el c body s
  | SBlock _ body => eb body s
  | SFun _ _ _ _ _ _ _ => OkM (FNormal, s)
  | SRet _ None => OkM (FReturn VNull, s)
  | SRet _ (Some e) => do (v, s1) <- ev e s; OkM (FReturn v, s1)
  | SBreak _ => OkM (FBreak, s)
  | SNext _ => OkM (FNext, s)
  | SExpr _ e => do (_, s1) <- ev e s; OkM (FNormal, s1)
  end.

Definition loop_body (c : expr) (body : list stmt) (s : st) : M (flow * st) :=
  do (cv, s1) <- ev c s;
  do b <- lift (truthy_cond cv);
  if negb b then OkM (FNormal, s1)
  else
    do (fl, s2) <- eb body s1;
    match fl with
    | FBreak => OkM (FNormal, s2)
    | FNormal | FNext => el c body s2
    | FReturn v => OkM (FReturn v, s2)
    end.

Definition block_body (b : list stmt) (s : st) : M (flow * st) :=
  do s1 <- lift (hoist P b (push_scope [] s));
  stmts_with P ex b s1.

End Bodies.

Lemma eval_0 P eps e s : eval P eps 0 e s = FuelM.
Proof. reflexivity. Qed.
Lemma exec_0 P eps t s : exec P eps 0 t s = FuelM.
Proof. reflexivity. Qed.
Lemma exec_loop_0 P eps c b s : exec_loop P eps 0 c b s = FuelM.
Proof. reflexivity. Qed.
Lemma exec_block_0 P eps b s : exec_block P eps 0 b s = FuelM.
Proof. reflexivity. Qed.

Lemma eval_S P eps n e s :
  eval P eps (S n) e s = eval_body eps (eval P eps n) (exec_block P eps n) e s.
Proof.
  destruct e; reflexivity.
Qed.

Lemma exec_S P eps n t s :
  exec P eps (S n) t s = exec_body (eval P eps n) (exec_loop P eps n) (exec_block P eps n) t s.
Proof. destruct t; reflexivity. Qed.

Lemma exec_loop_S P eps n c b s :
  exec_loop P eps (S n) c b s = loop_body (eval P eps n) (exec_loop P eps n) (exec_block P eps n) c b s.
Proof. reflexivity. Qed.

Lemma exec_block_S P eps n b s :
  exec_block P eps (S n) b s = block_body P (exec P eps n) b s.
Proof. reflexivity. Qed.
