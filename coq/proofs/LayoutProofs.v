(* LayoutProofs.v — C10, lexer half: a token list rendered under any separating layout
   lexes back to the same (kind, payload, owned) list, without diagnostics.  *)
From Coq Require Import ZArith List Bool Arith Lia.
Require Import NS.theories.Utf8 NS.theories.GenLexer NS.theories.Lexer NS.theories.Layout.
Import ListNotations.
Open Scope nat_scope.

(* ------------------------------------------------------------------ tactics *)

Ltac bsplit :=
  repeat match goal with
         | H : _ && _ = true |- _ => apply andb_prop in H; destruct H
         end.

Ltac zprop :=
  repeat rewrite ?orb_true_iff, ?orb_false_iff, ?andb_true_iff, ?andb_false_iff,
    ?negb_true_iff, ?negb_false_iff, ?Z.eqb_eq, ?Z.eqb_neq, ?Z.leb_le, ?Z.leb_gt in *.

Ltac zb :=
  unfold start_byte_ok, raw_byte_ok, is_ws, is_digit, is_alpha_us, is_word_byte, is_alnum_us, is_alpha,
    is_nl, is_cont, is_ascii, in_range in *;
  zprop; lia.

(* ------------------------------------------------------------------ byte classes *)

Lemma tok_eqb_eq : forall a b, tok_eqb a b = true -> a = b.
Proof. intros a b H; destruct a; destruct b; try reflexivity; discriminate H. Qed.

Lemma bytes_eqb_eq : forall a b, bytes_eqb a b = true -> a = b.
Proof.
  induction a as [|x a IH]; intros [|y b] H; cbn [bytes_eqb] in H; try discriminate; [reflexivity|].
  bsplit. apply Z.eqb_eq in H. subst y. f_equal. apply IH. assumption.
Qed.

Lemma words_eqb_eq : forall a b, words_eqb a b = true -> a = b.
Proof.
  induction a as [|x a IH]; intros [|y b] H; cbn [words_eqb] in H; try discriminate; [reflexivity|].
  bsplit. apply bytes_eqb_eq in H. subst y. f_equal. apply IH. assumption.
Qed.

Lemma alnum_is_word : forall b, is_alnum_us b = is_word_byte b.
Proof.
  intro b. unfold is_alnum_us, is_word_byte, is_alpha_us.
  destruct (is_alpha b), (is_digit b), (b =? 95)%Z; reflexivity.
Qed.

Lemma forallb_alnum_word : forall l, forallb is_alnum_us l = forallb is_word_byte l.
Proof. induction l as [|b l IH]; cbn [forallb]; [reflexivity|]. rewrite alnum_is_word, IH. reflexivity. Qed.

Lemma alpha_us_word : forall b, is_alpha_us b = true -> is_word_byte b = true.
Proof. intros b H. unfold is_word_byte. rewrite H. reflexivity. Qed.

Lemma word_byte_cases : forall b, is_word_byte b = true -> is_ws b = false /\ (b =? 35)%Z = false /\ is_cont b = false.
Proof. intros b H. repeat split; zb. Qed.

Lemma ws_not_word : forall b, is_ws b = true -> is_word_byte b = false /\ is_cont b = false /\ (b =? 46)%Z = false /\ is_alpha_us b = false /\ is_digit b = false.
Proof. intros b H. repeat split; zb. Qed.

Lemma hash_not_word : is_word_byte 35%Z = false /\ is_cont 35%Z = false /\ is_ws 35%Z = false.
Proof. repeat split; reflexivity. Qed.

(* ------------------------------------------------------------------ list helpers *)

Lemma skip_while_app : forall p a b pos,
  forallb p a = true ->
  match b with x :: _ => p x = false | [] => True end ->
  skip_while p (a ++ b) pos = {| c_rest := b; c_pos := pos + length a |}.
Proof.
  intros p a; induction a as [|x a IH]; intros b pos Ha Hb.
  - cbn [app length]. rewrite Nat.add_0_r. destruct b as [|y b]; cbn [skip_while]; [reflexivity|].
    rewrite Hb. reflexivity.
  - cbn [forallb] in Ha. bsplit. cbn [app skip_while length]. rewrite H. rewrite IH by assumption.
    f_equal. lia.
Qed.

Lemma skip_while_rest_drop : forall r pos, c_rest (skip_while is_ws r pos) = drop_ws r.
Proof.
  induction r as [|b r IH]; intro pos; cbn [skip_while drop_ws]; [reflexivity|].
  destruct (is_ws b); [apply IH|reflexivity].
Qed.

Lemma memchr2_skip : forall a b r t,
  forallb (fun x => negb ((x =? a)%Z || (x =? b)%Z)) r = true ->
  memchr2 a b (r ++ t) = length r + memchr2 a b t.
Proof.
  intros a b r t; induction r as [|x r IH]; intro H; cbn [app length]; [reflexivity|].
  cbn [forallb] in H. bsplit. cbn [memchr2]. apply negb_true_iff in H. rewrite H.
  rewrite IH by assumption. reflexivity.
Qed.

Lemma memchr2_hit : forall a b x t, ((x =? a)%Z || (x =? b)%Z) = true -> memchr2 a b (x :: t) = 0.
Proof. intros a b x t H. cbn [memchr2]. rewrite H. reflexivity. Qed.

Lemma memchr2_le : forall a b h, memchr2 a b h <= length h.
Proof. intros a b h; induction h as [|x h IH]; cbn [memchr2 length]; [lia|]. destruct ((x =? a)%Z || (x =? b)%Z); lia. Qed.

Lemma memchr2_none : forall a b r,
  forallb (fun x => negb ((x =? a)%Z || (x =? b)%Z)) r = true -> memchr2 a b r = length r.
Proof.
  intros a b r H. rewrite <- (app_nil_r r) at 1. rewrite memchr2_skip by assumption. cbn [memchr2]. lia.
Qed.

(* the head of a list is not a UTF-8 continuation byte (or the list is empty) *)
Definition bhead (l : bytes) : Prop := match l with b :: _ => is_cont b = false | [] => True end.

Lemma is_boundary_app : forall pre x, bhead x -> is_boundary (pre ++ x) (length pre) = true.
Proof.
  intros pre x H. unfold is_boundary. destruct x as [|b x].
  - rewrite app_nil_r, Nat.eqb_refl, orb_true_r. reflexivity.
  - replace (nth_error (pre ++ b :: x) (length pre)) with (Some b).
    + cbn [bhead] in H. rewrite H. cbn [negb]. apply orb_true_r.
    + rewrite nth_error_app2 by lia. rewrite Nat.sub_diag. reflexivity.
Qed.

Lemma slice_mid : forall pre mid post,
  bhead (mid ++ post) -> bhead post ->
  slice (pre ++ mid ++ post) (length pre) (length pre + length mid) = Some mid.
Proof.
  intros pre mid post H1 H2. unfold slice.
  assert (Hb1 : is_boundary (pre ++ mid ++ post) (length pre) = true) by (apply is_boundary_app; assumption).
  assert (Hb2 : is_boundary (pre ++ mid ++ post) (length pre + length mid) = true).
  { rewrite app_assoc. rewrite <- app_length. apply is_boundary_app. assumption. }
  rewrite Hb1, Hb2.
  replace (length pre <=? length pre + length mid) with true by (symmetry; apply Nat.leb_le; lia).
  replace (length pre + length mid <=? length (pre ++ mid ++ post)) with true
    by (symmetry; apply Nat.leb_le; rewrite !app_length; lia).
  cbn [andb]. f_equal.
  replace (length pre + length mid - length pre) with (length mid) by lia.
  rewrite skipn_app, skipn_all, Nat.sub_diag. cbn [skipn app].
  rewrite firstn_app, firstn_all, Nat.sub_diag. cbn [firstn]. apply app_nil_r.
Qed.

(* ------------------------------------------------------------------ next_token, one step *)

Lemma nt_ws : forall f v s b r p, is_ws b = true ->
  next_token (S f) v s {| c_rest := b :: r; c_pos := p |} =
  next_token (S f) v s {| c_rest := r; c_pos := S p |}.
Proof.
  intros f v s b r p H. cbn [next_token]. unfold skip_whitespace. cbn [c_rest c_pos skip_while].
  rewrite H. reflexivity.
Qed.

Lemma nt_ws_run : forall f v s g r p, forallb is_ws g = true ->
  next_token (S f) v s {| c_rest := g ++ r; c_pos := p |} =
  next_token (S f) v s {| c_rest := r; c_pos := p + length g |}.
Proof.
  intros f v s g; induction g as [|b g IH]; intros r p H; cbn [app length].
  - rewrite Nat.add_0_r. reflexivity.
  - cbn [forallb] in H. bsplit. rewrite nt_ws by assumption. rewrite IH by assumption. f_equal. f_equal. lia.
Qed.

Lemma nt_eof : forall f v s p,
  next_token (S f) v s {| c_rest := []; c_pos := p |} =
  Ok ({| t_kind := TEOF; t_payload := []; t_owned := false; t_start := p; t_end := p |},
      {| c_rest := []; c_pos := p |}, []).
Proof. intros. reflexivity. Qed.

(* the dispatch on the first byte of a token *)
Lemma nt_dispatch : forall f v s b r p, is_ws b = false ->
  next_token (S f) v s {| c_rest := b :: r; c_pos := p |} =
  let c1 := {| c_rest := b :: r; c_pos := p |} in
  if (b =? 35)%Z then next_token f v s (skip_comment c1)
  else if mem_z b quote_bytes then finish p (scan_string v s p b c1)
  else
    match assoc_z b punct_table with
    | Some k => finish p (Ok (k, [], false, adv1 c1, []))
    | None =>
        if is_digit b then finish p (scan_number v s p c1 (next_token f v s))
        else if is_alpha_us b then finish p (scan_identifier_or_keyword s p c1)
        else if negb (is_ascii b) then
          let w := char_width b in
          if (w =? 0) || (length (c_rest c1) <? w) then LexPanic PNonAsciiChars p
          else prepend_diag (mk_diag EUnexpectedChar 0 p (p + w)) (next_token f v s (advn w c1))
        else prepend_diag (mk_diag EUnexpectedChar 0 p p) (next_token f v s (adv1 c1))
    end.
Proof.
  intros f v s b r p H. cbn [next_token]. unfold skip_whitespace. cbn [c_rest c_pos skip_while].
  rewrite H. reflexivity.
Qed.

(* ------------------------------------------------------------------ separators *)

Fixpoint n_comments (sp : list sep_elem) : nat :=
  match sp with
  | [] => 0
  | SWs _ :: sp' => n_comments sp'
  | SComment _ _ :: sp' => S (n_comments sp')
  end.

Lemma n_comments_le : forall sp, n_comments sp <= length (sep_text sp).
Proof.
  induction sp as [|[b|body nl] sp IH]; cbn [n_comments sep_text sep_elem_text length app]; try lia.
  rewrite app_length. cbn [length]. lia.
Qed.

Lemma skip_comment_body : forall body nl r p,
  forallb (fun b => negb (is_nl b)) body = true -> is_nl nl = true ->
  skip_comment {| c_rest := 35%Z :: body ++ nl :: r; c_pos := p |} =
  {| c_rest := r; c_pos := p + length (35%Z :: body ++ [nl]) |}.
Proof.
  intros body nl r p Hb Hn. unfold skip_comment. cbn [c_rest].
  assert (Hm : memchr2 10 13 (35%Z :: body ++ nl :: r) = S (length body)).
  { change (35%Z :: body ++ nl :: r) with ((35%Z :: body) ++ nl :: r).
    rewrite memchr2_skip.
    - rewrite memchr2_hit by exact Hn. cbn [length]. lia.
    - cbn [forallb]. apply andb_true_intro. split; [reflexivity|]. exact Hb. }
  rewrite Hm. unfold advn. cbn [c_rest c_pos skipn].
  replace (skipn (length body) (body ++ nl :: r)) with (nl :: r)
    by (rewrite skipn_app, skipn_all, Nat.sub_diag; reflexivity).
  rewrite Hn. unfold adv1. cbn [c_rest c_pos tl]. f_equal. cbn [length]. rewrite app_length. cbn [length]. lia.
Qed.

Lemma skip_comment_eof : forall body p,
  forallb (fun b => negb (is_nl b)) body = true ->
  skip_comment {| c_rest := 35%Z :: body; c_pos := p |} =
  {| c_rest := []; c_pos := p + length (35%Z :: body) |}.
Proof.
  intros body p Hb. unfold skip_comment. cbn [c_rest].
  assert (Hm : memchr2 10 13 (35%Z :: body) = length (35%Z :: body)).
  { apply memchr2_none. cbn [forallb]. apply andb_true_intro. split; [reflexivity|]. exact Hb. }
  rewrite Hm. unfold advn. cbn [c_rest c_pos]. rewrite skipn_all. reflexivity.
Qed.

(* whitespace and comments in front of a token are skipped; each comment costs one unit of fuel *)
Lemma nt_skip_sep : forall sp f v s r p,
  forallb sep_elem_ok sp = true ->
  next_token (S (n_comments sp + f)) v s {| c_rest := sep_text sp ++ r; c_pos := p |} =
  next_token (S f) v s {| c_rest := r; c_pos := p + length (sep_text sp) |}.
Proof.
  induction sp as [|e sp IH]; intros f v s r p H.
  - cbn [n_comments sep_text app length]. rewrite Nat.add_0_r. reflexivity.
  - cbn [forallb] in H. bsplit. destruct e as [b|body nl]; cbn [sep_elem_ok] in H.
    + cbn [n_comments sep_text sep_elem_text app]. rewrite nt_ws by assumption.
      rewrite IH by assumption. f_equal. f_equal. cbn [length]. lia.
    + bsplit. cbn [n_comments sep_text sep_elem_text]. rewrite <- app_assoc. cbn [app].
      rewrite <- app_assoc. cbn [app].
      change (S (S (n_comments sp) + f)) with (S (S (n_comments sp + f))).
      rewrite nt_dispatch by reflexivity. cbv zeta.
      change ((35 =? 35)%Z) with true. cbv iota.
      rewrite skip_comment_body by assumption. rewrite IH by assumption.
      f_equal. f_equal. rewrite !app_length. cbn [length]. rewrite !app_length. cbn [length]. lia.
Qed.
